(* NoPanicFactsB.v — C11 / C06 "never panics", part B: path_exchange (CExch) and spawn_vehicle_for_maintenance (CMaint)
   of the neighbourhood model (Swaps.v), statements of NoPanicStmts.v.

   RESULTS (each part is a Module; the main theorems are re-exported at the end of the file)
   * wreachable_good : forall nw, stmt_wreachable_good nw.
   * stmt_apply_cand_no_crash is FALSE as written, for two independent reasons (both kernel-checked witnesses):
     - NPB_wit.WitnessRoom: on a loaded network, a schedule reached from a one-vehicle schedule by NINE ENUMERATED and
       successful local-search moves has all depots INCLUDING THE OVERFLOW DEPOT full; the enumerated candidate
       CMaint then panics at find_best_start_depot(..).expect("There should be at least the overflow depot available").
       load sizes the overflow depot at max(nservice * max_formation_count, vehicle_upper_bound) where a vehicle type
       WITHOUT formation limit counts as formation size 1, but hitch-hiking may put any number of such vehicles on one
       trip.  Hence SpawnRoom cannot be dropped, and "SpawnRoom in every wreachable schedule" (the premise of
       stmt_neighbors_no_crash) is false on that network.
     - NPB_wit2.WitnessGood: [Good] (the bundle of the C10 statements) only demands that dummy tours are
       chronological; on a Good record with SpawnRoom whose dummy tour is not connectable an enumerated CExch
       candidate panics at check_receiver_type_compatibility's sub_path(..).unwrap().  No wreachable schedule has such
       a dummy tour, so the theorems below are stated for wreachable schedules.
   * NPB_px.path_exchange_pre / NPB_mt.maint_pre: on a wreachable schedule, for an enumerated segment / maintenance
     candidate, the swap is either refused (Err) or EQUALS the final improve_and_recompute step on a wreachable
     schedule with a duplicate-free list of vehicles — under explicit room hypotheses for the two
     find_best_start_depot sites (spawn_to_replace_dummy after the provider's tour was used up; spawn_vehicle_for_path
     for the conflict path of the maintenance slot).
   * NPB_main: path_exchange_nc_enumerated, maintenance_nc_enumerated, apply_cand_exch_maint_no_crash, with the other
     prover's result as the explicit premise [IR] (improve_and_recompute returns Ok; no_crash alone would not do, since
     the swaps turn its Err into a panic).
   * NPB_comb (uses NoPanicFactsA.v): apply_cand_no_crash_under_rooms and neighbors_no_crash_under_rooms — for every
     wreachable schedule of a network with net_fine, net_extra_b (part A's executable side conditions, which imply
     unsigned_ok and cov_all), finite distances: if every wreachable schedule has SpawnRoom and room for two more
     vehicles (RoomN 2), then no candidate application and hence [neighbors] never crashes.  (By WitnessRoom that room
     premise is not satisfiable on every network: it is the precise precondition, not a fact.)
   Network side conditions beyond net_fine: [unsigned_ok] (cost rates, planning duration, distances are >= 0: u64 in
   the code, Z in the model; NPB_tour.TourNCWitness shows a panic with a negative rate) and [cov_all] (every activity
   node is coverable); executable readings in NPB_chk. *)

From Coq Require Sorted Arith.
From RS Require Base Network NetSpec Tour TourStmts TourExactStmts Transition Schedule NoPanicStmts BaseFacts NetFacts TourSpec TourFacts TourValidFacts TourExactFacts TransSpec SchedInv SchedObs SchedStruct SchedCostsFacts SchedUnservedFacts SchedViolFacts SchedListFacts SchedToursFacts SchedFormLimFacts SchedUsageFacts SchedFormsFacts SchedTransFacts SchedExactFacts Swaps SwapsStmts SwapsFacts SwapsStmts2 SwapsFacts2 PipelineSched RenderStmts TransStmts TransFacts TransFacts2 NoPanicFactsA.

Module NPB_defs.
Import Base Network NetSpec Tour TourStmts TourExactStmts Transition Schedule NoPanicStmts.
(* NPB_defs.v — shared definitions for the parts of NoPanicFactsB (scratch; merged into NoPanicFactsB.v at the end) *)

Local Open Scope Z_scope.

(* "unsigned" side conditions: in the Rust code these quantities are u64 / unsigned newtypes; the model uses Z *)
Record unsigned_ok (nw : network) : Prop := {
  uo_service : 0 <= c_service (nw_params nw);
  uo_maint : 0 <= c_maint (nw_params nw);
  uo_dh : 0 <= c_dh (nw_params nw);
  uo_idle : 0 <= c_idle (nw_params nw);
  uo_staff : 0 <= nw_nservice nw * c_staff (nw_params nw);
  uo_planning : 0 <= planning_sec nw;
  uo_travel : forall n m, n_travel_dist (nd nw n) = Dist m -> 0 <= m;
  uo_dhdist : forall a b m, dead_head_distance_between nw a b = Dist m -> 0 <= m }.

Lemma nc_ok {A} (a : A) : no_crash (Ok a).
Proof. split; discriminate. Qed.
Lemma nc_err {A} : no_crash (@Err A).
Proof. split; discriminate. Qed.
Lemma nc_bind {A B} (r : res A) (f : A -> res B) :
  no_crash r -> (forall a, r = Ok a -> no_crash (f a)) -> no_crash (bind r f).
Proof.
  intros [H1 H2] H. destruct r; cbn [bind]; try congruence; auto using nc_err.
Qed.
Lemma nc_of_ok {A} (r : res A) : (exists a, r = Ok a) -> no_crash r.
Proof. intros [a ->]. apply nc_ok. Qed.
End NPB_defs.

Module NPB_base.
Import Sorted.
Import Base BaseFacts Network NetSpec NetFacts Tour TourSpec TourStmts TourFacts TourValidFacts TourExactStmts TourExactFacts Transition TransSpec Schedule SchedInv SchedObs SchedStruct SchedCostsFacts SchedUnservedFacts SchedViolFacts SchedListFacts SchedToursFacts SchedFormLimFacts SchedUsageFacts SchedFormsFacts SchedTransFacts SchedExactFacts Swaps SwapsStmts SwapsFacts SwapsStmts2 SwapsFacts2 PipelineSched RenderStmts NoPanicStmts NPB_defs.
(* NPB_base.v — the invariant bundle of wreachable schedules and stmt_wreachable_good *)


Local Open Scope Z_scope.

Section Base.
Variable nw : network.
Hypothesis NF : net_fine nw.
Hypothesis DF : dists_finite_b nw = true.
Hypothesis DH : dh_dists_finite_b nw = true.

Lemma nf_wf : net_wf_b nw = true.
Proof. destruct NF as [OK _]. unfold net_ok_b in OK. apply andb_true_iff in OK. tauto. Qed.
Lemma nf_dp : durations_pos_b nw = true.
Proof. destruct NF as [OK _]. unfold net_ok_b in OK. apply andb_true_iff in OK. tauto. Qed.
Lemma nf_ml : maint_listed_ok nw.
Proof. destruct NF as (_ & ML & _). exact ML. Qed.

Theorem wreachable_good : stmt_wreachable_good nw.
Proof.
  intros _ _ _ s R. destruct NF as (OK & ML & ND).
  destruct (wreachable_sub nw s R) as (RV & RD & RR).
  assert (HS : forall n, In n (nw_maint nw) -> is_service (nd nw n) = false).
  { intros n Hn. apply ML in Hn. destruct (nd nw n); cbn in *; congruence. }
  constructor.
  - exact (vreachable_tours nw OK s RV).
  - exact (reachable_listing_under_distinct nw s RD).
  - exact (vreachable_forms_under_maint_listed nw OK ND ML s RV).
  - exact (reachable_form_limits nw s RR).
  - exact (reachable_usage nw s RR).
  - exact (reachable_trans_under_distinct nw s RD).
  - exact (vreachable_tours_exact nw OK DF DH s RV).
  - exact (reachable_costs nw s RR).
  - exact (reachable_unserved nw ND HS s RR).
  - exact (reachable_viol nw s RR).
Qed.

(* the stronger internal invariants of wreachable schedules (dummy tours connected, key discipline, listings) *)
Record WS (s : schedule) : Prop := {
  ws_reach : wreachable nw s;
  ws_inv : Inv nw s;
  ws_L : LInv nw true s;
  ws_T : TIs nw s;
  ws_E : EIs nw s;
  ws_trans : TransOK nw s;
  ws_us : US nw s;
  ws_forms : FormsOK nw s;
  ws_lim : FormLimitsOK nw s;
  ws_good : Good nw s }.

Lemma wreachable_WS s : wreachable nw s -> WS s.
Proof.
  intros R. pose proof NF as (OK & ML & ND).
  destruct (wreachable_sub nw s R) as (RV & RD & RR).
  constructor.
  - exact R.
  - now apply SchedCostsFacts.reachable_inv.
  - apply greachable_L. now apply dreachable_greachable.
  - apply vreachable_T; [apply nf_wf | apply nf_dp | exact RV].
  - apply vreachable_E; [apply nf_wf | apply nf_dp | exact DF | exact DH | exact RV].
  - exact (reachable_trans_under_distinct nw s RD).
  - now apply reachable_us.
  - exact (vreachable_forms_under_maint_listed nw OK ND ML s RV).
  - exact (reachable_form_limits nw s RR).
  - apply wreachable_good; auto.
Qed.
End Base.
Print Assumptions wreachable_good.
End NPB_base.

Module NPB_sched.
Import Sorted.
Import Base BaseFacts Network NetSpec NetFacts Tour TourSpec TourStmts TourFacts TourValidFacts TourExactStmts TourExactFacts Transition TransSpec Schedule SchedInv SchedObs SchedStruct SchedCostsFacts SchedUnservedFacts SchedViolFacts SchedListFacts SchedToursFacts SchedFormLimFacts SchedUsageFacts SchedFormsFacts SchedTransFacts SchedExactFacts Swaps SwapsStmts SwapsFacts SwapsStmts2 SwapsFacts2 PipelineSched RenderStmts NoPanicStmts NPB_defs NPB_base.
(* NPB_sched.v — totality of the schedule-level helpers: update_train_formation, update_depot_usage,
   update_tour_and_costs, update_tours *)


Local Open Scope Z_scope.

Lemma nc_panic_wrap {A} (r : res A) : (exists a, r = Ok a) -> no_crash (match r with Ok t => Ok t | _ => Panic end).
Proof. intros [a ->]. apply nc_ok. Qed.

Lemma nc_fold_nonok {S V} (f : res S -> V -> res S) :
  (forall r v, is_ok r = false -> f r v = r) ->
  forall l r, is_ok r = false -> fold_left f l r = r.
Proof. intros H l r Hr. now apply fold_nonok. Qed.

Section Sched.
Variable nw : network.
Notation formation := (list (vehicle_id * Z)).

(** * update_train_formation *)
Lemma rif_nc s f prov recv n : no_crash (replacement_in_formation nw s f prov recv n).
Proof.
  unfold replacement_in_formation.
  destruct prov as [p|]; destruct recv as [[r rty]|]; cbn [negb];
    repeat match goal with
    | |- no_crash (if ?b then _ else _) => destruct b
    | |- no_crash (match ?x with Some _ => _ | None => _ end) => destruct x
    | |- no_crash (Ok _) => apply nc_ok
    | |- no_crash Err => apply nc_err
    end.
Qed.

Definition has_forms (fm : list (node_id * formation)) (l : list node_id) : Prop :=
  forall n, In n l -> is_depot (nd nw n) = false -> nget n fm <> None.

Lemma nget_nset_ne n (x : formation) fm m : nget m fm <> None -> nget m (nset n x fm) <> None.
Proof.
  intros H. destruct (nget n fm) as [f|] eqn:G.
  - rewrite (nset_key _ _ _ _ G), nget_nrepl. destruct (nid_eqb m n); [|exact H].
    destruct (nget m fm); congruence.
  - unfold nset. destruct (existsb _ fm) eqn:Ex.
    + change (map _ fm) with (nrepl n x fm). rewrite nget_nrepl. destruct (nid_eqb m n); [|exact H].
      destruct (nget m fm); congruence.
    + unfold nget in *. clear G Ex. induction fm as [|[k y] fm IH]; cbn [app assoc] in *; [congruence|].
      destruct (nid_eqb m k); [congruence | auto].
Qed.

Lemma utf_nc s prov recv moved : forall fm uns, has_forms fm moved ->
  no_crash (update_train_formation nw s fm uns prov recv moved).
Proof.
  unfold update_train_formation.
  induction moved as [|n l IH]; intros fm uns HF; cbn [fold_left]; [apply nc_ok|].
  destruct uns as [ua ub]. cbn [bind].
  match goal with |- no_crash (fold_left ?G _ _) =>
    assert (Hno : forall r, is_ok r = false -> fold_left G l r = r)
      by (apply fold_nonok; intros [] ? Hr; try discriminate Hr; reflexivity) end.
  destruct (is_depot (nd nw n)) eqn:Edep.
  - apply IH. intros m Hm. apply HF. now right.
  - destruct (nget n fm) as [f|] eqn:En.
    2:{ exfalso. apply (HF n); auto. now left. }
    cbn [unwrap_opt bind].
    pose proof (rif_nc s f prov recv n) as Hr.
    destruct (replacement_in_formation nw s f prov recv n) as [f'| | |] eqn:Er; cbn [bind].
    + apply IH. intros m Hm Hd. apply nget_nset_ne. apply HF; auto. now right.
    + rewrite Hno by reflexivity. apply nc_err.
    + destruct Hr as [Hr _]. congruence.
    + destruct Hr as [_ Hr]. congruence.
Qed.

(* the keys of the formation map are kept by update_train_formation *)
Lemma utf_keeps s prov recv moved : forall fm uns fm' uns',
  update_train_formation nw s fm uns prov recv moved = Ok (fm', uns') ->
  forall m, nget m fm <> None -> nget m fm' <> None.
Proof.
  unfold update_train_formation.
  induction moved as [|n l IH]; intros fm uns fm' uns' H m Hm; cbn [fold_left] in H.
  - inversion H; subst; auto.
  - destruct uns as [ua ub]. cbn [bind] in H.
    match type of H with fold_left ?G _ _ = _ =>
      assert (Hno : forall r, is_ok r = false -> fold_left G l r = r)
        by (apply fold_nonok; intros [] ? Hr; try discriminate Hr; reflexivity) end.
    destruct (is_depot (nd nw n)).
    + eapply IH; eauto.
    + destruct (nget n fm) as [f|] eqn:En; cbn [unwrap_opt bind] in H.
      2:{ rewrite Hno in H by reflexivity. discriminate. }
      destruct (replacement_in_formation nw s f prov recv n) as [f'| | |] eqn:Er; cbn [bind] in H;
        try (rewrite Hno in H by reflexivity; discriminate).
      eapply IH; [exact H|]. now apply nget_nset_ne.
Qed.

(** * update_depot_usage *)
Lemma rm_spawn_nc U d ty v : In v (sp_of U d ty) -> exists U', usage_remove_spawn U d ty v = Ok U'.
Proof.
  unfold usage_remove_spawn, sp_of. fold (ent_of U d ty). destruct (ent_of U d ty) as [sp de]. cbn [fst].
  intros I. apply memv_in in I. rewrite I. eauto.
Qed.
Lemma rm_despawn_nc U d ty v : In v (de_of U d ty) -> exists U', usage_remove_despawn U d ty v = Ok U'.
Proof.
  unfold usage_remove_despawn, de_of. fold (ent_of U d ty). destruct (ent_of U d ty) as [sp de]. cbn [snd].
  intros I. apply memv_in in I. rewrite I. eauto.
Qed.

(* [v]'s record in [U] is at the depots of its tour in [s] (if it is a vehicle of [s]); the new tour, if any, starts
   at a start depot and ends at an end depot *)
Lemma udu_nd_ok s U V T v ty nt :
  UX nw V T [] U ->
  (is_vehicle s v = true -> exists t, tour_of s v = Ok t /\ vget v V = Some ty /\ vget v T = Some t /\
       is_start_depot (nd nw (first_node t)) = true /\ is_end_depot (nd nw (last_node t)) = true) ->
  (forall t, nt = Some t -> is_start_depot (nd nw (first_node t)) = true /\ is_end_depot (nd nw (last_node t)) = true) ->
  exists U', update_depot_usage_nd nw s U v ty nt = Ok U'.
Proof.
  intros [K N S D] HV HN. unfold update_depot_usage_nd.
  assert (E1 : exists a, (match nt with Some t => do x <- start_depot nw t; Ok (Some x) | None => Ok None end) = Ok a).
  { destruct nt as [t|]; [|eauto]. destruct (HN t eq_refl) as [A _]. unfold start_depot. rewrite A. cbn [bind]. eauto. }
  destruct E1 as [a ->]. cbn [bind].
  assert (E2 : exists a, (match nt with Some t => do x <- end_depot nw t; Ok (Some x) | None => Ok None end) = Ok a).
  { destruct nt as [t|]; [|eauto]. destruct (HN t eq_refl) as [_ A]. unfold end_depot. rewrite A. cbn [bind]. eauto. }
  destruct E2 as [b ->]. cbn [bind].
  destruct (is_vehicle s v) eqn:Ev.
  - destruct (HV eq_refl) as (t & Ht & GV & GT & A1 & A2). rewrite Ht. cbn [bind].
    unfold start_depot, end_depot. rewrite A1, A2. cbn [bind].
    destruct (rm_spawn_nc U (get_depot_idx nw (first_node t)) ty v) as [u1 E1].
    { apply S. split; [|intros []]. exists t. auto. }
    rewrite E1. cbn [bind].
    destruct (rm_spawn_eff _ _ _ _ _ E1) as [_ [Es Ed _ _]].
    match goal with |- context [usage_remove_despawn ?u2 ?d ?ty ?v] =>
      destruct (rm_despawn_nc u2 d ty v) as [u3 E3] end.
    { destruct a as [x|].
      - destruct (add_spawn_eff u1 (get_depot_idx nw x) ty v) as [_ Ed2 _ _]. apply Ed2. unfold f_id.
        apply Ed. unfold f_id. apply D. split; [|intros []]. exists t. auto.
      - apply Ed. unfold f_id. apply D. split; [|intros []]. exists t. auto. }
    rewrite E3. cbn [bind]. eauto.
  - cbn [bind]. eauto.
Qed.

Lemma udu_nc s U V T V' T' v :
  UX nw V T [] U ->
  (is_vehicle s v = true -> exists ty t, vget v (s_vehicles s) = Some ty /\ tour_of s v = Ok t /\
       vget v V = Some ty /\ vget v T = Some t /\
       is_start_depot (nd nw (first_node t)) = true /\ is_end_depot (nd nw (last_node t)) = true) ->
  (forall ty ty', vget v V' = Some ty -> vget v (s_vehicles s) = Some ty' -> ty = ty') ->
  (forall ty, vget v V' = Some ty -> forall t, vget v T' = Some t ->
       is_start_depot (nd nw (first_node t)) = true /\ is_end_depot (nd nw (last_node t)) = true) ->
  exists U', update_depot_usage nw s U V' T' v = Ok U'.
Proof.
  intros UXs HV Stab HN. unfold update_depot_usage.
  destruct (vget v V') as [ty|] eqn:GV.
  - destruct (udu_nd_ok s U V T v ty (vget v T') UXs) as [U' E].
    + intros Ev. destruct (HV Ev) as (ty0 & t & G0 & Ht & G1 & G2 & A).
      assert (ty = ty0) by (eapply Stab; eauto). subst ty0. exists t. auto.
    + intros t Gt. eapply HN; eauto.
    + rewrite E. eauto.
  - destruct (vget v (s_vehicles s)) as [ty|] eqn:G0; [|eauto].
    destruct (udu_nd_ok s U V T v ty None UXs) as [U' E].
    + intros Ev. destruct (HV Ev) as (ty0 & t & G0' & Ht & G1 & G2 & A).
      inversion G0'; subst ty0. exists t. auto.
    + intros t Q. discriminate Q.
    + rewrite E. eauto.
Qed.
End Sched.
End NPB_sched.

Module NPB_tour.
Import Arith.
Import Base BaseFacts Network NetSpec NetFacts Tour TourSpec TourStmts TourFacts TourValidFacts TourExactStmts TourExactFacts NoPanicStmts NPB_defs.
(* NPB_tour.v — totality / no-crash of the tour operations of Tour.v on valid, exact tours (part of NoPanicFactsB).
   Every unsigned subtraction of [remove] / [insert_path] subtracts a part of a sum of nonnegative summands from the
   whole sum, along the decomposition t_nodes t = pre ++ mid ++ suf of TourExactFacts.v. *)


Local Open Scope Z_scope.

(** * Generic arithmetic: subtracting a part from the whole never underflows *)
Lemma dt_diff_len_nonneg a b z : dt_diff a b = Ok (Len z) -> 0 <= z.
Proof.
  unfold dt_diff. destruct (dt_leb b a) eqn:E; [|discriminate].
  destruct a as [|x|]; destruct b as [|y|]; try discriminate; intros H; inversion H; subst; try lia.
  apply dt_leb_point in E. lia.
Qed.
Lemma dt_diff_sec_nonneg a b d p : 0 <= p -> dt_diff a b = Ok d -> 0 <= dur_sec_or d p.
Proof.
  intros Hp H. destruct d as [z|]; cbn [dur_sec_or]; [|exact Hp]. eapply dt_diff_len_nonneg; eauto.
Qed.

Lemma dur_sub_part a b c :
  (forall z, a = Len z -> 0 <= z) -> (forall z, c = Len z -> 0 <= z) ->
  exists r, dur_sub (dur_add (dur_add a b) c) b = Ok r.
Proof.
  intros Ha Hc. destruct a as [x|], b as [y|], c as [w|]; cbn [dur_add]; unfold dur_sub; cbn [dur_leb];
    try (eexists; reflexivity).
  specialize (Ha x eq_refl). specialize (Hc w eq_refl).
  destruct (Z.leb_spec y (x + y + w)); [eexists; reflexivity|lia].
Qed.
Lemma dist_sub_part a b c :
  (forall z, a = Dist z -> 0 <= z) -> (forall z, c = Dist z -> 0 <= z) ->
  exists r, dist_sub (dist_add (dist_add a b) c) b = Ok r.
Proof.
  intros Ha Hc. destruct a as [x|], b as [y|], c as [w|]; cbn [dist_add]; unfold dist_sub;
    try (eexists; reflexivity).
  specialize (Ha x eq_refl). specialize (Hc w eq_refl).
  destruct (Z.leb_spec y (x + y + w)); [eexists; reflexivity|lia].
Qed.
Lemma z_sub_cost_ok a b : b <= a -> exists r, z_sub_cost a b = Ok r.
Proof. intros H. unfold z_sub_cost. destruct (Z.leb_spec b a); [eexists; reflexivity|lia]. Qed.

Lemma z_sum_nonneg l : (forall x, In x l -> 0 <= x) -> 0 <= z_sum l.
Proof.
  induction l as [|a l IH]; intros H; [unfold z_sum; cbn [fold_left]; lia|].
  rewrite z_sum_cons. assert (0 <= a) by (apply H; left; reflexivity).
  assert (0 <= z_sum l) by (apply IH; intros x Hx; apply H; right; exact Hx). lia.
Qed.

Lemma forallb_false_in {A} (f : A -> bool) l x : In x l -> f x = false -> forallb f l = false.
Proof.
  intros Hin Hf. destruct (forallb f l) eqn:E; [|reflexivity].
  rewrite forallb_forall in E. rewrite (E x Hin) in Hf. discriminate.
Qed.

Section TourNC.
Variable nw : network.
Hypothesis WF : net_wf_b nw = true.
Hypothesis DP : durations_pos_b nw = true.
Hypothesis DF : dists_finite_b nw = true.
Hypothesis U : unsigned_ok nw.
Notation d0 := (SD 0).

(** * L1: every summand of the cached figures is nonnegative *)
Lemma planning_nonneg : 0 <= planning_sec nw.
Proof. exact (uo_planning nw U). Qed.

Lemma node_duration_nonneg n z : node_duration nw n = Len z -> 0 <= z.
Proof.
  unfold node_duration. destruct (n_duration (nd nw n)) as [d| | |] eqn:E; try (intros H; inversion H; lia).
  intros ->. unfold n_duration in E.
  destruct (nd nw n); try (inversion E; lia); eapply dt_diff_len_nonneg; exact E.
Qed.
Lemma node_duration_sec_nonneg n : 0 <= dur_sec_or (node_duration nw n) (planning_sec nw).
Proof.
  destruct (node_duration nw n) as [z|] eqn:E; cbn [dur_sec_or]; [|exact planning_nonneg].
  eapply node_duration_nonneg; exact E.
Qed.

Lemma sm_cost_nonneg n : 0 <= sm_cost nw n.
Proof.
  unfold sm_cost. pose proof (node_duration_sec_nonneg n) as H.
  pose proof (uo_service nw U). pose proof (uo_maint nw U).
  destruct (nd nw n); nia.
Qed.

Lemma dh_time_sec_nonneg a b : 0 <= dur_sec_or (dead_head_time_between nw a b) (planning_sec nw).
Proof.
  unfold dead_head_time_between.
  destruct (loc_travel_time nw (n_end_loc (nd nw a)) (n_start_loc (nd nw b))) as [z|] eqn:E; cbn [dur_sec_or].
  - eapply (travel_nonneg nw WF); exact E.
  - exact planning_nonneg.
Qed.

Lemma idle_sec_nonneg a b : 0 <= idle_sec nw a b.
Proof.
  unfold idle_sec. destruct (idle_time_between nw a b) as [d| | |] eqn:E; try lia.
  unfold idle_time_between in E.
  destruct (is_start_depot (nd nw a) || is_end_depot (nd nw b)).
  - inversion E; subst. cbn [dur_sec_or]. lia.
  - destruct (dt_leb _ _) in E.
    + eapply dt_diff_sec_nonneg; [exact planning_nonneg|exact E].
    + inversion E; subst. cbn [dur_sec_or]. lia.
Qed.

Lemma dhi_cost_nonneg a b : 0 <= dhi_cost nw a b.
Proof.
  unfold dhi_cost. pose proof (dh_time_sec_nonneg a b). pose proof (idle_sec_nonneg a b).
  pose proof (uo_dh nw U). pose proof (uo_idle nw U). nia.
Qed.

Lemma SM_nonneg l : 0 <= SM nw l.
Proof.
  unfold SM. apply z_sum_nonneg. intros x Hx. apply in_map_iff in Hx. destruct Hx as (n & <- & _).
  apply sm_cost_nonneg.
Qed.
Lemma CS_nonneg ps : 0 <= CS nw ps.
Proof.
  unfold CS. apply z_sum_nonneg. intros x Hx. apply in_map_iff in Hx. destruct Hx as ([a b] & <- & _).
  apply dhi_cost_nonneg.
Qed.

Theorem tour_costs_nonneg : forall l, 0 <= compute_costs nw l.
Proof. intros l. rewrite costs_CS. pose proof (SM_nonneg l). pose proof (CS_nonneg (windows l)). lia. Qed.

Corollary exact_costs_nonneg t : tour_exact nw t -> 0 <= t_costs t.
Proof. intros H. destruct (exact_proj nw t H) as (_ & _ & _ & _ & ->). apply tour_costs_nonneg. Qed.

(* the three other sums *)
Lemma useful_nonneg l z : compute_useful nw l = Len z -> 0 <= z.
Proof.
  revert z; induction l as [|a l IH]; intros z.
  - unfold compute_useful, dur_sum. cbn [map fold_left]. intros H; inversion H; lia.
  - change (a :: l) with ([a] ++ l). rewrite useful_app, useful_one.
    destruct (node_duration nw a) as [x|] eqn:Ea; destruct (compute_useful nw l) as [y|]; cbn [dur_add];
      try discriminate.
    intros H; inversion H; subst. pose proof (node_duration_nonneg a x Ea). specialize (IH y eq_refl). lia.
Qed.
Lemma sdist_nonneg l z : compute_sdist nw l = Dist z -> 0 <= z.
Proof.
  revert z; induction l as [|a l IH]; intros z.
  - unfold compute_sdist, dist_sum. cbn [map fold_left]. intros H; inversion H; lia.
  - change (a :: l) with ([a] ++ l). rewrite sdist_app, sdist_one.
    destruct (n_travel_dist (nd nw a)) as [x|] eqn:Ea; destruct (compute_sdist nw l) as [y|]; cbn [dist_add];
      try discriminate.
    intros H; inversion H; subst. pose proof (uo_travel nw U a x Ea). specialize (IH y eq_refl). lia.
Qed.
Lemma DS_nonneg ps z : DS nw ps = Dist z -> 0 <= z.
Proof.
  revert z; induction ps as [|[a b] ps IH]; intros z.
  - unfold DS, dist_sum. cbn [map fold_left]. intros H; inversion H; lia.
  - change ((a, b) :: ps) with ([(a, b)] ++ ps). rewrite DS_app, DS_one.
    destruct (dead_head_distance_between nw a b) as [x|] eqn:Ea; destruct (DS nw ps) as [y|]; cbn [dist_add];
      try discriminate.
    intros H; inversion H; subst. pose proof (uo_dhdist nw U a b x Ea). specialize (IH y eq_refl). lia.
Qed.

(** * The four subtractions along t_nodes t = pre ++ mid ++ suf *)
Section Split.
Variables (t : tour) (pre mid suf : list node_id).
Hypothesis EX : tour_exact nw t.
Hypothesis El : t_nodes t = pre ++ mid ++ suf.

Lemma sub_useful_ok : exists r, dur_sub_sum nw (t_useful t) mid = Ok r.
Proof.
  destruct (exact_proj nw t EX) as (_ & Eu & _).
  unfold dur_sub_sum. fold (compute_useful nw mid).
  rewrite Eu, El, !useful_app, <- dur_add_assoc.
  apply dur_sub_part; apply useful_nonneg.
Qed.
Lemma sub_sdist_ok : exists r, dist_sub (t_sdist t) (dist_sum (map (fun n => n_travel_dist (nd nw n)) mid)) = Ok r.
Proof.
  destruct (exact_proj nw t EX) as (_ & _ & Es & _).
  fold (compute_sdist nw mid).
  rewrite Es, El, !sdist_app, <- dist_add_assoc.
  apply dist_sub_part; apply sdist_nonneg.
Qed.
Lemma sub_ddist_ok :
  exists r, dist_sub (t_ddist t) (dead_head_distance_of_segment nw t (length pre) (length pre + length mid)) = Ok r.
Proof.
  destruct (exact_proj nw t EX) as (_ & _ & _ & Ed & _).
  rewrite (ddseg_eq nw t pre mid suf El).
  rewrite Ed, El, ddist_DS, (windows_3 d0), !DS_app, <- dist_add_assoc.
  apply dist_sub_part; apply DS_nonneg.
Qed.
Lemma sub_costs_ok :
  exists r, z_sub_cost (t_costs t) (costs_of_segment nw t (length pre) (length pre + length mid)) = Ok r.
Proof.
  destruct (exact_proj nw t EX) as (_ & _ & _ & _ & Ec).
  rewrite (cseg_eq nw t pre mid suf El).
  apply z_sub_cost_ok.
  rewrite Ec, El, costs_CS, (windows_3 d0), !CS_app, !SM_app.
  pose proof (SM_nonneg pre). pose proof (SM_nonneg suf).
  pose proof (CS_nonneg (windows pre)). pose proof (CS_nonneg (windows suf)). lia.
Qed.
End Split.

(** * L2: remove never crashes on a valid exact tour *)
Lemma inner_nondep l k : connected nw l -> (1 <= k)%nat -> (k + 1 < length l)%nat ->
  node_is_depot nw (nth k l d0) = false.
Proof.
  intros C H1 H2. destruct k as [|k]; [lia|].
  pose proof (connected_nth nw l k C ltac:(lia)) as R1.
  pose proof (connected_nth nw l (S k) C ltac:(lia)) as R2.
  apply cr_ends in R1, R2. destruct R1 as [R1 _]. destruct R2 as [_ R2].
  change (node_is_depot nw (nth (S k) l d0)) with (sdep nw (nth (S k) l d0) || edep nw (nth (S k) l d0)).
  rewrite R1, R2. reflexivity.
Qed.

Lemma remove_nodes_nc t seg : TV nw t -> no_crash (remove_nodes nw t seg).
Proof.
  intros V. destruct seg as [a b].
  rewrite (remove_nodes_ref_at nw t a b (TV_len3 nw t V) (TV_nonempty nw t V)).
  destruct (pos_of (t_nodes t) a); [|apply nc_err].
  destruct (pos_of (t_nodes t) b); [|apply nc_err].
  destruct (ref_removable nw (t_dummy t) (t_nodes t) n n0); [apply nc_ok|apply nc_err].
Qed.

(* the removed range contains a non-depot *)
Lemma removed_has_nondep t seg sp ep tn removed : TV nw t ->
  remove_nodes nw t seg = Ok (sp, ep, tn, removed) -> forallb (node_is_depot nw) removed = false.
Proof.
  intros V RN. apply remove_nodes_inv in RN. destruct RN as (H1 & H2 & _ & -> & C1 & C2).
  pose proof (TV_connected nw t V) as C. unfold slice.
  destruct (t_dummy t) eqn:Dm.
  - unfold TV in V. rewrite Dm in V. destruct V as (_ & _ & ND).
    apply (forallb_false_in _ _ (nth sp (t_nodes t) d0)).
    + apply (in_slice_nth _ sp _ sp); [lia|lia|]. apply nth_error_nth'. lia.
    + apply ND. apply nth_In. lia.
  - pose proof (TV_len3 nw t V Dm) as L3. specialize (C1 eq_refl). specialize (C2 eq_refl).
    set (k := match sp with O => 1%nat | _ => sp end).
    assert (K : (sp <= k /\ k <= ep /\ 1 <= k /\ k + 1 < length (t_nodes t))%nat).
    { subst k. destruct sp as [|sp'].
      - specialize (C1 eq_refl). lia.
      - destruct (Nat.eq_dec ep (length (t_nodes t) - 1)) as [E|E]; [specialize (C2 E)|]; lia. }
    apply (forallb_false_in _ _ (nth k (t_nodes t) d0)).
    + apply (in_slice_nth _ sp _ k); [lia|lia|]. apply nth_error_nth'. lia.
    + apply inner_nondep; [exact C|lia|lia].
Qed.

Theorem remove_nc : forall t seg, TV nw t -> tour_exact nw t -> no_crash (Tour.remove nw t seg).
Proof.
  intros t seg V EX. unfold remove.
  pose proof (remove_nodes_nc t seg V) as NC.
  destruct (remove_nodes nw t seg) as [[[[sp ep] tn] removed]| | |] eqn:RN; cbn [bind];
    [|apply nc_err|destruct NC; congruence|destruct NC; congruence].
  pose proof (removed_has_nondep t seg sp ep tn removed V RN) as ND.
  apply remove_nodes_inv in RN. destruct RN as (H1 & H2 & -> & -> & _ & _).
  destruct (split3 (t_nodes t) sp (ep + 1)) as (El & Lp & Lm); [lia|lia|].
  set (pre := firstn sp (t_nodes t)) in *. set (mid := slice sp (ep + 1) (t_nodes t)) in *.
  set (suf := skipn (ep + 1) (t_nodes t)) in *. clearbody pre mid suf.
  assert (Hep : (ep + 1 = length pre + length mid)%nat) by lia. subst sp. rewrite Hep.
  destruct (sub_useful_ok t pre mid suf EX El) as (u0 & ->). cbn [bind].
  destruct (sub_sdist_ok t pre mid suf EX El) as (s0 & ->). cbn [bind].
  destruct (sub_ddist_ok t pre mid suf EX El) as (dd0 & ->). cbn [bind].
  destruct (sub_costs_ok t pre mid suf EX El) as (c0 & ->). cbn [bind].
  unfold path_new_trusted. rewrite ND.
  match goal with |- no_crash (if ?c then _ else _) => destruct c end; apply nc_ok.
Qed.

(** * L3: insert_path succeeds on a valid exact tour and a valid path *)
Theorem insert_path_total : forall t p, TV nw t -> tour_exact nw t -> valid_path nw p ->
  exists r, insert_path nw t p = Ok r.
Proof.
  intros t p V EX VP. unfold insert_path.
  pose proof (TV_connected nw t V) as C. pose proof (TV_nonempty nw t V) as NE.
  destruct (insert_nodes_ref_at nw WF DP (t_dummy t) (t_nodes t) p NE (connected_chrono nw WF DP _ C) VP)
    as (sp' & ep' & p1' & IN').
  destruct (insert_nodes nw (t_dummy t) (t_nodes t) p) as [[[[[sp ep] newl] removed] new]| | |] eqn:IN;
    try discriminate IN'.
  clear IN'. cbn [bind].
  apply insert_nodes_inv in IN. destruct IN as (Hn & H1 & H2 & -> & ->).
  destruct (split3 (t_nodes t) sp ep H1 H2) as (El & Lp & Lm).
  set (pre := firstn sp (t_nodes t)) in *. set (mid := slice sp ep (t_nodes t)) in *.
  set (suf := skipn ep (t_nodes t)) in *. clearbody pre mid suf.
  assert (Hep : ep = (length pre + length mid)%nat) by lia. subst sp. subst ep. clear H1 H2 Lm.
  destruct (sub_useful_ok t pre mid suf EX El) as (u0 & ->). cbn [bind].
  destruct (sub_sdist_ok t pre mid suf EX El) as (s0 & ->). cbn [bind].
  destruct (sub_costs_ok t pre mid suf EX El) as (c0 & Ec0).
  destruct (t_ddist t) as [m|] eqn:Em.
  - destruct (sub_ddist_ok t pre mid suf EX El) as (dd0 & Edd). rewrite Em in Edd. rewrite Edd. cbn [bind].
    rewrite Ec0. cbn [bind]. eexists; reflexivity.
  - cbn [bind]. rewrite Ec0. cbn [bind]. eexists; reflexivity.
Qed.

Corollary insert_path_nc : forall t p, TV nw t -> tour_exact nw t -> valid_path nw p ->
  no_crash (insert_path nw t p).
Proof. intros t p V EX VP. apply nc_of_ok. now apply insert_path_total. Qed.

(** * L4: conflict *)
(* general form: both nodes arbitrary, with the side condition of [gip_ok] *)
Lemma conflict_total_gen : forall t x y, t_nodes t <> [] -> chrono nw (t_nodes t) ->
  (nid_is_depot nw x = false -> dt_ltb (start_time nw x) (end_time nw y) = true) ->
  exists r, conflict nw t (x, y) = Ok r.
Proof.
  intros t x y NE CH H. unfold conflict. cbn [fst snd].
  destruct (gip_ok nw WF DP (t_nodes t) CH x y NE H) as (G & A & B). rewrite G. cbn [bind].
  unfold slice_res. rewrite (proj2 (Nat.leb_le _ _) A), (proj2 (Nat.leb_le _ _) B). cbn [andb bind].
  eexists; reflexivity.
Qed.

Lemma path_ends_lt p f : valid_path nw p -> hd_error p = Some f ->
  nid_is_depot nw f = false -> dt_ltb (start_time nw f) (end_time nw (last p f)) = true.
Proof.
  intros (NE & CN & _) Hf Df. destruct p as [|f' r]; [discriminate|]. inversion Hf; subst f'.
  destruct (dur_pos nw DP f) as [D|D]; [unfold nid_is_depot in Df; congruence|].
  eapply dt_lt_le_trans; [exact D|].
  rewrite (last_indep (f :: r) f d0) by discriminate.
  exact (conn_end_mono nw WF DP (f :: r) NE CN).
Qed.

Theorem conflict_total : forall t p, TV nw t -> valid_path nw p ->
  forall f, hd_error p = Some f -> exists r, conflict nw t (f, last p f) = Ok r.
Proof.
  intros t p V VP f Hf. apply conflict_total_gen.
  - exact (TV_nonempty nw t V).
  - apply (connected_chrono nw WF DP). exact (TV_connected nw t V).
  - now apply path_ends_lt.
Qed.

Theorem conflict_nc : forall t p, TV nw t -> valid_path nw p ->
  forall f, hd_error p = Some f -> no_crash (conflict nw t (f, last p f)).
Proof. intros t p V VP f Hf. apply nc_of_ok. now apply conflict_total. Qed.

(** * L5: the binary search has enough fuel *)
Theorem latest_not_reaching_nc : forall l x, l <> [] -> no_crash (latest_not_reaching_node_l nw l x).
Proof.
  intros l x NE. unfold latest_not_reaching_node_l.
  destruct (can_reach nw (last l d0) x); [apply nc_ok|].
  destruct (eaa_ok nw l (start_time nw x) (search_fuel l) 0 (length l)) as (r & Hr & _).
  - destruct l; [congruence|cbn [length]; lia].
  - unfold search_fuel. lia.
  - rewrite Hr. cbn [bind]. apply nc_ok.
Qed.

End TourNC.

Print Assumptions sm_cost_nonneg.
Print Assumptions dhi_cost_nonneg.
Print Assumptions tour_costs_nonneg.
Print Assumptions exact_costs_nonneg.
Print Assumptions remove_nc.
Print Assumptions insert_path_total.
Print Assumptions insert_path_nc.
Print Assumptions conflict_total_gen.
Print Assumptions conflict_total.
Print Assumptions conflict_nc.
Print Assumptions latest_not_reaching_nc.

(** * Witnesses: the side conditions are needed *)
Module TourNCWitness.
Import TourExactFacts.Counterexample.
(* (a) [conflict] on an arbitrary segment panics (slice with start > end): the segment's first node lies after its
   last node. Network nw0 of TourExactFacts (well-formed, positive durations), dummy tour [SV 2], segment (SV 3, SV 1). *)
Definition tA : tour := new_computing nw0 [SV 2] true.
Lemma conflict_can_panic :
  net_wf_b nw0 = true /\ durations_pos_b nw0 = true /\ TV nw0 tA /\ conflict nw0 tA (SV 3, SV 1) = Panic.
Proof.
  split; [reflexivity|]. split; [reflexivity|]. split; [|vm_compute; reflexivity].
  unfold TV, tA. cbn [t_dummy new_computing t_nodes]. split; [discriminate|]. split.
  - intros a b [].
  - intros x [<-|[]]. vm_compute. reflexivity.
Qed.

(* (b) [unsigned_ok] is needed: with a negative cost rate (impossible for the u64 of the code) the cost subtraction of
   [remove] underflows on a valid exact dummy tour *)
Definition nwB : network :=
  {| nw_nodes := nw_nodes nw0; nw_depots := []; nw_overflow := (0, SD 0, ED 0); nw_service := []; nw_maint := [];
     nw_sdepots := []; nw_edepots := []; nw_all_by_start := []; nw_type_by_start := []; nw_type_by_end := [];
     nw_params := {| p_forbid := false; p_min := 0; p_dht := 0; p_maxdist := 0; c_staff := 0; c_service := -1;
                     c_maint := 0; c_dh := 0; c_idle := 0 |};
     nw_nlocs := 1%nat; nw_dh := []; nw_types := []; nw_nservice := 3; nw_planning := Len 86400 |}.
Definition tB : tour := new_computing nwB [SV 1; SV 2; SV 3] true.
Lemma remove_needs_unsigned :
  net_wf_b nwB = true /\ durations_pos_b nwB = true /\ dists_finite_b nwB = true /\ TV nwB tB /\
  tour_exact nwB tB /\ remove nwB tB (SV 2, SV 2) = Panic.
Proof.
  split; [reflexivity|]. split; [reflexivity|]. split; [reflexivity|].
  split; [|split; [reflexivity|vm_compute; reflexivity]].
  unfold TV, tB. cbn [t_dummy new_computing t_nodes]. split; [discriminate|]. split.
  - intros a b [E|[E|[]]]; inversion E; subst; vm_compute; reflexivity.
  - intros x [<-|[<-|[<-|[]]]]; vm_compute; reflexivity.
Qed.
End TourNCWitness.
Print Assumptions TourNCWitness.conflict_can_panic.
Print Assumptions TourNCWitness.remove_needs_unsigned.
End NPB_tour.

Module NPB_trans.
Import Base BaseFacts Network Tour Transition TransSpec TransStmts TransFacts TransFacts2 Schedule SchedInv SchedStruct SchedCostsFacts SchedListFacts SchedTransFacts NoPanicStmts NPB_defs.
(* NPB_trans.v — totality (no Panic / OutOfFuel) of update_transitions under the rotation-cycle invariant TInv.
   Part 1: the three Transition.v operations used by update_transitions return Ok under TInv + tours_total.
   Part 2: one step of the fold ([ut_step], SchedTransFacts.v) does not crash under the loop invariant J.
   Part 3: the fold, hence update_transitions, does not crash. *)

Local Open Scope Z_scope.

(** * Part 1: the operations on one transition *)
Section Ops.
Variable nw : network.

Lemma tour_info_total upd old x : eff upd old x <> None -> exists i, tour_info upd old x = Ok i.
Proof.
  intros H. destruct (eff upd old x) as [i|] eqn:E; [|congruence].
  exists i. now apply tour_info_eff.
Qed.

Lemma members_cycle (t : transition) v :
  In v (members_of t) -> exists k c, nth_error (tr_cycles t) k = Some c /\ In v (fst c).
Proof.
  unfold members_of. intros H. apply in_concat in H. destruct H as (l & Hl & Hv).
  apply in_map_iff in Hl. destruct Hl as (c & <- & Hc).
  apply In_nth_error in Hc. destruct Hc as [k Hk]. eauto.
Qed.

(* the cycle of a member: lookup entry, cycle, position *)
Lemma member_site tours m t v :
  TInv nw tours m t -> In v m ->
  exists k c pre suf, lookup_get v (tr_lookup t) = Some k /\ nth_error (tr_cycles t) k = Some c /\
                      fst c = pre ++ v :: suf /\ ~ In v pre /\ ~ In v suf.
Proof.
  intros I Hv. apply (ti_members _ _ _ _ I) in Hv. apply members_cycle in Hv.
  destruct Hv as (k & c & Hk & Hc).
  pose proof (inv_cycle_nodup _ _ _ _ _ _ I Hk) as Hnd.
  destruct (split_nodup _ _ Hc Hnd) as (pre & suf & Ec & Hp & Hs).
  exists k, c, pre, suf. repeat split; auto. eapply inv_lookup_k; eauto.
Qed.

Lemma pred_succ_ok t v upd old k c pre suf :
  lookup_get v (tr_lookup t) = Some k -> nth_error (tr_cycles t) k = Some c ->
  fst c = pre ++ v :: suf -> ~ In v pre ->
  eff upd old (last (suf ++ pre) v) <> None -> eff upd old (hd v (suf ++ pre)) <> None ->
  exists r, pred_succ_depots t v upd old = Ok r.
Proof.
  intros Hl Hk Hc Hp H1 H2. unfold pred_succ_depots.
  rewrite Hl. cbn [unwrap_opt bind]. rewrite Hk. cbn [unwrap_opt bind].
  rewrite Hc. rewrite index_of_split by auto. cbn [unwrap_opt bind].
  rewrite pred_list, succ_list. cbn [unwrap_opt bind].
  destruct (tour_info_total _ _ _ H1) as [ip ->]. cbn [bind].
  destruct (tour_info_total _ _ _ H2) as [isu ->]. cbn [bind]. eauto.
Qed.

(* predecessor and successor of a member are members (or the member itself) *)
Lemma neighbours_total tours m t k c pre suf v :
  TInv nw tours m t -> tours_total tours m -> nth_error (tr_cycles t) k = Some c ->
  fst c = pre ++ v :: suf ->
  tours (last (suf ++ pre) v) <> None /\ tours (hd v (suf ++ pre)) <> None.
Proof.
  intros I Tot Hk Ec.
  assert (Hin : forall x, In x (v :: suf ++ pre) -> tours x <> None).
  { intros x Hx. apply Tot. eapply inv_cycle_in; eauto. rewrite Ec.
    cbn [In] in Hx. rewrite in_app_iff in *. cbn [In]. tauto. }
  split; apply Hin.
  - destruct (suf ++ pre) as [|a r] eqn:E; [left; reflexivity|].
    right. rewrite <- E. apply last_in. rewrite E. discriminate.
  - destruct (suf ++ pre) as [|a r] eqn:E; [left; reflexivity|].
    right. cbn [hd]. now left.
Qed.

Lemma old_of_member upd old m v :
  tours_total (eff upd old) m -> In v m -> upd v = None -> exists i, old v = Some i.
Proof.
  intros Tot Hv Hu. specialize (Tot v Hv). unfold eff in Tot. rewrite Hu in Tot.
  destruct (old v) as [i|]; [eauto | congruence].
Qed.

Theorem update_vehicle_ok upd old m t v newi :
  TInv nw (eff upd old) m t -> tours_total (eff upd old) m -> In v m -> upd v = None ->
  exists t', update_vehicle nw t v newi upd old = Ok t'.
Proof.
  intros I Tot Hv Hu.
  destruct (old_of_member _ _ _ _ Tot Hv Hu) as [oldi Eo].
  destruct (member_site _ _ _ _ I Hv) as (k & c & pre & suf & El & Ek & Ec & Hp & Hs).
  destruct (neighbours_total _ _ _ _ _ _ _ _ I Tot Ek Ec) as [N1 N2].
  unfold update_vehicle. rewrite Eo. cbn [unwrap_opt bind]. rewrite El. cbn [unwrap_opt bind].
  rewrite Ek. cbn [unwrap_opt bind].
  destruct (Nat.eqb (length (fst c)) 1).
  - cbn [bind]. eauto.
  - destruct (pred_succ_ok _ _ _ _ _ _ _ _ El Ek Ec Hp N1 N2) as [[edp sds] ->]. cbn [bind]. eauto.
Qed.

Theorem remove_vehicle_ok upd old m t v :
  TInv nw (eff upd old) m t -> tours_total (eff upd old) m -> In v m -> upd v = None ->
  exists t', remove_vehicle nw t v upd old = Ok t'.
Proof.
  intros I Tot Hv Hu.
  destruct (old_of_member _ _ _ _ Tot Hv Hu) as [oldi Eo].
  destruct (member_site _ _ _ _ I Hv) as (k & c & pre & suf & El & Ek & Ec & Hp & Hs).
  destruct (neighbours_total _ _ _ _ _ _ _ _ I Tot Ek Ec) as [N1 N2].
  unfold remove_vehicle. rewrite El. cbn [unwrap_opt bind]. rewrite Ek. cbn [unwrap_opt bind].
  rewrite Ec. rewrite (without_split pre v suf Hp Hs).
  destruct (pre ++ suf) as [|a r].
  - cbn [bind]. eauto.
  - destruct (pred_succ_ok _ _ _ _ _ _ _ _ El Ek Ec Hp N1 N2) as [[edp sds] ->]. cbn [bind].
    rewrite Eo. cbn [unwrap_opt bind]. eauto.
Qed.

Theorem add_own_ok tours m t v newi :
  TInv nw tours m t -> exists t', add_vehicle_to_own_cycle nw t v newi = Ok t'.
Proof.
  intros I. unfold add_vehicle_to_own_cycle.
  destruct (rev (Transition.tr_empty t)) as [|k rest] eqn:E; [eauto|].
  assert (Hk : In k (Transition.tr_empty t)).
  { apply in_rev. rewrite E. now left. }
  apply (ti_empty _ _ _ _ I) in Hk. destruct Hk as (c & Hc & _).
  assert (L : (k < length (tr_cycles t))%nat).
  { apply nth_error_Some. congruence. }
  apply Nat.ltb_lt in L. rewrite L. eauto.
Qed.

Corollary update_vehicle_nc upd old m t v newi :
  TInv nw (eff upd old) m t -> tours_total (eff upd old) m -> In v m -> upd v = None ->
  no_crash (update_vehicle nw t v newi upd old).
Proof. intros. apply nc_of_ok. eapply update_vehicle_ok; eauto. Qed.

Corollary remove_vehicle_nc upd old m t v :
  TInv nw (eff upd old) m t -> tours_total (eff upd old) m -> In v m -> upd v = None ->
  no_crash (remove_vehicle nw t v upd old).
Proof. intros. apply nc_of_ok. eapply remove_vehicle_ok; eauto. Qed.

Corollary add_own_nc tours m t v newi :
  TInv nw tours m t -> no_crash (add_vehicle_to_own_cycle nw t v newi).
Proof. intros. apply nc_of_ok. eapply add_own_ok; eauto. Qed.
End Ops.

(** * Part 2: one step of update_transitions *)
Section Step.
Variable nw : network.
Variable s : schedule.
Variable vehicles : list (vehicle_id * Z).
Variable tours : list (vehicle_id * tour).
Variable ids' : list (Z * list vehicle_id).
Hypothesis Vold : VPart nw (s_vehicles s) (s_tours s) (s_ids s).
Hypothesis Vnew : VPart nw vehicles tours ids'.
Hypothesis Stab : forall v ty ty', vget v vehicles = Some ty -> vget v (s_vehicles s) = Some ty' -> ty = ty'.

(* in fact a step returns Ok *)
Lemma ut_step_ok done tr vi upd v :
  J nw s vehicles tours done tr upd -> vid_is_real v = true -> ~ In v done ->
  (vget v vehicles <> None \/ vget v (s_vehicles s) <> None) ->
  exists y, ut_step nw s vehicles tours (Ok (tr, vi, upd)) v = Ok y.
Proof.
  intros (J1 & J2 & J3) Rv Nd Hd.
  assert (U0 : tfn nw upd v = None) by (apply tfn_none; auto).
  unfold ut_step. cbn [bind]. rewrite Rv. cbn [negb].
  unfold is_vehicle.
  destruct (vget v (s_vehicles s)) as [ty0|] eqn:Go; destruct (vget v vehicles) as [ty1|] eqn:Gn.
  - (* updated *)
    assert (ty1 = ty0) by (eapply Stab; eauto). subst ty1. cbn [unwrap_opt bind].
    assert (It : In ty0 (type_ids nw)) by (eapply type_in_ids_old; eauto).
    destruct (J3 ty0 It) as (t0 & m & Gt & Hm & I). rewrite Gt. cbn [unwrap_opt bind].
    destruct (vget v tours) as [nt|] eqn:Gv;
      [|apply (v_same _ _ _ _ Vnew) in Gv; congruence].
    cbn [unwrap_opt bind].
    assert (Vm : In v m) by (apply Hm; right; auto).
    pose proof (J_total nw s vehicles tours ids' Vold Vnew _ _ _ _ J1 J2 Hm) as Tot.
    destruct (update_vehicle_ok nw _ _ _ _ _ (info_of nw nt) I Tot Vm U0) as [t' ->].
    cbn [bind]. eauto.
  - (* removed *)
    cbn [unwrap_opt bind].
    assert (It : In ty0 (type_ids nw)) by (eapply type_in_ids_old; eauto).
    destruct (J3 ty0 It) as (t0 & m & Gt & Hm & I). rewrite Gt. cbn [unwrap_opt bind].
    assert (Vm : In v m) by (apply Hm; right; auto).
    pose proof (J_total nw s vehicles tours ids' Vold Vnew _ _ _ _ J1 J2 Hm) as Tot.
    destruct (remove_vehicle_ok nw _ _ _ _ _ I Tot Vm U0) as [t' ->].
    cbn [bind]. eauto.
  - (* added *)
    cbn [unwrap_opt bind].
    assert (It : In ty1 (type_ids nw)) by (eapply type_in_ids_new; eauto).
    destruct (J3 ty1 It) as (t0 & m & Gt & Hm & I). rewrite Gt. cbn [unwrap_opt bind].
    destruct (vget v tours) as [nt|] eqn:Gv;
      [|apply (v_same _ _ _ _ Vnew) in Gv; congruence].
    cbn [unwrap_opt bind].
    destruct (add_own_ok nw _ _ _ v (info_of nw nt) I) as [t' ->].
    cbn [bind]. eauto.
  - destruct Hd as [Hd|Hd]; congruence.
Qed.

Theorem ut_step_nc done tr vi upd v :
  J nw s vehicles tours done tr upd -> vid_is_real v = true -> ~ In v done ->
  (vget v vehicles <> None \/ vget v (s_vehicles s) <> None) ->
  no_crash (ut_step nw s vehicles tours (Ok (tr, vi, upd)) v).
Proof. intros. apply nc_of_ok. eapply ut_step_ok; eauto. Qed.

(** * Part 3: the fold *)
Lemma ut_fold_ok l : forall done tr vi upd,
  J nw s vehicles tours done tr upd -> (forall v, In v l -> vid_is_real v = true) -> NoDup l ->
  (forall v, In v l -> ~ In v done) ->
  (forall v, In v l -> vget v vehicles <> None \/ vget v (s_vehicles s) <> None) ->
  exists y, fold_left (ut_step nw s vehicles tours) l (Ok (tr, vi, upd)) = Ok y.
Proof.
  induction l as [|v l IH]; intros done tr vi upd HJ R N D P; cbn [fold_left]; [eauto|].
  inversion N; subst.
  assert (Rv : vid_is_real v = true) by (apply R; now left).
  assert (Dv : ~ In v done) by (apply D; now left).
  destruct (ut_step_ok done tr vi upd v HJ Rv Dv (P v (or_introl eq_refl))) as [[[tr1 vi1] upd1] Hy].
  rewrite Hy.
  pose proof (J_step nw s vehicles tours ids' Vold Vnew Stab _ _ _ _ _ _ _ _ HJ Rv Dv Hy) as HJ'.
  apply (IH (v :: done)); auto.
  - intros x Hx. apply R. now right.
  - intros x Hx [<-|Hd]; [contradiction|]. eapply D; eauto. now right.
  - intros x Hx. apply P. now right.
Qed.
End Step.

Theorem update_transitions_ok : forall nw s vehicles tours ids' trans viol changed,
  VPart nw (s_vehicles s) (s_tours s) (s_ids s) -> VPart nw vehicles tours ids' ->
  (forall v ty ty', vget v vehicles = Some ty -> vget v (s_vehicles s) = Some ty' -> ty = ty') ->
  NoDup (filter vid_is_real changed) ->
  TOK nw trans (tfn nw (s_tours s)) (s_ids s) ->
  (forall v, In v changed -> vid_is_real v = true -> vget v vehicles <> None \/ vget v (s_vehicles s) <> None) ->
  exists y, update_transitions nw s trans viol changed vehicles tours = Ok y.
Proof.
  intros nw s vehicles tours ids' trans viol changed Vold Vnew Stab ND H0 P.
  rewrite ut_unfold, ut_filter.
  destruct (ut_fold_ok nw s vehicles tours ids' Vold Vnew Stab (filter vid_is_real changed) [] trans viol [])
    as [[[tr vi] upd] ->].
  - apply J_init; auto.
  - intros v Hv. apply filter_In in Hv. tauto.
  - exact ND.
  - intros v _ [].
  - intros v Hv. apply filter_In in Hv. destruct Hv. auto.
  - cbn [bind]. eauto.
Qed.

(* the statement as requested (the two "keys are real" hypotheses are not needed) *)
Theorem update_transitions_nc : forall nw s vehicles tours ids' trans viol changed,
  VPart nw (s_vehicles s) (s_tours s) (s_ids s) -> VPart nw vehicles tours ids' ->
  (forall v ty ty', vget v vehicles = Some ty -> vget v (s_vehicles s) = Some ty' -> ty = ty') ->
  (forall v, vget v (s_vehicles s) <> None -> vid_is_real v = true) ->
  (forall v, vget v vehicles <> None -> vid_is_real v = true) ->
  NoDup (filter vid_is_real changed) ->
  TOK nw trans (tfn nw (s_tours s)) (s_ids s) ->
  (forall v, In v changed -> vid_is_real v = true -> vget v vehicles <> None \/ vget v (s_vehicles s) <> None) ->
  no_crash (update_transitions nw s trans viol changed vehicles tours).
Proof.
  intros nw s vehicles tours ids' trans viol changed Vold Vnew Stab _ _ ND H0 P.
  apply nc_of_ok. eapply update_transitions_ok; eauto.
Qed.

Print Assumptions update_vehicle_ok.
Print Assumptions remove_vehicle_ok.
Print Assumptions add_own_ok.
Print Assumptions update_vehicle_nc.
Print Assumptions remove_vehicle_nc.
Print Assumptions add_own_nc.
Print Assumptions ut_step_ok.
Print Assumptions ut_step_nc.
Print Assumptions ut_fold_ok.
Print Assumptions update_transitions_ok.
Print Assumptions update_transitions_nc.
End NPB_trans.

Module NPB_seg.
Import Sorted.
Import Base BaseFacts Network NetSpec NetFacts Tour TourSpec TourStmts TourFacts TourValidFacts TourExactStmts TourExactFacts Transition TransSpec Schedule SchedInv SchedObs SchedStruct SchedCostsFacts SchedUnservedFacts SchedViolFacts SchedListFacts SchedToursFacts SchedFormLimFacts SchedUsageFacts SchedFormsFacts SchedTransFacts SchedExactFacts Swaps SwapsStmts SwapsFacts SwapsStmts2 SwapsFacts2 PipelineSched RenderStmts NoPanicStmts NPB_defs NPB_base NPB_sched NPB_tour.
(* NPB_seg.v — the segments enumerated by [segments]; check_receiver_type_compatibility never crashes on them *)


Local Open Scope Z_scope.

Section Seg.
Variable nw : network.
Hypothesis WF : net_wf_b nw = true.
Hypothesis DP : durations_pos_b nw = true.

(* a segment as enumerated: starts at a non-depot of the tour and passes the removability check *)
Definition seg_ok (t : tour) (seg : node_id * node_id) : Prop :=
  In (fst seg) (non_depots t) /\ check_removable nw t seg = Ok tt.

Lemma fold_res_list_inv {X V} (Q : X -> Prop) (f : res (list X) -> V -> res (list X)) (l0 : list V) :
  (forall r v x, f r v = Ok x -> exists y, r = Ok y) ->
  (forall l v x, In v l0 -> Forall Q l -> f (Ok l) v = Ok x -> Forall Q x) ->
  forall l acc x, incl l l0 -> Forall Q acc -> fold_left f l (Ok acc) = Ok x -> Forall Q x.
Proof.
  intros Hs Hstep l. induction l as [|v l IH]; intros acc x Hi HQ H; cbn [fold_left] in H.
  - inversion H; subst. exact HQ.
  - assert (Hy : exists y, f (Ok acc) v = Ok y).
    { clear IH Hi. revert H. generalize (f (Ok acc) v). induction l as [|w l IHl]; intros r H; cbn [fold_left] in H; [eauto|].
      apply IHl in H. destruct H as [y Hy]. eapply Hs; eauto. }
    destruct Hy as [y Hy]. rewrite Hy in H. eapply IH; [| |exact H].
    + intros z Hz. apply Hi. now right.
    + eapply Hstep; [|exact HQ|exact Hy]. apply Hi. now left.
Qed.

Lemma segments_ok s p sg : segments nw s p = Ok sg ->
  exists t, tour_of s p = Ok t /\ forall seg, In seg sg -> seg_ok t seg.
Proof.
  unfold segments. intros H. mon H. apply panic_ok in E. exists a. split; [exact E|].
  cbv zeta in H. mon H. inversion H; subst sg; clear H.
  intros seg Hin. apply filter_In in Hin. destruct Hin as [Hin Hc].
  assert (Q : Forall (fun sg : node_id * node_id => In (fst sg) (non_depots a)) a0).
  { match type of E0 with fold_left ?F ?L _ = _ =>
      apply (fold_res_list_inv (fun sg : node_id * node_id => In (fst sg) (non_depots a)) F L) with (l := L) (acc := []) in E0 end;
      auto.
    - intros r [i ss] x Hx. destruct r; cbn [bind] in Hx; try discriminate Hx. eauto.
    - intros l [i ss] x Hv HQ Hx. cbn [bind] in Hx.
      apply in_combine_r in Hv.
      mon Hx. destruct (negb a1); [inversion Hx; subst; exact HQ|].
      mon Hx. inversion Hx; subst x; clear Hx.
      apply Forall_app. split; [exact HQ|]. apply Forall_forall. intros y Hy. apply in_map_iff in Hy.
      destruct Hy as (e & <- & _). exact Hv.
    - apply incl_refl. }
  rewrite Forall_forall in Q. split; [apply Q; exact Hin|].
  destruct (check_removable nw a seg) as [[]| | |]; try discriminate Hc. reflexivity.
Qed.

Lemma pos_nth t n i : position_of nw t n = Ok i -> nth_error (t_nodes t) i = Some n.
Proof.
  rewrite position_of_pos_of. unfold pos_of, ok_or_err.
  destruct (index_of (nid_eqb n) (t_nodes t)) as [k|] eqn:E; [|discriminate]. intros H. inversion H; subst k.
  destruct (index_of_spec _ _ _ E) as (x & X1 & X2). apply nid_eqb_eq in X2. subst x. exact X1.
Qed.

Lemma seg_ok_sub_path t seg : TV nw t -> seg_ok t seg -> exists sp, sub_path nw t seg = Ok sp.
Proof.
  intros V [Hs Hc]. destruct seg as [a b]. cbn [fst] in Hs.
  unfold check_removable in Hc. cbn [fst snd] in Hc.
  destruct (position_of nw t a) as [i| | |] eqn:Pa; cbn [bind] in Hc; try discriminate Hc.
  destruct (position_of nw t b) as [j| | |] eqn:Pb; cbn [bind] in Hc; try discriminate Hc.
  apply pos_nth in Pa. apply pos_nth in Pb.
  assert (Hij : (i <= j)%nat).
  { unfold check_if_sequence_is_removable in Hc.
    repeat match type of Hc with (if ?c then _ else _) = _ => destruct c eqn:?; try discriminate Hc end.
    match goal with K : Nat.ltb j i = false |- _ => apply Nat.ltb_ge in K; exact K end. }
  pose proof (TV_connected nw t V) as CN.
  pose proof (connected_chrono nw WF DP _ CN) as CH.
  eexists. apply (sub_path_total_at nw WF DP t i j a b CH CN Pa Pb Hij).
  unfold all_depots, ref_sub_path.
  assert (Ha : node_is_depot nw a = false).
  { pose proof (TV_nondepots nw t V) as ND. rewrite forallb_forall in ND. specialize (ND a Hs).
    now apply negb_true_iff in ND. }
  destruct (forallb (nid_is_depot nw) (firstn (j + 1 - i) (skipn i (t_nodes t)))) eqn:F; [|reflexivity].
  rewrite forallb_forall in F.
  assert (In a (firstn (j + 1 - i) (skipn i (t_nodes t)))).
  { apply (in_slice_nth (t_nodes t) i (j + 1 - i) i); auto; lia. }
  specialize (F a H). unfold nid_is_depot in F. unfold node_is_depot in Ha. congruence.
Qed.

Lemma crtc_nc s p r seg t :
  TV nw t -> tour_of s p = Ok t -> seg_ok t seg ->
  no_crash (check_receiver_type_compatibility nw s p r seg).
Proof.
  intros V Ht SO. unfold check_receiver_type_compatibility.
  destruct (vehicle_type_of s r) as [tr| | |]; try apply nc_ok.
  match goal with |- no_crash (if ?c then _ else _) => destruct c end; [|apply nc_ok].
  rewrite Ht. cbn [bind].
  destruct (seg_ok_sub_path t seg V SO) as [sp ->]. cbn [bind]. apply nc_ok.
Qed.
End Seg.
End NPB_seg.

Module NPB_utours.
Import Sorted.
Import Base BaseFacts Network NetSpec NetFacts Tour TourSpec TourStmts TourFacts TourValidFacts TourExactStmts TourExactFacts Transition TransSpec Schedule SchedInv SchedObs SchedStruct SchedCostsFacts SchedUnservedFacts SchedViolFacts SchedListFacts SchedToursFacts SchedFormLimFacts SchedUsageFacts SchedFormsFacts SchedTransFacts SchedExactFacts Swaps SwapsStmts SwapsFacts SwapsStmts2 SwapsFacts2 PipelineSched RenderStmts NoPanicStmts NPB_defs NPB_base NPB_sched NPB_tour.
(* NPB_utours.v — totality (no Panic / OutOfFuel; Err allowed) of [update_tours] (Schedule.v), the common tail of
   override_reassign and fit_reassign, on a schedule satisfying the proved invariants. *)


Local Open Scope Z_scope.

(** * sums of nonnegative tour costs *)
Definition nonneg (l : list (vehicle_id * tour)) : Prop := forall v t, vget v l = Some t -> 0 <= t_costs t.

Lemma nonneg_tail k y l : ~ In k (map fst l) -> nonneg ((k, y) :: l) -> nonneg l.
Proof.
  intros NI H v t G. apply (H v t). rewrite vget_cons. destruct (vid_eqb v k) eqn:E; [|exact G].
  apply vid_eqb_eq in E. subst v. exfalso. apply NI. eapply vget_in_keys; eauto.
Qed.

Lemma nonneg_head k y l : nonneg ((k, y) :: l) -> 0 <= t_costs y.
Proof. intros H. apply (H k y). rewrite vget_cons, vid_eqb_refl. reflexivity. Qed.

Lemma tsum_nonneg l : NoDup (map fst l) -> nonneg l -> 0 <= tsum l.
Proof.
  induction l as [|[k y] l IH]; cbn [map fst]; intros N H.
  - unfold tsum, z_sum. cbn. lia.
  - inversion N; subst. rewrite tsum_cons. pose proof (nonneg_head _ _ _ H).
    assert (0 <= tsum l) by (apply IH; [assumption | eapply nonneg_tail; eauto]). lia.
Qed.

Lemma tsum_ge l : NoDup (map fst l) -> nonneg l -> forall v o, vget v l = Some o -> t_costs o <= tsum l.
Proof.
  induction l as [|[k y] l IH]; cbn [map fst]; intros N H v o G; [discriminate G|].
  inversion N; subst. rewrite tsum_cons. pose proof (nonneg_head _ _ _ H) as Hy.
  pose proof (nonneg_tail _ _ _ H2 H) as Hl.
  rewrite vget_cons in G. destruct (vid_eqb v k).
  - inversion G; subst o. pose proof (tsum_nonneg l H3 Hl). lia.
  - pose proof (IH H3 Hl v o G). lia.
Qed.

Lemma nonneg_vset l v nt : nonneg l -> 0 <= t_costs nt -> nonneg (vset v nt l).
Proof.
  intros H N k t G. rewrite vget_vset in G. destruct (vid_eqb k v); [inversion G; subst; exact N | eapply H; eauto].
Qed.

Lemma nonneg_vdel l v : nonneg l -> nonneg (vdel v l).
Proof. intros H k t G. rewrite vget_vdel in G. destruct (vid_eqb k v); [discriminate G | eapply H; eauto]. Qed.

Lemma iter_zget ids ty v : In v (SchedListFacts.iter ids ty) -> exists l, zget ty ids = Some l /\ In v l.
Proof. unfold SchedListFacts.iter. destruct (zget ty ids) as [l|]; [eauto | intros []]. Qed.

Section UT.
Variable nw : network.
Hypothesis WF : net_wf_b nw = true.
Hypothesis U : unsigned_ok nw.

Definition ends_ok (t : tour) : Prop :=
  is_start_depot (nd nw (first_node t)) = true /\ is_end_depot (nd nw (last_node t)) = true.

Lemma Kst_nonneg : 0 <= Kst nw.
Proof. unfold Kst. apply uo_staff. exact U. Qed.

Lemma nonneg_s s : EIs nw s -> nonneg (s_tours s).
Proof. intros [ER _] v t G. apply (exact_costs_nonneg nw WF U). eapply ER; eauto. Qed.

(* a stored tour costs at most the cached total *)
Lemma TC_ge tours costs v o : TC (Kst nw) tours costs -> nonneg tours -> vget v tours = Some o -> t_costs o <= costs.
Proof.
  intros [N C] H G. pose proof (tsum_ge tours N H v o G). pose proof Kst_nonneg. lia.
Qed.

(** * facts about a real vehicle of [s] *)
Lemma veh_facts s v : SchedCostsFacts.Inv nw s -> LInv nw true s -> TIs nw s -> is_vehicle s v = true ->
  exists ty t, vget v (s_vehicles s) = Some ty /\ tour_of s v = Ok t /\ vget v (s_tours s) = Some t /\
               ends_ok t /\ is_dummy s v = false.
Proof.
  intros I [V D] [TR TD] Hv. unfold is_vehicle in Hv.
  destruct (vget v (s_vehicles s)) as [ty|] eqn:G; [|discriminate Hv].
  destruct (vget v (s_tours s)) as [t|] eqn:Gt.
  2:{ apply (v_same _ _ _ _ V) in Gt. congruence. }
  destruct (TR v t Gt) as (ty' & G' & (Dm & R & _)).
  exists ty, t. split; [reflexivity|]. split; [unfold tour_of; rewrite Gt; reflexivity|]. split; [reflexivity|].
  split; [split; [apply RV_first | apply RV_last]; exact R|].
  unfold is_dummy. destruct (vget v (s_dummies s)) eqn:Gd; [|reflexivity].
  apply (inv_dummy nw s I) in Gd. apply (inv_real nw s I) in G. congruence.
Qed.

Lemma dummy_not_vehicle s v : SchedCostsFacts.Inv nw s -> is_dummy s v = true -> is_vehicle s v = false.
Proof.
  intros I Hd. destruct (is_vehicle s v) eqn:Ev; [|reflexivity].
  apply (is_vehicle_real s v (inv_real nw s I)) in Ev. apply (is_dummy_not_real s v (inv_dummy nw s I)) in Hd. congruence.
Qed.

Lemma vehicle_get s v ty : vget v (s_vehicles s) = Some ty -> is_vehicle s v = true.
Proof. unfold is_vehicle. intros ->. reflexivity. Qed.

(** * update_tour_and_costs is total *)
Lemma utc_total s tours dummies costs v nt old :
  TC (Kst nw) tours costs -> nonneg tours -> 0 <= t_costs nt ->
  (is_dummy s v = false -> vget v tours = Some old) ->
  exists T' D' c', update_tour_and_costs s tours dummies costs v nt = Ok (T', D', c') /\
    T' = (if is_dummy s v then tours else vset v nt tours) /\ TC (Kst nw) T' c' /\ nonneg T'.
Proof.
  intros T N Hn Ho. unfold update_tour_and_costs. destruct (is_dummy s v) eqn:Ed.
  - eexists _, _, _. split; [reflexivity|]. auto.
  - rewrite (Ho eq_refl). cbn [unwrap_opt bind].
    destruct (NPB_tour.z_sub_cost_ok (costs + t_costs nt) (t_costs old)) as [c Hc].
    { pose proof (TC_ge tours costs v old T N (Ho eq_refl)). lia. }
    rewrite Hc. cbn [bind]. eexists _, _, _. split; [reflexivity|]. split; [reflexivity|].
    split; [eapply TC_old; eauto | now apply nonneg_vset].
Qed.

(** * the first block of update_tours: the provider's tour is replaced or the provider is removed *)
Definition phase1 (s : schedule) (vehicles : list (vehicle_id * Z)) (tours dummies : list (vehicle_id * tour))
  (ids : list (Z * list vehicle_id)) (dids : list vehicle_id) (costs : Z) (p : vehicle_id) (ntp : option tour) :=
  match ntp with
  | Some nt =>
      do (t2, d2, c2) <- update_tour_and_costs s tours dummies costs p nt;
      Ok (vehicles, t2, d2, ids, dids, c2)
  | None =>
      do c2 <- (if is_vehicle s p then
                  do t <- (match tour_of s p with Ok t => Ok t | _ => Panic end); z_sub_cost costs (t_costs t)
                else Ok costs);
      if is_dummy s p then
        do dd <- sorted_remove p dids;
        Ok (vehicles, tours, vdel p dummies, ids, dd, c2)
      else if is_vehicle s p then
        do ty <- (match vehicle_type_of s p with Ok ty => Ok ty | _ => Panic end);
        do ids' <- ids_remove ty p ids;
        Ok (vdel p vehicles, vdel p tours, dummies, ids', dids, c2)
      else Ok (vehicles, tours, dummies, ids, dids, c2)
  end.

Definition P1 (s : schedule) (p : vehicle_id) (V1 : list (vehicle_id * Z)) (T1 : list (vehicle_id * tour)) (c1 : Z)
  : Prop :=
  same_but p (s_vehicles s) V1 (s_tours s) T1 /\
  (forall k ty, vget k V1 = Some ty -> vget k (s_vehicles s) = Some ty) /\
  TC (Kst nw) T1 c1 /\ nonneg T1 /\
  (forall ty t, vget p V1 = Some ty -> vget p T1 = Some t -> ends_ok t).

Lemma same_but_refl v (V : list (vehicle_id * Z)) (T : list (vehicle_id * tour)) : same_but v V V T T.
Proof. intros k _. auto. Qed.

Lemma phase1_some s p nt tp :
  SchedCostsFacts.Inv nw s -> EIs nw s -> tour_of s p = Ok tp ->
  0 <= t_costs nt -> (is_dummy s p = false -> ends_ok nt) ->
  exists V1 T1 D1 i1 di1 c1,
    phase1 s (s_vehicles s) (s_tours s) (s_dummies s) (s_ids s) (s_dummy_ids s) (s_costs s) p (Some nt)
      = Ok (V1, T1, D1, i1, di1, c1) /\ P1 s p V1 T1 c1.
Proof.
  intros I E Hp N1 N2. pose proof (nonneg_s s E) as NN. pose proof (inv_tc nw s I) as TCs.
  destruct (utc_total s (s_tours s) (s_dummies s) (s_costs s) p nt tp TCs NN N1) as (T' & D' & c' & Eq & HT & TC' & NN').
  { intros Dp. destruct (tour_of_cases nw s p tp I Hp) as [[_ G]|[Q _]]; [exact G | congruence]. }
  unfold phase1. rewrite Eq. cbn [bind]. eexists _, _, _, _, _, _. split; [reflexivity|].
  unfold P1. split; [|split; [|split; [|split]]]; auto.
  - intros k Nk. split; [reflexivity|]. eapply utc_same; eauto.
  - intros ty t Gv Gt. destruct (is_dummy s p) eqn:Dp.
    + apply vehicle_get in Gv. rewrite (dummy_not_vehicle s p I Dp) in Gv. discriminate Gv.
    + subst T'. rewrite vget_vset, vid_eqb_refl in Gt. inversion Gt; subst t. auto.
Qed.

Lemma phase1_none s p tp :
  SchedCostsFacts.Inv nw s -> LInv nw true s -> TIs nw s -> EIs nw s -> tour_of s p = Ok tp ->
  exists V1 T1 D1 i1 di1 c1,
    phase1 s (s_vehicles s) (s_tours s) (s_dummies s) (s_ids s) (s_dummy_ids s) (s_costs s) p None
      = Ok (V1, T1, D1, i1, di1, c1) /\ P1 s p V1 T1 c1.
Proof.
  intros I L T E Hp. pose proof (nonneg_s s E) as NN. pose proof (inv_tc nw s I) as TCs.
  unfold phase1. destruct (is_dummy s p) eqn:Dp.
  - (* a dummy provider is deleted *)
    rewrite (dummy_not_vehicle s p I Dp). cbn [bind].
    destruct L as [_ D]. assert (M : memv p (s_dummy_ids s) = true).
    { apply memv_in. apply (d_sup _ _ _ _ D eq_refl). now apply is_dummy_get. }
    unfold sorted_remove. rewrite M. cbn [bind]. eexists _, _, _, _, _, _. split; [reflexivity|].
    unfold P1. split; [apply same_but_refl|]. split; [auto|]. split; [exact TCs|]. split; [exact NN|].
    intros ty t Gv _. apply vehicle_get in Gv. rewrite (dummy_not_vehicle s p I Dp) in Gv. discriminate Gv.
  - destruct (is_vehicle s p) eqn:Ev.
    + (* a real provider is removed *)
      destruct (veh_facts s p I L T Ev) as (ty & t & Gv & Ht & Gt & _ & _).
      rewrite Ht. cbn [bind].
      destruct (NPB_tour.z_sub_cost_ok (s_costs s) (t_costs t)) as [c Hc].
      { eapply TC_ge; eauto. }
      rewrite Hc. cbn [bind]. unfold vehicle_type_of. rewrite Gv. cbn [ok_or_err bind].
      destruct L as [V _]. destruct (iter_zget (s_ids s) ty p) as (l & Gl & Il).
      { apply (v_ids _ _ _ _ V). exact Gv. }
      unfold ids_remove. rewrite Gl. cbn [unwrap_opt bind]. unfold sorted_remove.
      apply memv_in in Il. rewrite Il. cbn [bind]. eexists _, _, _, _, _, _. split; [reflexivity|].
      unfold P1. split; [|split; [|split; [|split]]].
      * intros k Nk. apply vid_eqb_neq in Nk. rewrite !vget_vdel, Nk. auto.
      * intros k ty'. rewrite vget_vdel. destruct (vid_eqb k p); [discriminate | auto].
      * eapply TC_del; eauto.
      * now apply nonneg_vdel.
      * intros ty' t'. rewrite vget_vdel, vid_eqb_refl. discriminate.
    + cbn [bind]. eexists _, _, _, _, _, _. split; [reflexivity|].
      unfold P1. split; [apply same_but_refl|]. split; [auto|]. split; [exact TCs|]. split; [exact NN|].
      intros ty t Gv _. apply vehicle_get in Gv. congruence.
Qed.

Lemma phase1_ok s p ntp tp :
  SchedCostsFacts.Inv nw s -> LInv nw true s -> TIs nw s -> EIs nw s -> tour_of s p = Ok tp ->
  (forall nt, ntp = Some nt -> 0 <= t_costs nt /\ (is_dummy s p = false -> ends_ok nt)) ->
  exists V1 T1 D1 i1 di1 c1,
    phase1 s (s_vehicles s) (s_tours s) (s_dummies s) (s_ids s) (s_dummy_ids s) (s_costs s) p ntp
      = Ok (V1, T1, D1, i1, di1, c1) /\ P1 s p V1 T1 c1.
Proof.
  intros I L T E Hp Hn. destruct ntp as [nt|].
  - destruct (Hn nt eq_refl). eapply phase1_some; eauto.
  - eapply phase1_none; eauto.
Qed.

(** * update_tours never crashes *)
Theorem update_tours_nc : forall s p ntp r ntr moved tp trc,
  SchedCostsFacts.Inv nw s -> LInv nw true s -> TIs nw s -> EIs nw s -> US nw s ->
  p <> r -> tour_of s p = Ok tp -> tour_of s r = Ok trc ->
  (forall nt, ntp = Some nt -> 0 <= t_costs nt /\ (is_dummy s p = false -> ends_ok nt)) ->
  0 <= t_costs ntr -> (is_dummy s r = false -> ends_ok ntr) ->
  has_forms nw (s_forms s) moved ->
  no_crash (update_tours nw s (s_vehicles s) (s_tours s) (s_forms s) (s_usage s) (s_dummies s) (s_ids s)
              (s_dummy_ids s) (s_unserved s) (s_costs s) p ntp r ntr moved).
Proof.
  intros s p ntp r ntr moved tp trc I L T E Us Npr Hp Hr Hn Nr Er HF.
  destruct (phase1_ok s p ntp tp I L T E Hp Hn) as (V1 & T1 & D1 & i1 & di1 & c1 & E1 & (SB & Sub & TC1 & NN1 & En1)).
  unfold phase1 in E1. unfold update_tours. rewrite E1. cbn [bind]. clear E1.
  (* usage of the provider *)
  destruct (udu_nc nw s (s_usage s) (s_vehicles s) (s_tours s) V1 T1 p Us) as [U1 EU1].
  { intros Ev. destruct (veh_facts s p I L T Ev) as (ty & t & Gv & Ht & Gt & [A B] & _). exists ty, t. tauto. }
  { intros ty ty' G1 G0. apply Sub in G1. congruence. }
  { intros ty G1 t Gt. exact (En1 ty t G1 Gt). }
  rewrite EU1. cbn [bind].
  assert (UX1 : UX nw V1 T1 [] U1).
  { eapply udu_ok; [exact Us | | exact SB | exact EU1]. auto. }
  (* the receiver's tour *)
  assert (Npr' : r <> p) by congruence.
  destruct (SB r Npr') as [SBv SBt].
  destruct (utc_total s T1 D1 c1 r ntr trc TC1 NN1 Nr) as (T2 & D2 & c2 & E2 & HT2 & _ & _).
  { intros Dr. rewrite SBt. destruct (tour_of_cases nw s r trc I Hr) as [[_ G]|[Q _]]; [exact G | congruence]. }
  rewrite E2. cbn [bind].
  (* usage of the receiver *)
  destruct (udu_nc nw s U1 V1 T1 V1 T2 r UX1) as [U2 EU2].
  { intros Ev. destruct (veh_facts s r I L T Ev) as (ty & t & Gv & Ht & Gt & [A B] & _). exists ty, t.
    rewrite SBv, SBt. tauto. }
  { intros ty ty' G1 G0. apply Sub in G1. congruence. }
  { intros ty G1 t Gt. apply Sub in G1. apply vehicle_get in G1.
    destruct (veh_facts s r I L T G1) as (_ & _ & _ & _ & _ & _ & Dr).
    rewrite Dr in HT2. subst T2. rewrite vget_vset, vid_eqb_refl in Gt. inversion Gt; subst t. exact (Er Dr). }
  rewrite EU2. cbn [bind].
  (* the formations *)
  apply nc_bind; [apply utf_nc; exact HF|]. intros [f2 u2] _. apply nc_ok.
Qed.
End UT.

Print Assumptions update_tours_nc.
End NPB_utours.

Module NPB_spawn.
Import Sorted.
Import Base BaseFacts Network NetSpec NetFacts Tour TourSpec TourStmts TourFacts TourValidFacts TourExactStmts TourExactFacts Transition TransSpec Schedule SchedInv SchedObs SchedStruct SchedCostsFacts SchedUnservedFacts SchedViolFacts SchedListFacts SchedToursFacts SchedFormLimFacts SchedUsageFacts SchedFormsFacts SchedTransFacts SchedExactFacts Swaps SwapsStmts SwapsFacts SwapsStmts2 SwapsFacts2 PipelineSched RenderStmts NoPanicStmts NPB_defs NPB_base NPB_sched NPB_tour NPB_trans.
(* NPB_spawn.v — totality (no Panic / OutOfFuel; Err allowed) of spawn_vehicle_for_path, delete_dummy and
   spawn_to_replace_dummy (Schedule.v) on schedules satisfying the proved invariants (part of NoPanicFactsB). *)


Local Open Scope Z_scope.

(** * association lists: a key has an entry *)
Lemma nget_of_key {A} n (l : list (node_id * A)) : In n (map fst l) -> nget n l <> None.
Proof.
  unfold nget. induction l as [|[k x] l IH]; cbn [map fst In assoc]; [tauto|].
  intros [->|H].
  - rewrite nid_eqb_refl. discriminate.
  - destruct (nid_eqb n k); [discriminate | auto].
Qed.

Lemma zget_of_key {A} k (l : list (Z * A)) : In k (map fst l) -> exists x, zget k l = Some x.
Proof.
  unfold zget. induction l as [|[k' x] l IH]; cbn [map fst In assoc]; [tauto|].
  intros [->|H].
  - rewrite Z.eqb_refl. eauto.
  - destruct (k =? k'); [eauto | auto].
Qed.

Lemma ids_insert_total ty v (ids : list (Z * list vehicle_id)) :
  In ty (map fst ids) -> exists ids', ids_insert ty v ids = Ok ids'.
Proof.
  intros H. destruct (zget_of_key _ _ H) as [l E]. unfold ids_insert. rewrite E. cbn [unwrap_opt bind]. eauto.
Qed.

Section Spawn.
Variable nw : network.

(* every activity node of the network is coverable (true of every loaded network) *)
Definition cov_all : Prop := forall n, is_depot (nd nw n) = false -> In n (coverable_nodes nw).

(** * add_suitable_depots *)
Lemma asd_nc s ty path :
  path <> [] ->
  (forall f, hd_error path = Some f -> is_depot (nd nw f) = false ->
             exists d, find_best_start_depot nw (s_usage s) ty f = Ok d) ->
  no_crash (add_suitable_depots nw s ty path).
Proof.
  intros NE FB. unfold add_suitable_depots. destruct path as [|first rest]; [congruence|].
  destruct (nw_overflow nw) as [[o1 os] oe].
  destruct (is_depot (nd nw first)) eqn:Ed; cbn [andb].
  - destruct (negb (can_depot_spawn nw (s_usage s) first ty)); [apply nc_ok|].
    cbn [bind]. destruct (is_depot (nd nw (last (first :: rest) first))); [apply nc_ok|].
    unfold find_best_end_depot.
    destruct (hd_error (end_depots_sorted_by_distance_from _ _)); cbn [ok_or_err bind]; [apply nc_ok | apply nc_err].
  - destruct (FB first eq_refl Ed) as [d ->]. cbn [bind].
    destruct (is_depot (nd nw (last (first :: rest) first))); [apply nc_ok|].
    unfold find_best_end_depot.
    destruct (hd_error (end_depots_sorted_by_distance_from _ _)); cbn [ok_or_err bind]; [apply nc_ok | apply nc_err].
Qed.

Lemma asd_nonempty s ty path nodes : add_suitable_depots nw s ty path = Ok nodes -> nodes <> [].
Proof.
  unfold add_suitable_depots. destruct path as [|first rest]; [discriminate|].
  destruct (nw_overflow nw) as [[o1 os] oe].
  destruct (is_depot (nd nw first) && negb _).
  - intros H. injection H as <-.
    destruct (is_depot _); intros Q; first [discriminate Q | apply app_eq_nil in Q; destruct Q; discriminate].
  - intros H. mon H.
    assert (Na : a <> []).
    { destruct (is_depot (nd nw first)).
      - injection E as <-. discriminate.
      - mon E. injection E as <-. discriminate. }
    destruct (is_depot (nd nw (last (first :: rest) first))).
    + injection H as <-. exact Na.
    + mon H. injection H as <-. intros Q. apply app_eq_nil in Q. destruct Q; discriminate.
Qed.

(** * tour_new *)
Lemma tour_new_nc l : l <> [] -> no_crash (tour_new nw l).
Proof.
  intros NE. unfold tour_new. destruct l as [|f r]; [congruence|].
  destruct (valid_tour_nodes nw (f :: r)); [apply nc_ok | apply nc_err].
Qed.

Lemma tour_new_ends l t : tour_new nw l = Ok t ->
  is_start_depot (nd nw (first_node t)) = true /\ is_end_depot (nd nw (last_node t)) = true.
Proof.
  intros H. unfold tour_new in H. destruct l as [|f r] eqn:EN; [discriminate|]. rewrite <- EN in *.
  destruct (valid_tour_nodes nw l) eqn:V; [|discriminate]. inversion H; subst t; clear H.
  apply valid_tour_nodes_RV in V.
  split; [apply RV_first | apply RV_last]; cbn [new_computing t_nodes]; exact V.
Qed.

(** * formations: every activity node has an entry *)
Lemma forms_total s l : cov_all -> FormsOK nw s -> has_forms nw (s_forms s) l.
Proof.
  intros CA F n _ Hd. apply nget_of_key. apply (fo_keys nw s F). apply CA. exact Hd.
Qed.

(** * spawn_vehicle_for_path *)
Theorem spawn_nc : forall s ty path,
  cov_all -> SchedCostsFacts.Inv nw s -> LInv nw true s -> TransOK nw s -> US nw s -> FormsOK nw s ->
  In ty (type_ids nw) -> path <> [] ->
  (forall f, hd_error path = Some f -> is_depot (nd nw f) = false ->
             exists d, find_best_start_depot nw (s_usage s) ty f = Ok d) ->
  no_crash (spawn_vehicle_for_path nw s ty path).
Proof.
  intros s ty path CA I [V D] T U F Hty NE FB. unfold spawn_vehicle_for_path.
  destruct (negb _); [apply nc_err|].
  pose proof (fresh_vehicle nw s I V) as Fr.
  apply nc_bind; [apply asd_nc; auto|]. intros nodes En.
  apply nc_bind; [apply tour_new_nc; eapply asd_nonempty; eauto|]. intros t Et.
  apply nc_bind.
  { apply nc_of_ok. apply ids_insert_total. rewrite (v_keys _ _ _ _ V). exact Hty. }
  intros ids Ei.
  apply nc_bind; [apply utf_nc; apply forms_total; auto|]. intros [forms uns] Ef.
  apply nc_bind.
  { apply nc_of_ok. eapply (udu_nc nw s (s_usage s) (s_vehicles s) (s_tours s)).
    - exact U.
    - unfold is_vehicle. rewrite Fr. discriminate.
    - intros a b _ G. rewrite Fr in G. discriminate.
    - intros a _ t0 G. rewrite vget_vset, vid_eqb_refl in G. inversion G; subst t0.
      eapply tour_new_ends; eauto. }
  intros usage Eu.
  apply nc_bind.
  { apply nc_of_ok.
    apply (update_transitions_ok nw s _ _ ids); auto.
    - eapply V_spawn; eauto.
    - now apply stab_vset_new.
    - apply nodup_filter_one.
    - intros x Hx _. left. cbn [In] in Hx. destruct Hx as [<-|[]].
      rewrite vget_vset, vid_eqb_refl. discriminate. }
  intros [trans viol] Etr. apply nc_ok.
Qed.

(* the hypothesis about find_best_start_depot is necessary: find_best_start_depot is an unwrap (Ok or Panic), and when
   it has no depot for a compatible path starting at an activity node, the spawn panics *)
Lemma fbsd_ok_or_panic U ty f :
  (exists d, find_best_start_depot nw U ty f = Ok d) \/ find_best_start_depot nw U ty f = Panic.
Proof. unfold find_best_start_depot. destruct (find _ _); cbn [unwrap_opt]; eauto. Qed.

Theorem spawn_panics_without_room : forall s ty f rest,
  forallb (fun n => compatible_with_vehicle_type nw n ty) (f :: rest) = true ->
  is_depot (nd nw f) = false ->
  find_best_start_depot nw (s_usage s) ty f = Panic ->
  spawn_vehicle_for_path nw s ty (f :: rest) = Panic.
Proof.
  intros s ty f rest C Hd P. unfold spawn_vehicle_for_path. rewrite C. cbn [negb].
  unfold add_suitable_depots. destruct (nw_overflow nw) as [[o1 os] oe].
  rewrite Hd. cbn [andb]. rewrite P. reflexivity.
Qed.

(** * delete_dummy *)
Theorem delete_dummy_nc : forall s d, LInv nw true s -> no_crash (delete_dummy s d).
Proof.
  intros s d [V D]. unfold delete_dummy. destruct (is_dummy s d) eqn:Ed; cbn [negb]; [|apply nc_err].
  apply is_dummy_get in Ed. apply (d_sup _ _ _ _ D eq_refl) in Ed. apply memv_in in Ed.
  unfold sorted_remove. rewrite Ed. cbn [bind]. apply nc_ok.
Qed.

(** * spawn_to_replace_dummy *)
Lemma delete_dummy_forms s d s' : FormsOK nw s -> delete_dummy s d = Ok s' -> FormsOK nw s'.
Proof.
  intros F H. unfold delete_dummy in H. destruct (negb _) in H; [discriminate|].
  mon H. inversion H; subst; clear H. destruct F as [F1 F2 F3 F4]. constructor; auto.
Qed.

Lemma delete_dummy_usage s d s' : delete_dummy s d = Ok s' -> s_usage s' = s_usage s.
Proof.
  intros H. unfold delete_dummy in H. destruct (negb _) in H; [discriminate|].
  mon H. inversion H; subst; clear H. reflexivity.
Qed.

Theorem spawn_to_replace_dummy_nc : forall s d ty,
  cov_all -> SchedCostsFacts.Inv nw s -> LInv nw true s -> TransOK nw s -> US nw s -> FormsOK nw s -> TIs nw s ->
  In ty (type_ids nw) ->
  (forall s1 t, delete_dummy s d = Ok s1 -> vget d (s_dummies s) = Some t ->
     forall f, hd_error (t_nodes t) = Some f ->
     exists dep, find_best_start_depot nw (s_usage s1) ty f = Ok dep) ->
  no_crash (spawn_to_replace_dummy nw s d ty).
Proof.
  intros s d ty CA I L T U F TI Hty FB. unfold spawn_to_replace_dummy, spawn_vehicle_to_replace_dummy_tour.
  destruct (vget d (s_dummies s)) as [t|] eqn:Gd; [|apply nc_err].
  destruct (negb _); [apply nc_err|]. cbn [bind].
  apply nc_bind; [now apply delete_dummy_nc|]. intros s1 E1.
  apply spawn_nc; auto.
  - eapply delete_dummy_ok; eauto.
  - eapply delete_dummy_L; eauto.
  - eapply SchedTransFacts.delete_dummy_T; eauto.
  - eapply delete_dummy_us; eauto.
  - eapply delete_dummy_forms; eauto.
  - destruct TI as [_ TD]. destruct (TD d t Gd) as (_ & NEt & _). exact NEt.
  - intros f Hf _. eapply FB; eauto.
Qed.
End Spawn.

Print Assumptions spawn_nc.
Print Assumptions spawn_panics_without_room.
Print Assumptions delete_dummy_nc.
Print Assumptions spawn_to_replace_dummy_nc.
End NPB_spawn.

Module NPB_fit.
Import Sorted.
Import Base BaseFacts Network NetSpec NetFacts Tour TourSpec TourStmts TourFacts TourValidFacts TourExactStmts TourExactFacts Transition TransSpec Schedule SchedInv SchedObs SchedStruct SchedCostsFacts SchedUnservedFacts SchedViolFacts SchedListFacts SchedToursFacts SchedFormLimFacts SchedUsageFacts SchedFormsFacts SchedTransFacts SchedExactFacts Swaps SwapsStmts SwapsFacts SwapsStmts2 SwapsFacts2 PipelineSched RenderStmts NoPanicStmts NPB_defs NPB_base NPB_sched NPB_tour.
Import Arith.
(* NPB_fit.v — the loop of fit_path_into_tour ([fit_loop], Schedule.v) never crashes on valid exact tours, provided the
   remaining path is a contiguous block of the provider's node list that still contains a non-depot, and the fuel
   exceeds its length (part of NoPanicFactsB).
   Sites: OutOfFuel (the remainder gets strictly shorter), [path = []] (the remainder contains a non-depot),
   [unwrap_opt ntp] (if [remove] uses the provider up, everything that is left of it are depots, so the remainder is
   [None]), [latest_not_reaching_node], [Tour.remove], [conflict], [insert_path] (NPB_tour.v). *)



Local Open Scope nat_scope.

(** * list helpers *)
Lemma fit_in_skipn_nth {A} (l : list A) k x : In x (skipn k l) -> exists i, k <= i /\ nth_error l i = Some x.
Proof.
  intros H. apply In_nth_error in H. destruct H as [i H]. rewrite nth_error_skipn' in H.
  exists (k + i). split; [lia|exact H].
Qed.

Lemma fit_block_of_app {A} (X P Y : list A) : firstn (length P) (skipn (length X) (X ++ P ++ Y)) = P.
Proof.
  rewrite skipn_app, Nat.sub_diag, skipn_all. cbn [skipn app].
  rewrite firstn_app, Nat.sub_diag, firstn_all. cbn [firstn]. apply app_nil_r.
Qed.

Section Fit.
Variable nw : network.
Hypothesis WF : net_wf_b nw = true.
Hypothesis DP : durations_pos_b nw = true.
Hypothesis DF : dists_finite_b nw = true.
Hypothesis DH : dh_dists_finite_b nw = true.
Hypothesis U : unsigned_ok nw.
Notation d0 := (SD 0).
Notation dep := (node_is_depot nw).
Notation ex := (tour_exact nw).

(** * a provider that is used up by [remove] consisted, outside the removed range, of depots only *)
Lemma remove_none_depots t a b rp : TV nw t -> Tour.remove nw t (a, b) = Ok (None, rp) ->
  exists i j, pos_of (t_nodes t) a = Some i /\ pos_of (t_nodes t) b = Some j /\ i <= j /\ j < length (t_nodes t) /\
    forall k x, nth_error (t_nodes t) k = Some x -> k < i \/ j < k -> dep x = true.
Proof.
  intros V H. unfold Tour.remove in H.
  destruct (remove_nodes nw t (a, b)) as [[[[sp ep] tn] rm]| | |] eqn:RN; cbn [bind] in H; try discriminate H.
  mon H. mon H. mon H. mon H.
  destruct (path_new_trusted nw rm) as [rp'|] eqn:PT; [|discriminate H].
  pose proof (TV_nonempty _ _ V) as NE.
  apply (remove_nodes_facts nw t a b sp ep tn rm (TV_len3 nw t V) NE) in RN.
  destruct RN as (P1 & P2 & RR & -> & ->). set (l := t_nodes t) in *.
  apply ref_removable_facts in RR. destruct RR as (Lij & _ & RD).
  pose proof (index_of_lt _ _ _ P1) as Li. pose proof (index_of_lt _ _ _ P2) as Lj.
  exists sp, ep. do 4 (split; [assumption|]).
  destruct (Nat.eqb (length (firstn sp l ++ skipn (ep + 1) l)) 0 ||
            negb (t_dummy t) && Nat.leb (length (firstn sp l ++ skipn (ep + 1) l)) 2) eqn:K;
    [|discriminate H].
  rewrite app_length, firstn_length, skipn_length in K.
  intros k x Hk Hr.
  assert (Lk : k < length l) by (apply nth_error_Some; congruence).
  apply orb_true_iff in K. destruct K as [K|K].
  - apply Nat.eqb_eq in K. exfalso. lia.
  - apply andb_true_iff in K. destruct K as [Dm K]. apply negb_true_iff in Dm. apply Nat.leb_le in K.
    destruct (RD Dm) as [R1 R2].
    unfold TV in V. rewrite Dm in V. destruct V as (_ & _ & Hs & He & _). change (t_nodes t) with l in Hs, He.
    assert (Q : k = 0 \/ k = length l - 1) by lia.
    change (dep x) with (sdep nw x || edep nw x).
    destruct Q as [->| ->].
    + rewrite (nth_error_hd l d0 NE) in Hk. inversion Hk; subst x. rewrite Hs. reflexivity.
    + rewrite (nth_error_last l d0 NE) in Hk. inversion Hk; subst x. rewrite He. apply orb_true_r.
Qed.

(** * the loop *)
Lemma fit_loop_done f ntp ntr moved : no_crash (fit_loop nw f ntp ntr None moved).
Proof. destruct f; cbn [fit_loop]; apply nc_ok. Qed.

Lemma fit_loop_nc_k : forall fuel prov ntr path moved k,
  TV nw prov -> ex prov -> TV nw ntr -> ex ntr ->
  firstn (length path) (skipn k (t_nodes prov)) = path -> forallb dep path = false ->
  length path < fuel ->
  no_crash (fit_loop nw fuel (Some prov) ntr (Some path) moved).
Proof.
  induction fuel as [|f IH]; intros prov ntr rem moved k Va Xa Vr Xr BK ND LF; [lia|].
  cbn [fit_loop]. destruct rem as [|sstart rest0] eqn:ER; [cbn in ND; discriminate ND|]. rewrite <- ER in *.
  cbn [unwrap_opt bind].
  apply nc_bind; [apply latest_not_reaching_nc; exact (TV_nonempty _ _ Vr)|]. intros lnr Elnr.
  apply nc_bind; [destruct lnr; apply nc_ok|]. intros [n n0] E1. cbv beta match zeta.
  (* the chosen end node is the n-th node of the remainder *)
  assert (F1 : nth_error rem n = Some n0).
  { destruct lnr as [pos|].
    - injection E1 as E1.
      match type of E1 with last (filter ?ff ?L) ?d = _ =>
        destruct (last_filter_in ff L d) as [Q|Q]; rewrite E1 in Q end.
      + injection Q as Qa Qb. rewrite Qa, Qb, ER. reflexivity.
      + destruct (dt_ltb _ _) in Q; [destruct Q|].
        destruct Q as [Q|Q]; [injection Q as Qa Qb; rewrite <- Qa, <- Qb, ER; reflexivity|].
        match type of Q with In _ (?T rest0 _) =>
          assert (TK : forall l i e, In e (T l i) -> i <= fst e /\ nth_error l (fst e - i) = Some (snd e)) end.
        { clear. induction l as [|x l IHl]; intros i e He; [destruct He|].
          cbn in He. destruct (dt_ltb _ _) in He; [destruct He|].
          destruct He as [<-|He].
          - cbn [fst snd]. split; [lia|]. rewrite Nat.sub_diag. reflexivity.
          - destruct (IHl _ _ He) as [A B]. split; [lia|].
            replace (fst e - i) with (S (fst e - S i)) by lia. exact B. }
        apply TK in Q. cbn [fst snd] in Q. destruct Q as [A B]. rewrite ER.
        destruct n as [|n']; [lia|]. cbn [nth_error]. replace n' with (S n' - 1) by lia. exact B.
    - inversion E1; subst n n0. apply nth_error_last. rewrite ER. discriminate. }
  clear E1.
  assert (Ln : n < length rem) by (apply nth_error_Some; congruence).
  pose proof (block_tail (t_nodes prov) rem k n BK) as BT.
  (* continuing with an unchanged provider: the block moves right *)
  assert (CONT : forall ntr' moved', TV nw ntr' -> ex ntr' ->
            no_crash (fit_loop nw f (Some prov) ntr' (path_new_trusted nw (skipn (n + 1) rem)) moved')).
  { intros ntr' moved' V' X'. destruct (path_new_trusted nw (skipn (n + 1) rem)) as [rem0|] eqn:PT;
      [|apply fit_loop_done].
    apply path_new_trusted_some in PT. destruct PT as [-> FD].
    apply (IH prov ntr' _ moved' (k + (n + 1))); auto.
    rewrite skipn_length. lia. }
  pose proof (remove_nc nw WF U prov (sstart, n0) Va Xa) as NCR.
  destruct (Tour.remove nw prov (sstart, n0)) as [[cand_prov pfi]| | |] eqn:RM;
    [|apply CONT; assumption|destruct NCR; congruence|destruct NCR; congruence].
  destruct (remove_valid nw _ _ _ _ Va RM) as (i' & j' & P1 & P2 & Lij & Lj & EL & VPf & SH).
  cbn [fst snd] in P1, P2.
  pose proof (connected_nodup nw WF DP _ (TV_connected nw _ Va)) as NDa.
  assert (N0 : nth_error rem 0 = Some sstart) by (rewrite ER; reflexivity).
  pose proof (pos_nodup _ _ _ _ NDa P1 (block_nth _ _ _ _ _ BK N0)) as Ei. rewrite Nat.add_0_r in Ei.
  pose proof (pos_nodup _ _ _ _ NDa P2 (block_nth _ _ _ _ _ BK F1)) as Ej.
  assert (EP : pfi = firstn (n + 1) rem).
  { rewrite EL, Ei, Ej. replace (k + n + 1 - k) with (n + 1) by lia. apply block_head; [lia|exact BK]. }
  (* conflict *)
  assert (Hhd : hd_error pfi = Some sstart) by (rewrite EP, ER, Nat.add_1_r; reflexivity).
  assert (Hla : last pfi sstart = n0).
  { rewrite EP. rewrite last_firstn by lia. replace (n + 1 - 1) with n by lia. apply nth_error_nth. exact F1. }
  destruct (conflict_total nw WF DP ntr pfi Vr VPf sstart Hhd) as (cf & Ecf). rewrite Hla in Ecf.
  rewrite Ecf. cbn [bind].
  destruct cf as [cfp|]; [apply CONT; assumption|].
  (* insert_path *)
  destruct (insert_path_total nw WF DP U ntr pfi Vr Xr VPf) as ([nr o] & Eins). rewrite Eins. cbn [bind].
  destruct (insert_path_valid nw WF DP ntr pfi nr o Vr VPf Eins) as (_ & Vnr & _ & _).
  pose proof (insert_E nw WF DF ntr pfi nr o Xr Eins) as Xnr.
  destruct (path_new_trusted nw (skipn (n + 1) rem)) as [rem0|] eqn:PT; [|apply fit_loop_done].
  apply path_new_trusted_some in PT. destruct PT as [-> FD].
  destruct cand_prov as [prov'|].
  - destruct SH as (_ & V1 & EN).
    apply (IH prov' nr _ _ k); auto.
    + eapply (remove_E nw WF DF DH); [exact Va|exact Xa|exact RM].
    + rewrite EN, Ei, Ej. rewrite skipn_firstn_app by lia.
      replace (k + n + 1) with (k + (n + 1)) by lia. exact BT.
    + rewrite skipn_length. lia.
  - (* the provider is used up: what is left of it are depots, among them the whole remainder *)
    exfalso.
    destruct (remove_none_depots prov sstart n0 pfi Va RM) as (i2 & j2 & Q1 & Q2 & _ & _ & AD).
    rewrite P1 in Q1. rewrite P2 in Q2. inversion Q1; inversion Q2; subst i2 j2.
    assert (ALL : forallb dep (skipn (n + 1) rem) = true).
    { apply forallb_forall. intros x Hx. apply fit_in_skipn_nth in Hx. destruct Hx as (i & Li & Hi).
      apply (AD (k + i) x); [exact (block_nth _ _ _ _ _ BK Hi)|]. right. lia. }
    rewrite ALL in FD. discriminate FD.
Qed.

Theorem fit_loop_nc : forall fuel prov ntr path moved A B,
  TV nw prov -> tour_exact nw prov -> TV nw ntr -> tour_exact nw ntr ->
  t_nodes prov = A ++ path ++ B -> forallb (node_is_depot nw) path = false ->
  (length path < fuel)%nat ->
  no_crash (fit_loop nw fuel (Some prov) ntr (Some path) moved).
Proof.
  intros fuel prov ntr path moved A B Va Xa Vr Xr EN ND LF.
  apply (fit_loop_nc_k fuel prov ntr path moved (length A)); auto.
  rewrite EN. apply fit_block_of_app.
Qed.

Corollary fit_loop_sub_path_nc : forall tp trc seg path moved,
  TV nw tp -> tour_exact nw tp -> TV nw trc -> tour_exact nw trc -> sub_path nw tp seg = Ok path ->
  no_crash (fit_loop nw (S (length path)) (Some tp) trc (Some path) moved).
Proof.
  intros tp trc seg path moved Va Xa Vr Xr SP.
  destruct (sub_path_slice nw _ _ _ SP) as (i & j & _ & _ & EL & _ & _ & FD).
  apply (fit_loop_nc_k _ tp trc path moved i); auto.
  rewrite EL. apply firstn_length_self.
Qed.

End Fit.

Print Assumptions remove_none_depots.
Print Assumptions fit_loop_nc_k.
Print Assumptions fit_loop_nc.
Print Assumptions fit_loop_sub_path_nc.
End NPB_fit.

Module NPB_over.
Import Sorted.
Import Base BaseFacts Network NetSpec NetFacts Tour TourSpec TourStmts TourFacts TourValidFacts TourExactStmts TourExactFacts Transition TransSpec Schedule SchedInv SchedObs SchedStruct SchedCostsFacts SchedUnservedFacts SchedViolFacts SchedListFacts SchedToursFacts SchedFormLimFacts SchedUsageFacts SchedFormsFacts SchedTransFacts SchedExactFacts Swaps SwapsStmts SwapsFacts SwapsStmts2 SwapsFacts2 PipelineSched RenderStmts NoPanicStmts NPB_defs NPB_base NPB_sched NPB_tour NPB_trans NPB_seg NPB_utours NPB_spawn.
(* NPB_over.v — override_reassign never crashes on an enumerated segment *)


Local Open Scope Z_scope.

Section Over.
Variable nw : network.
Hypothesis WF : net_wf_b nw = true.
Hypothesis DP : durations_pos_b nw = true.
Hypothesis DF : dists_finite_b nw = true.
Hypothesis DH : dh_dists_finite_b nw = true.
Hypothesis U : unsigned_ok nw.
Hypothesis CA : cov_all nw.

Lemma nget_key_ne {A} n (l : list (node_id * A)) : In n (map fst l) -> nget n l <> None.
Proof.
  unfold nget. induction l as [|[k y] l IH]; cbn [map fst In assoc]; [tauto|].
  intros [->|H]; [rewrite nid_eqb_refl; discriminate|].
  destruct (nid_eqb n k); [discriminate | auto].
Qed.

Lemma has_forms_all s l : FormsOK nw s -> has_forms nw (s_forms s) l.
Proof.
  intros F n _ Hd. apply nget_key_ne. apply (fo_keys nw s F). apply CA. exact Hd.
Qed.

Lemma has_forms_kept s prov recv moved fm uns fm' uns' l :
  update_train_formation nw s fm uns prov recv moved = Ok (fm', uns') -> has_forms nw fm l -> has_forms nw fm' l.
Proof. intros H HF n Hn Hd. eapply utf_keeps; eauto. Qed.

Lemma TV_ends t : TV nw t -> t_dummy t = false -> ends_ok nw t.
Proof.
  intros V D. unfold TV in V. rewrite D in V. split; [now apply RV_first | now apply RV_last].
Qed.

Lemma real_not_dummy_tour s v t : SchedCostsFacts.Inv nw s -> TIs nw s -> tour_of s v = Ok t ->
  is_dummy s v = false -> t_dummy t = false.
Proof.
  intros I T H D. destruct (tour_of_T nw s v t I T H) as (_ & _ & F). destruct (F D) as (_ & ty & _ & R).
  destruct R as (Dm & _). exact Dm.
Qed.

Lemma has_tour_real_vehicle s v t : SchedCostsFacts.Inv nw s -> LInv nw true s -> tour_of s v = Ok t ->
  vid_is_real v = true -> vget v (s_vehicles s) <> None.
Proof.
  intros I [V _] H R. apply (tour_of_real s v t (inv_dummy nw s I) R) in H.
  intros Q. apply (v_same _ _ _ _ V) in Q. congruence.
Qed.

Theorem override_nc s seg p r tp trc :
  SchedCostsFacts.Inv nw s -> LInv nw true s -> TIs nw s -> EIs nw s -> US nw s -> TransOK nw s -> FormsOK nw s ->
  tour_of s p = Ok tp -> seg_ok nw tp seg -> tour_of s r = Ok trc ->
  no_crash (override_reassign nw s seg p r).
Proof.
  intros I L T E Us TR F Htp SO Htr.
  destruct (tour_of_T nw s p tp I T Htp) as (Vp & _ & _).
  destruct (tour_of_T nw s r trc I T Htr) as (Vr & _ & _).
  pose proof (tour_of_E nw s p tp E Htp) as Ep.
  pose proof (tour_of_E nw s r trc E Htr) as Er.
  unfold override_reassign. destruct (vid_eqb p r) eqn:Epr; [apply nc_err|]. apply vid_eqb_neq in Epr.
  apply nc_bind; [exact (crtc_nc nw WF DP s p r seg tp Vp Htp SO)|]. intros ok _. destruct (negb ok); [apply nc_err|].
  rewrite Htp, Htr. cbn [bind].
  apply nc_bind; [exact (remove_nc nw WF U tp seg Vp Ep)|]. intros [shr path] Erm.
  destruct (remove_valid nw tp seg shr path Vp Erm) as (i & j & _ & _ & _ & _ & _ & VP & SH).
  destruct (insert_path_total nw WF DP U trc path Vr Er VP) as [[ntr replaced] Eins]. rewrite Eins. cbn [bind].
  destruct (insert_path_valid nw WF DP trc path ntr replaced Vr VP Eins) as (Dm & Vn & _ & _).
  pose proof (insert_E nw WF DF trc path ntr replaced Er Eins) as En.
  apply nc_bind.
  { eapply (update_tours_nc nw WF U s p shr r ntr path tp trc); eauto.
    - intros nt ->. destruct SH as (D1 & V1 & _). split.
      + apply (exact_costs_nonneg nw WF U). exact (remove_E nw WF DF DH tp seg nt path Vp Ep Erm).
      + intros Dp. apply TV_ends; [exact V1|]. rewrite D1. eapply real_not_dummy_tour; eauto.
    - apply (exact_costs_nonneg nw WF U). exact En.
    - intros Dr. apply TV_ends; [exact Vn|]. rewrite Dm. eapply real_not_dummy_tour; eauto.
    - now apply has_forms_all. }
  intros [[[[[[[[vehicles tours] forms1] usage] dummies1] ids] dids1] uns1] costs] Eut.
  apply nc_bind.
  { destruct replaced as [np|]; [|apply nc_ok].
    apply nc_bind.
    - destruct (is_vehicle s r); [|apply nc_ok]. apply utf_nc.
      unfold update_tours in Eut. monp Eut. mon Eut. monp Eut. mon Eut. monp Eut. inversion Eut; subst; clear Eut.
      eapply has_forms_kept; [eassumption|]. now apply has_forms_all.
    - intros [f2 u2] _. destruct (tour_new_dummy nw np); cbn [add_dummy_tour]; apply nc_ok. }
  intros [[[[[forms uns] dummies] dids] counter] newd] _.
  apply nc_bind; [|intros [trans viol] _; apply nc_ok].
  apply nc_of_ok.
  pose proof L as [V D].
  assert (Gd : guard true s p r) by (intros _ Q; contradiction).
  destruct (update_tours_L nw true s _ _ _ p shr r ntr path _ _ _ _ _ _ _ _ _ I L Gd Eut) as [V' _].
  destruct (update_tours_frame nw s _ _ _ _ _ _ _ _ _ _ _ _ _ _ _ _ _ _ _ _ _ _ _ Eut) as [F1 F2].
  eapply (update_transitions_ok nw s vehicles tours ids); eauto.
  - apply nodup_filter_two. intros Q. contradiction.
  - intros v Hv Rv. right. destruct Hv as [<-|[<-|[]]]; eapply has_tour_real_vehicle; eauto.
Qed.
End Over.
Print Assumptions override_nc.
End NPB_over.

Module NPB_fitre.
Import Sorted.
Import Base BaseFacts Network NetSpec NetFacts Tour TourSpec TourStmts TourFacts TourValidFacts TourExactStmts TourExactFacts Transition TransSpec Schedule SchedInv SchedObs SchedStruct SchedCostsFacts SchedUnservedFacts SchedViolFacts SchedListFacts SchedToursFacts SchedFormLimFacts SchedUsageFacts SchedFormsFacts SchedTransFacts SchedExactFacts Swaps SwapsStmts SwapsFacts SwapsStmts2 SwapsFacts2 PipelineSched RenderStmts NoPanicStmts NPB_defs NPB_base NPB_sched NPB_tour NPB_trans NPB_seg NPB_utours NPB_spawn NPB_fit NPB_over.
(* NPB_fitre.v — fit_reassign never crashes when the segment is a sub-path of the provider's tour *)


Local Open Scope Z_scope.

Section FitRe.
Variable nw : network.
Hypothesis WF : net_wf_b nw = true.
Hypothesis DP : durations_pos_b nw = true.
Hypothesis DF : dists_finite_b nw = true.
Hypothesis DH : dh_dists_finite_b nw = true.
Hypothesis U : unsigned_ok nw.
Hypothesis CA : cov_all nw.

(* the dummy flags of provider and receiver are kept by fit_loop *)
Lemma fit_loop_D dp dr :
  forall fuel ntp ntr remaining moved ntp' ntr' moved',
  (forall prov, ntp = Some prov -> TV nw prov /\ t_dummy prov = dp) ->
  (TV nw ntr /\ t_dummy ntr = dr) ->
  fit_loop nw fuel ntp ntr remaining moved = Ok (ntp', ntr', moved') ->
  (forall prov, ntp' = Some prov -> t_dummy prov = dp) /\ t_dummy ntr' = dr.
Proof.
  induction fuel as [|f IH]; intros ntp ntr remaining moved ntp' ntr' moved' HP HR H.
  - destruct remaining; cbn in H; [discriminate|]. inversion H; subst. split; [intros prov Q; apply (HP prov Q)|apply HR].
  - destruct remaining as [rem|]; [|cbn in H; inversion H; subst; split; [intros prov Q; apply (HP prov Q)|apply HR]].
    cbn [fit_loop] in H. destruct rem as [|sstart rest0] eqn:ER; [discriminate|]. rewrite <- ER in *.
    mon H. mon H. monp H.
    apply unwrap_opt_ok in E. destruct (HP a E) as (Va & Xa).
    destruct HR as (Vr & Xr).
    destruct (Tour.remove nw a (sstart, n0)) as [[cand_prov pfi]| | |] eqn:RM; try discriminate H.
    + mon H. destruct a1 as [cf|].
      * eapply IH; [exact HP|split; [exact Vr|exact Xr]|exact H].
      * monp H.
        destruct (remove_valid nw _ _ _ _ Va RM) as (i' & j' & _ & _ & _ & _ & _ & VPf & SH).
        destruct (insert_path_valid nw WF DP ntr pfi t o Vr VPf E3) as (Dn & Vnr & _ & _).
        eapply IH; [| |exact H].
        -- intros prov ->. destruct SH as (D1 & V1 & _). split; [exact V1|congruence].
        -- split; [exact Vnr|congruence].
    + eapply IH; [exact HP|split; [exact Vr|exact Xr]|exact H].
Qed.

Theorem fit_nc s seg p r tp trc sp :
  SchedCostsFacts.Inv nw s -> LInv nw true s -> TIs nw s -> EIs nw s -> US nw s -> TransOK nw s -> FormsOK nw s ->
  p <> r -> tour_of s p = Ok tp -> tour_of s r = Ok trc -> sub_path nw tp seg = Ok sp ->
  no_crash (fit_reassign nw s seg p r).
Proof.
  intros I L T E Us TR F Epr Htp Htr Hsp.
  destruct (tour_of_T nw s p tp I T Htp) as (Vp & _ & _).
  destruct (tour_of_T nw s r trc I T Htr) as (Vr & _ & _).
  pose proof (tour_of_E nw s p tp E Htp) as Ep.
  pose proof (tour_of_E nw s r trc E Htr) as Er.
  unfold fit_reassign.
  apply nc_bind.
  { unfold check_receiver_type_compatibility.
    destruct (vehicle_type_of s r) as [tr| | |]; try apply nc_ok.
    match goal with |- no_crash (if ?c then _ else _) => destruct c end; [|apply nc_ok].
    rewrite Htp. cbn [bind]. rewrite Hsp. cbn [bind]. apply nc_ok. }
  intros ok _. destruct (negb ok); [apply nc_err|].
  rewrite Htp, Htr. cbn [bind]. rewrite Hsp. cbn [bind].
  apply nc_bind; [exact (fit_loop_sub_path_nc nw WF DP DF DH U tp trc seg sp [] Vp Ep Vr Er Hsp)|].
  intros [[ntp ntr] moved] Efl.
  assert (HP0 : forall prov, Some tp = Some prov -> TV nw prov /\ tour_exact nw prov)
    by (intros prov Q; inversion Q; subst; auto).
  destruct (fit_loop_E nw WF DP DF DH _ _ _ _ _ _ _ _ HP0 (conj Vr Er) Efl) as (HP & Vn & En).
  assert (HD0 : forall prov, Some tp = Some prov -> TV nw prov /\ t_dummy prov = t_dummy tp)
    by (intros prov Q; inversion Q; subst; auto).
  destruct (fit_loop_D (t_dummy tp) (t_dummy trc) _ _ _ _ _ _ _ _ HD0 (conj Vr eq_refl) Efl) as (DPv & Dn).
  apply nc_bind.
  { eapply (update_tours_nc nw WF U s p ntp r ntr moved tp trc); eauto.
    - intros nt Q. destruct (HP nt Q) as (V1 & E1). split.
      + now apply (exact_costs_nonneg nw WF U).
      + intros Dp. apply TV_ends; [exact V1|]. rewrite (DPv nt Q). eapply real_not_dummy_tour; eauto.
    - now apply (exact_costs_nonneg nw WF U).
    - intros Dr. apply TV_ends; [exact Vn|]. rewrite Dn. eapply real_not_dummy_tour; eauto.
    - now apply has_forms_all. }
  intros [[[[[[[[vehicles tours] forms1] usage] dummies1] ids] dids1] uns1] costs] Eut.
  apply nc_bind; [|intros [trans viol] _; apply nc_ok].
  apply nc_of_ok.
  pose proof L as [V D].
  assert (Gd : guard true s p r) by (intros _ Q; contradiction).
  destruct (update_tours_L nw true s _ _ _ p ntp r ntr moved _ _ _ _ _ _ _ _ _ I L Gd Eut) as [V' _].
  destruct (update_tours_frame nw s _ _ _ _ _ _ _ _ _ _ _ _ _ _ _ _ _ _ _ _ _ _ _ Eut) as [F1 F2].
  eapply (update_transitions_ok nw s vehicles tours ids); eauto.
  - apply nodup_filter_two. intros Q. contradiction.
  - intros v Hv Rv. right. destruct Hv as [<-|[<-|[]]]; eapply has_tour_real_vehicle; eauto.
Qed.

(* the whole tour as a segment: sub_path succeeds *)
Lemma whole_sub_path t : TV nw t -> forallb (node_is_depot nw) (t_nodes t) = false ->
  sub_path nw t (first_node t, last_node t) = Ok (t_nodes t).
Proof.
  intros V ND.
  pose proof (TV_connected nw t V) as CN. pose proof (connected_chrono nw WF DP _ CN) as CH.
  pose proof (TV_nonempty nw t V) as NE.
  assert (L0 : (0 < length (t_nodes t))%nat) by (destruct (t_nodes t); [congruence|cbn; lia]).
  assert (H0 : nth_error (t_nodes t) 0 = Some (first_node t)).
  { unfold first_node, nth_node. apply nth_error_nth'. exact L0. }
  assert (H1 : nth_error (t_nodes t) (length (t_nodes t) - 1) = Some (last_node t)).
  { unfold last_node, nth_node, tlen. apply nth_error_nth'. lia. }
  rewrite (sub_path_total_at nw WF DP t 0 (length (t_nodes t) - 1) _ _ CH CN H0 H1 ltac:(lia)).
  - unfold ref_sub_path. cbn [skipn]. f_equal. apply firstn_all2. lia.
  - unfold all_depots, ref_sub_path. cbn [skipn]. rewrite firstn_all2 by lia. exact ND.
Qed.
End FitRe.
Print Assumptions fit_nc.
End NPB_fitre.

Module NPB_px.
Import Sorted.
Import Base BaseFacts Network NetSpec NetFacts Tour TourSpec TourStmts TourFacts TourValidFacts TourExactStmts TourExactFacts Transition TransSpec Schedule SchedInv SchedObs SchedStruct SchedCostsFacts SchedUnservedFacts SchedViolFacts SchedListFacts SchedToursFacts SchedFormLimFacts SchedUsageFacts SchedFormsFacts SchedTransFacts SchedExactFacts Swaps SwapsStmts SwapsFacts SwapsStmts2 SwapsFacts2 PipelineSched RenderStmts NoPanicStmts NPB_defs NPB_base NPB_sched NPB_tour NPB_trans NPB_seg NPB_utours NPB_spawn NPB_fit NPB_over NPB_fitre.
(* NPB_px.v — path_exchange and spawn_vehicle_for_maintenance: up to the final improve_and_recompute they never crash *)


Local Open Scope Z_scope.

Lemma nc_cases {A} (r : res A) : no_crash r -> r = Err \/ exists a, r = Ok a.
Proof. intros [H1 H2]. destruct r; eauto; congruence. Qed.

Lemma dedup_v_in l : forall x, In x (dedup_v l) -> In x l.
Proof.
  induction l as [|a r IH]; intros x H; [exact H|].
  destruct r as [|b r']; [exact H|]. cbn [dedup_v] in H.
  destruct (vid_eqb a b).
  - right. apply IH. exact H.
  - destruct H as [<-|H]; [now left | right; apply IH; exact H].
Qed.

Lemma dedup_v_short l : (length l <= 2)%nat -> NoDup (dedup_v l).
Proof.
  destruct l as [|a [|b [|c l]]]; cbn [length]; intros H; try lia.
  - constructor.
  - cbn. repeat constructor. intros [].
  - cbn [dedup_v]. destruct (vid_eqb a b) eqn:E.
    + repeat constructor. intros [].
    + apply vid_eqb_neq in E. repeat constructor; cbn; intuition.
Qed.

Lemma dedup_v_length l : (length (dedup_v l) <= length l)%nat.
Proof.
  induction l as [|a r IH]; [cbn; lia|]. destruct r as [|b r']; [cbn; lia|].
  change (dedup_v (a :: b :: r')) with (if vid_eqb a b then dedup_v (b :: r') else a :: dedup_v (b :: r')).
  destruct (vid_eqb a b); cbn [length] in *; lia.
Qed.

Lemma filter_length_le {A} (f : A -> bool) l : (length (filter f l) <= length l)%nat.
Proof. induction l as [|a l IH]; cbn [filter length]; [lia|]. destruct (f a); cbn [length]; lia. Qed.

Section PX.
Variable nw : network.
Hypothesis NF : net_fine nw.
Hypothesis DF : dists_finite_b nw = true.
Hypothesis DH : dh_dists_finite_b nw = true.
Hypothesis U : unsigned_ok nw.
Hypothesis CA : cov_all nw.
Let WF := nf_wf nw NF.
Let DP := nf_dp nw NF.
Let ML := nf_ml nw NF.

Lemma override_newd_tour s seg p r first d :
  override_reassign nw s seg p r = Ok (first, Some d) -> exists dt, vget d (s_dummies first) = Some dt.
Proof.
  intros H. unfold override_reassign in H.
  destruct (vid_eqb p r) eqn:Epr; [discriminate|].
  mon H. destruct (negb _) in H; [discriminate|].
  mon H. mon H. monp H. monp H. monp H.
  monp H. monp H. inversion H; subst; clear H. cbn [with_fields s_dummies].
  destruct o0 as [np|]; [|discriminate E5].
  monp E5. destruct (tour_new_dummy nw np) as [dt| | |]; cbn [add_dummy_tour] in E5; inversion E5; subst.
  exists dt. rewrite vget_vset, vid_eqb_refl. reflexivity.
Qed.

Lemma dummy_key_tour_of s d dt : SchedCostsFacts.Inv nw s -> vid_is_real d = false ->
  vget d (s_dummies s) = Some dt -> tour_of s d = Ok dt.
Proof.
  intros I R G. unfold tour_of. destruct (vget d (s_tours s)) as [t0|] eqn:G0.
  - destruct (inv_keys nw s I _ _ G0) as (i & -> & _). discriminate R.
  - rewrite G. reflexivity.
Qed.

Lemma vod_tour s v : LInv nw true s -> is_vehicle_or_dummy s v = true -> exists t, tour_of s v = Ok t.
Proof.
  intros [V _] H. unfold is_vehicle_or_dummy in H. apply orb_true_iff in H. unfold tour_of.
  destruct (vget v (s_tours s)) as [t|] eqn:G; [eauto|].
  destruct H as [H|H].
  - unfold is_vehicle in H. apply (v_same _ _ _ _ V) in G. rewrite G in H. discriminate.
  - unfold is_dummy in H. destruct (vget v (s_dummies s)); [cbn; eauto | discriminate].
Qed.

Lemma DT_nondepots t : DT nw t -> forallb (node_is_depot nw) (t_nodes t) = false.
Proof.
  intros (_ & NE & _ & ND). destruct (t_nodes t) as [|a l] eqn:E; [congruence|].
  cbn [forallb]. pose proof (ND a (or_introl eq_refl)) as Q. rewrite Q. reflexivity.
Qed.

Lemma veh_type_in_ids s v ty : LInv nw true s -> vget v (s_vehicles s) = Some ty -> In ty (type_ids nw).
Proof.
  intros [V _] G. apply (v_ids _ _ _ _ V) in G. apply iter_in_keys in G. now rewrite (v_keys _ _ _ _ V) in G.
Qed.

(* path_exchange: either the candidate is refused, or everything up to the final improve_and_recompute succeeds, on a
   wreachable schedule [second] and a duplicate-free list of vehicles of [second] *)
Theorem path_exchange_pre s seg p r tp trc :
  wreachable nw s -> tour_of s p = Ok tp -> seg_ok nw tp seg -> tour_of s r = Ok trc ->
  (* room for the vehicle that replaces the new dummy when the provider's tour was used up *)
  (forall first d ty s1 t f, override_reassign nw s seg p r = Ok (first, Some d) ->
     is_vehicle_or_dummy first p = false -> vget p (s_vehicles s) = Some ty ->
     delete_dummy first d = Ok s1 -> vget d (s_dummies first) = Some t -> hd_error (t_nodes t) = Some f ->
     exists dep, find_best_start_depot nw (s_usage s1) ty f = Ok dep) ->
  path_exchange nw s seg p r = Err \/
  exists second ch, wreachable nw second /\ NoDup ch /\ (forall v, In v ch -> is_vehicle second v = true) /\
    (length ch <= 2)%nat /\
    path_exchange nw s seg p r = match improve_and_recompute nw second ch with Err => Panic | x => x end.
Proof.
  intros R Htp SO Htr Room.
  pose proof (wreachable_WS nw NF DF DH s R) as W.
  unfold path_exchange.
  destruct (nc_cases _ (override_nc nw WF DP DF DH U CA s seg p r tp trc (ws_inv nw s W) (ws_L nw s W) (ws_T nw s W)
                          (ws_E nw s W) (ws_us nw s W) (ws_trans nw s W) (ws_forms nw s W) Htp SO Htr))
    as [->|[[first newd] Eo]]; [left; reflexivity|].
  rewrite Eo. cbn [bind].
  pose proof (wreach_override nw s seg p r first newd R Eo) as R1.
  pose proof (wreachable_WS nw NF DF DH first R1) as W1.
  set (changed0 := if is_vehicle s r then [r] else []).
  assert (L0 : (length changed0 <= 1)%nat) by (unfold changed0; destruct (is_vehicle s r); cbn; lia).
  match goal with |- bind ?X _ = Err \/ _ =>
    assert (HX : X = Err \/ exists second changed, X = Ok (second, changed) /\ wreachable nw second /\
                                                  (length changed <= 2)%nat) end.
  { destruct newd as [d|]; [|right; exists first, changed0; repeat split; auto; lia].
    destruct (override_newd_tour s seg p r first d Eo) as [dt Gd].
    destruct (override_newd nw s seg p r first d Eo) as [Ed _].
    assert (Td : tour_of first d = Ok dt) by (apply dummy_key_tour_of; [apply (ws_inv nw first W1)|subst d; reflexivity|exact Gd]).
    destruct (is_vehicle_or_dummy first p) eqn:Evd.
    - rewrite Td. cbn [bind].
      destruct (vod_tour first p (ws_L nw first W1) Evd) as [tp1 Htp1].
      assert (Nd : d <> p) by (eapply override_newd_fresh; [apply wreachable_reachable; exact R|exact Eo]).
      assert (DTd : DT nw dt) by (apply (ws_T nw first W1) in Gd; exact Gd).
      pose proof (whole_sub_path nw WF DP dt (DT_TV nw dt DTd) (DT_nondepots dt DTd)) as Hsp.
      destruct (nc_cases _ (fit_nc nw WF DP DF DH U CA first (first_node dt, last_node dt) d p dt tp1 (t_nodes dt)
                  (ws_inv nw first W1) (ws_L nw first W1) (ws_T nw first W1) (ws_E nw first W1) (ws_us nw first W1)
                  (ws_trans nw first W1) (ws_forms nw first W1) Nd Td Htp1 Hsp)) as [->|[s2 E2]]; [left; reflexivity|].
      rewrite E2. cbn [bind]. right. exists s2, (changed0 ++ [p]). repeat split; auto.
      + eapply wreach_fit; eauto.
      + rewrite app_length. cbn [length]. lia.
    - destruct (is_vehicle s p) eqn:Evp; [|right; exists first, changed0; repeat split; auto; lia].
      unfold is_vehicle in Evp. unfold vehicle_type_of.
      destruct (vget p (s_vehicles s)) as [ty|] eqn:Gty; [|discriminate]. cbn [ok_or_err bind].
      destruct (nc_cases _ (spawn_to_replace_dummy_nc nw first d ty CA (ws_inv nw first W1) (ws_L nw first W1)
                  (ws_trans nw first W1) (ws_us nw first W1) (ws_forms nw first W1) (ws_T nw first W1)
                  (veh_type_in_ids s p ty (ws_L nw s W) Gty)
                  (fun s1 t Hd Gt f Hf => Room first d ty s1 t f Eo Evd eq_refl Hd Gt Hf)))
        as [->|[[s2 nv] E2]]; [left; reflexivity|].
      rewrite E2. cbn [bind]. right. exists s2, (changed0 ++ [nv]). repeat split; auto.
      + eapply wreach_spawn_dummy; eauto.
      + rewrite app_length. cbn [length]. lia. }
  destruct HX as [->|(second & changed & -> & R2 & L2)]; [left; reflexivity|].
  cbn [bind]. right.
  exists second, (dedup_v (filter (fun v => is_vehicle second v) changed)). repeat split.
  - exact R2.
  - apply dedup_v_short. pose proof (filter_length_le (fun v => is_vehicle second v) changed). lia.
  - intros v Hv. apply dedup_v_in in Hv. apply filter_In in Hv. tauto.
  - pose proof (dedup_v_length (filter (fun v => is_vehicle second v) changed)).
    pose proof (filter_length_le (fun v => is_vehicle second v) changed). lia.
Qed.
End PX.
Print Assumptions path_exchange_pre.
End NPB_px.

Module NPB_mt.
Import Sorted.
Import Base BaseFacts Network NetSpec NetFacts Tour TourSpec TourStmts TourFacts TourValidFacts TourExactStmts TourExactFacts Transition TransSpec Schedule SchedInv SchedObs SchedStruct SchedCostsFacts SchedUnservedFacts SchedViolFacts SchedListFacts SchedToursFacts SchedFormLimFacts SchedUsageFacts SchedFormsFacts SchedTransFacts SchedExactFacts Swaps SwapsStmts SwapsFacts SwapsStmts2 SwapsFacts2 PipelineSched RenderStmts NoPanicStmts NPB_defs NPB_base NPB_sched NPB_tour NPB_trans NPB_seg NPB_utours NPB_spawn NPB_fit NPB_over NPB_fitre NPB_px.
(* NPB_mt.v — add_path_to_vehicle_tour and spawn_vehicle_for_maintenance *)


Local Open Scope Z_scope.

Section MT.
Variable nw : network.
Hypothesis NF : net_fine nw.
Hypothesis DF : dists_finite_b nw = true.
Hypothesis DH : dh_dists_finite_b nw = true.
Hypothesis U : unsigned_ok nw.
Hypothesis CA : cov_all nw.
Let WF := nf_wf nw NF.
Let DP := nf_dp nw NF.
Let ML := nf_ml nw NF.

Theorem add_path_nc s v path :
  SchedCostsFacts.Inv nw s -> LInv nw true s -> TIs nw s -> EIs nw s -> US nw s -> TransOK nw s -> FormsOK nw s ->
  is_vehicle s v = true -> valid_path nw path ->
  no_crash (add_path_to_vehicle_tour nw s v path).
Proof.
  intros I L T E Us TR F Hv VP.
  destruct (veh_facts nw s v I L T Hv) as (ty & t & Gty & Ht & Gt & [A1 A2] & Dv).
  destruct (tour_of_T nw s v t I T Ht) as (Vt & _ & Rt). destruct (Rt Dv) as (_ & ty0 & Gty0 & RTt).
  assert (ty0 = ty) by congruence. subst ty0. destruct RTt as (Dt & _).
  pose proof (tour_of_E nw s v t E Ht) as Et.
  unfold add_path_to_vehicle_tour. destruct path as [|pf path'] eqn:EP; [destruct VP as [N _]; congruence|].
  rewrite <- EP in *.
  unfold vehicle_type_of. rewrite Gty. cbn [ok_or_err].
  match goal with |- no_crash (if ?c then _ else _) => destruct c end; [apply nc_err|].
  apply nc_bind.
  { destruct (is_depot (nd nw pf)); [|apply nc_ok]. rewrite Ht. cbn [bind]. unfold start_depot. rewrite A1. cbn [bind].
    match goal with |- no_crash (if ?c then _ else _) => destruct c end; [apply nc_err | apply nc_ok]. }
  intros _ _. cbn [unwrap_opt bind].
  apply nc_bind; [apply utf_nc; now apply has_forms_all|]. intros [forms1 uns1] Eu1.
  rewrite Gt. cbn [unwrap_opt bind].
  destruct (insert_path_total nw WF DP U t path Vt Et VP) as [[new_tour removed] Eins]. rewrite Eins. cbn [bind].
  destruct (insert_path_valid nw WF DP t path new_tour removed Vt VP Eins) as (Dn & Vn & _ & _).
  pose proof (insert_E nw WF DF t path new_tour removed Et Eins) as En.
  apply nc_bind.
  { destruct removed as [rp|]; [|apply nc_ok]. apply utf_nc. eapply has_forms_kept; [exact Eu1|]. now apply has_forms_all. }
  intros [forms uns] _.
  destruct (NPB_tour.z_sub_cost_ok (s_costs s + t_costs new_tour) (t_costs t)) as [c Ec].
  { pose proof (TC_ge nw U _ _ v t (inv_tc nw s I) (nonneg_s nw WF U s E) Gt).
    pose proof (exact_costs_nonneg nw WF U new_tour En). lia. }
  rewrite Ec. cbn [bind].
  destruct (udu_nc nw s (s_usage s) (s_vehicles s) (s_tours s) (s_vehicles s) (vset v new_tour (s_tours s)) v Us) as [u' Eu'].
  { intros _. exists ty, t. repeat split; auto. }
  { congruence. }
  { intros ty1 _ t1 G1. rewrite vget_vset, vid_eqb_refl in G1. inversion G1; subst t1.
    apply TV_ends; [exact Vn | congruence]. }
  rewrite Eu'. cbn [bind].
  pose proof L as [V D].
  destruct (update_transitions_ok nw s (s_vehicles s) (vset v new_tour (s_tours s)) (s_ids s) (s_trans s) (s_viol s) [v])
    as [[trans viol] Etr]; auto.
  - eapply V_tours_vset_old; eauto.
  - congruence.
  - apply nodup_filter_one.
  - intros x [<-|[]] _. left. congruence.
  - rewrite Etr. cbn [bind]. apply nc_ok.
Qed.

Lemma maint_node_coverable m : In m (nw_maint nw) -> In m (coverable_nodes nw).
Proof. intros H. unfold coverable_nodes. apply in_or_app. now right. Qed.

(* spawn_vehicle_for_maintenance on an enumerated candidate (a listed slot with a free track, a real vehicle): either
   it is refused, or everything up to the final improve_and_recompute succeeds *)
Theorem maint_pre s m v :
  wreachable nw s -> In m (nw_maint nw) -> is_vehicle s v = true ->
  (forall occ, nget m (s_forms s) = Some occ -> Z.of_nat (length occ) < track_count nw m) ->
  (* room for the vehicle that takes over the nodes displaced by the maintenance slot *)
  (forall s2 path ty f, add_path_to_vehicle_tour nw s v [m] = Ok (s2, Some path) -> vget v (s_vehicles s) = Some ty ->
     hd_error path = Some f -> exists dep, find_best_start_depot nw (s_usage s2) ty f = Ok dep) ->
  spawn_vehicle_for_maintenance nw s m v = Err \/
  exists s3 ch, wreachable nw s3 /\ NoDup ch /\ (forall x, In x ch -> is_vehicle s3 x = true) /\
    (length ch <= 2)%nat /\
    spawn_vehicle_for_maintenance nw s m v = match improve_and_recompute nw s3 ch with Err => Panic | x => x end.
Proof.
  intros R Hm Hv Free Room.
  pose proof (wreachable_WS nw NF DF DH s R) as W.
  destruct (veh_facts nw s v (ws_inv nw s W) (ws_L nw s W) (ws_T nw s W) Hv) as (ty & t & Gty & Ht & Gt & _ & Dv).
  unfold spawn_vehicle_for_maintenance. rewrite Ht. cbn [bind].
  destruct (t_vm t); [left; reflexivity|].
  assert (Km : nget m (s_forms s) <> None).
  { apply nget_key_ne. apply (fo_keys nw s (ws_forms nw s W)). now apply maint_node_coverable. }
  destruct (nget m (s_forms s)) as [occ|] eqn:Gocc; [|congruence]. cbn [unwrap_opt bind].
  unfold vehicle_type_of. rewrite Gty. cbn [ok_or_err bind].
  specialize (Free occ eq_refl).
  destruct (track_count nw m <=? Z.of_nat (length occ)) eqn:Full; [apply Z.leb_le in Full; lia|]. cbn [bind].
  assert (VM : valid_path nw [m]).
  { eapply formed_node_valid_path; [exact ML|apply wreachable_reachable; exact R|exact Gocc]. }
  destruct (nc_cases _ (add_path_nc s v [m] (ws_inv nw s W) (ws_L nw s W) (ws_T nw s W) (ws_E nw s W) (ws_us nw s W)
              (ws_trans nw s W) (ws_forms nw s W) Hv VM)) as [->|[[s2 conflict] E2]]; [left; reflexivity|].
  rewrite E2. cbn [bind].
  pose proof (wreach_add_path nw s v [m] s2 conflict R VM E2) as R2.
  pose proof (wreachable_WS nw NF DF DH s2 R2) as W2.
  assert (Hv2 : is_vehicle s2 v = true).
  { unfold add_path_to_vehicle_tour in E2.
    match type of E2 with (if ?b then _ else _) = _ => destruct b; [discriminate|] end.
    mon E2. mon E2. monp E2. mon E2. monp E2. monp E2. mon E2. mon E2. monp E2. inversion E2; subst; clear E2.
    unfold is_vehicle. cbn [with_fields s_vehicles]. now rewrite Gty. }
  destruct conflict as [path|].
  - assert (VPp : valid_path nw path).
    { eapply (add_path_conflict_valid nw WF DP s v [m] s2 path); eauto; [apply (ws_inv nw s W)|apply (ws_T nw s W)]. }
    assert (NEp : path <> []) by (destruct VPp as [N _]; exact N).
    destruct (nc_cases _ (spawn_nc nw s2 ty path CA (ws_inv nw s2 W2) (ws_L nw s2 W2) (ws_trans nw s2 W2) (ws_us nw s2 W2)
                (ws_forms nw s2 W2) (veh_type_in_ids nw s v ty (ws_L nw s W) Gty) NEp
                (fun f Hf _ => Room s2 path ty f E2 Gty Hf))) as [->|[[s3 nv] E3]]; [left; reflexivity|].
    rewrite E3. cbn [bind]. right. exists s3, [v; nv].
    pose proof (wreach_spawn nw s2 ty path s3 nv R2 VPp E3) as R3.
    assert (Q : nv = Veh (s_counter s2) /\ s_vehicles s3 = vset nv ty (s_vehicles s2)).
    { unfold spawn_vehicle_for_path in E3. destruct (negb _) in E3; [discriminate|].
      mon E3. mon E3. mon E3. monp E3. mon E3. monp E3. inversion E3; subst; clear E3. cbn [with_fields s_vehicles]. auto. }
    destruct Q as [-> Q].
    assert (Nv : v <> Veh (s_counter s2)).
    { intros ->. pose proof (fresh_vehicle nw s2 (ws_inv nw s2 W2) (proj1 (ws_L nw s2 W2))) as Fr.
      unfold is_vehicle in Hv2. rewrite Fr in Hv2. discriminate. }
    repeat split; auto.
    + repeat constructor; cbn; intuition.
    + intros x [<-|[<-|[]]]; unfold is_vehicle; rewrite Q, vget_vset.
      * apply vid_eqb_neq in Nv. rewrite Nv. exact Hv2.
      * now rewrite vid_eqb_refl.
  - cbn [bind]. right. exists s2, [v]. repeat split; auto.
    + repeat constructor. intros [].
    + intros x [<-|[]]. exact Hv2.
Qed.
End MT.
Print Assumptions add_path_nc.
Print Assumptions maint_pre.
End NPB_mt.

Module NPB_cand.
Import Sorted.
Import Base BaseFacts Network NetSpec NetFacts Tour TourSpec TourStmts TourFacts TourValidFacts TourExactStmts TourExactFacts Transition TransSpec Schedule SchedInv SchedObs SchedStruct SchedCostsFacts SchedUnservedFacts SchedViolFacts SchedListFacts SchedToursFacts SchedFormLimFacts SchedUsageFacts SchedFormsFacts SchedTransFacts SchedExactFacts Swaps SwapsStmts SwapsFacts SwapsStmts2 SwapsFacts2 PipelineSched RenderStmts NoPanicStmts NPB_defs NPB_base NPB_sched NPB_tour NPB_trans NPB_seg NPB_utours NPB_spawn NPB_fit NPB_over NPB_fitre NPB_px NPB_mt.
(* NPB_cand.v — what [candidates] enumerates (CMaint, CExch), and the no-crash theorems for those candidates *)


Local Open Scope Z_scope.

Section Cand.
Variable nw : network.

Definition is_exch (c : cand) : bool := match c with CExch _ _ _ => true | _ => false end.
Definition is_maintc (c : cand) : bool := match c with CMaint _ _ => true | _ => false end.

Lemma fold_res_list_all {X V} (Q : X -> Prop) (f : res (list X) -> V -> res (list X)) :
  (forall r v x, f r v = Ok x -> exists y, r = Ok y) ->
  (forall l v x, Forall Q l -> f (Ok l) v = Ok x -> Forall Q x) ->
  forall l acc x, Forall Q acc -> fold_left f l (Ok acc) = Ok x -> Forall Q x.
Proof.
  intros Hs Hstep l. induction l as [|v l IH]; intros acc x HQ H; cbn [fold_left] in H.
  - inversion H; subst. exact HQ.
  - assert (Hy : exists y, f (Ok acc) v = Ok y).
    { clear IH. revert H. generalize (f (Ok acc) v). induction l as [|w l IHl]; intros r H; cbn [fold_left] in H; [eauto|].
      apply IHl in H. destruct H as [y Hy]. eapply Hs; eauto. }
    destruct Hy as [y Hy]. rewrite Hy in H. eapply IH; [|exact H]. eapply Hstep; eauto.
Qed.

Definition exch_ok (s : schedule) (c : cand) : Prop :=
  match c with
  | CExch seg p r => (exists sg, segments nw s p = Ok sg /\ In seg sg) /\
                     In r (vehicles_iter_all nw s ++ s_dummy_ids s) /\ r <> p
  | _ => False
  end.

Lemma candidates_inv s cs c : candidates nw s = Ok cs -> In c cs ->
  match c with
  | CMaint m v => In m (nw_maint nw) /\ In v (vehicles_iter_all nw s) /\
                  (match nget m (s_forms s) with Some f => Z.of_nat (length f) | None => 0 end) < track_count nw m
  | CExch seg p r => exch_ok s c
  | _ => True
  end.
Proof.
  unfold candidates. intros H Hin. cbv zeta in H.
  mon H. mon H. mon H. inversion H; subst cs; clear H.
  assert (Q2 : Forall (exch_ok s) a).
  { revert E. apply fold_res_list_all.
    - intros r v x Hx. destruct r; cbn [bind] in Hx; try discriminate Hx. eauto.
    - intros l p x HQ Hx. cbn [bind] in Hx. mon Hx. inversion Hx; subst x; clear Hx.
      apply Forall_app. split; [exact HQ|]. apply Forall_forall. intros y Hy.
      apply in_flat_map in Hy. destruct Hy as (seg & Hseg & Hy). apply in_map_iff in Hy. destruct Hy as (r & <- & Hr).
      apply filter_In in Hr. destruct Hr as [Hr Np]. cbn [exch_ok]. split; [eauto|]. split; [exact Hr|].
      intros ->. rewrite vid_eqb_refl in Np. discriminate.
    - constructor. }
  assert (Q3 : Forall (fun c => match c with CHitch _ _ => True | _ => False end) a0).
  { revert E0. apply fold_res_list_all.
    - intros r v x Hx. destruct r; cbn [bind] in Hx; try discriminate Hx. eauto.
    - intros l v x HQ Hx. cbn [bind] in Hx. mon Hx. inversion Hx; subst x; clear Hx.
      apply Forall_app. split; [exact HQ|]. apply Forall_forall. intros y Hy. apply in_map_iff in Hy.
      destruct Hy as (n & <- & _). exact I.
    - constructor. }
  assert (Q4 : Forall (fun c => match c with CRemove _ _ => True | _ => False end) a1).
  { revert E1. apply fold_res_list_all.
    - intros r v x Hx. destruct r; cbn [bind] in Hx; try discriminate Hx. eauto.
    - intros l v x HQ Hx. cbn [bind] in Hx. mon Hx. inversion Hx; subst x; clear Hx.
      apply Forall_app. split; [exact HQ|]. apply Forall_forall. intros y Hy. apply in_map_iff in Hy.
      destruct Hy as (n & <- & _). exact I.
    - constructor. }
  rewrite Forall_forall in Q2, Q3, Q4.
  apply in_app_or in Hin. destruct Hin as [Hin|Hin].
  - apply in_flat_map in Hin. destruct Hin as (m & Hm & Hc). apply in_map_iff in Hc. destruct Hc as (v & <- & Hv).
    apply sort_by_in in Hm. apply filter_In in Hm. destruct Hm as [Hm Hf]. apply Z.ltb_lt in Hf. auto.
  - apply in_app_or in Hin. destruct Hin as [Hin|Hin].
    + specialize (Q2 c Hin). destruct c; cbn [exch_ok] in Q2; try contradiction. exact Q2.
    + apply in_app_or in Hin. destruct Hin as [Hin|Hin].
      * specialize (Q3 c Hin). destruct c; try contradiction; exact I.
      * specialize (Q4 c Hin). destruct c; try contradiction; exact I.
Qed.

Lemma iter_all_vehicle s v : LInv nw true s -> In v (vehicles_iter_all nw s) -> is_vehicle s v = true.
Proof.
  intros [V _] H. unfold vehicles_iter_all in H. apply in_flat_map in H. destruct H as (ty & _ & Hv).
  change (vehicles_iter s ty) with (SchedListFacts.iter (s_ids s) ty) in Hv.
  apply (v_ids _ _ _ _ V) in Hv. unfold is_vehicle. now rewrite Hv.
Qed.

Lemma listed_has_tour s v : SchedCostsFacts.Inv nw s -> LInv nw true s ->
  In v (vehicles_iter_all nw s ++ s_dummy_ids s) -> exists t, tour_of s v = Ok t.
Proof.
  intros I L H. apply (vod_tour nw s v L). unfold is_vehicle_or_dummy. apply orb_true_iff.
  apply in_app_or in H. destruct H as [H|H].
  - left. now apply iter_all_vehicle.
  - right. destruct L as [_ D]. apply (d_sub _ _ _ _ D) in H. unfold is_dummy.
    destruct (vget v (s_dummies s)); [reflexivity | congruence].
Qed.
End Cand.
End NPB_cand.

Module NPB_main.
Import Sorted.
Import Base BaseFacts Network NetSpec NetFacts Tour TourSpec TourStmts TourFacts TourValidFacts TourExactStmts TourExactFacts Transition TransSpec Schedule SchedInv SchedObs SchedStruct SchedCostsFacts SchedUnservedFacts SchedViolFacts SchedListFacts SchedToursFacts SchedFormLimFacts SchedUsageFacts SchedFormsFacts SchedTransFacts SchedExactFacts Swaps SwapsStmts SwapsFacts SwapsStmts2 SwapsFacts2 PipelineSched RenderStmts NoPanicStmts NPB_defs NPB_base NPB_sched NPB_tour NPB_trans NPB_seg NPB_utours NPB_spawn NPB_fit NPB_over NPB_fitre NPB_px NPB_mt NPB_cand.
(* NPB_main.v — the no-crash theorems for the enumerated CExch / CMaint candidates *)


Local Open Scope Z_scope.

Section Main.
Variable nw : network.
Hypothesis NF : net_fine nw.
Hypothesis DF : dists_finite_b nw = true.
Hypothesis DH : dh_dists_finite_b nw = true.
Hypothesis U : unsigned_ok nw.
Hypothesis CA : cov_all nw.

(* the part of the other prover (NoPanicFactsA.v): improve_and_recompute SUCCEEDS (the swaps turn its Err into a
   panic, so no_crash alone would not do) under some room condition [RoomIR] *)
Variable RoomIR : schedule -> list vehicle_id -> Prop.
Hypothesis IR : forall s changed, wreachable nw s -> RoomIR s changed -> NoDup changed ->
  (forall v, In v changed -> is_vehicle s v = true) -> exists s', improve_and_recompute nw s changed = Ok s'.

Lemma final_step_nc second ch : wreachable nw second -> RoomIR second ch -> NoDup ch ->
  (forall v, In v ch -> is_vehicle second v = true) ->
  no_crash (match improve_and_recompute nw second ch with Err => Panic | x => x end).
Proof. intros R RM N V. destruct (IR second ch R RM N V) as [s' ->]. apply nc_ok. Qed.

(** B1: path_exchange on an enumerated candidate *)
Theorem path_exchange_nc_enumerated s cs seg p r :
  wreachable nw s -> candidates nw s = Ok cs -> In (CExch seg p r) cs ->
  (forall first d ty s1 t f, override_reassign nw s seg p r = Ok (first, Some d) ->
     is_vehicle_or_dummy first p = false -> vget p (s_vehicles s) = Some ty ->
     delete_dummy first d = Ok s1 -> vget d (s_dummies first) = Some t -> hd_error (t_nodes t) = Some f ->
     exists dep, find_best_start_depot nw (s_usage s1) ty f = Ok dep) ->
  (forall second ch, wreachable nw second -> (length ch <= 2)%nat -> RoomIR second ch) ->
  no_crash (path_exchange nw s seg p r).
Proof.
  intros R Ec Hin Room RoomI.
  pose proof (wreachable_WS nw NF DF DH s R) as W.
  pose proof (candidates_inv nw s cs _ Ec Hin) as ((sg & Esg & Hseg) & Hr & Npr).
  destruct (segments_ok nw s p sg Esg) as (tp & Htp & Hok).
  destruct (listed_has_tour nw s r (ws_inv nw s W) (ws_L nw s W) Hr) as [trc Htr].
  destruct (path_exchange_pre nw NF DF DH U CA s seg p r tp trc R Htp (Hok seg Hseg) Htr Room)
    as [->|(second & ch & R2 & N2 & V2 & L2 & ->)]; [apply nc_err|].
  apply final_step_nc; auto.
Qed.

(** B2: spawn_vehicle_for_maintenance on an enumerated candidate *)
Theorem maintenance_nc_enumerated s cs m v :
  wreachable nw s -> candidates nw s = Ok cs -> In (CMaint m v) cs ->
  (forall s2 path ty f, add_path_to_vehicle_tour nw s v [m] = Ok (s2, Some path) -> vget v (s_vehicles s) = Some ty ->
     hd_error path = Some f -> exists dep, find_best_start_depot nw (s_usage s2) ty f = Ok dep) ->
  (forall second ch, wreachable nw second -> (length ch <= 2)%nat -> RoomIR second ch) ->
  no_crash (spawn_vehicle_for_maintenance nw s m v).
Proof.
  intros R Ec Hin Room RoomI.
  pose proof (wreachable_WS nw NF DF DH s R) as W.
  pose proof (candidates_inv nw s cs _ Ec Hin) as (Hm & Hv & Hf).
  apply (iter_all_vehicle nw s v (ws_L nw s W)) in Hv.
  destruct (maint_pre nw NF DF DH U CA s m v R Hm Hv) as [->|(s3 & ch & R3 & N3 & V3 & L3 & ->)]; [| exact Room | apply nc_err |].
  - intros occ G. rewrite G in Hf. exact Hf.
  - apply final_step_nc; auto.
Qed.

(** in the shape of stmt_apply_cand_no_crash / stmt_neighbors_no_crash, for the two candidate kinds of this file:
    room in every wreachable schedule *)
Theorem apply_cand_exch_maint_no_crash s cs c :
  wreachable nw s -> (forall s', wreachable nw s' -> SpawnRoom nw s') ->
  (forall second ch, wreachable nw second -> (length ch <= 2)%nat -> RoomIR second ch) ->
  candidates nw s = Ok cs -> In c cs -> is_exch c || is_maintc c = true -> no_crash (apply_cand nw s c).
Proof.
  intros R SR RoomI Ec Hin K.
  pose proof (wreachable_WS nw NF DF DH s R) as W.
  destruct c as [m v|seg p r|n v|n v]; cbn in K; try discriminate K; cbn [apply_cand].
  - eapply maintenance_nc_enumerated; eauto.
    intros s2 path ty f E2 Gty Hf. apply (SR s2).
    + destruct (candidates_inv nw s cs _ Ec Hin) as (Hm & Hv & Hfr).
      assert (Km : nget m (s_forms s) <> None).
      { apply nget_key_ne. apply (fo_keys nw s (ws_forms nw s W)). now apply maint_node_coverable. }
      destruct (nget m (s_forms s)) as [occ|] eqn:Gocc; [|congruence].
      eapply wreach_add_path; [exact R| |exact E2].
      eapply formed_node_valid_path; [exact (nf_ml nw NF)|apply wreachable_reachable; exact R|exact Gocc].
    + eapply veh_type_in_ids; [exact (ws_L nw s W)|exact Gty].
  - eapply path_exchange_nc_enumerated; eauto.
    intros first d ty s1 t f Eo _ Gty Hd _ _.
    rewrite (delete_dummy_usage first d s1 Hd). apply (SR first).
    + eapply wreach_override; eauto.
    + eapply veh_type_in_ids; [exact (ws_L nw s W)|exact Gty].
Qed.
End Main.
Print Assumptions path_exchange_nc_enumerated.
Print Assumptions maintenance_nc_enumerated.
Print Assumptions apply_cand_exch_maint_no_crash.
End NPB_main.

Module NPB_wit.
Import Sorted.
Import Base BaseFacts Network NetSpec NetFacts Tour TourSpec TourStmts TourFacts TourValidFacts TourExactStmts TourExactFacts Transition TransSpec Schedule SchedInv SchedObs SchedStruct SchedCostsFacts SchedListFacts SchedToursFacts Swaps SwapsStmts SwapsFacts SwapsStmts2 SwapsFacts2 PipelineSched RenderStmts NoPanicStmts NPB_defs NPB_base.
(* NPB_wit.v — witness: without room in the depots, an ENUMERATED candidate panics (find_best_start_depot .expect),
   on a schedule reached from a one-vehicle schedule by nine enumerated, successful local-search moves *)


Local Open Scope Z_scope.

Module WitnessRoom.
(* one vehicle type WITHOUT formation limit; one depot of capacity 1 at location 0; trips a = SV 4 (L0->L1,
   10000-11000) and b = SV 5 (L1->L0, 20000-21000); one maintenance slot MT 6 at L1 (10500-10800, 1 track) that
   overlaps trip a.  load sizes the overflow depot at max(nservice * max_formation, upper bound) = max(2*1, 2+1) = 3,
   where a type without limit counts as formation size 1. *)
Definition instS : instance := {|
  i_types := [ {| vt_cap := 100; vt_seats := 50; vt_limit := None |} ];
  i_nlocs := 2;
  i_depots := Some [ {| id_loc := 0; id_cap := 1; id_allowed := [(0, None)] |} ];
  i_routes := [ {| r_type := 0; r_segs := [ {| rs_origin := 0; rs_dest := 1; rs_dist := 1000; rs_dur := 1000; rs_limit := None |} ] |};
                {| r_type := 0; r_segs := [ {| rs_origin := 1; rs_dest := 0; rs_dist := 1000; rs_dur := 1000; rs_limit := None |} ] |} ];
  i_departures := [ {| d_route := 0; d_segs := [ {| ds_rseg := 0; ds_dep := 10000; ds_pass := 10; ds_seated := 5 |} ] |};
                    {| d_route := 1; d_segs := [ {| ds_rseg := 0; ds_dep := 20000; ds_pass := 10; ds_seated := 5 |} ] |} ];
  i_slots := Some [ {| is_loc := 1; is_start := 10500; is_end := 10800; is_tracks := 1 |} ];
  i_dh_dur := [[0; 60]; [60; 0]];
  i_dh_dist := [[0; 1000]; [1000; 0]];
  i_params := {| p_forbid := false; p_min := 0; p_dht := 0; p_maxdist := 100000;
                 c_staff := 1; c_service := 1; c_maint := 0; c_dh := 5; c_idle := 1 |} |}.
Definition nwS : network := Eval vm_compute in get_ok (load instS []) nw_dflt.
Lemma nwS_loaded : load instS [] = Ok nwS.
Proof. vm_compute. reflexivity. Qed.
Lemma nwS_ok : net_ok_b nwS = true.
Proof. vm_compute. reflexivity. Qed.
Lemma nwS_ml : maint_listed_ok nwS.
Proof. intros m Hm. vm_compute in Hm. destruct Hm as [<-|[]]. vm_compute. reflexivity. Qed.
Lemma nwS_cov : NoDup (coverable_nodes nwS).
Proof.
  assert (E : coverable_nodes nwS = [SV 4; SV 5; MT 6]) by (vm_compute; reflexivity). rewrite E.
  repeat constructor; cbn; intuition discriminate.
Qed.
Lemma nwS_fine : net_fine nwS.
Proof. split; [exact nwS_ok|]. split; [exact nwS_ml | exact nwS_cov]. Qed.
Lemma nwS_df : dists_finite_b nwS = true.
Proof. vm_compute. reflexivity. Qed.
Lemma nwS_dh : dh_dists_finite_b nwS = true.
Proof. vm_compute. reflexivity. Qed.
Lemma nwS_overflow : nw_overflow nwS = (1, SD 2, ED 3) /\ total_capacity_of nwS 0 = 1 /\ total_capacity_of nwS 1 = 3.
Proof. vm_compute. auto. Qed.

Definition stepc (s : schedule) (c : cand) : schedule := get_ok (apply_cand nwS s c) s_dflt.
Definition m := MT 6.  Definition a := SV 4.  Definition v0 := Veh 0.
Definition s0 : schedule := Eval vm_compute in get_ok (empty_schedule nwS) s_dflt.
Definition s1 : schedule := Eval vm_compute in fst (get_ok (spawn_vehicle_for_path nwS s0 0 [SV 4; SV 5]) (s_dflt, Veh 99)).
(* one round: service m with v0 (the conflicting trip a goes to a NEW vehicle); drop m again; hitch-hike on a again *)
Definition s2 := Eval vm_compute in stepc s1 (CMaint m v0).
Definition s3 := Eval vm_compute in stepc s2 (CRemove m v0).
Definition s4 := Eval vm_compute in stepc s3 (CHitch a v0).
Definition s5 := Eval vm_compute in stepc s4 (CMaint m v0).
Definition s6 := Eval vm_compute in stepc s5 (CRemove m v0).
Definition s7 := Eval vm_compute in stepc s6 (CHitch a v0).
Definition s8 := Eval vm_compute in stepc s7 (CMaint m v0).
Definition s9 := Eval vm_compute in stepc s8 (CRemove m v0).
Definition s10 := Eval vm_compute in stepc s9 (CHitch a v0).

Definition cand_eqb (x y : cand) : bool :=
  match x, y with
  | CMaint m1 v1, CMaint m2 v2 => nid_eqb m1 m2 && vid_eqb v1 v2
  | CExch (a1, a2) p1 r1, CExch (b1, b2) p2 r2 => nid_eqb a1 b1 && nid_eqb a2 b2 && vid_eqb p1 p2 && vid_eqb r1 r2
  | CHitch n1 v1, CHitch n2 v2 => nid_eqb n1 n2 && vid_eqb v1 v2
  | CRemove n1 v1, CRemove n2 v2 => nid_eqb n1 n2 && vid_eqb v1 v2
  | _, _ => false end.
Lemma cand_eqb_eq x y : cand_eqb x y = true -> x = y.
Proof.
  destruct x as [? ?|[? ?] ? ?|? ?|? ?], y as [? ?|[? ?] ? ?|? ?|? ?]; cbn; try discriminate;
    rewrite ?andb_true_iff; intros H; repeat match goal with H : _ /\ _ |- _ => destruct H end;
    repeat match goal with
           | H : nid_eqb _ _ = true |- _ => apply nid_eqb_eq in H
           | H : vid_eqb _ _ = true |- _ => apply vid_eqb_eq in H end; subst; reflexivity.
Qed.
Definition enumerated (s : schedule) (c : cand) : bool :=
  match candidates nwS s with Ok cs => existsb (cand_eqb c) cs | _ => false end.
Lemma enumerated_in s c : enumerated s c = true -> exists cs, candidates nwS s = Ok cs /\ In c cs.
Proof.
  unfold enumerated. destruct (candidates nwS s) as [cs| | |]; try discriminate. intros H.
  exists cs. split; [reflexivity|]. apply existsb_exists in H. destruct H as (x & Hx & E). apply cand_eqb_eq in E. now subst.
Qed.

(* every move of the run is an enumerated candidate and succeeds *)
Lemma run_enumerated :
  forallb (fun '(s, c) => enumerated s c)
    [(s1, CMaint m v0); (s2, CRemove m v0); (s3, CHitch a v0); (s4, CMaint m v0); (s5, CRemove m v0); (s6, CHitch a v0);
     (s7, CMaint m v0); (s8, CRemove m v0); (s9, CHitch a v0); (s10, CMaint m v0)] = true.
Proof. vm_compute. reflexivity. Qed.
Lemma run_ok :
  apply_cand nwS s1 (CMaint m v0) = Ok s2 /\ apply_cand nwS s2 (CRemove m v0) = Ok s3 /\ apply_cand nwS s3 (CHitch a v0) = Ok s4 /\
  apply_cand nwS s4 (CMaint m v0) = Ok s5 /\ apply_cand nwS s5 (CRemove m v0) = Ok s6 /\ apply_cand nwS s6 (CHitch a v0) = Ok s7 /\
  apply_cand nwS s7 (CMaint m v0) = Ok s8 /\ apply_cand nwS s8 (CRemove m v0) = Ok s9 /\ apply_cand nwS s9 (CHitch a v0) = Ok s10.
Proof. vm_compute. repeat split. Qed.

Lemma s1_wreachable : wreachable nwS s1.
Proof.
  eapply wr_step; [apply wr_empty; vm_compute; reflexivity|].
  eapply (ws_spawn nwS s0 0 [SV 4; SV 5] s1 (Veh 0)); [|vm_compute; reflexivity].
  split; [discriminate|]. split; [|vm_compute; reflexivity].
  intros x y Hin. cbn in Hin. destruct Hin as [E|[]]. inversion E; subst. vm_compute. reflexivity.
Qed.

Lemma s10_wreachable : wreachable nwS s10.
Proof.
  destruct run_ok as (E1 & E2 & E3 & E4 & E5 & E6 & E7 & E8 & E9).
  pose proof (apply_cand_wreachable_ok nwS nwS_ok nwS_ml) as A.
  pose proof s1_wreachable as R1.
  pose proof (A _ _ _ R1 E1) as R2. pose proof (A _ _ _ R2 E2) as R3. pose proof (A _ _ _ R3 E3) as R4.
  pose proof (A _ _ _ R4 E4) as R5. pose proof (A _ _ _ R5 E5) as R6. pose proof (A _ _ _ R6 E6) as R7.
  pose proof (A _ _ _ R7 E7) as R8. pose proof (A _ _ _ R8 E8) as R9. exact (A _ _ _ R9 E9).
Qed.

(* the tours of the final schedule: four vehicles, all depots (capacities 1 and 3) full *)
Lemma s10_tours :
  map (fun '(v, t) => (v, t_nodes t)) (s_tours s10) =
    [(Veh 0, [SD 0; SV 4; SV 5; ED 1]); (Veh 1, [SD 2; SV 4; ED 1]); (Veh 2, [SD 2; SV 4; ED 1]); (Veh 3, [SD 2; SV 4; ED 1])].
Proof. vm_compute. reflexivity. Qed.

Theorem s10_good : Good nwS s10.
Proof. apply (wreachable_good nwS nwS_fine nwS_df nwS_dh nwS_fine nwS_df nwS_dh). exact s10_wreachable. Qed.

Theorem s10_no_room : ~ SpawnRoom nwS s10.
Proof.
  intros SR. destruct (SR 0 (SV 4)) as [d Hd]; [vm_compute; auto|]. vm_compute in Hd. discriminate.
Qed.

(* the enumerated candidate CMaint m v0 panics on s10: its conflict path [a] needs a fifth vehicle *)
Theorem enumerated_candidate_panics :
  exists cs c, candidates nwS s10 = Ok cs /\ In c cs /\ apply_cand nwS s10 c = Panic.
Proof.
  destruct (enumerated_in s10 (CMaint m v0)) as (cs & E & Hin).
  { pose proof run_enumerated as H. cbn [forallb] in H. rewrite !andb_true_iff in H. tauto. }
  exists cs, (CMaint m v0). split; [exact E|]. split; [exact Hin|]. vm_compute. reflexivity.
Qed.

(* hence the statements of NoPanicStmts.v are false without the SpawnRoom premise ... *)
Theorem apply_cand_no_crash_needs_room :
  ~ (forall s cs c, Good nwS s -> candidates nwS s = Ok cs -> In c cs -> no_crash (apply_cand nwS s c)).
Proof.
  intros H. destruct enumerated_candidate_panics as (cs & c & E & Hin & P).
  destruct (H s10 cs c s10_good E Hin) as [N _]. congruence.
Qed.
(* ... and the premise of stmt_neighbors_no_crash (room in EVERY wreachable schedule) is false on this network *)
Theorem room_everywhere_false : ~ (forall s', wreachable nwS s' -> SpawnRoom nwS s').
Proof. intros H. exact (s10_no_room (H s10 s10_wreachable)). Qed.
(* the public modification itself panics *)
Theorem spawn_panics_when_full : spawn_vehicle_for_path nwS s10 0 [SV 4] = Panic.
Proof. vm_compute. reflexivity. Qed.
End WitnessRoom.
Print Assumptions WitnessRoom.enumerated_candidate_panics.
Print Assumptions WitnessRoom.apply_cand_no_crash_needs_room.
Print Assumptions WitnessRoom.room_everywhere_false.
End NPB_wit.

Module NPB_wit2.
Import Sorted.
Import Base BaseFacts Network NetSpec NetFacts Tour TourSpec TourStmts TourFacts TourValidFacts TourExactStmts TourExactFacts Transition TransSpec Schedule SchedInv SchedObs SchedStruct SchedCostsFacts SchedListFacts SchedToursFacts Swaps SwapsStmts SwapsFacts SwapsStmts2 SwapsFacts2 PipelineSched RenderStmts NoPanicStmts NPB_defs NPB_base.
(* NPB_wit2.v — stmt_apply_cand_no_crash is false as written also for a second reason: [Good] only demands that dummy
   tours are chronological (dummy_tour_ok), not that consecutive nodes are connectable; on such a record the
   enumerated candidate CExch panics at check_receiver_type_compatibility's sub_path(..).unwrap().  (No wreachable
   schedule has such a dummy tour: TIs.) *)


Local Open Scope Z_scope.

Module WitnessGood.
(* nwC (SchedToursFacts.v): a = SV 5 -> m = MT 8 -> c = SV 6 connectable, a -> c not (same station, too short a turn) *)
Lemma nwC_ml : maint_listed_ok nwC.
Proof. intros m Hm. vm_compute in Hm. destruct Hm as [<-|[]]. vm_compute. reflexivity. Qed.
Lemma nwC_cov : NoDup (coverable_nodes nwC).
Proof.
  assert (E : coverable_nodes nwC = [SV 4; SV 5; SV 6; SV 7; MT 8]) by (vm_compute; reflexivity). rewrite E.
  repeat constructor; cbn; intuition discriminate.
Qed.
Lemma nwC_fine : net_fine nwC.
Proof. split; [exact nwC_ok|]. split; [exact nwC_ml | exact nwC_cov]. Qed.
Lemma nwC_df : dists_finite_b nwC = true.
Proof. vm_compute. reflexivity. Qed.
Lemma nwC_dh : dh_dists_finite_b nwC = true.
Proof. vm_compute. reflexivity. Qed.

Definition s0 : schedule := Eval vm_compute in get_ok (empty_schedule nwC) s_dflt.
Definition s1 := Eval vm_compute in fst (get_ok (spawn_vehicle_for_path nwC s0 0 [SV 5; MT 8; SV 6; SV 7]) (s_dflt, Veh 99)).
Definition s2 := Eval vm_compute in fst (get_ok (spawn_vehicle_for_path nwC s1 0 [SV 4]) (s_dflt, Veh 99)).
Definition s3 := Eval vm_compute in get_ok (replace_vehicle_by_dummy nwC s2 (Veh 0)) s_dflt.

Lemma vp1 : valid_path nwC [SV 5; MT 8; SV 6; SV 7].
Proof.
  split; [discriminate|]. split; [|vm_compute; reflexivity].
  intros x y Hin. cbn in Hin. destruct Hin as [E|[E|[E|[]]]]; inversion E; subst; vm_compute; reflexivity.
Qed.
Lemma vp2 : valid_path nwC [SV 4].
Proof. split; [discriminate|]. split; [|vm_compute; reflexivity]. intros x y Hin. cbn in Hin. destruct Hin. Qed.

Lemma s3_wreachable : wreachable nwC s3.
Proof.
  eapply wr_step; [eapply wr_step; [eapply wr_step; [apply wr_empty; vm_compute; reflexivity|]|]|].
  - eapply (ws_spawn nwC s0 0 _ s1 (Veh 0) vp1). vm_compute. reflexivity.
  - eapply (ws_spawn nwC s1 0 _ s2 (Veh 1) vp2). vm_compute. reflexivity.
  - eapply (ws_delete nwC s2 (Veh 0) s3). vm_compute. reflexivity.
Qed.
Lemma s3_dummies : map (fun '(d, t) => (d, t_nodes t)) (s_dummies s3) = [(Dummy 2, [SV 5; MT 8; SV 6; SV 7])].
Proof. vm_compute. reflexivity. Qed.

(* the same record with the maintenance slot dropped from the dummy tour: chronological, exact, not connected *)
Definition dt : tour := new_computing nwC [SV 5; SV 6; SV 7] true.
Definition bad : schedule :=
  with_fields (s_vehicles s3) (s_tours s3) (s_trans s3) (s_forms s3) (s_usage s3) [(Dummy 2, dt)] (s_counter s3)
              (s_ids s3) (s_dummy_ids s3) (s_unserved s3) (s_viol s3) (s_costs s3).

Lemma bad_dummy d t : vget d (s_dummies bad) = Some t -> d = Dummy 2 /\ t = dt.
Proof.
  cbn [bad with_fields s_dummies]. rewrite vget_cons. destruct (vid_eqb d (Dummy 2)) eqn:E.
  - apply vid_eqb_eq in E. intros H. inversion H. auto.
  - discriminate.
Qed.

Theorem bad_good : Good nwC bad.
Proof.
  pose proof (wreachable_good nwC nwC_fine nwC_df nwC_dh nwC_fine nwC_df nwC_dh s3 s3_wreachable) as G.
  destruct G as [G1 G2 G3 G4 G5 G6 G7 G8 G9 G10]. constructor.
  - destruct G1 as [A B]. constructor; [exact A|]. intros d t H. apply bad_dummy in H. destruct H as [-> ->].
    vm_compute. reflexivity.
  - destruct G2 as [A1 A2 A3 A4 A5 A6 A7 A8 A9 A10 A11]. constructor; assumption.
  - destruct G3 as [A1 A2 A3 A4]. constructor; assumption.
  - exact G4.
  - destruct G5 as [A1 A2 A3 A4]. constructor; assumption.
  - exact G6.
  - destruct G7 as [A B]. split; [exact A|]. intros d t H. apply bad_dummy in H. destruct H as [-> ->]. reflexivity.
  - exact G8.
  - exact G9.
  - exact G10.
Qed.

(* chronological but not connectable *)
Lemma bad_dummy_shape : dummy_tour_ok nwC (Dummy 2, dt) = true /\ can_reach nwC (SV 5) (SV 6) = false.
Proof. vm_compute. auto. Qed.

Lemma find_exists (u : list ((Z * Z) * (list vehicle_id * list vehicle_id))) ty first d :
  In d (nw_sdepots nwC) -> can_depot_spawn nwC u d ty = true -> exists d', find_best_start_depot nwC u ty first = Ok d'.
Proof.
  intros Hin Hc. unfold find_best_start_depot.
  destruct (find _ _) as [x|] eqn:F; [cbn; eauto|]. exfalso.
  eapply find_none in F; [|unfold start_depots_sorted_by_distance_to; apply sort_by_in; exact Hin].
  cbn beta in F. congruence.
Qed.

Theorem bad_room : SpawnRoom nwC bad.
Proof.
  intros ty first Hty. assert (E : type_ids nwC = [0]) by (vm_compute; reflexivity). rewrite E in Hty.
  destruct Hty as [<-|[]]. apply (find_exists _ 0 first (SD 0)); vm_compute; auto.
Qed.

Definition c : cand := CExch (SV 5, SV 6) (Dummy 2) (Veh 1).

Theorem enumerated_candidate_panics :
  exists cs, candidates nwC bad = Ok cs /\ In c cs /\ apply_cand nwC bad c = Panic.
Proof.
  destruct (candidates nwC bad) as [cs| | |] eqn:E; try (vm_compute in E; discriminate E).
  exists cs. split; [reflexivity|]. split; [|vm_compute; reflexivity].
  vm_compute in E. inversion E; subst cs. unfold c. cbn. tauto.
Qed.

Theorem apply_cand_no_crash_refuted : ~ stmt_apply_cand_no_crash nwC.
Proof.
  intros H. destruct enumerated_candidate_panics as (cs & E & Hin & P).
  destruct (H nwC_fine nwC_df nwC_dh bad cs c bad_good bad_room E Hin) as [N _]. congruence.
Qed.
End WitnessGood.
Print Assumptions WitnessGood.apply_cand_no_crash_refuted.
End NPB_wit2.

Module NPB_chk.
Import Sorted.
Import Base BaseFacts Network NetSpec NetFacts Tour TourSpec TourStmts TourFacts TourValidFacts TourExactStmts TourExactFacts Transition TransSpec Schedule SchedInv SchedObs SchedStruct SchedCostsFacts SchedListFacts SchedToursFacts Swaps SwapsStmts SwapsFacts SwapsStmts2 SwapsFacts2 PipelineSched RenderStmts NoPanicStmts NPB_defs NPB_base NPB_sched NPB_tour NPB_spawn NPB_wit.
(* NPB_chk.v — executable readings of the two network side conditions, and their validity on the witness network *)


Local Open Scope Z_scope.

Definition unsigned_b (nw : network) : bool :=
  let P := nw_params nw in
  (0 <=? c_service P) && (0 <=? c_maint P) && (0 <=? c_dh P) && (0 <=? c_idle P) &&
  (0 <=? nw_nservice nw * c_staff P) && (0 <=? planning_sec nw) &&
  forallb (fun '(_, n) => match n_travel_dist n with Dist m => 0 <=? m | DistInf => true end) (nw_nodes nw) &&
  forallb (fun row => forallb (fun '(d, _) => match d with Dist m => 0 <=? m | DistInf => true end) row) (nw_dh nw).

Definition cov_all_b (nw : network) : bool :=
  forallb (fun '(k, n) => is_depot n || mem_nid k (coverable_nodes nw)) (nw_nodes nw).

Lemma unsigned_b_ok nw : unsigned_b nw = true -> unsigned_ok nw.
Proof.
  unfold unsigned_b. cbv zeta. rewrite !andb_true_iff. intros (((((((H1 & H2) & H3) & H4) & H5) & H6) & H7) & H8).
  apply Z.leb_le in H1, H2, H3, H4, H5, H6. rewrite forallb_forall in H7, H8.
  constructor; auto.
  - intros n m E. unfold nd in E. destruct (assoc nid_eqb n (nw_nodes nw)) as [x|] eqn:A.
    + apply (assoc_in _ nid_eqb_eq) in A. specialize (H7 _ A). cbn in H7. rewrite E in H7. now apply Z.leb_le.
    + cbn in E. inversion E. lia.
  - intros a b m E. unfold dead_head_distance_between, loc_distance in E.
    destruct (n_end_loc (nd nw a)) as [x|]; [|discriminate]. destruct (n_start_loc (nd nw b)) as [y|]; [|discriminate].
    unfold dh_entry in E. destruct (nth_error (nw_dh nw) (Z.to_nat x)) as [row|] eqn:R; [|inversion E; lia].
    destruct (nth_error row (Z.to_nat y)) as [[d t]|] eqn:C; [|inversion E; lia].
    apply nth_error_In in R, C. specialize (H8 _ R). rewrite forallb_forall in H8. specialize (H8 _ C). cbn in H8.
    subst d. now apply Z.leb_le.
Qed.

Lemma cov_all_b_ok nw : cov_all_b nw = true -> cov_all nw.
Proof.
  unfold cov_all_b. rewrite forallb_forall. intros H n Hd. unfold nd in Hd.
  destruct (assoc nid_eqb n (nw_nodes nw)) as [x|] eqn:A; [|discriminate Hd].
  apply (assoc_in _ nid_eqb_eq) in A. specialize (H _ A). cbn in H. rewrite Hd in H. cbn in H.
  now apply mem_nid_in.
Qed.

(* the hypotheses of the theorems of this file hold on the witness network (non-vacuity) *)
Lemma nwS_unsigned : unsigned_ok WitnessRoom.nwS.
Proof. apply unsigned_b_ok. vm_compute. reflexivity. Qed.
Lemma nwS_cov_all : cov_all WitnessRoom.nwS.
Proof. apply cov_all_b_ok. vm_compute. reflexivity. Qed.
End NPB_chk.

Module NPB_comb.
Import Sorted.
Import Base BaseFacts Network NetSpec NetFacts Tour TourSpec TourStmts TourFacts TourValidFacts TourExactStmts TourExactFacts Transition TransSpec Schedule SchedInv SchedObs SchedStruct SchedCostsFacts SchedListFacts SchedToursFacts Swaps SwapsStmts SwapsFacts SwapsStmts2 SwapsFacts2 PipelineSched RenderStmts NoPanicStmts NoPanicFactsA NPB_defs NPB_base NPB_sched NPB_tour NPB_spawn NPB_px NPB_mt NPB_cand NPB_main.
(* NPB_comb.v — parts A (NoPanicFactsA.v) and B together: [neighbors] never crashes on a wreachable schedule, under the
   network side conditions of part A and room for two more vehicles in every wreachable schedule *)


Local Open Scope Z_scope.

Section Comb.
Variable nw : network.
Hypothesis NF : net_fine nw.
Hypothesis NX : net_extra_b nw = true.
Hypothesis DF : dists_finite_b nw = true.
Hypothesis DH : dh_dists_finite_b nw = true.

Lemma extra_unsigned : unsigned_ok nw.
Proof.
  destruct (rates_nn nw NX) as (A1 & A2 & A3 & A4 & A5 & A6). constructor; auto.
  - intros n m E. pose proof (travel_nn nw NX n) as Q. rewrite E in Q. exact Q.
  - intros a b m E. pose proof (dh_nn nw NX a b) as Q. rewrite E in Q. exact Q.
Qed.
Lemma extra_cov_all : cov_all nw.
Proof. intros n Hd. now apply (nondepot_coverable nw NX). Qed.

(* room for k more vehicles in every wreachable schedule *)
Definition RoomAll (k : Z) : Prop := forall s', wreachable nw s' -> SpawnRoom nw s' /\ RoomN nw k (s_usage s').

Definition RoomIR (s : schedule) (ch : list vehicle_id) : Prop := RoomN nw (Z.of_nat (length ch)) (s_usage s).

Lemma IR_from_A : forall s changed, wreachable nw s -> RoomIR s changed -> NoDup changed ->
  (forall v, In v changed -> is_vehicle s v = true) -> exists s', improve_and_recompute nw s changed = Ok s'.
Proof.
  intros s changed R RM N V.
  apply (improve_and_recompute_total_under_room nw NF NX s changed); auto.
  apply (wreachable_good nw NF DF DH NF DF DH s R).
Qed.

Theorem apply_cand_no_crash_under_rooms s cs c :
  wreachable nw s -> RoomAll 2 -> candidates nw s = Ok cs -> In c cs -> no_crash (apply_cand nw s c).
Proof.
  intros R RA Ec Hin.
  destruct (is_exch c || is_maintc c) eqn:K.
  - apply (apply_cand_exch_maint_no_crash nw NF DF DH extra_unsigned extra_cov_all RoomIR IR_from_A s cs c); auto.
    + intros s' R'. apply (RA s' R').
    + intros second ch R2 L2. unfold RoomIR. apply (RoomN_mono nw 2); [lia|]. apply (RA second R2).
  - apply (apply_cand_simple_no_crash_under_extra nw NF NX DF DH s cs c); auto.
    + apply (wreachable_good nw NF DF DH NF DF DH s R).
    + apply (RA s R).
    + destruct c; cbn in K; try discriminate K; exact I.
Qed.

Lemma neighbors_fold_nc s cs : (forall c, In c cs -> no_crash (apply_cand nw s c)) ->
  forall acc, no_crash (fold_left (fun acc c =>
    do l <- acc;
    match apply_cand nw s c with
    | Ok s' => Ok (l ++ [(c, s')])
    | Err => Ok l
    | Panic => Panic
    | OutOfFuel => OutOfFuel
    end) cs (Ok acc)).
Proof.
  induction cs as [|c cs IH]; intros H acc; cbn [fold_left]; [apply nc_ok|]. cbn [bind].
  destruct (H c (or_introl eq_refl)) as [N1 N2].
  destruct (apply_cand nw s c); try congruence; apply IH; intros c' Hc'; apply H; now right.
Qed.

(* stmt_neighbors_no_crash with its premises strengthened to what the model needs *)
Theorem neighbors_no_crash_under_rooms s : wreachable nw s -> RoomAll 2 -> no_crash (neighbors nw s).
Proof.
  intros R RA. unfold neighbors.
  destruct (candidates_total nw NF s (wreachable_good nw NF DF DH NF DF DH s R)) as [cs Ec]. rewrite Ec. cbn [bind].
  apply neighbors_fold_nc. intros c Hc. eapply apply_cand_no_crash_under_rooms; eauto.
Qed.
End Comb.
Print Assumptions apply_cand_no_crash_under_rooms.
Print Assumptions neighbors_no_crash_under_rooms.
End NPB_comb.

(** * the main results, at top level *)
Definition wreachable_good := NPB_base.wreachable_good.
Definition wreachable_WS := NPB_base.wreachable_WS.
Definition override_nc := NPB_over.override_nc.
Definition fit_nc := NPB_fitre.fit_nc.
Definition fit_loop_nc := NPB_fit.fit_loop_nc.
Definition spawn_nc := NPB_spawn.spawn_nc.
Definition spawn_to_replace_dummy_nc := NPB_spawn.spawn_to_replace_dummy_nc.
Definition add_path_nc := NPB_mt.add_path_nc.
Definition update_tours_nc := NPB_utours.update_tours_nc.
Definition update_transitions_ok := NPB_trans.update_transitions_ok.
Definition remove_nc := NPB_tour.remove_nc.
Definition insert_path_total := NPB_tour.insert_path_total.
Definition path_exchange_pre := NPB_px.path_exchange_pre.
Definition maint_pre := NPB_mt.maint_pre.
Definition candidates_inv := NPB_cand.candidates_inv.
Definition path_exchange_nc_enumerated := NPB_main.path_exchange_nc_enumerated.
Definition maintenance_nc_enumerated := NPB_main.maintenance_nc_enumerated.
Definition apply_cand_exch_maint_no_crash := NPB_main.apply_cand_exch_maint_no_crash.
Definition room_witness_candidate_panics := NPB_wit.WitnessRoom.enumerated_candidate_panics.
Definition apply_cand_no_crash_needs_room := NPB_wit.WitnessRoom.apply_cand_no_crash_needs_room.
Definition room_everywhere_false := NPB_wit.WitnessRoom.room_everywhere_false.
Definition apply_cand_no_crash_refuted := NPB_wit2.WitnessGood.apply_cand_no_crash_refuted.
Definition apply_cand_no_crash_under_rooms := NPB_comb.apply_cand_no_crash_under_rooms.
Definition neighbors_no_crash_under_rooms := NPB_comb.neighbors_no_crash_under_rooms.
Print Assumptions wreachable_good.
Print Assumptions path_exchange_pre.
Print Assumptions maint_pre.
Print Assumptions path_exchange_nc_enumerated.
Print Assumptions maintenance_nc_enumerated.
Print Assumptions apply_cand_exch_maint_no_crash.
Print Assumptions apply_cand_no_crash_needs_room.
Print Assumptions room_everywhere_false.
Print Assumptions apply_cand_no_crash_refuted.
Print Assumptions apply_cand_no_crash_under_rooms.
Print Assumptions neighbors_no_crash_under_rooms.
