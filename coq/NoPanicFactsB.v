(* NoPanicFactsB.v — C11 / C06 "never panics", part B, for the model AFTER the repair "a spawn without any free
   depot is refused instead of panicking" (find_best_start_depot_res in add_suitable_depots): path_exchange (CExch) and
   spawn_vehicle_for_maintenance (CMaint) of the neighbourhood model (Swaps.v), and, together with part A
   (NoPanicFactsA.v), the whole neighbourhood.  Each part is a Module; the main theorems are re-exported at the end.

   MAIN RESULTS (NPB_comb)
   * LSOK nw s := wreachable nw s /\ FullLimits nw s /\ FKs nw s, where FullLimits = per-type and total capacity of EVERY
     depot index, the overflow depot included (NPB_lim), FKs = every real tour starts at a listed start depot
     (EndToEndFacts).  Under net_fine, net_extra_b (part A), finite distances, depot_lists:
       apply_cand_ok            : LSOK s -> enumerated c -> no_crash (apply_cand nw s c) /\ (result Ok s' -> LSOK s')
       neighbors_no_crash_limits: LSOK s -> no_crash (neighbors nw s)
       neighbors_keep_limits, local_search_never_crashes: every schedule the local search can visit from an LSOK
         schedule is LSOK and its neighbourhood is generated without a crash.
     neighbors_no_crash_loaded / local_search_never_crashes_loaded: the same for every network loaded from a valid
     instance with non-negative cost rates.  NO room hypothesis is left:
     - the two spawn sites (replacement of the dummy when the provider's tour was used up; conflict path of a
       maintenance slot) return Err without room since the repair;
     - improve_depots_of_tour's expect cannot fail (NPB_imp.improve_and_recompute_le2): the lists the swaps pass have
       at most two vehicles, all of ONE type (path_exchange_pre / maint_pre prove it: the service node of the new
       dummy ties the types); after the release each vehicle's own place is free again because the schedule is
       within the limits, and a vehicle of the same type that takes the other one's place leaves its own.
   * The limits hypothesis cannot be dropped for arbitrary wreachable schedules (NPB_wit3.WitnessLimits): the public
     spawn_vehicle_for_path with a Path that names a FULL depot puts the vehicle into the overflow depot without any
     check (add_suitable_depots), so the overflow depot can be over-full; an enumerated CExch that re-homes a vehicle
     of the over-full depot then panics at improve_depots_of_tour's expect.  Such a state is not reachable by
     local-search moves from a schedule within the limits (local_search_never_crashes).
   * NPB_wit.WitnessRoom: regression example of the repaired defect (all depots incl. overflow full after nine
     enumerated moves; the enumerated CMaint is now refused; the pre-repair lookup still panics on that usage map);
     NPB_wit3.RoomCovered: that state satisfies LSOK, the final theorem applies to it.
   * NPB_wit2.WitnessGood: stmt_apply_cand_no_crash is false over bare [Good] (dummy tours only chronological there).
   * wreachable_good : forall nw, stmt_wreachable_good nw.
   Executable readings of the side conditions: NPB_chk (unsigned_b, cov_all_b), NPB_wit3 (caps_nonneg_b,
   full_limits_b, fks_b). *)

From Coq Require Sorted Arith.
From RS Require SchedPeel Base Network NetSpec Tour TourStmts TourExactStmts Transition Schedule NoPanicStmts BaseFacts NetFacts TourSpec TourFacts TourValidFacts TourExactFacts TransSpec SchedInv SchedObs SchedStruct SchedCostsFacts SchedUnservedFacts SchedViolFacts SchedListFacts SchedToursFacts SchedFormLimFacts SchedUsageFacts SchedFormsFacts SchedTransFacts SchedExactFacts Swaps SwapsStmts SwapsFacts SwapsStmts2 SwapsFacts2 PipelineSched RenderStmts TransStmts TransFacts TransFacts2 DepotStmts DepotFacts EndToEndStmts EndToEndFacts NoPanicFactsA LoadStmts LoadFacts RenderFacts4.

Module NPB_defs.
Import Base Network NetSpec Tour TourStmts TourExactStmts Transition Schedule NoPanicStmts.
(* NPB_defs.v — shared definitions for the parts of NoPanicFactsB (scratch; merged into NoPanicFactsB.v at the end) *)

Local Open Scope Z_scope.

(* "unsigned" side conditions: in the Rust code these quantities are u64 / unsigned newtypes; the model uses Z *)
Record unsigned_ok (nw : network) : Prop := {
  uo_service : 0 <= c_service (nw_params nw);
  uo_maint : 0 <= c_maint (nw_params nw);
  uo_dh : 0 <= c_dh (nw_params nw);
  uo_idle : 0 <= c_idle (nw_params nw);
  uo_staff : 0 <= nw_nservice nw * c_staff (nw_params nw);
  uo_planning : 0 <= planning_sec nw;
  uo_travel : forall n m, n_travel_dist (nd nw n) = Dist m -> 0 <= m;
  uo_dhdist : forall a b m, dead_head_distance_between nw a b = Dist m -> 0 <= m }.

Lemma nc_ok {A} (a : A) : no_crash (Ok a).
Proof. split; discriminate. Qed.
Lemma nc_err {A} : no_crash (@Err A).
Proof. split; discriminate. Qed.
Lemma nc_bind {A B} (r : res A) (f : A -> res B) :
  no_crash r -> (forall a, r = Ok a -> no_crash (f a)) -> no_crash (bind r f).
Proof.
  intros [H1 H2] H. destruct r; cbn [bind]; try congruence; auto using nc_err.
Qed.
Lemma nc_of_ok {A} (r : res A) : (exists a, r = Ok a) -> no_crash r.
Proof. intros [a ->]. apply nc_ok. Qed.
End NPB_defs.

Module NPB_base.
Import Sorted.
Import Base BaseFacts Network NetSpec NetFacts Tour TourSpec TourStmts TourFacts TourValidFacts TourExactStmts TourExactFacts Transition TransSpec Schedule SchedInv SchedObs SchedStruct SchedCostsFacts SchedUnservedFacts SchedViolFacts SchedListFacts SchedToursFacts SchedFormLimFacts SchedUsageFacts SchedFormsFacts SchedTransFacts SchedExactFacts Swaps SwapsStmts SwapsFacts SwapsStmts2 SwapsFacts2 PipelineSched RenderStmts NoPanicStmts NPB_defs.
(* NPB_base.v — the invariant bundle of wreachable schedules and stmt_wreachable_good *)


Local Open Scope Z_scope.

Section Base.
Variable nw : network.
Hypothesis NF : net_fine nw.
Hypothesis DF : dists_finite_b nw = true.
Hypothesis DH : dh_dists_finite_b nw = true.

Lemma nf_wf : net_wf_b nw = true.
Proof. destruct NF as [OK _]. unfold net_ok_b in OK. apply andb_true_iff in OK. tauto. Qed.
Lemma nf_dp : durations_pos_b nw = true.
Proof. destruct NF as [OK _]. unfold net_ok_b in OK. apply andb_true_iff in OK. tauto. Qed.
Lemma nf_ml : maint_listed_ok nw.
Proof. destruct NF as (_ & ML & _). exact ML. Qed.

Theorem wreachable_good : stmt_wreachable_good nw.
Proof.
  intros _ _ _ s R. destruct NF as (OK & ML & ND).
  destruct (wreachable_sub nw s R) as (RV & RD & RR).
  assert (HS : forall n, In n (nw_maint nw) -> is_service (nd nw n) = false).
  { intros n Hn. apply ML in Hn. destruct (nd nw n); cbn in *; congruence. }
  constructor.
  - exact (vreachable_tours nw OK s RV).
  - exact (reachable_listing_under_distinct nw s RD).
  - exact (vreachable_forms_under_maint_listed nw OK ND ML s RV).
  - exact (reachable_form_limits nw s RR).
  - exact (reachable_usage nw s RR).
  - exact (reachable_trans_under_distinct nw s RD).
  - exact (vreachable_tours_exact nw OK DF DH s RV).
  - exact (reachable_costs nw s RR).
  - exact (reachable_unserved nw ND HS s RR).
  - exact (reachable_viol nw s RR).
Qed.

(* the stronger internal invariants of wreachable schedules (dummy tours connected, key discipline, listings) *)
Record WS (s : schedule) : Prop := {
  ws_reach : wreachable nw s;
  ws_inv : Inv nw s;
  ws_L : LInv nw true s;
  ws_T : TIs nw s;
  ws_E : EIs nw s;
  ws_trans : TransOK nw s;
  ws_us : US nw s;
  ws_forms : FormsOK nw s;
  ws_lim : FormLimitsOK nw s;
  ws_good : Good nw s }.

Lemma wreachable_WS s : wreachable nw s -> WS s.
Proof.
  intros R. pose proof NF as (OK & ML & ND).
  destruct (wreachable_sub nw s R) as (RV & RD & RR).
  constructor.
  - exact R.
  - now apply SchedCostsFacts.reachable_inv.
  - apply greachable_L. now apply dreachable_greachable.
  - apply vreachable_T; [apply nf_wf | apply nf_dp | exact RV].
  - apply vreachable_E; [apply nf_wf | apply nf_dp | exact DF | exact DH | exact RV].
  - exact (reachable_trans_under_distinct nw s RD).
  - now apply reachable_us.
  - exact (vreachable_forms_under_maint_listed nw OK ND ML s RV).
  - exact (reachable_form_limits nw s RR).
  - apply wreachable_good; auto.
Qed.
End Base.
Print Assumptions wreachable_good.
End NPB_base.

Module NPB_sched.
Import Sorted.
Import Base BaseFacts Network NetSpec NetFacts Tour TourSpec TourStmts TourFacts TourValidFacts TourExactStmts TourExactFacts Transition TransSpec Schedule SchedInv SchedObs SchedStruct SchedCostsFacts SchedUnservedFacts SchedViolFacts SchedListFacts SchedToursFacts SchedFormLimFacts SchedUsageFacts SchedFormsFacts SchedTransFacts SchedExactFacts Swaps SwapsStmts SwapsFacts SwapsStmts2 SwapsFacts2 PipelineSched RenderStmts NoPanicStmts NPB_defs NPB_base.
(* NPB_sched.v — totality of the schedule-level helpers: update_train_formation, update_depot_usage,
   update_tour_and_costs, update_tours *)


Local Open Scope Z_scope.

Lemma nc_panic_wrap {A} (r : res A) : (exists a, r = Ok a) -> no_crash (match r with Ok t => Ok t | _ => Panic end).
Proof. intros [a ->]. apply nc_ok. Qed.

Lemma nc_fold_nonok {S V} (f : res S -> V -> res S) :
  (forall r v, is_ok r = false -> f r v = r) ->
  forall l r, is_ok r = false -> fold_left f l r = r.
Proof. intros H l r Hr. now apply fold_nonok. Qed.

Section Sched.
Variable nw : network.
Notation formation := (list (vehicle_id * Z)).

(** * update_train_formation *)
Lemma rif_nc s f prov recv n : no_crash (replacement_in_formation nw s f prov recv n).
Proof.
  unfold replacement_in_formation.
  destruct prov as [p|]; destruct recv as [[r rty]|]; cbn [negb];
    repeat match goal with
    | |- no_crash (if ?b then _ else _) => destruct b
    | |- no_crash (match ?x with Some _ => _ | None => _ end) => destruct x
    | |- no_crash (Ok _) => apply nc_ok
    | |- no_crash Err => apply nc_err
    end.
Qed.

Definition has_forms (fm : list (node_id * formation)) (l : list node_id) : Prop :=
  forall n, In n l -> is_depot (nd nw n) = false -> nget n fm <> None.

Lemma nget_nset_ne n (x : formation) fm m : nget m fm <> None -> nget m (nset n x fm) <> None.
Proof.
  intros H. destruct (nget n fm) as [f|] eqn:G.
  - rewrite (nset_key _ _ _ _ G), nget_nrepl. destruct (nid_eqb m n); [|exact H].
    destruct (nget m fm); congruence.
  - unfold nset. destruct (existsb _ fm) eqn:Ex.
    + change (map _ fm) with (nrepl n x fm). rewrite nget_nrepl. destruct (nid_eqb m n); [|exact H].
      destruct (nget m fm); congruence.
    + unfold nget in *. clear G Ex. induction fm as [|[k y] fm IH]; cbn [app assoc] in *; [congruence|].
      destruct (nid_eqb m k); [congruence | auto].
Qed.

Lemma utf_nc s prov recv moved : forall fm uns, has_forms fm moved ->
  no_crash (update_train_formation nw s fm uns prov recv moved).
Proof.
  unfold update_train_formation.
  induction moved as [|n l IH]; intros fm uns HF; cbn [fold_left]; [apply nc_ok|].
  destruct uns as [ua ub]. cbn [bind].
  match goal with |- no_crash (fold_left ?G _ _) =>
    assert (Hno : forall r, is_ok r = false -> fold_left G l r = r)
      by (apply fold_nonok; intros [] ? Hr; try discriminate Hr; reflexivity) end.
  destruct (is_depot (nd nw n)) eqn:Edep.
  - apply IH. intros m Hm. apply HF. now right.
  - destruct (nget n fm) as [f|] eqn:En.
    2:{ exfalso. apply (HF n); auto. now left. }
    cbn [unwrap_opt bind].
    pose proof (rif_nc s f prov recv n) as Hr.
    destruct (replacement_in_formation nw s f prov recv n) as [f'| | |] eqn:Er; cbn [bind].
    + apply IH. intros m Hm Hd. apply nget_nset_ne. apply HF; auto. now right.
    + rewrite Hno by reflexivity. apply nc_err.
    + destruct Hr as [Hr _]. congruence.
    + destruct Hr as [_ Hr]. congruence.
Qed.

(* the keys of the formation map are kept by update_train_formation *)
Lemma utf_keeps s prov recv moved : forall fm uns fm' uns',
  update_train_formation nw s fm uns prov recv moved = Ok (fm', uns') ->
  forall m, nget m fm <> None -> nget m fm' <> None.
Proof.
  unfold update_train_formation.
  induction moved as [|n l IH]; intros fm uns fm' uns' H m Hm; cbn [fold_left] in H.
  - inversion H; subst; auto.
  - destruct uns as [ua ub]. cbn [bind] in H.
    match type of H with fold_left ?G _ _ = _ =>
      assert (Hno : forall r, is_ok r = false -> fold_left G l r = r)
        by (apply fold_nonok; intros [] ? Hr; try discriminate Hr; reflexivity) end.
    destruct (is_depot (nd nw n)).
    + eapply IH; eauto.
    + destruct (nget n fm) as [f|] eqn:En; cbn [unwrap_opt bind] in H.
      2:{ rewrite Hno in H by reflexivity. discriminate. }
      destruct (replacement_in_formation nw s f prov recv n) as [f'| | |] eqn:Er; cbn [bind] in H;
        try (rewrite Hno in H by reflexivity; discriminate).
      eapply IH; [exact H|]. now apply nget_nset_ne.
Qed.

(** * update_depot_usage *)
Lemma rm_spawn_nc U d ty v : In v (sp_of U d ty) -> exists U', usage_remove_spawn U d ty v = Ok U'.
Proof.
  unfold usage_remove_spawn, sp_of. fold (ent_of U d ty). destruct (ent_of U d ty) as [sp de]. cbn [fst].
  intros I. apply memv_in in I. rewrite I. eauto.
Qed.
Lemma rm_despawn_nc U d ty v : In v (de_of U d ty) -> exists U', usage_remove_despawn U d ty v = Ok U'.
Proof.
  unfold usage_remove_despawn, de_of. fold (ent_of U d ty). destruct (ent_of U d ty) as [sp de]. cbn [snd].
  intros I. apply memv_in in I. rewrite I. eauto.
Qed.

(* [v]'s record in [U] is at the depots of its tour in [s] (if it is a vehicle of [s]); the new tour, if any, starts
   at a start depot and ends at an end depot *)
Lemma udu_nd_ok s U V T v ty nt :
  UX nw V T [] U ->
  (is_vehicle s v = true -> exists t, tour_of s v = Ok t /\ vget v V = Some ty /\ vget v T = Some t /\
       is_start_depot (nd nw (first_node t)) = true /\ is_end_depot (nd nw (last_node t)) = true) ->
  (forall t, nt = Some t -> is_start_depot (nd nw (first_node t)) = true /\ is_end_depot (nd nw (last_node t)) = true) ->
  exists U', update_depot_usage_nd nw s U v ty nt = Ok U'.
Proof.
  intros [K N S D] HV HN. unfold update_depot_usage_nd.
  assert (E1 : exists a, (match nt with Some t => do x <- start_depot nw t; Ok (Some x) | None => Ok None end) = Ok a).
  { destruct nt as [t|]; [|eauto]. destruct (HN t eq_refl) as [A _]. unfold start_depot. rewrite A. cbn [bind]. eauto. }
  destruct E1 as [a ->]. cbn [bind].
  assert (E2 : exists a, (match nt with Some t => do x <- end_depot nw t; Ok (Some x) | None => Ok None end) = Ok a).
  { destruct nt as [t|]; [|eauto]. destruct (HN t eq_refl) as [_ A]. unfold end_depot. rewrite A. cbn [bind]. eauto. }
  destruct E2 as [b ->]. cbn [bind].
  destruct (is_vehicle s v) eqn:Ev.
  - destruct (HV eq_refl) as (t & Ht & GV & GT & A1 & A2). rewrite Ht. cbn [bind].
    unfold start_depot, end_depot. rewrite A1, A2. cbn [bind].
    destruct (rm_spawn_nc U (get_depot_idx nw (first_node t)) ty v) as [u1 E1].
    { apply S. split; [|intros []]. exists t. auto. }
    rewrite E1. cbn [bind].
    destruct (rm_spawn_eff _ _ _ _ _ E1) as [_ [Es Ed _ _]].
    match goal with |- context [usage_remove_despawn ?u2 ?d ?ty ?v] =>
      destruct (rm_despawn_nc u2 d ty v) as [u3 E3] end.
    { destruct a as [x|].
      - destruct (add_spawn_eff u1 (get_depot_idx nw x) ty v) as [_ Ed2 _ _]. apply Ed2. unfold f_id.
        apply Ed. unfold f_id. apply D. split; [|intros []]. exists t. auto.
      - apply Ed. unfold f_id. apply D. split; [|intros []]. exists t. auto. }
    rewrite E3. cbn [bind]. eauto.
  - cbn [bind]. eauto.
Qed.

Lemma udu_nc s U V T V' T' v :
  UX nw V T [] U ->
  (is_vehicle s v = true -> exists ty t, vget v (s_vehicles s) = Some ty /\ tour_of s v = Ok t /\
       vget v V = Some ty /\ vget v T = Some t /\
       is_start_depot (nd nw (first_node t)) = true /\ is_end_depot (nd nw (last_node t)) = true) ->
  (forall ty ty', vget v V' = Some ty -> vget v (s_vehicles s) = Some ty' -> ty = ty') ->
  (forall ty, vget v V' = Some ty -> forall t, vget v T' = Some t ->
       is_start_depot (nd nw (first_node t)) = true /\ is_end_depot (nd nw (last_node t)) = true) ->
  exists U', update_depot_usage nw s U V' T' v = Ok U'.
Proof.
  intros UXs HV Stab HN. unfold update_depot_usage.
  destruct (vget v V') as [ty|] eqn:GV.
  - destruct (udu_nd_ok s U V T v ty (vget v T') UXs) as [U' E].
    + intros Ev. destruct (HV Ev) as (ty0 & t & G0 & Ht & G1 & G2 & A).
      assert (ty = ty0) by (eapply Stab; eauto). subst ty0. exists t. auto.
    + intros t Gt. eapply HN; eauto.
    + rewrite E. eauto.
  - destruct (vget v (s_vehicles s)) as [ty|] eqn:G0; [|eauto].
    destruct (udu_nd_ok s U V T v ty None UXs) as [U' E].
    + intros Ev. destruct (HV Ev) as (ty0 & t & G0' & Ht & G1 & G2 & A).
      inversion G0'; subst ty0. exists t. auto.
    + intros t Q. discriminate Q.
    + rewrite E. eauto.
Qed.
End Sched.
End NPB_sched.

Module NPB_tour.
Import Arith.
Import Base BaseFacts Network NetSpec NetFacts Tour TourSpec TourStmts TourFacts TourValidFacts TourExactStmts TourExactFacts NoPanicStmts NPB_defs.
(* NPB_tour.v — totality / no-crash of the tour operations of Tour.v on valid, exact tours (part of NoPanicFactsB).
   Every unsigned subtraction of [remove] / [insert_path] subtracts a part of a sum of nonnegative summands from the
   whole sum, along the decomposition t_nodes t = pre ++ mid ++ suf of TourExactFacts.v. *)


Local Open Scope Z_scope.

(** * Generic arithmetic: subtracting a part from the whole never underflows *)
Lemma dt_diff_len_nonneg a b z : dt_diff a b = Ok (Len z) -> 0 <= z.
Proof.
  unfold dt_diff. destruct (dt_leb b a) eqn:E; [|discriminate].
  destruct a as [|x|]; destruct b as [|y|]; try discriminate; intros H; inversion H; subst; try lia.
  apply dt_leb_point in E. lia.
Qed.
Lemma dt_diff_sec_nonneg a b d p : 0 <= p -> dt_diff a b = Ok d -> 0 <= dur_sec_or d p.
Proof.
  intros Hp H. destruct d as [z|]; cbn [dur_sec_or]; [|exact Hp]. eapply dt_diff_len_nonneg; eauto.
Qed.

Lemma dur_sub_part a b c :
  (forall z, a = Len z -> 0 <= z) -> (forall z, c = Len z -> 0 <= z) ->
  exists r, dur_sub (dur_add (dur_add a b) c) b = Ok r.
Proof.
  intros Ha Hc. destruct a as [x|], b as [y|], c as [w|]; cbn [dur_add]; unfold dur_sub; cbn [dur_leb];
    try (eexists; reflexivity).
  specialize (Ha x eq_refl). specialize (Hc w eq_refl).
  destruct (Z.leb_spec y (x + y + w)); [eexists; reflexivity|lia].
Qed.
Lemma dist_sub_part a b c :
  (forall z, a = Dist z -> 0 <= z) -> (forall z, c = Dist z -> 0 <= z) ->
  exists r, dist_sub (dist_add (dist_add a b) c) b = Ok r.
Proof.
  intros Ha Hc. destruct a as [x|], b as [y|], c as [w|]; cbn [dist_add]; unfold dist_sub;
    try (eexists; reflexivity).
  specialize (Ha x eq_refl). specialize (Hc w eq_refl).
  destruct (Z.leb_spec y (x + y + w)); [eexists; reflexivity|lia].
Qed.
Lemma z_sub_cost_ok a b : b <= a -> exists r, z_sub_cost a b = Ok r.
Proof. intros H. unfold z_sub_cost. destruct (Z.leb_spec b a); [eexists; reflexivity|lia]. Qed.

Lemma z_sum_nonneg l : (forall x, In x l -> 0 <= x) -> 0 <= z_sum l.
Proof.
  induction l as [|a l IH]; intros H; [unfold z_sum; cbn [fold_left]; lia|].
  rewrite z_sum_cons. assert (0 <= a) by (apply H; left; reflexivity).
  assert (0 <= z_sum l) by (apply IH; intros x Hx; apply H; right; exact Hx). lia.
Qed.

Lemma forallb_false_in {A} (f : A -> bool) l x : In x l -> f x = false -> forallb f l = false.
Proof.
  intros Hin Hf. destruct (forallb f l) eqn:E; [|reflexivity].
  rewrite forallb_forall in E. rewrite (E x Hin) in Hf. discriminate.
Qed.

Section TourNC.
Variable nw : network.
Hypothesis WF : net_wf_b nw = true.
Hypothesis DP : durations_pos_b nw = true.
Hypothesis DF : dists_finite_b nw = true.
Hypothesis U : unsigned_ok nw.
Notation d0 := (SD 0).

(** * L1: every summand of the cached figures is nonnegative *)
Lemma planning_nonneg : 0 <= planning_sec nw.
Proof. exact (uo_planning nw U). Qed.

Lemma node_duration_nonneg n z : node_duration nw n = Len z -> 0 <= z.
Proof.
  unfold node_duration. destruct (n_duration (nd nw n)) as [d| | |] eqn:E; try (intros H; inversion H; lia).
  intros ->. unfold n_duration in E.
  destruct (nd nw n); try (inversion E; lia); eapply dt_diff_len_nonneg; exact E.
Qed.
Lemma node_duration_sec_nonneg n : 0 <= dur_sec_or (node_duration nw n) (planning_sec nw).
Proof.
  destruct (node_duration nw n) as [z|] eqn:E; cbn [dur_sec_or]; [|exact planning_nonneg].
  eapply node_duration_nonneg; exact E.
Qed.

Lemma sm_cost_nonneg n : 0 <= sm_cost nw n.
Proof.
  unfold sm_cost. pose proof (node_duration_sec_nonneg n) as H.
  pose proof (uo_service nw U). pose proof (uo_maint nw U).
  destruct (nd nw n); nia.
Qed.

Lemma dh_time_sec_nonneg a b : 0 <= dur_sec_or (dead_head_time_between nw a b) (planning_sec nw).
Proof.
  unfold dead_head_time_between.
  destruct (loc_travel_time nw (n_end_loc (nd nw a)) (n_start_loc (nd nw b))) as [z|] eqn:E; cbn [dur_sec_or].
  - eapply (travel_nonneg nw WF); exact E.
  - exact planning_nonneg.
Qed.

Lemma idle_sec_nonneg a b : 0 <= idle_sec nw a b.
Proof.
  unfold idle_sec. destruct (idle_time_between nw a b) as [d| | |] eqn:E; try lia.
  unfold idle_time_between in E.
  destruct (is_start_depot (nd nw a) || is_end_depot (nd nw b)).
  - inversion E; subst. cbn [dur_sec_or]. lia.
  - destruct (dt_leb _ _) in E.
    + eapply dt_diff_sec_nonneg; [exact planning_nonneg|exact E].
    + inversion E; subst. cbn [dur_sec_or]. lia.
Qed.

Lemma dhi_cost_nonneg a b : 0 <= dhi_cost nw a b.
Proof.
  unfold dhi_cost. pose proof (dh_time_sec_nonneg a b). pose proof (idle_sec_nonneg a b).
  pose proof (uo_dh nw U). pose proof (uo_idle nw U). nia.
Qed.

Lemma SM_nonneg l : 0 <= SM nw l.
Proof.
  unfold SM. apply z_sum_nonneg. intros x Hx. apply in_map_iff in Hx. destruct Hx as (n & <- & _).
  apply sm_cost_nonneg.
Qed.
Lemma CS_nonneg ps : 0 <= CS nw ps.
Proof.
  unfold CS. apply z_sum_nonneg. intros x Hx. apply in_map_iff in Hx. destruct Hx as ([a b] & <- & _).
  apply dhi_cost_nonneg.
Qed.

Theorem tour_costs_nonneg : forall l, 0 <= compute_costs nw l.
Proof. intros l. rewrite costs_CS. pose proof (SM_nonneg l). pose proof (CS_nonneg (windows l)). lia. Qed.

Corollary exact_costs_nonneg t : tour_exact nw t -> 0 <= t_costs t.
Proof. intros H. destruct (exact_proj nw t H) as (_ & _ & _ & _ & ->). apply tour_costs_nonneg. Qed.

(* the three other sums *)
Lemma useful_nonneg l z : compute_useful nw l = Len z -> 0 <= z.
Proof.
  revert z; induction l as [|a l IH]; intros z.
  - unfold compute_useful, dur_sum. cbn [map fold_left]. intros H; inversion H; lia.
  - change (a :: l) with ([a] ++ l). rewrite useful_app, useful_one.
    destruct (node_duration nw a) as [x|] eqn:Ea; destruct (compute_useful nw l) as [y|]; cbn [dur_add];
      try discriminate.
    intros H; inversion H; subst. pose proof (node_duration_nonneg a x Ea). specialize (IH y eq_refl). lia.
Qed.
Lemma sdist_nonneg l z : compute_sdist nw l = Dist z -> 0 <= z.
Proof.
  revert z; induction l as [|a l IH]; intros z.
  - unfold compute_sdist, dist_sum. cbn [map fold_left]. intros H; inversion H; lia.
  - change (a :: l) with ([a] ++ l). rewrite sdist_app, sdist_one.
    destruct (n_travel_dist (nd nw a)) as [x|] eqn:Ea; destruct (compute_sdist nw l) as [y|]; cbn [dist_add];
      try discriminate.
    intros H; inversion H; subst. pose proof (uo_travel nw U a x Ea). specialize (IH y eq_refl). lia.
Qed.
Lemma DS_nonneg ps z : DS nw ps = Dist z -> 0 <= z.
Proof.
  revert z; induction ps as [|[a b] ps IH]; intros z.
  - unfold DS, dist_sum. cbn [map fold_left]. intros H; inversion H; lia.
  - change ((a, b) :: ps) with ([(a, b)] ++ ps). rewrite DS_app, DS_one.
    destruct (dead_head_distance_between nw a b) as [x|] eqn:Ea; destruct (DS nw ps) as [y|]; cbn [dist_add];
      try discriminate.
    intros H; inversion H; subst. pose proof (uo_dhdist nw U a b x Ea). specialize (IH y eq_refl). lia.
Qed.

(** * The four subtractions along t_nodes t = pre ++ mid ++ suf *)
Section Split.
Variables (t : tour) (pre mid suf : list node_id).
Hypothesis EX : tour_exact nw t.
Hypothesis El : t_nodes t = pre ++ mid ++ suf.

Lemma sub_useful_ok : exists r, dur_sub_sum nw (t_useful t) mid = Ok r.
Proof.
  destruct (exact_proj nw t EX) as (_ & Eu & _).
  unfold dur_sub_sum. fold (compute_useful nw mid).
  rewrite Eu, El, !useful_app, <- dur_add_assoc.
  apply dur_sub_part; apply useful_nonneg.
Qed.
Lemma sub_sdist_ok : exists r, dist_sub (t_sdist t) (dist_sum (map (fun n => n_travel_dist (nd nw n)) mid)) = Ok r.
Proof.
  destruct (exact_proj nw t EX) as (_ & _ & Es & _).
  fold (compute_sdist nw mid).
  rewrite Es, El, !sdist_app, <- dist_add_assoc.
  apply dist_sub_part; apply sdist_nonneg.
Qed.
Lemma sub_ddist_ok :
  exists r, dist_sub (t_ddist t) (dead_head_distance_of_segment nw t (length pre) (length pre + length mid)) = Ok r.
Proof.
  destruct (exact_proj nw t EX) as (_ & _ & _ & Ed & _).
  rewrite (ddseg_eq nw t pre mid suf El).
  rewrite Ed, El, ddist_DS, (windows_3 d0), !DS_app, <- dist_add_assoc.
  apply dist_sub_part; apply DS_nonneg.
Qed.
Lemma sub_costs_ok :
  exists r, z_sub_cost (t_costs t) (costs_of_segment nw t (length pre) (length pre + length mid)) = Ok r.
Proof.
  destruct (exact_proj nw t EX) as (_ & _ & _ & _ & Ec).
  rewrite (cseg_eq nw t pre mid suf El).
  apply z_sub_cost_ok.
  rewrite Ec, El, costs_CS, (windows_3 d0), !CS_app, !SM_app.
  pose proof (SM_nonneg pre). pose proof (SM_nonneg suf).
  pose proof (CS_nonneg (windows pre)). pose proof (CS_nonneg (windows suf)). lia.
Qed.
End Split.

(** * L2: remove never crashes on a valid exact tour *)
Lemma inner_nondep l k : connected nw l -> (1 <= k)%nat -> (k + 1 < length l)%nat ->
  node_is_depot nw (nth k l d0) = false.
Proof.
  intros C H1 H2. destruct k as [|k]; [lia|].
  pose proof (connected_nth nw l k C ltac:(lia)) as R1.
  pose proof (connected_nth nw l (S k) C ltac:(lia)) as R2.
  apply cr_ends in R1, R2. destruct R1 as [R1 _]. destruct R2 as [_ R2].
  change (node_is_depot nw (nth (S k) l d0)) with (sdep nw (nth (S k) l d0) || edep nw (nth (S k) l d0)).
  rewrite R1, R2. reflexivity.
Qed.

Lemma remove_nodes_nc t seg : TV nw t -> no_crash (remove_nodes nw t seg).
Proof.
  intros V. destruct seg as [a b].
  rewrite (remove_nodes_ref_at nw t a b (TV_len3 nw t V) (TV_nonempty nw t V)).
  destruct (pos_of (t_nodes t) a); [|apply nc_err].
  destruct (pos_of (t_nodes t) b); [|apply nc_err].
  destruct (ref_removable nw (t_dummy t) (t_nodes t) n n0); [apply nc_ok|apply nc_err].
Qed.

(* the removed range contains a non-depot *)
Lemma removed_has_nondep t seg sp ep tn removed : TV nw t ->
  remove_nodes nw t seg = Ok (sp, ep, tn, removed) -> forallb (node_is_depot nw) removed = false.
Proof.
  intros V RN. apply remove_nodes_inv in RN. destruct RN as (H1 & H2 & _ & -> & C1 & C2).
  pose proof (TV_connected nw t V) as C. unfold slice.
  destruct (t_dummy t) eqn:Dm.
  - unfold TV in V. rewrite Dm in V. destruct V as (_ & _ & ND).
    apply (forallb_false_in _ _ (nth sp (t_nodes t) d0)).
    + apply (in_slice_nth _ sp _ sp); [lia|lia|]. apply nth_error_nth'. lia.
    + apply ND. apply nth_In. lia.
  - pose proof (TV_len3 nw t V Dm) as L3. specialize (C1 eq_refl). specialize (C2 eq_refl).
    set (k := match sp with O => 1%nat | _ => sp end).
    assert (K : (sp <= k /\ k <= ep /\ 1 <= k /\ k + 1 < length (t_nodes t))%nat).
    { subst k. destruct sp as [|sp'].
      - specialize (C1 eq_refl). lia.
      - destruct (Nat.eq_dec ep (length (t_nodes t) - 1)) as [E|E]; [specialize (C2 E)|]; lia. }
    apply (forallb_false_in _ _ (nth k (t_nodes t) d0)).
    + apply (in_slice_nth _ sp _ k); [lia|lia|]. apply nth_error_nth'. lia.
    + apply inner_nondep; [exact C|lia|lia].
Qed.

Theorem remove_nc : forall t seg, TV nw t -> tour_exact nw t -> no_crash (Tour.remove nw t seg).
Proof.
  intros t seg V EX. unfold remove.
  pose proof (remove_nodes_nc t seg V) as NC.
  destruct (remove_nodes nw t seg) as [[[[sp ep] tn] removed]| | |] eqn:RN; cbn [bind];
    [|apply nc_err|destruct NC; congruence|destruct NC; congruence].
  pose proof (removed_has_nondep t seg sp ep tn removed V RN) as ND.
  apply remove_nodes_inv in RN. destruct RN as (H1 & H2 & -> & -> & _ & _).
  destruct (split3 (t_nodes t) sp (ep + 1)) as (El & Lp & Lm); [lia|lia|].
  set (pre := firstn sp (t_nodes t)) in *. set (mid := slice sp (ep + 1) (t_nodes t)) in *.
  set (suf := skipn (ep + 1) (t_nodes t)) in *. clearbody pre mid suf.
  assert (Hep : (ep + 1 = length pre + length mid)%nat) by lia. subst sp. rewrite Hep.
  destruct (sub_useful_ok t pre mid suf EX El) as (u0 & ->). cbn [bind].
  destruct (sub_sdist_ok t pre mid suf EX El) as (s0 & ->). cbn [bind].
  destruct (sub_ddist_ok t pre mid suf EX El) as (dd0 & ->). cbn [bind].
  destruct (sub_costs_ok t pre mid suf EX El) as (c0 & ->). cbn [bind].
  unfold path_new_trusted. rewrite ND.
  match goal with |- no_crash (if ?c then _ else _) => destruct c end; apply nc_ok.
Qed.

(** * L3: insert_path succeeds on a valid exact tour and a valid path *)
Theorem insert_path_total : forall t p, TV nw t -> tour_exact nw t -> valid_path nw p ->
  exists r, insert_path nw t p = Ok r.
Proof.
  intros t p V EX VP. unfold insert_path.
  pose proof (TV_connected nw t V) as C. pose proof (TV_nonempty nw t V) as NE.
  destruct (insert_nodes_ref_at nw WF DP (t_dummy t) (t_nodes t) p NE (connected_chrono nw WF DP _ C) VP)
    as (sp' & ep' & p1' & IN').
  destruct (insert_nodes nw (t_dummy t) (t_nodes t) p) as [[[[[sp ep] newl] removed] new]| | |] eqn:IN;
    try discriminate IN'.
  clear IN'. cbn [bind].
  apply insert_nodes_inv in IN. destruct IN as (Hn & H1 & H2 & -> & ->).
  destruct (split3 (t_nodes t) sp ep H1 H2) as (El & Lp & Lm).
  set (pre := firstn sp (t_nodes t)) in *. set (mid := slice sp ep (t_nodes t)) in *.
  set (suf := skipn ep (t_nodes t)) in *. clearbody pre mid suf.
  assert (Hep : ep = (length pre + length mid)%nat) by lia. subst sp. subst ep. clear H1 H2 Lm.
  destruct (sub_useful_ok t pre mid suf EX El) as (u0 & ->). cbn [bind].
  destruct (sub_sdist_ok t pre mid suf EX El) as (s0 & ->). cbn [bind].
  destruct (sub_costs_ok t pre mid suf EX El) as (c0 & Ec0).
  destruct (t_ddist t) as [m|] eqn:Em.
  - destruct (sub_ddist_ok t pre mid suf EX El) as (dd0 & Edd). rewrite Em in Edd. rewrite Edd. cbn [bind].
    rewrite Ec0. cbn [bind]. eexists; reflexivity.
  - cbn [bind]. rewrite Ec0. cbn [bind]. eexists; reflexivity.
Qed.

Corollary insert_path_nc : forall t p, TV nw t -> tour_exact nw t -> valid_path nw p ->
  no_crash (insert_path nw t p).
Proof. intros t p V EX VP. apply nc_of_ok. now apply insert_path_total. Qed.

(** * L4: conflict *)
(* general form: both nodes arbitrary, with the side condition of [gip_ok] *)
Lemma conflict_total_gen : forall t x y, t_nodes t <> [] -> chrono nw (t_nodes t) ->
  (nid_is_depot nw x = false -> dt_ltb (start_time nw x) (end_time nw y) = true) ->
  exists r, conflict nw t (x, y) = Ok r.
Proof.
  intros t x y NE CH H. unfold conflict. cbn [fst snd].
  destruct (gip_ok nw WF DP (t_nodes t) CH x y NE H) as (G & A & B). rewrite G. cbn [bind].
  unfold slice_res. rewrite (proj2 (Nat.leb_le _ _) A), (proj2 (Nat.leb_le _ _) B). cbn [andb bind].
  eexists; reflexivity.
Qed.

Lemma path_ends_lt p f : valid_path nw p -> hd_error p = Some f ->
  nid_is_depot nw f = false -> dt_ltb (start_time nw f) (end_time nw (last p f)) = true.
Proof.
  intros (NE & CN & _) Hf Df. destruct p as [|f' r]; [discriminate|]. inversion Hf; subst f'.
  destruct (dur_pos nw DP f) as [D|D]; [unfold nid_is_depot in Df; congruence|].
  eapply dt_lt_le_trans; [exact D|].
  rewrite (last_indep (f :: r) f d0) by discriminate.
  exact (conn_end_mono nw WF DP (f :: r) NE CN).
Qed.

Theorem conflict_total : forall t p, TV nw t -> valid_path nw p ->
  forall f, hd_error p = Some f -> exists r, conflict nw t (f, last p f) = Ok r.
Proof.
  intros t p V VP f Hf. apply conflict_total_gen.
  - exact (TV_nonempty nw t V).
  - apply (connected_chrono nw WF DP). exact (TV_connected nw t V).
  - now apply path_ends_lt.
Qed.

Theorem conflict_nc : forall t p, TV nw t -> valid_path nw p ->
  forall f, hd_error p = Some f -> no_crash (conflict nw t (f, last p f)).
Proof. intros t p V VP f Hf. apply nc_of_ok. now apply conflict_total. Qed.

(** * L5: the binary search has enough fuel *)
Theorem latest_not_reaching_nc : forall l x, l <> [] -> no_crash (latest_not_reaching_node_l nw l x).
Proof.
  intros l x NE. unfold latest_not_reaching_node_l.
  destruct (can_reach nw (last l d0) x); [apply nc_ok|].
  destruct (eaa_ok nw l (start_time nw x) (search_fuel l) 0 (length l)) as (r & Hr & _).
  - destruct l; [congruence|cbn [length]; lia].
  - unfold search_fuel. lia.
  - rewrite Hr. cbn [bind]. apply nc_ok.
Qed.

End TourNC.

Print Assumptions sm_cost_nonneg.
Print Assumptions dhi_cost_nonneg.
Print Assumptions tour_costs_nonneg.
Print Assumptions exact_costs_nonneg.
Print Assumptions remove_nc.
Print Assumptions insert_path_total.
Print Assumptions insert_path_nc.
Print Assumptions conflict_total_gen.
Print Assumptions conflict_total.
Print Assumptions conflict_nc.
Print Assumptions latest_not_reaching_nc.

(** * Witnesses: the side conditions are needed *)
Module TourNCWitness.
Import TourExactFacts.Counterexample.
(* (a) [conflict] on an arbitrary segment panics (slice with start > end): the segment's first node lies after its
   last node. Network nw0 of TourExactFacts (well-formed, positive durations), dummy tour [SV 2], segment (SV 3, SV 1). *)
Definition tA : tour := new_computing nw0 [SV 2] true.
Lemma conflict_can_panic :
  net_wf_b nw0 = true /\ durations_pos_b nw0 = true /\ TV nw0 tA /\ conflict nw0 tA (SV 3, SV 1) = Panic.
Proof.
  split; [reflexivity|]. split; [reflexivity|]. split; [|vm_compute; reflexivity].
  unfold TV, tA. cbn [t_dummy new_computing t_nodes]. split; [discriminate|]. split.
  - intros a b [].
  - intros x [<-|[]]. vm_compute. reflexivity.
Qed.

(* (b) [unsigned_ok] is needed: with a negative cost rate (impossible for the u64 of the code) the cost subtraction of
   [remove] underflows on a valid exact dummy tour *)
Definition nwB : network :=
  {| nw_nodes := nw_nodes nw0; nw_depots := []; nw_overflow := (0, SD 0, ED 0); nw_service := []; nw_maint := [];
     nw_sdepots := []; nw_edepots := []; nw_all_by_start := []; nw_type_by_start := []; nw_type_by_end := [];
     nw_params := {| p_forbid := false; p_min := 0; p_dht := 0; p_maxdist := 0; c_staff := 0; c_service := -1;
                     c_maint := 0; c_dh := 0; c_idle := 0 |};
     nw_nlocs := 1%nat; nw_dh := []; nw_types := []; nw_nservice := 3; nw_planning := Len 86400 |}.
Definition tB : tour := new_computing nwB [SV 1; SV 2; SV 3] true.
Lemma remove_needs_unsigned :
  net_wf_b nwB = true /\ durations_pos_b nwB = true /\ dists_finite_b nwB = true /\ TV nwB tB /\
  tour_exact nwB tB /\ remove nwB tB (SV 2, SV 2) = Panic.
Proof.
  split; [reflexivity|]. split; [reflexivity|]. split; [reflexivity|].
  split; [|split; [reflexivity|vm_compute; reflexivity]].
  unfold TV, tB. cbn [t_dummy new_computing t_nodes]. split; [discriminate|]. split.
  - intros a b [E|[E|[]]]; inversion E; subst; vm_compute; reflexivity.
  - intros x [<-|[<-|[<-|[]]]]; vm_compute; reflexivity.
Qed.
End TourNCWitness.
Print Assumptions TourNCWitness.conflict_can_panic.
Print Assumptions TourNCWitness.remove_needs_unsigned.
End NPB_tour.

Module NPB_trans.
Import Base BaseFacts Network Tour Transition TransSpec TransStmts TransFacts TransFacts2 Schedule SchedInv SchedStruct SchedCostsFacts SchedListFacts SchedTransFacts NoPanicStmts NPB_defs.
(* NPB_trans.v — totality (no Panic / OutOfFuel) of update_transitions under the rotation-cycle invariant TInv.
   Part 1: the three Transition.v operations used by update_transitions return Ok under TInv + tours_total.
   Part 2: one step of the fold ([ut_step], SchedTransFacts.v) does not crash under the loop invariant J.
   Part 3: the fold, hence update_transitions, does not crash. *)

Local Open Scope Z_scope.

(** * Part 1: the operations on one transition *)
Section Ops.
Variable nw : network.

Lemma tour_info_total upd old x : eff upd old x <> None -> exists i, tour_info upd old x = Ok i.
Proof.
  intros H. destruct (eff upd old x) as [i|] eqn:E; [|congruence].
  exists i. now apply tour_info_eff.
Qed.

Lemma members_cycle (t : transition) v :
  In v (members_of t) -> exists k c, nth_error (tr_cycles t) k = Some c /\ In v (fst c).
Proof.
  unfold members_of. intros H. apply in_concat in H. destruct H as (l & Hl & Hv).
  apply in_map_iff in Hl. destruct Hl as (c & <- & Hc).
  apply In_nth_error in Hc. destruct Hc as [k Hk]. eauto.
Qed.

(* the cycle of a member: lookup entry, cycle, position *)
Lemma member_site tours m t v :
  TInv nw tours m t -> In v m ->
  exists k c pre suf, lookup_get v (tr_lookup t) = Some k /\ nth_error (tr_cycles t) k = Some c /\
                      fst c = pre ++ v :: suf /\ ~ In v pre /\ ~ In v suf.
Proof.
  intros I Hv. apply (ti_members _ _ _ _ I) in Hv. apply members_cycle in Hv.
  destruct Hv as (k & c & Hk & Hc).
  pose proof (inv_cycle_nodup _ _ _ _ _ _ I Hk) as Hnd.
  destruct (split_nodup _ _ Hc Hnd) as (pre & suf & Ec & Hp & Hs).
  exists k, c, pre, suf. repeat split; auto. eapply inv_lookup_k; eauto.
Qed.

Lemma pred_succ_ok t v upd old k c pre suf :
  lookup_get v (tr_lookup t) = Some k -> nth_error (tr_cycles t) k = Some c ->
  fst c = pre ++ v :: suf -> ~ In v pre ->
  eff upd old (last (suf ++ pre) v) <> None -> eff upd old (hd v (suf ++ pre)) <> None ->
  exists r, pred_succ_depots t v upd old = Ok r.
Proof.
  intros Hl Hk Hc Hp H1 H2. unfold pred_succ_depots.
  rewrite Hl. cbn [unwrap_opt bind]. rewrite Hk. cbn [unwrap_opt bind].
  rewrite Hc. rewrite index_of_split by auto. cbn [unwrap_opt bind].
  rewrite pred_list, succ_list. cbn [unwrap_opt bind].
  destruct (tour_info_total _ _ _ H1) as [ip ->]. cbn [bind].
  destruct (tour_info_total _ _ _ H2) as [isu ->]. cbn [bind]. eauto.
Qed.

(* predecessor and successor of a member are members (or the member itself) *)
Lemma neighbours_total tours m t k c pre suf v :
  TInv nw tours m t -> tours_total tours m -> nth_error (tr_cycles t) k = Some c ->
  fst c = pre ++ v :: suf ->
  tours (last (suf ++ pre) v) <> None /\ tours (hd v (suf ++ pre)) <> None.
Proof.
  intros I Tot Hk Ec.
  assert (Hin : forall x, In x (v :: suf ++ pre) -> tours x <> None).
  { intros x Hx. apply Tot. eapply inv_cycle_in; eauto. rewrite Ec.
    cbn [In] in Hx. rewrite in_app_iff in *. cbn [In]. tauto. }
  split; apply Hin.
  - destruct (suf ++ pre) as [|a r] eqn:E; [left; reflexivity|].
    right. rewrite <- E. apply last_in. rewrite E. discriminate.
  - destruct (suf ++ pre) as [|a r] eqn:E; [left; reflexivity|].
    right. cbn [hd]. now left.
Qed.

Lemma old_of_member upd old m v :
  tours_total (eff upd old) m -> In v m -> upd v = None -> exists i, old v = Some i.
Proof.
  intros Tot Hv Hu. specialize (Tot v Hv). unfold eff in Tot. rewrite Hu in Tot.
  destruct (old v) as [i|]; [eauto | congruence].
Qed.

Theorem update_vehicle_ok upd old m t v newi :
  TInv nw (eff upd old) m t -> tours_total (eff upd old) m -> In v m -> upd v = None ->
  exists t', update_vehicle nw t v newi upd old = Ok t'.
Proof.
  intros I Tot Hv Hu.
  destruct (old_of_member _ _ _ _ Tot Hv Hu) as [oldi Eo].
  destruct (member_site _ _ _ _ I Hv) as (k & c & pre & suf & El & Ek & Ec & Hp & Hs).
  destruct (neighbours_total _ _ _ _ _ _ _ _ I Tot Ek Ec) as [N1 N2].
  unfold update_vehicle. rewrite Eo. cbn [unwrap_opt bind]. rewrite El. cbn [unwrap_opt bind].
  rewrite Ek. cbn [unwrap_opt bind].
  destruct (Nat.eqb (length (fst c)) 1).
  - cbn [bind]. eauto.
  - destruct (pred_succ_ok _ _ _ _ _ _ _ _ El Ek Ec Hp N1 N2) as [[edp sds] ->]. cbn [bind]. eauto.
Qed.

Theorem remove_vehicle_ok upd old m t v :
  TInv nw (eff upd old) m t -> tours_total (eff upd old) m -> In v m -> upd v = None ->
  exists t', remove_vehicle nw t v upd old = Ok t'.
Proof.
  intros I Tot Hv Hu.
  destruct (old_of_member _ _ _ _ Tot Hv Hu) as [oldi Eo].
  destruct (member_site _ _ _ _ I Hv) as (k & c & pre & suf & El & Ek & Ec & Hp & Hs).
  destruct (neighbours_total _ _ _ _ _ _ _ _ I Tot Ek Ec) as [N1 N2].
  unfold remove_vehicle. rewrite El. cbn [unwrap_opt bind]. rewrite Ek. cbn [unwrap_opt bind].
  rewrite Ec. rewrite (without_split pre v suf Hp Hs).
  destruct (pre ++ suf) as [|a r].
  - cbn [bind]. eauto.
  - destruct (pred_succ_ok _ _ _ _ _ _ _ _ El Ek Ec Hp N1 N2) as [[edp sds] ->]. cbn [bind].
    rewrite Eo. cbn [unwrap_opt bind]. eauto.
Qed.

Theorem add_own_ok tours m t v newi :
  TInv nw tours m t -> exists t', add_vehicle_to_own_cycle nw t v newi = Ok t'.
Proof.
  intros I. unfold add_vehicle_to_own_cycle.
  destruct (rev (Transition.tr_empty t)) as [|k rest] eqn:E; [eauto|].
  assert (Hk : In k (Transition.tr_empty t)).
  { apply in_rev. rewrite E. now left. }
  apply (ti_empty _ _ _ _ I) in Hk. destruct Hk as (c & Hc & _).
  assert (L : (k < length (tr_cycles t))%nat).
  { apply nth_error_Some. congruence. }
  apply Nat.ltb_lt in L. rewrite L. eauto.
Qed.

Corollary update_vehicle_nc upd old m t v newi :
  TInv nw (eff upd old) m t -> tours_total (eff upd old) m -> In v m -> upd v = None ->
  no_crash (update_vehicle nw t v newi upd old).
Proof. intros. apply nc_of_ok. eapply update_vehicle_ok; eauto. Qed.

Corollary remove_vehicle_nc upd old m t v :
  TInv nw (eff upd old) m t -> tours_total (eff upd old) m -> In v m -> upd v = None ->
  no_crash (remove_vehicle nw t v upd old).
Proof. intros. apply nc_of_ok. eapply remove_vehicle_ok; eauto. Qed.

Corollary add_own_nc tours m t v newi :
  TInv nw tours m t -> no_crash (add_vehicle_to_own_cycle nw t v newi).
Proof. intros. apply nc_of_ok. eapply add_own_ok; eauto. Qed.
End Ops.

(** * Part 2: one step of update_transitions *)
Section Step.
Variable nw : network.
Variable s : schedule.
Variable vehicles : list (vehicle_id * Z).
Variable tours : list (vehicle_id * tour).
Variable ids' : list (Z * list vehicle_id).
Hypothesis Vold : VPart nw (s_vehicles s) (s_tours s) (s_ids s).
Hypothesis Vnew : VPart nw vehicles tours ids'.
Hypothesis Stab : forall v ty ty', vget v vehicles = Some ty -> vget v (s_vehicles s) = Some ty' -> ty = ty'.

(* in fact a step returns Ok *)
Lemma ut_step_ok done tr vi upd v :
  J nw s vehicles tours done tr upd -> vid_is_real v = true -> ~ In v done ->
  (vget v vehicles <> None \/ vget v (s_vehicles s) <> None) ->
  exists y, ut_step nw s vehicles tours (Ok (tr, vi, upd)) v = Ok y.
Proof.
  intros (J1 & J2 & J3) Rv Nd Hd.
  assert (U0 : tfn nw upd v = None) by (apply tfn_none; auto).
  unfold ut_step. cbn [bind]. rewrite Rv. cbn [negb].
  unfold is_vehicle.
  destruct (vget v (s_vehicles s)) as [ty0|] eqn:Go; destruct (vget v vehicles) as [ty1|] eqn:Gn.
  - (* updated *)
    assert (ty1 = ty0) by (eapply Stab; eauto). subst ty1. cbn [unwrap_opt bind].
    assert (It : In ty0 (type_ids nw)) by (eapply type_in_ids_old; eauto).
    destruct (J3 ty0 It) as (t0 & m & Gt & Hm & I). rewrite Gt. cbn [unwrap_opt bind].
    destruct (vget v tours) as [nt|] eqn:Gv;
      [|apply (v_same _ _ _ _ Vnew) in Gv; congruence].
    cbn [unwrap_opt bind].
    assert (Vm : In v m) by (apply Hm; right; auto).
    pose proof (J_total nw s vehicles tours ids' Vold Vnew _ _ _ _ J1 J2 Hm) as Tot.
    destruct (update_vehicle_ok nw _ _ _ _ _ (info_of nw nt) I Tot Vm U0) as [t' ->].
    cbn [bind]. eauto.
  - (* removed *)
    cbn [unwrap_opt bind].
    assert (It : In ty0 (type_ids nw)) by (eapply type_in_ids_old; eauto).
    destruct (J3 ty0 It) as (t0 & m & Gt & Hm & I). rewrite Gt. cbn [unwrap_opt bind].
    assert (Vm : In v m) by (apply Hm; right; auto).
    pose proof (J_total nw s vehicles tours ids' Vold Vnew _ _ _ _ J1 J2 Hm) as Tot.
    destruct (remove_vehicle_ok nw _ _ _ _ _ I Tot Vm U0) as [t' ->].
    cbn [bind]. eauto.
  - (* added *)
    cbn [unwrap_opt bind].
    assert (It : In ty1 (type_ids nw)) by (eapply type_in_ids_new; eauto).
    destruct (J3 ty1 It) as (t0 & m & Gt & Hm & I). rewrite Gt. cbn [unwrap_opt bind].
    destruct (vget v tours) as [nt|] eqn:Gv;
      [|apply (v_same _ _ _ _ Vnew) in Gv; congruence].
    cbn [unwrap_opt bind].
    destruct (add_own_ok nw _ _ _ v (info_of nw nt) I) as [t' ->].
    cbn [bind]. eauto.
  - destruct Hd as [Hd|Hd]; congruence.
Qed.

Theorem ut_step_nc done tr vi upd v :
  J nw s vehicles tours done tr upd -> vid_is_real v = true -> ~ In v done ->
  (vget v vehicles <> None \/ vget v (s_vehicles s) <> None) ->
  no_crash (ut_step nw s vehicles tours (Ok (tr, vi, upd)) v).
Proof. intros. apply nc_of_ok. eapply ut_step_ok; eauto. Qed.

(** * Part 3: the fold *)
Lemma ut_fold_ok l : forall done tr vi upd,
  J nw s vehicles tours done tr upd -> (forall v, In v l -> vid_is_real v = true) -> NoDup l ->
  (forall v, In v l -> ~ In v done) ->
  (forall v, In v l -> vget v vehicles <> None \/ vget v (s_vehicles s) <> None) ->
  exists y, fold_left (ut_step nw s vehicles tours) l (Ok (tr, vi, upd)) = Ok y.
Proof.
  induction l as [|v l IH]; intros done tr vi upd HJ R N D P; cbn [fold_left]; [eauto|].
  inversion N; subst.
  assert (Rv : vid_is_real v = true) by (apply R; now left).
  assert (Dv : ~ In v done) by (apply D; now left).
  destruct (ut_step_ok done tr vi upd v HJ Rv Dv (P v (or_introl eq_refl))) as [[[tr1 vi1] upd1] Hy].
  rewrite Hy.
  pose proof (J_step nw s vehicles tours ids' Vold Vnew Stab _ _ _ _ _ _ _ _ HJ Rv Dv Hy) as HJ'.
  apply (IH (v :: done)); auto.
  - intros x Hx. apply R. now right.
  - intros x Hx [<-|Hd]; [contradiction|]. eapply D; eauto. now right.
  - intros x Hx. apply P. now right.
Qed.
End Step.

Theorem update_transitions_ok : forall nw s vehicles tours ids' trans viol changed,
  VPart nw (s_vehicles s) (s_tours s) (s_ids s) -> VPart nw vehicles tours ids' ->
  (forall v ty ty', vget v vehicles = Some ty -> vget v (s_vehicles s) = Some ty' -> ty = ty') ->
  NoDup (filter vid_is_real changed) ->
  TOK nw trans (tfn nw (s_tours s)) (s_ids s) ->
  (forall v, In v changed -> vid_is_real v = true -> vget v vehicles <> None \/ vget v (s_vehicles s) <> None) ->
  exists y, update_transitions nw s trans viol changed vehicles tours = Ok y.
Proof.
  intros nw s vehicles tours ids' trans viol changed Vold Vnew Stab ND H0 P.
  rewrite ut_unfold, ut_filter.
  destruct (ut_fold_ok nw s vehicles tours ids' Vold Vnew Stab (filter vid_is_real changed) [] trans viol [])
    as [[[tr vi] upd] ->].
  - apply J_init; auto.
  - intros v Hv. apply filter_In in Hv. tauto.
  - exact ND.
  - intros v _ [].
  - intros v Hv. apply filter_In in Hv. destruct Hv. auto.
  - cbn [bind]. eauto.
Qed.

(* the statement as requested (the two "keys are real" hypotheses are not needed) *)
Theorem update_transitions_nc : forall nw s vehicles tours ids' trans viol changed,
  VPart nw (s_vehicles s) (s_tours s) (s_ids s) -> VPart nw vehicles tours ids' ->
  (forall v ty ty', vget v vehicles = Some ty -> vget v (s_vehicles s) = Some ty' -> ty = ty') ->
  (forall v, vget v (s_vehicles s) <> None -> vid_is_real v = true) ->
  (forall v, vget v vehicles <> None -> vid_is_real v = true) ->
  NoDup (filter vid_is_real changed) ->
  TOK nw trans (tfn nw (s_tours s)) (s_ids s) ->
  (forall v, In v changed -> vid_is_real v = true -> vget v vehicles <> None \/ vget v (s_vehicles s) <> None) ->
  no_crash (update_transitions nw s trans viol changed vehicles tours).
Proof.
  intros nw s vehicles tours ids' trans viol changed Vold Vnew Stab _ _ ND H0 P.
  apply nc_of_ok. eapply update_transitions_ok; eauto.
Qed.

Print Assumptions update_vehicle_ok.
Print Assumptions remove_vehicle_ok.
Print Assumptions add_own_ok.
Print Assumptions update_vehicle_nc.
Print Assumptions remove_vehicle_nc.
Print Assumptions add_own_nc.
Print Assumptions ut_step_ok.
Print Assumptions ut_step_nc.
Print Assumptions ut_fold_ok.
Print Assumptions update_transitions_ok.
Print Assumptions update_transitions_nc.
End NPB_trans.

Module NPB_seg.
Import Sorted.
Import Base BaseFacts Network NetSpec NetFacts Tour TourSpec TourStmts TourFacts TourValidFacts TourExactStmts TourExactFacts Transition TransSpec Schedule SchedInv SchedObs SchedStruct SchedCostsFacts SchedUnservedFacts SchedViolFacts SchedListFacts SchedToursFacts SchedFormLimFacts SchedUsageFacts SchedFormsFacts SchedTransFacts SchedExactFacts Swaps SwapsStmts SwapsFacts SwapsStmts2 SwapsFacts2 PipelineSched RenderStmts NoPanicStmts NPB_defs NPB_base NPB_sched NPB_tour.
(* NPB_seg.v — the segments enumerated by [segments]; check_receiver_type_compatibility never crashes on them *)


Local Open Scope Z_scope.

Section Seg.
Variable nw : network.
Hypothesis WF : net_wf_b nw = true.
Hypothesis DP : durations_pos_b nw = true.

(* a segment as enumerated: starts at a non-depot of the tour and passes the removability check *)
Definition seg_ok (t : tour) (seg : node_id * node_id) : Prop :=
  In (fst seg) (non_depots t) /\ check_removable nw t seg = Ok tt.

Lemma fold_res_list_inv {X V} (Q : X -> Prop) (f : res (list X) -> V -> res (list X)) (l0 : list V) :
  (forall r v x, f r v = Ok x -> exists y, r = Ok y) ->
  (forall l v x, In v l0 -> Forall Q l -> f (Ok l) v = Ok x -> Forall Q x) ->
  forall l acc x, incl l l0 -> Forall Q acc -> fold_left f l (Ok acc) = Ok x -> Forall Q x.
Proof.
  intros Hs Hstep l. induction l as [|v l IH]; intros acc x Hi HQ H; cbn [fold_left] in H.
  - inversion H; subst. exact HQ.
  - assert (Hy : exists y, f (Ok acc) v = Ok y).
    { clear IH Hi. revert H. generalize (f (Ok acc) v). induction l as [|w l IHl]; intros r H; cbn [fold_left] in H; [eauto|].
      apply IHl in H. destruct H as [y Hy]. eapply Hs; eauto. }
    destruct Hy as [y Hy]. rewrite Hy in H. eapply IH; [| |exact H].
    + intros z Hz. apply Hi. now right.
    + eapply Hstep; [|exact HQ|exact Hy]. apply Hi. now left.
Qed.

Lemma segments_ok s p sg : segments nw s p = Ok sg ->
  exists t, tour_of s p = Ok t /\ forall seg, In seg sg -> seg_ok t seg.
Proof.
  unfold segments. intros H. mon H. apply panic_ok in E. exists a. split; [exact E|].
  cbv zeta in H. mon H. inversion H; subst sg; clear H.
  intros seg Hin. apply filter_In in Hin. destruct Hin as [Hin Hc].
  assert (Q : Forall (fun sg : node_id * node_id => In (fst sg) (non_depots a)) a0).
  { match type of E0 with fold_left ?F ?L _ = _ =>
      apply (fold_res_list_inv (fun sg : node_id * node_id => In (fst sg) (non_depots a)) F L) with (l := L) (acc := []) in E0 end;
      auto.
    - intros r [i ss] x Hx. destruct r; cbn [bind] in Hx; try discriminate Hx. eauto.
    - intros l [i ss] x Hv HQ Hx. cbn [bind] in Hx.
      apply in_combine_r in Hv.
      mon Hx. destruct (negb a1); [inversion Hx; subst; exact HQ|].
      mon Hx. inversion Hx; subst x; clear Hx.
      apply Forall_app. split; [exact HQ|]. apply Forall_forall. intros y Hy. apply in_map_iff in Hy.
      destruct Hy as (e & <- & _). exact Hv.
    - apply incl_refl. }
  rewrite Forall_forall in Q. split; [apply Q; exact Hin|].
  destruct (check_removable nw a seg) as [[]| | |]; try discriminate Hc. reflexivity.
Qed.

Lemma pos_nth t n i : position_of nw t n = Ok i -> nth_error (t_nodes t) i = Some n.
Proof.
  rewrite position_of_pos_of. unfold pos_of, ok_or_err.
  destruct (index_of (nid_eqb n) (t_nodes t)) as [k|] eqn:E; [|discriminate]. intros H. inversion H; subst k.
  destruct (index_of_spec _ _ _ E) as (x & X1 & X2). apply nid_eqb_eq in X2. subst x. exact X1.
Qed.

Lemma seg_ok_sub_path t seg : TV nw t -> seg_ok t seg -> exists sp, sub_path nw t seg = Ok sp.
Proof.
  intros V [Hs Hc]. destruct seg as [a b]. cbn [fst] in Hs.
  unfold check_removable in Hc. cbn [fst snd] in Hc.
  destruct (position_of nw t a) as [i| | |] eqn:Pa; cbn [bind] in Hc; try discriminate Hc.
  destruct (position_of nw t b) as [j| | |] eqn:Pb; cbn [bind] in Hc; try discriminate Hc.
  apply pos_nth in Pa. apply pos_nth in Pb.
  assert (Hij : (i <= j)%nat).
  { unfold check_if_sequence_is_removable in Hc.
    repeat match type of Hc with (if ?c then _ else _) = _ => destruct c eqn:?; try discriminate Hc end.
    match goal with K : Nat.ltb j i = false |- _ => apply Nat.ltb_ge in K; exact K end. }
  pose proof (TV_connected nw t V) as CN.
  pose proof (connected_chrono nw WF DP _ CN) as CH.
  eexists. apply (sub_path_total_at nw WF DP t i j a b CH CN Pa Pb Hij).
  unfold all_depots, ref_sub_path.
  assert (Ha : node_is_depot nw a = false).
  { pose proof (TV_nondepots nw t V) as ND. rewrite forallb_forall in ND. specialize (ND a Hs).
    now apply negb_true_iff in ND. }
  destruct (forallb (nid_is_depot nw) (firstn (j + 1 - i) (skipn i (t_nodes t)))) eqn:F; [|reflexivity].
  rewrite forallb_forall in F.
  assert (In a (firstn (j + 1 - i) (skipn i (t_nodes t)))).
  { apply (in_slice_nth (t_nodes t) i (j + 1 - i) i); auto; lia. }
  specialize (F a H). unfold nid_is_depot in F. unfold node_is_depot in Ha. congruence.
Qed.

Lemma crtc_nc s p r seg t :
  TV nw t -> tour_of s p = Ok t -> seg_ok t seg ->
  no_crash (check_receiver_type_compatibility nw s p r seg).
Proof.
  intros V Ht SO. unfold check_receiver_type_compatibility.
  destruct (vehicle_type_of s r) as [tr| | |]; try apply nc_ok.
  match goal with |- no_crash (if ?c then _ else _) => destruct c end; [|apply nc_ok].
  rewrite Ht. cbn [bind].
  destruct (seg_ok_sub_path t seg V SO) as [sp ->]. cbn [bind]. apply nc_ok.
Qed.
End Seg.
End NPB_seg.

Module NPB_utours.
Import Sorted.
Import Base BaseFacts Network NetSpec NetFacts Tour TourSpec TourStmts TourFacts TourValidFacts TourExactStmts TourExactFacts Transition TransSpec Schedule SchedInv SchedObs SchedStruct SchedCostsFacts SchedUnservedFacts SchedViolFacts SchedListFacts SchedToursFacts SchedFormLimFacts SchedUsageFacts SchedFormsFacts SchedTransFacts SchedExactFacts Swaps SwapsStmts SwapsFacts SwapsStmts2 SwapsFacts2 PipelineSched RenderStmts NoPanicStmts NPB_defs NPB_base NPB_sched NPB_tour.
(* NPB_utours.v — totality (no Panic / OutOfFuel; Err allowed) of [update_tours] (Schedule.v), the common tail of
   override_reassign and fit_reassign, on a schedule satisfying the proved invariants. *)


Local Open Scope Z_scope.

(** * sums of nonnegative tour costs *)
Definition nonneg (l : list (vehicle_id * tour)) : Prop := forall v t, vget v l = Some t -> 0 <= t_costs t.

Lemma nonneg_tail k y l : ~ In k (map fst l) -> nonneg ((k, y) :: l) -> nonneg l.
Proof.
  intros NI H v t G. apply (H v t). rewrite vget_cons. destruct (vid_eqb v k) eqn:E; [|exact G].
  apply vid_eqb_eq in E. subst v. exfalso. apply NI. eapply vget_in_keys; eauto.
Qed.

Lemma nonneg_head k y l : nonneg ((k, y) :: l) -> 0 <= t_costs y.
Proof. intros H. apply (H k y). rewrite vget_cons, vid_eqb_refl. reflexivity. Qed.

Lemma tsum_nonneg l : NoDup (map fst l) -> nonneg l -> 0 <= tsum l.
Proof.
  induction l as [|[k y] l IH]; cbn [map fst]; intros N H.
  - unfold tsum, z_sum. cbn. lia.
  - inversion N; subst. rewrite tsum_cons. pose proof (nonneg_head _ _ _ H).
    assert (0 <= tsum l) by (apply IH; [assumption | eapply nonneg_tail; eauto]). lia.
Qed.

Lemma tsum_ge l : NoDup (map fst l) -> nonneg l -> forall v o, vget v l = Some o -> t_costs o <= tsum l.
Proof.
  induction l as [|[k y] l IH]; cbn [map fst]; intros N H v o G; [discriminate G|].
  inversion N; subst. rewrite tsum_cons. pose proof (nonneg_head _ _ _ H) as Hy.
  pose proof (nonneg_tail _ _ _ H2 H) as Hl.
  rewrite vget_cons in G. destruct (vid_eqb v k).
  - inversion G; subst o. pose proof (tsum_nonneg l H3 Hl). lia.
  - pose proof (IH H3 Hl v o G). lia.
Qed.

Lemma nonneg_vset l v nt : nonneg l -> 0 <= t_costs nt -> nonneg (vset v nt l).
Proof.
  intros H N k t G. rewrite vget_vset in G. destruct (vid_eqb k v); [inversion G; subst; exact N | eapply H; eauto].
Qed.

Lemma nonneg_vdel l v : nonneg l -> nonneg (vdel v l).
Proof. intros H k t G. rewrite vget_vdel in G. destruct (vid_eqb k v); [discriminate G | eapply H; eauto]. Qed.

Lemma iter_zget ids ty v : In v (SchedListFacts.iter ids ty) -> exists l, zget ty ids = Some l /\ In v l.
Proof. unfold SchedListFacts.iter. destruct (zget ty ids) as [l|]; [eauto | intros []]. Qed.

Section UT.
Variable nw : network.
Hypothesis WF : net_wf_b nw = true.
Hypothesis U : unsigned_ok nw.

Definition ends_ok (t : tour) : Prop :=
  is_start_depot (nd nw (first_node t)) = true /\ is_end_depot (nd nw (last_node t)) = true.

Lemma Kst_nonneg : 0 <= Kst nw.
Proof. unfold Kst. apply uo_staff. exact U. Qed.

Lemma nonneg_s s : EIs nw s -> nonneg (s_tours s).
Proof. intros [ER _] v t G. apply (exact_costs_nonneg nw WF U). eapply ER; eauto. Qed.

(* a stored tour costs at most the cached total *)
Lemma TC_ge tours costs v o : TC (Kst nw) tours costs -> nonneg tours -> vget v tours = Some o -> t_costs o <= costs.
Proof.
  intros [N C] H G. pose proof (tsum_ge tours N H v o G). pose proof Kst_nonneg. lia.
Qed.

(** * facts about a real vehicle of [s] *)
Lemma veh_facts s v : SchedCostsFacts.Inv nw s -> LInv nw true s -> TIs nw s -> is_vehicle s v = true ->
  exists ty t, vget v (s_vehicles s) = Some ty /\ tour_of s v = Ok t /\ vget v (s_tours s) = Some t /\
               ends_ok t /\ is_dummy s v = false.
Proof.
  intros I [V D] [TR TD] Hv. unfold is_vehicle in Hv.
  destruct (vget v (s_vehicles s)) as [ty|] eqn:G; [|discriminate Hv].
  destruct (vget v (s_tours s)) as [t|] eqn:Gt.
  2:{ apply (v_same _ _ _ _ V) in Gt. congruence. }
  destruct (TR v t Gt) as (ty' & G' & (Dm & R & _)).
  exists ty, t. split; [reflexivity|]. split; [unfold tour_of; rewrite Gt; reflexivity|]. split; [reflexivity|].
  split; [split; [apply RV_first | apply RV_last]; exact R|].
  unfold is_dummy. destruct (vget v (s_dummies s)) eqn:Gd; [|reflexivity].
  apply (inv_dummy nw s I) in Gd. apply (inv_real nw s I) in G. congruence.
Qed.

Lemma dummy_not_vehicle s v : SchedCostsFacts.Inv nw s -> is_dummy s v = true -> is_vehicle s v = false.
Proof.
  intros I Hd. destruct (is_vehicle s v) eqn:Ev; [|reflexivity].
  apply (is_vehicle_real s v (inv_real nw s I)) in Ev. apply (is_dummy_not_real s v (inv_dummy nw s I)) in Hd. congruence.
Qed.

Lemma vehicle_get s v ty : vget v (s_vehicles s) = Some ty -> is_vehicle s v = true.
Proof. unfold is_vehicle. intros ->. reflexivity. Qed.

(** * update_tour_and_costs is total *)
Lemma utc_total s tours dummies costs v nt old :
  TC (Kst nw) tours costs -> nonneg tours -> 0 <= t_costs nt ->
  (is_dummy s v = false -> vget v tours = Some old) ->
  exists T' D' c', update_tour_and_costs s tours dummies costs v nt = Ok (T', D', c') /\
    T' = (if is_dummy s v then tours else vset v nt tours) /\ TC (Kst nw) T' c' /\ nonneg T'.
Proof.
  intros T N Hn Ho. unfold update_tour_and_costs. destruct (is_dummy s v) eqn:Ed.
  - eexists _, _, _. split; [reflexivity|]. auto.
  - rewrite (Ho eq_refl). cbn [unwrap_opt bind].
    destruct (NPB_tour.z_sub_cost_ok (costs + t_costs nt) (t_costs old)) as [c Hc].
    { pose proof (TC_ge tours costs v old T N (Ho eq_refl)). lia. }
    rewrite Hc. cbn [bind]. eexists _, _, _. split; [reflexivity|]. split; [reflexivity|].
    split; [eapply TC_old; eauto | now apply nonneg_vset].
Qed.

(** * the first block of update_tours: the provider's tour is replaced or the provider is removed *)
Definition phase1 (s : schedule) (vehicles : list (vehicle_id * Z)) (tours dummies : list (vehicle_id * tour))
  (ids : list (Z * list vehicle_id)) (dids : list vehicle_id) (costs : Z) (p : vehicle_id) (ntp : option tour) :=
  match ntp with
  | Some nt =>
      do (t2, d2, c2) <- update_tour_and_costs s tours dummies costs p nt;
      Ok (vehicles, t2, d2, ids, dids, c2)
  | None =>
      do c2 <- (if is_vehicle s p then
                  do t <- (match tour_of s p with Ok t => Ok t | _ => Panic end); z_sub_cost costs (t_costs t)
                else Ok costs);
      if is_dummy s p then
        do dd <- sorted_remove p dids;
        Ok (vehicles, tours, vdel p dummies, ids, dd, c2)
      else if is_vehicle s p then
        do ty <- (match vehicle_type_of s p with Ok ty => Ok ty | _ => Panic end);
        do ids' <- ids_remove ty p ids;
        Ok (vdel p vehicles, vdel p tours, dummies, ids', dids, c2)
      else Ok (vehicles, tours, dummies, ids, dids, c2)
  end.

Definition P1 (s : schedule) (p : vehicle_id) (V1 : list (vehicle_id * Z)) (T1 : list (vehicle_id * tour)) (c1 : Z)
  : Prop :=
  same_but p (s_vehicles s) V1 (s_tours s) T1 /\
  (forall k ty, vget k V1 = Some ty -> vget k (s_vehicles s) = Some ty) /\
  TC (Kst nw) T1 c1 /\ nonneg T1 /\
  (forall ty t, vget p V1 = Some ty -> vget p T1 = Some t -> ends_ok t).

Lemma same_but_refl v (V : list (vehicle_id * Z)) (T : list (vehicle_id * tour)) : same_but v V V T T.
Proof. intros k _. auto. Qed.

Lemma phase1_some s p nt tp :
  SchedCostsFacts.Inv nw s -> EIs nw s -> tour_of s p = Ok tp ->
  0 <= t_costs nt -> (is_dummy s p = false -> ends_ok nt) ->
  exists V1 T1 D1 i1 di1 c1,
    phase1 s (s_vehicles s) (s_tours s) (s_dummies s) (s_ids s) (s_dummy_ids s) (s_costs s) p (Some nt)
      = Ok (V1, T1, D1, i1, di1, c1) /\ P1 s p V1 T1 c1.
Proof.
  intros I E Hp N1 N2. pose proof (nonneg_s s E) as NN. pose proof (inv_tc nw s I) as TCs.
  destruct (utc_total s (s_tours s) (s_dummies s) (s_costs s) p nt tp TCs NN N1) as (T' & D' & c' & Eq & HT & TC' & NN').
  { intros Dp. destruct (tour_of_cases nw s p tp I Hp) as [[_ G]|[Q _]]; [exact G | congruence]. }
  unfold phase1. rewrite Eq. cbn [bind]. eexists _, _, _, _, _, _. split; [reflexivity|].
  unfold P1. split; [|split; [|split; [|split]]]; auto.
  - intros k Nk. split; [reflexivity|]. eapply utc_same; eauto.
  - intros ty t Gv Gt. destruct (is_dummy s p) eqn:Dp.
    + apply vehicle_get in Gv. rewrite (dummy_not_vehicle s p I Dp) in Gv. discriminate Gv.
    + subst T'. rewrite vget_vset, vid_eqb_refl in Gt. inversion Gt; subst t. auto.
Qed.

Lemma phase1_none s p tp :
  SchedCostsFacts.Inv nw s -> LInv nw true s -> TIs nw s -> EIs nw s -> tour_of s p = Ok tp ->
  exists V1 T1 D1 i1 di1 c1,
    phase1 s (s_vehicles s) (s_tours s) (s_dummies s) (s_ids s) (s_dummy_ids s) (s_costs s) p None
      = Ok (V1, T1, D1, i1, di1, c1) /\ P1 s p V1 T1 c1.
Proof.
  intros I L T E Hp. pose proof (nonneg_s s E) as NN. pose proof (inv_tc nw s I) as TCs.
  unfold phase1. destruct (is_dummy s p) eqn:Dp.
  - (* a dummy provider is deleted *)
    rewrite (dummy_not_vehicle s p I Dp). cbn [bind].
    destruct L as [_ D]. assert (M : memv p (s_dummy_ids s) = true).
    { apply memv_in. apply (d_sup _ _ _ _ D eq_refl). now apply is_dummy_get. }
    unfold sorted_remove. rewrite M. cbn [bind]. eexists _, _, _, _, _, _. split; [reflexivity|].
    unfold P1. split; [apply same_but_refl|]. split; [auto|]. split; [exact TCs|]. split; [exact NN|].
    intros ty t Gv _. apply vehicle_get in Gv. rewrite (dummy_not_vehicle s p I Dp) in Gv. discriminate Gv.
  - destruct (is_vehicle s p) eqn:Ev.
    + (* a real provider is removed *)
      destruct (veh_facts s p I L T Ev) as (ty & t & Gv & Ht & Gt & _ & _).
      rewrite Ht. cbn [bind].
      destruct (NPB_tour.z_sub_cost_ok (s_costs s) (t_costs t)) as [c Hc].
      { eapply TC_ge; eauto. }
      rewrite Hc. cbn [bind]. unfold vehicle_type_of. rewrite Gv. cbn [ok_or_err bind].
      destruct L as [V _]. destruct (iter_zget (s_ids s) ty p) as (l & Gl & Il).
      { apply (v_ids _ _ _ _ V). exact Gv. }
      unfold ids_remove. rewrite Gl. cbn [unwrap_opt bind]. unfold sorted_remove.
      apply memv_in in Il. rewrite Il. cbn [bind]. eexists _, _, _, _, _, _. split; [reflexivity|].
      unfold P1. split; [|split; [|split; [|split]]].
      * intros k Nk. apply vid_eqb_neq in Nk. rewrite !vget_vdel, Nk. auto.
      * intros k ty'. rewrite vget_vdel. destruct (vid_eqb k p); [discriminate | auto].
      * eapply TC_del; eauto.
      * now apply nonneg_vdel.
      * intros ty' t'. rewrite vget_vdel, vid_eqb_refl. discriminate.
    + cbn [bind]. eexists _, _, _, _, _, _. split; [reflexivity|].
      unfold P1. split; [apply same_but_refl|]. split; [auto|]. split; [exact TCs|]. split; [exact NN|].
      intros ty t Gv _. apply vehicle_get in Gv. congruence.
Qed.

Lemma phase1_ok s p ntp tp :
  SchedCostsFacts.Inv nw s -> LInv nw true s -> TIs nw s -> EIs nw s -> tour_of s p = Ok tp ->
  (forall nt, ntp = Some nt -> 0 <= t_costs nt /\ (is_dummy s p = false -> ends_ok nt)) ->
  exists V1 T1 D1 i1 di1 c1,
    phase1 s (s_vehicles s) (s_tours s) (s_dummies s) (s_ids s) (s_dummy_ids s) (s_costs s) p ntp
      = Ok (V1, T1, D1, i1, di1, c1) /\ P1 s p V1 T1 c1.
Proof.
  intros I L T E Hp Hn. destruct ntp as [nt|].
  - destruct (Hn nt eq_refl). eapply phase1_some; eauto.
  - eapply phase1_none; eauto.
Qed.

(** * update_tours never crashes *)
Theorem update_tours_nc : forall s p ntp r ntr moved tp trc,
  SchedCostsFacts.Inv nw s -> LInv nw true s -> TIs nw s -> EIs nw s -> US nw s ->
  p <> r -> tour_of s p = Ok tp -> tour_of s r = Ok trc ->
  (forall nt, ntp = Some nt -> 0 <= t_costs nt /\ (is_dummy s p = false -> ends_ok nt)) ->
  0 <= t_costs ntr -> (is_dummy s r = false -> ends_ok ntr) ->
  has_forms nw (s_forms s) moved ->
  no_crash (update_tours nw s (s_vehicles s) (s_tours s) (s_forms s) (s_usage s) (s_dummies s) (s_ids s)
              (s_dummy_ids s) (s_unserved s) (s_costs s) p ntp r ntr moved).
Proof.
  intros s p ntp r ntr moved tp trc I L T E Us Npr Hp Hr Hn Nr Er HF.
  destruct (phase1_ok s p ntp tp I L T E Hp Hn) as (V1 & T1 & D1 & i1 & di1 & c1 & E1 & (SB & Sub & TC1 & NN1 & En1)).
  unfold phase1 in E1. unfold update_tours. rewrite E1. cbn [bind]. clear E1.
  (* usage of the provider *)
  destruct (udu_nc nw s (s_usage s) (s_vehicles s) (s_tours s) V1 T1 p Us) as [U1 EU1].
  { intros Ev. destruct (veh_facts s p I L T Ev) as (ty & t & Gv & Ht & Gt & [A B] & _). exists ty, t. tauto. }
  { intros ty ty' G1 G0. apply Sub in G1. congruence. }
  { intros ty G1 t Gt. exact (En1 ty t G1 Gt). }
  rewrite EU1. cbn [bind].
  assert (UX1 : UX nw V1 T1 [] U1).
  { eapply udu_ok; [exact Us | | exact SB | exact EU1]. auto. }
  (* the receiver's tour *)
  assert (Npr' : r <> p) by congruence.
  destruct (SB r Npr') as [SBv SBt].
  destruct (utc_total s T1 D1 c1 r ntr trc TC1 NN1 Nr) as (T2 & D2 & c2 & E2 & HT2 & _ & _).
  { intros Dr. rewrite SBt. destruct (tour_of_cases nw s r trc I Hr) as [[_ G]|[Q _]]; [exact G | congruence]. }
  rewrite E2. cbn [bind].
  (* usage of the receiver *)
  destruct (udu_nc nw s U1 V1 T1 V1 T2 r UX1) as [U2 EU2].
  { intros Ev. destruct (veh_facts s r I L T Ev) as (ty & t & Gv & Ht & Gt & [A B] & _). exists ty, t.
    rewrite SBv, SBt. tauto. }
  { intros ty ty' G1 G0. apply Sub in G1. congruence. }
  { intros ty G1 t Gt. apply Sub in G1. apply vehicle_get in G1.
    destruct (veh_facts s r I L T G1) as (_ & _ & _ & _ & _ & _ & Dr).
    rewrite Dr in HT2. subst T2. rewrite vget_vset, vid_eqb_refl in Gt. inversion Gt; subst t. exact (Er Dr). }
  rewrite EU2. cbn [bind].
  (* the start depot handed to the receiver has room (Err allowed) *)
  apply nc_bind.
  { destruct (vget r (s_vehicles s)) as [rty|] eqn:Gr; [|apply nc_ok].
    pose proof (vehicle_get s r rty Gr) as Evr.
    destruct (veh_facts s r I L T Evr) as (ty & ot & Gv & Ht & Gt & [A B] & Dr).
    rewrite Dr in HT2. subst T2. rewrite vget_vset, vid_eqb_refl. cbn [unwrap_opt bind].
    destruct (Er Dr) as [A' B']. unfold start_depot. rewrite A'. cbn [bind].
    rewrite Gt. cbn [unwrap_opt bind]. rewrite A. cbn [bind].
    destruct (negb _); [|apply nc_ok].
    match goal with |- no_crash (if ?c then _ else _) => destruct c end; [apply nc_err | apply nc_ok]. }
  intros _ _.
  (* the formations *)
  apply nc_bind; [apply utf_nc; exact HF|]. intros [f2 u2] _. apply nc_ok.
Qed.
End UT.

Print Assumptions update_tours_nc.
End NPB_utours.

Module NPB_spawn.
Import Sorted.
Import Base BaseFacts Network NetSpec NetFacts Tour TourSpec TourStmts TourFacts TourValidFacts TourExactStmts TourExactFacts Transition TransSpec Schedule SchedInv SchedObs SchedStruct SchedCostsFacts SchedUnservedFacts SchedViolFacts SchedListFacts SchedToursFacts SchedFormLimFacts SchedUsageFacts SchedFormsFacts SchedTransFacts SchedExactFacts Swaps SwapsStmts SwapsFacts SwapsStmts2 SwapsFacts2 PipelineSched RenderStmts NoPanicStmts NPB_defs NPB_base NPB_sched NPB_tour NPB_trans.
(* NPB_spawn.v — totality (no Panic / OutOfFuel; Err allowed) of spawn_vehicle_for_path, delete_dummy and
   spawn_to_replace_dummy (Schedule.v) on schedules satisfying the proved invariants (part of NoPanicFactsB). *)


Local Open Scope Z_scope.

(** * association lists: a key has an entry *)
Lemma nget_of_key {A} n (l : list (node_id * A)) : In n (map fst l) -> nget n l <> None.
Proof.
  unfold nget. induction l as [|[k x] l IH]; cbn [map fst In assoc]; [tauto|].
  intros [->|H].
  - rewrite nid_eqb_refl. discriminate.
  - destruct (nid_eqb n k); [discriminate | auto].
Qed.

Lemma zget_of_key {A} k (l : list (Z * A)) : In k (map fst l) -> exists x, zget k l = Some x.
Proof.
  unfold zget. induction l as [|[k' x] l IH]; cbn [map fst In assoc]; [tauto|].
  intros [->|H].
  - rewrite Z.eqb_refl. eauto.
  - destruct (k =? k'); [eauto | auto].
Qed.

Lemma ids_insert_total ty v (ids : list (Z * list vehicle_id)) :
  In ty (map fst ids) -> exists ids', ids_insert ty v ids = Ok ids'.
Proof.
  intros H. destruct (zget_of_key _ _ H) as [l E]. unfold ids_insert. rewrite E. cbn [unwrap_opt bind]. eauto.
Qed.

Section Spawn.
Variable nw : network.

(* every activity node of the network is coverable (true of every loaded network) *)
Definition cov_all : Prop := forall n, is_depot (nd nw n) = false -> In n (coverable_nodes nw).

(** * add_suitable_depots *)
Lemma asd_nc s ty path :
  path <> [] -> no_crash (add_suitable_depots nw s ty path).
Proof.
  intros NE. unfold add_suitable_depots. destruct path as [|first rest]; [congruence|].
  destruct (nw_overflow nw) as [[o1 os] oe].
  destruct (is_depot (nd nw first)) eqn:Ed; cbn [andb].
  - destruct (negb (can_depot_spawn nw (s_usage s) first ty)); [apply nc_ok|].
    cbn [bind]. destruct (is_depot (nd nw (last (first :: rest) first))); [apply nc_ok|].
    unfold find_best_end_depot.
    destruct (hd_error (end_depots_sorted_by_distance_from _ _)); cbn [ok_or_err bind]; [apply nc_ok | apply nc_err].
  - unfold find_best_start_depot_res. destruct (find _ _); cbn [ok_or_err bind]; [|apply nc_err].
    destruct (is_depot (nd nw (last (first :: rest) first))); [apply nc_ok|].
    unfold find_best_end_depot.
    destruct (hd_error (end_depots_sorted_by_distance_from _ _)); cbn [ok_or_err bind]; [apply nc_ok | apply nc_err].
Qed.

Lemma asd_nonempty s ty path nodes : add_suitable_depots nw s ty path = Ok nodes -> nodes <> [].
Proof.
  unfold add_suitable_depots. destruct path as [|first rest]; [discriminate|].
  destruct (nw_overflow nw) as [[o1 os] oe].
  destruct (is_depot (nd nw first) && negb _).
  - intros H. injection H as <-.
    destruct (is_depot _); intros Q; first [discriminate Q | apply app_eq_nil in Q; destruct Q; discriminate].
  - intros H. mon H.
    assert (Na : a <> []).
    { destruct (is_depot (nd nw first)).
      - injection E as <-. discriminate.
      - mon E. injection E as <-. discriminate. }
    destruct (is_depot (nd nw (last (first :: rest) first))).
    + injection H as <-. exact Na.
    + mon H. injection H as <-. intros Q. apply app_eq_nil in Q. destruct Q; discriminate.
Qed.

(** * tour_new *)
Lemma tour_new_nc l : l <> [] -> no_crash (tour_new nw l).
Proof.
  intros NE. unfold tour_new. destruct l as [|f r]; [congruence|].
  destruct (valid_tour_nodes nw (f :: r)); [apply nc_ok | apply nc_err].
Qed.

Lemma tour_new_ends l t : tour_new nw l = Ok t ->
  is_start_depot (nd nw (first_node t)) = true /\ is_end_depot (nd nw (last_node t)) = true.
Proof.
  intros H. unfold tour_new in H. destruct l as [|f r] eqn:EN; [discriminate|]. rewrite <- EN in *.
  destruct (valid_tour_nodes nw l) eqn:V; [|discriminate]. inversion H; subst t; clear H.
  apply valid_tour_nodes_RV in V.
  split; [apply RV_first | apply RV_last]; cbn [new_computing t_nodes]; exact V.
Qed.

(** * formations: every activity node has an entry *)
Lemma forms_total s l : cov_all -> FormsOK nw s -> has_forms nw (s_forms s) l.
Proof.
  intros CA F n _ Hd. apply nget_of_key. apply (fo_keys nw s F). apply CA. exact Hd.
Qed.

(** * spawn_vehicle_for_path *)
Theorem spawn_nc : forall s ty path,
  cov_all -> SchedCostsFacts.Inv nw s -> LInv nw true s -> TransOK nw s -> US nw s -> FormsOK nw s ->
  In ty (type_ids nw) -> path <> [] ->
  no_crash (spawn_vehicle_for_path nw s ty path).
Proof.
  intros s ty path CA I [V D] T U F Hty NE. unfold spawn_vehicle_for_path.
  destruct (negb _); [apply nc_err|].
  pose proof (fresh_vehicle nw s I V) as Fr.
  apply nc_bind; [apply asd_nc; auto|]. intros nodes En.
  apply nc_bind; [apply tour_new_nc; eapply asd_nonempty; eauto|]. intros t Et.
  apply nc_bind.
  { apply nc_of_ok. apply ids_insert_total. rewrite (v_keys _ _ _ _ V). exact Hty. }
  intros ids Ei.
  apply nc_bind; [apply utf_nc; apply forms_total; auto|]. intros [forms uns] Ef.
  apply nc_bind.
  { apply nc_of_ok. eapply (udu_nc nw s (s_usage s) (s_vehicles s) (s_tours s)).
    - exact U.
    - unfold is_vehicle. rewrite Fr. discriminate.
    - intros a b _ G. rewrite Fr in G. discriminate.
    - intros a _ t0 G. rewrite vget_vset, vid_eqb_refl in G. inversion G; subst t0.
      eapply tour_new_ends; eauto. }
  intros usage Eu.
  apply nc_bind.
  { apply nc_of_ok.
    apply (update_transitions_ok nw s _ _ ids); auto.
    - eapply V_spawn; eauto.
    - now apply stab_vset_new.
    - apply nodup_filter_one.
    - intros x Hx _. left. cbn [In] in Hx. destruct Hx as [<-|[]].
      rewrite vget_vset, vid_eqb_refl. discriminate. }
  intros [trans viol] Etr. apply nc_ok.
Qed.

(* since the repair "a spawn without any free depot is refused instead of panicking": no room => Err *)
Theorem spawn_err_without_room : forall s ty f rest,
  forallb (fun n => compatible_with_vehicle_type nw n ty) (f :: rest) = true ->
  is_depot (nd nw f) = false ->
  find_best_start_depot_res nw (s_usage s) ty f = Err ->
  spawn_vehicle_for_path nw s ty (f :: rest) = Err.
Proof.
  intros s ty f rest C Hd P. unfold spawn_vehicle_for_path. rewrite C. cbn [negb].
  unfold add_suitable_depots. destruct (nw_overflow nw) as [[o1 os] oe].
  rewrite Hd. cbn [andb]. rewrite P. reflexivity.
Qed.

(** * delete_dummy *)
Theorem delete_dummy_nc : forall s d, LInv nw true s -> no_crash (delete_dummy s d).
Proof.
  intros s d [V D]. unfold delete_dummy. destruct (is_dummy s d) eqn:Ed; cbn [negb]; [|apply nc_err].
  apply is_dummy_get in Ed. apply (d_sup _ _ _ _ D eq_refl) in Ed. apply memv_in in Ed.
  unfold sorted_remove. rewrite Ed. cbn [bind]. apply nc_ok.
Qed.

(** * spawn_to_replace_dummy *)
Lemma delete_dummy_forms s d s' : FormsOK nw s -> delete_dummy s d = Ok s' -> FormsOK nw s'.
Proof.
  intros F H. unfold delete_dummy in H. destruct (negb _) in H; [discriminate|].
  mon H. inversion H; subst; clear H. destruct F as [F1 F2 F3 F4]. constructor; auto.
Qed.

Lemma delete_dummy_usage s d s' : delete_dummy s d = Ok s' -> s_usage s' = s_usage s.
Proof.
  intros H. unfold delete_dummy in H. destruct (negb _) in H; [discriminate|].
  mon H. inversion H; subst; clear H. reflexivity.
Qed.

Theorem spawn_to_replace_dummy_nc : forall s d ty,
  cov_all -> SchedCostsFacts.Inv nw s -> LInv nw true s -> TransOK nw s -> US nw s -> FormsOK nw s -> TIs nw s ->
  In ty (type_ids nw) ->
  no_crash (spawn_to_replace_dummy nw s d ty).
Proof.
  intros s d ty CA I L T U F TI Hty. unfold spawn_to_replace_dummy, spawn_vehicle_to_replace_dummy_tour.
  destruct (vget d (s_dummies s)) as [t|] eqn:Gd; [|apply nc_err].
  destruct (negb _); [apply nc_err|]. cbn [bind].
  apply nc_bind; [now apply delete_dummy_nc|]. intros s1 E1.
  apply spawn_nc; auto.
  - eapply delete_dummy_ok; eauto.
  - eapply delete_dummy_L; eauto.
  - eapply SchedTransFacts.delete_dummy_T; eauto.
  - eapply delete_dummy_us; eauto.
  - eapply delete_dummy_forms; eauto.
  - destruct TI as [_ TD]. destruct (TD d t Gd) as (_ & NEt & _). exact NEt.
Qed.
End Spawn.

Print Assumptions spawn_nc.
Print Assumptions spawn_err_without_room.
Print Assumptions delete_dummy_nc.
Print Assumptions spawn_to_replace_dummy_nc.
End NPB_spawn.

Module NPB_fit.
Import Sorted.
Import Base BaseFacts Network NetSpec NetFacts Tour TourSpec TourStmts TourFacts TourValidFacts TourExactStmts TourExactFacts Transition TransSpec Schedule SchedInv SchedObs SchedStruct SchedCostsFacts SchedUnservedFacts SchedViolFacts SchedListFacts SchedToursFacts SchedFormLimFacts SchedUsageFacts SchedFormsFacts SchedTransFacts SchedExactFacts Swaps SwapsStmts SwapsFacts SwapsStmts2 SwapsFacts2 PipelineSched RenderStmts NoPanicStmts NPB_defs NPB_base NPB_sched NPB_tour.
Import Arith.
(* NPB_fit.v — the loop of fit_path_into_tour ([fit_loop], Schedule.v) never crashes on valid exact tours, provided the
   remaining path is a contiguous block of the provider's node list that still contains a non-depot, and the fuel
   exceeds its length (part of NoPanicFactsB).
   Sites: OutOfFuel (the remainder gets strictly shorter), [path = []] (the remainder contains a non-depot),
   [unwrap_opt ntp] (if [remove] uses the provider up, everything that is left of it are depots, so the remainder is
   [None]), [latest_not_reaching_node], [Tour.remove], [conflict], [insert_path] (NPB_tour.v). *)



Local Open Scope nat_scope.

(** * list helpers *)
Lemma fit_in_skipn_nth {A} (l : list A) k x : In x (skipn k l) -> exists i, k <= i /\ nth_error l i = Some x.
Proof.
  intros H. apply In_nth_error in H. destruct H as [i H]. rewrite nth_error_skipn' in H.
  exists (k + i). split; [lia|exact H].
Qed.

Lemma fit_block_of_app {A} (X P Y : list A) : firstn (length P) (skipn (length X) (X ++ P ++ Y)) = P.
Proof.
  rewrite skipn_app, Nat.sub_diag, skipn_all. cbn [skipn app].
  rewrite firstn_app, Nat.sub_diag, firstn_all. cbn [firstn]. apply app_nil_r.
Qed.

Section Fit.
Variable nw : network.
Hypothesis WF : net_wf_b nw = true.
Hypothesis DP : durations_pos_b nw = true.
Hypothesis DF : dists_finite_b nw = true.
Hypothesis DH : dh_dists_finite_b nw = true.
Hypothesis U : unsigned_ok nw.
Notation d0 := (SD 0).
Notation dep := (node_is_depot nw).
Notation ex := (tour_exact nw).

(** * a provider that is used up by [remove] consisted, outside the removed range, of depots only *)
Lemma remove_none_depots t a b rp : TV nw t -> Tour.remove nw t (a, b) = Ok (None, rp) ->
  exists i j, pos_of (t_nodes t) a = Some i /\ pos_of (t_nodes t) b = Some j /\ i <= j /\ j < length (t_nodes t) /\
    forall k x, nth_error (t_nodes t) k = Some x -> k < i \/ j < k -> dep x = true.
Proof.
  intros V H. unfold Tour.remove in H.
  destruct (remove_nodes nw t (a, b)) as [[[[sp ep] tn] rm]| | |] eqn:RN; cbn [bind] in H; try discriminate H.
  mon H. mon H. mon H. mon H.
  destruct (path_new_trusted nw rm) as [rp'|] eqn:PT; [|discriminate H].
  pose proof (TV_nonempty _ _ V) as NE.
  apply (remove_nodes_facts nw t a b sp ep tn rm (TV_len3 nw t V) NE) in RN.
  destruct RN as (P1 & P2 & RR & -> & ->). set (l := t_nodes t) in *.
  apply ref_removable_facts in RR. destruct RR as (Lij & _ & RD).
  pose proof (index_of_lt _ _ _ P1) as Li. pose proof (index_of_lt _ _ _ P2) as Lj.
  exists sp, ep. do 4 (split; [assumption|]).
  destruct (Nat.eqb (length (firstn sp l ++ skipn (ep + 1) l)) 0 ||
            negb (t_dummy t) && Nat.leb (length (firstn sp l ++ skipn (ep + 1) l)) 2) eqn:K;
    [|discriminate H].
  rewrite app_length, firstn_length, skipn_length in K.
  intros k x Hk Hr.
  assert (Lk : k < length l) by (apply nth_error_Some; congruence).
  apply orb_true_iff in K. destruct K as [K|K].
  - apply Nat.eqb_eq in K. exfalso. lia.
  - apply andb_true_iff in K. destruct K as [Dm K]. apply negb_true_iff in Dm. apply Nat.leb_le in K.
    destruct (RD Dm) as [R1 R2].
    unfold TV in V. rewrite Dm in V. destruct V as (_ & _ & Hs & He & _). change (t_nodes t) with l in Hs, He.
    assert (Q : k = 0 \/ k = length l - 1) by lia.
    change (dep x) with (sdep nw x || edep nw x).
    destruct Q as [->| ->].
    + rewrite (nth_error_hd l d0 NE) in Hk. inversion Hk; subst x. rewrite Hs. reflexivity.
    + rewrite (nth_error_last l d0 NE) in Hk. inversion Hk; subst x. rewrite He. apply orb_true_r.
Qed.

(** * the loop *)
Lemma fit_loop_done f ntp ntr moved : no_crash (fit_loop nw f ntp ntr None moved).
Proof. destruct f; cbn [fit_loop]; apply nc_ok. Qed.

Lemma fit_loop_nc_k : forall fuel prov ntr path moved k,
  TV nw prov -> ex prov -> TV nw ntr -> ex ntr ->
  firstn (length path) (skipn k (t_nodes prov)) = path -> forallb dep path = false ->
  length path < fuel ->
  no_crash (fit_loop nw fuel (Some prov) ntr (Some path) moved).
Proof.
  induction fuel as [|f IH]; intros prov ntr rem moved k Va Xa Vr Xr BK ND LF; [lia|].
  cbn [fit_loop]. destruct rem as [|sstart rest0] eqn:ER; [cbn in ND; discriminate ND|]. rewrite <- ER in *.
  cbn [unwrap_opt bind].
  apply nc_bind; [apply latest_not_reaching_nc; exact (TV_nonempty _ _ Vr)|]. intros lnr Elnr.
  apply nc_bind; [destruct lnr; apply nc_ok|]. intros [n n0] E1. cbv beta match zeta.
  (* the chosen end node is the n-th node of the remainder *)
  assert (F1 : nth_error rem n = Some n0).
  { destruct lnr as [pos|].
    - injection E1 as E1.
      match type of E1 with last (filter ?ff ?L) ?d = _ =>
        destruct (last_filter_in ff L d) as [Q|Q]; rewrite E1 in Q end.
      + injection Q as Qa Qb. rewrite Qa, Qb, ER. reflexivity.
      + destruct (dt_ltb _ _) in Q; [destruct Q|].
        destruct Q as [Q|Q]; [injection Q as Qa Qb; rewrite <- Qa, <- Qb, ER; reflexivity|].
        match type of Q with In _ (?T rest0 _) =>
          assert (TK : forall l i e, In e (T l i) -> i <= fst e /\ nth_error l (fst e - i) = Some (snd e)) end.
        { clear. induction l as [|x l IHl]; intros i e He; [destruct He|].
          cbn in He. destruct (dt_ltb _ _) in He; [destruct He|].
          destruct He as [<-|He].
          - cbn [fst snd]. split; [lia|]. rewrite Nat.sub_diag. reflexivity.
          - destruct (IHl _ _ He) as [A B]. split; [lia|].
            replace (fst e - i) with (S (fst e - S i)) by lia. exact B. }
        apply TK in Q. cbn [fst snd] in Q. destruct Q as [A B]. rewrite ER.
        destruct n as [|n']; [lia|]. cbn [nth_error]. replace n' with (S n' - 1) by lia. exact B.
    - inversion E1; subst n n0. apply nth_error_last. rewrite ER. discriminate. }
  clear E1.
  assert (Ln : n < length rem) by (apply nth_error_Some; congruence).
  pose proof (block_tail (t_nodes prov) rem k n BK) as BT.
  (* continuing with an unchanged provider: the block moves right *)
  assert (CONT : forall ntr' moved', TV nw ntr' -> ex ntr' ->
            no_crash (fit_loop nw f (Some prov) ntr' (path_new_trusted nw (skipn (n + 1) rem)) moved')).
  { intros ntr' moved' V' X'. destruct (path_new_trusted nw (skipn (n + 1) rem)) as [rem0|] eqn:PT;
      [|apply fit_loop_done].
    apply path_new_trusted_some in PT. destruct PT as [-> FD].
    apply (IH prov ntr' _ moved' (k + (n + 1))); auto.
    rewrite skipn_length. lia. }
  pose proof (remove_nc nw WF U prov (sstart, n0) Va Xa) as NCR.
  destruct (Tour.remove nw prov (sstart, n0)) as [[cand_prov pfi]| | |] eqn:RM;
    [|apply CONT; assumption|destruct NCR; congruence|destruct NCR; congruence].
  destruct (remove_valid nw _ _ _ _ Va RM) as (i' & j' & P1 & P2 & Lij & Lj & EL & VPf & SH).
  cbn [fst snd] in P1, P2.
  pose proof (connected_nodup nw WF DP _ (TV_connected nw _ Va)) as NDa.
  assert (N0 : nth_error rem 0 = Some sstart) by (rewrite ER; reflexivity).
  pose proof (pos_nodup _ _ _ _ NDa P1 (block_nth _ _ _ _ _ BK N0)) as Ei. rewrite Nat.add_0_r in Ei.
  pose proof (pos_nodup _ _ _ _ NDa P2 (block_nth _ _ _ _ _ BK F1)) as Ej.
  assert (EP : pfi = firstn (n + 1) rem).
  { rewrite EL, Ei, Ej. replace (k + n + 1 - k) with (n + 1) by lia. apply block_head; [lia|exact BK]. }
  (* conflict *)
  assert (Hhd : hd_error pfi = Some sstart) by (rewrite EP, ER, Nat.add_1_r; reflexivity).
  assert (Hla : last pfi sstart = n0).
  { rewrite EP. rewrite last_firstn by lia. replace (n + 1 - 1) with n by lia. apply nth_error_nth. exact F1. }
  destruct (conflict_total nw WF DP ntr pfi Vr VPf sstart Hhd) as (cf & Ecf). rewrite Hla in Ecf.
  rewrite Ecf. cbn [bind].
  destruct cf as [cfp|]; [apply CONT; assumption|].
  (* insert_path *)
  destruct (insert_path_total nw WF DP U ntr pfi Vr Xr VPf) as ([nr o] & Eins). rewrite Eins. cbn [bind].
  destruct (insert_path_valid nw WF DP ntr pfi nr o Vr VPf Eins) as (_ & Vnr & _ & _).
  pose proof (insert_E nw WF DF ntr pfi nr o Xr Eins) as Xnr.
  destruct (path_new_trusted nw (skipn (n + 1) rem)) as [rem0|] eqn:PT; [|apply fit_loop_done].
  apply path_new_trusted_some in PT. destruct PT as [-> FD].
  destruct cand_prov as [prov'|].
  - destruct SH as (_ & V1 & EN).
    apply (IH prov' nr _ _ k); auto.
    + eapply (remove_E nw WF DF DH); [exact Va|exact Xa|exact RM].
    + rewrite EN, Ei, Ej. rewrite skipn_firstn_app by lia.
      replace (k + n + 1) with (k + (n + 1)) by lia. exact BT.
    + rewrite skipn_length. lia.
  - (* the provider is used up: what is left of it are depots, among them the whole remainder *)
    exfalso.
    destruct (remove_none_depots prov sstart n0 pfi Va RM) as (i2 & j2 & Q1 & Q2 & _ & _ & AD).
    rewrite P1 in Q1. rewrite P2 in Q2. inversion Q1; inversion Q2; subst i2 j2.
    assert (ALL : forallb dep (skipn (n + 1) rem) = true).
    { apply forallb_forall. intros x Hx. apply fit_in_skipn_nth in Hx. destruct Hx as (i & Li & Hi).
      apply (AD (k + i) x); [exact (block_nth _ _ _ _ _ BK Hi)|]. right. lia. }
    rewrite ALL in FD. discriminate FD.
Qed.

Theorem fit_loop_nc : forall fuel prov ntr path moved A B,
  TV nw prov -> tour_exact nw prov -> TV nw ntr -> tour_exact nw ntr ->
  t_nodes prov = A ++ path ++ B -> forallb (node_is_depot nw) path = false ->
  (length path < fuel)%nat ->
  no_crash (fit_loop nw fuel (Some prov) ntr (Some path) moved).
Proof.
  intros fuel prov ntr path moved A B Va Xa Vr Xr EN ND LF.
  apply (fit_loop_nc_k fuel prov ntr path moved (length A)); auto.
  rewrite EN. apply fit_block_of_app.
Qed.

Corollary fit_loop_sub_path_nc : forall tp trc seg path moved,
  TV nw tp -> tour_exact nw tp -> TV nw trc -> tour_exact nw trc -> sub_path nw tp seg = Ok path ->
  no_crash (fit_loop nw (S (length path)) (Some tp) trc (Some path) moved).
Proof.
  intros tp trc seg path moved Va Xa Vr Xr SP.
  destruct (sub_path_slice nw _ _ _ SP) as (i & j & _ & _ & EL & _ & _ & FD).
  apply (fit_loop_nc_k _ tp trc path moved i); auto.
  rewrite EL. apply firstn_length_self.
Qed.

End Fit.

Print Assumptions remove_none_depots.
Print Assumptions fit_loop_nc_k.
Print Assumptions fit_loop_nc.
Print Assumptions fit_loop_sub_path_nc.
End NPB_fit.

Module NPB_over.
Import Sorted.
Import Base BaseFacts Network NetSpec NetFacts Tour TourSpec TourStmts TourFacts TourValidFacts TourExactStmts TourExactFacts Transition TransSpec Schedule SchedInv SchedObs SchedStruct SchedCostsFacts SchedUnservedFacts SchedViolFacts SchedListFacts SchedToursFacts SchedFormLimFacts SchedUsageFacts SchedFormsFacts SchedTransFacts SchedExactFacts Swaps SwapsStmts SwapsFacts SwapsStmts2 SwapsFacts2 PipelineSched RenderStmts NoPanicStmts NPB_defs NPB_base NPB_sched NPB_tour NPB_trans NPB_seg NPB_utours NPB_spawn.
(* NPB_over.v — override_reassign never crashes on an enumerated segment *)


Local Open Scope Z_scope.

Section Over.
Variable nw : network.
Hypothesis WF : net_wf_b nw = true.
Hypothesis DP : durations_pos_b nw = true.
Hypothesis DF : dists_finite_b nw = true.
Hypothesis DH : dh_dists_finite_b nw = true.
Hypothesis U : unsigned_ok nw.
Hypothesis CA : cov_all nw.

Lemma nget_key_ne {A} n (l : list (node_id * A)) : In n (map fst l) -> nget n l <> None.
Proof.
  unfold nget. induction l as [|[k y] l IH]; cbn [map fst In assoc]; [tauto|].
  intros [->|H]; [rewrite nid_eqb_refl; discriminate|].
  destruct (nid_eqb n k); [discriminate | auto].
Qed.

Lemma has_forms_all s l : FormsOK nw s -> has_forms nw (s_forms s) l.
Proof.
  intros F n _ Hd. apply nget_key_ne. apply (fo_keys nw s F). apply CA. exact Hd.
Qed.

Lemma has_forms_kept s prov recv moved fm uns fm' uns' l :
  update_train_formation nw s fm uns prov recv moved = Ok (fm', uns') -> has_forms nw fm l -> has_forms nw fm' l.
Proof. intros H HF n Hn Hd. eapply utf_keeps; eauto. Qed.

Lemma TV_ends t : TV nw t -> t_dummy t = false -> ends_ok nw t.
Proof.
  intros V D. unfold TV in V. rewrite D in V. split; [now apply RV_first | now apply RV_last].
Qed.

Lemma real_not_dummy_tour s v t : SchedCostsFacts.Inv nw s -> TIs nw s -> tour_of s v = Ok t ->
  is_dummy s v = false -> t_dummy t = false.
Proof.
  intros I T H D. destruct (tour_of_T nw s v t I T H) as (_ & _ & F). destruct (F D) as (_ & ty & _ & R).
  destruct R as (Dm & _). exact Dm.
Qed.

Lemma has_tour_real_vehicle s v t : SchedCostsFacts.Inv nw s -> LInv nw true s -> tour_of s v = Ok t ->
  vid_is_real v = true -> vget v (s_vehicles s) <> None.
Proof.
  intros I [V _] H R. apply (tour_of_real s v t (inv_dummy nw s I) R) in H.
  intros Q. apply (v_same _ _ _ _ V) in Q. congruence.
Qed.

Theorem override_nc s seg p r tp trc :
  SchedCostsFacts.Inv nw s -> LInv nw true s -> TIs nw s -> EIs nw s -> US nw s -> TransOK nw s -> FormsOK nw s ->
  tour_of s p = Ok tp -> seg_ok nw tp seg -> tour_of s r = Ok trc ->
  no_crash (override_reassign nw s seg p r).
Proof.
  intros I L T E Us TR F Htp SO Htr.
  destruct (tour_of_T nw s p tp I T Htp) as (Vp & _ & _).
  destruct (tour_of_T nw s r trc I T Htr) as (Vr & _ & _).
  pose proof (tour_of_E nw s p tp E Htp) as Ep.
  pose proof (tour_of_E nw s r trc E Htr) as Er.
  unfold override_reassign. destruct (vid_eqb p r) eqn:Epr; [apply nc_err|]. apply vid_eqb_neq in Epr.
  apply nc_bind; [exact (crtc_nc nw WF DP s p r seg tp Vp Htp SO)|]. intros ok _. destruct (negb ok); [apply nc_err|].
  rewrite Htp, Htr. cbn [bind].
  apply nc_bind; [exact (remove_nc nw WF U tp seg Vp Ep)|]. intros [shr path] Erm.
  destruct (remove_valid nw tp seg shr path Vp Erm) as (i & j & _ & _ & _ & _ & _ & VP & SH).
  destruct (insert_path_total nw WF DP U trc path Vr Er VP) as [[ntr replaced] Eins]. rewrite Eins. cbn [bind].
  destruct (insert_path_valid nw WF DP trc path ntr replaced Vr VP Eins) as (Dm & Vn & _ & _).
  pose proof (insert_E nw WF DF trc path ntr replaced Er Eins) as En.
  apply nc_bind.
  { eapply (update_tours_nc nw WF U s p shr r ntr path tp trc); eauto.
    - intros nt ->. destruct SH as (D1 & V1 & _). split.
      + apply (exact_costs_nonneg nw WF U). exact (remove_E nw WF DF DH tp seg nt path Vp Ep Erm).
      + intros Dp. apply TV_ends; [exact V1|]. rewrite D1. eapply real_not_dummy_tour; eauto.
    - apply (exact_costs_nonneg nw WF U). exact En.
    - intros Dr. apply TV_ends; [exact Vn|]. rewrite Dm. eapply real_not_dummy_tour; eauto.
    - now apply has_forms_all. }
  intros [[[[[[[[vehicles tours] forms1] usage] dummies1] ids] dids1] uns1] costs] Eut.
  apply nc_bind.
  { destruct replaced as [np|]; [|apply nc_ok].
    apply nc_bind.
    - destruct (is_vehicle s r); [|apply nc_ok]. apply utf_nc.
      apply SchedPeel.update_tours_peel in Eut. unfold update_tours_prefix in Eut. monp Eut. mon Eut. monp Eut. mon Eut. monp Eut. inversion Eut; subst; clear Eut.
      eapply has_forms_kept; [eassumption|]. now apply has_forms_all.
    - intros [f2 u2] _. destruct (tour_new_dummy nw np); cbn [add_dummy_tour]; apply nc_ok. }
  intros [[[[[forms uns] dummies] dids] counter] newd] _.
  apply nc_bind; [|intros [trans viol] _; apply nc_ok].
  apply nc_of_ok.
  pose proof L as [V D].
  assert (Gd : guard true s p r) by (intros _ Q; contradiction).
  destruct (update_tours_L nw true s _ _ _ p shr r ntr path _ _ _ _ _ _ _ _ _ I L Gd Eut) as [V' _].
  destruct (update_tours_frame nw s _ _ _ _ _ _ _ _ _ _ _ _ _ _ _ _ _ _ _ _ _ _ _ Eut) as [F1 F2].
  eapply (update_transitions_ok nw s vehicles tours ids); eauto.
  - apply nodup_filter_two. intros Q. contradiction.
  - intros v Hv Rv. right. destruct Hv as [<-|[<-|[]]]; eapply has_tour_real_vehicle; eauto.
Qed.
End Over.
Print Assumptions override_nc.
End NPB_over.

Module NPB_fitre.
Import Sorted.
Import Base BaseFacts Network NetSpec NetFacts Tour TourSpec TourStmts TourFacts TourValidFacts TourExactStmts TourExactFacts Transition TransSpec Schedule SchedInv SchedObs SchedStruct SchedCostsFacts SchedUnservedFacts SchedViolFacts SchedListFacts SchedToursFacts SchedFormLimFacts SchedUsageFacts SchedFormsFacts SchedTransFacts SchedExactFacts Swaps SwapsStmts SwapsFacts SwapsStmts2 SwapsFacts2 PipelineSched RenderStmts NoPanicStmts NPB_defs NPB_base NPB_sched NPB_tour NPB_trans NPB_seg NPB_utours NPB_spawn NPB_fit NPB_over.
(* NPB_fitre.v — fit_reassign never crashes when the segment is a sub-path of the provider's tour *)


Local Open Scope Z_scope.

Section FitRe.
Variable nw : network.
Hypothesis WF : net_wf_b nw = true.
Hypothesis DP : durations_pos_b nw = true.
Hypothesis DF : dists_finite_b nw = true.
Hypothesis DH : dh_dists_finite_b nw = true.
Hypothesis U : unsigned_ok nw.
Hypothesis CA : cov_all nw.

(* the dummy flags of provider and receiver are kept by fit_loop *)
Lemma fit_loop_D dp dr :
  forall fuel ntp ntr remaining moved ntp' ntr' moved',
  (forall prov, ntp = Some prov -> TV nw prov /\ t_dummy prov = dp) ->
  (TV nw ntr /\ t_dummy ntr = dr) ->
  fit_loop nw fuel ntp ntr remaining moved = Ok (ntp', ntr', moved') ->
  (forall prov, ntp' = Some prov -> t_dummy prov = dp) /\ t_dummy ntr' = dr.
Proof.
  induction fuel as [|f IH]; intros ntp ntr remaining moved ntp' ntr' moved' HP HR H.
  - destruct remaining; cbn in H; [discriminate|]. inversion H; subst. split; [intros prov Q; apply (HP prov Q)|apply HR].
  - destruct remaining as [rem|]; [|cbn in H; inversion H; subst; split; [intros prov Q; apply (HP prov Q)|apply HR]].
    cbn [fit_loop] in H. destruct rem as [|sstart rest0] eqn:ER; [discriminate|]. rewrite <- ER in *.
    mon H. mon H. monp H.
    apply unwrap_opt_ok in E. destruct (HP a E) as (Va & Xa).
    destruct HR as (Vr & Xr).
    destruct (Tour.remove nw a (sstart, n0)) as [[cand_prov pfi]| | |] eqn:RM; try discriminate H.
    + mon H. destruct a1 as [cf|].
      * eapply IH; [exact HP|split; [exact Vr|exact Xr]|exact H].
      * monp H.
        destruct (remove_valid nw _ _ _ _ Va RM) as (i' & j' & _ & _ & _ & _ & _ & VPf & SH).
        destruct (insert_path_valid nw WF DP ntr pfi t o Vr VPf E3) as (Dn & Vnr & _ & _).
        eapply IH; [| |exact H].
        -- intros prov ->. destruct SH as (D1 & V1 & _). split; [exact V1|congruence].
        -- split; [exact Vnr|congruence].
    + eapply IH; [exact HP|split; [exact Vr|exact Xr]|exact H].
Qed.

Theorem fit_nc s seg p r tp trc sp :
  SchedCostsFacts.Inv nw s -> LInv nw true s -> TIs nw s -> EIs nw s -> US nw s -> TransOK nw s -> FormsOK nw s ->
  p <> r -> tour_of s p = Ok tp -> tour_of s r = Ok trc -> sub_path nw tp seg = Ok sp ->
  no_crash (fit_reassign nw s seg p r).
Proof.
  intros I L T E Us TR F Epr Htp Htr Hsp.
  destruct (tour_of_T nw s p tp I T Htp) as (Vp & _ & _).
  destruct (tour_of_T nw s r trc I T Htr) as (Vr & _ & _).
  pose proof (tour_of_E nw s p tp E Htp) as Ep.
  pose proof (tour_of_E nw s r trc E Htr) as Er.
  unfold fit_reassign.
  apply nc_bind.
  { unfold check_receiver_type_compatibility.
    destruct (vehicle_type_of s r) as [tr| | |]; try apply nc_ok.
    match goal with |- no_crash (if ?c then _ else _) => destruct c end; [|apply nc_ok].
    rewrite Htp. cbn [bind]. rewrite Hsp. cbn [bind]. apply nc_ok. }
  intros ok _. destruct (negb ok); [apply nc_err|].
  rewrite Htp, Htr. cbn [bind]. rewrite Hsp. cbn [bind].
  apply nc_bind; [exact (fit_loop_sub_path_nc nw WF DP DF DH U tp trc seg sp [] Vp Ep Vr Er Hsp)|].
  intros [[ntp ntr] moved] Efl.
  assert (HP0 : forall prov, Some tp = Some prov -> TV nw prov /\ tour_exact nw prov)
    by (intros prov Q; inversion Q; subst; auto).
  destruct (fit_loop_E nw WF DP DF DH _ _ _ _ _ _ _ _ HP0 (conj Vr Er) Efl) as (HP & Vn & En).
  assert (HD0 : forall prov, Some tp = Some prov -> TV nw prov /\ t_dummy prov = t_dummy tp)
    by (intros prov Q; inversion Q; subst; auto).
  destruct (fit_loop_D (t_dummy tp) (t_dummy trc) _ _ _ _ _ _ _ _ HD0 (conj Vr eq_refl) Efl) as (DPv & Dn).
  apply nc_bind.
  { eapply (update_tours_nc nw WF U s p ntp r ntr moved tp trc); eauto.
    - intros nt Q. destruct (HP nt Q) as (V1 & E1). split.
      + now apply (exact_costs_nonneg nw WF U).
      + intros Dp. apply TV_ends; [exact V1|]. rewrite (DPv nt Q). eapply real_not_dummy_tour; eauto.
    - now apply (exact_costs_nonneg nw WF U).
    - intros Dr. apply TV_ends; [exact Vn|]. rewrite Dn. eapply real_not_dummy_tour; eauto.
    - now apply has_forms_all. }
  intros [[[[[[[[vehicles tours] forms1] usage] dummies1] ids] dids1] uns1] costs] Eut.
  apply nc_bind; [|intros [trans viol] _; apply nc_ok].
  apply nc_of_ok.
  pose proof L as [V D].
  assert (Gd : guard true s p r) by (intros _ Q; contradiction).
  destruct (update_tours_L nw true s _ _ _ p ntp r ntr moved _ _ _ _ _ _ _ _ _ I L Gd Eut) as [V' _].
  destruct (update_tours_frame nw s _ _ _ _ _ _ _ _ _ _ _ _ _ _ _ _ _ _ _ _ _ _ _ Eut) as [F1 F2].
  eapply (update_transitions_ok nw s vehicles tours ids); eauto.
  - apply nodup_filter_two. intros Q. contradiction.
  - intros v Hv Rv. right. destruct Hv as [<-|[<-|[]]]; eapply has_tour_real_vehicle; eauto.
Qed.

(* the whole tour as a segment: sub_path succeeds *)
Lemma whole_sub_path t : TV nw t -> forallb (node_is_depot nw) (t_nodes t) = false ->
  sub_path nw t (first_node t, last_node t) = Ok (t_nodes t).
Proof.
  intros V ND.
  pose proof (TV_connected nw t V) as CN. pose proof (connected_chrono nw WF DP _ CN) as CH.
  pose proof (TV_nonempty nw t V) as NE.
  assert (L0 : (0 < length (t_nodes t))%nat) by (destruct (t_nodes t); [congruence|cbn; lia]).
  assert (H0 : nth_error (t_nodes t) 0 = Some (first_node t)).
  { unfold first_node, nth_node. apply nth_error_nth'. exact L0. }
  assert (H1 : nth_error (t_nodes t) (length (t_nodes t) - 1) = Some (last_node t)).
  { unfold last_node, nth_node, tlen. apply nth_error_nth'. lia. }
  rewrite (sub_path_total_at nw WF DP t 0 (length (t_nodes t) - 1) _ _ CH CN H0 H1 ltac:(lia)).
  - unfold ref_sub_path. cbn [skipn]. f_equal. apply firstn_all2. lia.
  - unfold all_depots, ref_sub_path. cbn [skipn]. rewrite firstn_all2 by lia. exact ND.
Qed.
End FitRe.
Print Assumptions fit_nc.
End NPB_fitre.

Module NPB_lim.
Import Sorted.
Import Base BaseFacts Network NetSpec NetFacts Tour TourSpec TourStmts TourFacts TourValidFacts TourExactStmts TourExactFacts Transition TransSpec Schedule SchedInv SchedObs SchedStruct SchedCostsFacts SchedUnservedFacts SchedViolFacts SchedListFacts SchedToursFacts SchedFormLimFacts SchedUsageFacts SchedFormsFacts SchedTransFacts SchedExactFacts Swaps SwapsStmts SwapsFacts SwapsStmts2 SwapsFacts2 PipelineSched RenderStmts NoPanicStmts DepotStmts DepotFacts NPB_defs.
(* NPB_lim.v — depot limits INCLUDING the overflow depot as a property of the usage map, and the count effect of the
   operations the swaps are made of (on top of DepotFacts.v, whose DepotLimitsOK exempts the overflow depot) *)


Local Open Scope Z_scope.

Section Lim.
Variable nw : network.
Hypothesis WF : net_wf_b nw = true.
Hypothesis DP : durations_pos_b nw = true.
Notation d0 := (SD 0).
Notation idx := (get_depot_idx nw).
Notation sst := spawned_same_type.

(* per-type and total capacity of EVERY depot index, the overflow depot included *)
Definition FLu (U : usage_t) : Prop :=
  forall d, (forall ty, sst U d ty <= capacity_of nw d ty) /\ spawned_total nw U d <= total_capacity_of nw d.
Definition FullLimits (s : schedule) : Prop := FLu (s_usage s).

Lemma FLu_le U' U : ULe U' U -> FLu U -> FLu U'.
Proof.
  intros L H d. destruct (H d) as [A B]. split.
  - intros ty. specialize (A ty). specialize (L d ty). lia.
  - pose proof (total_le nw U' U d L). lia.
Qed.

Lemma FLu_add U' U sd ty0 : FLu U -> UAdd U' U (idx sd) ty0 -> can_depot_spawn nw U sd ty0 = true -> FLu U'.
Proof.
  intros H L C d. destruct (H d) as [A B]. apply can_spawn_lt in C. destruct C as [C1 C2].
  pose proof (total_add nw U' U (idx sd) ty0 d L) as T. split.
  - intros ty. specialize (A ty). specialize (L d ty).
    destruct (pair_eqb (d, ty) (idx sd, ty0)) eqn:E; [|lia].
    apply pair_eqb_eq in E. inversion E; subst. lia.
  - destruct (Z.eqb_spec d (idx sd)) as [->|N]; lia.
Qed.

Lemma override_le s seg p r s' d : SchedCostsFacts.Inv nw s -> TIs nw s -> is_depot (nd nw (fst seg)) = false ->
  override_reassign nw s seg p r = Ok (s', d) -> ULe (s_usage s') (s_usage s).
Proof.
  intros I T ND H. unfold override_reassign in H. destruct (vid_eqb p r) in H; [discriminate|].
  mon H. destruct (negb a) eqn:OK; [discriminate|].
  mon H. mon H. monp H. monp H. monp H.
  apply panic_ok in E0, E1.
  destruct (tour_of_T nw s p a0 I T E0) as (Vp & _ & _). destruct (tour_of_T nw s r a1 I T E1) as (Vr & _ & _).
  destruct (remove_valid nw _ _ _ _ Vp E2) as (i & j & _ & _ & _ & _ & _ & VP & _).
  pose proof (remove_path_hd nw _ _ _ _ Vp E2) as HD.
  assert (LE : ULe l3 (s_usage s)).
  { eapply (update_tours_le nw); [exact I|exact T|exact E0|exact E1| | |exact E4].
    - intros nt -> D. eapply remove_first; eauto.
    - intros D. eapply (insert_first_same nw WF DP); eauto. rewrite HD. apply nondep_not_sdep. exact ND. }
  monp H. monp H. inversion H; subst; clear H. cbn [with_fields s_usage]. exact LE.
Qed.

Lemma fit_le s seg p r s' : SchedCostsFacts.Inv nw s -> TIs nw s -> is_depot (nd nw (fst seg)) = false ->
  fit_reassign nw s seg p r = Ok s' -> ULe (s_usage s') (s_usage s).
Proof.
  intros I T ND H. unfold fit_reassign in H.
  mon H. destruct (negb a) eqn:OK; [discriminate|].
  mon H. mon H. mon H. monp H. monp H. monp H. inversion H; subst; clear H.
  apply panic_ok in E0, E1.
  destruct (tour_of_T nw s p a0 I T E0) as (Vp & _ & _). destruct (tour_of_T nw s r a1 I T E1) as (Vr & _ & _).
  destruct (sub_path_valid nw _ _ _ (TV_connected nw _ Vp) E2) as [(_ & CP & _) _].
  pose proof (sub_path_hd nw _ _ _ E2) as HD.
  assert (HS : sdep nw (hd d0 a2) = false) by (rewrite HD; apply nondep_not_sdep; exact ND).
  assert (H1 : forall prov, Some a0 = Some prov -> TV nw prov /\ t_dummy prov = t_dummy a0 /\
                 (t_dummy a0 = false -> first_node prov = first_node a0)).
  { intros prov Q. inversion Q; subst. auto. }
  assert (H2 : TV nw a1 /\ t_dummy a1 = t_dummy a1 /\ (t_dummy a1 = false -> first_node a1 = first_node a1)) by auto.
  assert (H3 : forall rem, Some a2 = Some rem -> connected nw rem /\ sdep nw (hd d0 rem) = false).
  { intros rem Q. inversion Q; subst. auto. }
  destruct (fit_loop_first nw WF DP _ _ _ _ _ _ _ _ _ _ _ _ H1 H2 H3 E3) as (HP & _ & _ & FR).
  cbn [with_fields s_usage].
  eapply (update_tours_le nw); [exact I|exact T|exact E0|exact E1| | |exact E4].
  - intros nt -> D. destruct (HP nt eq_refl) as (_ & _ & F). auto.
  - exact FR.
Qed.

Lemma spawn_add s ty path s' v : spawn_vehicle_for_path nw s ty path = Ok (s', v) ->
  is_depot (nd nw (hd d0 path)) = false ->
  exists sd, UAdd (s_usage s') (s_usage s) (idx sd) ty /\ can_depot_spawn nw (s_usage s) sd ty = true.
Proof.
  intros H ND. unfold spawn_vehicle_for_path in H.
  destruct (negb _) in H; [discriminate|].
  mon H. mon H. mon H. monp H. mon H. monp H. inversion H; subst; clear H.
  cbn [with_fields s_usage].
  apply udu_cnt in E3. rewrite !vget_vset, vid_eqb_refl in E3. destruct E3 as [A _].
  pose proof (tour_new_nodes _ _ _ E0) as EN. rewrite first_node_hd, EN in A.
  unfold add_suitable_depots in E. destruct path as [|first rest]; [discriminate|]. cbn [hd] in ND.
  destruct (nw_overflow nw) as [[od os] oe]. rewrite ND in E. cbn [andb bind] in E.
  destruct (find_best_start_depot_res nw (s_usage s) ty first) as [sd| | |] eqn:FB; cbn [bind] in E; try discriminate E.
  apply find_best_res_iff in FB. apply find_best_can_spawn in FB.
  exists sd. split; [|exact FB].
  destruct (is_depot (nd nw (last (first :: rest) first))).
  - inversion E as [Q]. rewrite <- Q in A. exact A.
  - destruct (find_best_end_depot nw (last (first :: rest) first)) as [e| | |]; cbn [bind] in E; try discriminate E.
    inversion E as [Q]. rewrite <- Q in A. exact A.
Qed.

Lemma add_path_le s v path s' c : SchedCostsFacts.Inv nw s -> TIs nw s -> valid_path nw path ->
  is_depot (nd nw (hd d0 path)) = false ->
  add_path_to_vehicle_tour nw s v path = Ok (s', c) -> ULe (s_usage s') (s_usage s).
Proof.
  intros I T VP ND H. unfold add_path_to_vehicle_tour in H.
  destruct path as [|pf path'] eqn:EP; [discriminate|]. rewrite <- EP in *.
  match type of H with (if ?b then _ else _) = _ => destruct b eqn:CK; [discriminate|] end.
  mon H. mon H. monp H. mon H. monp H. monp H. mon H. mon H. monp H. inversion H; subst s' c; clear H.
  apply unwrap_opt_ok in E0, E2.
  cbn [with_fields s_usage].
  apply udu_cnt in E6. rewrite E0, vget_vset, vid_eqb_refl in E6. destruct E6 as [A B].
  assert (TO : tour_of s v = Ok a1) by (unfold tour_of; rewrite E2; reflexivity).
  destruct (real_tour nw s v a0 a1 I T E0 TO) as (V & D & _).
  pose proof (insert_first nw WF DP a1 path t o V D VP E3) as F.
  change (node_is_depot nw (hd d0 path)) with (is_depot (nd nw (hd d0 path))) in F. rewrite ND in F.
  apply (B (is_vehicle_some _ _ _ E0) a1 TO). rewrite F. reflexivity.
Qed.
End Lim.
End NPB_lim.

Module NPB_px.
Import Sorted.
Import Base BaseFacts Network NetSpec NetFacts Tour TourSpec TourStmts TourFacts TourValidFacts TourExactStmts TourExactFacts Transition TransSpec Schedule SchedInv SchedObs SchedStruct SchedCostsFacts SchedUnservedFacts SchedViolFacts SchedListFacts SchedToursFacts SchedFormLimFacts SchedUsageFacts SchedFormsFacts SchedTransFacts SchedExactFacts Swaps SwapsStmts SwapsFacts SwapsStmts2 SwapsFacts2 PipelineSched RenderStmts NoPanicStmts DepotStmts DepotFacts EndToEndStmts EndToEndFacts NPB_defs NPB_base NPB_sched NPB_tour NPB_trans NPB_seg NPB_utours NPB_spawn NPB_fit NPB_over NPB_fitre NPB_lim.
(* NPB_px.v — path_exchange and spawn_vehicle_for_maintenance: up to the final improve_and_recompute they never crash *)


Local Open Scope Z_scope.

Lemma nc_cases {A} (r : res A) : no_crash r -> r = Err \/ exists a, r = Ok a.
Proof. intros [H1 H2]. destruct r; eauto; congruence. Qed.

Lemma dedup_v_in l : forall x, In x (dedup_v l) -> In x l.
Proof.
  induction l as [|a r IH]; intros x H; [exact H|].
  destruct r as [|b r']; [exact H|]. cbn [dedup_v] in H.
  destruct (vid_eqb a b).
  - right. apply IH. exact H.
  - destruct H as [<-|H]; [now left | right; apply IH; exact H].
Qed.

Lemma dedup_v_short l : (length l <= 2)%nat -> NoDup (dedup_v l).
Proof.
  destruct l as [|a [|b [|c l]]]; cbn [length]; intros H; try lia.
  - constructor.
  - cbn. repeat constructor. intros [].
  - cbn [dedup_v]. destruct (vid_eqb a b) eqn:E.
    + repeat constructor. intros [].
    + apply vid_eqb_neq in E. repeat constructor; cbn; intuition.
Qed.

Lemma dedup_v_length l : (length (dedup_v l) <= length l)%nat.
Proof.
  induction l as [|a r IH]; [cbn; lia|]. destruct r as [|b r']; [cbn; lia|].
  change (dedup_v (a :: b :: r')) with (if vid_eqb a b then dedup_v (b :: r') else a :: dedup_v (b :: r')).
  destruct (vid_eqb a b); cbn [length] in *; lia.
Qed.

Lemma filter_length_le {A} (f : A -> bool) l : (length (filter f l) <= length l)%nat.
Proof. induction l as [|a l IH]; cbn [filter length]; [lia|]. destruct (f a); cbn [length]; lia. Qed.

Section PX.
Variable nw : network.
Hypothesis NF : net_fine nw.
Hypothesis DF : dists_finite_b nw = true.
Hypothesis DH : dh_dists_finite_b nw = true.
Hypothesis U : unsigned_ok nw.
Hypothesis CA : cov_all nw.
Hypothesis DLI : depot_lists nw.
Let WF := nf_wf nw NF.
Let DP := nf_dp nw NF.
Let ML := nf_ml nw NF.

Lemma override_newd_tour s seg p r first d :
  override_reassign nw s seg p r = Ok (first, Some d) -> exists dt, vget d (s_dummies first) = Some dt.
Proof.
  intros H. unfold override_reassign in H.
  destruct (vid_eqb p r) eqn:Epr; [discriminate|].
  mon H. destruct (negb _) in H; [discriminate|].
  mon H. mon H. monp H. monp H. monp H.
  monp H. monp H. inversion H; subst; clear H. cbn [with_fields s_dummies].
  destruct o0 as [np|]; [|discriminate E5].
  monp E5. destruct (tour_new_dummy nw np) as [dt| | |]; cbn [add_dummy_tour] in E5; inversion E5; subst.
  exists dt. rewrite vget_vset, vid_eqb_refl. reflexivity.
Qed.

Lemma dummy_key_tour_of s d dt : SchedCostsFacts.Inv nw s -> vid_is_real d = false ->
  vget d (s_dummies s) = Some dt -> tour_of s d = Ok dt.
Proof.
  intros I R G. unfold tour_of. destruct (vget d (s_tours s)) as [t0|] eqn:G0.
  - destruct (inv_keys nw s I _ _ G0) as (i & -> & _). discriminate R.
  - rewrite G. reflexivity.
Qed.

Lemma vod_tour s v : LInv nw true s -> is_vehicle_or_dummy s v = true -> exists t, tour_of s v = Ok t.
Proof.
  intros [V _] H. unfold is_vehicle_or_dummy in H. apply orb_true_iff in H. unfold tour_of.
  destruct (vget v (s_tours s)) as [t|] eqn:G; [eauto|].
  destruct H as [H|H].
  - unfold is_vehicle in H. apply (v_same _ _ _ _ V) in G. rewrite G in H. discriminate.
  - unfold is_dummy in H. destruct (vget v (s_dummies s)); [cbn; eauto | discriminate].
Qed.

Lemma DT_nondepots t : DT nw t -> forallb (node_is_depot nw) (t_nodes t) = false.
Proof.
  intros (_ & NE & _ & ND). destruct (t_nodes t) as [|a l] eqn:E; [congruence|].
  cbn [forallb]. pose proof (ND a (or_introl eq_refl)) as Q. rewrite Q. reflexivity.
Qed.

Lemma veh_type_in_ids s v ty : LInv nw true s -> vget v (s_vehicles s) = Some ty -> In ty (type_ids nw).
Proof.
  intros [V _] G. apply (v_ids _ _ _ _ V) in G. apply iter_in_keys in G. now rewrite (v_keys _ _ _ _ V) in G.
Qed.


(** ** the vehicles of the changed list have one type *)
Definition SameTyL (second : schedule) (l : list vehicle_id) : Prop :=
  forall a b, In a l -> In b l -> is_vehicle second a = true -> is_vehicle second b = true ->
    vget a (s_vehicles second) = vget b (s_vehicles second).

Lemma SameTyL_single second l r : (forall x, In x l -> x = r) -> SameTyL second l.
Proof. intros H a b Ha Hb _ _. rewrite (H a Ha), (H b Hb). reflexivity. Qed.

Lemma update_tours_sub s vehicles tours forms usage dummies ids dids uns costs p ntp r ntr moved
    vehicles1 tours2 forms2 usage2 dummies2 ids1 dids1 uns2 costs2 :
  update_tours nw s vehicles tours forms usage dummies ids dids uns costs p ntp r ntr moved
    = Ok (vehicles1, tours2, forms2, usage2, dummies2, ids1, dids1, uns2, costs2) ->
  forall x ty, vget x vehicles1 = Some ty -> vget x vehicles = Some ty.
Proof.
  intros H. apply SchedPeel.update_tours_peel in H. unfold update_tours_prefix in H.
  monp H. mon H. monp H. mon H. monp H. inversion H; subst; clear H.
  destruct ntp as [nt|].
  - monp E. inversion E; subst; clear E. auto.
  - mon E. destruct (is_dummy s p).
    + mon E. inversion E; subst; clear E. auto.
    + destruct (is_vehicle s p).
      * mon E. mon E. inversion E; subst; clear E. intros x ty. rewrite vget_vdel.
        destruct (vid_eqb x p); [discriminate|auto].
      * inversion E; subst. auto.
Qed.

Lemma override_veh_sub s seg p r first nd0 : override_reassign nw s seg p r = Ok (first, nd0) ->
  forall x ty, vget x (s_vehicles first) = Some ty -> vget x (s_vehicles s) = Some ty.
Proof.
  intros H. unfold override_reassign in H.
  destruct (vid_eqb p r) eqn:Epr; [discriminate|].
  mon H. destruct (negb _) in H; [discriminate|].
  mon H. mon H. monp H. monp H. monp H.
  monp H. monp H. inversion H; subst; clear H. cbn [with_fields s_vehicles].
  eapply update_tours_sub; eauto.
Qed.

Lemma fit_veh_sub s seg p r s' : fit_reassign nw s seg p r = Ok s' ->
  forall x ty, vget x (s_vehicles s') = Some ty -> vget x (s_vehicles s) = Some ty.
Proof.
  intros H. unfold fit_reassign in H.
  mon H. destruct (negb _) in H; [discriminate|].
  mon H. mon H. mon H. monp H. monp H. monp H. inversion H; subst; clear H. cbn [with_fields s_vehicles].
  eapply update_tours_sub; eauto.
Qed.

Lemma fit_check s seg p r s' : fit_reassign nw s seg p r = Ok s' ->
  check_receiver_type_compatibility nw s p r seg = Ok true.
Proof.
  intros H. unfold fit_reassign in H. mon H. destruct a; [reflexivity|discriminate H].
Qed.

Lemma override_dummy_parts s seg p r first d :
  override_reassign nw s seg p r = Ok (first, Some d) ->
  exists trc path ntr np dt, tour_of s r = Ok trc /\ insert_path nw trc path = Ok (ntr, Some np) /\
    tour_new_dummy nw np = Ok dt /\ vget d (s_dummies first) = Some dt.
Proof.
  intros H. unfold override_reassign in H.
  destruct (vid_eqb p r) eqn:Epr; [discriminate|].
  mon H. destruct (negb _) in H; [discriminate|].
  mon H. mon H. monp H. monp H. monp H.
  monp H. monp H. inversion H; subst; clear H. cbn [with_fields s_dummies].
  destruct o0 as [np|]; [|discriminate E5].
  monp E5. destruct (tour_new_dummy nw np) as [dt| | |] eqn:ED; cbn [add_dummy_tour] in E5; inversion E5; subst.
  apply panic_ok in E1.
  exists a1, l, t, np, dt. repeat split; auto. rewrite vget_vset, vid_eqb_refl. reflexivity.
Qed.

Lemma dummy_service np dt : tour_new_dummy nw np = Ok dt ->
  exists n, In n (t_nodes dt) /\ In n np /\ is_service (nd nw n) = true.
Proof.
  unfold tour_new_dummy. destruct (existsb _ _) eqn:E; [|discriminate]. intros H. inversion H; subst dt; clear H.
  apply existsb_exists in E. destruct E as (n & Hn & Sn). exists n. cbn [new_computing t_nodes].
  split; [exact Hn|]. apply filter_In in Hn. split; [tauto|exact Sn].
Qed.

Lemma insert_removed_incl t p t' np : insert_path nw t p = Ok (t', Some np) -> incl np (t_nodes t).
Proof.
  intros H. destruct (insert_path_nodes _ _ _ _ _ H) as (sp & ep & removed & p1 & IN & Er & _).
  symmetry in Er. apply path_new_trusted_some in Er. destruct Er as [-> _].
  apply insert_nodes_inv in IN. destruct IN as (_ & _ & _ & -> & _).
  intros x Hx. unfold slice in Hx. eapply slice_incl; eauto.
Qed.

Lemma compat_service n ty : is_service (nd nw n) = true -> compatible_with_vehicle_type nw n ty = true ->
  vehicle_type_for nw n = ty.
Proof. unfold compatible_with_vehicle_type. intros ->. apply Z.eqb_eq. Qed.

Lemma DT_first_nondep t : DT nw t -> is_depot (nd nw (first_node t)) = false.
Proof.
  intros (_ & NE & _ & ND). apply ND. unfold first_node, nth_node.
  destruct (t_nodes t) as [|a l]; [congruence|]. left. reflexivity.
Qed.

(* the service node of the new dummy ties the types: r's type (r a vehicle of s) is the type of every vehicle whose
   type is compatible with all nodes of the dummy tour *)
Lemma dummy_type s seg p r first d dt a b :
  wreachable nw s -> override_reassign nw s seg p r = Ok (first, Some d) -> vget d (s_dummies first) = Some dt ->
  vget r (s_vehicles s) = Some a ->
  (forall n, In n (t_nodes dt) -> compatible_with_vehicle_type nw n b = true) -> a = b.
Proof.
  intros R Eo Gd Ga Cb.
  pose proof (wreachable_WS nw NF DF DH s R) as W.
  destruct (override_dummy_parts s seg p r first d Eo) as (trc & path & ntr & np & dt' & Htr & Eins & ED & Gd').
  rewrite Gd in Gd'. inversion Gd'; subst dt'; clear Gd'.
  destruct (dummy_service np dt ED) as (n & Hn & Hnp & Sn).
  pose proof (insert_removed_incl trc path ntr np Eins n Hnp) as Ht.
  pose proof (tour_compat nw s r trc (ws_inv nw s W) (ws_T nw s W) Htr a Ga n Ht) as Ca.
  rewrite <- (compat_service n a Sn Ca). apply compat_service; auto.
Qed.

(* path_exchange: either the candidate is refused, or everything up to the final improve_and_recompute succeeds, on a
   wreachable schedule [second] and a duplicate-free list of at most two vehicles of [second], all of one type;
   [second] inherits the depot limits (overflow depot included) and the listed start depots of [s] *)
Theorem path_exchange_pre s seg p r tp trc :
  wreachable nw s -> tour_of s p = Ok tp -> seg_ok nw tp seg -> tour_of s r = Ok trc ->
  path_exchange nw s seg p r = Err \/
  exists second ch, wreachable nw second /\ NoDup ch /\ (forall v, In v ch -> is_vehicle second v = true) /\
    (length ch <= 2)%nat /\ SameTyL second ch /\
    (FullLimits nw s -> FullLimits nw second) /\ (FKs nw s -> FKs nw second) /\
    path_exchange nw s seg p r = match improve_and_recompute nw second ch with Err => Panic | x => x end.
Proof.
  intros R Htp SO Htr.
  pose proof (wreachable_WS nw NF DF DH s R) as W.
  assert (NDs : is_depot (nd nw (fst seg)) = false).
  { destruct SO as [Hs _]. destruct (tour_of_T nw s p tp (ws_inv nw s W) (ws_T nw s W) Htp) as (Vp & _ & _).
    eapply non_depots_nondep; eauto. }
  unfold path_exchange.
  destruct (nc_cases _ (override_nc nw WF DP DF DH U CA s seg p r tp trc (ws_inv nw s W) (ws_L nw s W) (ws_T nw s W)
                          (ws_E nw s W) (ws_us nw s W) (ws_trans nw s W) (ws_forms nw s W) Htp SO Htr))
    as [->|[[first newd] Eo]]; [left; reflexivity|].
  rewrite Eo. cbn [bind].
  pose proof (wreach_override nw s seg p r first newd R Eo) as R1.
  pose proof (wreachable_WS nw NF DF DH first R1) as W1.
  assert (FL1 : FullLimits nw s -> FullLimits nw first).
  { unfold FullLimits. apply FLu_le. eapply (override_le nw WF DP); eauto; [apply (ws_inv nw s W)|apply (ws_T nw s W)]. }
  assert (FK1 : FKs nw s -> FKs nw first).
  { intros K. eapply (override_FKs nw WF DP s seg p r first newd); eauto; [apply (ws_inv nw s W)|apply (ws_T nw s W)]. }
  set (changed0 := if is_vehicle s r then [r] else []).
  assert (L0 : (length changed0 <= 1)%nat) by (unfold changed0; destruct (is_vehicle s r); cbn; lia).
  assert (C0 : forall x, In x changed0 -> x = r /\ is_vehicle s r = true).
  { unfold changed0. destruct (is_vehicle s r); intros x Hx; [destruct Hx as [<-|[]]; auto|destruct Hx]. }
  match goal with |- bind ?X _ = Err \/ _ =>
    assert (HX : X = Err \/ exists second changed, X = Ok (second, changed) /\ wreachable nw second /\
                   (length changed <= 2)%nat /\ SameTyL second changed /\
                   (FullLimits nw s -> FullLimits nw second) /\ (FKs nw s -> FKs nw second)) end.
  { assert (Base : exists second changed, Ok (first, changed0) = Ok (second, changed) /\ wreachable nw second /\
                   (length changed <= 2)%nat /\ SameTyL second changed /\
                   (FullLimits nw s -> FullLimits nw second) /\ (FKs nw s -> FKs nw second)).
    { exists first, changed0. split; [reflexivity|]. split; [exact R1|]. split; [lia|].
      split; [|split; [exact FL1|exact FK1]].
      apply (SameTyL_single first changed0 r). intros x Hx. apply (C0 x Hx). }
    destruct newd as [d|]; [|right; exact Base].
    destruct (override_newd_tour s seg p r first d Eo) as [dt Gd].
    destruct (override_newd nw s seg p r first d Eo) as [Ed _].
    assert (Td : tour_of first d = Ok dt) by (apply dummy_key_tour_of; [apply (ws_inv nw first W1)|subst d; reflexivity|exact Gd]).
    assert (DTd : DT nw dt) by (apply (ws_T nw first W1) in Gd; exact Gd).
    destruct (is_vehicle_or_dummy first p) eqn:Evd.
    - rewrite Td. cbn [bind].
      destruct (vod_tour first p (ws_L nw first W1) Evd) as [tp1 Htp1].
      assert (Nd : d <> p) by (eapply override_newd_fresh; [apply wreachable_reachable; exact R|exact Eo]).
      pose proof (whole_sub_path nw WF DP dt (DT_TV nw dt DTd) (DT_nondepots dt DTd)) as Hsp.
      destruct (nc_cases _ (fit_nc nw WF DP DF DH U CA first (first_node dt, last_node dt) d p dt tp1 (t_nodes dt)
                  (ws_inv nw first W1) (ws_L nw first W1) (ws_T nw first W1) (ws_E nw first W1) (ws_us nw first W1)
                  (ws_trans nw first W1) (ws_forms nw first W1) Nd Td Htp1 Hsp)) as [->|[s2 E2]]; [left; reflexivity|].
      rewrite E2. cbn [bind]. right. exists s2, (changed0 ++ [p]).
      assert (NDd : is_depot (nd nw (fst (first_node dt, last_node dt))) = false) by (cbn [fst]; now apply DT_first_nondep).
      split; [reflexivity|]. split; [eapply wreach_fit; eauto|]. split; [rewrite app_length; cbn [length]; lia|].
      split; [|split].
      + (* one type *)
        assert (Key : is_vehicle s r = true -> is_vehicle s2 r = true -> is_vehicle s2 p = true ->
                      vget r (s_vehicles s2) = vget p (s_vehicles s2)).
        { intros Vr0 Vr2 Vp2. unfold is_vehicle in Vr2, Vp2.
          destruct (vget r (s_vehicles s2)) as [a|] eqn:Ga; [|discriminate].
          destruct (vget p (s_vehicles s2)) as [b|] eqn:Gb; [|discriminate]. f_equal.
          pose proof (fit_veh_sub _ _ _ _ _ E2 r a Ga) as Ga1. pose proof (override_veh_sub _ _ _ _ _ _ Eo r a Ga1) as Ga0.
          pose proof (fit_veh_sub _ _ _ _ _ E2 p b Gb) as Gb1.
          apply (dummy_type s seg p r first d dt a b R Eo Gd Ga0).
          destruct (check_compat nw first d p _ dt (ws_inv nw first W1) (ws_T nw first W1) (fit_check _ _ _ _ _ E2) Td b Gb1)
            as [C|(sp & Es & C)]; [exact C|].
          rewrite Hsp in Es. inversion Es; subst sp. rewrite forallb_forall in C. exact C. }
        intros x y Hx Hy Vx Vy. apply in_app_or in Hx. apply in_app_or in Hy.
        destruct Hx as [Hx|[<-|[]]]; destruct Hy as [Hy|[<-|[]]].
        * destruct (C0 _ Hx) as [-> _]. destruct (C0 _ Hy) as [-> _]. reflexivity.
        * destruct (C0 _ Hx) as [-> Vr0]. apply Key; auto.
        * destruct (C0 _ Hy) as [-> Vr0]. symmetry. apply Key; auto.
        * reflexivity.
      + intros K. unfold FullLimits. eapply FLu_le; [|apply (FL1 K)].
        eapply (fit_le nw WF DP first _ d p s2); eauto; [apply (ws_inv nw first W1)|apply (ws_T nw first W1)].
      + intros K. eapply (fit_FKs nw WF DP first _ d p s2); eauto; [apply (ws_inv nw first W1)|apply (ws_T nw first W1)].
    - destruct (is_vehicle s p) eqn:Evp; [|right; exact Base].
      unfold is_vehicle in Evp. unfold vehicle_type_of.
      destruct (vget p (s_vehicles s)) as [ty|] eqn:Gty; [|discriminate]. cbn [ok_or_err bind].
      destruct (nc_cases _ (spawn_to_replace_dummy_nc nw first d ty CA (ws_inv nw first W1) (ws_L nw first W1)
                  (ws_trans nw first W1) (ws_us nw first W1) (ws_forms nw first W1) (ws_T nw first W1)
                  (veh_type_in_ids s p ty (ws_L nw s W) Gty)))
        as [->|[[s2 nv] E2]]; [left; reflexivity|].
      rewrite E2. cbn [bind]. right. exists s2, (changed0 ++ [nv]).
      split; [reflexivity|]. split; [eapply wreach_spawn_dummy; eauto|]. split; [rewrite app_length; cbn [length]; lia|].
      (* decompose the two-step operation *)
      pose proof E2 as E2'. unfold spawn_to_replace_dummy, spawn_vehicle_to_replace_dummy_tour in E2'.
      rewrite Gd in E2'. destruct (negb (forallb _ (t_nodes dt))) eqn:Cm in E2'; [discriminate|]. cbn [bind] in E2'.
      apply negb_false_iff in Cm.
      destruct (delete_dummy first d) as [s1| | |] eqn:E1; cbn [bind] in E2'; try discriminate E2'.
      pose proof (delete_dummy_usage first d s1 E1) as Us1.
      assert (HDn : is_depot (nd nw (hd (SD 0) (t_nodes dt))) = false).
      { pose proof (DT_first_nondep dt DTd) as Q. unfold first_node, nth_node in Q. rewrite <- hd_nth0 in Q. exact Q. }
      assert (Vs2 : nv = Veh (s_counter s1) /\ s_vehicles s2 = vset nv ty (s_vehicles s1) /\ s_vehicles s1 = s_vehicles first).
      { split; [|split].
        - unfold spawn_vehicle_for_path in E2'. destruct (negb _) in E2'; [discriminate|].
          mon E2'. mon E2'. mon E2'. monp E2'. mon E2'. monp E2'. inversion E2'; subst; reflexivity.
        - unfold spawn_vehicle_for_path in E2'. destruct (negb _) in E2'; [discriminate|].
          mon E2'. mon E2'. mon E2'. monp E2'. mon E2'. monp E2'. inversion E2'; subst; reflexivity.
        - unfold delete_dummy in E1. destruct (negb _) in E1; [discriminate|]. mon E1. inversion E1; subst. reflexivity. }
      destruct Vs2 as (Env & Vs2 & Vs1).
      split; [|split].
      + assert (Key : is_vehicle s r = true -> r <> nv -> is_vehicle s2 r = true ->
                      vget r (s_vehicles s2) = vget nv (s_vehicles s2)).
        { intros Vr0 Nrv Vr2. rewrite Vs2, !vget_vset, vid_eqb_refl. apply vid_eqb_neq in Nrv. rewrite Nrv.
          unfold is_vehicle in Vr2. rewrite Vs2, vget_vset, Nrv, Vs1 in Vr2.
          destruct (vget r (s_vehicles first)) as [a|] eqn:Ga1; [|discriminate]. rewrite Vs1, Ga1. f_equal.
          pose proof (override_veh_sub _ _ _ _ _ _ Eo r a Ga1) as Ga0.
          apply (dummy_type s seg p r first d dt a ty R Eo Gd Ga0).
          rewrite forallb_forall in Cm. exact Cm. }
        intros x y Hx Hy Vx Vy. apply in_app_or in Hx. apply in_app_or in Hy.
        destruct Hx as [Hx|[<-|[]]]; destruct Hy as [Hy|[<-|[]]].
        * destruct (C0 _ Hx) as [-> _]. destruct (C0 _ Hy) as [-> _]. reflexivity.
        * destruct (C0 _ Hx) as [-> Vr0]. destruct (vid_eq_dec r nv) as [->|Nrv]; [reflexivity|]. apply Key; auto.
        * destruct (C0 _ Hy) as [-> Vr0]. destruct (vid_eq_dec r nv) as [->|Nrv]; [reflexivity|]. symmetry. apply Key; auto.
        * reflexivity.
      + intros K. unfold FullLimits.
        destruct (spawn_add nw s1 ty (t_nodes dt) s2 nv E2' HDn) as (sd & A & Cs).
        rewrite Us1 in A, Cs. eapply FLu_add; [apply (FL1 K)|exact A|exact Cs].
      + intros K. eapply (spawn_dummy_FKs nw DLI first d ty s2 nv); eauto; [apply (ws_inv nw first W1)|apply (ws_T nw first W1)]. }
  destruct HX as [->|(second & changed & -> & R2 & L2 & ST & FL2 & FK2)]; [left; reflexivity|].
  cbn [bind]. right.
  exists second, (dedup_v (filter (fun v => is_vehicle second v) changed)).
  split; [exact R2|]. split; [|split; [|split; [|split; [|split; [exact FL2|split; [exact FK2|reflexivity]]]]]].
  - apply dedup_v_short. pose proof (filter_length_le (fun v => is_vehicle second v) changed). lia.
  - intros v Hv. apply dedup_v_in in Hv. apply filter_In in Hv. tauto.
  - pose proof (dedup_v_length (filter (fun v => is_vehicle second v) changed)).
    pose proof (filter_length_le (fun v => is_vehicle second v) changed). lia.
  - intros a b Ha Hb Va Vb. apply dedup_v_in in Ha, Hb. apply filter_In in Ha, Hb. apply ST; tauto.
Qed.
End PX.
Print Assumptions path_exchange_pre.
End NPB_px.

Module NPB_mt.
Import Sorted.
Import Base BaseFacts Network NetSpec NetFacts Tour TourSpec TourStmts TourFacts TourValidFacts TourExactStmts TourExactFacts Transition TransSpec Schedule SchedInv SchedObs SchedStruct SchedCostsFacts SchedUnservedFacts SchedViolFacts SchedListFacts SchedToursFacts SchedFormLimFacts SchedUsageFacts SchedFormsFacts SchedTransFacts SchedExactFacts Swaps SwapsStmts SwapsFacts SwapsStmts2 SwapsFacts2 PipelineSched RenderStmts NoPanicStmts DepotStmts DepotFacts EndToEndStmts EndToEndFacts NPB_defs NPB_base NPB_sched NPB_tour NPB_trans NPB_seg NPB_utours NPB_spawn NPB_fit NPB_over NPB_fitre NPB_lim NPB_px.
(* NPB_mt.v — add_path_to_vehicle_tour and spawn_vehicle_for_maintenance *)


Local Open Scope Z_scope.

Section MT.
Variable nw : network.
Hypothesis NF : net_fine nw.
Hypothesis DF : dists_finite_b nw = true.
Hypothesis DH : dh_dists_finite_b nw = true.
Hypothesis U : unsigned_ok nw.
Hypothesis CA : cov_all nw.
Hypothesis DLI : depot_lists nw.
Let WF := nf_wf nw NF.
Let DP := nf_dp nw NF.
Let ML := nf_ml nw NF.

Theorem add_path_nc s v path :
  SchedCostsFacts.Inv nw s -> LInv nw true s -> TIs nw s -> EIs nw s -> US nw s -> TransOK nw s -> FormsOK nw s ->
  is_vehicle s v = true -> valid_path nw path ->
  no_crash (add_path_to_vehicle_tour nw s v path).
Proof.
  intros I L T E Us TR F Hv VP.
  destruct (veh_facts nw s v I L T Hv) as (ty & t & Gty & Ht & Gt & [A1 A2] & Dv).
  destruct (tour_of_T nw s v t I T Ht) as (Vt & _ & Rt). destruct (Rt Dv) as (_ & ty0 & Gty0 & RTt).
  assert (ty0 = ty) by congruence. subst ty0. destruct RTt as (Dt & _).
  pose proof (tour_of_E nw s v t E Ht) as Et.
  unfold add_path_to_vehicle_tour. destruct path as [|pf path'] eqn:EP; [destruct VP as [N _]; congruence|].
  rewrite <- EP in *.
  unfold vehicle_type_of. rewrite Gty. cbn [ok_or_err].
  match goal with |- no_crash (if ?c then _ else _) => destruct c end; [apply nc_err|].
  apply nc_bind.
  { destruct (is_depot (nd nw pf)); [|apply nc_ok]. rewrite Ht. cbn [bind]. unfold start_depot. rewrite A1. cbn [bind].
    match goal with |- no_crash (if ?c then _ else _) => destruct c end; [apply nc_err | apply nc_ok]. }
  intros _ _. cbn [unwrap_opt bind].
  apply nc_bind; [apply utf_nc; now apply has_forms_all|]. intros [forms1 uns1] Eu1.
  rewrite Gt. cbn [unwrap_opt bind].
  destruct (insert_path_total nw WF DP U t path Vt Et VP) as [[new_tour removed] Eins]. rewrite Eins. cbn [bind].
  destruct (insert_path_valid nw WF DP t path new_tour removed Vt VP Eins) as (Dn & Vn & _ & _).
  pose proof (insert_E nw WF DF t path new_tour removed Et Eins) as En.
  apply nc_bind.
  { destruct removed as [rp|]; [|apply nc_ok]. apply utf_nc. eapply has_forms_kept; [exact Eu1|]. now apply has_forms_all. }
  intros [forms uns] _.
  destruct (NPB_tour.z_sub_cost_ok (s_costs s + t_costs new_tour) (t_costs t)) as [c Ec].
  { pose proof (TC_ge nw U _ _ v t (inv_tc nw s I) (nonneg_s nw WF U s E) Gt).
    pose proof (exact_costs_nonneg nw WF U new_tour En). lia. }
  rewrite Ec. cbn [bind].
  destruct (udu_nc nw s (s_usage s) (s_vehicles s) (s_tours s) (s_vehicles s) (vset v new_tour (s_tours s)) v Us) as [u' Eu'].
  { intros _. exists ty, t. repeat split; auto. }
  { congruence. }
  { intros ty1 _ t1 G1. rewrite vget_vset, vid_eqb_refl in G1. inversion G1; subst t1.
    apply TV_ends; [exact Vn | congruence]. }
  rewrite Eu'. cbn [bind].
  pose proof L as [V D].
  destruct (update_transitions_ok nw s (s_vehicles s) (vset v new_tour (s_tours s)) (s_ids s) (s_trans s) (s_viol s) [v])
    as [[trans viol] Etr]; auto.
  - eapply V_tours_vset_old; eauto.
  - congruence.
  - apply nodup_filter_one.
  - intros x [<-|[]] _. left. congruence.
  - rewrite Etr. cbn [bind]. apply nc_ok.
Qed.

Lemma maint_node_coverable m : In m (nw_maint nw) -> In m (coverable_nodes nw).
Proof. intros H. unfold coverable_nodes. apply in_or_app. now right. Qed.

(* the nodes displaced from a real tour by a single activity node start at an inner node of the tour *)
Lemma conflict_head_nondep s v m s' rp :
  SchedCostsFacts.Inv nw s -> TIs nw s -> is_depot (nd nw m) = false ->
  add_path_to_vehicle_tour nw s v [m] = Ok (s', Some rp) -> is_depot (nd nw (hd (SD 0) rp)) = false.
Proof.
  intros I T Dm H.
  assert (VP : valid_path nw [m]) by (apply single_valid_path; exact Dm).
  pose proof (add_path_conflict_valid nw WF DP s v [m] s' rp I T VP H) as VR.
  unfold add_path_to_vehicle_tour in H.
  match type of H with (if ?b then _ else _) = _ => destruct b eqn:CK; [discriminate|] end.
  mon H. mon H. monp H. mon H. monp H. monp H. mon H. mon H. monp H. inversion H; subst s' o; clear H.
  apply unwrap_opt_ok in E2.
  destruct T as [TR TD]. destruct (TR _ _ E2) as (ty & Gty & R).
  pose proof (RT_TV _ _ _ R) as V. pose proof (TV_connected _ _ V) as C. pose proof (TV_nonempty _ _ V) as NE.
  destruct R as (Dr & RVt & _).
  destruct (insert_path_nodes _ _ _ _ _ E3) as (sp & ep & removed & p1 & IN & Er & _).
  destruct (insert_nodes_ref_at nw WF DP (t_dummy a1) (t_nodes a1) [m] NE (connected_chrono nw WF DP _ C) VP)
    as (sp' & ep' & p1' & IN').
  rewrite IN in IN'. injection IN' as _ _ _ Q2 _.
  symmetry in Er. apply path_new_trusted_some in Er. destruct Er as [-> _].
  rewrite Dr in Q2. unfold ref_insert in Q2. cbn [snd hd last] in Q2.
  change (nid_is_depot nw m) with (is_depot (nd nw m)) in Q2. rewrite Dm in Q2.
  set (tl1 := t_nodes a1) in *.
  set (ka := longest_prefix_reaching nw tl1 m) in *. set (kb := first_reached_by nw tl1 m) in *.
  pose proof (RV_length nw tl1 RVt) as L3.
  destruct RVt as (_ & _ & Sd & Ed & _).
  assert (A1 : (1 <= ka)%nat).
  { apply (lpr_ge nw tl1 m 0 (hd (SD 0) tl1)).
    - destruct tl1; [congruence|reflexivity].
    - apply cr_from_sdep; [exact Sd|]. apply nondep_not_sdep. exact Dm. }
  assert (B1 : (kb <= length tl1 - 1)%nat).
  { apply (frb_le_k nw tl1 m (length tl1 - 1) (last tl1 (SD 0))).
    - apply nth_error_last. exact NE.
    - apply cr_to_edep; [exact Ed|]. change (node_is_depot nw m = false) in Dm. apply nondep_split in Dm. tauto. }
  assert (NR : removed <> []) by (destruct VR as (N & _); exact N).
  assert (AB : (ka < kb)%nat).
  { destruct (Nat.lt_ge_cases ka kb) as [Q|Q]; [exact Q|]. exfalso. apply NR. rewrite Q2.
    replace (kb - ka)%nat with 0%nat by lia. reflexivity. }
  assert (HD : hd (SD 0) removed = nth ka tl1 (SD 0)).
  { rewrite Q2. pose proof (hd_skipn tl1 ka (SD 0)) as HS. destruct (skipn ka tl1) as [|x xs] eqn:S0.
    - exfalso. apply NR. rewrite Q2. now rewrite firstn_nil.
    - cbn [hd] in HS. rewrite <- HS. destruct (kb - ka)%nat eqn:Z0; [lia|]. reflexivity. }
  rewrite HD. apply (inner_nondep nw tl1 ka C A1). lia.
Qed.

(* spawn_vehicle_for_maintenance on an enumerated candidate (a listed slot with a free track, a real vehicle): either
   it is refused, or everything up to the final improve_and_recompute succeeds *)
Theorem maint_pre s m v :
  wreachable nw s -> In m (nw_maint nw) -> is_vehicle s v = true ->
  (forall occ, nget m (s_forms s) = Some occ -> Z.of_nat (length occ) < track_count nw m) ->
  spawn_vehicle_for_maintenance nw s m v = Err \/
  exists s3 ch, wreachable nw s3 /\ NoDup ch /\ (forall x, In x ch -> is_vehicle s3 x = true) /\
    (length ch <= 2)%nat /\ SameTyL s3 ch /\
    (FullLimits nw s -> FullLimits nw s3) /\ (FKs nw s -> FKs nw s3) /\
    spawn_vehicle_for_maintenance nw s m v = match improve_and_recompute nw s3 ch with Err => Panic | x => x end.
Proof.
  intros R Hm Hv Free.
  pose proof (wreachable_WS nw NF DF DH s R) as W.
  destruct (veh_facts nw s v (ws_inv nw s W) (ws_L nw s W) (ws_T nw s W) Hv) as (ty & t & Gty & Ht & Gt & _ & Dv).
  unfold spawn_vehicle_for_maintenance. rewrite Ht. cbn [bind].
  destruct (t_vm t); [left; reflexivity|].
  assert (Km : nget m (s_forms s) <> None).
  { apply nget_key_ne. apply (fo_keys nw s (ws_forms nw s W)). now apply maint_node_coverable. }
  destruct (nget m (s_forms s)) as [occ|] eqn:Gocc; [|congruence]. cbn [unwrap_opt bind].
  unfold vehicle_type_of. rewrite Gty. cbn [ok_or_err bind].
  specialize (Free occ eq_refl).
  destruct (track_count nw m <=? Z.of_nat (length occ)) eqn:Full; [apply Z.leb_le in Full; lia|]. cbn [bind].
  assert (VM : valid_path nw [m]).
  { eapply formed_node_valid_path; [exact ML|apply wreachable_reachable; exact R|exact Gocc]. }
  destruct (nc_cases _ (add_path_nc s v [m] (ws_inv nw s W) (ws_L nw s W) (ws_T nw s W) (ws_E nw s W) (ws_us nw s W)
              (ws_trans nw s W) (ws_forms nw s W) Hv VM)) as [->|[[s2 conflict] E2]]; [left; reflexivity|].
  rewrite E2. cbn [bind].
  pose proof (wreach_add_path nw s v [m] s2 conflict R VM E2) as R2.
  pose proof (wreachable_WS nw NF DF DH s2 R2) as W2.
  assert (Vs2 : s_vehicles s2 = s_vehicles s).
  { pose proof E2 as E2'. unfold add_path_to_vehicle_tour in E2'.
    match type of E2' with (if ?b then _ else _) = _ => destruct b; [discriminate|] end.
    mon E2'. mon E2'. monp E2'. mon E2'. monp E2'. monp E2'. mon E2'. mon E2'. monp E2'. inversion E2'; subst; clear E2'.
    reflexivity. }
  assert (Hv2 : is_vehicle s2 v = true) by (unfold is_vehicle; rewrite Vs2, Gty; reflexivity).
  assert (Dm : is_depot (nd nw m) = false).
  { destruct VM as (_ & _ & Ex). cbn [existsb] in Ex. rewrite orb_false_r in Ex. apply negb_true_iff in Ex. exact Ex. }
  assert (HOm : head_ok nw [m]).
  { intros Q. cbn [hd] in Q. change (node_is_depot nw m) with (is_depot (nd nw m)) in Q. congruence. }
  assert (FL2 : FullLimits nw s -> FullLimits nw s2).
  { unfold FullLimits. apply FLu_le. eapply (add_path_le nw WF DP s v [m] s2 conflict); eauto;
      [apply (ws_inv nw s W)|apply (ws_T nw s W)]. }
  assert (FK2 : FKs nw s -> FKs nw s2).
  { intros K. eapply (add_path_FKs nw WF DP s v [m] s2 conflict); eauto; [apply (ws_inv nw s W)|apply (ws_T nw s W)]. }
  destruct conflict as [path|].
  - assert (VPp : valid_path nw path).
    { eapply (add_path_conflict_valid nw WF DP s v [m] s2 path); eauto; [apply (ws_inv nw s W)|apply (ws_T nw s W)]. }
    assert (NEp : path <> []) by (destruct VPp as [N _]; exact N).
    pose proof (conflict_head_nondep s v m s2 path (ws_inv nw s W) (ws_T nw s W) Dm E2) as HDp.
    destruct (nc_cases _ (spawn_nc nw s2 ty path CA (ws_inv nw s2 W2) (ws_L nw s2 W2) (ws_trans nw s2 W2) (ws_us nw s2 W2)
                (ws_forms nw s2 W2) (veh_type_in_ids nw s v ty (ws_L nw s W) Gty) NEp)) as [->|[[s3 nv] E3]]; [left; reflexivity|].
    rewrite E3. cbn [bind]. right. exists s3, [v; nv].
    pose proof (wreach_spawn nw s2 ty path s3 nv R2 VPp E3) as R3.
    assert (Q : nv = Veh (s_counter s2) /\ s_vehicles s3 = vset nv ty (s_vehicles s2)).
    { pose proof E3 as E3'. unfold spawn_vehicle_for_path in E3'. destruct (negb _) in E3'; [discriminate|].
      mon E3'. mon E3'. mon E3'. monp E3'. mon E3'. monp E3'. inversion E3'; subst; clear E3'. cbn [with_fields s_vehicles]. auto. }
    destruct Q as [Env Q].
    assert (Nv : v <> nv).
    { intros ->. rewrite Env in Hv2. pose proof (fresh_vehicle nw s2 (ws_inv nw s2 W2) (proj1 (ws_L nw s2 W2))) as Fr.
      unfold is_vehicle in Hv2. rewrite Fr in Hv2. discriminate. }
    assert (Tv : vget v (s_vehicles s3) = Some ty).
    { rewrite Q, vget_vset. apply vid_eqb_neq in Nv. rewrite Nv, Vs2. exact Gty. }
    assert (Tn : vget nv (s_vehicles s3) = Some ty) by (rewrite Q, vget_vset, vid_eqb_refl; reflexivity).
    split; [exact R3|]. split; [|split; [|split; [|split; [|split; [|split; [|reflexivity]]]]]].
    + repeat constructor; cbn; intuition.
    + intros x [<-|[<-|[]]]; unfold is_vehicle; [rewrite Tv|rewrite Tn]; reflexivity.
    + cbn. lia.
    + intros x y [<-|[<-|[]]] [<-|[<-|[]]] _ _; congruence.
    + intros K. unfold FullLimits. destruct (spawn_add nw s2 ty path s3 nv E3 HDp) as (sd & A & Cs).
      eapply FLu_add; [apply (FL2 K)|exact A|exact Cs].
    + intros K. eapply (spawn_FKs nw DLI s2 ty path s3 nv); eauto.
      intros Qd. change (node_is_depot nw (hd (SD 0) path)) with (is_depot (nd nw (hd (SD 0) path))) in Qd. congruence.
  - cbn [bind]. right. exists s2, [v].
    split; [exact R2|]. split; [|split; [|split; [|split; [|split; [exact FL2|split; [exact FK2|reflexivity]]]]]].
    + repeat constructor. intros [].
    + intros x [<-|[]]. exact Hv2.
    + cbn. lia.
    + apply (SameTyL_single s2 [v] v). intros x [<-|[]]. reflexivity.
Qed.
End MT.
Print Assumptions add_path_nc.
Print Assumptions maint_pre.
End NPB_mt.

Module NPB_cand.
Import Sorted.
Import Base BaseFacts Network NetSpec NetFacts Tour TourSpec TourStmts TourFacts TourValidFacts TourExactStmts TourExactFacts Transition TransSpec Schedule SchedInv SchedObs SchedStruct SchedCostsFacts SchedUnservedFacts SchedViolFacts SchedListFacts SchedToursFacts SchedFormLimFacts SchedUsageFacts SchedFormsFacts SchedTransFacts SchedExactFacts Swaps SwapsStmts SwapsFacts SwapsStmts2 SwapsFacts2 PipelineSched RenderStmts NoPanicStmts NPB_defs NPB_base NPB_sched NPB_tour NPB_trans NPB_seg NPB_utours NPB_spawn NPB_fit NPB_over NPB_fitre NPB_px NPB_mt.
(* NPB_cand.v — what [candidates] enumerates (CMaint, CExch), and the no-crash theorems for those candidates *)


Local Open Scope Z_scope.

Section Cand.
Variable nw : network.

Definition is_exch (c : cand) : bool := match c with CExch _ _ _ => true | _ => false end.
Definition is_maintc (c : cand) : bool := match c with CMaint _ _ => true | _ => false end.

Lemma fold_res_list_all {X V} (Q : X -> Prop) (f : res (list X) -> V -> res (list X)) :
  (forall r v x, f r v = Ok x -> exists y, r = Ok y) ->
  (forall l v x, Forall Q l -> f (Ok l) v = Ok x -> Forall Q x) ->
  forall l acc x, Forall Q acc -> fold_left f l (Ok acc) = Ok x -> Forall Q x.
Proof.
  intros Hs Hstep l. induction l as [|v l IH]; intros acc x HQ H; cbn [fold_left] in H.
  - inversion H; subst. exact HQ.
  - assert (Hy : exists y, f (Ok acc) v = Ok y).
    { clear IH. revert H. generalize (f (Ok acc) v). induction l as [|w l IHl]; intros r H; cbn [fold_left] in H; [eauto|].
      apply IHl in H. destruct H as [y Hy]. eapply Hs; eauto. }
    destruct Hy as [y Hy]. rewrite Hy in H. eapply IH; [|exact H]. eapply Hstep; eauto.
Qed.

Definition exch_ok (s : schedule) (c : cand) : Prop :=
  match c with
  | CExch seg p r => (exists sg, segments nw s p = Ok sg /\ In seg sg) /\
                     In r (vehicles_iter_all nw s ++ s_dummy_ids s) /\ r <> p
  | _ => False
  end.

Lemma candidates_inv s cs c : candidates nw s = Ok cs -> In c cs ->
  match c with
  | CMaint m v => In m (nw_maint nw) /\ In v (vehicles_iter_all nw s) /\
                  (match nget m (s_forms s) with Some f => Z.of_nat (length f) | None => 0 end) < track_count nw m
  | CExch seg p r => exch_ok s c
  | _ => True
  end.
Proof.
  unfold candidates. intros H Hin. cbv zeta in H.
  mon H. mon H. mon H. inversion H; subst cs; clear H.
  assert (Q2 : Forall (exch_ok s) a).
  { revert E. apply fold_res_list_all.
    - intros r v x Hx. destruct r; cbn [bind] in Hx; try discriminate Hx. eauto.
    - intros l p x HQ Hx. cbn [bind] in Hx. mon Hx. inversion Hx; subst x; clear Hx.
      apply Forall_app. split; [exact HQ|]. apply Forall_forall. intros y Hy.
      apply in_flat_map in Hy. destruct Hy as (seg & Hseg & Hy). apply in_map_iff in Hy. destruct Hy as (r & <- & Hr).
      apply filter_In in Hr. destruct Hr as [Hr Np]. cbn [exch_ok]. split; [eauto|]. split; [exact Hr|].
      intros ->. rewrite vid_eqb_refl in Np. discriminate.
    - constructor. }
  assert (Q3 : Forall (fun c => match c with CHitch _ _ => True | _ => False end) a0).
  { revert E0. apply fold_res_list_all.
    - intros r v x Hx. destruct r; cbn [bind] in Hx; try discriminate Hx. eauto.
    - intros l v x HQ Hx. cbn [bind] in Hx. mon Hx. inversion Hx; subst x; clear Hx.
      apply Forall_app. split; [exact HQ|]. apply Forall_forall. intros y Hy. apply in_map_iff in Hy.
      destruct Hy as (n & <- & _). exact I.
    - constructor. }
  assert (Q4 : Forall (fun c => match c with CRemove _ _ => True | _ => False end) a1).
  { revert E1. apply fold_res_list_all.
    - intros r v x Hx. destruct r; cbn [bind] in Hx; try discriminate Hx. eauto.
    - intros l v x HQ Hx. cbn [bind] in Hx. mon Hx. inversion Hx; subst x; clear Hx.
      apply Forall_app. split; [exact HQ|]. apply Forall_forall. intros y Hy. apply in_map_iff in Hy.
      destruct Hy as (n & <- & _). exact I.
    - constructor. }
  rewrite Forall_forall in Q2, Q3, Q4.
  apply in_app_or in Hin. destruct Hin as [Hin|Hin].
  - apply in_flat_map in Hin. destruct Hin as (m & Hm & Hc). apply in_map_iff in Hc. destruct Hc as (v & <- & Hv).
    apply sort_by_in in Hm. apply filter_In in Hm. destruct Hm as [Hm Hf]. apply Z.ltb_lt in Hf. auto.
  - apply in_app_or in Hin. destruct Hin as [Hin|Hin].
    + specialize (Q2 c Hin). destruct c; cbn [exch_ok] in Q2; try contradiction. exact Q2.
    + apply in_app_or in Hin. destruct Hin as [Hin|Hin].
      * specialize (Q3 c Hin). destruct c; try contradiction; exact I.
      * specialize (Q4 c Hin). destruct c; try contradiction; exact I.
Qed.

Lemma iter_all_vehicle s v : LInv nw true s -> In v (vehicles_iter_all nw s) -> is_vehicle s v = true.
Proof.
  intros [V _] H. unfold vehicles_iter_all in H. apply in_flat_map in H. destruct H as (ty & _ & Hv).
  change (vehicles_iter s ty) with (SchedListFacts.iter (s_ids s) ty) in Hv.
  apply (v_ids _ _ _ _ V) in Hv. unfold is_vehicle. now rewrite Hv.
Qed.

Lemma listed_has_tour s v : SchedCostsFacts.Inv nw s -> LInv nw true s ->
  In v (vehicles_iter_all nw s ++ s_dummy_ids s) -> exists t, tour_of s v = Ok t.
Proof.
  intros I L H. apply (vod_tour nw s v L). unfold is_vehicle_or_dummy. apply orb_true_iff.
  apply in_app_or in H. destruct H as [H|H].
  - left. now apply iter_all_vehicle.
  - right. destruct L as [_ D]. apply (d_sub _ _ _ _ D) in H. unfold is_dummy.
    destruct (vget v (s_dummies s)); [reflexivity | congruence].
Qed.
End Cand.
End NPB_cand.

Module NPB_imp.
Import Sorted.
Import Base BaseFacts Network NetSpec NetFacts Tour TourSpec TourStmts TourFacts TourValidFacts TourExactStmts TourExactFacts Transition TransSpec Schedule SchedInv SchedObs SchedStruct SchedCostsFacts SchedUnservedFacts SchedViolFacts SchedListFacts SchedToursFacts SchedFormLimFacts SchedUsageFacts SchedFormsFacts SchedTransFacts SchedExactFacts Swaps SwapsStmts SwapsFacts SwapsStmts2 SwapsFacts2 PipelineSched RenderStmts NoPanicStmts DepotStmts DepotFacts EndToEndStmts EndToEndFacts NoPanicFactsA NPB_defs NPB_lim.
(* NPB_imp.v — improve_depots / improve_and_recompute succeed for the lists the swaps pass (at most two vehicles of one
   type) on a schedule within the depot limits (overflow depot included) whose tours start at listed depots: every
   listed vehicle's own released place is available again, and a vehicle of the SAME type cannot take a place away
   that the other one needs without leaving its own *)


Local Open Scope Z_scope.

Lemma z_sum_dec {A} (f g : A -> Z) (x0 : A) (k : Z) (l : list A) :
  0 <= k -> (forall x, In x l -> f x <= g x) -> In x0 l -> f x0 + k <= g x0 ->
  z_sum (map f l) + k <= z_sum (map g l).
Proof.
  intros K. induction l as [|a l IH]; intros H Hin Hk; [destruct Hin|]. cbn [map]. rewrite !z_sum_cons.
  assert (R : z_sum (map f l) <= z_sum (map g l)).
  { clear IH Hin. induction l as [|b l IHl]; [cbn; lia|]. cbn [map]. rewrite !z_sum_cons.
    pose proof (H b (or_intror (or_introl eq_refl))). 
    assert (z_sum (map f l) <= z_sum (map g l)); [|lia]. apply IHl. intros x [->|Hx]; apply H; [left|right; right]; auto. }
  destruct Hin as [->|Hin].
  - lia.
  - pose proof (H a (or_introl eq_refl)). specialize (IH (fun x Hx => H x (or_intror Hx)) Hin Hk). lia.
Qed.

Section Imp.
Variable nw : network.
Hypothesis NF : net_fine nw.
Hypothesis NX : net_extra_b nw = true.
Notation idx := (get_depot_idx nw).
Notation sst := spawned_same_type.
Notation SDL := (nw_sdepots nw).

Lemma can_spawn_intro U sd ty : capacity_of nw (idx sd) ty <> 0 ->
  sst U (idx sd) ty < capacity_of nw (idx sd) ty -> spawned_total nw U (idx sd) < total_capacity_of nw (idx sd) ->
  can_depot_spawn nw U sd ty = true.
Proof.
  intros H0 H1 H2. unfold can_depot_spawn. cbv zeta.
  destruct (Z.eqb_spec (capacity_of nw (idx sd) ty) 0); [contradiction|].
  destruct (Z.leb_spec (capacity_of nw (idx sd) ty) (sst U (idx sd) ty)); [lia|].
  destruct (Z.leb_spec (total_capacity_of nw (idx sd)) (spawned_total nw U (idx sd))); [lia|]. reflexivity.
Qed.

Lemma find_ok u ty : (exists sd, In sd SDL /\ can_depot_spawn nw u sd ty = true) ->
  forall first, exists d, find_best_start_depot nw u ty first = Ok d /\ In d SDL.
Proof.
  intros (sd & Hin & C) first. unfold find_best_start_depot, start_depots_sorted_by_distance_to.
  match goal with |- context [find ?f ?l] => destruct (find f l) as [d|] eqn:E end.
  - apply find_some in E. destruct E as [Hd _]. apply sort_by_in in Hd. exists d. split; [reflexivity|exact Hd].
  - exfalso. pose proof (find_none _ _ E sd) as Q. rewrite sort_by_in in Q. specialize (Q Hin). cbn beta in Q. congruence.
Qed.

(* total of a depot when one type's count drops by k *)
Lemma total_dec U' U d ty k : 0 <= k -> ULe U' U -> In ty (type_ids nw) -> sst U' d ty + k <= sst U d ty ->
  spawned_total nw U' d + k <= spawned_total nw U d.
Proof.
  intros K L Hty H. unfold spawned_total. apply (z_sum_dec _ _ ty k); auto.
Qed.

Section S.
Variable s : schedule.
Hypothesis G : GoodI nw s.
Hypothesis FL : FullLimits nw s.
Hypothesis FK : FKs nw s.

(* one release step, by counts *)
Lemma step1_cnt u v ty t :
  vget v (s_vehicles s) = Some ty -> vget v (s_tours s) = Some t -> RV nw (t_nodes t) ->
  (forall d' ty', NoDup (sp_of u d' ty')) ->
  In v (sp_of u (idx (first_node t)) ty) -> In v (de_of u (idx (last_node t)) ty) ->
  exists u2, imp_step1 nw s (Ok u) v = Ok u2 /\ ULe u2 u /\
    sst u2 (idx (first_node t)) ty + 1 <= sst u (idx (first_node t)) ty /\
    (forall d' ty', NoDup (sp_of u2 d' ty')) /\
    (forall x d' ty', x <> v -> In x (sp_of u d' ty') -> In x (sp_of u2 d' ty')) /\
    (forall x d' ty', x <> v -> In x (de_of u d' ty') -> In x (de_of u2 d' ty')).
Proof.
  intros Hv Ht R ND Isp Ide.
  destruct (step1_total nw s u v ty t Hv Ht R Isp Ide) as (u2 & E & S2 & D2).
  exists u2. split; [exact E|]. split; [|split; [|split; [|split]]].
  - intros d' ty'. rewrite !nsp_len, S2. destruct (pair_eqb _ _) eqn:Q; [|lia].
    apply pair_eqb_dec in Q. destruct Q as [-> ->].
    pose proof (set_del_len v (sp_of u (idx (first_node t)) ty)). lia.
  - rewrite !nsp_len, S2, pair_eqb_refl.
    pose proof (set_del_len_in v _ (ND (idx (first_node t)) ty) Isp). lia.
  - intros d' ty'. rewrite S2. destruct (pair_eqb _ _); [apply set_del_nodup|]; apply ND.
  - intros x d' ty' Nx Hx. rewrite S2. destruct (pair_eqb _ _) eqn:Q; [|exact Hx].
    apply pair_eqb_dec in Q. destruct Q as [-> ->]. apply set_del_in. auto.
  - intros x d' ty' Nx Hx. rewrite D2. destruct (pair_eqb _ _) eqn:Q; [|exact Hx].
    apply pair_eqb_dec in Q. destruct Q as [-> ->]. apply set_del_in. auto.
Qed.

(* one re-homing step *)
Lemma step2_ok tours u costs v ty t :
  vget v (s_vehicles s) = Some ty -> In ty (type_ids nw) -> vget v (s_tours s) = Some t -> tour_of s v = Ok t ->
  t_dummy t = false -> RV nw (t_nodes t) -> tour_exact nw t ->
  (exists sd, In sd SDL /\ can_depot_spawn nw u sd ty = true) -> t_costs t <= costs ->
  exists nt c, imp_step2 nw s (Ok (tours, u, costs)) v =
                 Ok (vset v nt tours,
                     usage_add_despawn (usage_add_spawn u (idx (first_node nt)) ty v) (idx (last_node nt)) ty v, c) /\
    c = costs + t_costs nt - t_costs t /\ 0 <= t_costs nt /\ can_depot_spawn nw u (first_node nt) ty = true.
Proof.
  intros Hv Ity Ht Hto D R EX Room CO.
  unfold imp_step2. cbn [bind]. rewrite Hto. unfold vehicle_type_of. rewrite Hv. cbn [ok_or_err bind].
  destruct (idt_total nw NF NX u t ty D R EX (find_ok u ty Room)) as (nt & Ei & Dn & Rn & EXn).
  rewrite Ei. cbn [bind].
  pose proof (exact_costs_nn nw NF NX nt EXn) as NNn.
  destruct (z_sub_cost_total (costs + t_costs nt) (t_costs t)) as (c & -> & Ec); [lia|]. cbn [bind].
  exists nt, c. split; [reflexivity|]. split; [exact Ec|]. split; [exact NNn|].
  destruct (improve_tour_first nw u t ty nt Ei) as (fnd & FB). eapply find_best_can_spawn; eauto.
Qed.

Lemma own_place v ty t : vget v (s_vehicles s) = Some ty -> vget v (s_tours s) = Some t ->
  In v (sp_of (s_usage s) (idx (first_node t)) ty) ->
  In (first_node t) SDL /\ 1 <= sst (s_usage s) (idx (first_node t)) ty /\
  sst (s_usage s) (idx (first_node t)) ty <= capacity_of nw (idx (first_node t)) ty /\
  spawned_total nw (s_usage s) (idx (first_node t)) <= total_capacity_of nw (idx (first_node t)).
Proof.
  intros Hv Ht Isp. split; [apply (FK v t Ht)|]. destruct (FL (idx (first_node t))) as [A B].
  split; [|split; [apply A|exact B]].
  rewrite nsp_len. destruct (sp_of (s_usage s) (idx (first_node t)) ty); [destruct Isp|cbn [length]; lia].
Qed.

Lemma usage_nodup d ty : NoDup (sp_of (s_usage s) d ty).
Proof. exact (proj1 (uo_nodup nw s (gi_usage nw s G) d ty)). Qed.

(* the improve_depots step for at most two vehicles of one type *)
Theorem improve_depots_le2 changed :
  NoDup changed -> (forall v, In v changed -> is_vehicle s v = true) -> (length changed <= 2)%nat ->
  (forall a b, In a changed -> In b changed -> vget a (s_vehicles s) = vget b (s_vehicles s)) ->
  exists s', improve_depots nw s (Some changed) = Ok s' /\
    s_vehicles s' = s_vehicles s /\ s_ids s' = s_ids s /\
    VPart nw (s_vehicles s) (s_tours s') (s_ids s) /\
    TOK nw (s_trans s') (tfn nw (s_tours s')) (s_ids s).
Proof.
  intros N HV L2 ST. unfold improve_depots. cbv beta iota zeta.
  match goal with |- exists s', bind (fold_left ?f ?l ?a) _ = _ /\ _ => change f with (imp_step1 nw s) end.
  (* the two folds, unrolled *)
  assert (F12 : exists u0 tours' u' costs',
            fold_left (imp_step1 nw s) changed (Ok (s_usage s)) = Ok u0 /\
            fold_left (imp_step2 nw s) changed (Ok (s_tours s, u0, s_costs s)) = Ok (tours', u', costs') /\
            (forall x, vget x tours' = None <-> vget x (s_tours s) = None) /\
            (forall x, ~ In x changed -> vget x tours' = vget x (s_tours s))).
  { destruct changed as [|v1 [|v2 [|v3 rest]]]; cbn [length] in L2; try lia.
    - exists (s_usage s), (s_tours s), (s_usage s), (s_costs s). cbn [fold_left]. repeat split; auto.
    - (* one vehicle *)
      destruct (veh_facts nw s G v1 (HV v1 (or_introl eq_refl))) as (ty & t & Hv & Ity & _ & Ht & Hto & _ & D & R & EX & Isp & Ide).
      destruct (step1_cnt (s_usage s) v1 ty t Hv Ht R usage_nodup Isp Ide) as (u0 & E0 & LE & ST1 & _).
      destruct (own_place v1 ty t Hv Ht Isp) as (Hsd & P1 & P2 & P3).
      pose proof (total_dec u0 (s_usage s) (idx (first_node t)) ty 1 ltac:(lia) LE Ity ST1) as TD.
      destruct (step2_ok (s_tours s) u0 (s_costs s) v1 ty t Hv Ity Ht Hto D R EX) as (nt & c & E2 & _).
      { exists (first_node t). split; [exact Hsd|]. apply can_spawn_intro; lia. }
      { apply (tour_cost_le nw NF NX s G v1 t Ht). }
      eexists u0, _, _, _. cbn [fold_left]. split; [exact E0|]. split; [exact E2|]. split.
      + intros x. rewrite vget_vset. destruct (vid_eqb x v1) eqn:Q; [|reflexivity].
        apply vid_eqb_eq in Q. subst. rewrite Ht. split; discriminate.
      + intros x Hx. rewrite vget_vset. destruct (vid_eqb x v1) eqn:Q; [|reflexivity].
        apply vid_eqb_eq in Q. subst. exfalso. apply Hx. now left.
    - (* two vehicles of one type *)
      inversion N as [|? ? N1 N2]; subst. assert (N12 : v2 <> v1) by (intros ->; apply N1; now left).
      destruct (veh_facts nw s G v1 (HV v1 (or_introl eq_refl))) as (ty & t1 & Hv1 & Ity & _ & Ht1 & Hto1 & _ & D1 & R1 & EX1 & Isp1 & Ide1).
      destruct (veh_facts nw s G v2 (HV v2 (or_intror (or_introl eq_refl)))) as (ty2 & t2 & Hv2 & _ & _ & Ht2 & Hto2 & _ & D2 & R2 & EX2 & Isp2 & Ide2).
      assert (ty2 = ty).
      { pose proof (ST v1 v2 (or_introl eq_refl) (or_intror (or_introl eq_refl))) as Q. rewrite Hv1, Hv2 in Q. congruence. }
      subst ty2.
      set (d1 := idx (first_node t1)) in *. set (d2 := idx (first_node t2)) in *.
      destruct (step1_cnt (s_usage s) v1 ty t1 Hv1 Ht1 R1 usage_nodup Isp1 Ide1) as (ua & Ea & LEa & STa & NDa & KSa & KDa).
      destruct (step1_cnt ua v2 ty t2 Hv2 Ht2 R2 NDa (KSa v2 _ _ N12 Isp2) (KDa v2 _ _ N12 Ide2)) as (u0 & Eb & LEb & STb & _).
      fold d1 in STa. fold d2 in STb.
      destruct (own_place v1 ty t1 Hv1 Ht1 Isp1) as (Hsd1 & P11 & P12 & P13). fold d1 in P11, P12, P13.
      destruct (own_place v2 ty t2 Hv2 Ht2 Isp2) as (Hsd2 & P21 & P22 & P23). fold d2 in P21, P22, P23.
      assert (LE0 : ULe u0 (s_usage s)) by (eapply ULe_trans; eauto).
      pose proof (LEb d1 ty) as Lb1. pose proof (LEa d2 ty) as La2.
      (* counts after both releases *)
      assert (C1 : sst u0 d1 ty + 1 <= sst (s_usage s) d1 ty) by lia.
      assert (C2 : sst u0 d2 ty + 1 <= sst (s_usage s) d2 ty) by lia.
      assert (C12 : d1 = d2 -> sst u0 d1 ty + 2 <= sst (s_usage s) d1 ty).
      { intros Q. rewrite <- Q in STb. lia. }
      pose proof (total_dec u0 (s_usage s) d1 ty 1 ltac:(lia) LE0 Ity C1) as T1.
      pose proof (total_dec u0 (s_usage s) d2 ty 1 ltac:(lia) LE0 Ity C2) as T2.
      assert (T12 : d1 = d2 -> spawned_total nw u0 d1 + 2 <= spawned_total nw (s_usage s) d1).
      { intros Q. apply (total_dec u0 (s_usage s) d1 ty 2); auto; lia. }
      (* first vehicle *)
      destruct (step2_ok (s_tours s) u0 (s_costs s) v1 ty t1 Hv1 Ity Ht1 Hto1 D1 R1 EX1) as (nt1 & c1 & E21 & Ec1 & NN1 & CS1).
      { exists (first_node t1). split; [exact Hsd1|]. apply can_spawn_intro; fold d1; lia. }
      { apply (tour_cost_le nw NF NX s G v1 t1 Ht1). }
      set (u1 := usage_add_despawn (usage_add_spawn u0 (idx (first_node nt1)) ty v1) (idx (last_node nt1)) ty v1) in *.
      assert (A1 : UAdd u1 u0 (idx (first_node nt1)) ty).
      { unfold u1. eapply UAdd_ULe_l; [apply UEq_ULe; apply add_despawn_cnt|apply add_spawn_cnt]. }
      set (e := idx (first_node nt1)) in *.
      (* second vehicle: a place is left *)
      assert (Room2 : exists sd, In sd SDL /\ can_depot_spawn nw u1 sd ty = true).
      { destruct (Z.eq_dec d1 d2) as [Q|Q].
        - exists (first_node t2). split; [exact Hsd2|]. apply can_spawn_intro; fold d2.
          + lia.
          + pose proof (A1 d2 ty). destruct (pair_eqb (d2, ty) (e, ty)); specialize (C12 Q); rewrite Q in C12; lia.
          + pose proof (total_add nw u1 u0 e ty d2 A1). specialize (T12 Q). rewrite Q in T12. destruct (d2 =? e); lia.
        - destruct (Z.eq_dec e d2) as [Qe|Qe].
          + exists (first_node t1). split; [exact Hsd1|]. apply can_spawn_intro; fold d1.
            * lia.
            * pose proof (A1 d1 ty) as X. destruct (pair_eqb (d1, ty) (e, ty)) eqn:PE; [|lia].
              apply pair_eqb_dec in PE. destruct PE as [PE _]. congruence.
            * pose proof (total_add nw u1 u0 e ty d1 A1) as X. destruct (Z.eqb_spec d1 e); [congruence|lia].
          + exists (first_node t2). split; [exact Hsd2|]. apply can_spawn_intro; fold d2.
            * lia.
            * pose proof (A1 d2 ty) as X. destruct (pair_eqb (d2, ty) (e, ty)) eqn:PE; [|lia].
              apply pair_eqb_dec in PE. destruct PE as [PE _]. congruence.
            * pose proof (total_add nw u1 u0 e ty d2 A1) as X. destruct (Z.eqb_spec d2 e); [congruence|lia]. }
      destruct (step2_ok (vset v1 nt1 (s_tours s)) u1 c1 v2 ty t2 Hv2 Ity Ht2 Hto2 D2 R2 EX2 Room2) as (nt2 & c2 & E22 & _).
      { (* costs *)
        destruct (gi_costs _ _ G) as [NK EC]. destruct (gi_exact _ _ G) as [EXA _].
        pose proof (oc_sum_le [v1; v2] (s_tours s) NK) as Q. cbn [map] in Q. rewrite Ht1, Ht2 in Q.
        rewrite !z_sum_cons in Q. change (z_sum []) with 0 in Q. fold (tsum (s_tours s)) in EC.
        destruct (rates_nn nw NX) as (_ & _ & _ & _ & R5 & _).
        assert (t_costs t1 + (t_costs t2 + 0) <= tsum (s_tours s)); [|lia]. apply Q; [|exact N].
        intros k t Hin. apply (exact_costs_nn nw NF NX). apply (EXA k). apply in_vget; assumption. }
      eexists u0, _, _, _. cbn [fold_left]. split; [exact (eq_trans (f_equal (fun r => imp_step1 nw s r v2) Ea) Eb)|].
      split; [exact (eq_trans (f_equal (fun r => imp_step2 nw s r v2) E21) E22)|]. split.
      + intros x. rewrite !vget_vset. destruct (vid_eqb x v2) eqn:Q2.
        * apply vid_eqb_eq in Q2. subst. rewrite Ht2. split; discriminate.
        * destruct (vid_eqb x v1) eqn:Q1; [|reflexivity]. apply vid_eqb_eq in Q1. subst. rewrite Ht1. split; discriminate.
      + intros x Hx. rewrite !vget_vset. destruct (vid_eqb x v2) eqn:Q2.
        * apply vid_eqb_eq in Q2. subst. exfalso. apply Hx. right. now left.
        * destruct (vid_eqb x v1) eqn:Q1; [|reflexivity]. apply vid_eqb_eq in Q1. subst. exfalso. apply Hx. now left. }
  destruct F12 as (u0 & tours' & u' & costs' & E0 & E2 & KE & FR).
  unfold usage_t in E0. rewrite E0. cbn [bind].
  match goal with |- exists s', bind (fold_left ?f ?l ?a) _ = _ /\ _ => change f with (imp_step2 nw s) end.
  unfold usage_t in E2. rewrite E2. cbn [bind]. pose proof (vpart nw s G) as VP.
  assert (VP' : VPart nw (s_vehicles s) tours' (s_ids s)) by (eapply V_same_keys; [exact VP|exact KE]).
  assert (STb : forall v ty ty', vget v (s_vehicles s) = Some ty -> vget v (s_vehicles s) = Some ty' -> ty = ty') by (intros; congruence).
  assert (NDf : NoDup (filter vid_is_real changed)) by (apply NoDup_filter; exact N).
  destruct (update_transitions_total nw s (s_vehicles s) tours' (s_ids s) VP VP' STb (s_trans s) (s_viol s) changed
              (tok nw s G) NDf) as ([tr vi] & UT).
  { intros v Hv _. left. apply HV. exact Hv. }
  rewrite UT. cbn [bind]. eexists. split; [reflexivity|]. cbn [with_fields s_vehicles s_ids s_tours s_trans].
  split; [reflexivity|]. split; [reflexivity|]. split; [exact VP'|].
  eapply (update_transitions_T nw s (s_vehicles s) tours' (s_ids s) VP VP' STb); [| | |exact NDf|apply (tok nw s G)|exact UT].
  - intros v _ Hn. split; [reflexivity|]. apply FR. exact Hn.
  - apply (real_keys nw s G).
  - apply (real_keys nw s G).
Qed.

Theorem improve_and_recompute_le2 changed :
  NoDup changed -> (forall v, In v changed -> is_vehicle s v = true) -> (length changed <= 2)%nat ->
  (forall a b, In a changed -> In b changed -> vget a (s_vehicles s) = vget b (s_vehicles s)) ->
  exists s', improve_and_recompute nw s changed = Ok s'.
Proof.
  intros N HV L2 ST. eapply improve_and_recompute_from_depots; eauto.
  apply improve_depots_le2; auto.
Qed.
End S.
End Imp.
Print Assumptions improve_and_recompute_le2.
End NPB_imp.

Module NPB_wit.
Import Sorted.
Import Base BaseFacts Network NetSpec NetFacts Tour TourSpec TourStmts TourFacts TourValidFacts TourExactStmts TourExactFacts Transition TransSpec Schedule SchedInv SchedObs SchedStruct SchedCostsFacts SchedListFacts SchedToursFacts Swaps SwapsStmts SwapsFacts SwapsStmts2 SwapsFacts2 PipelineSched RenderStmts NoPanicStmts NPB_defs NPB_base.
(* NPB_wit.v — regression example for the repaired defect "a spawn without any free depot panicked": a schedule reached
   from a one-vehicle schedule by nine enumerated, successful local-search moves has ALL depots full, the overflow
   depot included.  Before the repair the enumerated candidate CMaint panicked there
   (find_best_start_depot_for_spawning .expect("There should be at least the overflow depot available"), confirmed on
   the code); now the spawn is refused and the candidate is dropped. *)


Local Open Scope Z_scope.

Module WitnessRoom.
(* one vehicle type WITHOUT formation limit; one depot of capacity 1 at location 0; trips a = SV 4 (L0->L1,
   10000-11000) and b = SV 5 (L1->L0, 20000-21000); one maintenance slot MT 6 at L1 (10500-10800, 1 track) that
   overlaps trip a.  load sizes the overflow depot at max(nservice * max_formation, upper bound) = max(2*1, 2+1) = 3,
   where a type without limit counts as formation size 1. *)
Definition instS : instance := {|
  i_types := [ {| vt_cap := 100; vt_seats := 50; vt_limit := None |} ];
  i_nlocs := 2;
  i_depots := Some [ {| id_loc := 0; id_cap := 1; id_allowed := [(0, None)] |} ];
  i_routes := [ {| r_type := 0; r_segs := [ {| rs_origin := 0; rs_dest := 1; rs_dist := 1000; rs_dur := 1000; rs_limit := None |} ] |};
                {| r_type := 0; r_segs := [ {| rs_origin := 1; rs_dest := 0; rs_dist := 1000; rs_dur := 1000; rs_limit := None |} ] |} ];
  i_departures := [ {| d_route := 0; d_segs := [ {| ds_rseg := 0; ds_dep := 10000; ds_pass := 10; ds_seated := 5 |} ] |};
                    {| d_route := 1; d_segs := [ {| ds_rseg := 0; ds_dep := 20000; ds_pass := 10; ds_seated := 5 |} ] |} ];
  i_slots := Some [ {| is_loc := 1; is_start := 10500; is_end := 10800; is_tracks := 1 |} ];
  i_dh_dur := [[0; 60]; [60; 0]];
  i_dh_dist := [[0; 1000]; [1000; 0]];
  i_params := {| p_forbid := false; p_min := 0; p_dht := 0; p_maxdist := 100000;
                 c_staff := 1; c_service := 1; c_maint := 0; c_dh := 5; c_idle := 1 |} |}.
Definition nwS : network := Eval vm_compute in get_ok (load instS []) nw_dflt.
Lemma nwS_loaded : load instS [] = Ok nwS.
Proof. vm_compute. reflexivity. Qed.
Lemma nwS_ok : net_ok_b nwS = true.
Proof. vm_compute. reflexivity. Qed.
Lemma nwS_ml : maint_listed_ok nwS.
Proof. intros m Hm. vm_compute in Hm. destruct Hm as [<-|[]]. vm_compute. reflexivity. Qed.
Lemma nwS_cov : NoDup (coverable_nodes nwS).
Proof.
  assert (E : coverable_nodes nwS = [SV 4; SV 5; MT 6]) by (vm_compute; reflexivity). rewrite E.
  repeat constructor; cbn; intuition discriminate.
Qed.
Lemma nwS_fine : net_fine nwS.
Proof. split; [exact nwS_ok|]. split; [exact nwS_ml | exact nwS_cov]. Qed.
Lemma nwS_df : dists_finite_b nwS = true.
Proof. vm_compute. reflexivity. Qed.
Lemma nwS_dh : dh_dists_finite_b nwS = true.
Proof. vm_compute. reflexivity. Qed.
Lemma nwS_overflow : nw_overflow nwS = (1, SD 2, ED 3) /\ total_capacity_of nwS 0 = 1 /\ total_capacity_of nwS 1 = 3.
Proof. vm_compute. auto. Qed.

Definition stepc (s : schedule) (c : cand) : schedule := get_ok (apply_cand nwS s c) s_dflt.
Definition m := MT 6.  Definition a := SV 4.  Definition v0 := Veh 0.
Definition s0 : schedule := Eval vm_compute in get_ok (empty_schedule nwS) s_dflt.
Definition s1 : schedule := Eval vm_compute in fst (get_ok (spawn_vehicle_for_path nwS s0 0 [SV 4; SV 5]) (s_dflt, Veh 99)).
(* one round: service m with v0 (the conflicting trip a goes to a NEW vehicle); drop m again; hitch-hike on a again *)
Definition s2 := Eval vm_compute in stepc s1 (CMaint m v0).
Definition s3 := Eval vm_compute in stepc s2 (CRemove m v0).
Definition s4 := Eval vm_compute in stepc s3 (CHitch a v0).
Definition s5 := Eval vm_compute in stepc s4 (CMaint m v0).
Definition s6 := Eval vm_compute in stepc s5 (CRemove m v0).
Definition s7 := Eval vm_compute in stepc s6 (CHitch a v0).
Definition s8 := Eval vm_compute in stepc s7 (CMaint m v0).
Definition s9 := Eval vm_compute in stepc s8 (CRemove m v0).
Definition s10 := Eval vm_compute in stepc s9 (CHitch a v0).

Definition cand_eqb (x y : cand) : bool :=
  match x, y with
  | CMaint m1 v1, CMaint m2 v2 => nid_eqb m1 m2 && vid_eqb v1 v2
  | CExch (a1, a2) p1 r1, CExch (b1, b2) p2 r2 => nid_eqb a1 b1 && nid_eqb a2 b2 && vid_eqb p1 p2 && vid_eqb r1 r2
  | CHitch n1 v1, CHitch n2 v2 => nid_eqb n1 n2 && vid_eqb v1 v2
  | CRemove n1 v1, CRemove n2 v2 => nid_eqb n1 n2 && vid_eqb v1 v2
  | _, _ => false end.
Lemma cand_eqb_eq x y : cand_eqb x y = true -> x = y.
Proof.
  destruct x as [? ?|[? ?] ? ?|? ?|? ?], y as [? ?|[? ?] ? ?|? ?|? ?]; cbn; try discriminate;
    rewrite ?andb_true_iff; intros H; repeat match goal with H : _ /\ _ |- _ => destruct H end;
    repeat match goal with
           | H : nid_eqb _ _ = true |- _ => apply nid_eqb_eq in H
           | H : vid_eqb _ _ = true |- _ => apply vid_eqb_eq in H end; subst; reflexivity.
Qed.
Definition enumerated (s : schedule) (c : cand) : bool :=
  match candidates nwS s with Ok cs => existsb (cand_eqb c) cs | _ => false end.
Lemma enumerated_in s c : enumerated s c = true -> exists cs, candidates nwS s = Ok cs /\ In c cs.
Proof.
  unfold enumerated. destruct (candidates nwS s) as [cs| | |]; try discriminate. intros H.
  exists cs. split; [reflexivity|]. apply existsb_exists in H. destruct H as (x & Hx & E). apply cand_eqb_eq in E. now subst.
Qed.

(* every move of the run is an enumerated candidate and succeeds *)
Lemma run_enumerated :
  forallb (fun '(s, c) => enumerated s c)
    [(s1, CMaint m v0); (s2, CRemove m v0); (s3, CHitch a v0); (s4, CMaint m v0); (s5, CRemove m v0); (s6, CHitch a v0);
     (s7, CMaint m v0); (s8, CRemove m v0); (s9, CHitch a v0); (s10, CMaint m v0)] = true.
Proof. vm_compute. reflexivity. Qed.
Lemma run_ok :
  apply_cand nwS s1 (CMaint m v0) = Ok s2 /\ apply_cand nwS s2 (CRemove m v0) = Ok s3 /\ apply_cand nwS s3 (CHitch a v0) = Ok s4 /\
  apply_cand nwS s4 (CMaint m v0) = Ok s5 /\ apply_cand nwS s5 (CRemove m v0) = Ok s6 /\ apply_cand nwS s6 (CHitch a v0) = Ok s7 /\
  apply_cand nwS s7 (CMaint m v0) = Ok s8 /\ apply_cand nwS s8 (CRemove m v0) = Ok s9 /\ apply_cand nwS s9 (CHitch a v0) = Ok s10.
Proof. vm_compute. repeat split. Qed.

Lemma s1_wreachable : wreachable nwS s1.
Proof.
  eapply wr_step; [apply wr_empty; vm_compute; reflexivity|].
  eapply (ws_spawn nwS s0 0 [SV 4; SV 5] s1 (Veh 0)); [|vm_compute; reflexivity].
  split; [discriminate|]. split; [|vm_compute; reflexivity].
  intros x y Hin. cbn in Hin. destruct Hin as [E|[]]. inversion E; subst. vm_compute. reflexivity.
Qed.

Lemma s10_wreachable : wreachable nwS s10.
Proof.
  destruct run_ok as (E1 & E2 & E3 & E4 & E5 & E6 & E7 & E8 & E9).
  pose proof (apply_cand_wreachable_ok nwS nwS_ok nwS_ml) as A.
  pose proof s1_wreachable as R1.
  pose proof (A _ _ _ R1 E1) as R2. pose proof (A _ _ _ R2 E2) as R3. pose proof (A _ _ _ R3 E3) as R4.
  pose proof (A _ _ _ R4 E4) as R5. pose proof (A _ _ _ R5 E5) as R6. pose proof (A _ _ _ R6 E6) as R7.
  pose proof (A _ _ _ R7 E7) as R8. pose proof (A _ _ _ R8 E8) as R9. exact (A _ _ _ R9 E9).
Qed.

(* the tours of the final schedule: four vehicles, all depots (capacities 1 and 3) full *)
Lemma s10_tours :
  map (fun '(v, t) => (v, t_nodes t)) (s_tours s10) =
    [(Veh 0, [SD 0; SV 4; SV 5; ED 1]); (Veh 1, [SD 2; SV 4; ED 1]); (Veh 2, [SD 2; SV 4; ED 1]); (Veh 3, [SD 2; SV 4; ED 1])].
Proof. vm_compute. reflexivity. Qed.

Theorem s10_good : Good nwS s10.
Proof. apply (wreachable_good nwS nwS_fine nwS_df nwS_dh nwS_fine nwS_df nwS_dh). exact s10_wreachable. Qed.

Theorem s10_no_room : ~ SpawnRoom nwS s10.
Proof.
  intros SR. destruct (SR 0 (SV 4)) as [d Hd]; [vm_compute; auto|]. vm_compute in Hd. discriminate.
Qed.

(* the enumerated candidate CMaint m v0 on s10 needs a fifth vehicle for its conflict path [a]: it is now refused *)
Theorem enumerated_candidate_refused :
  exists cs c, candidates nwS s10 = Ok cs /\ In c cs /\ apply_cand nwS s10 c = Err.
Proof.
  destruct (enumerated_in s10 (CMaint m v0)) as (cs & E & Hin).
  { pose proof run_enumerated as H. cbn [forallb] in H. rewrite !andb_true_iff in H. tauto. }
  exists cs, (CMaint m v0). split; [exact E|]. split; [exact Hin|]. vm_compute. reflexivity.
Qed.
(* the lookup as it was before the repair (an unwrap; still used by improve_depots_of_tour) panics on this state,
   the repaired one returns Err *)
Theorem lookup_before_and_after :
  find_best_start_depot nwS (s_usage s10) 0 (SV 4) = Panic /\ find_best_start_depot_res nwS (s_usage s10) 0 (SV 4) = Err.
Proof. vm_compute. auto. Qed.
(* "room in EVERY wreachable schedule" (the premise of stmt_neighbors_no_crash) is false on this network *)
Theorem room_everywhere_false : ~ (forall s', wreachable nwS s' -> SpawnRoom nwS s').
Proof. intros H. exact (s10_no_room (H s10 s10_wreachable)). Qed.
(* the public modification is refused as well, and the whole neighbourhood of s10 is generated without a crash *)
Theorem spawn_refused_when_full : spawn_vehicle_for_path nwS s10 0 [SV 4] = Err.
Proof. vm_compute. reflexivity. Qed.
Theorem neighbors_of_full_state_ok : exists l, neighbors nwS s10 = Ok l.
Proof. destruct (neighbors nwS s10) as [l| | |] eqn:E; [eauto| | |]; vm_compute in E; discriminate E. Qed.
End WitnessRoom.
Print Assumptions WitnessRoom.enumerated_candidate_refused.
Print Assumptions WitnessRoom.neighbors_of_full_state_ok.
Print Assumptions WitnessRoom.room_everywhere_false.
End NPB_wit.

Module NPB_wit2.
Import Sorted.
Import Base BaseFacts Network NetSpec NetFacts Tour TourSpec TourStmts TourFacts TourValidFacts TourExactStmts TourExactFacts Transition TransSpec Schedule SchedInv SchedObs SchedStruct SchedCostsFacts SchedListFacts SchedToursFacts Swaps SwapsStmts SwapsFacts SwapsStmts2 SwapsFacts2 PipelineSched RenderStmts NoPanicStmts NPB_defs NPB_base.
(* NPB_wit2.v — stmt_apply_cand_no_crash is false as written also for a second reason: [Good] only demands that dummy
   tours are chronological (dummy_tour_ok), not that consecutive nodes are connectable; on such a record the
   enumerated candidate CExch panics at check_receiver_type_compatibility's sub_path(..).unwrap().  (No wreachable
   schedule has such a dummy tour: TIs.) *)


Local Open Scope Z_scope.

Module WitnessGood.
(* nwC (SchedToursFacts.v): a = SV 5 -> m = MT 8 -> c = SV 6 connectable, a -> c not (same station, too short a turn) *)
Lemma nwC_ml : maint_listed_ok nwC.
Proof. intros m Hm. vm_compute in Hm. destruct Hm as [<-|[]]. vm_compute. reflexivity. Qed.
Lemma nwC_cov : NoDup (coverable_nodes nwC).
Proof.
  assert (E : coverable_nodes nwC = [SV 4; SV 5; SV 6; SV 7; MT 8]) by (vm_compute; reflexivity). rewrite E.
  repeat constructor; cbn; intuition discriminate.
Qed.
Lemma nwC_fine : net_fine nwC.
Proof. split; [exact nwC_ok|]. split; [exact nwC_ml | exact nwC_cov]. Qed.
Lemma nwC_df : dists_finite_b nwC = true.
Proof. vm_compute. reflexivity. Qed.
Lemma nwC_dh : dh_dists_finite_b nwC = true.
Proof. vm_compute. reflexivity. Qed.

Definition s0 : schedule := Eval vm_compute in get_ok (empty_schedule nwC) s_dflt.
Definition s1 := Eval vm_compute in fst (get_ok (spawn_vehicle_for_path nwC s0 0 [SV 5; MT 8; SV 6; SV 7]) (s_dflt, Veh 99)).
Definition s2 := Eval vm_compute in fst (get_ok (spawn_vehicle_for_path nwC s1 0 [SV 4]) (s_dflt, Veh 99)).
Definition s3 := Eval vm_compute in get_ok (replace_vehicle_by_dummy nwC s2 (Veh 0)) s_dflt.

Lemma vp1 : valid_path nwC [SV 5; MT 8; SV 6; SV 7].
Proof.
  split; [discriminate|]. split; [|vm_compute; reflexivity].
  intros x y Hin. cbn in Hin. destruct Hin as [E|[E|[E|[]]]]; inversion E; subst; vm_compute; reflexivity.
Qed.
Lemma vp2 : valid_path nwC [SV 4].
Proof. split; [discriminate|]. split; [|vm_compute; reflexivity]. intros x y Hin. cbn in Hin. destruct Hin. Qed.

Lemma s3_wreachable : wreachable nwC s3.
Proof.
  eapply wr_step; [eapply wr_step; [eapply wr_step; [apply wr_empty; vm_compute; reflexivity|]|]|].
  - eapply (ws_spawn nwC s0 0 _ s1 (Veh 0) vp1). vm_compute. reflexivity.
  - eapply (ws_spawn nwC s1 0 _ s2 (Veh 1) vp2). vm_compute. reflexivity.
  - eapply (ws_delete nwC s2 (Veh 0) s3). vm_compute. reflexivity.
Qed.
Lemma s3_dummies : map (fun '(d, t) => (d, t_nodes t)) (s_dummies s3) = [(Dummy 2, [SV 5; MT 8; SV 6; SV 7])].
Proof. vm_compute. reflexivity. Qed.

(* the same record with the maintenance slot dropped from the dummy tour: chronological, exact, not connected *)
Definition dt : tour := new_computing nwC [SV 5; SV 6; SV 7] true.
Definition bad : schedule :=
  with_fields (s_vehicles s3) (s_tours s3) (s_trans s3) (s_forms s3) (s_usage s3) [(Dummy 2, dt)] (s_counter s3)
              (s_ids s3) (s_dummy_ids s3) (s_unserved s3) (s_viol s3) (s_costs s3).

Lemma bad_dummy d t : vget d (s_dummies bad) = Some t -> d = Dummy 2 /\ t = dt.
Proof.
  cbn [bad with_fields s_dummies]. rewrite vget_cons. destruct (vid_eqb d (Dummy 2)) eqn:E.
  - apply vid_eqb_eq in E. intros H. inversion H. auto.
  - discriminate.
Qed.

Theorem bad_good : Good nwC bad.
Proof.
  pose proof (wreachable_good nwC nwC_fine nwC_df nwC_dh nwC_fine nwC_df nwC_dh s3 s3_wreachable) as G.
  destruct G as [G1 G2 G3 G4 G5 G6 G7 G8 G9 G10]. constructor.
  - destruct G1 as [A B]. constructor; [exact A|]. intros d t H. apply bad_dummy in H. destruct H as [-> ->].
    vm_compute. reflexivity.
  - destruct G2 as [A1 A2 A3 A4 A5 A6 A7 A8 A9 A10 A11]. constructor; assumption.
  - destruct G3 as [A1 A2 A3 A4]. constructor; assumption.
  - exact G4.
  - destruct G5 as [A1 A2 A3 A4]. constructor; assumption.
  - exact G6.
  - destruct G7 as [A B]. split; [exact A|]. intros d t H. apply bad_dummy in H. destruct H as [-> ->]. reflexivity.
  - exact G8.
  - exact G9.
  - exact G10.
Qed.

(* chronological but not connectable *)
Lemma bad_dummy_shape : dummy_tour_ok nwC (Dummy 2, dt) = true /\ can_reach nwC (SV 5) (SV 6) = false.
Proof. vm_compute. auto. Qed.

Lemma find_exists (u : list ((Z * Z) * (list vehicle_id * list vehicle_id))) ty first d :
  In d (nw_sdepots nwC) -> can_depot_spawn nwC u d ty = true -> exists d', find_best_start_depot nwC u ty first = Ok d'.
Proof.
  intros Hin Hc. unfold find_best_start_depot.
  destruct (find _ _) as [x|] eqn:F; [cbn; eauto|]. exfalso.
  eapply find_none in F; [|unfold start_depots_sorted_by_distance_to; apply sort_by_in; exact Hin].
  cbn beta in F. congruence.
Qed.

Theorem bad_room : SpawnRoom nwC bad.
Proof.
  intros ty first Hty. assert (E : type_ids nwC = [0]) by (vm_compute; reflexivity). rewrite E in Hty.
  destruct Hty as [<-|[]]. apply (find_exists _ 0 first (SD 0)); vm_compute; auto.
Qed.

Definition c : cand := CExch (SV 5, SV 6) (Dummy 2) (Veh 1).

Theorem enumerated_candidate_panics :
  exists cs, candidates nwC bad = Ok cs /\ In c cs /\ apply_cand nwC bad c = Panic.
Proof.
  destruct (candidates nwC bad) as [cs| | |] eqn:E; try (vm_compute in E; discriminate E).
  exists cs. split; [reflexivity|]. split; [|vm_compute; reflexivity].
  vm_compute in E. inversion E; subst cs. unfold c. cbn. tauto.
Qed.

Theorem apply_cand_no_crash_refuted : ~ stmt_apply_cand_no_crash nwC.
Proof.
  intros H. destruct enumerated_candidate_panics as (cs & E & Hin & P).
  destruct (H nwC_fine nwC_df nwC_dh bad cs c bad_good bad_room E Hin) as [N _]. congruence.
Qed.
End WitnessGood.
Print Assumptions WitnessGood.apply_cand_no_crash_refuted.
End NPB_wit2.

Module NPB_chk.
Import Sorted.
Import Base BaseFacts Network NetSpec NetFacts Tour TourSpec TourStmts TourFacts TourValidFacts TourExactStmts TourExactFacts Transition TransSpec Schedule SchedInv SchedObs SchedStruct SchedCostsFacts SchedListFacts SchedToursFacts Swaps SwapsStmts SwapsFacts SwapsStmts2 SwapsFacts2 PipelineSched RenderStmts NoPanicStmts NPB_defs NPB_base NPB_sched NPB_tour NPB_spawn NPB_wit.
(* NPB_chk.v — executable readings of the two network side conditions, and their validity on the witness network *)


Local Open Scope Z_scope.

Definition unsigned_b (nw : network) : bool :=
  let P := nw_params nw in
  (0 <=? c_service P) && (0 <=? c_maint P) && (0 <=? c_dh P) && (0 <=? c_idle P) &&
  (0 <=? nw_nservice nw * c_staff P) && (0 <=? planning_sec nw) &&
  forallb (fun '(_, n) => match n_travel_dist n with Dist m => 0 <=? m | DistInf => true end) (nw_nodes nw) &&
  forallb (fun row => forallb (fun '(d, _) => match d with Dist m => 0 <=? m | DistInf => true end) row) (nw_dh nw).

Definition cov_all_b (nw : network) : bool :=
  forallb (fun '(k, n) => is_depot n || mem_nid k (coverable_nodes nw)) (nw_nodes nw).

Lemma unsigned_b_ok nw : unsigned_b nw = true -> unsigned_ok nw.
Proof.
  unfold unsigned_b. cbv zeta. rewrite !andb_true_iff. intros (((((((H1 & H2) & H3) & H4) & H5) & H6) & H7) & H8).
  apply Z.leb_le in H1, H2, H3, H4, H5, H6. rewrite forallb_forall in H7, H8.
  constructor; auto.
  - intros n m E. unfold nd in E. destruct (assoc nid_eqb n (nw_nodes nw)) as [x|] eqn:A.
    + apply (assoc_in _ nid_eqb_eq) in A. specialize (H7 _ A). cbn in H7. rewrite E in H7. now apply Z.leb_le.
    + cbn in E. inversion E. lia.
  - intros a b m E. unfold dead_head_distance_between, loc_distance in E.
    destruct (n_end_loc (nd nw a)) as [x|]; [|discriminate]. destruct (n_start_loc (nd nw b)) as [y|]; [|discriminate].
    unfold dh_entry in E. destruct (nth_error (nw_dh nw) (Z.to_nat x)) as [row|] eqn:R; [|inversion E; lia].
    destruct (nth_error row (Z.to_nat y)) as [[d t]|] eqn:C; [|inversion E; lia].
    apply nth_error_In in R, C. specialize (H8 _ R). rewrite forallb_forall in H8. specialize (H8 _ C). cbn in H8.
    subst d. now apply Z.leb_le.
Qed.

Lemma cov_all_b_ok nw : cov_all_b nw = true -> cov_all nw.
Proof.
  unfold cov_all_b. rewrite forallb_forall. intros H n Hd. unfold nd in Hd.
  destruct (assoc nid_eqb n (nw_nodes nw)) as [x|] eqn:A; [|discriminate Hd].
  apply (assoc_in _ nid_eqb_eq) in A. specialize (H _ A). cbn in H. rewrite Hd in H. cbn in H.
  now apply mem_nid_in.
Qed.

(* the hypotheses of the theorems of this file hold on the witness network (non-vacuity) *)
Lemma nwS_unsigned : unsigned_ok WitnessRoom.nwS.
Proof. apply unsigned_b_ok. vm_compute. reflexivity. Qed.
Lemma nwS_cov_all : cov_all WitnessRoom.nwS.
Proof. apply cov_all_b_ok. vm_compute. reflexivity. Qed.
End NPB_chk.

Module NPB_comb.
Import Sorted.
Import Base BaseFacts Network NetSpec NetFacts Tour TourSpec TourStmts TourFacts TourValidFacts TourExactStmts TourExactFacts Transition TransSpec Schedule SchedInv SchedObs SchedStruct SchedCostsFacts SchedUnservedFacts SchedViolFacts SchedListFacts SchedToursFacts SchedFormLimFacts SchedUsageFacts SchedFormsFacts SchedTransFacts SchedExactFacts Swaps SwapsStmts SwapsFacts SwapsStmts2 SwapsFacts2 PipelineSched RenderStmts NoPanicStmts LoadStmts LoadFacts DepotStmts DepotFacts RenderFacts4 EndToEndStmts EndToEndFacts NoPanicFactsA NPB_defs NPB_base NPB_sched NPB_tour NPB_trans NPB_seg NPB_utours NPB_spawn NPB_fit NPB_over NPB_fitre NPB_lim NPB_px NPB_mt NPB_cand NPB_imp.
(* NPB_comb.v — parts A (NoPanicFactsA.v) and B together, on the repaired model (a spawn without room is refused):
   [neighbors] never crashes on a wreachable schedule that is within the depot limits (overflow depot included) and
   whose tours start at listed depots; both properties are kept by every applied candidate, so they need to hold of
   the INITIAL schedule of the local search only *)


Local Open Scope Z_scope.

Section Comb.
Variable nw : network.
Hypothesis NF : net_fine nw.
Hypothesis NX : net_extra_b nw = true.
Hypothesis DF : dists_finite_b nw = true.
Hypothesis DH : dh_dists_finite_b nw = true.
Hypothesis DLI : depot_lists nw.
Let WF := nf_wf nw NF.
Let DP := nf_dp nw NF.

Lemma extra_unsigned : unsigned_ok nw.
Proof.
  destruct (rates_nn nw NX) as (A1 & A2 & A3 & A4 & A5 & A6). constructor; auto.
  - intros n m E. pose proof (travel_nn nw NX n) as Q. rewrite E in Q. exact Q.
  - intros a b m E. pose proof (dh_nn nw NX a b) as Q. rewrite E in Q. exact Q.
Qed.
Lemma extra_cov_all : cov_all nw.
Proof. intros n Hd. now apply (nondepot_coverable nw NX). Qed.
Let U := extra_unsigned.
Let CA := extra_cov_all.

(* the state of the local search the theorems speak of *)
Definition LSOK (s : schedule) : Prop := wreachable nw s /\ FullLimits nw s /\ FKs nw s.

Lemma wgood s : wreachable nw s -> Good nw s.
Proof. intros R. apply (wreachable_good nw NF DF DH NF DF DH s R). Qed.

(* the final step of every swap succeeds *)
Lemma final_le2 second ch : LSOK second -> NoDup ch -> (forall v, In v ch -> is_vehicle second v = true) ->
  (length ch <= 2)%nat -> SameTyL second ch ->
  exists s', improve_and_recompute nw second ch = Ok s'.
Proof.
  intros (R & FL & FK) N V L ST.
  apply (improve_and_recompute_le2 nw NF NX second (Good_I nw second (wgood second R)) FL FK ch N V L).
  intros a b Ha Hb. apply ST; auto.
Qed.

(* FullLimits / FKs across improve_and_recompute *)
Lemma improve_fl s vs s' : FullLimits nw s -> improve_depots nw s vs = Ok s' -> FullLimits nw s'.
Proof.
  unfold FullLimits. intros DLI0 H. unfold improve_depots in H. cbv zeta in H.
  mon H. monp H. monp H. inversion H; subst; clear H.
  change (fold_left (imp_step1 nw s) match vs with Some l => l | None => vehicles_iter_all nw s end (Ok (s_usage s)) = Ok a) in E.
  apply fold1_le in E.
  cbn [with_fields s_usage].
  eapply (fold_res_inv _ (fun x : list (vehicle_id * tour) * usage_t * Z => FLu nw (snd (fst x)))) in E0.
  - exact E0.
  - intros r v x H; destruct r; cbn [bind] in H; try discriminate H; eauto.
  - intros [[tours u] costs] v x HQ H. cbn [bind fst snd] in *.
    mon H. mon H. mon H. mon H. inversion H; subst; clear H. cbn [fst snd].
    destruct (improve_tour_first _ _ _ _ _ E4) as (fnd & FB). apply find_best_can_spawn in FB.
    eapply FLu_add; [exact HQ| |exact FB].
    eapply UAdd_ULe_l; [apply UEq_ULe; apply add_despawn_cnt|apply add_spawn_cnt].
  - cbn [fst snd]. eapply FLu_le; eauto.
Qed.

Lemma iar_keeps s ch s' : LSOK s -> improve_and_recompute nw s ch = Ok s' -> LSOK s'.
Proof.
  intros (R & FL & FK) H.
  pose proof (improve_and_recompute_wreach nw s ch s' R H) as R'.
  unfold improve_and_recompute in H. mon H. mon H. mon H.
  split; [exact R'|]. split.
  - unfold FullLimits. unfold recompute_transitions_for in H. monp H. inversion H; subst; clear H.
    cbn [with_fields s_usage]. apply (improve_fl s (Some ch) a0 FL E0).
  - eapply recompute_FKs; [|exact H]. eapply improve_FKs; [exact FK|exact E0].
Qed.

Lemma wrap_ok {A} (r : res A) x : match r with Err => Panic | y => y end = Ok x -> r = Ok x.
Proof. destruct r; intros H; try discriminate H; exact H. Qed.

(** ** the four candidate kinds *)
Theorem exch_ok s cs seg p r : LSOK s -> candidates nw s = Ok cs -> In (CExch seg p r) cs ->
  no_crash (path_exchange nw s seg p r) /\ forall s', path_exchange nw s seg p r = Ok s' -> LSOK s'.
Proof.
  intros (R & FL & FK) Ec Hin.
  pose proof (wreachable_WS nw NF DF DH s R) as W.
  pose proof (candidates_inv nw s cs _ Ec Hin) as ((sg & Esg & Hseg) & Hr & Npr).
  destruct (segments_ok nw s p sg Esg) as (tp & Htp & Hok).
  destruct (listed_has_tour nw s r (ws_inv nw s W) (ws_L nw s W) Hr) as [trc Htr].
  destruct (path_exchange_pre nw NF DF DH U CA DLI s seg p r tp trc R Htp (Hok seg Hseg) Htr)
    as [->|(second & ch & R2 & N2 & V2 & L2 & ST & FL2 & FK2 & ->)].
  - split; [apply nc_err|discriminate].
  - assert (OK2 : LSOK second) by (split; [exact R2|split; [apply FL2; exact FL|apply FK2; exact FK]]).
    destruct (final_le2 second ch OK2 N2 V2 L2 ST) as [s' E]. rewrite E. split; [apply nc_ok|].
    intros s'' Q. inversion Q; subst s''. eapply iar_keeps; eauto.
Qed.

Theorem maint_ok s cs m v : LSOK s -> candidates nw s = Ok cs -> In (CMaint m v) cs ->
  no_crash (spawn_vehicle_for_maintenance nw s m v) /\
  forall s', spawn_vehicle_for_maintenance nw s m v = Ok s' -> LSOK s'.
Proof.
  intros (R & FL & FK) Ec Hin.
  pose proof (wreachable_WS nw NF DF DH s R) as W.
  pose proof (candidates_inv nw s cs _ Ec Hin) as (Hm & Hv & Hf).
  apply (iter_all_vehicle nw s v (ws_L nw s W)) in Hv.
  destruct (maint_pre nw NF DF DH U CA DLI s m v R Hm Hv) as [->|(s3 & ch & R3 & N3 & V3 & L3 & ST & FL3 & FK3 & ->)].
  - intros occ G. rewrite G in Hf. exact Hf.
  - split; [apply nc_err|discriminate].
  - assert (OK3 : LSOK s3) by (split; [exact R3|split; [apply FL3; exact FL|apply FK3; exact FK]]).
    destruct (final_le2 s3 ch OK3 N3 V3 L3 ST) as [s' E]. rewrite E. split; [apply nc_ok|].
    intros s'' Q. inversion Q; subst s''. eapply iar_keeps; eauto.
Qed.

Theorem hitch_ok s cs n v : LSOK s -> candidates nw s = Ok cs -> In (CHitch n v) cs ->
  no_crash (add_trip_for_hitch_hiking nw s n v) /\
  forall s', add_trip_for_hitch_hiking nw s n v = Ok s' -> LSOK s'.
Proof.
  intros (R & FL & FK) Ec Hin.
  pose proof (wreachable_WS nw NF DF DH s R) as W.
  destruct (candidates_hitch nw s cs n v Ec Hin) as (Hv & ty & Gty & Hn).
  apply (iter_all_vehicle nw s v (ws_L nw s W)) in Hv.
  assert (Ity : In ty (type_ids nw)) by (eapply veh_type_in_ids; [exact (ws_L nw s W)|exact Gty]).
  assert (Cn : In n (coverable_nodes nw)).
  { destruct (NX_parts nw NX) as (_ & _ & _ & H). unfold nodes_coverable_b in H. apply andb_true_iff in H.
    destruct H as [_ H]. rewrite forallb_forall in H. specialize (H ty Ity). rewrite forallb_forall in H.
    apply mem_nid_in. apply H. exact Hn. }
  pose proof (coverable_not_depot nw n (nf_ml nw NF) Cn) as Dn.
  assert (VN : valid_path nw [n]) by (apply single_valid_path; exact Dn).
  unfold add_trip_for_hitch_hiking.
  destruct (nget n (s_forms s)) as [f|] eqn:Ef.
  2:{ exfalso. apply (nget_key_ne n (s_forms s)); [|exact Ef]. apply (fo_keys nw s (ws_forms nw s W)). exact Cn. }
  cbn [unwrap_opt bind].
  match goal with |- no_crash (if ?c then _ else _) /\ _ => destruct c; [split; [apply nc_err|discriminate]|] end.
  destruct (nc_cases _ (add_path_nc nw NF DF U CA s v [n] (ws_inv nw s W) (ws_L nw s W) (ws_T nw s W) (ws_E nw s W)
              (ws_us nw s W) (ws_trans nw s W) (ws_forms nw s W) Hv VN)) as [->|[[s1 c] E1]];
    [split; [apply nc_err|discriminate]|].
  rewrite E1. cbn [bind]. destruct c as [rp|]; [split; [apply nc_err|discriminate]|].
  pose proof (wreach_add_path nw s v [n] s1 None R VN E1) as R1.
  assert (Vs1 : s_vehicles s1 = s_vehicles s).
  { pose proof E1 as E1'. unfold add_path_to_vehicle_tour in E1'.
    match type of E1' with (if ?b then _ else _) = _ => destruct b; [discriminate|] end.
    mon E1'. mon E1'. monp E1'. mon E1'. monp E1'. monp E1'. mon E1'. mon E1'. monp E1'. inversion E1'; subst; clear E1'.
    reflexivity. }
  assert (OK1 : LSOK s1).
  { split; [exact R1|]. split.
    - unfold FullLimits. eapply FLu_le; [|exact FL].
      eapply (add_path_le nw WF DP s v [n] s1 None); eauto; [apply (ws_inv nw s W)|apply (ws_T nw s W)].
    - eapply (add_path_FKs nw WF DP s v [n] s1 None); eauto; [apply (ws_inv nw s W)|apply (ws_T nw s W)|].
      intros Q. cbn [hd] in Q. rewrite Dn in Q. discriminate Q. }
  destruct (final_le2 s1 [v] OK1) as [s' E].
  - repeat constructor. intros [].
  - intros x [<-|[]]. unfold is_vehicle. rewrite Vs1. exact Hv.
  - cbn. lia.
  - apply (SameTyL_single s1 [v] v). intros x [<-|[]]. reflexivity.
  - rewrite E. split; [apply nc_ok|]. intros s'' Q. inversion Q; subst s''. eapply iar_keeps; eauto.
Qed.

Lemma remove_fl s seg v s' : SchedCostsFacts.Inv nw s -> TIs nw s -> FullLimits nw s ->
  remove_segment nw s seg v = Ok s' -> FullLimits nw s'.
Proof.
  unfold FullLimits. intros I T DLI0 H. unfold remove_segment in H.
  destruct (negb (is_vehicle s v)) eqn:IV; [discriminate|]. apply negb_false_iff in IV.
  mon H. monp H. destruct o as [nt|].
  - monp H. monp H. mon H.
    match type of H with (match ?m with pair _ _ => _ end) = _ => destruct m as [[? ?] ?] end.
    monp H. inversion H; subst; clear H.
    cbn [with_fields s_usage]. apply panic_ok in E.
    eapply FLu_le; [|exact DLI0]. eapply udu_same; [exact E3|].
    intros ty t Gty Gt. split; [exact IV|]. exists a. split; [exact E|].
    destruct (real_tour nw s v ty a I T Gty E) as (V & D & _).
    rewrite (utc_real _ _ _ _ _ _ _ _ _ E2 (real_not_dummy nw s v ty I Gty)) in Gt. inversion Gt; subst t.
    rewrite (remove_first nw a seg nt l V D E0). reflexivity.
  - unfold replace_vehicle_by_dummy in H.
    destruct (negb _) in H; [discriminate|].
    mon H. mon H. mon H. monp H. mon H. mon H. mon H.
    match type of H with (match ?m with pair _ _ => _ end) = _ => destruct m as [[? ?] ?] end.
    monp H. inversion H; subst; clear H.
    cbn [with_fields s_usage].
    match goal with Q : update_depot_usage _ _ _ _ _ _ = Ok _ |- _ =>
      apply udu_cnt in Q; rewrite vget_vdel, vid_eqb_refl in Q; eapply FLu_le; eauto end.
Qed.

Theorem remove_ok s n v : LSOK s ->
  no_crash (remove_single_node nw s n v) /\ forall s', remove_single_node nw s n v = Ok s' -> LSOK s'.
Proof.
  intros (R & FL & FK). pose proof (wreachable_WS nw NF DF DH s R) as W.
  split; [apply (remove_segment_no_crash nw NF NX DF DH s (n, n) v (wgood s R))|].
  unfold remove_single_node. intros s' H. split; [eapply wreach_remove_segment; eauto|]. split.
  - eapply remove_fl; eauto; [apply (ws_inv nw s W)|apply (ws_T nw s W)].
  - eapply remove_segment_FKs; eauto; [apply (ws_inv nw s W)|apply (ws_T nw s W)].
Qed.

Theorem apply_cand_ok s cs c : LSOK s -> candidates nw s = Ok cs -> In c cs ->
  no_crash (apply_cand nw s c) /\ forall s', apply_cand nw s c = Ok s' -> LSOK s'.
Proof.
  intros OK Ec Hin. destruct c as [m v|seg p r|n v|n v]; cbn [apply_cand].
  - eapply maint_ok; eauto.
  - eapply exch_ok; eauto.
  - eapply hitch_ok; eauto.
  - apply remove_ok; auto.
Qed.

Lemma neighbors_fold_ok s cs : (forall c, In c cs -> no_crash (apply_cand nw s c)) ->
  forall acc, no_crash (fold_left (fun acc c =>
    do l <- acc;
    match apply_cand nw s c with
    | Ok s' => Ok (l ++ [(c, s')])
    | Err => Ok l
    | Panic => Panic
    | OutOfFuel => OutOfFuel
    end) cs (Ok acc)).
Proof.
  induction cs as [|c cs IH]; intros H acc; cbn [fold_left]; [apply nc_ok|]. cbn [bind].
  destruct (H c (or_introl eq_refl)) as [N1 N2].
  destruct (apply_cand nw s c); try congruence; apply IH; intros c' Hc'; apply H; now right.
Qed.

(* C11 / C06 on the repaired model: generating the candidates of a schedule within its depot limits never crashes,
   and every neighbour is again such a schedule *)
Theorem neighbors_no_crash_limits s : LSOK s -> no_crash (neighbors nw s).
Proof.
  intros OK. pose proof OK as (R & _). unfold neighbors.
  destruct (candidates_total nw NF s (wgood s R)) as [cs Ec]. rewrite Ec. cbn [bind].
  apply neighbors_fold_ok. intros c Hc. eapply apply_cand_ok; eauto.
Qed.

Theorem neighbors_keep_limits s l : LSOK s -> neighbors nw s = Ok l -> forall c s', In (c, s') l -> LSOK s'.
Proof.
  intros OK H c s' Hin.
  destruct (neighbors_are_applications nw s l H) as (cs & Ec & Hcs).
  destruct (Hcs c s' Hin) as [Hc Ha]. eapply apply_cand_ok; eauto.
Qed.

(* every schedule the local search can visit from [s0] *)
Inductive ls_reach (s0 : schedule) : schedule -> Prop :=
| lr_refl : ls_reach s0 s0
| lr_step s l c s' : ls_reach s0 s -> neighbors nw s = Ok l -> In (c, s') l -> ls_reach s0 s'.

Theorem local_search_never_crashes s0 : LSOK s0 -> forall s, ls_reach s0 s -> LSOK s /\ no_crash (neighbors nw s).
Proof.
  intros OK0 s H. assert (OK : LSOK s).
  { induction H; [exact OK0|]. eapply neighbors_keep_limits; eauto. }
  split; [exact OK|apply neighbors_no_crash_limits; exact OK].
Qed.
End Comb.

(** * loaded networks *)
Theorem neighbors_no_crash_loaded : forall i perm nw,
  valid_instance_b i = true -> params_costs_nonneg (i_params i) -> perm_ok i perm -> load i perm = Ok nw ->
  forall s, wreachable nw s -> FullLimits nw s -> FKs nw s -> no_crash (neighbors nw s).
Proof.
  intros i perm nw V PC PO LD s R FL FK.
  pose proof (load_net_fine i perm nw V PO LD) as NF.
  pose proof (load_extra i perm nw V PC LD) as NX.
  destruct (load_wf_partial i perm nw V PO LD) as (_ & _ & DF).
  pose proof (load_dh_finite i perm nw LD) as DH.
  pose proof (load_depot_lists i perm nw LD) as DLI.
  apply (neighbors_no_crash_limits nw NF NX DF DH DLI). split; [exact R|split; [exact FL|exact FK]].
Qed.

Theorem local_search_never_crashes_loaded : forall i perm nw,
  valid_instance_b i = true -> params_costs_nonneg (i_params i) -> perm_ok i perm -> load i perm = Ok nw ->
  forall s0, wreachable nw s0 -> FullLimits nw s0 -> FKs nw s0 ->
  forall s, ls_reach nw s0 s -> no_crash (neighbors nw s) /\ FullLimits nw s /\ FKs nw s.
Proof.
  intros i perm nw V PC PO LD s0 R FL FK s H.
  pose proof (load_net_fine i perm nw V PO LD) as NF.
  pose proof (load_extra i perm nw V PC LD) as NX.
  destruct (load_wf_partial i perm nw V PO LD) as (_ & _ & DF).
  pose proof (load_dh_finite i perm nw LD) as DH.
  pose proof (load_depot_lists i perm nw LD) as DLI.
  destruct (local_search_never_crashes nw NF NX DF DH DLI s0 (conj R (conj FL FK)) s H) as ((_ & A & B) & C). auto.
Qed.
Print Assumptions neighbors_no_crash_limits.
Print Assumptions local_search_never_crashes.
Print Assumptions neighbors_no_crash_loaded.
Print Assumptions local_search_never_crashes_loaded.
End NPB_comb.

Module NPB_wit3.
Import Sorted.
Import Base BaseFacts Network NetSpec NetFacts Tour TourSpec TourStmts TourFacts TourValidFacts TourExactStmts TourExactFacts Transition TransSpec Schedule SchedInv SchedObs SchedStruct SchedCostsFacts SchedListFacts SchedToursFacts Swaps SwapsStmts SwapsFacts SwapsStmts2 SwapsFacts2 PipelineSched RenderStmts NoPanicStmts LoadStmts LoadFacts DepotStmts DepotFacts RenderFacts4 EndToEndStmts EndToEndFacts NoPanicFactsA NPB_defs NPB_base NPB_lim NPB_wit NPB_comb.
(* NPB_wit3.v — executable readings of FullLimits / FKs; the full-depot state of WitnessRoom satisfies the hypotheses of
   the final theorem; and the limits hypothesis cannot be dropped for arbitrary wreachable schedules (WitnessLimits) *)


Local Open Scope Z_scope.

Section Chk.
Variable nw : network.
Notation sst := spawned_same_type.

Definition caps_nonneg_b : bool :=
  forallb (fun '(_, (dp, _, _)) => (0 <=? dp_total dp) &&
             forallb (fun '(_, oc) => match oc with Some c => 0 <=? c | None => true end) (dp_allowed dp)) (nw_depots nw).
Definition full_limits_b (U : usage_t) : bool :=
  forallb (fun '((d, ty), (sp, _)) => Z.of_nat (length sp) <=? capacity_of nw d ty) U &&
  forallb (fun '((d, _), _) => spawned_total nw U d <=? total_capacity_of nw d) U.
Definition fks_b (s : schedule) : bool :=
  forallb (fun '(_, t) => mem_nid (first_node t) (nw_sdepots nw)) (s_tours s).

Lemma caps_nonneg_ok : caps_nonneg_b = true -> forall d, 0 <= total_capacity_of nw d /\ forall ty, 0 <= capacity_of nw d ty.
Proof.
  unfold caps_nonneg_b. rewrite forallb_forall. intros H d. unfold total_capacity_of, capacity_of, depot_entry.
  destruct (assoc Z.eqb d (nw_depots nw)) as [[[dp a] b]|] eqn:E; [|split; [lia|intros; lia]].
  apply (assoc_in Z.eqb Z.eqb_eq) in E. specialize (H _ E). cbn in H. apply andb_true_iff in H. destruct H as [H1 H2].
  apply Z.leb_le in H1. split; [exact H1|]. intros ty. unfold depot_capacity_for.
  destruct (assoc Z.eqb ty (dp_allowed dp)) as [[c|]|] eqn:A; try lia.
  apply (assoc_in Z.eqb Z.eqb_eq) in A. rewrite forallb_forall in H2. specialize (H2 _ A). cbn in H2.
  apply Z.leb_le in H2. lia.
Qed.

Lemma uget_in (U : usage_t) k x : uget k U = Some x -> In (k, x) U.
Proof.
  unfold uget. induction U as [|[k' y] U IH]; cbn [assoc]; [discriminate|].
  destruct (pair_eqb k k') eqn:E.
  - apply pair_eqb_eq in E. subst. intros H. inversion H. now left.
  - intros H. right. auto.
Qed.

Lemma sst_pos_in (U : usage_t) d ty : 0 < sst U d ty -> exists x, In ((d, ty), x) U.
Proof.
  unfold spawned_same_type. destruct (uget (d, ty) U) as [x|] eqn:E; [|lia]. intros _. exists x. now apply uget_in.
Qed.

Lemma z_sum_pos_ex {A} (f : A -> Z) l : 0 < z_sum (map f l) -> exists x, In x l /\ 0 < f x.
Proof.
  induction l as [|a l IH]; [cbn; lia|]. cbn [map]. rewrite z_sum_cons. intros H.
  destruct (Z.lt_ge_cases 0 (f a)) as [Q|Q]; [exists a; split; [now left|exact Q]|].
  destruct IH as (x & Hx & Px); [lia|]. exists x. split; [now right|exact Px].
Qed.

Lemma full_limits_b_ok U : caps_nonneg_b = true -> full_limits_b U = true -> FLu nw U.
Proof.
  intros CN H d. destruct (caps_nonneg_ok CN d) as [T0 C0].
  unfold full_limits_b in H. apply andb_true_iff in H. destruct H as [H1 H2]. rewrite forallb_forall in H1, H2. split.
  - intros ty. unfold spawned_same_type. destruct (uget (d, ty) U) as [[sp de]|] eqn:E; [|apply C0].
    apply uget_in in E. specialize (H1 _ E). cbn in H1. now apply Z.leb_le.
  - destruct (Z.lt_ge_cases 0 (spawned_total nw U d)) as [Q|Q]; [|lia].
    unfold spawned_total in Q. apply z_sum_pos_ex in Q. destruct Q as (ty & _ & P).
    apply sst_pos_in in P. destruct P as (x & Hx). specialize (H2 _ Hx). cbn in H2. now apply Z.leb_le.
Qed.

Lemma fks_b_ok s : fks_b s = true -> FKs nw s.
Proof.
  unfold fks_b. rewrite forallb_forall. intros H v t G. unfold vget in G.
  apply (assoc_in vid_eqb vid_eqb_eq) in G. specialize (H _ G). cbn in H. now apply mem_nid_in.
Qed.
End Chk.

(** * the full-depot state of WitnessRoom is covered by the final theorem *)
Module RoomCovered.
Import WitnessRoom.
Lemma s10_limits : FullLimits nwS s10.
Proof. apply full_limits_b_ok; vm_compute; reflexivity. Qed.
Lemma s10_fks : FKs nwS s10.
Proof. apply fks_b_ok. vm_compute. reflexivity. Qed.
Lemma instS_valid : valid_instance_b instS = true.
Proof. vm_compute. reflexivity. Qed.
Lemma instS_costs : params_costs_nonneg (i_params instS).
Proof. vm_compute. repeat split; discriminate. Qed.
Theorem s10_neighbors_no_crash : no_crash (neighbors nwS s10).
Proof.
  assert (PO : perm_ok instS []) by (intros Q; discriminate Q).
  exact (neighbors_no_crash_loaded instS [] nwS instS_valid instS_costs PO nwS_loaded s10 s10_wreachable s10_limits s10_fks).
Qed.
End RoomCovered.

(** * the limits hypothesis is needed among arbitrary wreachable schedules *)
Module WitnessLimits.
(* two types without formation limit; depot 0 (location 0, capacity 1, type 0 only), depot 1 (location 1, capacity 1,
   both types); trips tA = SV 6 (type 0) and tB = SV 7 (type 1), both L1->L2 10000-11000; slot MT 8 at L2 12000-13000.
   Overflow depot: capacity 3. *)
Definition instT : instance := {|
  i_types := [ {| vt_cap := 100; vt_seats := 50; vt_limit := None |}; {| vt_cap := 100; vt_seats := 50; vt_limit := None |} ];
  i_nlocs := 3;
  i_depots := Some [ {| id_loc := 0; id_cap := 1; id_allowed := [(0, None)] |};
                     {| id_loc := 1; id_cap := 1; id_allowed := [(0, None); (1, None)] |} ];
  i_routes := [ {| r_type := 0; r_segs := [ {| rs_origin := 1; rs_dest := 2; rs_dist := 1000; rs_dur := 1000; rs_limit := None |} ] |};
                {| r_type := 1; r_segs := [ {| rs_origin := 1; rs_dest := 2; rs_dist := 1000; rs_dur := 1000; rs_limit := None |} ] |} ];
  i_departures := [ {| d_route := 0; d_segs := [ {| ds_rseg := 0; ds_dep := 10000; ds_pass := 10; ds_seated := 5 |} ] |};
                    {| d_route := 1; d_segs := [ {| ds_rseg := 0; ds_dep := 10000; ds_pass := 10; ds_seated := 5 |} ] |} ];
  i_slots := Some [ {| is_loc := 2; is_start := 12000; is_end := 13000; is_tracks := 1 |} ];
  i_dh_dur := [[0; 60; 60]; [60; 0; 60]; [60; 60; 0]];
  i_dh_dist := [[0; 1000; 1000]; [1000; 0; 1000]; [1000; 1000; 0]];
  i_params := {| p_forbid := false; p_min := 0; p_dht := 0; p_maxdist := 100000;
                 c_staff := 1; c_service := 1; c_maint := 0; c_dh := 5; c_idle := 1 |} |}.
Definition nwT : network := Eval vm_compute in get_ok (load instT []) nw_dflt.
Lemma nwT_loaded : load instT [] = Ok nwT.
Proof. vm_compute. reflexivity. Qed.
Lemma instT_valid : valid_instance_b instT = true.
Proof. vm_compute. reflexivity. Qed.
Definition sp (s : schedule) (ty : Z) (p : list node_id) : schedule :=
  fst (get_ok (spawn_vehicle_for_path nwT s ty p) (s_dflt, Veh 99)).
Definition t0 : schedule := Eval vm_compute in get_ok (empty_schedule nwT) s_dflt.
Definition t1 := Eval vm_compute in sp t0 1 [SV 7; MT 8].
Definition t2 := Eval vm_compute in sp t1 0 [SV 6].
Definition t3 := Eval vm_compute in sp t2 0 [SV 6].
Definition t4 := Eval vm_compute in sp t3 0 [SV 6].
Definition t5 := Eval vm_compute in sp t4 0 [SV 6].
(* all depots are full now; a path that names the full depot 0 is put into the overflow depot WITHOUT a check *)
Definition t6 := Eval vm_compute in sp t5 0 [SD 0; SV 6; ED 1].

Lemma vpT l : l = [SV 7; MT 8] \/ l = [SV 6] \/ l = [SD 0; SV 6; ED 1] -> valid_path nwT l.
Proof.
  intros [->|[->| ->]]; (split; [discriminate|]); (split; [|vm_compute; reflexivity]);
    intros x y Hin; cbn in Hin; repeat (destruct Hin as [E|Hin]; [inversion E; subst; vm_compute; reflexivity|]); destruct Hin.
Qed.

Lemma t6_wreachable : wreachable nwT t6.
Proof.
  assert (S : forall s ty p s' v, wreachable nwT s -> valid_path nwT p -> spawn_vehicle_for_path nwT s ty p = Ok (s', v) -> wreachable nwT s').
  { intros s ty p s' v R V E. eapply wr_step; [exact R|]. eapply ws_spawn; eauto. }
  assert (R0 : wreachable nwT t0) by (apply wr_empty; vm_compute; reflexivity).
  assert (R1 : wreachable nwT t1) by (apply (S t0 1 [SV 7; MT 8] t1 (Veh 0) R0); [apply vpT; auto|vm_compute; reflexivity]).
  assert (R2 : wreachable nwT t2) by (apply (S t1 0 [SV 6] t2 (Veh 1) R1); [apply vpT; auto|vm_compute; reflexivity]).
  assert (R3 : wreachable nwT t3) by (apply (S t2 0 [SV 6] t3 (Veh 2) R2); [apply vpT; auto|vm_compute; reflexivity]).
  assert (R4 : wreachable nwT t4) by (apply (S t3 0 [SV 6] t4 (Veh 3) R3); [apply vpT; auto|vm_compute; reflexivity]).
  assert (R5 : wreachable nwT t5) by (apply (S t4 0 [SV 6] t5 (Veh 4) R4); [apply vpT; auto|vm_compute; reflexivity]).
  apply (S t5 0 [SD 0; SV 6; ED 1] t6 (Veh 5) R5); [apply vpT; auto|vm_compute; reflexivity].
Qed.

Lemma t6_tours :
  map (fun '(v, t) => (v, t_nodes t)) (s_tours t6) =
    [(Veh 0, [SD 2; SV 7; MT 8; ED 1]); (Veh 1, [SD 0; SV 6; ED 1]); (Veh 2, [SD 4; SV 6; ED 1]);
     (Veh 3, [SD 4; SV 6; ED 1]); (Veh 4, [SD 4; SV 6; ED 1]); (Veh 5, [SD 4; SV 6; ED 5])].
Proof. vm_compute. reflexivity. Qed.

(* four vehicles in the overflow depot of capacity 3 *)
Lemma t6_over : spawned_total nwT (s_usage t6) 2 = 4 /\ total_capacity_of nwT 2 = 3 /\ FKs nwT t6.
Proof. split; [vm_compute; reflexivity|]. split; [vm_compute; reflexivity|]. apply fks_b_ok. vm_compute. reflexivity. Qed.
Theorem t6_not_within_limits : ~ FullLimits nwT t6.
Proof. intros H. destruct (H 2) as [_ B]. destruct t6_over as (E1 & E2 & _). rewrite E1, E2 in B. lia. Qed.

Definition c : cand := CExch (SV 6, SV 6) (Veh 1) (Veh 2).
(* moving the trip of Veh 1 to Veh 2 (which sits in the over-full overflow depot) re-homes Veh 2: its own place is not
   free after the release, no other depot has room: improve_depots_of_tour's expect panics *)
Theorem enumerated_candidate_panics :
  exists cs, candidates nwT t6 = Ok cs /\ In c cs /\ apply_cand nwT t6 c = Panic.
Proof.
  destruct (candidates nwT t6) as [cs| | |] eqn:E; try (vm_compute in E; discriminate E).
  exists cs. split; [reflexivity|]. split; [|vm_compute; reflexivity].
  vm_compute in E. inversion E; subst cs. unfold c. cbn. tauto.
Qed.
Theorem limits_needed :
  ~ (forall s, wreachable nwT s -> FKs nwT s -> no_crash (neighbors nwT s)).
Proof.
  intros H. destruct t6_over as (_ & _ & K). destruct (H t6 t6_wreachable K) as [N _]. apply N. vm_compute. reflexivity.
Qed.
End WitnessLimits.
Print Assumptions RoomCovered.s10_neighbors_no_crash.
Print Assumptions WitnessLimits.enumerated_candidate_panics.
Print Assumptions WitnessLimits.limits_needed.
End NPB_wit3.

(** * the main results, at top level *)
Definition wreachable_good := NPB_base.wreachable_good.
Definition wreachable_WS := NPB_base.wreachable_WS.
Definition override_nc := NPB_over.override_nc.
Definition fit_nc := NPB_fitre.fit_nc.
Definition fit_loop_nc := NPB_fit.fit_loop_nc.
Definition spawn_nc := NPB_spawn.spawn_nc.
Definition spawn_to_replace_dummy_nc := NPB_spawn.spawn_to_replace_dummy_nc.
Definition add_path_nc := NPB_mt.add_path_nc.
Definition update_tours_nc := NPB_utours.update_tours_nc.
Definition update_transitions_ok := NPB_trans.update_transitions_ok.
Definition remove_nc := NPB_tour.remove_nc.
Definition insert_path_total := NPB_tour.insert_path_total.
Definition path_exchange_pre := NPB_px.path_exchange_pre.
Definition maint_pre := NPB_mt.maint_pre.
Definition candidates_inv := NPB_cand.candidates_inv.
Definition improve_and_recompute_le2 := NPB_imp.improve_and_recompute_le2.
Definition apply_cand_ok := NPB_comb.apply_cand_ok.
Definition neighbors_no_crash_limits := NPB_comb.neighbors_no_crash_limits.
Definition neighbors_keep_limits := NPB_comb.neighbors_keep_limits.
Definition local_search_never_crashes := NPB_comb.local_search_never_crashes.
Definition neighbors_no_crash_loaded := NPB_comb.neighbors_no_crash_loaded.
Definition local_search_never_crashes_loaded := NPB_comb.local_search_never_crashes_loaded.
Definition room_witness_candidate_refused := NPB_wit.WitnessRoom.enumerated_candidate_refused.
Definition room_everywhere_false := NPB_wit.WitnessRoom.room_everywhere_false.
Definition apply_cand_no_crash_refuted := NPB_wit2.WitnessGood.apply_cand_no_crash_refuted.
Definition limits_witness_candidate_panics := NPB_wit3.WitnessLimits.enumerated_candidate_panics.
Definition limits_needed := NPB_wit3.WitnessLimits.limits_needed.
Print Assumptions wreachable_good.
Print Assumptions path_exchange_pre.
Print Assumptions maint_pre.
Print Assumptions improve_and_recompute_le2.
Print Assumptions apply_cand_ok.
Print Assumptions neighbors_no_crash_limits.
Print Assumptions local_search_never_crashes.
Print Assumptions neighbors_no_crash_loaded.
Print Assumptions local_search_never_crashes_loaded.
Print Assumptions room_witness_candidate_refused.
Print Assumptions room_everywhere_false.
Print Assumptions apply_cand_no_crash_refuted.
Print Assumptions limits_witness_candidate_panics.
Print Assumptions limits_needed.
