(* NoPanicStmts.v — C11 "generating candidates never panics" / C06 "neither panics", at the level of the functional
   model, where every unwrap / index / subtraction of the code is an explicit [Panic] result and every fuelled loop an
   explicit [OutOfFuel]: on a schedule satisfying the proved invariants, enumerating the candidates and applying each
   of them never crashes (a candidate may be refused: [Err]). Proofs in NoPanicFacts*.v. *)
From RS Require Import Base Network NetSpec Tour TourStmts TourExactStmts TourExactFacts SchedObs Transition TransSpec
  Schedule SchedInv SchedStruct Swaps SwapsStmts2 PipelineSched RenderStmts.

Definition no_crash {A} (r : res A) : Prop := r <> Panic /\ r <> OutOfFuel.

Section NP.
Variable nw : network.

(* everything proved about reachable schedules, bundled *)
Record Good (s : schedule) : Prop := {
  g_tours : ToursOK nw s; g_listing : ListingOK nw s; g_forms : FormsOK nw s; g_limits : FormLimitsOK nw s;
  g_usage : UsageOK nw s; g_trans : TransOK nw s; g_exact : ToursExact nw s;
  g_costs : CostsOK nw s; g_unserved : UnservedOK nw s; g_viol : ViolOK s }.

(* there is always a depot that can take one more vehicle of each type (the overflow depot is sized for the largest
   fleet the instance can need) *)
Definition SpawnRoom (s : schedule) : Prop :=
  forall ty first, In ty (type_ids nw) ->
    exists d, find_best_start_depot nw (s_usage s) ty first = Ok d.

Definition stmt_wreachable_good : Prop :=
  net_fine nw -> dists_finite_b nw = true -> dh_dists_finite_b nw = true ->
  forall s, wreachable nw s -> Good s.

Definition stmt_candidates_no_crash : Prop :=
  net_fine nw -> forall s, Good s -> no_crash (candidates nw s).

Definition stmt_improve_and_recompute_no_crash : Prop :=
  net_fine nw -> forall s changed, Good s -> SpawnRoom s -> NoDup changed ->
    (forall v, In v changed -> is_vehicle s v = true) -> no_crash (improve_and_recompute nw s changed).

Definition stmt_apply_cand_no_crash : Prop :=
  net_fine nw -> dists_finite_b nw = true -> dh_dists_finite_b nw = true ->
  forall s cs c, Good s -> SpawnRoom s -> candidates nw s = Ok cs -> In c cs -> no_crash (apply_cand nw s c).

Definition stmt_neighbors_no_crash : Prop :=
  net_fine nw -> dists_finite_b nw = true -> dh_dists_finite_b nw = true ->
  forall s, wreachable nw s -> (forall s', wreachable nw s' -> SpawnRoom s') -> no_crash (neighbors nw s).
End NP.
