(* OpFacts.v — C13: formation order lemmas (train_formation.rs). *)
From RS Require Import Base BaseFacts OpSpec.

Lemma index_of_lt {A} (p : A -> bool) l k : index_of p l = Some k -> (k < length l)%nat.
Proof.
  revert k; induction l as [|x l IH]; simpl; intros k H; [discriminate|].
  destruct (p x); [inversion H; lia|].
  destruct (index_of p l); [|discriminate]. inversion H. specialize (IH n eq_refl). lia.
Qed.

Lemma removelast_snoc {A} (l : list A) x : removelast (l ++ [x]) = l.
Proof. apply removelast_last. Qed.

Lemma skipn_snoc {A} (l : list A) x k : (k <= length l)%nat -> skipn k (l ++ [x]) = skipn k l ++ [x].
Proof.
  revert k; induction l as [|y l IH]; intros k Hk.
  - assert (k = 0)%nat by (simpl in Hk; lia). subst. reflexivity.
  - destruct k; simpl; [reflexivity|]. apply IH. simpl in Hk. lia.
Qed.

Lemma firstn_snoc {A} (l : list A) x k : (k <= length l)%nat -> firstn k (l ++ [x]) = firstn k l.
Proof. intros Hk. rewrite firstn_app. replace (k - length l)%nat with 0%nat by lia. simpl. now rewrite app_nil_r. Qed.

(* push new; swap_remove(p): the replacing vehicle takes the replaced one's position *)
Theorem replace_pos old new l p :
  index_of (vid_eqb old) l = Some p ->
  tf_replace old new l = Some (firstn p l ++ [new] ++ skipn (p + 1) l).
Proof.
  intros H. unfold tf_replace. rewrite H. f_equal. apply index_of_lt in H.
  unfold swap_remove. rewrite rev_app_distr. simpl.
  rewrite app_length. simpl.
  destruct (Nat.eqb_spec p (length l + 1 - 1)) as [E|E]; [lia|].
  rewrite firstn_snoc by lia. rewrite skipn_snoc by lia. rewrite removelast_snoc. reflexivity.
Qed.

Theorem replace_keeps_others old new l l' :
  tf_replace old new l = Some l' -> length l' = length l.
Proof.
  destruct (index_of (vid_eqb old) l) as [p|] eqn:E; [|unfold tf_replace; rewrite E; discriminate].
  intros H. rewrite (replace_pos old new l p E) in H. inversion H.
  apply index_of_lt in E. rewrite !app_length, firstn_length. cbn [length]. rewrite skipn_length. lia.
Qed.

(* additions go to the tail *)
Theorem add_tail v l : tf_add_at_tail v l = l ++ [v].
Proof. reflexivity. Qed.

(* removals keep the order: the result is the list without position p, everything else in place *)
Theorem remove_keeps_order v l p :
  index_of (vid_eqb v) l = Some p -> tf_remove v l = Some (firstn p l ++ skipn (p + 1) l).
Proof. intros H. unfold tf_remove. now rewrite H. Qed.
