(* OpFacts2.v — C13: proofs of the frame-clause meanings stated in OpStmts.v. *)
From RS Require Import Base BaseFacts Network Tour SchedObs Pipeline OpSpec OpStmts.

Lemma vids_eqb_true a : forall b, vids_eqb a b = true -> a = b.
Proof.
  induction a as [|x r IH]; intros [|y s] H; cbn [vids_eqb] in H; try discriminate; auto.
  apply andb_true_iff in H. destruct H as [H1 H2].
  apply vid_eqb_eq in H1. apply IH in H2. congruence.
Qed.

Lemma nids_eqb_true a : forall b, nids_eqb a b = true -> a = b.
Proof.
  induction a as [|x r IH]; intros [|y s] H; cbn [nids_eqb] in H; try discriminate; auto.
  apply andb_true_iff in H. destruct H as [H1 H2].
  apply nid_eqb_eq in H1. apply IH in H2. congruence.
Qed.

Lemma opt_nids_eqb_true x y : opt_nids_eqb x y = true -> x = y.
Proof.
  unfold opt_nids_eqb. destruct x as [l|], y as [m|]; intros H; try discriminate; auto.
  apply nids_eqb_true in H. congruence.
Qed.

Lemma mem_vid_In v l : mem_vid v l = true <-> In v l.
Proof.
  induction l as [|x r IH]; cbn [mem_vid In].
  - split; [discriminate | tauto].
  - rewrite orb_true_iff, IH, vid_eqb_eq. split; intros [H|H]; auto.
Qed.

Lemma mem_nid'_In n l : mem_nid' n l = true <-> In n l.
Proof.
  induction l as [|x r IH]; cbn [mem_nid' In].
  - split; [discriminate | tauto].
  - rewrite orb_true_iff, IH, nid_eqb_eq. split; intros [H|H]; auto.
Qed.

Lemma if_nil_app (c : bool) (x : Z) (r : list Z) :
  (if c then [] else [x]) ++ r = [] -> c = true /\ r = [].
Proof. destruct c; cbn; intros H; [auto | discriminate]. Qed.

Lemma if_nil (c : bool) (x : Z) : (if c then [] else [x]) = [] -> c = true.
Proof. destruct c; intros H; [auto | discriminate]. Qed.

Theorem frame_tours : stmt_frame_tours.
Proof.
  unfold stmt_frame_tours. intros b a D v H Hin HD.
  unfold others_unchanged in H. rewrite forallb_forall in H.
  specialize (H v Hin). apply orb_true_iff in H. destruct H as [H|H].
  - apply mem_vid_In in H. contradiction.
  - apply andb_true_iff in H. destruct H as [H H3].
    apply andb_true_iff in H. destruct H as [H1 H2].
    apply opt_nids_eqb_true in H1. apply Bool.eqb_prop in H2.
    repeat split; auto.
    destruct (type_of_real b v) as [x|], (type_of_real a v) as [y|]; try discriminate; auto.
    apply Z.eqb_eq in H3. congruence.
Qed.
Print Assumptions frame_tours.

Theorem frame_forms : stmt_frame_forms.
Proof.
  unfold stmt_frame_forms. intros b a N n f H Hin HN.
  unfold forms_unchanged_except in H. apply andb_true_iff in H. destruct H as [H _].
  rewrite forallb_forall in H. specialize (H (n, f) Hin). cbn beta iota in H.
  apply orb_true_iff in H. destruct H as [H|H].
  - apply mem_nid'_In in H. contradiction.
  - apply vids_eqb_true in H. auto.
Qed.
Print Assumptions frame_forms.

Theorem delete_meaning : stmt_delete_meaning.
Proof.
  unfold stmt_delete_meaning. intros nw b a v t H Ht.
  cbn [check_op] in H. rewrite Ht in H. cbv zeta in H.
  apply if_nil_app in H. destruct H as [H1 H].
  apply if_nil_app in H. destruct H as [H2 H].
  apply if_nil in H. rename H into H3.
  apply andb_true_iff in H2. destruct H2 as [H2 _].
  apply andb_true_iff in H3. destruct H3 as [H3 H4].
  split; [|split; [|split]].
  - apply negb_true_iff in H1. unfold exists_in in H1.
    destruct (nodes_in a v); [discriminate | reflexivity].
  - intros u Hu Hne.
    destruct (frame_tours b a [v] u H2 Hu) as [E _]; auto.
    cbn [In]. intros [E|[]]. congruence.
  - intros n Hn. unfold removed_keeping_order in H3. rewrite forallb_forall in H3.
    specialize (H3 n Hn). apply vids_eqb_true in H3. exact H3.
  - intros n f Hin Hn. eapply frame_forms; eauto.
Qed.
Print Assumptions delete_meaning.

Theorem improve_meaning : stmt_improve_meaning.
Proof.
  unfold stmt_improve_meaning. intros nw b a vs H.
  cbn [check_op] in H.
  apply if_nil_app in H. destruct H as [H1 H].
  apply if_nil in H. rename H into H2.
  apply andb_true_iff in H1. destruct H1 as [H1 _].
  split.
  - intros u l Hu Hl. rewrite forallb_forall in H1. specialize (H1 u Hu). cbn beta in H1.
    rewrite Hl in H1. destruct (nodes_in a u) as [m|]; [|discriminate].
    apply andb_true_iff in H1. destruct H1 as [H1 _].
    apply nids_eqb_true in H1. exists m. split; auto.
  - intros n f Hin. eapply frame_forms; eauto.
Qed.
Print Assumptions improve_meaning.
