(* OpSpec.v — C13: the documented effect of each public schedule modification, as an executable relation
   between the observations before and after the call ([check_op] returns the violated clause codes). *)
From RS Require Import Base Network NetSpec Tour TourSpec SchedObs Pipeline.

Inductive opobs :=
| OSpawn (ty : Z) (path : list node_id) (newv : vehicle_id)
| OSpawnDummy (d : vehicle_id) (ty : Z) (newv : vehicle_id)
| ODelete (v : vehicle_id)
| OAddPath (v : vehicle_id) (path : list node_id) (conflict : option (list node_id))
| ORemoveSeg (v : vehicle_id) (a b : node_id)
| OFit (p : vehicle_id) (a b : node_id) (r : vehicle_id)
| OOverride (p : vehicle_id) (a b : node_id) (r : vehicle_id) (newd : option vehicle_id)
| OImprove (vs : list vehicle_id)
| OEndDepots      (* reassign_end_depots_greedily / reassign_end_depots_consistent_with_transitions *)
| ORecompute.

Section Op.
Variable nw : network.
Variable b a : sobs.    (* before, after *)

Definition nodes_in (o : sobs) (v : vehicle_id) : option (list node_id) :=
  match tour_of_real o v with
  | Some t => Some (t_nodes t)
  | None => match find (fun '(d, _) => vid_eqb v d) (so_dummies o) with Some (_, t) => Some (t_nodes t) | None => None end
  end.
Definition is_real_in (o : sobs) (v : vehicle_id) : bool := match tour_of_real o v with Some _ => true | None => false end.
Definition exists_in (o : sobs) (v : vehicle_id) : bool := match nodes_in o v with Some _ => true | None => false end.
Definition all_ids (o : sobs) : list vehicle_id := map (fun '(v, _, _) => v) (so_vehicles o) ++ map fst (so_dummies o).
Definition nondep (l : list node_id) : list node_id := filter (fun n => negb (is_depot (nd nw n))) l.
Definition services (l : list node_id) : list node_id := filter (fun n => is_service (nd nw n)) l.
(* what a new dummy tour holds of a removed / displaced non-depot node list: the whole list (its service trips and
   the maintenance slots between them), provided there is a service trip to hand back at all *)
Definition handed_back (l : list node_id) : list node_id :=
  if Nat.eqb (length (services l)) 0 then [] else l.
Definition opt_nids_eqb (x y : option (list node_id)) : bool :=
  match x, y with Some l, Some m => nids_eqb l m | None, None => true | _, _ => false end.

(* every vehicle or dummy outside [D] keeps its kind, type and whole tour; nothing else appears *)
Definition others_unchanged (D : list vehicle_id) : bool :=
  forallb (fun v => mem_vid v D ||
                    (opt_nids_eqb (nodes_in b v) (nodes_in a v) && Bool.eqb (is_real_in b v) (is_real_in a v) &&
                     match type_of_real b v, type_of_real a v with
                     | Some x, Some y => x =? y | None, None => true | _, _ => false end)) (all_ids b).
(* (what appears anew is constrained by [new_dummies_are]) *)

Definition new_ids : list vehicle_id := filter (fun v => negb (exists_in b v)) (all_ids a).

(* formations of all nodes outside [N] are untouched (same vehicles in the same order) *)
Definition forms_unchanged_except (N : list node_id) : bool :=
  forallb (fun '(n, f) => mem_nid' n N || vids_eqb f (form_of a n)) (so_forms b) &&
  Nat.eqb (length (so_forms b)) (length (so_forms a)).

Definition without_v (v : vehicle_id) (l : list vehicle_id) : list vehicle_id := filter (fun x => negb (vid_eqb x v)) l.
Definition replace_v (p r : vehicle_id) (l : list vehicle_id) : list vehicle_id :=
  map (fun x => if vid_eqb x p then r else x) l.
Definition same_set_v (x y : list vehicle_id) : bool :=
  forallb (fun v => mem_vid v y) x && forallb (fun v => mem_vid v x) y.

Definition added_at_tail (v : vehicle_id) (N : list node_id) : bool :=
  forallb (fun n => vids_eqb (form_of a n) (form_of b n ++ [v])) N.
Definition removed_keeping_order (v : vehicle_id) (N : list node_id) : bool :=
  forallb (fun n => vids_eqb (form_of a n) (without_v v (form_of b n))) N.

Definition pos_in (l : list node_id) (n : node_id) : option nat := index_of (nid_eqb n) l.
Definition diff_nodes (l m : list node_id) : list node_id := (* elements of l not in m *)
  filter (fun n => negb (mem_nid' n m)) l.
Definition inter_nodes (l m : list node_id) : list node_id := filter (fun n => mem_nid' n m) l.

(* the new dummy tours are exactly [expected] (a list of node lists; [] entries are dropped) *)
Definition new_dummies_are (expected : list (list node_id)) (extra_new : list vehicle_id) : bool :=
  let exp := filter (fun l => negb (Nat.eqb (length l) 0)) expected in
  let nd_ids := filter (fun v => negb (mem_vid v extra_new)) new_ids in
  Nat.eqb (length nd_ids) (length exp) &&
  forallb (fun '(v, l) => negb (is_real_in a v) && opt_nids_eqb (nodes_in a v) (Some l)) (combine nd_ids exp).

Definition check_op (op : opobs) : list Z :=
  match op with
  | OSpawn ty path newv =>
      (if negb (exists_in b newv) && is_real_in a newv &&
          match type_of_real a newv with Some t => t =? ty | None => false end &&
          match nodes_in a newv with Some l => nids_eqb (nondep l) (nondep path) | None => false end then [] else [1301]) ++
      (if others_unchanged [newv] && new_dummies_are [] [newv] then [] else [1302]) ++
      (if added_at_tail newv (nondep path) && forms_unchanged_except (nondep path) then [] else [1303]) ++
      (* documented refusal: nodes not compatible with the vehicle type must yield Err *)
      (if forallb (fun n => compatible_with_vehicle_type nw n ty) path then [] else [1304])
  | OSpawnDummy d ty newv =>
      match nodes_in b d with
      | Some L =>
          (if negb (is_real_in b d) && negb (exists_in a d) && negb (exists_in b newv) && is_real_in a newv &&
              match type_of_real a newv with Some t => t =? ty | None => false end &&
              match nodes_in a newv with Some l => nids_eqb (nondep l) L | None => false end then [] else [1311]) ++
          (if others_unchanged [d; newv] && new_dummies_are [] [newv] then [] else [1312]) ++
          (if added_at_tail newv L && forms_unchanged_except L then [] else [1313])
      | None => [1310]
      end
  | ODelete v =>
      match tour_of_real b v with
      | Some t =>
          let nds := nondep (t_nodes t) in
          (if negb (exists_in a v) then [] else [1321]) ++
          (if others_unchanged [v] && new_dummies_are [handed_back nds] [] then [] else [1322]) ++
          (if removed_keeping_order v nds && forms_unchanged_except nds then [] else [1323])
      | None => [1320]
      end
  | OAddPath v path conflict =>
      match tour_of_real b v with
      | Some t =>
          let '(want, dropped) := ref_insert nw false (t_nodes t) path in
          let fresh := diff_nodes (nondep path) (t_nodes t) in
          let lost := diff_nodes (nondep dropped) path in
          let both := inter_nodes (nondep path) (t_nodes t) in
          (if opt_nids_eqb (nodes_in a v) (Some want) &&
              opt_nids_eqb conflict (if all_depots nw dropped then None else Some dropped) then [] else [1331]) ++
          (if others_unchanged [v] && new_dummies_are [] [] then [] else [1332]) ++
          (if added_at_tail v fresh && removed_keeping_order v lost &&
              forallb (fun n => same_set_v (form_of a n) (form_of b n)) both &&
              forms_unchanged_except (fresh ++ lost ++ both) then [] else [1333]) ++
          (if match type_of_real b v with Some ty => forallb (fun n => compatible_with_vehicle_type nw n ty) path | None => false end
           then [] else [1334])
      | None => [1330]
      end
  | ORemoveSeg v x y =>
      match tour_of_real b v with
      | Some t =>
          match pos_in (t_nodes t) x, pos_in (t_nodes t) y with
          | Some i, Some j =>
              let '(rest, removed) := ref_remove (t_nodes t) i j in
              let vanishes := Nat.eqb (length (nondep rest)) 0 in
              (if ref_removable nw false (t_nodes t) i j &&
                  (if vanishes then negb (exists_in a v) else opt_nids_eqb (nodes_in a v) (Some rest)) then [] else [1341]) ++
              (if others_unchanged [v] && new_dummies_are [handed_back (nondep removed)] [] then [] else [1342]) ++
              (if removed_keeping_order v (nondep removed) && forms_unchanged_except (nondep removed) then [] else [1343])
          | _, _ => [1340]
          end
      | None => [1340]
      end
  | OOverride p x y r newd =>
      match nodes_in b p, nodes_in b r with
      | Some lp, Some lr =>
          match pos_in lp x, pos_in lp y with
          | Some i, Some j =>
              let '(rest, moved) := ref_remove lp i j in
              let pdummy := negb (is_real_in b p) in
              let rdummy := negb (is_real_in b r) in
              let '(want, dropped) := ref_insert nw rdummy lr moved in
              let vanishes := Nat.eqb (length (nondep rest)) 0 in
              let mv := diff_nodes (nondep moved) lr in       (* moved nodes the receiver did not have *)
              let mvb := inter_nodes (nondep moved) lr in     (* moved nodes the receiver already had *)
              let dr := diff_nodes (nondep dropped) moved in
              (if ref_removable nw pdummy lp i j &&
                  (if vanishes then negb (exists_in a p) else opt_nids_eqb (nodes_in a p) (Some rest)) then [] else [1351]) ++
              (if opt_nids_eqb (nodes_in a r) (Some want) then [] else [1352]) ++
              (if others_unchanged (p :: r :: match newd with Some d => [d] | None => [] end) &&
                  new_dummies_are [handed_back (nondep dropped)] [] &&
                  match newd with
                  | Some d => negb (Nat.eqb (length (services (nondep dropped))) 0) && mem_vid d new_ids
                  | None => Nat.eqb (length (services (nondep dropped))) 0
                  end then [] else [1353]) ++
              (if forallb (fun n =>
                     vids_eqb (form_of a n)
                       (match pdummy, rdummy with
                        | false, false => replace_v p r (form_of b n)      (* the receiver takes the provider's position *)
                        | true, false => form_of b n ++ [r]                (* additions go to the tail *)
                        | false, true => without_v p (form_of b n)         (* removals keep the order *)
                        | true, true => form_of b n
                        end)) mv &&
                  (if rdummy then forallb (fun n => vids_eqb (form_of a n) (form_of b n)) dr
                   else removed_keeping_order r dr) &&
                  (* a node the receiver already served: the provider leaves the formation, the receiver stays *)
                  forallb (fun n => same_set_v (form_of a n) (if pdummy then form_of b n else without_v p (form_of b n)) &&
                                    nodup_vid (form_of a n)) mvb &&
                  forms_unchanged_except (mv ++ mvb ++ dr) then [] else [1354]) ++
              (* documented refusal: a segment with a node not compatible with the receiver's type must yield Err *)
              (if match type_of_real b r with Some ty => forallb (fun n => compatible_with_vehicle_type nw n ty) moved | None => true end
               then [] else [1355])
          | _, _ => [1350]
          end
      | _, _ => [1350]
      end
  | OFit p x y r =>
      match nodes_in b p, nodes_in b r with
      | Some lp, Some lr =>
          match pos_in lp x, pos_in lp y with
          | Some i, Some j =>
              let seg := nondep (ref_sub_path lp i j) in
              let pdummy := negb (is_real_in b p) in
              let rdummy := negb (is_real_in b r) in
              match nodes_in a r with
              | Some lr' =>
                  let moved := diff_nodes (nondep lr') lr in
                  let lp' := match nodes_in a p with Some l => l | None => [] end in
                  (* receiver keeps all of its own nodes, gains only segment nodes *)
                  (if forallb (fun n => mem_nid' n lr') (nondep lr) && forallb (fun n => mem_nid' n seg) moved &&
                      Nat.eqb (length (nondep lr')) (length (nondep lr) + length moved) then [] else [1361]) ++
                  (* provider loses exactly the moved nodes (and disappears when nothing is left) *)
                  (if nids_eqb (nondep lp') (diff_nodes (nondep lp) moved) &&
                      (negb (Nat.eqb (length (nondep lp')) 0) || negb (exists_in a p) || pdummy && Nat.eqb (length moved) 0)
                   then [] else [1362]) ++
                  (if others_unchanged [p; r] && new_dummies_are [] [] then [] else [1363]) ++
                  (if forallb (fun n =>
                         vids_eqb (form_of a n)
                           (match pdummy, rdummy with
                            | false, false => replace_v p r (form_of b n)
                            | true, false => form_of b n ++ [r]
                            | false, true => without_v p (form_of b n)
                            | true, true => form_of b n
                            end)) moved && forms_unchanged_except moved then [] else [1364]) ++
                  (if match type_of_real b r with Some ty => forallb (fun n => compatible_with_vehicle_type nw n ty) moved | None => true end
                   then [] else [1365])
              | None => [1360]
              end
          | _, _ => [1360]
          end
      | _, _ => [1360]
      end
  | OImprove vs =>
      (* depot-only operation: no activity changes anywhere; vehicles not named keep their whole tour *)
      (if forallb (fun v => match nodes_in b v, nodes_in a v with
                            | Some l, Some m => nids_eqb (nondep l) (nondep m) &&
                                                (Nat.eqb (length vs) 0 || mem_vid v vs || nids_eqb l m)
                            | _, _ => false end) (all_ids b) && others_unchanged (all_ids b) then [] else [1371]) ++
      (if forms_unchanged_except [] then [] else [1372])
  | OEndDepots =>
      (if forallb (fun v => match nodes_in b v, nodes_in a v with
                            | Some l, Some m => if is_real_in b v then nids_eqb (removelast l) (removelast m) else nids_eqb l m
                            | _, _ => false end) (all_ids b) && others_unchanged (all_ids b) then [] else [1381]) ++
      (if forms_unchanged_except [] then [] else [1382])
  | ORecompute =>
      (if others_unchanged [] then [] else [1391]) ++
      (if forms_unchanged_except [] then [] else [1392])
  end.
End Op.

(** formation order lemmata of C13 are stated on these three list functions (train_formation.rs):
    replace = push new; swap_remove(pos) ; remove = Vec::remove(pos) ; add_at_tail = push *)
(* Vec::swap_remove(p): the element at p is replaced by the last element, which is dropped from the end *)
Definition swap_remove (p : nat) (l : list vehicle_id) : list vehicle_id :=
  match rev l with
  | [] => []
  | lst :: _ => if Nat.eqb p (length l - 1) then removelast l
                else firstn p l ++ [lst] ++ removelast (skipn (p + 1) l)
  end.
Definition tf_replace (old new : vehicle_id) (l : list vehicle_id) : option (list vehicle_id) :=
  match index_of (vid_eqb old) l with
  | Some p => Some (swap_remove p (l ++ [new]))
  | None => None
  end.
Definition tf_remove (v : vehicle_id) (l : list vehicle_id) : option (list vehicle_id) :=
  match index_of (vid_eqb v) l with
  | Some p => Some (firstn p l ++ skipn (p + 1) l)
  | None => None
  end.
Definition tf_add_at_tail (v : vehicle_id) (l : list vehicle_id) : list vehicle_id := l ++ [v].
