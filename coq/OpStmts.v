(* OpStmts.v — C13: what the frame clauses of [check_op] mean (proofs in OpFacts2.v). *)
From RS Require Import Base Network Tour SchedObs Pipeline OpSpec.

(* "all other vehicles' tours stay untouched": every vehicle or dummy outside D keeps its whole node list,
   its kind and its type *)
Definition stmt_frame_tours : Prop :=
  forall b a D v, others_unchanged b a D = true -> In v (all_ids b) -> ~ In v D ->
    nodes_in a v = nodes_in b v /\ is_real_in a v = is_real_in b v /\ type_of_real a v = type_of_real b v.

(* "formations elsewhere stay untouched": same vehicles in the same order for every node outside N *)
Definition stmt_frame_forms : Prop :=
  forall b a N n f, forms_unchanged_except b a N = true -> In (n, f) (so_forms b) -> ~ In n N ->
    form_of a n = f.

(* a passing check of a delete: the vehicle disappears, every other tour is untouched, formations lose
   exactly that vehicle (order kept) on its nodes and are untouched elsewhere *)
Definition stmt_delete_meaning : Prop :=
  forall nw b a v t, check_op nw b a (ODelete v) = [] -> tour_of_real b v = Some t ->
    nodes_in a v = None /\
    (forall u, In u (all_ids b) -> u <> v -> nodes_in a u = nodes_in b u) /\
    (forall n, In n (nondep nw (t_nodes t)) -> form_of a n = without_v v (form_of b n)) /\
    (forall n f, In (n, f) (so_forms b) -> ~ In n (nondep nw (t_nodes t)) -> form_of a n = f).

(* depot-only operations change no activity *)
Definition stmt_improve_meaning : Prop :=
  forall nw b a vs, check_op nw b a (OImprove vs) = [] ->
    (forall u l, In u (all_ids b) -> nodes_in b u = Some l ->
       exists m, nodes_in a u = Some m /\ nondep nw m = nondep nw l) /\
    (forall n f, In (n, f) (so_forms b) -> form_of a n = f).
