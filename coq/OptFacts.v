(* OptFacts.v — C14 at full strength, the converse direction tours -> flow (statements in OptStmts.v).

   FlowFacts2.v: a decomposition of a feasible flow of the per-type network is a set of tours of the same cost.
   Here: every admissible set of tours is the decomposition of a feasible flow of the same cost
   ([tours_give_flow'], core: [tours_flow_core]); with the certificate theorem a certified flow therefore decodes into
   tours that are optimal among the admissible sets of tours ([certified_flow_gives_optimal_tours']) and use the
   fewest vehicles ([optimal_tours_minimise_vehicles']).  Summary at the end of OptFacts2.v. *)
From Coq Require Import List ZArith Bool Lia.
From RS Require Import Base BaseFacts Network NetSpec NetFacts Tour Flow FlowStmts FlowFacts FlowFacts2 FlowFacts3 OptStmts.
Import ListNotations.
Open Scope Z_scope.

(** * generalities *)
Lemma mod4_cases v : exists z, v = 4 * z \/ v = 4 * z + 1 \/ v = 4 * z + 2 \/ v = 4 * z + 3.
Proof.
  exists (v / 4). pose proof (Z.div_mod v 4 ltac:(lia)) as E. pose proof (Z.mod_pos_bound v 4 ltac:(lia)) as B. lia.
Qed.

Lemma forallb_combine_map {A B} (u : A -> B) (q : A * B -> bool) (l : list A) :
  (forall e, In e l -> q (e, u e) = true) -> forallb q (combine l (map u l)) = true.
Proof.
  induction l as [|a l IH]; intros H; [reflexivity|].
  cbn [map combine forallb]. rewrite (H a (or_introl eq_refl)). cbn [andb].
  apply IH. intros e He. apply H. right; exact He.
Qed.

Lemma ind2_range a b t h : 0 <= ind2 a b t h <= 1.
Proof. unfold ind2. destruct ((a =? t) && (b =? h)); lia. Qed.
Lemma ind2_le_head a b t h : ind2 a b t h <= eqz h b.
Proof.
  unfold ind2, eqz. destruct (Z.eqb_spec a t), (Z.eqb_spec b h), (Z.eqb_spec h b); cbn [andb]; lia.
Qed.
Lemma ind2_le_tail a b t h : ind2 a b t h <= eqz t a.
Proof.
  unfold ind2, eqz. destruct (Z.eqb_spec a t), (Z.eqb_spec b h), (Z.eqb_spec t a); cbn [andb]; lia.
Qed.

Lemma windows_single {A} (a : A) : windows [a] = [].
Proof. reflexivity. Qed.

Section T.
Variable nw : network.
Variable ty : Z.
Variable slots : list (node_id * Z).
Hypothesis CD : codes_distinct nw ty slots.
Hypothesis WF : flow_wf nw ty slots.
Local Notation net := (build_flow_network nw ty slots).
Local Notation aub := (arc_upper_bound nw ty slots).
Local Notation ACT := (acts nw ty slots).
Local Notation OKT := (tour_ok nw ty slots).
Local Notation idx := (get_depot_idx nw).

(** ** edge uses are not negative *)
Lemma ind_range e t h : 0 <= ind e t h <= 1.
Proof. rewrite ind_ind2. apply ind2_range. Qed.

Lemma uses_nonneg tours e : 0 <= uses_of_edge nw tours e.
Proof.
  rewrite uses_eq. apply zs_nonneg. intros t _.
  assert (A : 0 <= z_sum (map (nuse nw e) t)).
  { apply zs_nonneg. intros n _. unfold nuse. destruct (is_depot (nd nw n)); [lia|apply ind_range]. }
  assert (B : 0 <= suse nw e t).
  { unfold suse. destruct t as [|s t]; [lia|]. destruct (nd nw s); try lia. apply ind_range. }
  assert (C : 0 <= z_sum (map (ause nw e) (windows t))).
  { apply zs_nonneg. intros [x y] _. unfold ause. apply ind_range. }
  lia.
Qed.

(** ** node codes *)
Lemma act_codes a : In a ACT -> code_as_tail nw a = fr_node a /\ code_as_head nw a = fl_node a.
Proof. intros H. destruct (act_nd nw ty slots WF a H) as (_ & _ & E1 & E2 & _). auto. Qed.
Lemma sd_code n : In n (nw_sdepots nw) -> code_as_tail nw n = fr_depot (idx n).
Proof. intros H. exact (proj1 (proj2 (sdepot_nd nw ty slots WF n H))). Qed.
Lemma ed_code n : In n (nw_edepots nw) -> code_as_head nw n = fl_depot (idx n).
Proof. intros H. exact (proj1 (proj2 (edepot_nd nw ty slots WF n H))). Qed.

Lemma good_head_form y : good_head nw ty slots y -> exists z, code_as_head nw y = 4 * z \/ code_as_head nw y = 4 * z + 2.
Proof.
  intros G. destruct (heads_form nw ty slots (y, code_as_head nw y) (good_head_in nw ty slots WF y G)) as (z & Hz).
  exists z. exact Hz.
Qed.

(** ** conservation at the right copies: the mirror image of FlowFacts2.tour_kv / tour_heads_sum *)
Lemma tour_kv_r v sd mid ed :
  In sd (nw_sdepots nw) -> In ed (nw_edepots nw) -> (forall n, In n mid -> In n ACT) ->
  (exists z, v = 4 * z + 1 \/ v = 4 * z + 3) ->
  let t := sd :: mid ++ [ed] in
  z_sum (map (nlook nw net (kv v)) t) + slook nw net (kv v) t + z_sum (map (alook nw net (kv v)) (windows t)) =
  z_sum (map (fun w => arcz nw ty (fst w) (snd w) * eqz (code_as_tail nw (fst w)) v) (windows t))
  - z_sum (map (fun n => eqz (fr_node n) v) mid) - eqz (fr_depot (idx sd)) v.
Proof.
  intros Hsd Hed Hmid (z & Hz) t.
  assert (E1 : z_sum (map (nlook nw net (kv v)) t) = - z_sum (map (fun n => eqz (fr_node n) v) mid)).
  { unfold t. cbn [map]. rewrite z_sum_cons, map_app, z_sum_app. cbn [map]. rewrite z_sum_cons.
    destruct (sdepot_nd nw ty slots WF sd Hsd) as (D1 & _). destruct (edepot_nd nw ty slots WF ed Hed) as (D2 & _).
    unfold nlook at 1 3. rewrite D1, D2. change (z_sum []) with 0.
    replace (- z_sum (map (fun n => eqz (fr_node n) v) mid)) with (-1 * z_sum (map (fun n => eqz (fr_node n) v) mid)) by lia.
    rewrite zs_scal.
    rewrite (z_sum_map_ext (nlook nw net (kv v)) (fun n => -1 * eqz (fr_node n) v) mid); [lia|].
    intros a Ha. specialize (Hmid a Ha). unfold nlook. destruct (act_nd nw ty slots WF a Hmid) as (-> & _).
    assert (Ek : forall e, fe_tail e = fl_node a -> fe_head e = fr_node a -> kv v e = -1 * eqz (fr_node a) v).
    { intros e Et Eh. rewrite kv_eqz, Et, Eh. rewrite (eqz_neq (fl_node a)); [lia|]. unfold fl_node. lia. }
    apply in_app_or in Hmid. destruct Hmid as [Hs|Hs].
    - rewrite (lookup_service nw ty slots CD (kv v) a Hs). apply Ek; reflexivity.
    - apply in_map_iff in Hs. destruct Hs as ([m c] & E & Hin). cbn [fst] in E. subst m.
      rewrite (lookup_maint nw ty slots CD (kv v) a c Hin). apply Ek; reflexivity. }
  assert (E2 : slook nw net (kv v) t = - eqz (fr_depot (idx sd)) v).
  { unfold slook, t. destruct (sdepot_nd nw ty slots WF sd Hsd) as (_ & _ & _ & _ & d & -> & ->).
    destruct (wf_sdepots nw ty slots WF sd Hsd) as (_ & Hd & _).
    rewrite (lookup_depot nw ty slots CD (kv v) _ Hd). rewrite kv_eqz. cbn [depot_edge fe_tail fe_head].
    rewrite (eqz_neq (fl_depot _)); [lia|]. unfold fl_depot. lia. }
  assert (E3 : z_sum (map (alook nw net (kv v)) (windows t)) =
               z_sum (map (fun w => arcz nw ty (fst w) (snd w) * eqz (code_as_tail nw (fst w)) v) (windows t))).
  { apply z_sum_map_ext. intros [x y] Hw. unfold alook. cbn [fst snd].
    destruct (tour_window_good nw ty slots sd mid ed x y Hsd Hed Hmid Hw) as [Gx Gy].
    rewrite (lookup_arc nw ty slots CD WF (kv v) x y Gx Gy). unfold arcz. destruct (is_arc nw ty x y); [|lia].
    rewrite kv_eqz. cbn [arc_edge fe_tail fe_head].
    destruct (good_head_form y Gy) as (z' & Hz'). rewrite (eqz_neq (code_as_head nw y)); lia. }
  rewrite E1, E2, E3. lia.
Qed.

Lemma tour_tails_sum v sd mid ed :
  In sd (nw_sdepots nw) -> (forall n, In n mid -> In n ACT) ->
  z_sum (map (fun w => eqz (code_as_tail nw (fst w)) v) (windows (sd :: mid ++ [ed]))) =
  eqz (fr_depot (idx sd)) v + z_sum (map (fun n => eqz (fr_node n) v) mid).
Proof.
  intros Hsd Hmid.
  rewrite <- (zs_map_map (fun x => eqz (code_as_tail nw x) v) fst).
  change (sd :: mid ++ [ed]) with ((sd :: mid) ++ [ed]). rewrite windows_fst.
  cbn [map]. rewrite z_sum_cons, (sd_code sd Hsd).
  rewrite (z_sum_map_ext (fun x => eqz (code_as_tail nw x) v) (fun n => eqz (fr_node n) v) mid); [lia|].
  intros a Ha. rewrite (proj1 (act_codes a (Hmid a Ha))). reflexivity.
Qed.

(** ** the start / end counts as sums of indicators *)
Lemma from_sum tours d : (forall t, In t tours -> OKT t) ->
  z_sum (map (fun t => eqz (fl_depot (idx (hd (SD 0) t))) (fl_depot d)) tours) = tours_from nw tours d.
Proof.
  intros OK. unfold tours_from. rewrite zs_filter_len. apply z_sum_map_ext. intros t Ht.
  destruct (OK t Ht) as (sd & ed & mid & -> & Hsd & Hed & _).
  cbn [hd]. destruct (sdepot_nd nw ty slots WF sd Hsd) as (_ & _ & _ & _ & dd & -> & ->).
  unfold eqz, fl_depot. destruct (Z.eqb_spec (idx sd) d) as [->|Hne].
  - rewrite Z.eqb_refl. reflexivity.
  - destruct (Z.eqb_spec (4 * idx sd + 2) (4 * d + 2)); [lia|reflexivity].
Qed.

Lemma to_sum tours d : (forall t, In t tours -> OKT t) ->
  z_sum (map (fun t => eqz (fl_depot (idx (last t (SD 0)))) (fl_depot d)) tours) = tours_to nw tours d.
Proof.
  intros OK. unfold tours_to. rewrite zs_filter_len. apply z_sum_map_ext. intros t Ht.
  destruct (OK t Ht) as (sd & ed & mid & -> & Hsd & Hed & _).
  change (sd :: mid ++ [ed]) with ((sd :: mid) ++ [ed]). rewrite last_last.
  destruct (edepot_nd nw ty slots WF ed Hed) as (_ & _ & _ & dd & -> & ->).
  unfold eqz, fl_depot. destruct (Z.eqb_spec (idx ed) d) as [->|Hne].
  - rewrite Z.eqb_refl. reflexivity.
  - destruct (Z.eqb_spec (4 * idx ed + 2) (4 * d + 2)); [lia|reflexivity].
Qed.

(** ** conservation: the edge uses of tours whose consecutive pairs are arcs and that end where they start (in
       numbers, per depot) form a circulation *)
Theorem uses_conservation tours :
  (forall t, In t tours -> OKT t) ->
  (forall t x y, In t tours -> In (x, y) (windows t) -> is_arc nw ty x y = true) ->
  (forall d, In d (depot_ids nw) -> tours_from nw tours d = tours_to nw tours d) ->
  forall v, net_flow_at net (map (uses_of_edge nw tours) net) v = 0.
Proof.
  intros OK ARC BAL v. rewrite net_flow_at_map, weighted_swap.
  destruct (mod4_cases v) as (z & Hz).
  assert (Hlr : (exists z, v = 4 * z \/ v = 4 * z + 2) \/ (exists z, v = 4 * z + 1 \/ v = 4 * z + 3)).
  { destruct Hz as [Hz|[Hz|[Hz|Hz]]]; [left|right|left|right]; exists z; auto. }
  destruct Hlr as [Hl|Hr].
  - (* a left copy *)
    rewrite (z_sum_map_ext _ (fun t => eqz (fl_depot (idx (hd (SD 0) t))) v - eqz (fl_depot (idx (last t (SD 0)))) v) tours).
    2:{ intros t Ht. destruct (OK t Ht) as (sd & ed & mid & -> & Hsd & Hed & Hmid).
        rewrite (tour_kv nw ty slots CD WF v sd mid ed Hsd Hed Hmid Hl).
        cbn [hd]. change (sd :: mid ++ [ed]) with ((sd :: mid) ++ [ed]) at 2. rewrite last_last.
        rewrite (z_sum_map_ext (fun w => arcz nw ty (fst w) (snd w) * eqz (code_as_head nw (snd w)) v)
                               (fun w => eqz (code_as_head nw (snd w)) v) (windows (sd :: mid ++ [ed]))).
        2:{ intros [x y] Hw. cbn [fst snd]. unfold arcz. rewrite (ARC _ x y Ht Hw). lia. }
        rewrite (tour_heads_sum nw ty slots WF v sd mid ed Hed Hmid). lia. }
    rewrite zs_sub.
    destruct Hz as [Hz|[Hz|[Hz|Hz]]]; try (exfalso; destruct Hl as (z' & Hl); lia).
    + rewrite !z_sum_map_zero; [reflexivity| |]; intros t _; apply eqz_neq; unfold fl_depot; lia.
    + replace v with (fl_depot z) by (unfold fl_depot; lia).
      destruct (in_dec Z.eq_dec z (depot_ids nw)) as [Hin|Hnin].
      * rewrite (from_sum tours z OK), (to_sum tours z OK), (BAL z Hin). lia.
      * rewrite !z_sum_map_zero; [reflexivity| |]; intros t Ht; apply eqz_neq;
          destruct (OK t Ht) as (sd & ed & mid & -> & Hsd & Hed & _).
        -- change (sd :: mid ++ [ed]) with ((sd :: mid) ++ [ed]). rewrite last_last.
           destruct (wf_edepots nw ty slots WF ed Hed) as (_ & Hd & _).
           unfold fl_depot. intros E. apply Hnin. replace z with (idx ed) by lia. exact Hd.
        -- cbn [hd]. destruct (wf_sdepots nw ty slots WF sd Hsd) as (_ & Hd & _).
           unfold fl_depot. intros E. apply Hnin. replace z with (idx sd) by lia. exact Hd.
  - (* a right copy: every tour leaves it as often as it enters *)
    apply z_sum_map_zero. intros t Ht. destruct (OK t Ht) as (sd & ed & mid & -> & Hsd & Hed & Hmid).
    rewrite (tour_kv_r v sd mid ed Hsd Hed Hmid Hr).
    rewrite (z_sum_map_ext (fun w => arcz nw ty (fst w) (snd w) * eqz (code_as_tail nw (fst w)) v)
                           (fun w => eqz (code_as_tail nw (fst w)) v) (windows (sd :: mid ++ [ed]))).
    2:{ intros [x y] Hw. cbn [fst snd]. unfold arcz. rewrite (ARC _ x y Ht Hw). lia. }
    rewrite (tour_tails_sum v sd mid ed Hsd Hmid). lia.
Qed.

(** ** the uses of a connecting arc *)
Definition odd_tail (e : fedge) : Prop := exists z, fe_tail e = 4 * z + 1 \/ fe_tail e = 4 * z + 3.

Lemma arc_uses tours e : odd_tail e ->
  uses_of_edge nw tours e = z_sum (map (fun t => z_sum (map (ause nw e) (windows t))) tours).
Proof.
  intros (z & Hz). rewrite uses_eq. apply z_sum_map_ext. intros t _.
  rewrite (z_sum_map_zero (nuse nw e)).
  2:{ intros n _. unfold nuse. destruct (is_depot (nd nw n)); [reflexivity|].
      rewrite ind_ind2. apply ind2_neq. left. unfold fl_node. lia. }
  assert (E : suse nw e t = 0).
  { unfold suse. destruct t as [|s t]; [reflexivity|]. destruct (nd nw s); try reflexivity.
    rewrite ind_ind2. apply ind2_neq. left. unfold fl_depot. lia. }
  rewrite E. lia.
Qed.

Lemma visits_tour_mid a sd mid ed :
  z_sum (map (fun n => if nid_eqb a n then 1 else 0) mid) <=
  z_sum (map (fun n => if nid_eqb a n then 1 else 0) (sd :: mid ++ [ed])).
Proof.
  cbn [map]. rewrite z_sum_cons, map_app, z_sum_app. cbn [map]. rewrite z_sum_cons. change (z_sum []) with 0.
  destruct (nid_eqb a sd), (nid_eqb a ed); lia.
Qed.

(* an arc into the left copy of an activity is used at most as often as the activity is visited *)
Lemma arc_le_head tours e a :
  (forall t, In t tours -> OKT t) -> odd_tail e -> In a ACT -> fe_head e = fl_node a ->
  uses_of_edge nw tours e <= visits tours a.
Proof.
  intros OK Ho Ha Eh. rewrite (arc_uses tours e Ho), visits_sum. apply z_sum_map_le'. intros t Ht.
  destruct (OK t Ht) as (sd & ed & mid & -> & Hsd & Hed & Hmid).
  etransitivity; [|apply visits_tour_mid].
  etransitivity.
  { apply (z_sum_map_le' (ause nw e) (fun w => eqz (code_as_head nw (snd w)) (fl_node a))).
    intros [x y] _. unfold ause. cbn [snd]. rewrite ind_ind2, Eh. apply ind2_le_head. }
  rewrite (tour_heads_sum nw ty slots WF (fl_node a) sd mid ed Hed Hmid).
  rewrite (eqz_neq (fl_depot _)) by (unfold fl_depot, fl_node; lia). rewrite Z.add_0_r.
  apply z_sum_map_le'. intros n Hn. destruct (Z.eq_dec (fl_node n) (fl_node a)) as [E|E].
  - assert (n = a) by (apply (acts_idx_inj nw ty slots CD); auto; unfold fl_node in E; lia).
    subst n. rewrite nid_eqb_refl. pose proof (eqz_range (fl_node a) (fl_node a)). lia.
  - rewrite (eqz_neq _ _ E). destruct (nid_eqb a n); lia.
Qed.

(* an arc out of the right copy of an activity likewise *)
Lemma arc_le_tail tours e a :
  (forall t, In t tours -> OKT t) -> In a ACT -> fe_tail e = fr_node a ->
  uses_of_edge nw tours e <= visits tours a.
Proof.
  intros OK Ha Et.
  assert (Ho : odd_tail e) by (exists (nid_idx a); left; rewrite Et; reflexivity).
  rewrite (arc_uses tours e Ho), visits_sum. apply z_sum_map_le'. intros t Ht.
  destruct (OK t Ht) as (sd & ed & mid & -> & Hsd & Hed & Hmid).
  etransitivity; [|apply visits_tour_mid].
  etransitivity.
  { apply (z_sum_map_le' (ause nw e) (fun w => eqz (code_as_tail nw (fst w)) (fr_node a))).
    intros [x y] _. unfold ause. cbn [fst]. rewrite ind_ind2, Et. apply ind2_le_tail. }
  rewrite (tour_tails_sum (fr_node a) sd mid ed Hsd Hmid).
  rewrite (eqz_neq (fr_depot _)) by (unfold fr_depot, fr_node; lia). rewrite Z.add_0_l.
  apply z_sum_map_le'. intros n Hn. destruct (Z.eq_dec (fr_node n) (fr_node a)) as [E|E].
  - assert (n = a) by (apply (acts_idx_inj nw ty slots CD); auto; unfold fr_node in E; lia).
    subst n. rewrite nid_eqb_refl. pose proof (eqz_range (fr_node a) (fr_node a)). lia.
  - rewrite (eqz_neq _ _ E). destruct (nid_eqb a n); lia.
Qed.

(* an arc from a start depot node to the left copy of depot d is used only by the tours [p; end node of d] *)
Lemma arc_direct tours e p d :
  (forall t, In t tours -> OKT t) -> In p (nw_sdepots nw) ->
  fe_tail e = fr_depot (idx p) -> fe_head e = fl_depot d ->
  uses_of_edge nw tours e <= direct_tours tours p (get_end_depot_node nw d).
Proof.
  intros OK Hp Et Eh.
  assert (Ho : odd_tail e) by (exists (idx p); right; rewrite Et; reflexivity).
  rewrite (arc_uses tours e Ho). unfold direct_tours. rewrite zs_filter_len. apply z_sum_map_le'. intros t Ht.
  destruct (OK t Ht) as (sd & ed & mid & -> & Hsd & Hed & Hmid).
  destruct mid as [|m mid].
  - change (sd :: [] ++ [ed]) with [sd; ed]. rewrite windows_cons2, windows_single.
    cbn [map]. rewrite z_sum_cons. change (z_sum []) with 0. rewrite Z.add_0_r.
    unfold ause. rewrite ind_ind2, Et, Eh, (sd_code sd Hsd), (ed_code ed Hed).
    unfold ind2. destruct (Z.eqb_spec (fr_depot (idx p)) (fr_depot (idx sd))) as [E1|E1]; cbn [andb].
    2:{ destruct (is_direct p (get_end_depot_node nw d) [sd; ed]); lia. }
    destruct (Z.eqb_spec (fl_depot d) (fl_depot (idx ed))) as [E2|E2].
    2:{ destruct (is_direct p (get_end_depot_node nw d) [sd; ed]); lia. }
    destruct (wf_sdepots nw ty slots WF p Hp) as (_ & _ & Cp).
    destruct (wf_sdepots nw ty slots WF sd Hsd) as (_ & _ & Csd).
    destruct (wf_edepots nw ty slots WF ed Hed) as (_ & _ & Ced).
    assert (E1' : idx sd = idx p) by (unfold fr_depot in E1; lia).
    assert (E2' : idx ed = d) by (unfold fl_depot in E2; lia).
    assert (sd = p) by (rewrite <- Cp, <- Csd, E1'; reflexivity).
    assert (ed = get_end_depot_node nw d) by (rewrite <- E2'; symmetry; exact Ced).
    subst sd. subst ed. cbn [is_direct]. rewrite !nid_eqb_refl. cbn [andb]. lia.
  - assert (Z0 : z_sum (map (ause nw e) (windows (sd :: (m :: mid) ++ [ed]))) = 0).
    { change (sd :: (m :: mid) ++ [ed]) with (sd :: m :: (mid ++ [ed])). rewrite windows_cons2.
      cbn [map]. rewrite z_sum_cons.
      assert (A : ause nw e (sd, m) = 0).
      { unfold ause. rewrite ind_ind2, Eh. rewrite (proj2 (act_codes m (Hmid m (or_introl eq_refl)))).
        apply ind2_neq. right. unfold fl_depot, fl_node. lia. }
      rewrite A, Z.add_0_l. apply z_sum_map_zero. intros [x y] Hw.
      change (m :: mid ++ [ed]) with ((m :: mid) ++ [ed]) in Hw.
      apply windows_in in Hw. destruct Hw as [Hx _]. rewrite removelast_last in Hx.
      unfold ause. rewrite ind_ind2, Et, (proj1 (act_codes x (Hmid x Hx))).
      apply ind2_neq. left. unfold fr_depot, fr_node. lia. }
    rewrite Z0. destruct (is_direct p (get_end_depot_node nw d) (sd :: (m :: mid) ++ [ed])); lia.
Qed.

(** ** the edges of the network, class by class *)
Lemma connecting_in e : In e (connecting_edges nw ty slots) ->
  exists hid hc p tc, In (hid, hc) (heads nw ty slots) /\ In p (predecessors nw ty hid) /\
    tail_code nw slots p = Some tc /\ e = arc_edge nw ty slots p hid tc hc.
Proof.
  rewrite connecting_eq. intros H. apply in_flat_map in H. destruct H as ([hid hc] & Hin & He).
  cbn [fst snd] in He. rewrite arcs_into_eq in He. apply in_flat_map in He. destruct He as (p & Hp & He).
  unfold arc_of in He. destruct (tail_code nw slots p) as [tc|] eqn:Etc; [|destruct He].
  destruct He as [<-|[]]. exists hid, hc, p, tc. auto.
Qed.

Lemma net_in e : In e net ->
  (exists s, In s (service_nodes nw ty) /\ e = service_edge nw ty s) \/
  (exists m c, In (m, c) slots /\ e = maint_edge nw (m, c)) \/
  In e (connecting_edges nw ty slots) \/
  (exists d, In d (depot_ids nw) /\ e = depot_edge nw ty slots d).
Proof.
  unfold build_flow_network. intros H.
  apply in_app_or in H. destruct H as [H|H].
  { left. rewrite service_edges_eq in H. apply in_map_iff in H. destruct H as (s & <- & Hs). exists s. auto. }
  apply in_app_or in H. destruct H as [H|H].
  { right; left. rewrite maint_edges_eq in H. apply in_map_iff in H. destruct H as ([m c] & <- & Hs). exists m, c. auto. }
  apply in_app_or in H. destruct H as [H|H]; [right; right; left; exact H|].
  right; right; right. rewrite depot_edges_eq in H. apply in_map_iff in H. destruct H as (d & <- & Hd). exists d. auto.
Qed.

(** ** bounds *)
Section Bounds.
Variable tours : list (list node_id).
Hypothesis SH : tours_shape nw ty slots tours.
Hypothesis OK : forall t, In t tours -> OKT t.
Hypothesis SV : forall s, In s (service_nodes nw ty) ->
  Z.min (number_of_vehicles_required_to_serve nw ty s)
        (match maximal_formation_count_for nw s with Some l => l | None => 100 end) <= visits tours s <=
  match maximal_formation_count_for nw s with Some l => l | None => 100 end.
Hypothesis SL : forall m c, In (m, c) slots -> visits tours m = c.
Hypothesis DP : forall d, In d (depot_ids nw) -> tours_from nw tours d <= capacity_of nw d ty.
Hypothesis DR : directs_ok nw ty slots tours.

Lemma act_nondepot x : In x ACT -> is_depot (nd nw x) = false.
Proof. intros H. exact (proj1 (act_nd nw ty slots WF x H)). Qed.

Lemma visits_le_aub a : In a ACT -> visits tours a <= aub.
Proof.
  intros Ha. apply in_app_or in Ha. destruct Ha as [Hs|Hs].
  - pose proof (SV a Hs) as B. pose proof (aub_ge_mf nw ty slots a Hs) as C. lia.
  - apply in_map_iff in Hs. destruct Hs as ([m c] & E & Hin). cbn [fst] in E. subst m.
    rewrite (SL a c Hin). exact (aub_ge_slot nw ty slots a c Hin).
Qed.

Lemma arc_bound e : In e (connecting_edges nw ty slots) -> 0 <= uses_of_edge nw tours e <= aub.
Proof.
  intros He. split; [apply uses_nonneg|].
  destruct (connecting_in e He) as (hid & hc & p & tc & Hh & Hp & Etc & ->).
  destruct (pred_good_tail nw ty slots WF hid p tc Hp Etc) as [Gp ->].
  destruct Gp as [Ga|Gd].
  - (* the tail is an activity *)
    etransitivity; [|exact (visits_le_aub p Ga)].
    apply (arc_le_tail tours _ p OK Ga). cbn [arc_edge fe_tail]. exact (proj1 (act_codes p Ga)).
  - (* the tail is a start depot node *)
    assert (Ho : odd_tail (arc_edge nw ty slots p hid (code_as_tail nw p) hc)).
    { exists (idx p). right. cbn [arc_edge fe_tail]. rewrite (sd_code p Gd). reflexivity. }
    unfold heads in Hh. apply in_app_or in Hh. destruct Hh as [Hh|Hh]; [|apply in_app_or in Hh; destruct Hh as [Hh|Hh]].
    + apply in_map_iff in Hh. destruct Hh as (s & E & Hs). inversion E; subst hid hc.
      assert (Ha : In s ACT) by (apply in_or_app; left; exact Hs).
      etransitivity; [|exact (visits_le_aub s Ha)].
      apply (arc_le_head tours _ s OK Ho Ha). reflexivity.
    + apply in_map_iff in Hh. destruct Hh as (mc & E & Hs). inversion E; subst hid hc.
      assert (Ha : In (fst mc) ACT) by (apply in_or_app; right; apply in_map; exact Hs).
      etransitivity; [|exact (visits_le_aub (fst mc) Ha)].
      apply (arc_le_head tours _ (fst mc) OK Ho Ha). reflexivity.
    + apply in_map_iff in Hh. destruct Hh as (d & E & Hd). inversion E; subst hid hc.
      etransitivity; [|exact (DR p (get_end_depot_node nw d))].
      apply (arc_direct tours _ p d OK Gd); cbn [arc_edge fe_tail fe_head]; [exact (sd_code p Gd)|reflexivity].
Qed.

Lemma edge_bounds e : In e net -> fe_lower e <= uses_of_edge nw tours e <= fe_upper e.
Proof.
  intros He. destruct (net_in e He) as [(s & Hs & ->)|[(m & c & Hm & ->)|[Hc|(d & Hd & ->)]]].
  - rewrite (uses_node_edge nw ty slots tours (service_edge nw ty s) s CD SH act_nondepot); try reflexivity.
    + cbn [service_edge fe_lower fe_upper]. exact (SV s Hs).
    + apply in_or_app. left; exact Hs.
  - rewrite (uses_node_edge nw ty slots tours (maint_edge nw (m, c)) m CD SH act_nondepot); try reflexivity.
    + cbn [maint_edge fe_lower fe_upper]. rewrite (SL m c Hm). lia.
    + apply in_or_app. right. change m with (fst (m, c)). apply in_map. exact Hm.
  - pose proof (arc_bound e Hc) as B. destruct (connecting_in e Hc) as (hid & hc & p & tc & _ & _ & _ & ->).
    cbn [arc_edge fe_lower fe_upper]. exact B.
  - rewrite (uses_depot_edge nw tours (depot_edge nw ty slots d) d) by reflexivity.
    cbn [depot_edge fe_lower fe_upper]. split; [unfold tours_from; lia|exact (DP d Hd)].
Qed.
End Bounds.

(** ** the flow of an admissible set of tours *)
Theorem tours_flow_core tours :
  admissible nw ty slots tours -> directs_ok nw ty slots tours ->
  feasible net (flow_of_tours nw ty slots tours) = true /\
  is_decomposition nw net (flow_of_tours nw ty slots tours) tours = true /\
  flow_cost net (flow_of_tours nw ty slots tours) = tours_cost nw ty slots tours.
Proof.
  intros [SH TE ARC SV SL DP BAL] DR.
  pose proof (tours_ok nw ty slots tours SH TE) as OK.
  assert (ARC' : forall t x y, In t tours -> In (x, y) (windows t) -> is_arc nw ty x y = true).
  { intros t x y Ht Hw. unfold is_arc. destruct (in_dec nid_eq_dec x (predecessors nw ty y)) as [_|N]; [reflexivity|].
    exfalso. exact (N (ARC t x y Ht Hw)). }
  assert (F : feasible net (flow_of_tours nw ty slots tours) = true).
  { unfold feasible, flow_of_tours. rewrite map_length, Nat.eqb_refl. cbn [andb].
    apply andb_true_intro. split.
    - apply forallb_combine_map. intros e He.
      pose proof (edge_bounds tours SH OK SV SL DP DR e He) as B.
      apply andb_true_intro. split; apply Z.leb_le; lia.
    - apply forallb_forall. intros v _. apply Z.eqb_eq. exact (uses_conservation tours OK ARC' BAL v). }
  assert (D : is_decomposition nw net (flow_of_tours nw ty slots tours) tours = true).
  { unfold is_decomposition, flow_of_tours. apply andb_true_intro. split.
    - apply forallb_combine_map. intros e _. apply Z.eqb_refl.
    - apply forallb_forall. intros d Hd. apply Z.eqb_eq. exact (BAL d Hd). }
  split; [exact F|]. split; [exact D|].
  unfold tours_cost. exact (flow_cost_is_tour_cost_under_wf nw ty slots _ tours WF TE CD SH F D).
Qed.
End T.

(** * The theorems *)
Theorem tours_give_flow' : forall nw ty slots, stmt_tours_give_flow' nw ty slots.
Proof.
  intros nw ty slots WF CD _ tours AD DR. cbv zeta. exact (tours_flow_core nw ty slots CD WF tours AD DR).
Qed.

(* every tour has an activity: then no direct tour occurs at all *)
Lemma directs_ok_of_nonempty nw ty slots tours :
  0 <= arc_upper_bound nw ty slots -> (forall t, In t tours -> (2 < length t)%nat) -> directs_ok nw ty slots tours.
Proof.
  intros Hn Hl sd ed. unfold direct_tours.
  assert (E : filter (is_direct sd ed) tours = []).
  { induction tours as [|t tours IH]; [reflexivity|]. cbn [filter].
    assert (Ht : is_direct sd ed t = false).
    { pose proof (Hl t (or_introl eq_refl)) as L.
      destruct t as [|a [|b [|c r]]]; cbn [length] in L; try lia; reflexivity. }
    rewrite Ht. apply IH. intros t' Ht'. apply Hl. right; exact Ht'. }
  rewrite E. cbn [length]. lia.
Qed.

Corollary tours_give_flow_nonempty :
  forall nw ty slots, flow_wf nw ty slots -> codes_distinct nw ty slots ->
  0 <= arc_upper_bound nw ty slots ->
  forall tours, admissible nw ty slots tours -> (forall t, In t tours -> (2 < length t)%nat) ->
    let net := build_flow_network nw ty slots in
    feasible net (flow_of_tours nw ty slots tours) = true /\
    is_decomposition nw net (flow_of_tours nw ty slots tours) tours = true /\
    flow_cost net (flow_of_tours nw ty slots tours) = tours_cost nw ty slots tours.
Proof.
  intros nw ty slots WF CD Hn tours AD Hl. cbv zeta.
  exact (tours_flow_core nw ty slots CD WF tours AD (directs_ok_of_nonempty nw ty slots tours Hn Hl)).
Qed.

(** ** the decoded tours of a certified flow are optimal *)
Theorem certified_flow_gives_optimal_tours' : forall nw ty slots, stmt_certified_flow_gives_optimal_tours' nw ty slots.
Proof.
  intros nw ty slots WF CD _ f pi tours net CO DE SH TE tours' AD' DR'.
  assert (F : feasible net f = true).
  { unfold check_optimal in CO. apply andb_prop in CO. exact (proj1 CO). }
  destruct (tours_flow_core nw ty slots CD WF tours' AD' DR') as (F' & _ & C').
  pose proof (flow_cost_is_tour_cost_under_wf nw ty slots f tours WF TE CD SH F DE) as C.
  pose proof (dual_certificate_sound net f pi CO _ F') as L.
  unfold tours_cost at 1. fold net in C'. rewrite <- C, <- C'. exact L.
Qed.

(** ** ... and use the fewest vehicles *)
Lemma spawning_cost_nonneg nw ty slots :
  0 <= planning_s nw -> 0 <= total_lower_bound nw ty slots -> 0 <= spawning_cost nw ty slots.
Proof.
  intros Hp Hl. unfold spawning_cost.
  set (m := fold_left Z.max _ _).
  assert (1 <= Z.max 1 m) by lia. nia.
Qed.

Theorem optimal_tours_minimise_vehicles' : forall nw ty slots, stmt_optimal_tours_minimise_vehicles' nw ty slots.
Proof.
  intros nw ty slots WF CD ND HS f pi tours net CO DE SH TE NN tours' AD' DR' LT.
  pose proof (certified_flow_gives_optimal_tours' nw ty slots WF CD ND f pi tours CO DE SH TE tours' AD' DR') as L.
  unfold tours_cost in L.
  assert (C0 : 0 <= z_sum (map (fun t => compute_costs nw t) tours)) by (apply zs_nonneg; exact NN).
  destruct (Nat.le_gt_cases (length tours) (length tours')) as [H|H]; [exact H|exfalso].
  set (S := spawning_cost nw ty slots) in *.
  set (n := Z.of_nat (length tours)) in *. set (n' := Z.of_nat (length tours')) in *.
  assert (Hn : n' + 1 <= n) by (unfold n, n'; lia).
  assert (S * (n' + 1) <= S * n) by (apply Z.mul_le_mono_nonneg_l; lia).
  lia.
Qed.

Corollary optimal_tours_minimise_vehicles_loaded_form :
  forall nw ty slots, flow_wf nw ty slots -> codes_distinct nw ty slots ->
  0 <= planning_s nw -> 0 <= total_lower_bound nw ty slots ->
  forall f pi tours,
    let net := build_flow_network nw ty slots in
    check_optimal net f pi = true -> is_decomposition nw net f tours = true ->
    tours_shape nw ty slots tours -> tours_ends nw tours ->
    (forall t, In t tours -> 0 <= compute_costs nw t) ->
    forall tours', admissible nw ty slots tours' -> directs_ok nw ty slots tours' ->
      z_sum (map (fun t => compute_costs nw t) tours') < spawning_cost nw ty slots ->
      (length tours <= length tours')%nat.
Proof.
  intros nw ty slots WF CD Hp Hl f pi tours net CO DE SH TE NN tours' AD' DR' LT.
  assert (ND : NoDup (map fst slots)) by exact (slotids_nodup nw ty slots CD).
  exact (optimal_tours_minimise_vehicles' nw ty slots WF CD ND (spawning_cost_nonneg nw ty slots Hp Hl)
           f pi tours CO DE SH TE NN tours' AD' DR' LT).
Qed.

Print Assumptions uses_conservation.
Print Assumptions tours_flow_core.
Print Assumptions tours_give_flow'.
Print Assumptions tours_give_flow_nonempty.
Print Assumptions certified_flow_gives_optimal_tours'.
Print Assumptions optimal_tours_minimise_vehicles'.
Print Assumptions optimal_tours_minimise_vehicles_loaded_form.
