(* OptFacts2.v — C14 at full strength, continued: an executable check of [admissible] / [directs_ok] with its soundness
   proof, the refutation of the uncorrected statement [stmt_tours_give_flow] on a loaded network, and the non-vacuity
   examples on the loaded network [nw2] of FlowFacts2.v.  Summary of OptFacts.v / OptFacts2.v at the end. *)
From Coq Require Import List ZArith Bool Lia.
From RS Require Import Base BaseFacts Network NetSpec NetFacts LoadStmts LoadFacts EndToEndStmts Tour Flow FlowStmts FlowFacts
  FlowFacts2 FlowFacts3 OptStmts OptFacts.
Import ListNotations.
Open Scope Z_scope.

(** * [admissible] and [directs_ok] as executable checks *)
Definition mem_nid (x : node_id) (l : list node_id) : bool := existsb (nid_eqb x) l.
Lemma mem_nid_in x l : mem_nid x l = true -> In x l.
Proof.
  unfold mem_nid. rewrite existsb_exists. intros (y & Hy & E). apply nid_eqb_eq in E. subst y. exact Hy.
Qed.

Section Check.
Variable nw : network.
Variable ty : Z.
Variable slots : list (node_id * Z).
Local Notation aub := (arc_upper_bound nw ty slots).

Definition mf_or_100 (s : node_id) : Z := match maximal_formation_count_for nw s with Some l => l | None => 100 end.

Definition shape_b (t : list node_id) : bool :=
  match t with
  | sd :: ((_ :: _) as r) =>
      is_start_depot (nd nw sd) && is_end_depot (nd nw (last r (SD 0))) &&
      forallb (fun n => mem_nid n (service_nodes nw ty) || mem_nid n (map fst slots)) (removelast r)
  | _ => false
  end.
Definition ends_b (t : list node_id) : bool :=
  mem_nid (hd (SD 0) t) (nw_sdepots nw) && mem_nid (last t (SD 0)) (nw_edepots nw).
Definition arcs_b (t : list node_id) : bool :=
  forallb (fun w => mem_nid (fst w) (predecessors nw ty (snd w))) (windows t).
Definition service_b (tours : list (list node_id)) : bool :=
  forallb (fun s => (Z.min (number_of_vehicles_required_to_serve nw ty s) (mf_or_100 s) <=? visits tours s) &&
                    (visits tours s <=? mf_or_100 s)) (service_nodes nw ty).
Definition slots_b (tours : list (list node_id)) : bool :=
  forallb (fun mc => visits tours (fst mc) =? snd mc) slots.
Definition depots_b (tours : list (list node_id)) : bool :=
  forallb (fun d => (tours_from nw tours d <=? capacity_of nw d ty) && (tours_from nw tours d =? tours_to nw tours d))
          (depot_ids nw).
Definition admissible_b (tours : list (list node_id)) : bool :=
  forallb (fun t => shape_b t && ends_b t && arcs_b t) tours && service_b tours && slots_b tours && depots_b tours.
(* no direct tour [sd; ed] occurs more often than an arc carries *)
Definition directs_b (tours : list (list node_id)) : bool :=
  (0 <=? aub) &&
  forallb (fun t => match t with [x; y] => direct_tours tours x y <=? aub | _ => true end) tours.

Lemma shape_b_sound t : shape_b t = true ->
  exists sd ed mid, t = sd :: mid ++ [ed] /\ is_start_depot (nd nw sd) = true /\ is_end_depot (nd nw ed) = true /\
    forall n, In n mid -> In n (service_nodes nw ty) \/ In n (map fst slots).
Proof.
  destruct t as [|sd [|a r]]; try discriminate. unfold shape_b. intros H.
  apply andb_prop in H. destruct H as [H H3]. apply andb_prop in H. destruct H as [H1 H2].
  exists sd, (last (a :: r) (SD 0)), (removelast (a :: r)). split; [|split; [exact H1|split; [exact H2|]]].
  - f_equal. apply app_removelast_last. discriminate.
  - intros n Hn. pose proof (forallb_In _ _ H3 n Hn) as Q. cbv beta in Q. apply orb_prop in Q.
    destruct Q as [Q|Q]; [left|right]; exact (mem_nid_in _ _ Q).
Qed.

Theorem admissible_b_sound tours : admissible_b tours = true -> admissible nw ty slots tours.
Proof.
  unfold admissible_b. intros H.
  apply andb_prop in H. destruct H as [H H4]. apply andb_prop in H. destruct H as [H H3].
  apply andb_prop in H. destruct H as [H1 H2].
  assert (T : forall t, In t tours -> shape_b t = true /\ ends_b t = true /\ arcs_b t = true).
  { intros t Ht. pose proof (forallb_In _ _ H1 t Ht) as Q. cbv beta in Q.
    apply andb_prop in Q. destruct Q as [Q Q3]. apply andb_prop in Q. destruct Q as [Q1 Q2]. auto. }
  constructor.
  - intros t Ht. exact (shape_b_sound t (proj1 (T t Ht))).
  - intros t Ht. destruct (T t Ht) as (_ & Q & _). unfold ends_b in Q. apply andb_prop in Q.
    destruct Q as [Q1 Q2]. split; apply mem_nid_in; assumption.
  - intros t x y Ht Hw. destruct (T t Ht) as (_ & _ & Q). unfold arcs_b in Q.
    pose proof (forallb_In _ _ Q (x, y) Hw) as Q'. cbn [fst snd] in Q'. exact (mem_nid_in _ _ Q').
  - intros s Hs. cbv zeta. pose proof (forallb_In _ _ H2 s Hs) as Q. cbv beta in Q. unfold mf_or_100 in Q.
    apply andb_prop in Q. destruct Q as [Q1 Q2]. apply Z.leb_le in Q1. apply Z.leb_le in Q2. split; assumption.
  - intros m c Hm. pose proof (forallb_In _ _ H3 (m, c) Hm) as Q. cbn [fst snd] in Q. apply Z.eqb_eq in Q. exact Q.
  - intros d Hd. pose proof (forallb_In _ _ H4 d Hd) as Q. cbv beta in Q. apply andb_prop in Q.
    destruct Q as [Q _]. apply Z.leb_le in Q. exact Q.
  - intros d Hd. pose proof (forallb_In _ _ H4 d Hd) as Q. cbv beta in Q. apply andb_prop in Q.
    destruct Q as [_ Q]. apply Z.eqb_eq in Q. exact Q.
Qed.

Theorem directs_b_sound tours : directs_b tours = true -> directs_ok nw ty slots tours.
Proof.
  unfold directs_b. intros H. apply andb_prop in H. destruct H as [H0 H]. apply Z.leb_le in H0.
  intros sd ed. unfold direct_tours.
  destruct (filter (is_direct sd ed) tours) as [|t r] eqn:E; [cbn [length]; lia|].
  assert (Hin : In t (filter (is_direct sd ed) tours)) by (rewrite E; left; reflexivity).
  apply filter_In in Hin. destruct Hin as [Ht Hd].
  destruct t as [|x [|y [|z q]]]; try discriminate Hd.
  cbn [is_direct] in Hd. apply andb_prop in Hd. destruct Hd as [Hx Hy].
  apply nid_eqb_eq in Hx. apply nid_eqb_eq in Hy. subst x y.
  pose proof (forallb_In _ _ H _ Ht) as Q. cbv beta iota in Q. apply Z.leb_le in Q.
  rewrite <- E. exact Q.
Qed.

(* the theorem tours -> flow with every hypothesis on the tours as an executable check *)
Theorem tours_give_flow_checked :
  flow_wf nw ty slots -> codes_distinct nw ty slots ->
  forall tours, admissible_b tours = true -> directs_b tours = true ->
    let net := build_flow_network nw ty slots in
    feasible net (flow_of_tours nw ty slots tours) = true /\
    is_decomposition nw net (flow_of_tours nw ty slots tours) tours = true /\
    flow_cost net (flow_of_tours nw ty slots tours) = tours_cost nw ty slots tours.
Proof.
  intros WF CD tours A D. cbv zeta.
  exact (tours_flow_core nw ty slots CD WF tours (admissible_b_sound tours A) (directs_b_sound tours D)).
Qed.
End Check.

(** * The decoded tours are themselves among the competitors *)
(* flow -> tours, in the vocabulary of OptStmts: the decomposition of a feasible flow is admissible and satisfies
   [directs_ok] (the direct tours [sd; ed] are units on the arc sd -> ed, which carries at most [arc_upper_bound]); so the
   minimum of the optimality theorem is attained by the decoded tours.  [0 <= arc_upper_bound] is only used when no
   direct tour occurs. *)
Section Back.
Variable nw : network.
Variable ty : Z.
Variable slots : list (node_id * Z).
Hypothesis CD : codes_distinct nw ty slots.
Hypothesis WF : flow_wf nw ty slots.
Local Notation net := (build_flow_network nw ty slots).
Local Notation aub := (arc_upper_bound nw ty slots).

Lemma arc_edge_in x y : good_tail nw ty slots x -> good_head nw ty slots y -> In x (predecessors nw ty y) ->
  In (arc_edge nw ty slots x y (code_as_tail nw x) (code_as_head nw y)) net.
Proof.
  intros Gx Gy Hp. unfold build_flow_network.
  apply in_or_app; right. apply in_or_app; right. apply in_or_app; left.
  rewrite connecting_eq. apply in_flat_map. exists (y, code_as_head nw y).
  split; [exact (good_head_in nw ty slots WF y Gy)|].
  cbn [fst snd]. rewrite arcs_into_eq. apply in_flat_map. exists x. split; [exact Hp|].
  unfold arc_of. rewrite (good_tail_code nw ty slots WF x Gx). left; reflexivity.
Qed.

Lemma direct_le_uses tours sd ed :
  direct_tours tours sd ed <=
  uses_of_edge nw tours (arc_edge nw ty slots sd ed (code_as_tail nw sd) (code_as_head nw ed)).
Proof.
  set (e := arc_edge nw ty slots sd ed (code_as_tail nw sd) (code_as_head nw ed)).
  assert (Ho : odd_tail e) by (destruct (tail_form nw sd) as (z & Hz); exists z; exact Hz).
  rewrite (arc_uses nw tours e Ho). unfold direct_tours. rewrite zs_filter_len. apply z_sum_map_le'. intros t _.
  destruct (is_direct sd ed t) eqn:D.
  - destruct t as [|x [|y [|z q]]]; try discriminate D. cbn [is_direct] in D. apply andb_prop in D.
    destruct D as [Dx Dy]. apply nid_eqb_eq in Dx. apply nid_eqb_eq in Dy. subst x y.
    rewrite windows_cons2, windows_single. cbn [map]. rewrite z_sum_cons. change (z_sum []) with 0.
    unfold ause. rewrite ind_ind2. unfold e. cbn [arc_edge fe_tail fe_head]. rewrite ind2_same. lia.
  - apply zs_nonneg. intros [x y] _. unfold ause. apply ind_range.
Qed.

Theorem decomposition_admissible (f : flow) tours :
  0 <= aub -> tours_shape nw ty slots tours -> tours_ends nw tours ->
  feasible net f = true -> is_decomposition nw net f tours = true ->
  admissible nw ty slots tours /\ directs_ok nw ty slots tours.
Proof.
  intros H0 SH TE Hf Hd.
  pose proof (tours_ok nw ty slots tours SH TE) as OK.
  pose proof (decomposition_pairs_are_arcs nw ty slots f tours WF CD SH TE Hf Hd) as ARC.
  destruct (covers_core nw ty slots f tours CD SH (act_nondepot nw ty slots WF) Hf Hd) as (C1 & C2 & C3).
  split.
  - constructor; auto.
    intros d Hin. unfold is_decomposition in Hd. apply andb_prop in Hd. destruct Hd as [_ Hd].
    pose proof (forallb_In _ _ Hd d Hin) as E. cbv beta in E. apply Z.eqb_eq in E. exact E.
  - intros sd ed.
    destruct (filter (is_direct sd ed) tours) as [|t r] eqn:E; [unfold direct_tours; rewrite E; cbn [length]; lia|].
    assert (Hin : In t (filter (is_direct sd ed) tours)) by (rewrite E; left; reflexivity).
    apply filter_In in Hin. destruct Hin as [Ht D].
    destruct t as [|x [|y [|z q]]]; try discriminate D. cbn [is_direct] in D. apply andb_prop in D.
    destruct D as [Dx Dy]. apply nid_eqb_eq in Dx. apply nid_eqb_eq in Dy. subst x y.
    destruct (OK _ Ht) as (sd' & ed' & mid & Et & Hsd & Hed & _).
    assert (Emid : sd' = sd /\ ed' = ed).
    { destruct mid as [|m mid]; cbn [app] in Et.
      - injection Et as -> ->. auto.
      - injection Et as _ _ Et. destruct mid; discriminate Et. }
    destruct Emid as [-> ->].
    assert (Hw : In (sd, ed) (windows [sd; ed])) by (left; reflexivity).
    pose proof (ARC _ sd ed Ht Hw) as Hp.
    pose proof (arc_edge_in sd ed (or_intror Hsd) (or_intror Hed) Hp) as Hin.
    pose proof (decomposition_bounds nw ty slots f tours _ Hf Hd Hin) as B. cbn [arc_edge fe_upper] in B.
    pose proof (direct_le_uses tours sd ed) as L. lia.
Qed.

(* the optimality theorem with the decoded tours as one of the competitors: the minimum is attained *)
Corollary certified_tours_attain_minimum :
  0 <= aub ->
  forall f pi tours,
    check_optimal net f pi = true -> is_decomposition nw net f tours = true ->
    tours_shape nw ty slots tours -> tours_ends nw tours ->
    (admissible nw ty slots tours /\ directs_ok nw ty slots tours) /\
    forall tours', admissible nw ty slots tours' -> directs_ok nw ty slots tours' ->
      tours_cost nw ty slots tours <= tours_cost nw ty slots tours'.
Proof.
  intros H0 f pi tours CO DE SH TE.
  assert (F : feasible net f = true).
  { unfold check_optimal in CO. apply andb_prop in CO. exact (proj1 CO). }
  split; [exact (decomposition_admissible f tours H0 SH TE F DE)|].
  exact (certified_flow_gives_optimal_tours' nw ty slots WF CD (slotids_nodup nw ty slots CD) f pi tours CO DE SH TE).
Qed.
End Back.

(** * [stmt_tours_give_flow] as written is false on a loaded network *)
(* [inst2] of FlowFacts2.v with a formation limit of 1 for the vehicle type: a valid instance; in its loaded network
   every arc carries at most one vehicle ([arc_upper_bound] = 1), depot 0 has capacity 5, and the start node SD 0 of
   depot 0 is a listed predecessor of its end node ED 1.  The tours below (one real tour, two direct tours SD 0 -> ED 1)
   are admissible, but two units on the arc SD 0 -> ED 1 exceed its capacity. *)
Definition inst4 : instance := {|
  i_types := [ {| vt_cap := 100; vt_seats := 50; vt_limit := Some 1 |} ];
  i_nlocs := 2;
  i_depots := Some [ {| id_loc := 0; id_cap := 5; id_allowed := [(0, None)] |} ];
  i_routes := [ {| r_type := 0; r_segs := [ {| rs_origin := 0; rs_dest := 1; rs_dist := 1000; rs_dur := 3600; rs_limit := None |} ] |};
                {| r_type := 0; r_segs := [ {| rs_origin := 1; rs_dest := 0; rs_dist := 1000; rs_dur := 3600; rs_limit := None |} ] |} ];
  i_departures := [ {| d_route := 0; d_segs := [ {| ds_rseg := 0; ds_dep := 43200; ds_pass := 10; ds_seated := 5 |} ] |};
                    {| d_route := 1; d_segs := [ {| ds_rseg := 0; ds_dep := 50000; ds_pass := 10; ds_seated := 5 |} ] |} ];
  i_slots := Some [ {| is_loc := 1; is_start := 60000; is_end := 70000; is_tracks := 1 |} ];
  i_dh_dur := [[0; 600]; [600; 0]];
  i_dh_dist := [[0; 1000]; [1000; 0]];
  i_params := {| p_forbid := false; p_min := 0; p_dht := 0; p_maxdist := 0;
                 c_staff := 1; c_service := 1; c_maint := 3; c_dh := 5; c_idle := 2 |} |}.
Definition nw4 : network := match load inst4 [] with Ok nw => nw | _ => nw_dflt end.
Definition toursR4 : list (list node_id) := [[SD 0; SV 4; SV 5; MT 6; ED 1]; [SD 0; ED 1]; [SD 0; ED 1]].

Example nw4_loaded : valid_instance_b inst4 = true /\ load inst4 [] = Ok nw4 /\ net_wf_b nw4 = true.
Proof. vm_compute. auto. Qed.

Example nw4_flow_wf : flow_wf nw4 0 slots2.
Proof.
  apply flow_wf_of_net_wf.
  - exact (proj2 (proj2 nw4_loaded)).
  - vm_compute. auto.
  - intros s H. vm_compute in H. destruct H as [<-|[<-|[]]]; vm_compute; reflexivity.
  - intros s H. vm_compute in H. destruct H as [<-|[]]; vm_compute; reflexivity.
  - intros s H. vm_compute in H. destruct H as [<-|[]]. vm_compute. auto.
  - intros s H. vm_compute in H. destruct H as [<-|[<-|[]]]; (split; [|split]); vm_compute; auto.
  - intros s H. vm_compute in H. destruct H as [<-|[<-|[]]]; (split; [|split]); vm_compute; auto.
Qed.

Example nw4_codes : codes_distinct nw4 0 slots2.
Proof.
  split; vm_compute; repeat constructor; intros HH; repeat (destruct HH as [HH|HH]; try discriminate HH); auto.
Qed.

Example nw4_facts :
  arc_upper_bound nw4 0 slots2 = 1 /\ capacity_of nw4 0 0 = 5 /\ In (SD 0) (predecessors nw4 0 (ED 1)) /\
  admissible_b nw4 0 slots2 toursR4 = true /\ directs_b nw4 0 slots2 toursR4 = false /\
  direct_tours toursR4 (SD 0) (ED 1) = 2 /\
  feasible (build_flow_network nw4 0 slots2) (flow_of_tours nw4 0 slots2 toursR4) = false.
Proof. vm_compute. repeat split; auto. Qed.

Theorem tours_give_flow_refuted : ~ (forall nw ty slots, stmt_tours_give_flow nw ty slots).
Proof.
  intros H.
  assert (ND : NoDup (map fst slots2)) by (repeat constructor; intros []).
  assert (AD : admissible nw4 0 slots2 toursR4).
  { apply admissible_b_sound. exact (proj1 (proj2 (proj2 (proj2 nw4_facts)))). }
  specialize (H nw4 0 slots2 nw4_flow_wf nw4_codes ND toursR4 AD). cbv zeta in H. destruct H as [F _].
  pose proof (proj2 (proj2 (proj2 (proj2 (proj2 (proj2 nw4_facts)))))) as F'.
  rewrite F in F'. discriminate F'.
Qed.

(** * Non-vacuity on the loaded network [nw2] (FlowFacts2.v: two trips SV 4, SV 5, one allotted slot MT 6, depot 0 with
      nodes SD 0 / ED 1 and capacity 5, overflow depot 1 with nodes SD 2 / ED 3) *)
(* one vehicle doing everything (the decomposition of [fOK]); two vehicles; three vehicles, one of them idle *)
Definition tours2a : list (list node_id) := [[SD 0; SV 4; ED 1]; [SD 0; SV 5; MT 6; ED 1]].
Definition tours2b : list (list node_id) := [[SD 0; SV 4; ED 1]; [SD 2; SV 5; MT 6; ED 3]; [SD 0; ED 1]].

Example nw2_admissible :
  admissible nw2 0 slots2 toursOK /\ directs_ok nw2 0 slots2 toursOK /\
  admissible nw2 0 slots2 tours2a /\ directs_ok nw2 0 slots2 tours2a /\
  admissible nw2 0 slots2 tours2b /\ directs_ok nw2 0 slots2 tours2b.
Proof.
  split; [|split; [|split; [|split; [|split]]]];
    first [apply admissible_b_sound; vm_compute; reflexivity | apply directs_b_sound; vm_compute; reflexivity].
Qed.

(* a set of tours that is not admissible: SV 5 -> SV 4 is no arc *)
Example nw2_not_admissible : admissible_b nw2 0 slots2 [[SD 0; SV 5; SV 4; MT 6; ED 1]] = false.
Proof. vm_compute. reflexivity. Qed.

(* tours -> flow applies *)
Example nw2_tours_give_flow :
  feasible net2 (flow_of_tours nw2 0 slots2 tours2b) = true /\
  is_decomposition nw2 net2 (flow_of_tours nw2 0 slots2 tours2b) tours2b = true /\
  flow_cost net2 (flow_of_tours nw2 0 slots2 tours2b) = tours_cost nw2 0 slots2 tours2b.
Proof.
  destruct nw2_instance as (CD & _).
  destruct nw2_admissible as (_ & _ & _ & _ & A & D).
  exact (tours_flow_core nw2 0 slots2 CD nw2_flow_wf tours2b A D).
Qed.

(* the flow [fOK] is certified optimal by node potentials ... *)
Definition pi2 : Z -> Z :=
  pi_of [(2, -3888000); (3, 0); (6, -3459000); (7, 0); (16, 0); (17, -6400); (20, 0); (21, -14600); (24, 0); (25, -3891000)].
Example fOK_certified : check_optimal net2 fOK pi2 = true.
Proof. vm_compute. reflexivity. Qed.

(* ... hence its decomposition [toursOK] is optimal among all admissible sets of tours *)
Example nw2_optimal :
  forall tours', admissible nw2 0 slots2 tours' -> directs_ok nw2 0 slots2 tours' ->
    tours_cost nw2 0 slots2 toursOK <= tours_cost nw2 0 slots2 tours'.
Proof.
  destruct nw2_instance as (CD & SH & TE & _ & DE & _).
  assert (ND : NoDup (map fst slots2)) by (repeat constructor; intros []).
  exact (certified_flow_gives_optimal_tours' nw2 0 slots2 nw2_flow_wf CD ND fOK pi2 toursOK fOK_certified DE SH TE).
Qed.

Example nw2_costs :
  tours_cost nw2 0 slots2 toursOK = 3949200 /\ tours_cost nw2 0 slots2 tours2a = 7836800 /\
  tours_cost nw2 0 slots2 tours2b = 12582800 /\ spawning_cost nw2 0 slots2 = 3888000.
Proof. vm_compute. auto. Qed.

(* ... and no admissible set of tours whose operating costs stay below one spawning cost is empty *)
Example nw2_vehicles :
  forall tours', admissible nw2 0 slots2 tours' -> directs_ok nw2 0 slots2 tours' ->
    z_sum (map (fun t => compute_costs nw2 t) tours') < spawning_cost nw2 0 slots2 ->
    (length toursOK <= length tours')%nat.
Proof.
  destruct nw2_instance as (CD & SH & TE & _ & DE & _).
  assert (ND : NoDup (map fst slots2)) by (repeat constructor; intros []).
  assert (S0 : 0 <= spawning_cost nw2 0 slots2) by (vm_compute; discriminate).
  assert (NN : forall t, In t toursOK -> 0 <= compute_costs nw2 t).
  { intros t [<-|[]]. vm_compute. discriminate. }
  exact (optimal_tours_minimise_vehicles' nw2 0 slots2 nw2_flow_wf CD ND S0 fOK pi2 toursOK fOK_certified DE SH TE NN).
Qed.

(** * Summary (OptFacts.v, OptFacts2.v)
   - [tours_give_flow_refuted] : [stmt_tours_give_flow] is FALSE as written, on a network loaded from a valid instance.
     The flow network has depot -> depot arcs (a start depot node is a listed predecessor of every end depot node:
     can_reach is true from a start depot to any non-start node), capped at [arc_upper_bound] like every connecting
     arc.  A tour [sd; ed] without activity uses such an arc, and [admissible] bounds the number of tours starting at a
     depot only by the depot's capacity, which may exceed [arc_upper_bound] (formation limit 1, capacity 5 in [inst4]).
     All other edge classes are fine: an arc into / out of an activity is used at most as often as the activity is
     visited, which is at most the capacity of its node edge, and [arc_upper_bound] dominates those
     (FlowFacts3.aub_ge_mf, aub_ge_slot).
   - [tours_give_flow'] (core [tours_flow_core]) : the statement with the additional hypothesis [directs_ok]: no direct
     tour [sd; ed] occurs more than [arc_upper_bound] times.  [tours_give_flow_nonempty]: in particular when every tour
     has at least one activity and [0 <= arc_upper_bound] (the tours the flow solver decodes may contain direct tours
     only if the circulation sends flow over a depot -> depot arc, which then is within the arc's bound).  Both added
     hypotheses are about the TOURS except [0 <= arc_upper_bound], which holds for every network loaded from a valid
     instance with unsigned limits (FlowFacts3.Lcirculation_feasible, E2).  The premise [NoDup (map fst slots)] of the
     statements is redundant (it follows from [codes_distinct]); it is kept in the primed statements and not used.
     Proof: bounds class by class ([edge_bounds], [arc_bound] with [arc_le_head], [arc_le_tail], [arc_direct]);
     conservation at every integer v ([uses_conservation]) by exchanging the sums as in FlowFacts2 ([weighted_swap],
     [tour_kv], [tour_heads_sum] for left copies, their mirror images [tour_kv_r], [tour_tails_sum] for right copies):
     a tour contributes [it starts at d] - [it ends at d] at the left copy of depot d and 0 everywhere else, so the
     balance is [ad_balanced]; the cost equation is FlowFacts2.flow_cost_is_tour_cost_under_wf applied to the flow.
   - [certified_flow_gives_optimal_tours'] : the decomposition of a certified flow costs no more than ANY admissible set
     of tours with [directs_ok].  The unprimed statement (competitors with more than [arc_upper_bound] copies of one
     direct tour) is neither proved nor refuted: such a competitor is not a flow of the network, so the certificate
     says nothing about it (it pays one spawning cost per direct tour, but nothing in the hypotheses orders that
     against the dead-head costs of arbitrary network records).
   - [optimal_tours_minimise_vehicles'] : vehicles first, under [0 <= spawning_cost] ([spawning_cost_nonneg]: from
     [0 <= planning_s] and [0 <= total_lower_bound], true of loaded networks; form with these two hypotheses:
     [optimal_tours_minimise_vehicles_loaded_form]).  Without it the arithmetic fails: the competitor's operating
     costs are only bounded above by the spawning cost, so a negative spawning cost would reward extra vehicles.
   - [decomposition_admissible] : conversely the decomposition of a feasible flow is admissible and satisfies
     [directs_ok] (given [0 <= arc_upper_bound]), so the decoded tours are among the competitors and
     [certified_tours_attain_minimum]: they attain the minimum of [tours_cost] over the admissible sets with [directs_ok].
   - executable: [admissible_b], [directs_b] with [admissible_b_sound], [directs_b_sound];
     [tours_give_flow_checked] is the theorem with the hypotheses on the tours as checks.
   - non-vacuity: on the loaded network [nw2] three sets of tours are admissible ([nw2_admissible]: 1, 2, 3 vehicles,
     the last with a direct tour and the overflow depot), one is rejected ([nw2_not_admissible]); [fOK] is certified by
     explicit potentials ([fOK_certified]), so all three theorems apply ([nw2_tours_give_flow], [nw2_optimal],
     [nw2_vehicles]; costs in [nw2_costs]). *)
Print Assumptions admissible_b_sound.
Print Assumptions directs_b_sound.
Print Assumptions tours_give_flow_checked.
Print Assumptions decomposition_admissible.
Print Assumptions certified_tours_attain_minimum.
Print Assumptions tours_give_flow_refuted.
Print Assumptions nw2_admissible.
Print Assumptions nw2_tours_give_flow.
Print Assumptions fOK_certified.
Print Assumptions nw2_optimal.
Print Assumptions nw2_vehicles.
