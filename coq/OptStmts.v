(* OptStmts.v — C14 at full strength: "the tours of the start solution use the minimum number of vehicles ... and among such
   solutions minimum operating cost, where any two activities that are connectable under the timing rules may follow each
   other". FlowFacts2.v shows flow -> tours (a decomposition of a feasible flow is an admissible set of tours whose cost is
   the flow's cost). Here the converse, tours -> flow: EVERY admissible set of tours is the decomposition of a feasible
   flow of the same cost; with the certificate theorem (FlowFacts.dual_certificate_sound) a certified flow therefore decodes
   into a set of tours that is optimal among ALL admissible sets of tours. Proofs in OptFacts.v. *)
From RS Require Import Base Network NetSpec Tour Flow FlowStmts FlowFacts2.

Section O.
Variable nw : network.
Variable ty : Z.
Variable slots : list (node_id * Z).

Definition tours_to (tours : list (list node_id)) (d : Z) : Z :=
  Z.of_nat (length (filter (fun t => match nd nw (last t (SD 0)) with NEnd dd => dn_depot dd =? d | _ => false end) tours)).

(* the competitors: sets of tours [start depot; activities of the type / allotted slots; end depot] in which consecutive
   nodes are connectable (listed predecessors = exactly the connectable nodes of the type: predecessors_exact), every trip
   is visited between min(required, limit) and limit times, every allotted slot exactly its allotted number of times, no
   depot starts more tours than its capacity for the type, and as many tours end in a depot as start there *)
Record admissible (tours : list (list node_id)) : Prop := {
  ad_shape : tours_shape nw ty slots tours;
  ad_ends : tours_ends nw tours;
  ad_arcs : forall t x y, In t tours -> In (x, y) (windows t) -> In x (predecessors nw ty y);
  ad_service : forall s, In s (service_nodes nw ty) ->
     let mf := match maximal_formation_count_for nw s with Some l => l | None => 100 end in
     Z.min (number_of_vehicles_required_to_serve nw ty s) mf <= visits tours s <= mf;
  ad_slots : forall m c, In (m, c) slots -> visits tours m = c;
  ad_depots : forall d, In d (depot_ids nw) -> tours_from nw tours d <= capacity_of nw d ty;
  ad_balanced : forall d, In d (depot_ids nw) -> tours_from nw tours d = tours_to tours d }.

Definition tours_cost (tours : list (list node_id)) : Z :=
  spawning_cost nw ty slots * Z.of_nat (length tours) + z_sum (map (fun t => compute_costs nw t) tours).

(* the flow that sends one unit along every tour *)
Definition flow_of_tours (tours : list (list node_id)) : flow :=
  map (uses_of_edge nw tours) (build_flow_network nw ty slots).

(** tours -> flow *)
Definition stmt_tours_give_flow : Prop :=
  flow_wf nw ty slots -> codes_distinct nw ty slots -> NoDup (map fst slots) ->
  forall tours, admissible tours ->
    let net := build_flow_network nw ty slots in
    feasible net (flow_of_tours tours) = true /\
    is_decomposition nw net (flow_of_tours tours) tours = true /\
    flow_cost net (flow_of_tours tours) = tours_cost tours.

(** the start solution is optimal among all admissible sets of tours *)
Definition stmt_certified_flow_gives_optimal_tours : Prop :=
  flow_wf nw ty slots -> codes_distinct nw ty slots -> NoDup (map fst slots) ->
  forall f pi tours,
    let net := build_flow_network nw ty slots in
    check_optimal net f pi = true -> is_decomposition nw net f tours = true ->
    tours_shape nw ty slots tours -> tours_ends nw tours ->
    forall tours', admissible tours' -> tours_cost tours <= tours_cost tours'.

(** vehicles first: a competitor with fewer vehicles would have to pay more than one spawning cost in operating costs *)
Definition stmt_optimal_tours_minimise_vehicles : Prop :=
  flow_wf nw ty slots -> codes_distinct nw ty slots -> NoDup (map fst slots) ->
  forall f pi tours,
    let net := build_flow_network nw ty slots in
    check_optimal net f pi = true -> is_decomposition nw net f tours = true ->
    tours_shape nw ty slots tours -> tours_ends nw tours ->
    (forall t, In t tours -> 0 <= compute_costs nw t) ->
    forall tours', admissible tours' ->
      z_sum (map (fun t => compute_costs nw t) tours') < spawning_cost nw ty slots ->
      (length tours <= length tours')%nat.
(** ** corrected variants (proved in OptFacts.v; see the explanations there)
    [stmt_tours_give_flow] is false on loaded networks: a start depot node is a listed predecessor of every end depot
    node, so the network has depot -> depot arcs, capped at [arc_upper_bound] like every arc; a tour [sd; ed] without
    activity uses that arc, and nothing in [admissible] keeps more than [arc_upper_bound] such tours from running
    between the same two depot nodes when the depot's capacity is larger (OptFacts2.tours_give_flow_refuted).
    [directs_ok]: no direct tour [sd; ed] occurs more than [arc_upper_bound] times.  It holds in particular when every
    tour has at least one activity and [0 <= arc_upper_bound] (OptFacts.directs_ok_of_nonempty; the latter is true of
    every network loaded from a valid instance with unsigned limits: FlowFacts3.Lcirculation_feasible, E2). *)
Definition is_direct (sd ed : node_id) (t : list node_id) : bool :=
  match t with [x; y] => nid_eqb x sd && nid_eqb y ed | _ => false end.
Definition direct_tours (tours : list (list node_id)) (sd ed : node_id) : Z :=
  Z.of_nat (length (filter (is_direct sd ed) tours)).
Definition directs_ok (tours : list (list node_id)) : Prop :=
  forall sd ed, direct_tours tours sd ed <= arc_upper_bound nw ty slots.

Definition stmt_tours_give_flow' : Prop :=
  flow_wf nw ty slots -> codes_distinct nw ty slots -> NoDup (map fst slots) ->
  forall tours, admissible tours -> directs_ok tours ->
    let net := build_flow_network nw ty slots in
    feasible net (flow_of_tours tours) = true /\
    is_decomposition nw net (flow_of_tours tours) tours = true /\
    flow_cost net (flow_of_tours tours) = tours_cost tours.

(* the competitors are the admissible sets of tours with [directs_ok] *)
Definition stmt_certified_flow_gives_optimal_tours' : Prop :=
  flow_wf nw ty slots -> codes_distinct nw ty slots -> NoDup (map fst slots) ->
  forall f pi tours,
    let net := build_flow_network nw ty slots in
    check_optimal net f pi = true -> is_decomposition nw net f tours = true ->
    tours_shape nw ty slots tours -> tours_ends nw tours ->
    forall tours', admissible tours' -> directs_ok tours' -> tours_cost tours <= tours_cost tours'.

(* ... and spawning a vehicle does not pay ([0 <= spawning_cost]: true whenever the planning horizon and the total
   lower bound are not negative, OptFacts.spawning_cost_nonneg; both hold in every loaded network) *)
Definition stmt_optimal_tours_minimise_vehicles' : Prop :=
  flow_wf nw ty slots -> codes_distinct nw ty slots -> NoDup (map fst slots) ->
  0 <= spawning_cost nw ty slots ->
  forall f pi tours,
    let net := build_flow_network nw ty slots in
    check_optimal net f pi = true -> is_decomposition nw net f tours = true ->
    tours_shape nw ty slots tours -> tours_ends nw tours ->
    (forall t, In t tours -> 0 <= compute_costs nw t) ->
    forall tours', admissible tours' -> directs_ok tours' ->
      z_sum (map (fun t => compute_costs nw t) tours') < spawning_cost nw ty slots ->
      (length tours <= length tours')%nat.
End O.
