(* OutFacts.v — proofs of the statements in OutStmts.v: what a passing output-level checker means. *)
From Coq Require Import Permutation.
From RS Require Import Base BaseFacts Network NetSpec NetFacts Tour SchedObs Output OutStmts.

(** * generic helpers *)
Lemma if_nil_true (b : bool) (c : Z) : (if b then [] else [c]) = [] -> b = true.
Proof. destruct b; [reflexivity | discriminate]. Qed.

Lemma mem_vid_in v l : mem_vid v l = true <-> In v l.
Proof.
  induction l as [|x l IH]; cbn [mem_vid In]; [intuition discriminate|].
  rewrite orb_true_iff, IH, vid_eqb_eq. intuition.
Qed.

Lemma nodup_vid_NoDup l : nodup_vid l = true -> NoDup l.
Proof.
  induction l as [|x l IH]; cbn [nodup_vid]; [constructor|].
  rewrite andb_true_iff, negb_true_iff. intros [H1 H2]. constructor; auto.
  intros Hin. apply mem_vid_in in Hin. congruence.
Qed.

Lemma same_vids_iff a b : same_vids a b = true -> forall x, In x a <-> In x b.
Proof.
  unfold same_vids. rewrite andb_true_iff, !forallb_forall. intros [H1 H2] x.
  split; intros H; [apply H1 in H | apply H2 in H]; now apply mem_vid_in.
Qed.

(** * C01 *)
Theorem C01_sound : stmt_C01_sound.
Proof.
  intros nw out WF H v Hv.
  unfold check_C01 in H.
  apply app_eq_nil in H. destruct H as [H1 H].
  apply app_eq_nil in H. destruct H as [H2 H].
  apply app_eq_nil in H. destruct H as [H3 H4].
  apply if_nil_true in H1, H2, H3, H4.
  rewrite forallb_forall in H1, H2, H3, H4.
  specialize (H1 v Hv). specialize (H2 v Hv). specialize (H3 v Hv). specialize (H4 v Hv).
  cbv beta in H2, H3, H4.
  apply andb_true_iff in H3. destruct H3 as [_ H3].
  unfold itinerary in *.
  set (s := get_start_depot_node nw (ov_sdepot v)) in *.
  set (e := get_end_depot_node nw (ov_edepot v)) in *.
  set (m := map oa_node (ov_acts v)) in *.
  unfold valid_tour_nodes in H3.
  rewrite !andb_true_iff in H3. destruct H3 as [[[[A1 A2] A3] A4] A5].
  cbn [tl] in A4. rewrite removelast_last in A4.
  rewrite forallb_forall in A4, A5.
  split.
  { intros E. rewrite E in H2. discriminate. }
  split; [exact A1|].
  split.
  { change (s :: m ++ [e]) with ((s :: m) ++ [e]) in A2 |- *. rewrite last_last in A2 |- *. exact A2. }
  split.
  { intros a b Hab. apply (can_reach_iff nw WF). apply (A5 (a, b) Hab). }
  intros a Ha. split.
  - assert (Hin : In (oa_node a) m) by (unfold m; apply in_map; exact Ha).
    specialize (A4 _ Hin). apply negb_true_iff in A4. exact A4.
  - rewrite forallb_forall in H4. apply H4; exact Ha.
Qed.
Print Assumptions C01_sound.

(** * C02 *)
Theorem max_formation_spec : stmt_max_formation_spec.
Proof.
  intros nw n. unfold maximal_formation_count_for, formation_limit, omin.
  destruct (vtype_of nw (vehicle_type_for nw n)) as [vt|].
  - destruct (vt_limit vt); destruct (nd nw n) as [d|s|m|d]; try reflexivity.
    destruct (st_limit s); reflexivity.
  - destruct (nd nw n) as [d|s|m|d]; try reflexivity. destruct (st_limit s); reflexivity.
Qed.
Print Assumptions max_formation_spec.

Theorem C02_sound : stmt_C02_sound.
Proof.
  intros nw out H. unfold check_C02 in H.
  apply app_eq_nil in H. destruct H as [H1 H].
  apply app_eq_nil in H. destruct H as [H2 H3].
  apply if_nil_true in H1, H2.
  rewrite forallb_forall in H1, H2.
  split; [|split].
  - intros s l Hs Hl. specialize (H1 s Hs). cbv beta in H1. rewrite Hl in H1. now apply Z.leb_le.
  - intros s Hs. specialize (H2 s Hs). now apply Z.leb_le.
  - destruct (nw_overflow nw) as [[od a] b]. cbn [fst].
    apply if_nil_true in H3. rewrite forallb_forall in H3.
    intros d e Hd Hne. specialize (H3 (d, e) Hd). cbv beta iota in H3.
    apply orb_true_iff in H3. destruct H3 as [H3|H3].
    + apply Z.eqb_eq in H3. contradiction.
    + apply andb_true_iff in H3. destruct H3 as [H3 H4]. rewrite forallb_forall in H3.
      split.
      * intros ty Hty. apply Z.leb_le. apply H3; exact Hty.
      * now apply Z.leb_le.
Qed.
Print Assumptions C02_sound.

(** * C03: once_each *)
Lemma count_nid_pos_in n l : (0 < count_nid n l)%nat -> In n l.
Proof.
  induction l as [|x l IH]; cbn [count_nid]; [lia|].
  destruct (nid_eqb n x) eqn:E.
  - intros _. left. symmetry. now apply nid_eqb_eq.
  - intros H. right. apply IH. lia.
Qed.

Theorem once_each_perm : stmt_once_each_perm.
Proof.
  intros want got H ND. unfold once_each in H.
  apply andb_true_iff in H. destruct H as [HL HC].
  apply Nat.eqb_eq in HL. rewrite forallb_forall in HC.
  apply NoDup_Permutation_bis; [exact ND | lia |].
  intros n Hn. specialize (HC n Hn). apply Nat.eqb_eq in HC.
  apply count_nid_pos_in. lia.
Qed.
Print Assumptions once_each_perm.

(** * C07: the lower bound *)
Lemma div_ceil_mul_ge a b : 0 < b -> a <= div_ceil a b * b.
Proof.
  intros Hb. unfold div_ceil.
  pose proof (Z.div_mod (a + b - 1) b ltac:(lia)) as E.
  pose proof (Z.mod_pos_bound (a + b - 1) b Hb) as M.
  nia.
Qed.

Lemma req_covers nw n vt :
  vtype_of nw (vehicle_type_for nw n) = Some vt -> 0 < vt_cap vt -> 0 < vt_seats vt ->
  let req := number_of_vehicles_required_to_serve nw (vehicle_type_for nw n) n in
  passengers_of nw n <= req * vt_cap vt /\ seated_of nw n <= req * vt_seats vt.
Proof.
  intros Hvt Hc Hs req. unfold req, number_of_vehicles_required_to_serve. rewrite Hvt.
  pose proof (div_ceil_mul_ge (passengers_of nw n) (vt_cap vt) Hc).
  pose proof (div_ceil_mul_ge (seated_of nw n) (vt_seats vt) Hs).
  set (x := div_ceil (passengers_of nw n) (vt_cap vt)) in *.
  set (y := div_ceil (seated_of nw n) (vt_seats vt)) in *.
  split; nia.
Qed.

Lemma shortfall_core pass seated cap seats k0 k :
  0 < cap -> 0 < seats ->
  (k <= k0 \/ (pass <= k0 * cap /\ seated <= k0 * seats)) ->
  Z.max 0 (pass - k0 * cap) + Z.max 0 (seated - k0 * seats) <= shortfall pass seated k cap seats.
Proof.
  intros Hc Hs H. unfold shortfall. destruct H as [H|[H1 H2]]; nia.
Qed.

Theorem lb_is_lower_bound : stmt_lb_is_lower_bound.
Proof.
  intros nw n vt k Hvt Hc Hs Hp Hse Hk Hl.
  destruct (req_covers nw n vt Hvt Hc Hs) as [R1 R2].
  unfold lb_at. rewrite Hvt.
  set (req := number_of_vehicles_required_to_serve nw (vehicle_type_for nw n) n) in *.
  cbv zeta.
  apply shortfall_core; try assumption.
  destruct (formation_limit nw n) as [l|].
  - specialize (Hl l eq_refl). destruct (Z.le_ge_cases req l) as [C|C].
    + right. rewrite Z.min_l by exact C. split; assumption.
    + left. rewrite Z.min_r by exact C. exact Hl.
  - right. split; assumption.
Qed.
Print Assumptions lb_is_lower_bound.

Theorem lb_zero_when_unlimited : stmt_lb_zero_when_unlimited.
Proof.
  intros nw n vt Hvt Hc Hs Hp Hse Hl.
  destruct (req_covers nw n vt Hvt Hc Hs) as [R1 R2].
  unfold lb_at. rewrite Hvt.
  set (req := number_of_vehicles_required_to_serve nw (vehicle_type_for nw n) n) in *.
  cbv zeta.
  assert (E : match formation_limit nw n with Some l => Z.min req l | None => req end = req).
  { destruct (formation_limit nw n) as [l|]; [|reflexivity]. specialize (Hl l eq_refl). lia. }
  rewrite E. lia.
Qed.
Print Assumptions lb_zero_when_unlimited.

(** * C05: balance *)
Definition ind {A} (p : A -> bool) (x : A) : nat := if p x then 1%nat else 0%nat.

Lemma list_sum_cons x l : list_sum (x :: l) = (x + list_sum l)%nat.
Proof. reflexivity. Qed.

Lemma filter_length_sum {A} (p : A -> bool) l : length (filter p l) = list_sum (map (ind p) l).
Proof.
  induction l as [|x l IH]; cbn [filter map]; [reflexivity|].
  rewrite list_sum_cons. unfold ind at 1. destruct (p x); cbn [length]; rewrite IH; lia.
Qed.

Lemma list_sum_perm l l' : Permutation l l' -> list_sum l = list_sum l'.
Proof. induction 1; rewrite ?list_sum_cons; lia. Qed.

Lemma filter_and {A} (p q : A -> bool) l :
  filter (fun x => p x && q x) l = filter p (filter q l).
Proof.
  induction l as [|x l IH]; cbn [filter]; [reflexivity|].
  destruct (q x); cbn [filter]; destruct (p x); cbn [andb]; rewrite IH; reflexivity.
Qed.

(* sums along the windows of a list *)
Lemma windows_shift {A} (ge gs : A -> nat) (L : list A) :
  (forall a b, In (a, b) (windows L) -> ge a = gs b) ->
  list_sum (map ge (removelast L)) = list_sum (map gs (tl L)).
Proof.
  induction L as [|a L IH]; [reflexivity|].
  destruct L as [|b r]; [reflexivity|].
  intros H.
  change (removelast (a :: b :: r)) with (a :: removelast (b :: r)).
  cbn [tl map]. rewrite !list_sum_cons.
  rewrite IH.
  - cbn [tl]. rewrite (H a b) by (cbn [windows]; left; reflexivity). reflexivity.
  - intros x y Hxy. apply H. cbn [windows]. right. exact Hxy.
Qed.

Lemma cycle_shift (ge gs : vehicle_id -> nat) (l : list vehicle_id) :
  (forall a b, In (a, b) (cyclic_pairs l) -> ge a = gs b) ->
  list_sum (map ge l) = list_sum (map gs l).
Proof.
  destruct l as [|f r]; [reflexivity|].
  unfold cyclic_pairs. intros H.
  apply windows_shift in H.
  rewrite removelast_last in H. rewrite H.
  cbn [app tl]. rewrite map_app, list_sum_app. cbn [map]. rewrite !list_sum_cons. cbn [list_sum fold_right]. lia.
Qed.

Lemma concat_shift (ge gs : vehicle_id -> nat) (cycles : list (list vehicle_id)) :
  (forall l, In l cycles -> list_sum (map ge l) = list_sum (map gs l)) ->
  list_sum (map ge (concat cycles)) = list_sum (map gs (concat cycles)).
Proof.
  induction cycles as [|l cs IH]; [reflexivity|].
  intros H. cbn [concat]. rewrite !map_app, !list_sum_app.
  rewrite (H l) by (left; reflexivity). rewrite IH; [reflexivity|].
  intros l' Hl'. apply H. right. exact Hl'.
Qed.

Lemma veh_by_id_unique out v :
  NoDup (map ov_id (o_vehicles out)) -> In v (o_vehicles out) -> veh_by_id out (ov_id v) = Some v.
Proof.
  unfold veh_by_id. induction (o_vehicles out) as [|w l IH]; cbn [map In find]; [contradiction|].
  intros ND Hin. inversion ND as [|? ? Hn ND']; subst.
  destruct (vid_eqb (ov_id v) (ov_id w)) eqn:E.
  - destruct Hin as [->|Hin]; [reflexivity|].
    apply vid_eqb_eq in E. exfalso. apply Hn. rewrite <- E. apply in_map. exact Hin.
  - destruct Hin as [->|Hin]; [rewrite vid_eqb_refl in E; discriminate|].
    apply IH; assumption.
Qed.

Lemma NoDup_map_filter {A B} (f : A -> B) (p : A -> bool) l : NoDup (map f l) -> NoDup (map f (filter p l)).
Proof.
  induction l as [|x l IH]; cbn [map filter]; [auto|].
  intros ND. inversion ND as [|? ? Hn ND']; subst.
  destruct (p x); [|auto]. cbn [map]. constructor; [|auto].
  intros Hin. apply Hn. apply in_map_iff in Hin. destruct Hin as (y & Ey & Hy).
  apply filter_In in Hy. destruct Hy as [Hy _]. rewrite <- Ey. apply in_map. exact Hy.
Qed.

Theorem C05_balance : stmt_C05_balance.
Proof.
  intros nw out H Hid d ty Hty.
  unfold check_C05 in H. apply app_eq_nil in H. destruct H as [H1 H2].
  apply if_nil_true in H1, H2. rewrite forallb_forall in H1, H2.
  specialize (H1 ty Hty). cbv beta in H1.
  destruct (assoc Z.eqb ty (o_cycles out)) as [cycles|] eqn:Ea; [|discriminate].
  cbv zeta in H1. apply andb_true_iff in H1. destruct H1 as [Hnd Hsame].
  apply nodup_vid_NoDup in Hnd. apply nodup_vid_NoDup in Hid.
  pose proof (same_vids_iff _ _ Hsame) as Hset.
  apply (assoc_in Z.eqb Z.eqb_eq) in Ea.
  specialize (H2 _ Ea). cbv beta iota in H2. rewrite forallb_forall in H2.
  set (V := filter (fun v => ov_type v =? ty) (o_vehicles out)) in *.
  assert (NDV : NoDup (map ov_id V)) by (apply NoDup_map_filter; exact Hid).
  assert (Hperm : Permutation (concat cycles) (map ov_id V)) by (apply NoDup_Permutation; assumption).
  (* the vehicle behind an id *)
  set (dflt := {| ov_id := Veh 0; ov_type := 0; ov_sdepot := 0; ov_edepot := 0; ov_acts := [];
                  ov_lists_sorted := true; ov_dhs := [] |}).
  set (f := fun x => match veh_by_id out x with Some v => v | None => dflt end).
  assert (HfV : map f (map ov_id V) = V).
  { rewrite map_map. rewrite <- (map_id V) at 2. apply map_ext_in.
    intros v Hv. unfold V in Hv. apply filter_In in Hv. destruct Hv as [Hv _].
    unfold f. rewrite (veh_by_id_unique out v Hid Hv). reflexivity. }
  set (ps := fun v => ov_sdepot v =? d). set (pe := fun v => ov_edepot v =? d).
  assert (Hcount : forall p : oveh -> bool,
            length (filter (fun v => p v && (ov_type v =? ty)) (o_vehicles out)) =
            list_sum (map (fun x => ind p (f x)) (concat cycles))).
  { intros p. rewrite filter_and. fold V. rewrite filter_length_sum.
    rewrite <- HfV at 1. rewrite map_map.
    apply list_sum_perm. apply Permutation_map. symmetry. exact Hperm. }
  unfold starts_at, ends_at. f_equal.
  change (length (filter (fun v => ps v && (ov_type v =? ty)) (o_vehicles out)) =
          length (filter (fun v => pe v && (ov_type v =? ty)) (o_vehicles out))).
  rewrite (Hcount ps), (Hcount pe). symmetry.
  apply concat_shift. intros l Hl. apply cycle_shift.
  intros a b Hab. specialize (H2 l Hl). rewrite forallb_forall in H2.
  specialize (H2 (a, b) Hab). cbv beta iota in H2.
  unfold f, ind, ps, pe.
  destruct (veh_by_id out a) as [va|]; [|discriminate].
  destruct (veh_by_id out b) as [vb|]; [|discriminate].
  apply Z.eqb_eq in H2. rewrite H2. reflexivity.
Qed.
Print Assumptions C05_balance.
