(* OutStmts.v — full statements of the theorems about the output-level checkers (C01, C02, C03, C05, C07):
   what a passing checker means in terms of the documented rules. Proofs in OutFacts.v. *)
From Coq Require Import Permutation.
From RS Require Import Base Network NetSpec Tour SchedObs Output.

(* C01: a passing check_C01 means every itinerary starts at a start depot, ends at an end depot, has at least
   one activity, every consecutive pair satisfies the documented timing rule [Reach], activities are not
   depots and service trips have the vehicle's type. *)
Definition stmt_C01_sound : Prop :=
  forall nw out, net_wf_b nw = true -> check_C01 nw out = [] ->
  forall v, In v (o_vehicles out) ->
    ov_acts v <> [] /\
    is_start_depot (nd nw (hd (SD 0) (itinerary nw v))) = true /\
    is_end_depot (nd nw (last (itinerary nw v) (SD 0))) = true /\
    (forall a b, In (a, b) (windows (itinerary nw v)) -> Reach nw (nd nw a) (nd nw b)) /\
    (forall a, In a (ov_acts v) ->
       is_depot (nd nw (oa_node a)) = false /\ compatible_with_vehicle_type nw (oa_node a) (ov_type v) = true).

(* C02: the limit the code applies is the smaller of the type's and the segment's limit *)
Definition stmt_max_formation_spec : Prop :=
  forall nw n, maximal_formation_count_for nw n = formation_limit nw n.

Definition stmt_C02_sound : Prop :=
  forall nw out, check_C02 nw out = [] ->
  (forall s l, In s (o_segs out) -> formation_limit nw (os_node s) = Some l -> Z.of_nat (length (os_form s)) <= l) /\
  (forall s, In s (o_slots out) -> Z.of_nat (length (os_form s)) <= track_count nw (os_node s)) /\
  (forall d e, In (d, e) (nw_depots nw) -> d <> fst (fst (nw_overflow nw)) ->
     (forall ty, In ty (type_ids nw) -> starts_at out d ty <= capacity_of nw d ty) /\
     z_sum (map (starts_at out d) (type_ids nw)) <= total_capacity_of nw d).

(* C03: "every departure segment exactly once" *)
Definition stmt_once_each_perm : Prop :=
  forall want got, once_each want got = true -> NoDup want -> Permutation want got.

(* C05: cycles partition the vehicles and every vehicle ends where its successor starts; consequently, for
   every depot and type, as many vehicles end there as start there *)
Definition ends_at (out : outp) (d ty : Z) : Z :=
  Z.of_nat (length (filter (fun v => (ov_edepot v =? d) && (ov_type v =? ty)) (o_vehicles out))).
Definition stmt_C05_balance : Prop :=
  forall nw out, check_C05 nw out = [] -> nodup_vid (map ov_id (o_vehicles out)) = true ->
  forall d ty, In ty (type_ids nw) -> starts_at out d ty = ends_at out d ty.

(* C07: the per-trip lower bound really is one: any formation of k vehicles of the trip's type within the
   formation limit leaves at least lb_at passengers unserved *)
Definition shortfall (pass seated k cap seats : Z) : Z := Z.max 0 (pass - k * cap) + Z.max 0 (seated - k * seats).
Definition stmt_lb_is_lower_bound : Prop :=
  forall nw n vt k,
    vtype_of nw (vehicle_type_for nw n) = Some vt -> 0 < vt_cap vt -> 0 < vt_seats vt ->
    0 <= passengers_of nw n -> 0 <= seated_of nw n -> 0 <= k ->
    (forall l, formation_limit nw n = Some l -> k <= l) ->
    lb_at nw n <= shortfall (passengers_of nw n) (seated_of nw n) k (vt_cap vt) (vt_seats vt).
(* and it is attained with min(required, limit) vehicles, 0 when the limit does not bind *)
Definition stmt_lb_zero_when_unlimited : Prop :=
  forall nw n vt,
    vtype_of nw (vehicle_type_for nw n) = Some vt -> 0 < vt_cap vt -> 0 < vt_seats vt ->
    0 <= passengers_of nw n -> 0 <= seated_of nw n ->
    (forall l, formation_limit nw n = Some l ->
               number_of_vehicles_required_to_serve nw (vehicle_type_for nw n) n <= l) ->
    lb_at nw n = 0.
