(* OutVVFacts.v — proofs of the statements in OutVVStmts.v. *)
From Coq Require Import Permutation.
From RS Require Import Base BaseFacts Network NetSpec Tour SchedObs Output OutStmts OutFacts OutputVV OutVVStmts.

(** * helpers *)
Lemma vv_z_sum_perm l l' : Permutation l l' -> z_sum l = z_sum l'.
Proof. induction 1; rewrite ?z_sum_cons; lia. Qed.

(* clause 303 and the vehicle-id part of clause 304, out of a passing check_C03 *)
Lemma C03_clauses_303_304 nw out :
  check_C03 nw out = [] ->
  forallb (fun s => nodup_vid (os_form s) && same_vids (os_form s) (vehicles_with out (os_node s)))
          (o_segs out ++ o_slots out) = true /\
  nodup_vid (map ov_id (o_vehicles out)) = true.
Proof.
  intros H. unfold check_C03 in H.
  apply app_eq_nil in H. destruct H as [_ H].
  apply app_eq_nil in H. destruct H as [_ H].
  apply app_eq_nil in H. destruct H as [H3 H].
  apply app_eq_nil in H. destruct H as [H4 _].
  apply if_nil_true in H3. apply if_nil_true in H4.
  apply andb_true_iff in H4. destruct H4 as [_ H4].
  split; assumption.
Qed.

Lemma vehicles_with_NoDup out n :
  NoDup (map ov_id (o_vehicles out)) -> NoDup (vehicles_with out n).
Proof. intros ND. unfold vehicles_with. apply NoDup_map_filter. exact ND. Qed.

Lemma form_perm_vehicles_with nw out s :
  check_C03 nw out = [] -> In s (o_segs out ++ o_slots out) ->
  Permutation (os_form s) (vehicles_with out (os_node s)).
Proof.
  intros H Hs. destruct (C03_clauses_303_304 nw out H) as [H3 H4].
  rewrite forallb_forall in H3. specialize (H3 s Hs). cbv beta in H3.
  apply andb_true_iff in H3. destruct H3 as [Hnd Hsame].
  apply NoDup_Permutation.
  - apply nodup_vid_NoDup. exact Hnd.
  - apply vehicles_with_NoDup. apply nodup_vid_NoDup. exact H4.
  - apply same_vids_iff. exact Hsame.
Qed.

(** * the two views agree under check_C03 *)
Theorem unserved_views_agree : stmt_unserved_views_agree.
Proof.
  intros nw out H. unfold eval_unserved_vv, eval_unserved.
  f_equal. apply map_ext_in. intros s Hs.
  assert (Hp : Permutation (os_form s) (vehicles_with out (os_node s))).
  { apply (form_perm_vehicles_with nw out s H). apply in_or_app. left. exact Hs. }
  rewrite (vv_z_sum_perm _ _ (Permutation_map (ocap nw out) Hp)).
  rewrite (vv_z_sum_perm _ _ (Permutation_map (oseats nw out) Hp)).
  reflexivity.
Qed.

Theorem C04_vv_of_C03_C04 : stmt_C04_vv_of_C03_C04.
Proof.
  intros nw out H3 H4. unfold check_C04_vv. unfold check_C04 in H4.
  destruct (o_obj out) as [[[u vi] n] c].
  apply app_eq_nil in H4. destruct H4 as [H4 _].
  apply if_nil_true in H4.
  rewrite (unserved_views_agree nw out H3). rewrite H4. reflexivity.
Qed.

(** * independence: a formation listing a vehicle whose itinerary lacks the trip *)
Definition vv_params : params :=
  {| p_forbid := false; p_min := 0; p_dht := 0; p_maxdist := 0;
     c_staff := 0; c_service := 0; c_maint := 0; c_dh := 0; c_idle := 0 |}.
Definition vv_trip : service_trip :=
  {| st_type := 0; st_origin := Station 0; st_dest := Station 0; st_dep := Earliest; st_arr := Latest;
     st_dist := Dist 0; st_pass := 10; st_seated := 10; st_limit := None |}.
Definition vv_nw : network :=
  {| nw_nodes := [(SV 0, NService vv_trip)];
     nw_depots := [];
     nw_overflow := (0, SD 0, ED 0);
     nw_service := [(0, [SV 0])];
     nw_maint := [];
     nw_sdepots := [];
     nw_edepots := [];
     nw_all_by_start := [];
     nw_type_by_start := [];
     nw_type_by_end := [];
     nw_params := vv_params;
     nw_nlocs := 1;
     nw_dh := [[(Dist 0, Len 0)]];
     nw_types := [{| vt_cap := 4; vt_seats := 3; vt_limit := None |}];
     nw_nservice := 1;
     nw_planning := Len 0 |}.
(* one vehicle, of type 0, whose itinerary does NOT contain the trip SV 0 — yet the trip's formation lists it *)
Definition vv_veh : oveh :=
  {| ov_id := Veh 0; ov_type := 0; ov_sdepot := 0; ov_edepot := 0; ov_acts := [];
     ov_lists_sorted := true; ov_dhs := [] |}.
Definition vv_seg : oseg :=
  {| os_node := SV 0; os_origin := Station 0; os_dest := Station 0; os_dep := Earliest; os_arr := Latest;
     os_type := 0; os_form := [Veh 0] |}.
Definition vv_out0 : outp :=
  {| o_obj := (0, 0, 0, 0); o_vehicles := [vv_veh]; o_cycles := []; o_segs := [vv_seg]; o_slots := [];
     o_loads := []; o_dhts := [] |}.
(* the reported objective is the trip-view evaluation of the answer itself *)
Definition vv_out : outp :=
  {| o_obj := (eval_unserved vv_nw vv_out0, eval_violation vv_nw vv_out0, 1, eval_costs vv_nw vv_out0);
     o_vehicles := o_vehicles vv_out0; o_cycles := o_cycles vv_out0; o_segs := o_segs vv_out0;
     o_slots := o_slots vv_out0; o_loads := o_loads vv_out0; o_dhts := o_dhts vv_out0 |}.

Theorem C04_vv_independent : stmt_C04_vv_independent.
Proof.
  exists vv_nw, vv_out. split.
  - vm_compute. reflexivity.
  - vm_compute. discriminate.
Qed.

Print Assumptions unserved_views_agree.
Print Assumptions C04_vv_of_C03_C04.
Print Assumptions C04_vv_independent.
