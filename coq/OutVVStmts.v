(* OutVVStmts.v — statements about OutputVV.v.  Proofs: OutVVFacts.v. *)
From RS Require Import Base Network NetSpec Tour SchedObs Output OutputVV.

(** when the trip view and the vehicle view of the answer agree (check_C03), both evaluations of the unserved passengers agree *)
Definition stmt_unserved_views_agree : Prop :=
  forall nw out, check_C03 nw out = [] -> eval_unserved_vv nw out = eval_unserved nw out.
(** hence an answer passing check_C03 and check_C04 passes the vehicle-view clause as well (so every theorem that concludes
    check_C03 = [] and check_C04 = [], the end-to-end theorem in particular, gives clause 405 too) *)
Definition stmt_C04_vv_of_C03_C04 : Prop :=
  forall nw out, check_C03 nw out = [] -> check_C04 nw out = [] -> check_C04_vv nw out = [].
(** and the clause is not implied by check_C04 alone: an answer whose formation lists a vehicle that does not run the trip *)
Definition stmt_C04_vv_independent : Prop :=
  exists nw out, check_C04 nw out = [] /\ check_C04_vv nw out <> [].
