(* Output.v — the returned JSON as a structured record and the executable readings of the output-level
   properties C01, C02, C03, C04, C05, C07 on (network loaded from the instance, output).
   Each checker returns the list of violated clause codes ([] = holds). *)
From RS Require Import Base Network NetSpec Tour SchedObs.

Inductive tstamp := TS (t : datetime).   (* EARLIEST / LATEST / seconds as printed *)

Record oact := { oa_node : node_id; oa_origin : loc; oa_dest : loc; oa_dep : datetime; oa_arr : datetime }.
Record odh := { od_origin : loc; od_dest : loc; od_dep : datetime; od_arr : datetime }.
Record oveh := {
  ov_id : vehicle_id; ov_type : Z; ov_sdepot : Z; ov_edepot : Z;
  ov_acts : list oact;          (* departure segments and maintenance slots merged chronologically *)
  ov_lists_sorted : bool;       (* each of the two lists was chronological as listed *)
  ov_dhs : list odh }.
Record oseg := { os_node : node_id; os_origin : loc; os_dest : loc; os_dep : datetime; os_arr : datetime;
                 os_type : Z; os_form : list vehicle_id }.
Record outp := {
  o_obj : Z * Z * Z * Z;                 (* unserved, violation, vehicle count, costs *)
  o_vehicles : list oveh;
  o_cycles : list (Z * list (list vehicle_id));
  o_segs : list oseg;
  o_slots : list oseg;                   (* os_origin = os_dest = location; os_type unused *)
  o_loads : list (Z * Z * Z);            (* depot, type, spawn count *)
  o_dhts : list (odh * list vehicle_id) }.

Section Out.
Variable nw : network.
Variable out : outp.
Let P := nw_params nw.

Definition dt_eq a b := dt_eqb a b.
Definition itinerary (v : oveh) : list node_id :=
  get_start_depot_node nw (ov_sdepot v) :: map oa_node (ov_acts v) ++ [get_end_depot_node nw (ov_edepot v)].
Definition depot_known (d : Z) : bool := match depot_entry nw d with Some _ => true | None => false end.

(** C01 *)
Definition check_C01 : list Z :=
  (if forallb (fun v => depot_known (ov_sdepot v) && depot_known (ov_edepot v)) (o_vehicles out) then [] else [101]) ++
  (if forallb (fun v => negb (Nat.eqb (length (ov_acts v)) 0)) (o_vehicles out) then [] else [102]) ++
  (if forallb (fun v => ov_lists_sorted v && valid_tour_nodes nw (itinerary v)) (o_vehicles out) then [] else [103]) ++
  (if forallb (fun v => forallb (fun a => compatible_with_vehicle_type nw (oa_node a) (ov_type v)) (ov_acts v))
              (o_vehicles out) then [] else [104]).

(** C02 *)
Definition starts_at (d ty : Z) : Z :=
  Z.of_nat (length (filter (fun v => (ov_sdepot v =? d) && (ov_type v =? ty)) (o_vehicles out))).
Definition check_C02 : list Z :=
  (if forallb (fun s => match formation_limit nw (os_node s) with
                        | Some l => Z.of_nat (length (os_form s)) <=? l | None => true end) (o_segs out)
   then [] else [201]) ++
  (if forallb (fun s => Z.of_nat (length (os_form s)) <=? track_count nw (os_node s)) (o_slots out) then [] else [202]) ++
  (let '(od, _, _) := nw_overflow nw in
   if forallb (fun '(d, _) =>
        (d =? od) ||
        (forallb (fun ty => starts_at d ty <=? capacity_of nw d ty) (type_ids nw) &&
         (z_sum (map (starts_at d) (type_ids nw)) <=? total_capacity_of nw d))) (nw_depots nw)
   then [] else [203]).

(** C03 *)
Fixpoint count_nid (n : node_id) (l : list node_id) : nat :=
  match l with [] => O | x :: r => (if nid_eqb n x then 1 else 0) + count_nid n r end%nat.
Definition once_each (want got : list node_id) : bool :=
  Nat.eqb (length want) (length got) && forallb (fun n => Nat.eqb (count_nid n got) 1) want.
Definition fields_ok (n : node_id) (origin dest : loc) (dep arr : datetime) : bool :=
  loc_eqb origin (n_start_loc (nd nw n)) && loc_eqb dest (n_end_loc (nd nw n)) &&
  dt_eq dep (start_time nw n) && dt_eq arr (end_time nw n).
Definition vehicles_with (n : node_id) : list vehicle_id :=
  map ov_id (filter (fun v => existsb (fun a => nid_eqb n (oa_node a)) (ov_acts v)) (o_vehicles out)).
Definition same_vids (a b : list vehicle_id) : bool :=
  forallb (fun x => mem_vid x b) a && forallb (fun x => mem_vid x a) b.
(* location changes along the itinerary *)
Definition expected_dhs (v : oveh) : list (node_id * node_id) :=
  filter (fun '(a, b) => negb (loc_eqb (n_end_loc (nd nw a)) (n_start_loc (nd nw b)))) (windows (itinerary v)).
Definition dh_ok (p : node_id * node_id) (d : odh) : bool :=
  let '(a, b) := p in
  loc_eqb (od_origin d) (n_end_loc (nd nw a)) && loc_eqb (od_dest d) (n_start_loc (nd nw b)) &&
  dt_leb (od_dep d) (od_arr d) &&
  (is_depot (nd nw a) || dt_leb (end_time nw a) (od_dep d)) &&
  (is_depot (nd nw b) || dt_leb (od_arr d) (start_time nw b)).
Fixpoint all2 {A B} (f : A -> B -> bool) (l1 : list A) (l2 : list B) : bool :=
  match l1, l2 with
  | [], [] => true
  | x :: r1, y :: r2 => f x y && all2 f r1 r2
  | _, _ => false
  end.
Definition odh_eqb (a b : odh) : bool :=
  loc_eqb (od_origin a) (od_origin b) && loc_eqb (od_dest a) (od_dest b) &&
  dt_eq (od_dep a) (od_dep b) && dt_eq (od_arr a) (od_arr b).

Definition check_C03 : list Z :=
  (if once_each (all_service_nodes nw) (map os_node (o_segs out)) &&
      forallb (fun s => fields_ok (os_node s) (os_origin s) (os_dest s) (os_dep s) (os_arr s) &&
                        (os_type s =? vehicle_type_for nw (os_node s))) (o_segs out) then [] else [301]) ++
  (if once_each (nw_maint nw) (map os_node (o_slots out)) &&
      forallb (fun s => fields_ok (os_node s) (os_origin s) (os_dest s) (os_dep s) (os_arr s)) (o_slots out)
   then [] else [302]) ++
  (if forallb (fun s => nodup_vid (os_form s) && same_vids (os_form s) (vehicles_with (os_node s)))
              (o_segs out ++ o_slots out) then [] else [303]) ++
  (if forallb (fun v => forallb (fun a => fields_ok (oa_node a) (oa_origin a) (oa_dest a) (oa_dep a) (oa_arr a))
                                (ov_acts v) &&
                        nodup_nid (map oa_node (ov_acts v))) (o_vehicles out) &&
      nodup_vid (map ov_id (o_vehicles out)) then [] else [304]) ++
  (if forallb (fun '(d, ty, c) => (0 <? c) && (c =? starts_at d ty)) (o_loads out) &&
      forallb (fun '(d, _) => forallb (fun ty =>
                 (starts_at d ty =? 0) || existsb (fun '(d', ty', _) => (d' =? d) && (ty' =? ty)) (o_loads out))
               (type_ids nw)) (nw_depots nw) then [] else [305]) ++
  (if forallb (fun v => all2 dh_ok (expected_dhs v) (ov_dhs v)) (o_vehicles out) then [] else [306]) ++
  (if all2 (fun '(d, f) '(d', v) => odh_eqb d d' && match f with [x] => vid_eqb x v | _ => false end)
           (o_dhts out) (flat_map (fun v => map (fun d => (d, ov_id v)) (ov_dhs v)) (o_vehicles out))
   then [] else [307]).

(** C04: independent evaluation of the four objective components *)
Definition tour_of_veh (v : oveh) : tour := new_computing nw (itinerary v) false.
Definition veh_by_id (x : vehicle_id) : option oveh := find (fun v => vid_eqb x (ov_id v)) (o_vehicles out).
Definition ocap (x : vehicle_id) : Z :=
  match veh_by_id x with Some v => match vtype_of nw (ov_type v) with Some vt => vt_cap vt | None => 0 end | None => 0 end.
Definition oseats (x : vehicle_id) : Z :=
  match veh_by_id x with Some v => match vtype_of nw (ov_type v) with Some vt => vt_seats vt | None => 0 end | None => 0 end.
Definition eval_unserved : Z :=
  z_sum (map (fun s => Z.max 0 (passengers_of nw (os_node s) - z_sum (map ocap (os_form s))) +
                       Z.max 0 (seated_of nw (os_node s) - z_sum (map oseats (os_form s)))) (o_segs out)).
Definition omc (x : vehicle_id) : Z :=
  match veh_by_id x with Some v => maintenance_counter nw (tour_of_veh v) | None => 0 end.
Definition osdep (x : vehicle_id) : node_id :=
  match veh_by_id x with Some v => get_start_depot_node nw (ov_sdepot v) | None => SD 0 end.
Definition oedep (x : vehicle_id) : node_id :=
  match veh_by_id x with Some v => get_end_depot_node nw (ov_edepot v) | None => ED 0 end.
Definition eval_cycle (l : list vehicle_id) : Z :=
  z_sum (map omc l) +
  z_sum (map (fun '(a, b) => dist_m_or (dead_head_distance_between nw (oedep a) (osdep b)) INF_DISTANCE) (cyclic_pairs l)).
Definition eval_violation : Z :=
  z_sum (map (fun '(_, cycles) => z_sum (map (fun l => Z.max 0 (eval_cycle l)) cycles)) (o_cycles out)).
Definition eval_costs : Z :=
  z_sum (map (fun v => t_costs (tour_of_veh v)) (o_vehicles out)) + nw_nservice nw * c_staff P.
Definition check_C04 : list Z :=
  let '(u, vi, n, c) := o_obj out in
  (if u =? eval_unserved then [] else [401]) ++
  (if vi =? eval_violation then [] else [402]) ++
  (if n =? Z.of_nat (length (o_vehicles out)) then [] else [403]) ++
  (if c =? eval_costs then [] else [404]).

(** C05 *)
Definition check_C05 : list Z :=
  (if forallb (fun ty =>
        match assoc Z.eqb ty (o_cycles out) with
        | Some cycles =>
            let members := concat cycles in
            let mine := map ov_id (filter (fun v => ov_type v =? ty) (o_vehicles out)) in
            nodup_vid members && same_vids members mine
        | None => false
        end) (type_ids nw) then [] else [501]) ++
  (if forallb (fun '(_, cycles) =>
        forallb (fun l => forallb (fun '(a, b) =>
           match veh_by_id a, veh_by_id b with
           | Some va, Some vb => ov_edepot va =? ov_sdepot vb
           | _, _ => false end) (cyclic_pairs l)) cycles) (o_cycles out) then [] else [502]).

(** C07: unserved passengers equal the instance's lower bound *)
Definition lb_at (n : node_id) : Z :=
  match vtype_of nw (vehicle_type_for nw n) with
  | Some vt =>
      let req := number_of_vehicles_required_to_serve nw (vehicle_type_for nw n) n in
      let k := match formation_limit nw n with Some l => Z.min req l | None => req end in
      Z.max 0 (passengers_of nw n - k * vt_cap vt) + Z.max 0 (seated_of nw n - k * vt_seats vt)
  | None => 0
  end.
Definition lower_bound : Z := z_sum (map lb_at (all_service_nodes nw)).
Definition check_C07 : list Z :=
  let '(u, _, _, _) := o_obj out in
  (if u =? lower_bound then [] else [701]) ++
  (if forallb (fun s =>
        let n := os_node s in
        let req := number_of_vehicles_required_to_serve nw (vehicle_type_for nw n) n in
        let k := match formation_limit nw n with Some l => Z.min req l | None => req end in
        k <=? Z.of_nat (length (os_form s))) (o_segs out) then [] else [702]).
End Out.
