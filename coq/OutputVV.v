(* OutputVV.v — the unserved passengers of an answer evaluated from the VEHICLE view: the vehicles serving a departure segment
   are those whose itinerary contains it (Output.vehicles_with), not those the segment's own `formation` lists.  check_C04
   (Output.v) evaluates the trip view; when the two views disagree (a vehicle listed in a formation whose itinerary lacks the
   trip — seeded C04i) that is clause 303 of check_C03, but the reported unserved value is then also not the value of the
   schedule the vehicles actually run: clause 405. *)
From RS Require Import Base Network NetSpec Tour SchedObs Output.

Section OutVV.
Variable nw : network.
Variable out : outp.
Definition eval_unserved_vv : Z :=
  z_sum (map (fun s => Z.max 0 (passengers_of nw (os_node s) - z_sum (map (ocap nw out) (vehicles_with out (os_node s)))) +
                       Z.max 0 (seated_of nw (os_node s) - z_sum (map (oseats nw out) (vehicles_with out (os_node s)))))
             (o_segs out)).
Definition check_C04_vv : list Z :=
  let '(u, _, _, _) := o_obj out in
  if u =? eval_unserved_vv then [] else [405].
End OutVV.
