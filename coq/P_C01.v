(* P_C01.v — property C01: theorems only. *)
From RS Require Import Base Network NetSpec NetFacts Tour SchedObs Output OutStmts OutFacts.

(* A passing check_C01 (run on every returned JSON) means: every itinerary starts at a start depot, ends at an
   end depot, has at least one activity, every consecutive pair of activities satisfies the documented
   timing rule [Reach] (same location: arrival + minimal shunting <= next start; otherwise dead-heads not
   forbidden and arrival + travel time + dead-head shunting on each side <= next start), and the vehicle
   serves only segments of its own type. *)
Theorem C01_checker_sound : stmt_C01_sound.
Proof. exact C01_sound. Qed.
Print Assumptions C01_checker_sound.

(* the timing rule the checker evaluates (can_reach) is the documented one *)
Theorem C01_rule_is_documented :
  forall nw, net_wf_b nw = true -> forall a b, can_reach nw a b = true <-> Reach nw (nd nw a) (nd nw b).
Proof. exact can_reach_iff. Qed.
Print Assumptions C01_rule_is_documented.

(** End to end on the functional model of the pipeline (PipelineSched.v: from_tours of the decoded flow tours,
    improve_depots, any trajectory through the enumerated neighbours, the optimiser's cycles, the final alignment;
    compared with the implementation on every run, including each accepted local-search step): for every LOADED
    network, every result of the pipeline has valid tours, exact listings, formations within formation and track
    limits, exact depot usage, truthful cached violation / costs / unserved passengers, and every vehicle ends in the
    depot where its successor in the final rotation cycles starts. *)
From RS Require Import Schedule SchedInv SchedStruct PipelineSched PipelineSchedFacts.
Theorem C01_pipeline_result_valid : forall i perm nw, load i perm = Ok nw -> stmt_pipeline_valid nw.
Proof. exact pipeline_valid_loaded. Qed.
Print Assumptions C01_pipeline_result_valid.

(** the JSON rendered from a schedule with valid tours and exact listings passes check_C01 — for every loaded network
    (Render.v = schedule_to_json is compared with the returned JSON on every run); for arbitrary network RECORDS the
    statement needs a consistent depot table and is refuted without *)
From RS Require Import Render RenderStmts RenderFacts1.
Theorem C01_rendered_itineraries_valid : forall i perm nw, load i perm = Ok nw -> stmt_render_C01 nw.
Proof. exact render_C01_loaded. Qed.
Print Assumptions C01_rendered_itineraries_valid.
Theorem C01_rendering_total : forall nw, stmt_render_total nw.
Proof. exact render_total. Qed.
Print Assumptions C01_rendering_total.
Theorem C01_rendered_unrestricted_refuted : ~ (forall nw, stmt_render_C01 nw).
Proof. exact render_C01_refuted. Qed.
Print Assumptions C01_rendered_unrestricted_refuted.

(** END TO END. For every instance that is valid (valid_instance_b) with unsigned limits and capacities, every network
    [load] builds from it, all flow tours that are valid Paths over nodes of the network, and EVERY result of the
    modelled pipeline (from_tours, improve_depots, any trajectory through the enumerated neighbours, any optimiser
    transitions satisfying the C15 invariant, the final alignment): the result can be rendered, and the rendered JSON
    passes check_C01, check_C02, check_C03, check_C04 and check_C05 — itineraries feasible, formation / track / depot
    limits respected, output complete with agreeing vehicle and trip views, reported objective = independent
    evaluation, cycles partition the vehicles and every vehicle ends where its successor starts. (The model is compared
    with the implementation on every run: every stage snapshot, every accepted search step, the returned JSON.) *)
From RS Require Import EndToEndStmts EndToEndFacts.
Theorem C01_end_to_end : stmt_end_to_end.
Proof. exact end_to_end. Qed.
Print Assumptions C01_end_to_end.

(** END TO END with the transition optimisation INSIDE the model (TOpt.v; PipelineOptStmts.v): the same conclusion for
    every result of the pipeline in which the optimiser is the modelled function — the only oracles left between the flow
    tours and the JSON are the two pick functions of the parallel minimisers, bound by the min_by contract *)
From RS Require Import PipelineOptStmts PipelineOptFacts.
Theorem end_to_end_with_modelled_optimiser : stmt_end_to_end_opt.
Proof. exact end_to_end_opt. Qed.
Print Assumptions end_to_end_with_modelled_optimiser.
