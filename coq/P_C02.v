(* P_C02.v — property C02: theorems only. *)
From RS Require Import Base Network NetSpec Tour SchedObs Output OutStmts OutFacts.

(* the limit the code applies to a departure segment is the smaller of the type's and the segment's limit *)
Theorem C02_max_formation_spec : stmt_max_formation_spec.
Proof. exact max_formation_spec. Qed.
Print Assumptions C02_max_formation_spec.

(* a passing check_C02 means: formations within that limit, slots within their tracks, and for every real
   depot the starts per type within the per-type capacity and in total within the total capacity *)
Theorem C02_checker_sound : stmt_C02_sound.
Proof. exact C02_sound. Qed.
Print Assumptions C02_checker_sound.
