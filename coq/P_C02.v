(* P_C02.v — property C02: theorems only. *)
From RS Require Import Base Network NetSpec Tour SchedObs Output OutStmts OutFacts.

(* the limit the code applies to a departure segment is the smaller of the type's and the segment's limit *)
Theorem C02_max_formation_spec : stmt_max_formation_spec.
Proof. exact max_formation_spec. Qed.
Print Assumptions C02_max_formation_spec.

(* a passing check_C02 means: formations within that limit, slots within their tracks, and for every real
   depot the starts per type within the per-type capacity and in total within the total capacity *)
Theorem C02_checker_sound : stmt_C02_sound.
Proof. exact C02_sound. Qed.
Print Assumptions C02_checker_sound.

(** End to end on the functional model of the pipeline (PipelineSched.v: from_tours of the decoded flow tours,
    improve_depots, any trajectory through the enumerated neighbours, the optimiser's cycles, the final alignment;
    compared with the implementation on every run, including each accepted local-search step): for every LOADED
    network, every result of the pipeline has valid tours, exact listings, formations within formation and track
    limits, exact depot usage, truthful cached violation / costs / unserved passengers, and every vehicle ends in the
    depot where its successor in the final rotation cycles starts. *)
From RS Require Import Schedule SchedInv SchedStruct PipelineSched PipelineSchedFacts.
Theorem C02_pipeline_result_valid : forall i perm nw, load i perm = Ok nw -> stmt_pipeline_valid nw.
Proof. exact pipeline_valid_loaded. Qed.
Print Assumptions C02_pipeline_result_valid.

(** the JSON rendered from a schedule within formation and track limits passes the formation / track clauses of
    check_C02, for every network loaded from an instance with non-negative limits (JSON limits are unsigned) *)
From RS Require Import LoadStmts Render RenderStmts RenderFacts1.
Theorem C02_rendered_formations_within_limits : forall i perm nw,
  valid_instance_b i = true -> inst_limits_nonneg_b i = true -> load i perm = Ok nw -> stmt_render_C02_formations nw.
Proof. exact render_C02_loaded. Qed.
Print Assumptions C02_rendered_formations_within_limits.
Theorem C02_rendered_unrestricted_refuted : ~ (forall nw, stmt_render_C02_formations nw).
Proof. exact render_C02_refuted. Qed.
Print Assumptions C02_rendered_unrestricted_refuted.

(** depot capacities: for every network loaded from an instance with non-negative capacities (JSON capacities are
    unsigned), every schedule reachable by pipeline-shaped histories (valid Paths, fit between different tours, moved
    segments not starting at a depot, valid transitions) and in particular every pipeline result respects the per-type
    and total capacity of every real depot; the neighbourhood and the pipeline stay inside these histories; the former known finding F1 has been repaired *)
From RS Require Import Schedule SchedInv SchedStruct PipelineSched DepotStmts DepotFacts.
Theorem C02_pipeline_depot_limits : forall i perm nw, load i perm = Ok nw -> inst_caps_nonneg i -> stmt_pipeline_depot_limits nw.
Proof. exact pipeline_depot_limits_loaded. Qed.
Print Assumptions C02_pipeline_depot_limits.
Theorem C02_reachable_depot_limits : forall i perm nw, load i perm = Ok nw -> inst_caps_nonneg i -> stmt_nreachable_depot_limits nw.
Proof. exact nreachable_depot_limits_loaded. Qed.
Print Assumptions C02_reachable_depot_limits.
Theorem C02_neighbourhood_keeps_segment_shape : forall nw, stmt_neighbors_nreachable nw.
Proof. exact neighbors_nreachable. Qed.
Print Assumptions C02_neighbourhood_keeps_segment_shape.
Theorem C02_pipeline_histories : forall nw, stmt_pipeline_nreachable nw.
Proof. exact pipeline_nreachable. Qed.
Print Assumptions C02_pipeline_histories.
(* the former known finding F1 (a maintenance-only tour of type 0, start depot included, moved into a type-1 vehicle at a
   depot that admits only type 0) is refused since the repair "fix: a start depot handed to the receiver must have room" *)
Theorem C02_F1_move_is_refused : override_reassign nwD sD2 (SD 0, MT 5) (Veh 0) (Veh 1) = Err.
Proof. exact F1_move_refused. Qed.
Print Assumptions C02_F1_move_is_refused.

(** since that repair the restriction on the moved segment is not needed: depot capacities are an invariant of ALL
    histories of public modifications with valid Path arguments and fit_reassign between different tours (plus
    set_next_day_transitions with valid transitions), over every network loaded from an instance with non-negative
    capacities; non-vacuity: DepotFacts2.start_depot_handover_accepted (a segment starting at the provider's start depot
    moved with the depot to the receiver, accepted, limits hold with equality) *)
From RS Require Import DepotFacts2.
Theorem C02_depot_limits_all_valid_histories : stmt_qreachable_depot_limits_loaded.
Proof. exact qreachable_depot_limits_loaded. Qed.
Print Assumptions C02_depot_limits_all_valid_histories.

(** END TO END. For every instance that is valid (valid_instance_b) with unsigned limits and capacities, every network
    [load] builds from it, all flow tours that are valid Paths over nodes of the network, and EVERY result of the
    modelled pipeline (from_tours, improve_depots, any trajectory through the enumerated neighbours, any optimiser
    transitions satisfying the C15 invariant, the final alignment): the result can be rendered, and the rendered JSON
    passes check_C01, check_C02, check_C03, check_C04 and check_C05 — itineraries feasible, formation / track / depot
    limits respected, output complete with agreeing vehicle and trip views, reported objective = independent
    evaluation, cycles partition the vehicles and every vehicle ends where its successor starts. (The model is compared
    with the implementation on every run: every stage snapshot, every accepted search step, the returned JSON.) *)
From RS Require Import EndToEndStmts EndToEndFacts.
Theorem C02_end_to_end : stmt_end_to_end.
Proof. exact end_to_end. Qed.
Print Assumptions C02_end_to_end.

(** END TO END with the transition optimisation INSIDE the model (TOpt.v; PipelineOptStmts.v): the same conclusion for
    every result of the pipeline in which the optimiser is the modelled function — the only oracles left between the flow
    tours and the JSON are the two pick functions of the parallel minimisers, bound by the min_by contract *)
From RS Require Import PipelineOptStmts PipelineOptFacts.
Theorem end_to_end_with_modelled_optimiser : stmt_end_to_end_opt.
Proof. exact end_to_end_opt. Qed.
Print Assumptions end_to_end_with_modelled_optimiser.

(** the start solution's track clause at its source: the slot distribution (SlotDist.v, f32 arithmetic of F32.v) never hands
    out more tracks of a slot than it has, summed over all vehicle types; the flow's node bounds are these counts. The
    hypothesis NoDup (nw_maint nw) holds for every loaded network and is necessary (kernel-checked witness). *)
From RS Require Import F32 SlotDist SlotDistStmts SlotDistFacts.
Theorem C02_distributed_slots_within_tracks : stmt_distribute_within_tracks.
Proof. exact distribute_within_tracks. Qed.
Print Assumptions C02_distributed_slots_within_tracks.
Theorem C02_distribution_needs_distinct_slots : stmt_distribute_within_tracks_needs_nodup.
Proof. exact distribute_within_tracks_needs_nodup. Qed.
Print Assumptions C02_distribution_needs_distinct_slots.
