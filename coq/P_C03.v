(* P_C03.v — property C03: theorems only. *)
From Coq Require Import Permutation.
From RS Require Import Base Network NetSpec Tour SchedObs Output OutStmts OutFacts.

(* clause 301/302 of check_C03 ("every departure segment / slot exactly once") means the listed nodes are a
   permutation of the instance's *)
Theorem C03_once_each_is_permutation : stmt_once_each_perm.
Proof. exact once_each_perm. Qed.
Print Assumptions C03_once_each_is_permutation.

(** the JSON rendered (Render.v = schedule_to_json, compared with the returned JSON on every run) from a schedule that
    satisfies the schedule-level invariants passes all seven clauses of check_C03, provided the network lists its
    service trips consistently (true of every loaded network: [load_services_listed]) and the tours' end nodes are the
    listed depot nodes; with the invariants alone four clauses hold and the full statement is refuted by network
    RECORDS no instance produces *)
From RS Require Import LoadStmts Schedule SchedInv SchedStruct Render RenderStmts RenderFacts3.
Theorem C03_rendered_output_complete_and_consistent :
  forall nw, net_fine nw -> services_listed nw -> forall s out,
    ToursOK nw s -> ListingOK nw s -> FormsOK nw s -> UsageOK nw s -> EndsListed nw s ->
    render nw s = Ok out -> check_C03 nw out = [].
Proof. exact render_C03_under_listed. Qed.
Print Assumptions C03_rendered_output_complete_and_consistent.
Theorem C03_loaded_networks_list_their_trips :
  forall i perm nw, valid_instance_b i = true -> load i perm = Ok nw -> services_listed nw.
Proof. exact load_services_listed. Qed.
Print Assumptions C03_loaded_networks_list_their_trips.
Theorem C03_rendered_partial :
  forall nw, net_fine nw -> forall s out, ToursOK nw s -> ListingOK nw s -> FormsOK nw s -> UsageOK nw s ->
    render nw s = Ok out -> forall c, In c (check_C03 nw out) -> c = 301 \/ c = 303 \/ c = 306.
Proof. exact render_C03_partial. Qed.
Print Assumptions C03_rendered_partial.
Theorem C03_rendered_unrestricted_refuted : ~ (forall nw, stmt_render_C03 nw).
Proof. exact render_C03_refuted. Qed.
Print Assumptions C03_rendered_unrestricted_refuted.

(** END TO END. For every instance that is valid (valid_instance_b) with unsigned limits and capacities, every network
    [load] builds from it, all flow tours that are valid Paths over nodes of the network, and EVERY result of the
    modelled pipeline (from_tours, improve_depots, any trajectory through the enumerated neighbours, any optimiser
    transitions satisfying the C15 invariant, the final alignment): the result can be rendered, and the rendered JSON
    passes check_C01, check_C02, check_C03, check_C04 and check_C05 — itineraries feasible, formation / track / depot
    limits respected, output complete with agreeing vehicle and trip views, reported objective = independent
    evaluation, cycles partition the vehicles and every vehicle ends where its successor starts. (The model is compared
    with the implementation on every run: every stage snapshot, every accepted search step, the returned JSON.) *)
From RS Require Import EndToEndStmts EndToEndFacts.
Theorem C03_end_to_end : stmt_end_to_end.
Proof. exact end_to_end. Qed.
Print Assumptions C03_end_to_end.

(** END TO END with the transition optimisation INSIDE the model (TOpt.v; PipelineOptStmts.v): the same conclusion for
    every result of the pipeline in which the optimiser is the modelled function — the only oracles left between the flow
    tours and the JSON are the two pick functions of the parallel minimisers, bound by the min_by contract *)
From RS Require Import PipelineOptStmts PipelineOptFacts.
Theorem end_to_end_with_modelled_optimiser : stmt_end_to_end_opt.
Proof. exact end_to_end_opt. Qed.
Print Assumptions end_to_end_with_modelled_optimiser.

(** "with the input's own … times": the answer prints a node's time with as_iso; reading the printed string gives the same
    point again, and every strict time the input lists reads, prints and reads as the same point (Cal.v = rapid_time's
    DateTime::new / as_iso, compared with rapid_time itself on every run: family time) *)
From RS Require Import Cal CalStmts CalFacts.
Theorem C03_printed_times_read_back : stmt_iso_roundtrip.
Proof. exact iso_roundtrip. Qed.
Print Assumptions C03_printed_times_read_back.
Theorem C03_input_times_survive_print_and_read : stmt_parse_iso_parse.
Proof. exact parse_iso_parse. Qed.
Print Assumptions C03_input_times_survive_print_and_read.
Theorem C03_printing_never_runs_out_of_calendar : stmt_days_to_ymd_total.
Proof. exact days_to_ymd_total. Qed.
Print Assumptions C03_printing_never_runs_out_of_calendar.
