(* P_C03.v — property C03: theorems only. *)
From Coq Require Import Permutation.
From RS Require Import Base Network NetSpec Tour SchedObs Output OutStmts OutFacts.

(* clause 301/302 of check_C03 ("every departure segment / slot exactly once") means the listed nodes are a
   permutation of the instance's *)
Theorem C03_once_each_is_permutation : stmt_once_each_perm.
Proof. exact once_each_perm. Qed.
Print Assumptions C03_once_each_is_permutation.
