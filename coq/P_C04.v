(* P_C04.v — property C04: theorems only. *)
From RS Require Import Base Network NetSpec Tour SchedObs Output C04Stmts C04Facts.

(* The reported objective components are the cached figures of the final schedule. If that schedule's caches are
   exact (check_exact = [], C09 — evaluated on the final snapshot of every run) and the JSON renders it, then
   each reported component equals the independent evaluation of the returned JSON (what check_C04 compares). *)
Theorem C04_costs_true : stmt_C04_costs.
Proof. exact C04_costs. Qed.
Print Assumptions C04_costs_true.
Theorem C04_vehicle_count_true : stmt_C04_vehicles.
Proof. exact C04_vehicles. Qed.
Print Assumptions C04_vehicle_count_true.
Theorem C04_violation_true : stmt_C04_violation.
Proof. exact C04_violation. Qed.
Print Assumptions C04_violation_true.
Theorem C04_unserved_true : stmt_C04_unserved.
Proof. exact C04_unserved. Qed.
Print Assumptions C04_unserved_true.

(** End to end on the functional model of the pipeline (PipelineSched.v: from_tours of the decoded flow tours,
    improve_depots, any trajectory through the enumerated neighbours, the optimiser's cycles, the final alignment;
    compared with the implementation on every run, including each accepted local-search step): for every LOADED
    network, every result of the pipeline has valid tours, exact listings, formations within formation and track
    limits, exact depot usage, truthful cached violation / costs / unserved passengers, and every vehicle ends in the
    depot where its successor in the final rotation cycles starts. *)
From RS Require Import Schedule SchedInv SchedStruct PipelineSched PipelineSchedFacts.
Theorem C04_pipeline_result_valid : forall i perm nw, load i perm = Ok nw -> stmt_pipeline_valid nw.
Proof. exact pipeline_valid_loaded. Qed.
Print Assumptions C04_pipeline_result_valid.

(** the reported objective is the true value of the returned schedule, on the functional model: (1) every stored tour's
    cached figures are exact in every schedule reachable by valid-Path histories; (2) the keys of the stored
    transitions are the vehicle types in every reachable schedule; (3) for every network loaded from a valid instance,
    the JSON rendered from a schedule satisfying the schedule-level invariants (whose tours start and end at nodes of
    the network) passes check_C04: the four reported components equal the independent evaluation of the rendered
    output. For arbitrary network RECORDS the statement is refuted (three independent missing well-formedness facts). *)
From RS Require Import LoadStmts TourExactFacts Schedule SchedInv SchedStruct SchedListFacts Render RenderStmts SchedExactFacts RenderFacts4.
Theorem C04_tours_exact_for_all_histories : forall nw, stmt_vreachable_tours_exact nw.
Proof. exact vreachable_tours_exact. Qed.
Print Assumptions C04_tours_exact_for_all_histories.
Theorem C04_transition_keys_are_types : forall nw s, reachable nw s -> TransKeys nw s.
Proof. exact reachable_trans_keys. Qed.
Print Assumptions C04_transition_keys_are_types.
Theorem C04_rendered_objective_truthful :
  forall nw, net_fine nw -> depots_named nw -> services_listed nw -> dists_finite_b nw = true -> dh_dists_finite_b nw = true ->
  forall s out, vreachable nw s -> dreachable nw s -> KnownEnds nw s ->
    render nw s = Ok out -> check_C04 nw out = [].
Proof. exact render_C04_history. Qed.
Print Assumptions C04_rendered_objective_truthful.
Theorem C04_loaded_depots_named : forall i perm nw, load i perm = Ok nw -> depots_named nw.
Proof. exact load_depots_named. Qed.
Print Assumptions C04_loaded_depots_named.
Theorem C04_rendered_unrestricted_refuted : ~ (forall nw, stmt_render_C04 nw).
Proof. exact render_C04_refuted. Qed.
Print Assumptions C04_rendered_unrestricted_refuted.

(** END TO END. For every instance that is valid (valid_instance_b) with unsigned limits and capacities, every network
    [load] builds from it, all flow tours that are valid Paths over nodes of the network, and EVERY result of the
    modelled pipeline (from_tours, improve_depots, any trajectory through the enumerated neighbours, any optimiser
    transitions satisfying the C15 invariant, the final alignment): the result can be rendered, and the rendered JSON
    passes check_C01, check_C02, check_C03, check_C04 and check_C05 — itineraries feasible, formation / track / depot
    limits respected, output complete with agreeing vehicle and trip views, reported objective = independent
    evaluation, cycles partition the vehicles and every vehicle ends where its successor starts. (The model is compared
    with the implementation on every run: every stage snapshot, every accepted search step, the returned JSON.) *)
From RS Require Import EndToEndStmts EndToEndFacts.
Theorem C04_end_to_end : stmt_end_to_end.
Proof. exact end_to_end. Qed.
Print Assumptions C04_end_to_end.

(** END TO END with the transition optimisation INSIDE the model (TOpt.v; PipelineOptStmts.v): the same conclusion for
    every result of the pipeline in which the optimiser is the modelled function — the only oracles left between the flow
    tours and the JSON are the two pick functions of the parallel minimisers, bound by the min_by contract *)
From RS Require Import PipelineOptStmts PipelineOptFacts.
Theorem end_to_end_with_modelled_optimiser : stmt_end_to_end_opt.
Proof. exact end_to_end_opt. Qed.
Print Assumptions end_to_end_with_modelled_optimiser.

(** The unserved passengers evaluated from the VEHICLE view (the vehicles serving a segment are those whose itinerary contains
    it): clause 405 of the check.  It agrees with the trip view whenever check_C03 passes, so every answer the end-to-end theorem
    speaks of passes it too; it is not implied by check_C04 alone (witness: a formation listing a vehicle that does not run the
    trip — seeded C04i). *)
From RS Require Import OutputVV OutVVStmts OutVVFacts.
Theorem C04_unserved_of_both_views_agree : stmt_unserved_views_agree.
Proof. exact unserved_views_agree. Qed.
Print Assumptions C04_unserved_of_both_views_agree.
Theorem C04_vehicle_view_clause_follows_from_C03_and_C04 : stmt_C04_vv_of_C03_C04.
Proof. exact C04_vv_of_C03_C04. Qed.
Print Assumptions C04_vehicle_view_clause_follows_from_C03_and_C04.
Theorem C04_vehicle_view_clause_is_not_implied_by_the_trip_view : stmt_C04_vv_independent.
Proof. exact C04_vv_independent. Qed.
Print Assumptions C04_vehicle_view_clause_is_not_implied_by_the_trip_view.
