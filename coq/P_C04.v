(* P_C04.v — property C04: theorems only. *)
From RS Require Import Base Network NetSpec Tour SchedObs Output C04Stmts C04Facts.

(* The reported objective components are the cached figures of the final schedule. If that schedule's caches are
   exact (check_exact = [], C09 — evaluated on the final snapshot of every run) and the JSON renders it, then
   each reported component equals the independent evaluation of the returned JSON (what check_C04 compares). *)
Theorem C04_costs_true : stmt_C04_costs.
Proof. exact C04_costs. Qed.
Print Assumptions C04_costs_true.
Theorem C04_vehicle_count_true : stmt_C04_vehicles.
Proof. exact C04_vehicles. Qed.
Print Assumptions C04_vehicle_count_true.
Theorem C04_violation_true : stmt_C04_violation.
Proof. exact C04_violation. Qed.
Print Assumptions C04_violation_true.
Theorem C04_unserved_true : stmt_C04_unserved.
Proof. exact C04_unserved. Qed.
Print Assumptions C04_unserved_true.
