(* P_C04.v — property C04: theorems only. *)
From RS Require Import Base Network NetSpec Tour SchedObs Output C04Stmts C04Facts.

(* The reported objective components are the cached figures of the final schedule. If that schedule's caches are
   exact (check_exact = [], C09 — evaluated on the final snapshot of every run) and the JSON renders it, then
   each reported component equals the independent evaluation of the returned JSON (what check_C04 compares). *)
Theorem C04_costs_true : stmt_C04_costs.
Proof. exact C04_costs. Qed.
Print Assumptions C04_costs_true.
Theorem C04_vehicle_count_true : stmt_C04_vehicles.
Proof. exact C04_vehicles. Qed.
Print Assumptions C04_vehicle_count_true.
Theorem C04_violation_true : stmt_C04_violation.
Proof. exact C04_violation. Qed.
Print Assumptions C04_violation_true.
Theorem C04_unserved_true : stmt_C04_unserved.
Proof. exact C04_unserved. Qed.
Print Assumptions C04_unserved_true.

(** End to end on the functional model of the pipeline (PipelineSched.v: from_tours of the decoded flow tours,
    improve_depots, any trajectory through the enumerated neighbours, the optimiser's cycles, the final alignment;
    compared with the implementation on every run, including each accepted local-search step): for every LOADED
    network, every result of the pipeline has valid tours, exact listings, formations within formation and track
    limits, exact depot usage, truthful cached violation / costs / unserved passengers, and every vehicle ends in the
    depot where its successor in the final rotation cycles starts. *)
From RS Require Import Schedule SchedInv SchedStruct PipelineSched PipelineSchedFacts.
Theorem C04_pipeline_result_valid : forall i perm nw, load i perm = Ok nw -> stmt_pipeline_valid nw.
Proof. exact pipeline_valid_loaded. Qed.
Print Assumptions C04_pipeline_result_valid.
