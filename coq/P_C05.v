(* P_C05.v — property C05: theorems only. *)
From RS Require Import Base Network NetSpec Tour SchedObs Output OutStmts OutFacts.

(* If the reported cycles partition each type's vehicles and every vehicle ends in the depot where its
   successor starts (check_C05 passes), then for every depot and type as many vehicles end there as start. *)
Theorem C05_balance_consequence : stmt_C05_balance.
Proof. exact C05_balance. Qed.
Print Assumptions C05_balance_consequence.
