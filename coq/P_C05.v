(* P_C05.v — property C05: theorems only. *)
From RS Require Import Base Network NetSpec Tour SchedObs Output OutStmts OutFacts.

(* If the reported cycles partition each type's vehicles and every vehicle ends in the depot where its
   successor starts (check_C05 passes), then for every depot and type as many vehicles end there as start. *)
Theorem C05_balance_consequence : stmt_C05_balance.
Proof. exact C05_balance. Qed.
Print Assumptions C05_balance_consequence.

(** The last pipeline stage on the functional model (Schedule.v, compared line by line with the implementation on
    every history containing it): after reassign_end_depots_consistent_with_transitions on a reachable schedule, every
    vehicle's tour ends at the end-depot node of the depot where its successor in the rotation cycle starts, and no
    start depot has moved — for all schedules, cycles (also one-vehicle cycles) and depots. *)
From RS Require Import Transition Schedule SchedInv SchedFrameStmts SchedFrameFacts.
Theorem C05_final_alignment : forall nw, stmt_consistent_aligns nw.
Proof. exact consistent_aligns. Qed.
Print Assumptions C05_final_alignment.

(** End to end on the functional model of the pipeline (PipelineSched.v: from_tours of the decoded flow tours,
    improve_depots, any trajectory through the enumerated neighbours, the optimiser's cycles, the final alignment;
    compared with the implementation on every run, including each accepted local-search step): for every LOADED
    network, every result of the pipeline has valid tours, exact listings, formations within formation and track
    limits, exact depot usage, truthful cached violation / costs / unserved passengers, and every vehicle ends in the
    depot where its successor in the final rotation cycles starts. *)
From RS Require Import Schedule SchedInv SchedStruct PipelineSched PipelineSchedFacts.
Theorem C05_pipeline_result_valid : forall i perm nw, load i perm = Ok nw -> stmt_pipeline_valid nw.
Proof. exact pipeline_valid_loaded. Qed.
Print Assumptions C05_pipeline_result_valid.

(** the JSON rendered from a schedule with exact cycles whose vehicles end where their successors start passes
    check_C05 *)
From RS Require Import Render RenderStmts RenderFacts1.
Theorem C05_rendered_cycles : forall nw, stmt_render_C05 nw.
Proof. exact render_C05. Qed.
Print Assumptions C05_rendered_cycles.

(** END TO END. For every instance that is valid (valid_instance_b) with unsigned limits and capacities, every network
    [load] builds from it, all flow tours that are valid Paths over nodes of the network, and EVERY result of the
    modelled pipeline (from_tours, improve_depots, any trajectory through the enumerated neighbours, any optimiser
    transitions satisfying the C15 invariant, the final alignment): the result can be rendered, and the rendered JSON
    passes check_C01, check_C02, check_C03, check_C04 and check_C05 — itineraries feasible, formation / track / depot
    limits respected, output complete with agreeing vehicle and trip views, reported objective = independent
    evaluation, cycles partition the vehicles and every vehicle ends where its successor starts. (The model is compared
    with the implementation on every run: every stage snapshot, every accepted search step, the returned JSON.) *)
From RS Require Import EndToEndStmts EndToEndFacts.
Theorem C05_end_to_end : stmt_end_to_end.
Proof. exact end_to_end. Qed.
Print Assumptions C05_end_to_end.

(** END TO END with the transition optimisation INSIDE the model (TOpt.v; PipelineOptStmts.v): the same conclusion for
    every result of the pipeline in which the optimiser is the modelled function — the only oracles left between the flow
    tours and the JSON are the two pick functions of the parallel minimisers, bound by the min_by contract *)
From RS Require Import PipelineOptStmts PipelineOptFacts.
Theorem end_to_end_with_modelled_optimiser : stmt_end_to_end_opt.
Proof. exact end_to_end_opt. Qed.
Print Assumptions end_to_end_with_modelled_optimiser.
