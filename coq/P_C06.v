(* P_C06.v — property C06 (partial): theorems only. The pipeline is observed (child process, debug and release
   builds); proved for all inputs are the pieces of logic in which the property's named risks live. What the
   model cannot exhibit: OS scheduling, memory exhaustion, stack depth, integer overflow beyond the validity
   bounds, and the behaviour of the external engines (rs_graph simplex, rayon). *)
From RS Require Import Base Network NetSpec Tour TourSpec TourStmts TourFacts Transition TransSpec TransStmts TransFacts
  LocalSearch LSStmts LSFacts.

(* rotation cycles of every length (0, 1, 2 included): the 3-opt enumeration never underflows nor indexes out of range *)
Theorem C06_three_opt_indices_ok : stmt_three_opt_indices_ok.
Proof. exact three_opt_indices_ok. Qed.
Print Assumptions C06_three_opt_indices_ok.

(* the three search loops (schedule search, transition search, cycle 3-opt) terminate: strict lexicographic descent
   over components bounded below *)
Theorem C06_search_terminates : forall S obj neighbors pick k, stmt_run_terminates S obj neighbors pick k.
Proof. exact run_terminates. Qed.
Print Assumptions C06_search_terminates.

(* tour edits never panic at node level (slices in range, searches within fuel), back-to-back trips and zero shunting
   included *)
Theorem C06_insert_total : forall nw, stmt_insert_nodes_ref nw.
Proof. exact insert_nodes_ref. Qed.
Print Assumptions C06_insert_total.
Theorem C06_sub_path_total : forall nw, stmt_sub_path_total nw.
Proof. exact sub_path_total. Qed.
Print Assumptions C06_sub_path_total.

(** "neither panics nor runs forever", on the functional model of the whole pipeline, in which every unwrap, index and
    unsigned subtraction of the code is an explicit Panic and every fuelled loop an explicit OutOfFuel: for every network
    loaded from a valid instance with unsigned figures and non-negative cost rates, for flow tours that are typed valid
    Paths over known nodes within the formation / track limits whose fleet fits the overflow depot (what the certified
    flow and its decomposition give: C14), building the start schedule, the first depot improvement, every neighbourhood
    generation along EVERY trajectory of the search, the final stages for EVERY valid optimiser result, and the rendering
    all succeed. (Termination of the two search loops: C08's run_terminates; runtime aspects — threads, memory, the
    external flow solver — are outside the model and exercised by the runs of this check.) *)
From RS Require Import LoadStmts LoadFacts EndToEndStmts NoPanicFactsA PipelineTotalStmts PipelineTotalFacts.
Theorem C06_pipeline_never_crashes : stmt_pipeline_never_crashes_loaded.
Proof. exact pipeline_never_crashes_loaded. Qed.
Print Assumptions C06_pipeline_never_crashes.

(** the same with every hypothesis in the executable form the driver evaluates on every pipeline run (HYP lines) *)
From RS Require Import SchedObs Output Transition Schedule Swaps PipelineSched Render NoPanicStmts Hyps Hyps2 PipelineTotalChecked.
Theorem C06_pipeline_never_crashes_checked_hypotheses :
  forall i perm nw,
    valid_instance_b i = true -> inst_unsigned_b i = true -> params_costs_nonneg_b (i_params i) = true ->
    perm_ok i perm -> load i perm = Ok nw ->
    forall tours,
      tours_ok_b nw tours = true -> tours_typed_b nw tours = true -> tours_within_limits_b nw tours = true ->
      fleet_fits_overflow_b nw tours = true ->
      exists s0 s1, from_tours nw tours = Ok s0 /\ improve_depots nw s0 None = Ok s1 /\
        forall ls, ls_path nw s1 ls ->
          no_crash (neighbors nw ls) /\
          forall trans, trans_valid nw ls trans ->
            exists final out, reassign_end_depots_consistent nw (set_next_day_transitions ls trans) = Ok final /\
                              render nw final = Ok out.
Proof. exact pipeline_never_crashes_checked. Qed.
Print Assumptions C06_pipeline_never_crashes_checked_hypotheses.

(** the one unwrap of the pipeline that sits on the answer of the external flow solver: the circulation problem built for
    a type is feasible for every network loaded from a valid instance and every slot allotment within the track counts,
    so a correct solver returns Some(flow). (Proving this found the defect repaired by "fix: flow arcs carry as many
    vehicles as the longest formation of the type's trips": FlowFacts3.tight_arc_bound_prefix_refutes.) *)
From RS Require Import Flow CircStmts FlowFacts3.
Theorem C06_circulation_feasible : stmt_circulation_feasible_loaded.
Proof. exact circulation_feasible_loaded. Qed.
Print Assumptions C06_circulation_feasible.

(** the transition optimisation (TOpt.v, compared with the implementation on every run) neither panics nor runs forever:
    on a transition with exact bookkeeping over vehicles that have tours, generating its neighbourhood — vehicle moves,
    cycle look-ups, 3-opt indexing, cycle replacement — never panics; the cycle 3-opt terminates within |cycle| * D + 1
    iterations because every accepted step lowers the exact counter, which is bounded below by the tours' own counters;
    and for the whole search there are fuel bounds beyond which no run, whatever the parallel minimiser picks, fails to
    return (D bounds the depot-to-depot transfers; it exists for every network without negative distances: HYP3 on every
    run). The hang of seeded change C06c is exactly the failure of the hypothesis "counter exact" after a wrong update. *)
From RS Require Import TOpt TOptStmts2 TOptFacts2 TOptFacts3.
Theorem C06_optimiser_neighbourhood_never_panics : forall nw tours, stmt_topt_neighbors_no_panic nw tours.
Proof. exact topt_neighbors_no_panic. Qed.
Print Assumptions C06_optimiser_neighbourhood_never_panics.
Theorem C06_cycle_three_opt_terminates : forall nw tours, stmt_cyc_tsp_terminates nw tours.
Proof. exact cyc_tsp_terminates. Qed.
Print Assumptions C06_cycle_three_opt_terminates.
Theorem C06_optimiser_always_returns : forall nw tours, stmt_topt_run_total nw tours.
Proof. exact topt_run_total. Qed.
Print Assumptions C06_optimiser_always_returns.
Theorem C06_transfers_bounded : stmt_transfers_bounded.
Proof. exact transfers_bounded_thm. Qed.
Print Assumptions C06_transfers_bounded.

(** all together, with the optimiser inside the model: for every network loaded from a valid instance (no negative
    dead-head distance) and a start solution as above there are fuel bounds such that along EVERY trajectory of the search
    and for EVERY choice of the optimiser's minimiser the optimisation stage returns, the final alignment succeeds and the
    result renders. The remaining oracles are the flow solver and the picks. *)
From RS Require Import PipelineOptStmts PipelineOptFacts.
Theorem C06_pipeline_with_modelled_optimiser_returns : stmt_pipeline_opt_never_crashes_loaded.
Proof. exact pipeline_opt_never_crashes_loaded. Qed.
Print Assumptions C06_pipeline_with_modelled_optimiser_returns.

(** THE WHOLE MODELLED PIPELINE RETURNS. The schedule local search terminates: on every schedule the search can visit from
    the start schedule of a loaded network all four objective levels are bounded below by 0 (exact unserved passengers,
    exact violation, vehicle count, exact costs with non-negative rates), accepted steps descend strictly in the lexicographic
    order, so for every pick honouring the min_by contract the loop stops after finitely many steps at a local optimum
    (run_terminates_inv: termination relative to an invariant closed under the neighbourhood). Together with the optimiser's
    totality: for every network loaded from a valid instance, every start solution as above and every pair of picks there are
    fuel bounds with which the search stops, the optimisation returns, the end depots are aligned and the answer renders —
    no oracle between the flow tours and the JSON except the two picks. (What remains outside: the external flow solver's own
    termination and the runtime — threads, memory, integer widths.) *)
From RS Require Import SearchTermStmts SearchTermFacts.
Theorem C06_schedule_search_terminates : stmt_schedule_search_terminates_loaded.
Proof. exact schedule_search_terminates_loaded. Qed.
Print Assumptions C06_schedule_search_terminates.
Theorem C06_whole_pipeline_returns : stmt_whole_pipeline_returns_loaded.
Proof. exact whole_pipeline_returns_loaded. Qed.
Print Assumptions C06_whole_pipeline_returns.

(** THE SLOT DISTRIBUTION NEVER PANICS (SlotDist.v; f32 arithmetic modelled by hand in F32.v with NaN and infinity explicit):
    for every network with at least one vehicle type (or no track to hand out) and u64 figures, no NaN reaches
    `partial_cmp(..).unwrap()`, no infinite distance reaches `in_meter().unwrap()` and `min_by` never sees an empty list.
    The conversion of a u64 is always finite and canonical; rounding never produces NaN. Both hypotheses are necessary: without
    a type `min_by(..).unwrap()` panics (witness), and the pre-repair increment (no test for a zero total) is NaN on a witness
    (the defect repaired by "fix: maintenance slot distribution panics on NaN priority"). The circulation handed to the flow
    solver is feasible for the DISTRIBUTED slots of every loaded network: the slots are no longer an oracle. *)
From RS Require Import F32 SlotDist SlotDistStmts SlotDistFacts.
Theorem C06_slot_distribution_never_panics : stmt_distribute_total.
Proof. exact distribute_total. Qed.
Print Assumptions C06_slot_distribution_never_panics.
Theorem C06_u64_as_f32_finite : stmt_f_of_u64_finite.
Proof. exact f_of_u64_finite. Qed.
Print Assumptions C06_u64_as_f32_finite.
Theorem C06_rounding_never_nan : stmt_round_q_not_nan.
Proof. exact round_q_not_nan. Qed.
Print Assumptions C06_rounding_never_nan.
Theorem C06_distribution_without_type_panics : stmt_distribute_no_type_panics.
Proof. exact distribute_no_type_panics. Qed.
Print Assumptions C06_distribution_without_type_panics.
Theorem C06_prefix_increment_nan : stmt_prefix_increment_nan.
Proof. exact prefix_increment_nan. Qed.
Print Assumptions C06_prefix_increment_nan.
Theorem C06_slots_lookup_total : stmt_slots_of_total.
Proof. exact slots_of_total. Qed.
Print Assumptions C06_slots_lookup_total.
Theorem C06_circulation_feasible_for_distributed_slots : stmt_circulation_feasible_distributed.
Proof. exact circulation_feasible_distributed. Qed.
Print Assumptions C06_circulation_feasible_for_distributed_slots.

(** "conforms to the documented input format (references resolve, ...)" on the instance AS LISTED (RawLoad.v): such a listing
    resolves, and loading it never panics. *)
From RS Require Import RawLoad RawLoadStmts RawLoadFacts.
Theorem C06_loading_a_valid_listing_never_panics : stmt_load_raw_total.
Proof. exact load_raw_total. Qed.
Print Assumptions C06_loading_a_valid_listing_never_panics.

(** THE STAGES BEFORE THE FLOW SOLVER COMPOSE (StartStageFacts.v): for every listing that conforms to the documented format,
    every arrangement of the default depots, unsigned limits and u64 totals, the listing resolves and loads, there is a
    vehicle type, the slot distribution returns an allotment within the track counts, every listed type finds its slots and
    the covering circulation handed to the flow solver is feasible.  (The i64 guard of the network construction is the one
    exception: FlowGuardStmts.v, known finding F2.) *)
From RS Require Import StartStageStmts StartStageFacts.
Theorem C06_start_stage_returns : stmt_start_stage_returns.
Proof. exact start_stage_returns. Qed.
Print Assumptions C06_start_stage_returns.

(** 64-BIT ARITHMETIC OF THE FLOW NETWORK (FlowGuard.v; known finding F2).  The guard is Panic exactly when one of the code's
    checked operations fails; it does NOT pass for every valid instance (kernel-evaluated witness: cost rate 10^13 per
    second on a three-trip instance; spawning cost x depot capacity > 2^63 - 1); it passes under an explicit magnitude
    condition.  The first formulation of that condition was itself false in three corners (a factor that is zero hides
    another factor's overflow): refuted with witnesses, and the corrected statements proved. *)
From RS Require Import FlowGuard FlowGuardStmts FlowGuardFacts.
Theorem C06_i64_guard_fails_on_a_valid_instance : ~ stmt_cost_guard_total.
Proof. exact cost_guard_total_refuted. Qed.
Print Assumptions C06_i64_guard_fails_on_a_valid_instance.
Theorem C06_i64_guard_meaning : stmt_cost_guard_meaning.
Proof. exact cost_guard_meaning. Qed.
Print Assumptions C06_i64_guard_meaning.
Theorem C06_i64_guard_passes_within_magnitudes : stmt_cost_guard_passes_bounded_fixed.
Proof. exact cost_guard_passes_bounded_fixed. Qed.
Print Assumptions C06_i64_guard_passes_within_magnitudes.
Theorem C06_i64_guard_passes_within_magnitudes_pos : stmt_cost_guard_passes_bounded_pos.
Proof. exact cost_guard_passes_bounded_pos. Qed.
Print Assumptions C06_i64_guard_passes_within_magnitudes_pos.
Theorem C06_first_magnitude_condition_refuted : ~ stmt_cost_guard_passes_bounded.
Proof. exact cost_guard_passes_bounded_refuted. Qed.
Print Assumptions C06_first_magnitude_condition_refuted.

(** THE FLOW DECOMPOSITION NEVER PANICS (Decode.v, the loop "building schedule" of solve_for_vehicle_type with the graph's
    in-edge order as an oracle, recorded by the hook and replayed exactly on every run): for every loaded network, admissible
    slot allotment, FEASIBLE flow of the type's network and EVERY order of the entering flow units, the
    `expect("pred not found")`, `pop().unwrap()` and the tour index never fail — by flow conservation and because a
    predecessor is visited strictly before its successors.  Without conservation the loop does panic (witness). *)
From RS Require Import Decode DecodeStmts DecodeFacts.
Theorem C06_flow_decomposition_never_panics : stmt_decode_total.
Proof. exact decode_total. Qed.
Print Assumptions C06_flow_decomposition_never_panics.
Theorem C06_flow_decomposition_needs_conservation : stmt_decode_needs_conservation.
Proof. exact decode_needs_conservation. Qed.
Print Assumptions C06_flow_decomposition_needs_conservation.

(** THE START STAGE FEEDS THE REST OF THE PIPELINE (ChainFacts.v): the tours decoded (Decode.v) from ANY feasible flows of the
    per-type networks built for the distributed slots (SlotDist.v) — one flow and one in-edge order per vehicle type, no unit
    straight from a start depot into an end depot — are valid Paths over known nodes, typed, and within the formation and track
    limits (tracks summed over all types); with a fleet that fits the overflow depot the whole pipeline returns, whatever the
    two picks choose.  Between the listing and the answer the only oracles left are the external flow solver (a feasible flow
    exists: circulation_feasible_distributed) and the two minimisers' picks. *)
From RS Require Import ChainStmts ChainFacts.
Theorem C06_decoded_tours_feed_the_pipeline : stmt_decoded_tours_feed_pipeline.
Proof. exact decoded_tours_feed_pipeline. Qed.
Print Assumptions C06_decoded_tours_feed_the_pipeline.
Theorem C06_solve_returns_for_every_feasible_flow : stmt_solve_returns_given_flows.
Proof. exact solve_returns_given_flows. Qed.
Print Assumptions C06_solve_returns_for_every_feasible_flow.

(** From the TEXT of the listing: time strings DateTime::new accepts (a refused one panics the load: to_raw_bad_time, outside
    the documented format), references that resolve, figures in range ⇒ the start stage returns (TextLoad.v over Cal.v). *)
From RS Require Import Cal TextLoad TextLoadStmts TextLoadFacts.
Theorem C06_start_stage_returns_from_the_text : stmt_text_start_stage_returns.
Proof. exact text_start_stage_returns. Qed.
Print Assumptions C06_start_stage_returns_from_the_text.
Theorem C06_refused_time_string_is_a_load_panic : stmt_to_raw_bad_time.
Proof. exact to_raw_bad_time. Qed.
Print Assumptions C06_refused_time_string_is_a_load_panic.
