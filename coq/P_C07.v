(* P_C07.v — property C07: theorems only. *)
From RS Require Import Base Network NetSpec Tour SchedObs Output OutStmts OutFacts.

(* the per-segment bound check_C07 compares against is a lower bound for every formation within the limit *)
Theorem C07_lb_is_lower_bound : stmt_lb_is_lower_bound.
Proof. exact lb_is_lower_bound. Qed.
Print Assumptions C07_lb_is_lower_bound.

(* and it is 0 (demand fully covered) whenever the limit does not bind *)
Theorem C07_lb_zero_when_unlimited : stmt_lb_zero_when_unlimited.
Proof. exact lb_zero_when_unlimited. Qed.
Print Assumptions C07_lb_zero_when_unlimited.

(** On the functional model: a schedule whose formations carry min(required, limit) vehicles on every departure segment
    has exactly the lower bound of unserved passengers; steps that improve the objective in the documented order never
    raise the unserved passengers; the stages after the search keep them; hence a covered start schedule stays at the
    lower bound through the whole pipeline — for every network loaded from a valid instance with non-negative limits
    (JSON limits are unsigned; with a negative limit in the model's Z-typed instance the statements are refuted). *)
From RS Require Import LoadStmts Schedule SchedInv SchedStruct PipelineSched CoverStmts CoverFacts.
Theorem C07_model_lower_bound : forall i perm nw,
  valid_instance_b i = true -> inst_limits_nonneg_b i = true -> load i perm = Ok nw ->
  stmt_covered_is_lower_bound nw /\ stmt_unserved_at_least_lower_bound nw /\ stmt_pipeline_keeps_lower_bound nw.
Proof. exact cover_statements_loaded. Qed.
Print Assumptions C07_model_lower_bound.
Theorem C07_improving_steps_never_raise_unserved : forall nw, stmt_improving_path_unserved nw.
Proof. exact improving_path_unserved. Qed.
Print Assumptions C07_improving_steps_never_raise_unserved.
Theorem C07_final_stages_keep_unserved : forall nw, stmt_final_stages_keep_unserved nw.
Proof. exact final_stages_keep_unserved. Qed.
Print Assumptions C07_final_stages_keep_unserved.
Theorem C07_negative_limit_refutes : ~ (forall nw, stmt_covered_is_lower_bound nw).
Proof. exact covered_is_lower_bound_refuted. Qed.
Print Assumptions C07_negative_limit_refutes.

(** closing the loop with C14: the start schedule carries on every coverable node exactly as many vehicles as the
    decoded flow tours visit it; hence tours that decompose a feasible flow of every type's network give a covered
    start schedule — and by the theorems above the pipeline's result has exactly the lower bound of unserved passengers *)
From RS Require Import Flow FlowStmts CoverStmts2 CoverFacts2.
Theorem C07_start_formations_are_flow_visits : forall nw, stmt_from_tours_formations nw.
Proof. exact from_tours_formations. Qed.
Print Assumptions C07_start_formations_are_flow_visits.
Theorem C07_feasible_flow_gives_covered_start : forall nw, stmt_flow_gives_covered_start nw.
Proof. exact flow_gives_covered_start. Qed.
Print Assumptions C07_feasible_flow_gives_covered_start.
