(* P_C07.v — property C07: theorems only. *)
From RS Require Import Base Network NetSpec Tour SchedObs Output OutStmts OutFacts.

(* the per-segment bound check_C07 compares against is a lower bound for every formation within the limit *)
Theorem C07_lb_is_lower_bound : stmt_lb_is_lower_bound.
Proof. exact lb_is_lower_bound. Qed.
Print Assumptions C07_lb_is_lower_bound.

(* and it is 0 (demand fully covered) whenever the limit does not bind *)
Theorem C07_lb_zero_when_unlimited : stmt_lb_zero_when_unlimited.
Proof. exact lb_zero_when_unlimited. Qed.
Print Assumptions C07_lb_zero_when_unlimited.
