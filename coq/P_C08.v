(* P_C08.v — property C08: theorems only. The solver loop is rapid_solve's (Parallel)LocalSearchSolver with the
   Minimizer improver, modelled generically in LocalSearch.v; the choice among equal minima (rayon min_by) is the
   oracle [pick] with contract [pick_ok], which the check examines on the recorded steps. *)
From RS Require Import Base LocalSearch LSStmts LSFacts.

(* every accepted step strictly improves in the lexicographic order of the levels, and is a candidate *)
Theorem C08_step_strict : forall S obj neighbors pick, stmt_step_strict S obj neighbors pick.
Proof. exact step_strict. Qed.
Print Assumptions C08_step_strict.

(* the trajectory is strictly descending; the result is never worse than the start; it is the last accepted step *)
Theorem C08_run_descends : forall S obj neighbors pick k, stmt_run_descends S obj neighbors pick k.
Proof. exact run_descends. Qed.
Print Assumptions C08_run_descends.

(* the search stops only at a schedule no candidate improves *)
Theorem C08_run_local_opt : forall S obj neighbors pick k, stmt_run_local_opt S obj neighbors pick k.
Proof. exact run_local_opt. Qed.
Print Assumptions C08_run_local_opt.

(* running it again on its own result changes nothing *)
Theorem C08_run_idempotent : forall S obj neighbors pick, stmt_run_idempotent S obj neighbors pick.
Proof. exact run_idempotent. Qed.
Print Assumptions C08_run_idempotent.

(* and it stops: objective components bounded below (unserved, violation, vehicle count, costs are >= 0) *)
Theorem C08_run_terminates : forall S obj neighbors pick k, stmt_run_terminates S obj neighbors pick k.
Proof. exact run_terminates. Qed.
Print Assumptions C08_run_terminates.

(** the generic loop instantiated with the schedule model (LSInst.v): every run whose pick honours its contract is a
    path of strictly improving moves through the enumerated neighbours, in the documented priority order *)
From RS Require Import Network Schedule Swaps PipelineSched CoverStmts LSInst.
Theorem C08_run_on_schedules_is_improving_path :
  forall nw pick, pick_ok schedule (ls_obj) pick ->
  forall fuel s r steps fin,
    run schedule ls_obj (ls_neighbors nw) pick fuel s = (r, steps, fin) -> improving_path nw s r.
Proof. exact run_is_improving_path. Qed.
Print Assumptions C08_run_on_schedules_is_improving_path.

(** "The search stops only at a schedule it cannot improve further": whether a strictly better neighbour exists does not
    depend on the last accepted swap, although the enumeration order does (provider rotation after a PathExchange) *)
From RS Require Import Schedule Swaps SwapsRot SwapsRotFacts.
Theorem C08_local_optimality_independent_of_last_swap : forall nw, stmt_rotation_keeps_improving_neighbours nw.
Proof. exact rotation_keeps_improving_neighbours. Qed.
Print Assumptions C08_local_optimality_independent_of_last_swap.

(** the search of the pipeline reaches its fixpoint: for every loaded network, start solution and pick the loop stops after
    finitely many accepted steps (so "its result" exists) *)
From RS Require Import SearchTermStmts SearchTermFacts.
Theorem C08_search_reaches_a_fixpoint : stmt_schedule_search_terminates_loaded.
Proof. exact schedule_search_terminates_loaded. Qed.
Print Assumptions C08_search_reaches_a_fixpoint.
