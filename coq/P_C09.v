(* P_C09.v — property C09: theorems only.
   Tour level: each tour operation keeps the five cached figures (visits-maintenance flag, useful duration,
   service distance, dead-head distance, costs) equal to their from-scratch values, also for tours at the
   infinitely distant overflow depot. Schedule level: see the note at the end. *)
From RS Require Import Base Network NetSpec Tour TourExactStmts TourExactFacts.

Theorem C09_replace_start_depot_exact : stmt_replace_start_depot_exact.
Proof. exact replace_start_depot_exact. Qed.
Print Assumptions C09_replace_start_depot_exact.

Theorem C09_replace_end_depot_exact : stmt_replace_end_depot_exact.
Proof. exact replace_end_depot_exact. Qed.
Print Assumptions C09_replace_end_depot_exact.

Theorem C09_insert_path_exact : stmt_insert_path_exact.
Proof. exact insert_path_exact. Qed.
Print Assumptions C09_insert_path_exact.

(* remove: for tours whose inner nodes are no depots (every real and every dummy tour of a schedule) over a
   network whose dead-head matrix is finite (every loaded network) *)
Theorem C09_remove_exact :
  forall nw t seg t' r, net_wf_b nw = true -> dists_finite_b nw = true -> dh_dists_finite_b nw = true ->
    tour_exact nw t ->
    forallb (fun n => negb (node_is_depot nw n)) (non_depots t) = true ->
    remove nw t seg = Ok (Some t', r) -> tour_exact nw t'.
Proof. exact remove_exact_depots. Qed.
Print Assumptions C09_remove_exact.

(* the statement without the structural hypothesis is false of the model: a (not reachable) dummy tour with a
   depot located Nowhere in its middle keeps Infinity after the depot is removed *)
Theorem C09_remove_exact_unrestricted_refuted : ~ stmt_remove_exact.
Proof. exact remove_exact_false. Qed.
Print Assumptions C09_remove_exact_unrestricted_refuted.

(* constructors are exact by definition *)
Theorem C09_constructors_exact :
  forall nw l d, tour_exact nw (new_computing nw l d).
Proof. intros nw l d. unfold tour_exact. reflexivity. Qed.
Print Assumptions C09_constructors_exact.

(* Schedule level: what a passing [check_exact] (evaluated after every modification of every generated history,
   on every stage snapshot and on every dumped candidate) says: every tour's caches, the schedule's costs,
   unserved passengers, maintenance violation (per cycle counters and totals) and per-depot spawn counts and
   balances equal their from-scratch values. *)
From RS Require Import SchedObs InvStmts InvFacts.
Theorem C09_exact_meaning : forall nw o, stmt_exact_meaning nw o.
Proof. exact exact_meaning. Qed.
Print Assumptions C09_exact_meaning.

(** Schedule level, for ALL finite histories of public modifications of the model (Schedule.v, which is compared
    line by line with the implementation on every generated history): the cached maintenance violation, the
    cached unserved passengers and the cached costs (sum of the tours' costs plus the staff term) of every reachable schedule equal their recomputed values. *)
From RS Require Import Transition Schedule SchedInv SchedViolFacts SchedUnservedFacts SchedCostsFacts.
Theorem C09_reachable_violation_exact : forall nw, stmt_reachable_viol nw.
Proof. exact reachable_viol. Qed.
Print Assumptions C09_reachable_violation_exact.
Theorem C09_reachable_unserved_exact : forall nw, stmt_reachable_unserved nw.
Proof. exact reachable_unserved. Qed.
Print Assumptions C09_reachable_unserved_exact.
Theorem C09_reachable_costs_exact : forall nw, stmt_reachable_costs nw.
Proof. exact reachable_costs. Qed.
Print Assumptions C09_reachable_costs_exact.

(** per-depot spawn counts and balances: for every reachable schedule the depot-usage map holds, per depot and type,
    exactly the real vehicles of that type whose tour starts (resp. ends) there, without duplicates *)
From RS Require Import SchedStruct SchedUsageFacts.
Theorem C09_reachable_depot_usage_exact : forall nw, stmt_reachable_usage nw.
Proof. exact reachable_usage. Qed.
Print Assumptions C09_reachable_depot_usage_exact.

(** per-cycle maintenance counters, violation and totals per type: exact w.r.t. the current tours in every schedule
    reachable without fit_reassign(p, p) (TransOK contains TInv's counter clauses) *)
From RS Require Import SchedListFacts SchedTransFacts.
Theorem C09_reachable_cycle_counters_exact : forall nw s, dreachable nw s -> TransOK nw s.
Proof. exact reachable_trans_under_distinct. Qed.
Print Assumptions C09_reachable_cycle_counters_exact.
