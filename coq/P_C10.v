(* P_C10.v — property C10: theorems only. What the structural invariant means (a passing [check_inv], evaluated on
   the state after every modification of every generated history, on every stage snapshot of every pipeline run
   and on every dumped local-search candidate). The theorems at the end are about the functional model of
   schedule/modifications.rs (Schedule.v) and hold after ALL histories of public modifications. *)
From RS Require Import Base Network NetSpec Tour SchedObs InvStmts InvFacts TransSpec TransStmts TransFacts.

(* every vehicle tour is a path from a start depot to an end depot over activities only, consecutive nodes
   connectable under the documented rule, service trips of the vehicle's type *)
Theorem C10_inv_tours : forall nw o, stmt_inv_tours nw o.
Proof. exact inv_tours. Qed.
Print Assumptions C10_inv_tours.

(* a vehicle is in the formation of a node exactly if its tour contains the node, never twice *)
Theorem C10_inv_formations :
  forall nw o, (forall n, In n (nw_maint nw) -> is_maint (nd nw n) = true) -> stmt_inv_formations nw o.
Proof. exact inv_formations_partial. Qed.
Print Assumptions C10_inv_formations.
(* (without the hypothesis that the listed maintenance ids are maintenance nodes the statement is false) *)
Theorem C10_inv_formations_unrestricted_refuted : ~ (forall nw o, stmt_inv_formations nw o).
Proof. exact inv_formations_false. Qed.
Print Assumptions C10_inv_formations_unrestricted_refuted.

(* formation, track and depot limits *)
Theorem C10_inv_limits : forall nw o, stmt_inv_limits nw o.
Proof. exact inv_limits. Qed.
Print Assumptions C10_inv_limits.

(* every real vehicle belongs to exactly one rotation cycle of its type *)
Theorem C10_inv_cycles : forall nw o, stmt_inv_cycles nw o.
Proof. exact inv_cycles. Qed.
Print Assumptions C10_inv_cycles.

(* the rotation-cycle part of the invariant is preserved by every transition operation, for all histories *)
Theorem C10_cycles_update : stmt_update_inv.
Proof. exact update_inv. Qed.
Print Assumptions C10_cycles_update.
Theorem C10_cycles_add : stmt_add_own_inv.
Proof. exact add_own_inv. Qed.
Print Assumptions C10_cycles_add.
Theorem C10_cycles_remove : stmt_remove_inv.
Proof. exact remove_inv. Qed.
Print Assumptions C10_cycles_remove.

(** For ALL finite histories of public modifications of the model (Schedule.v, compared line by line with the
    implementation on every generated history): formation and track limits hold in every reachable schedule.
    (Depot limits are not an invariant of arbitrary histories: known finding F1.) *)
From RS Require Import Transition Schedule SchedInv SchedStruct SchedFormLimFacts.
Theorem C10_reachable_formation_and_track_limits : forall nw, stmt_reachable_form_limits nw.
Proof. exact reachable_form_limits. Qed.
Print Assumptions C10_reachable_formation_and_track_limits.

(** listings: "vehicle and dummy listings are sorted and match the stored tours". For every history of public
    modifications in which fit_reassign is not called with provider = receiver ([dreachable]: the other ten
    modifications unrestricted) the full listing invariant holds; without that restriction everything except
    "every stored dummy is listed" still holds, and the unrestricted statement is refuted — on a network with
    negative dead-head durations, which no input can produce (the only witness known). *)
From RS Require Import SchedListFacts.
Theorem C10_reachable_listing : forall nw s, dreachable nw s -> ListingOK nw s.
Proof. exact reachable_listing_under_distinct. Qed.
Print Assumptions C10_reachable_listing.
Theorem C10_reachable_listing_partial : forall nw s, reachable nw s -> ListingWeak nw s.
Proof. exact reachable_listing_partial. Qed.
Print Assumptions C10_reachable_listing_partial.
Theorem C10_reachable_listing_unrestricted_refuted : ~ (forall nw, stmt_reachable_listing nw).
Proof. exact reachable_listing_refuted. Qed.
Print Assumptions C10_reachable_listing_unrestricted_refuted.

(** tours: for every history of public modifications whose Path arguments are valid Paths ([vreachable]; Path::new
    is the only public constructor of a Path from nodes) over a well-formed network, every real tour is a path from
    a start depot to an end depot over activities of the vehicle's type whose consecutive nodes are connectable,
    and every dummy tour is a non-empty depot-free chronological list. (Before the repair "fix: dummy tours keep the
    maintenance nodes of their path" this statement was false: SchedToursFacts.v keeps the witness.) *)
From RS Require Import SchedToursFacts.
Theorem C10_reachable_tours_valid : forall nw, stmt_vreachable_tours nw.
Proof. exact vreachable_tours. Qed.
Print Assumptions C10_reachable_tours_valid.
Theorem C10_valid_path_histories_are_histories : forall nw, stmt_vreachable_reachable nw.
Proof. exact vreachable_reachable. Qed.
Print Assumptions C10_valid_path_histories_are_histories.
Theorem C10_old_dummy_constructor_breaks_paths :
  exists nw path dt, net_ok_b nw = true /\ TourStmts.connected nw path /\ tour_new_dummy_prefix nw path = Ok dt /\
                     ~ TourStmts.connected nw (t_nodes dt).
Proof. exact tour_new_dummy_prefix_breaks_connectivity. Qed.
Print Assumptions C10_old_dummy_constructor_breaks_paths.

(** rotation cycles: for every history in which fit_reassign is not called with provider = receiver, for every
    vehicle type, the stored cycles contain exactly the type's vehicles, each once, the lookup table and the list of
    empty cycles are exact, and every cycle's maintenance counter, the violation and the total equal their values
    recomputed from the current tours (this is also the remaining schedule-level item of C09). The unrestricted
    statement is refuted only on a network with negative dead-head durations. *)
From RS Require Import SchedTransFacts.
Theorem C10_reachable_cycles : forall nw s, dreachable nw s -> TransOK nw s.
Proof. exact reachable_trans_under_distinct. Qed.
Print Assumptions C10_reachable_cycles.
Theorem C10_reachable_cycles_unrestricted_refuted : ~ (forall nw, stmt_reachable_trans nw).
Proof. exact reachable_trans_refuted. Qed.
Print Assumptions C10_reachable_cycles_unrestricted_refuted.

(** formations: "a vehicle is in the formation of a node exactly if its tour contains the node, never twice" — for every
    history with valid Path arguments over a well-formed network whose listed maintenance ids are maintenance nodes
    (true of every loaded network; without that hypothesis the statement is refuted by a network RECORD that lists a
    depot as maintenance node) *)
From RS Require Import SchedFormsFacts.
Theorem C10_reachable_formations :
  forall nw, net_ok_b nw = true -> NoDup (coverable_nodes nw) ->
    (forall m, In m (nw_maint nw) -> is_maint (nd nw m) = true) ->
    forall s, vreachable nw s -> FormsOK nw s.
Proof. exact vreachable_forms_under_maint_listed. Qed.
Print Assumptions C10_reachable_formations.
Theorem C10_reachable_formations_unrestricted_refuted : ~ (forall nw, stmt_vreachable_forms nw).
Proof. exact vreachable_forms_refuted. Qed.
Print Assumptions C10_reachable_formations_unrestricted_refuted.

(** depot limits: "formation, track and depot limits hold" — depot capacities (per type and in total; the overflow depot
    exempt) are an invariant of all histories with valid Path arguments and fit_reassign between different tours, over
    every network loaded from an instance with non-negative capacities. Before the repair "fix: a start depot handed to
    the receiver must have room for it" this failed (former known finding F1). *)
From RS Require Import DepotStmts DepotFacts DepotFacts2.
Theorem C10_depot_limits_all_valid_histories : stmt_qreachable_depot_limits_loaded.
Proof. exact qreachable_depot_limits_loaded. Qed.
Print Assumptions C10_depot_limits_all_valid_histories.
