(* P_C10.v — property C09: theorems only (in progress). *)
From RS Require Import Base Network Tour SchedObs.
