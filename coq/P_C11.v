(* P_C11.v — property C11: theorems only. Each dumped candidate of RSSchedParallelNeighborhood::neighbors_of is
   passed through [check_inv] and [check_exact]; the first theorems say what passing means; the theorems at the end are about the functional model of the
   swaps (Swaps.v) and hold for all reachable schedules. *)
From RS Require Import Base Network NetSpec Tour SchedObs InvStmts InvFacts.

Theorem C11_candidate_tours_valid : forall nw o, stmt_inv_tours nw o.
Proof. exact inv_tours. Qed.
Print Assumptions C11_candidate_tours_valid.
Theorem C11_candidate_limits : forall nw o, stmt_inv_limits nw o.
Proof. exact inv_limits. Qed.
Print Assumptions C11_candidate_limits.
Theorem C11_candidate_cycles : forall nw o, stmt_inv_cycles nw o.
Proof. exact inv_cycles. Qed.
Print Assumptions C11_candidate_cycles.
Theorem C11_candidate_objective_truthful : forall nw o, stmt_exact_meaning nw o.
Proof. exact exact_meaning. Qed.
Print Assumptions C11_candidate_objective_truthful.

(** At the level of the functional model of the neighbourhood (Swaps.v, compared line by line with
    RSSchedParallelNeighborhood::neighbors_of on every generated walk): every candidate produced from a reachable
    schedule is the application of an enumerated swap and is itself reachable, so it inherits every invariant proved
    for reachable schedules; in particular its cached objective components are the true ones. *)
From RS Require Import Transition Schedule SchedInv Swaps SwapsStmts SwapsFacts.
Theorem C11_candidates_reachable : stmt_neighbors_reachable.
Proof. exact neighbors_reachable. Qed.
Print Assumptions C11_candidates_reachable.
Theorem C11_candidates_are_applications : stmt_neighbors_are_applications.
Proof. exact neighbors_are_applications. Qed.
Print Assumptions C11_candidates_are_applications.
Theorem C11_candidates_objective_truthful_all : stmt_neighbors_objective_truthful.
Proof. exact neighbors_objective_truthful. Qed.
Print Assumptions C11_candidates_objective_truthful_all.

(** "each candidate ... is itself a structurally valid schedule": over a well-formed network, every candidate produced
    from a schedule reachable by histories with valid Path arguments and fit_reassign only between different tours
    ([wreachable]) is again such a schedule (the swaps build only valid Paths, and path_exchange fits only the freshly
    created dummy into another tour), hence has valid tours, exact listings, formation and track limits and exact
    depot usage. *)
From RS Require Import NetSpec SchedStruct SwapsStmts2 SwapsFacts2.
Theorem C11_histories_included : forall nw, stmt_wreachable_sub nw.
Proof. exact wreachable_sub. Qed.
Print Assumptions C11_histories_included.
Theorem C11_candidates_stay_in_valid_histories : forall nw, stmt_neighbors_wreachable nw.
Proof. exact neighbors_wreachable. Qed.
Print Assumptions C11_candidates_stay_in_valid_histories.
Theorem C11_candidates_structurally_valid : forall nw, stmt_neighbors_structurally_valid nw.
Proof. exact neighbors_structurally_valid. Qed.
Print Assumptions C11_candidates_structurally_valid.

(** "Generating candidates never panics", on the functional model, where every unwrap / index / unsigned subtraction of
    the code is an explicit Panic result and every fuelled loop an explicit OutOfFuel (NoPanicStmts.v):
    enumerating the candidates of a schedule that satisfies the proved invariants always succeeds; applying the
    removal and hitch-hiking candidates never crashes (under non-negative cost rates and distances, true of every
    network loaded from an instance with non-negative cost parameters). The path-exchange and maintenance-spawn
    candidates: NoPanicFactsB.v (being re-proved for the model after the repair "fix: a spawn without any free depot is
    refused instead of panicking", which these proofs led to). *)
From RS Require Import LoadStmts TourExactFacts RenderStmts NoPanicStmts NoPanicFactsA.
Theorem C11_candidate_enumeration_never_crashes : forall nw, stmt_candidates_no_crash nw.
Proof. exact candidates_no_crash. Qed.
Print Assumptions C11_candidate_enumeration_never_crashes.
Theorem C11_simple_candidates_never_crash : forall nw,
  net_fine nw -> net_extra_b nw = true -> dists_finite_b nw = true -> dh_dists_finite_b nw = true ->
  forall s cs c, Good nw s -> SpawnRoom nw s -> candidates nw s = Ok cs -> In c cs ->
    (match c with CRemove _ _ | CHitch _ _ => True | _ => False end) -> no_crash (apply_cand nw s c).
Proof. exact apply_cand_simple_no_crash_under_extra. Qed.
Print Assumptions C11_simple_candidates_never_crash.
Theorem C11_loaded_networks_have_nonnegative_figures : forall i perm nw,
  valid_instance_b i = true -> params_costs_nonneg (i_params i) -> load i perm = Ok nw -> net_extra_b nw = true.
Proof. exact load_extra. Qed.
Print Assumptions C11_loaded_networks_have_nonnegative_figures.

(** the complete no-crash result (NoPanicFactsB.v): for every network loaded from a valid instance with non-negative
    cost parameters, from a start schedule that is reachable by valid-path histories, respects the capacity of EVERY
    depot (the overflow depot included) and starts its tours at listed depots, every schedule the local search can
    visit has a neighbourhood that is generated without a crash — and again satisfies those conditions. The two
    conditions are necessary (kernel-checked witnesses in the file). Before the repair "fix: a spawn without any free
    depot is refused instead of panicking" the statement was false: the file keeps the walk as a regression example. *)
From RS Require Import LoadFacts SwapsStmts2 EndToEndFacts NoPanicFactsB.
Theorem C11_local_search_never_crashes : forall i perm nw,
  valid_instance_b i = true -> params_costs_nonneg (i_params i) -> perm_ok i perm -> load i perm = Ok nw ->
  forall s0, wreachable nw s0 -> NPB_lim.FullLimits nw s0 -> FKs nw s0 ->
  forall s, NPB_comb.ls_reach nw s0 s -> no_crash (neighbors nw s) /\ NPB_lim.FullLimits nw s /\ FKs nw s.
Proof. exact local_search_never_crashes_loaded. Qed.
Print Assumptions C11_local_search_never_crashes.
Theorem C11_neighbourhood_never_crashes : forall i perm nw,
  valid_instance_b i = true -> params_costs_nonneg (i_params i) -> perm_ok i perm -> load i perm = Ok nw ->
  forall s, wreachable nw s -> NPB_lim.FullLimits nw s -> FKs nw s -> no_crash (neighbors nw s).
Proof. exact neighbors_no_crash_loaded. Qed.
Print Assumptions C11_neighbourhood_never_crashes.

(** the neighbourhood looks at the last accepted swap in ONE place: after a PathExchange the provider list is rotated so
    that the last provider comes first (SwapsRot.v; the walks of this check carry the last swap along and compare the
    rotated enumeration with the code). Whatever the last swap was, the neighbourhood is the same multiset of candidates,
    and it fails exactly when the unrotated enumeration fails — so every theorem about [neighbors] speaks about every call
    of neighbors_of, and the existence of a strictly better neighbour (C08: local optimum) does not depend on it *)
From RS Require Import SwapsRot SwapsRotFacts.
Theorem C11_neighbourhood_independent_of_last_swap : forall nw, stmt_neighbors_from_perm nw.
Proof. exact neighbors_from_perm. Qed.
Print Assumptions C11_neighbourhood_independent_of_last_swap.
Theorem C11_no_last_swap_is_the_plain_enumeration : forall nw, stmt_neighbors_from_none nw.
Proof. exact neighbors_from_none. Qed.
Print Assumptions C11_no_last_swap_is_the_plain_enumeration.
