(* P_C11.v — property C11: theorems only. Each dumped candidate of RSSchedParallelNeighborhood::neighbors_of is
   passed through [check_inv] and [check_exact]; these theorems say what passing means. The universal claim
   over all reachable schedules is not proved (no functional model of the swaps); candidates are compositions of
   the public modifications whose tour-level, formation-level and cycle-level steps are proved (C12, C13, C15). *)
From RS Require Import Base Network NetSpec Tour SchedObs InvStmts InvFacts.

Theorem C11_candidate_tours_valid : forall nw o, stmt_inv_tours nw o.
Proof. exact inv_tours. Qed.
Print Assumptions C11_candidate_tours_valid.
Theorem C11_candidate_limits : forall nw o, stmt_inv_limits nw o.
Proof. exact inv_limits. Qed.
Print Assumptions C11_candidate_limits.
Theorem C11_candidate_cycles : forall nw o, stmt_inv_cycles nw o.
Proof. exact inv_cycles. Qed.
Print Assumptions C11_candidate_cycles.
Theorem C11_candidate_objective_truthful : forall nw o, stmt_exact_meaning nw o.
Proof. exact exact_meaning. Qed.
Print Assumptions C11_candidate_objective_truthful.
