(* P_C11.v — property C11: theorems only (in progress). *)
From RS Require Import Base Network Tour SchedObs.
