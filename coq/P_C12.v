(* P_C12.v — property C12: theorems only. Each is closed by [exact] of a lemma proved in TourFacts.v, its
   full statement is the [stmt_...] definition of TourStmts.v, and [Print Assumptions] follows. *)
From RS Require Import Base Network NetSpec Tour TourSpec TourStmts TourFacts.

(* Insertion = longest prefix whose last node can reach the path ++ the whole path ++ longest suffix whose
   first node the path can reach; the removed nodes are exactly the rest; never Panic/Err at node level. *)
Theorem C12_insert_nodes_ref : forall nw, stmt_insert_nodes_ref nw.
Proof. exact insert_nodes_ref. Qed.
Print Assumptions C12_insert_nodes_ref.

(* Connectable nodes (also back-to-back with zero turnaround) are never dropped. *)
Theorem C12_insert_keeps_connectable : forall nw, stmt_insert_keeps_connectable nw.
Proof. exact insert_keeps_connectable. Qed.
Print Assumptions C12_insert_keeps_connectable.

(* Removal yields the tour without exactly those nodes and is refused exactly in the three documented cases. *)
Theorem C12_remove_nodes_ref : forall nw, stmt_remove_nodes_ref nw.
Proof. exact remove_nodes_ref. Qed.
Print Assumptions C12_remove_nodes_ref.

(* Extracting the sub-path of an existing segment always succeeds. *)
Theorem C12_sub_path_total : forall nw, stmt_sub_path_total nw.
Proof. exact sub_path_total. Qed.
Print Assumptions C12_sub_path_total.

(* insert_path / remove return exactly the node-level results (the caches are C09's business) *)
Theorem C12_insert_path_nodes :
  forall nw t p t' r, insert_path nw t p = Ok (t', r) ->
  exists sp ep removed p1,
    insert_nodes nw (t_dummy t) (t_nodes t) p = Ok (sp, ep, t_nodes t', removed, p1) /\
    r = path_new_trusted nw removed /\ t_dummy t' = t_dummy t.
Proof. exact insert_path_nodes. Qed.
Print Assumptions C12_insert_path_nodes.
