(* P_C13.v — property C13: theorems only. The documented effect of each modification is the executable relation
   [check_op] (OpSpec.v), evaluated between the states before and after every successful operation of every
   generated history; here: the formation order rules for all lists, and what the frame clauses mean. *)
From RS Require Import Base Network Tour SchedObs Pipeline OpSpec OpFacts OpStmts OpFacts2.

(* In a formation a replacing vehicle takes the replaced one's position (push; swap_remove) ... *)
Theorem C13_replace_pos : forall old new l p, index_of (vid_eqb old) l = Some p ->
  tf_replace old new l = Some (firstn p l ++ [new] ++ skipn (p + 1) l).
Proof. exact replace_pos. Qed.
Print Assumptions C13_replace_pos.
(* ... additions go to the tail ... *)
Theorem C13_add_tail : forall v l, tf_add_at_tail v l = l ++ [v].
Proof. exact add_tail. Qed.
Print Assumptions C13_add_tail.
(* ... and removals keep the order. *)
Theorem C13_remove_keeps_order : forall v l p, index_of (vid_eqb v) l = Some p ->
  tf_remove v l = Some (firstn p l ++ skipn (p + 1) l).
Proof. exact remove_keeps_order. Qed.
Print Assumptions C13_remove_keeps_order.

(* frame: all other vehicles' tours and formations elsewhere stay untouched *)
Theorem C13_frame_tours : stmt_frame_tours.
Proof. exact frame_tours. Qed.
Print Assumptions C13_frame_tours.
Theorem C13_frame_forms : stmt_frame_forms.
Proof. exact frame_forms. Qed.
Print Assumptions C13_frame_forms.
(* a vehicle left without activities disappears; its nodes lose exactly that vehicle *)
Theorem C13_delete_meaning : stmt_delete_meaning.
Proof. exact delete_meaning. Qed.
Print Assumptions C13_delete_meaning.
(* depot-only operations change no activity *)
Theorem C13_improve_meaning : stmt_improve_meaning.
Proof. exact improve_meaning. Qed.
Print Assumptions C13_improve_meaning.
