(* P_C13.v — property C13: theorems only. The documented effect of each modification is the executable relation
   [check_op] (OpSpec.v), evaluated between the states before and after every successful operation of every
   generated history; here: the formation order rules for all lists, and what the frame clauses mean. *)
From RS Require Import Base Network Tour SchedObs Pipeline OpSpec OpFacts OpStmts OpFacts2.

(* In a formation a replacing vehicle takes the replaced one's position (push; swap_remove) ... *)
Theorem C13_replace_pos : forall old new l p, index_of (vid_eqb old) l = Some p ->
  tf_replace old new l = Some (firstn p l ++ [new] ++ skipn (p + 1) l).
Proof. exact replace_pos. Qed.
Print Assumptions C13_replace_pos.
(* ... additions go to the tail ... *)
Theorem C13_add_tail : forall v l, tf_add_at_tail v l = l ++ [v].
Proof. exact add_tail. Qed.
Print Assumptions C13_add_tail.
(* ... and removals keep the order. *)
Theorem C13_remove_keeps_order : forall v l p, index_of (vid_eqb v) l = Some p ->
  tf_remove v l = Some (firstn p l ++ skipn (p + 1) l).
Proof. exact remove_keeps_order. Qed.
Print Assumptions C13_remove_keeps_order.

(* frame: all other vehicles' tours and formations elsewhere stay untouched *)
Theorem C13_frame_tours : stmt_frame_tours.
Proof. exact frame_tours. Qed.
Print Assumptions C13_frame_tours.
Theorem C13_frame_forms : stmt_frame_forms.
Proof. exact frame_forms. Qed.
Print Assumptions C13_frame_forms.
(* a vehicle left without activities disappears; its nodes lose exactly that vehicle *)
Theorem C13_delete_meaning : stmt_delete_meaning.
Proof. exact delete_meaning. Qed.
Print Assumptions C13_delete_meaning.
(* depot-only operations change no activity *)
Theorem C13_improve_meaning : stmt_improve_meaning.
Proof. exact improve_meaning. Qed.
Print Assumptions C13_improve_meaning.

(** "... and nothing else", on the functional model of the modifications (Schedule.v, compared line by line with the
    implementation): every tour, type entry and formation a modification does not document is the same before and
    after, for ALL schedule records and arguments (SchedFrameStmts.v spells out each statement). *)
From RS Require Import Transition Schedule SchedInv SchedFrameStmts SchedFrameFacts.
Theorem C13_model_frame_spawn : forall nw, stmt_frame_spawn nw.
Proof. exact frame_spawn. Qed.
Print Assumptions C13_model_frame_spawn.
Theorem C13_model_frame_delete : forall nw, stmt_frame_delete nw.
Proof. exact frame_delete. Qed.
Print Assumptions C13_model_frame_delete.
Theorem C13_model_frame_add_path : forall nw, stmt_frame_add_path nw.
Proof. exact frame_add_path. Qed.
Print Assumptions C13_model_frame_add_path.
Theorem C13_model_frame_remove_segment : forall nw, stmt_frame_remove_segment nw.
Proof. exact frame_remove_segment. Qed.
Print Assumptions C13_model_frame_remove_segment.
Theorem C13_model_frame_fit : forall nw, stmt_frame_fit nw.
Proof. exact frame_fit. Qed.
Print Assumptions C13_model_frame_fit.
Theorem C13_model_frame_override : forall nw, stmt_frame_override nw.
Proof. exact frame_override. Qed.
Print Assumptions C13_model_frame_override.
Theorem C13_model_frame_recompute : forall nw, stmt_frame_recompute nw.
Proof. exact frame_recompute. Qed.
Print Assumptions C13_model_frame_recompute.
(** depot-only operations change no activity — for every reachable schedule; for arbitrary schedule RECORDS the
    statement is false (a tour filed under the dummies of an id listed as vehicle), which no history produces *)
Theorem C13_model_improve_changes_no_activity :
  forall nw s vs s', reachable nw s -> improve_depots nw s vs = Ok s' -> activities_same s s'.
Proof. exact frame_improve_reachable. Qed.
Print Assumptions C13_model_improve_changes_no_activity.
Theorem C13_model_greedy_changes_no_activity :
  forall nw s s', reachable nw s -> reassign_end_depots_greedily nw s = Ok s' -> activities_same s s'.
Proof. exact frame_greedy_reachable. Qed.
Print Assumptions C13_model_greedy_changes_no_activity.
Theorem C13_model_consistent_changes_no_activity :
  forall nw s s', reachable nw s -> reassign_end_depots_consistent nw s = Ok s' -> activities_same s s'.
Proof. exact frame_consistent_reachable. Qed.
Print Assumptions C13_model_consistent_changes_no_activity.
Theorem C13_model_depot_only_unrestricted_refuted :
  ~ (forall nw, stmt_frame_improve nw) /\ ~ (forall nw, stmt_frame_greedy nw) /\ ~ (forall nw, stmt_frame_consistent nw).
Proof. exact (conj frame_improve_refuted (conj frame_greedy_refuted frame_consistent_refuted)). Qed.
Print Assumptions C13_model_depot_only_unrestricted_refuted.
