(* P_C14.v — property C14: theorems only. network_simplex (rs_graph) is an oracle; its answer is certified per
   instance: untrusted code computes node potentials, the extracted [check_optimal] checks them, and this theorem
   makes that check conclusive. The model's flow network is compared with the recorded one on every run. *)
From RS Require Import Base Network Flow FlowStmts FlowFacts.

(* a flow passing check_optimal (feasible + complementary slackness w.r.t. some potentials) is a minimum-cost
   feasible circulation *)
Theorem C14_dual_certificate_sound : stmt_dual_certificate_sound.
Proof. exact dual_certificate_sound. Qed.
Print Assumptions C14_dual_certificate_sound.

(* feasible = bounds on every edge and conservation at every node *)
Theorem C14_feasible_meaning : stmt_feasible_meaning.
Proof. exact feasible_meaning. Qed.
Print Assumptions C14_feasible_meaning.

(* the vehicle count is the dominant term of the objective of the circulation: the cost of a depot edge is positive
   whenever something has to be covered (also if every cost rate is zero), and it is at least any cost rate times three
   planning horizons per required vehicle; the pre-repair formula gave 0 for all-zero rates *)
Theorem C14_spawning_cost_positive : stmt_spawning_cost_positive.
Proof. exact spawning_cost_positive. Qed.
Print Assumptions C14_spawning_cost_positive.
Theorem C14_spawning_cost_dominates_rates : stmt_spawning_cost_dominates_rates.
Proof. exact spawning_cost_dominates_rates. Qed.
Print Assumptions C14_spawning_cost_dominates_rates.
Theorem C14_pre_repair_spawning_cost_zero : stmt_spawning_cost_prefix_zero.
Proof. exact spawning_cost_prefix_zero. Qed.
Print Assumptions C14_pre_repair_spawning_cost_zero.
