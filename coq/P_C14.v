(* P_C14.v — property C14: theorems only. network_simplex (rs_graph) is an oracle; its answer is certified per
   instance: untrusted code computes node potentials, the extracted [check_optimal] checks them, and this theorem
   makes that check conclusive. The model's flow network is compared with the recorded one on every run. *)
From RS Require Import Base Network Flow FlowStmts FlowFacts.

(* a flow passing check_optimal (feasible + complementary slackness w.r.t. some potentials) is a minimum-cost
   feasible circulation *)
Theorem C14_dual_certificate_sound : stmt_dual_certificate_sound.
Proof. exact dual_certificate_sound. Qed.
Print Assumptions C14_dual_certificate_sound.

(* feasible = bounds on every edge and conservation at every node *)
Theorem C14_feasible_meaning : stmt_feasible_meaning.
Proof. exact feasible_meaning. Qed.
Print Assumptions C14_feasible_meaning.
