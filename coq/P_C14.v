(* P_C14.v — property C14: theorems only. network_simplex (rs_graph) is an oracle; its answer is certified per
   instance: untrusted code computes node potentials, the extracted [check_optimal] checks them, and this theorem
   makes that check conclusive. The model's flow network is compared with the recorded one on every run. *)
From RS Require Import Base Network Flow FlowStmts FlowFacts.

(* a flow passing check_optimal (feasible + complementary slackness w.r.t. some potentials) is a minimum-cost
   feasible circulation *)
Theorem C14_dual_certificate_sound : stmt_dual_certificate_sound.
Proof. exact dual_certificate_sound. Qed.
Print Assumptions C14_dual_certificate_sound.

(* feasible = bounds on every edge and conservation at every node *)
Theorem C14_feasible_meaning : stmt_feasible_meaning.
Proof. exact feasible_meaning. Qed.
Print Assumptions C14_feasible_meaning.

(* the vehicle count is the dominant term of the objective of the circulation: the cost of a depot edge is positive
   whenever something has to be covered (also if every cost rate is zero), and it is at least any cost rate times three
   planning horizons per required vehicle; the pre-repair formula gave 0 for all-zero rates *)
Theorem C14_spawning_cost_positive : stmt_spawning_cost_positive.
Proof. exact spawning_cost_positive. Qed.
Print Assumptions C14_spawning_cost_positive.
Theorem C14_spawning_cost_dominates_rates : stmt_spawning_cost_dominates_rates.
Proof. exact spawning_cost_dominates_rates. Qed.
Print Assumptions C14_spawning_cost_dominates_rates.
Theorem C14_pre_repair_spawning_cost_zero : stmt_spawning_cost_prefix_zero.
Proof. exact spawning_cost_prefix_zero. Qed.
Print Assumptions C14_pre_repair_spawning_cost_zero.

(** "Every flow unit is decoded into exactly one tour", and the circulation's objective is the documented one: for a
    feasible flow of the per-type network and tours passing [is_decomposition] (both evaluated on the recorded flow and
    the decoded tours of every run), (1) every departure segment is visited between min(required, limit) and limit times,
    every allotted slot exactly its allotted number of times, and at most capacity-many tours start at each depot;
    (2) every consecutive pair of every tour is an arc of the network, hence connectable under the timing rules (forced
    by flow conservation); (3) the cost of the flow is the spawning cost per tour plus the tours' operating costs exactly
    as Tour computes them — so a minimum-cost flow is a minimum-vehicle, then minimum-operating-cost set of tours. The
    statements over arbitrary network RECORDS and arbitrary ids are refuted (a depot listed as service trip; an unknown
    id read as a depot). *)
From RS Require Import Tour NetSpec FlowFacts2.
Theorem C14_decomposition_covers :
  forall nw ty slots f tours,
    let net := build_flow_network nw ty slots in
    (forall x, In x (service_nodes nw ty ++ map fst slots) -> is_depot (nd nw x) = false) ->
    codes_distinct nw ty slots -> tours_shape nw ty slots tours ->
    feasible net f = true -> is_decomposition nw net f tours = true ->
    (forall s, In s (service_nodes nw ty) ->
       let mf := match maximal_formation_count_for nw s with Some l => l | None => 100 end in
       Z.min (number_of_vehicles_required_to_serve nw ty s) mf <= visits tours s <= mf) /\
    (forall m c, In (m, c) slots -> visits tours m = c) /\
    (forall d, In d (depot_ids nw) -> tours_from nw tours d <= capacity_of nw d ty).
Proof. exact decomposition_covers_under_nondepot. Qed.
Print Assumptions C14_decomposition_covers.
Theorem C14_decoded_pairs_connectable :
  forall nw ty slots f tours,
    let net := build_flow_network nw ty slots in
    net_wf_b nw = true -> In ty (type_ids nw) ->
    flow_wf nw ty slots -> codes_distinct nw ty slots ->
    tours_shape nw ty slots tours -> tours_ends nw tours ->
    feasible net f = true -> is_decomposition nw net f tours = true ->
    forall t x y, In t tours -> In (x, y) (windows t) -> can_reach nw x y = true.
Proof. exact decomposition_pairs_reachable. Qed.
Print Assumptions C14_decoded_pairs_connectable.
Theorem C14_flow_cost_is_vehicles_then_operating_cost :
  forall nw ty slots f tours,
    let net := build_flow_network nw ty slots in
    flow_wf nw ty slots -> tours_ends nw tours ->
    codes_distinct nw ty slots -> tours_shape nw ty slots tours ->
    feasible net f = true -> is_decomposition nw net f tours = true ->
    flow_cost net f =
      spawning_cost nw ty slots * Z.of_nat (length tours) + z_sum (map (fun t => compute_costs nw t) tours).
Proof. exact flow_cost_is_tour_cost_under_wf. Qed.
Print Assumptions C14_flow_cost_is_vehicles_then_operating_cost.
Theorem C14_unrestricted_statements_refuted : ~ stmt_decomposition_covers /\ ~ stmt_flow_cost_is_tour_cost.
Proof. exact (conj decomposition_covers_refuted flow_cost_is_tour_cost_refuted). Qed.
Print Assumptions C14_unrestricted_statements_refuted.

(** the optimum exists: the covering circulation of every type is feasible for every loaded network and every slot
    allotment within the track counts (so "minimum number of vehicles that can cover ..." is a minimum over a non-empty set) *)
From RS Require Import LoadStmts LoadFacts EndToEndStmts CircStmts FlowFacts3.
Theorem C14_covering_circulation_exists : stmt_circulation_feasible_loaded.
Proof. exact circulation_feasible_loaded. Qed.
Print Assumptions C14_covering_circulation_exists.

(** OPTIMALITY AMONG ALL TOURS (the converse direction, tours -> flow): every admissible set of tours — start depot,
    activities of the type or allotted slots, end depot; consecutive nodes connectable (listed predecessors = exactly the
    connectable nodes of the type: predecessors_exact, C17); every trip visited between min(required, limit) and limit
    times, every allotted slot exactly its allotted number of times; depot capacities; as many tours ending in a depot as
    starting there; no direct depot-to-depot tour repeated more often than an arc carries — IS the decomposition of a feasible
    flow of the same cost. Hence a flow passing the certificate check decodes into tours whose cost (vehicles times the
    spawning cost, plus operating costs) is minimal among ALL such sets of tours, the minimum is attained by the decoded
    tours themselves, and a competitor with fewer vehicles would have to pay more than one spawning cost in operating cost.
    Without the restriction on direct tours the tours->flow statement is refuted on a loaded network (arcs from a start
    depot to an end depot are capped at the arc bound, depot capacities are not): tours_give_flow_refuted. *)
From RS Require Import OptStmts OptFacts OptFacts2.
Theorem C14_admissible_tours_are_flows : forall nw ty slots, stmt_tours_give_flow' nw ty slots.
Proof. exact tours_give_flow'. Qed.
Print Assumptions C14_admissible_tours_are_flows.
Theorem C14_start_solution_optimal_among_all_tours : forall nw ty slots, stmt_certified_flow_gives_optimal_tours' nw ty slots.
Proof. exact certified_flow_gives_optimal_tours'. Qed.
Print Assumptions C14_start_solution_optimal_among_all_tours.
Theorem C14_start_solution_minimises_vehicles : forall nw ty slots, stmt_optimal_tours_minimise_vehicles' nw ty slots.
Proof. exact optimal_tours_minimise_vehicles'. Qed.
Print Assumptions C14_start_solution_minimises_vehicles.
Theorem C14_unrestricted_tours_to_flow_refuted : ~ (forall nw ty slots, stmt_tours_give_flow nw ty slots).
Proof. exact tours_give_flow_refuted. Qed.
Print Assumptions C14_unrestricted_tours_to_flow_refuted.

(** THE ALLOTTED TRACKS ARE A FUNCTION OF THE MODEL (SlotDist.v over the hand-written binary32 arithmetic F32.v, compared with
    the code's distribution on every run): whatever the f32 rounding does, every type gets distinct maintenance nodes, each at
    least once and at most its track count, and summed over the types no slot is handed out more often than it has tracks;
    the covering circulation of every type is feasible for exactly these slots. *)
From RS Require Import F32 SlotDist SlotDistStmts SlotDistFacts.
Theorem C14_distributed_slots_within_tracks : stmt_distribute_within_tracks.
Proof. exact distribute_within_tracks. Qed.
Print Assumptions C14_distributed_slots_within_tracks.
Theorem C14_covering_circulation_exists_for_distributed_slots : stmt_circulation_feasible_distributed.
Proof. exact circulation_feasible_distributed. Qed.
Print Assumptions C14_covering_circulation_exists_for_distributed_slots.

(** THE DECODING ALGORITHM ITSELF (Decode.v; the graph's in-edge order is an oracle, recorded by the hook and replayed exactly on
    every run).  "Every flow unit is decoded into exactly one tour": for every loaded network, admissible slot allotment,
    feasible flow without units running straight from a start depot into an end depot, and EVERY order of the entering
    units, the loop returns (decode_total), what it returns is a decomposition of the flow — every edge carries exactly as
    many units as tours use it, and per depot as many tours start as end (decode_decomposes) — and every tour starts at a start
    depot, ends at an end depot, has an activity in between and only connectable consecutive nodes (decode_tours_shape). *)
From RS Require Import Decode DecodeStmts DecodeFacts DecodeFacts2.
Theorem C14_decoding_returns_for_every_feasible_flow : stmt_decode_total.
Proof. exact decode_total. Qed.
Print Assumptions C14_decoding_returns_for_every_feasible_flow.
Theorem C14_every_flow_unit_decoded_into_exactly_one_tour : stmt_decode_decomposes.
Proof. exact decode_decomposes. Qed.
Print Assumptions C14_every_flow_unit_decoded_into_exactly_one_tour.
Theorem C14_decoded_tours_are_connectable_depot_to_depot_paths : stmt_decode_tours_shape.
Proof. exact decode_tours_shape. Qed.
Print Assumptions C14_decoded_tours_are_connectable_depot_to_depot_paths.
