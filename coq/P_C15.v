(* P_C15.v — property C15: theorems only. [TInv] (TransSpec.v): the cycles contain each vehicle exactly once,
   the lookup table and the list of reusable empty cycles match the cycles, each cycle's counter and the
   totals equal their recomputed values. Every rotation-cycle operation preserves it. *)
From Coq Require Import Permutation.
From RS Require Import Base Network Transition TransSpec TransStmts TransFacts LocalSearch LSStmts LSFacts.

Theorem C15_empty_inv : stmt_empty_inv.
Proof. exact empty_inv. Qed.
Print Assumptions C15_empty_inv.
Theorem C15_add_own_inv : stmt_add_own_inv.
Proof. exact add_own_inv. Qed.
Print Assumptions C15_add_own_inv.
Theorem C15_update_inv : stmt_update_inv.
Proof. exact update_inv. Qed.
Print Assumptions C15_update_inv.
Theorem C15_remove_inv : stmt_remove_inv.
Proof. exact remove_inv. Qed.
Print Assumptions C15_remove_inv.
Theorem C15_add_end_inv : stmt_add_end_inv.
Proof. exact add_end_inv. Qed.
Print Assumptions C15_add_end_inv.
Theorem C15_move_inv : stmt_move_inv.
Proof. exact move_inv. Qed.
Print Assumptions C15_move_inv.
Theorem C15_replace_cycle_inv : stmt_replace_cycle_inv.
Proof. exact replace_cycle_inv. Qed.
Print Assumptions C15_replace_cycle_inv.
(* 3-opt reorders the same vehicles and keeps the counter exact; the neighbourhood only enumerates i<j<k<n *)
Theorem C15_three_opt_exact : stmt_three_opt_exact.
Proof. exact three_opt_exact. Qed.
Print Assumptions C15_three_opt_exact.
Theorem C15_three_opt_indices_ok : stmt_three_opt_indices_ok.
Proof. exact three_opt_indices_ok. Qed.
Print Assumptions C15_three_opt_indices_ok.
(* before the repair "fix: add_vehicle_at_the_end returned the stale list of empty cycles" the invariant broke *)
Theorem C15_add_end_prefix_refuted : stmt_add_end_prefix_refuted.
Proof. exact add_end_prefix_refuted. Qed.
Print Assumptions C15_add_end_prefix_refuted.
(* the optimisation is the generic local search over (violation, counter): it returns a result not worse than
   what it was given (instance of the C08 theorem) *)
Theorem C15_opt_not_worse : forall S obj neighbors pick k, stmt_run_descends S obj neighbors pick k.
Proof. exact run_descends. Qed.
Print Assumptions C15_opt_not_worse.

(* "create": the greedy construction (Transition::new_fast, used by Schedule::empty and by every recompute) satisfies
   the bookkeeping invariant for every duplicate-free vehicle list *)
From RS Require Import TransFacts2.
Theorem C15_new_fast_inv : stmt_new_fast_inv.
Proof. exact new_fast_inv. Qed.
Print Assumptions C15_new_fast_inv.

(** the transition optimisation as a whole: whatever finite sequence of its moves (moving a vehicle to the end of another
    or of a new cycle; replacing a cycle by a 3-opt reordering) it performs from a valid transition, the result is a valid
    transition over the same vehicles — which is exactly what the pipeline theorems assume of it ([trans_valid]) *)
From RS Require Import TOptStmts TOptFacts.
Theorem C15_optimiser_moves_keep_the_invariant : forall nw tours, stmt_topt_path_inv nw tours.
Proof. exact topt_path_inv. Qed.
Print Assumptions C15_optimiser_moves_keep_the_invariant.

(** the transition optimisation as a FUNCTION (TOpt.v: the cycle TSP with the sequential first-minimum rule inside the
    neighbourhood "exchange / move a vehicle between two cycles", the parallel minimiser as an oracle [pick] bound only by
    the min_by contract; compared with the implementation's recorded runs on every check): whatever [pick] chooses,
    a run from a transition with exact bookkeeping returns a transition with exact bookkeeping over the same vehicles,
    whose (violation, counter) is not worse than what it was given, along strictly descending accepted steps, and it stops
    only where no neighbour is strictly better *)
From RS Require Import TOpt TOptStmts2 TOptFacts2 TOptFacts3.
Theorem C15_optimiser_run_is_a_sequence_of_its_moves : forall nw tours, stmt_topt_run_path nw tours.
Proof. exact topt_run_path. Qed.
Theorem C15_optimiser_returns_same_vehicles_exact_and_not_worse : forall nw tours, stmt_topt_run_valid nw tours.
Proof. exact topt_run_valid. Qed.
Theorem C15_optimiser_stops_at_local_optimum : forall nw tours, stmt_topt_run_local_opt nw tours.
Proof. exact topt_run_local_opt. Qed.
(* non-vacuity: a run that accepts a step from the greedy transition of four vehicles, all hypotheses discharged *)
Definition C15_optimiser_example := ex_run_valid.
Print Assumptions C15_optimiser_run_is_a_sequence_of_its_moves.
Print Assumptions C15_optimiser_returns_same_vehicles_exact_and_not_worse.
Print Assumptions C15_optimiser_stops_at_local_optimum.
From RS Require Import PipelineOptStmts PipelineOptFacts.
Theorem C15_pipeline_optimiser_not_worse : forall nw, stmt_optimised_not_worse nw.
Proof. exact optimised_not_worse. Qed.
Print Assumptions C15_pipeline_optimiser_not_worse.
