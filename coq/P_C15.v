(* P_C15.v — property C15: theorems only (proofs in progress). *)
From RS Require Import Base Network Transition TransSpec.
