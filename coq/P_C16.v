(* P_C16.v — property C16: theorems only. *)
From RS Require Import Base Network Tour SchedObs Pipeline.

(* the wiring of solve_instance: final = reassign (set_transitions (ls) (optimise ls)), ls = search (improve mcf) *)
Theorem C16_pipeline_wiring :
  forall S T mcf imp ls (opt : S -> T) set re, Wired S T mcf imp ls opt set re (solve_stages S T mcf imp ls opt set re).
Proof. exact pipeline_wiring. Qed.
Print Assumptions C16_pipeline_wiring.

(* the wiring before the repair "fix: solve_instance dropped the optimised transitions" was not *)
Theorem C16_prefix_wiring_refuted :
  exists (S T : Type) mcf imp ls (opt : S -> T) set re,
    ~ Wired S T mcf imp ls opt set re (solve_stages_prefix S T mcf imp ls opt set re).
Proof. exact pipeline_wiring_prefix_refuted. Qed.
Print Assumptions C16_prefix_wiring_refuted.

(** the last stage changes no activity and aligns the end depots with the cycles it is given (functional model of
    Schedule, for every reachable schedule) *)
From RS Require Import Transition Schedule SchedInv SchedFrameStmts SchedFrameFacts.
Theorem C16_alignment_changes_no_activity :
  forall nw s s', reachable nw s -> reassign_end_depots_consistent nw s = Ok s' -> activities_same s s'.
Proof. exact frame_consistent_reachable. Qed.
Print Assumptions C16_alignment_changes_no_activity.
Theorem C16_alignment_aligns : forall nw, stmt_consistent_aligns nw.
Proof. exact consistent_aligns. Qed.
Print Assumptions C16_alignment_aligns.

(** "the returned schedule is the product of all pipeline stages", on the functional model of the pipeline: the final
    schedule carries exactly the optimiser's cycles (same vehicle lists per type) and exactly the local-search
    result's vehicles, formations, dummy tours, activities and start depots; the start schedule and every schedule the
    local search passes through stay inside the histories for which the invariants are proved *)
From RS Require Import SchedStruct SwapsStmts2 PipelineSched PipelineSchedFacts.
Theorem C16_pipeline_product : forall nw, stmt_pipeline_product nw.
Proof. exact pipeline_product. Qed.
Print Assumptions C16_pipeline_product.
Theorem C16_start_schedule_is_a_valid_history : forall nw, stmt_from_tours_wreachable nw.
Proof. exact from_tours_wreachable. Qed.
Print Assumptions C16_start_schedule_is_a_valid_history.
Theorem C16_search_stays_in_valid_histories : forall nw, stmt_ls_path_wreachable nw.
Proof. exact ls_path_wreachable. Qed.
Print Assumptions C16_search_stays_in_valid_histories.
Theorem C16_pipeline_result_valid : forall i perm nw, load i perm = Ok nw -> stmt_pipeline_valid nw.
Proof. exact pipeline_valid_loaded. Qed.
Print Assumptions C16_pipeline_result_valid.
Theorem C16_pipeline_valid_needs_depot_table : ~ (forall nw, stmt_pipeline_valid nw).
Proof. exact pipeline_valid_refuted. Qed.
Print Assumptions C16_pipeline_valid_needs_depot_table.

(** END TO END. For every instance that is valid (valid_instance_b) with unsigned limits and capacities, every network
    [load] builds from it, all flow tours that are valid Paths over nodes of the network, and EVERY result of the
    modelled pipeline (from_tours, improve_depots, any trajectory through the enumerated neighbours, any optimiser
    transitions satisfying the C15 invariant, the final alignment): the result can be rendered, and the rendered JSON
    passes check_C01, check_C02, check_C03, check_C04 and check_C05 — itineraries feasible, formation / track / depot
    limits respected, output complete with agreeing vehicle and trip views, reported objective = independent
    evaluation, cycles partition the vehicles and every vehicle ends where its successor starts. (The model is compared
    with the implementation on every run: every stage snapshot, every accepted search step, the returned JSON.) *)
From RS Require Import EndToEndStmts EndToEndFacts.
Theorem C16_end_to_end : stmt_end_to_end.
Proof. exact end_to_end. Qed.
Print Assumptions C16_end_to_end.

(** the same with the hypothesis on the depot permutation that the driver evaluates on every run (Hyps.v: the
    executable readings [valid_instance_b], [inst_unsigned_b], [tours_ok_b] of the hypotheses, with soundness lemmas) *)
From RS Require Import LoadStmts LoadFacts SchedObs Output Render Hyps EndToEndChecked.
Theorem C16_end_to_end_checked_hypotheses :
  forall i perm nw,
    valid_instance_b i = true -> inst_unsigned_b i = true -> perm_ok i perm -> load i perm = Ok nw ->
    forall tours final, tours_ok_b nw tours = true -> pipeline_result nw tours final ->
      exists out, render nw final = Ok out /\
        check_C01 nw out = [] /\ check_C02 nw out = [] /\ check_C03 nw out = [] /\
        check_C04 nw out = [] /\ check_C05 nw out = [].
Proof. exact end_to_end_checked. Qed.
Print Assumptions C16_end_to_end_checked_hypotheses.

(** the optimisation stage as a function (TOpt.v): what it hands back is a valid transition over the vehicles of the
    local-search result (so it can be "carried" by the answer), type by type not worse than the search result's own
    cycles; and the pipeline with the modelled optimiser is an instance of the pipeline of the product theorem above *)
From RS Require Import LocalSearch TOpt PipelineOptStmts PipelineOptFacts.
Theorem C16_optimiser_result_is_valid : forall nw, stmt_optimised_trans_valid nw.
Proof. exact optimised_trans_valid. Qed.
Print Assumptions C16_optimiser_result_is_valid.
Theorem C16_optimiser_result_not_worse : forall nw, stmt_optimised_not_worse nw.
Proof. exact optimised_not_worse. Qed.
Print Assumptions C16_optimiser_result_not_worse.
Theorem C16_modelled_pipeline_is_the_pipeline : forall nw, stmt_pipeline_result_opt_is_pipeline_result nw.
Proof. exact pipeline_result_opt_is_pipeline_result. Qed.
Print Assumptions C16_modelled_pipeline_is_the_pipeline.

(** the product of the stages begins at the flow: the tours decoded from any feasible flows of the per-type networks satisfy
    every hypothesis the stage theorems put on "the flow tours" (ChainFacts.v), and the pipeline built on them returns *)
From RS Require Import ChainStmts ChainFacts.
Theorem C16_decoded_tours_feed_the_pipeline : stmt_decoded_tours_feed_pipeline.
Proof. exact decoded_tours_feed_pipeline. Qed.
Print Assumptions C16_decoded_tours_feed_the_pipeline.
