(* P_C17.v — property C17: theorems only. Each is closed by [exact] of a lemma proved elsewhere, pinned
   by a [Check] of its full statement, and followed by [Print Assumptions]. *)
From RS Require Import Base Network NetSpec NetFacts.

(* One activity can reach another exactly when the documented timing rule holds. *)
Theorem C17_can_reach_iff :
  forall nw, net_wf_b nw = true ->
  forall a b, can_reach nw a b = true <-> Reach nw (nd nw a) (nd nw b).
Proof. exact can_reach_iff. Qed.
Print Assumptions C17_can_reach_iff.

(* successors = exactly the nodes of that type the node can reach, also when times tie; no duplicates *)
Theorem C17_successors_exact :
  forall nw, net_wf_b nw = true -> forall ty n m, In ty (type_ids nw) ->
  (In m (successors nw ty n) <-> In m (type_nodes nw ty) /\ can_reach nw n m = true).
Proof. exact successors_exact. Qed.
Print Assumptions C17_successors_exact.

Theorem C17_successors_nodup :
  forall nw, net_wf_b nw = true -> forall ty n, In ty (type_ids nw) -> NoDup (successors nw ty n).
Proof. exact successors_nodup. Qed.
Print Assumptions C17_successors_nodup.

Theorem C17_predecessors_nodup :
  forall nw, net_wf_b nw = true -> forall ty n, In ty (type_ids nw) -> NoDup (predecessors nw ty n).
Proof. exact predecessors_nodup. Qed.
Print Assumptions C17_predecessors_nodup.

(* predecessors = exactly the nodes of that type that can reach the node, also when times tie *)
Theorem C17_predecessors_exact :
  forall nw, net_wf_b nw = true -> forall ty n m, In ty (type_ids nw) ->
  (In m (predecessors nw ty n) <-> In m (type_nodes nw ty) /\ can_reach nw m n = true).
Proof. exact predecessors_exact. Qed.
Print Assumptions C17_predecessors_exact.

(** Loading: for every instance conforming to the documented input format ([valid_instance_b]) *)
From Coq Require Import Permutation.
From RS Require Import LoadStmts LoadFacts.

(* loading never panics *)
Theorem C17_load_total : stmt_load_total.
Proof. exact load_total. Qed.
Print Assumptions C17_load_total.

(* one service node per departure segment with the route's vehicle type, origin, destination, distance,
   departure, arrival = departure + duration, passengers (zero counted as one), seated passengers and formation
   limit; one node per maintenance slot *)
Theorem C17_load_nodes : stmt_load_nodes.
Proof. exact load_nodes. Qed.
Print Assumptions C17_load_nodes.

(* the loaded network satisfies the hypotheses of the theorems above (so they hold for every loaded network);
   the depot permutation oracle must not be longer than the location list (it is a permutation of it) *)
Theorem C17_load_wf :
  forall i perm nw, valid_instance_b i = true -> perm_ok i perm -> load i perm = Ok nw ->
    net_wf_b nw = true /\ durations_pos_b nw = true /\ dists_finite_b nw = true.
Proof. exact load_wf_partial. Qed.
Print Assumptions C17_load_wf.
(* (for an over-long permutation the 16-bit index bound fails: the unrestricted statement is refuted) *)
Theorem C17_load_wf_unrestricted_refuted : ~ stmt_load_wf.
Proof. exact load_wf_refuted. Qed.
Print Assumptions C17_load_wf_unrestricted_refuted.

(* the overflow depot can always host every vehicle *)
Theorem C17_load_overflow : stmt_load_overflow.
Proof. exact load_overflow. Qed.
Print Assumptions C17_load_overflow.

(** the depot clause: "the given depots (or one unlimited depot per location) with their total and per-type capacities
    plus an overflow depot": the depot table is the input's depots in order followed by the overflow depot; given depots
    keep location, total and per-type capacity (a per-type figure capped by the total, a type without figure may use the
    whole depot, an unlisted type never starts there); without depots there is one depot per location, open to every type
    and at least as large as the largest fleet the instance can need; both nodes of every depot carry its index; the
    overflow depot is nowhere. Non-vacuity: LoadFacts2.load_depots_instG / load_depots_instU. *)
From RS Require Import LoadStmts2 LoadFacts2.
Theorem C17_load_depots : stmt_load_depots.
Proof. exact load_depots. Qed.
Print Assumptions C17_load_depots.

(** REFERENCES (RawLoad.v): the instance as listed — every reference an identifier — is resolved inside the model, with the
    loader's own lookups (HashMaps filled in listing order: the last entry of a repeated id wins; `find`: the first route
    with the id, the first segment with the id INSIDE that route; routes resolved only when a departure uses them; index
    panics for matrices smaller than `indices`).  For every listing whose references resolve the resolution succeeds, every
    reference points to the record that carries the identifier, the dead-head matrices are read through `indices`
    whatever its arrangement, the result is a valid index-based instance, and loading it never panics. *)
From RS Require Import RawLoad RawLoadStmts RawLoadFacts.
Theorem C17_references_resolve : stmt_resolve_total.
Proof. exact resolve_total. Qed.
Print Assumptions C17_references_resolve.
Theorem C17_references_point_to_the_named_records : stmt_resolve_faithful.
Proof. exact resolve_faithful. Qed.
Print Assumptions C17_references_point_to_the_named_records.
Theorem C17_valid_listing_gives_valid_instance : stmt_resolve_valid.
Proof. exact resolve_valid. Qed.
Print Assumptions C17_valid_listing_gives_valid_instance.
Theorem C17_loading_a_valid_listing_never_panics : stmt_load_raw_total.
Proof. exact load_raw_total. Qed.
Print Assumptions C17_loading_a_valid_listing_never_panics.
Theorem C17_dangling_reference_refused_unused_one_unnoticed : stmt_resolve_dangling.
Proof. exact resolve_dangling. Qed.
Print Assumptions C17_dangling_reference_refused_unused_one_unnoticed.
Theorem C17_segment_ids_are_local_to_their_route : stmt_resolve_segment_ids_local.
Proof. exact resolve_segment_ids_local. Qed.
Print Assumptions C17_segment_ids_are_local_to_their_route.

(** The calendar layer (Cal.v = rapid_time as the loader uses it): departure and arrival times enter the network through
    DateTime::new and are compared by the derived order of (days, seconds).  The model's linear seconds are a sound reading
    of that exactly on NORMALISED points; DateTime::new does not normalise (hour 24, seconds above 59), which was a genuine
    defect of the loader ("…T24:00:00" compared as earlier than the same instant written "…T00:00:00" of the next day: an
    arrival at midnight could not reach a departure at 24:00:00), repaired by reading every time as `new(s) + ZERO`. *)
From RS Require Import Cal CalStmts CalFacts.
Theorem C17_day_numbers_invert_dates : stmt_ymd_roundtrip.
Proof. exact ymd_roundtrip. Qed.
Print Assumptions C17_day_numbers_invert_dates.
Theorem C17_dates_invert_day_numbers : stmt_days_roundtrip.
Proof. exact days_roundtrip. Qed.
Print Assumptions C17_dates_invert_day_numbers.
Theorem C17_day_numbers_are_chronological : stmt_ymd_monotone.
Proof. exact ymd_monotone. Qed.
Print Assumptions C17_day_numbers_are_chronological.
Theorem C17_arrival_is_departure_plus_duration : stmt_tp_add_lin.
Proof. exact tp_add_lin. Qed.
Print Assumptions C17_arrival_is_departure_plus_duration.
Theorem C17_derived_order_is_chronological_on_normalised_points : stmt_tp_cmp_lin.
Proof. exact tp_cmp_lin. Qed.
Print Assumptions C17_derived_order_is_chronological_on_normalised_points.
Theorem C17_derived_order_not_chronological_otherwise : stmt_tp_cmp_lin_refuted.
Proof. exact tp_cmp_lin_refuted. Qed.
Print Assumptions C17_derived_order_not_chronological_otherwise.
Theorem C17_strict_clock_times_parse_normalised : stmt_parse_norm.
Proof. exact parse_norm. Qed.
Print Assumptions C17_strict_clock_times_parse_normalised.
Theorem C17_hour_24_parses_unnormalised_prefix_defect : stmt_parse_norm_refuted.
Proof. exact parse_norm_refuted. Qed.
Print Assumptions C17_hour_24_parses_unnormalised_prefix_defect.
Theorem C17_repaired_loader_times_are_ordered_chronologically : stmt_load_time_order.
Proof. exact load_time_order. Qed.
Print Assumptions C17_repaired_loader_times_are_ordered_chronologically.
Theorem C17_repaired_loader_keeps_the_instant : stmt_load_time_instant.
Proof. exact load_time_instant. Qed.
Print Assumptions C17_repaired_loader_keeps_the_instant.
Theorem C17_linear_time_abstracts_add : stmt_abs_add.
Proof. exact abs_add. Qed.
Print Assumptions C17_linear_time_abstracts_add.
Theorem C17_linear_time_abstracts_order : stmt_abs_cmp.
Proof. exact abs_cmp. Qed.
Print Assumptions C17_linear_time_abstracts_order.
Theorem C17_linear_time_abstracts_difference : stmt_abs_diff_dt.
Proof. exact abs_diff_dt. Qed.
Print Assumptions C17_linear_time_abstracts_difference.
Theorem C17_difference_asserts_wrongly_otherwise : stmt_abs_diff_dt_refuted.
Proof. exact abs_diff_dt_refuted. Qed.
Print Assumptions C17_difference_asserts_wrongly_otherwise.

(** From the text of the listing: the times are still strings (TextLoad.v); the repaired loader's reading of a time is the
    conversion the checks use for the model's seconds, comparing two loaded times in the code's derived order is comparing
    those seconds, and a listing whose times DateTime::new accepts and whose references resolve loads. *)
From RS Require Import TextLoad TextLoadStmts TextLoadFacts.
Theorem C17_model_seconds_are_the_loaders_points : stmt_read_time_is_rel_seconds.
Proof. exact read_time_is_rel_seconds. Qed.
Print Assumptions C17_model_seconds_are_the_loaders_points.
Theorem C17_loaded_times_compare_as_model_seconds : stmt_read_time_order.
Proof. exact read_time_order. Qed.
Print Assumptions C17_loaded_times_compare_as_model_seconds.
Theorem C17_arrival_on_points_and_on_seconds : stmt_read_time_add.
Proof. exact read_time_add. Qed.
Print Assumptions C17_arrival_on_points_and_on_seconds.
Theorem C17_text_listing_becomes_raw_listing : stmt_to_raw_total.
Proof. exact to_raw_total. Qed.
Print Assumptions C17_text_listing_becomes_raw_listing.
Theorem C17_refused_time_string_panics : stmt_to_raw_bad_time.
Proof. exact to_raw_bad_time. Qed.
Print Assumptions C17_refused_time_string_panics.
Theorem C17_text_listing_loads : stmt_load_text_total.
Proof. exact load_text_total. Qed.
Print Assumptions C17_text_listing_loads.

(** "… and formation limit": the limit the network answers for a service node is the smaller of the type's and the route
    segment's (the one that is given, if only one is) *)
From RS Require Import SchedObs Output OutStmts OutFacts.
Theorem C17_formation_limit_is_the_smaller_one : stmt_max_formation_spec.
Proof. exact max_formation_spec. Qed.
Print Assumptions C17_formation_limit_is_the_smaller_one.

(** The loader caps dead-head durations at the planning horizon, so the network's travel times are not the instance's own where
    the matrix lists something longer.  Read against the INSTANCE's own matrix (ReachRaw), the reachability of the loaded network
    is still exactly the documented rule for every valid instance (activity durations positive): the cap can only matter for
    connections that do not fit into the horizon anyway.  With a zero-duration trip it does change reachability (witness). *)
From RS Require Import CapStmts CapFacts.
Theorem C17_capping_dead_heads_keeps_the_instances_reachability : stmt_cap_preserves_reach.
Proof. exact cap_preserves_reach. Qed.
Print Assumptions C17_capping_dead_heads_keeps_the_instances_reachability.
Theorem C17_can_reach_is_the_documented_rule_on_the_instances_matrix : stmt_can_reach_is_the_instances_rule.
Proof. exact can_reach_is_the_instances_rule. Qed.
Print Assumptions C17_can_reach_is_the_documented_rule_on_the_instances_matrix.
Theorem C17_capping_changes_reachability_for_zero_durations : stmt_cap_changes_reach_for_zero_durations.
Proof. exact cap_changes_reach_for_zero_durations. Qed.
Print Assumptions C17_capping_changes_reachability_for_zero_durations.
