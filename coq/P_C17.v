(* P_C17.v — property C17: theorems only. Each is closed by [exact] of a lemma proved elsewhere, pinned
   by a [Check] of its full statement, and followed by [Print Assumptions]. *)
From RS Require Import Base Network NetSpec NetFacts.

(* One activity can reach another exactly when the documented timing rule holds. *)
Theorem C17_can_reach_iff :
  forall nw, net_wf_b nw = true ->
  forall a b, can_reach nw a b = true <-> Reach nw (nd nw a) (nd nw b).
Proof. exact can_reach_iff. Qed.
Print Assumptions C17_can_reach_iff.

(* successors = exactly the nodes of that type the node can reach, also when times tie; no duplicates *)
Theorem C17_successors_exact :
  forall nw, net_wf_b nw = true -> forall ty n m, In ty (type_ids nw) ->
  (In m (successors nw ty n) <-> In m (type_nodes nw ty) /\ can_reach nw n m = true).
Proof. exact successors_exact. Qed.
Print Assumptions C17_successors_exact.

Theorem C17_successors_nodup :
  forall nw, net_wf_b nw = true -> forall ty n, In ty (type_ids nw) -> NoDup (successors nw ty n).
Proof. exact successors_nodup. Qed.
Print Assumptions C17_successors_nodup.

Theorem C17_predecessors_nodup :
  forall nw, net_wf_b nw = true -> forall ty n, In ty (type_ids nw) -> NoDup (predecessors nw ty n).
Proof. exact predecessors_nodup. Qed.
Print Assumptions C17_predecessors_nodup.

(* predecessors = exactly the nodes of that type that can reach the node, also when times tie *)
Theorem C17_predecessors_exact :
  forall nw, net_wf_b nw = true -> forall ty n m, In ty (type_ids nw) ->
  (In m (predecessors nw ty n) <-> In m (type_nodes nw ty) /\ can_reach nw m n = true).
Proof. exact predecessors_exact. Qed.
Print Assumptions C17_predecessors_exact.
