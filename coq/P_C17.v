(* P_C17.v — property C17: theorems only. Each is closed by [exact] of a lemma proved elsewhere, pinned
   by a [Check] of its full statement, and followed by [Print Assumptions]. *)
From RS Require Import Base Network NetSpec NetFacts.

(* One activity can reach another exactly when the documented timing rule holds. *)
Theorem C17_can_reach_iff :
  forall nw, net_wf_b nw = true ->
  forall a b, can_reach nw a b = true <-> Reach nw (nd nw a) (nd nw b).
Proof. exact can_reach_iff. Qed.
Print Assumptions C17_can_reach_iff.

(* successors = exactly the nodes of that type the node can reach, also when times tie; no duplicates *)
Theorem C17_successors_exact :
  forall nw, net_wf_b nw = true -> forall ty n m, In ty (type_ids nw) ->
  (In m (successors nw ty n) <-> In m (type_nodes nw ty) /\ can_reach nw n m = true).
Proof. exact successors_exact. Qed.
Print Assumptions C17_successors_exact.

Theorem C17_successors_nodup :
  forall nw, net_wf_b nw = true -> forall ty n, In ty (type_ids nw) -> NoDup (successors nw ty n).
Proof. exact successors_nodup. Qed.
Print Assumptions C17_successors_nodup.

Theorem C17_predecessors_nodup :
  forall nw, net_wf_b nw = true -> forall ty n, In ty (type_ids nw) -> NoDup (predecessors nw ty n).
Proof. exact predecessors_nodup. Qed.
Print Assumptions C17_predecessors_nodup.

(* predecessors = exactly the nodes of that type that can reach the node, also when times tie *)
Theorem C17_predecessors_exact :
  forall nw, net_wf_b nw = true -> forall ty n m, In ty (type_ids nw) ->
  (In m (predecessors nw ty n) <-> In m (type_nodes nw ty) /\ can_reach nw m n = true).
Proof. exact predecessors_exact. Qed.
Print Assumptions C17_predecessors_exact.

(** Loading: for every instance conforming to the documented input format ([valid_instance_b]) *)
From Coq Require Import Permutation.
From RS Require Import LoadStmts LoadFacts.

(* loading never panics *)
Theorem C17_load_total : stmt_load_total.
Proof. exact load_total. Qed.
Print Assumptions C17_load_total.

(* one service node per departure segment with the route's vehicle type, origin, destination, distance,
   departure, arrival = departure + duration, passengers (zero counted as one), seated passengers and formation
   limit; one node per maintenance slot *)
Theorem C17_load_nodes : stmt_load_nodes.
Proof. exact load_nodes. Qed.
Print Assumptions C17_load_nodes.

(* the loaded network satisfies the hypotheses of the theorems above (so they hold for every loaded network);
   the depot permutation oracle must not be longer than the location list (it is a permutation of it) *)
Theorem C17_load_wf :
  forall i perm nw, valid_instance_b i = true -> perm_ok i perm -> load i perm = Ok nw ->
    net_wf_b nw = true /\ durations_pos_b nw = true /\ dists_finite_b nw = true.
Proof. exact load_wf_partial. Qed.
Print Assumptions C17_load_wf.
(* (for an over-long permutation the 16-bit index bound fails: the unrestricted statement is refuted) *)
Theorem C17_load_wf_unrestricted_refuted : ~ stmt_load_wf.
Proof. exact load_wf_refuted. Qed.
Print Assumptions C17_load_wf_unrestricted_refuted.

(* the overflow depot can always host every vehicle *)
Theorem C17_load_overflow : stmt_load_overflow.
Proof. exact load_overflow. Qed.
Print Assumptions C17_load_overflow.

(** the depot clause: "the given depots (or one unlimited depot per location) with their total and per-type capacities
    plus an overflow depot": the depot table is the input's depots in order followed by the overflow depot; given depots
    keep location, total and per-type capacity (a per-type figure capped by the total, a type without figure may use the
    whole depot, an unlisted type never starts there); without depots there is one depot per location, open to every type
    and at least as large as the largest fleet the instance can need; both nodes of every depot carry its index; the
    overflow depot is nowhere. Non-vacuity: LoadFacts2.load_depots_instG / load_depots_instU. *)
From RS Require Import LoadStmts2 LoadFacts2.
Theorem C17_load_depots : stmt_load_depots.
Proof. exact load_depots. Qed.
Print Assumptions C17_load_depots.

(** REFERENCES (RawLoad.v): the instance as listed — every reference an identifier — is resolved inside the model, with the
    loader's own lookups (HashMaps filled in listing order: the last entry of a repeated id wins; `find`: the first route
    with the id, the first segment with the id INSIDE that route; routes resolved only when a departure uses them; index
    panics for matrices smaller than `indices`).  For every listing whose references resolve the resolution succeeds, every
    reference points to the record that carries the identifier, the dead-head matrices are read through `indices`
    whatever its arrangement, the result is a valid index-based instance, and loading it never panics. *)
From RS Require Import RawLoad RawLoadStmts RawLoadFacts.
Theorem C17_references_resolve : stmt_resolve_total.
Proof. exact resolve_total. Qed.
Print Assumptions C17_references_resolve.
Theorem C17_references_point_to_the_named_records : stmt_resolve_faithful.
Proof. exact resolve_faithful. Qed.
Print Assumptions C17_references_point_to_the_named_records.
Theorem C17_valid_listing_gives_valid_instance : stmt_resolve_valid.
Proof. exact resolve_valid. Qed.
Print Assumptions C17_valid_listing_gives_valid_instance.
Theorem C17_loading_a_valid_listing_never_panics : stmt_load_raw_total.
Proof. exact load_raw_total. Qed.
Print Assumptions C17_loading_a_valid_listing_never_panics.
Theorem C17_dangling_reference_refused_unused_one_unnoticed : stmt_resolve_dangling.
Proof. exact resolve_dangling. Qed.
Print Assumptions C17_dangling_reference_refused_unused_one_unnoticed.
Theorem C17_segment_ids_are_local_to_their_route : stmt_resolve_segment_ids_local.
Proof. exact resolve_segment_ids_local. Qed.
Print Assumptions C17_segment_ids_are_local_to_their_route.
