(* P_C18.v — property C18 (partial): theorems only. The handlers of server/src/main.rs share no state (no static,
   no interior mutability): the model is a multiset of in-flight requests; the theorems hold for ALL interleavings
   and fault sequences of the model. What the model cannot exhibit (and the check exercises against the real server
   binary): tokio's per-task panic isolation, sockets, worker starvation by the blocking handler, the JSON extractor's
   rejection codes. *)
From RS Require Import Base Server ServerFacts.

(* every answer depends on the answered request only, in every interleaving *)
Theorem C18_isolation : stmt_isolation.
Proof. exact isolation. Qed.
Print Assumptions C18_isolation.
(* a failing (or any) request leaves the answers of all other requests unchanged *)
Theorem C18_survives : stmt_survives.
Proof. exact survives. Qed.
Print Assumptions C18_survives.
(* health is answered 200 "Healthy" whatever else is in flight *)
Theorem C18_health : stmt_health.
Proof. exact health. Qed.
Print Assumptions C18_health.
