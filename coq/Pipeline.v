(* Pipeline.v — the wiring of server::solve_instance as a composition of stages (C16), and the executable
   relation between the stage snapshots that the wiring implies. *)
From RS Require Import Base Network NetSpec Tour SchedObs.

(** * Abstract wiring: stages are parameters, the pipeline is their composition *)
Section Wiring.
Variables (S T : Type).
Variable mcf : S.                       (* MinCostFlowSolver::solve *)
Variable improve_depots : S -> S.       (* Schedule::improve_depots(None) *)
Variable local_search : S -> S.         (* build_local_search_solver(..).solve, or identity without maintenance *)
Variable optimise : S -> T.             (* transition local search, per type *)
Variable set_transitions : S -> T -> S. (* Schedule::set_next_day_transitions *)
Variable reassign : S -> S.             (* reassign_end_depots_consistent_with_transitions *)

Record stages := { st_start : S; st_ls : S; st_opt : S; st_final : S }.

(* the wiring of server/src/lib.rs (since the repair) and of internal/src/lib.rs *)
Definition solve_stages : stages :=
  let start := improve_depots mcf in
  let ls := local_search start in
  let opt := set_transitions ls (optimise ls) in
  {| st_start := start; st_ls := ls; st_opt := opt; st_final := reassign opt |}.

(* the wiring of server/src/lib.rs before the repair: the optimised transitions were computed and dropped *)
Definition solve_stages_prefix : stages :=
  let start := improve_depots mcf in
  let ls := local_search start in
  let opt := set_transitions ls (optimise ls) in
  {| st_start := start; st_ls := ls; st_opt := opt; st_final := reassign ls |}.

Definition Wired (s : stages) : Prop :=
  st_start s = improve_depots mcf /\ st_ls s = local_search (st_start s) /\
  st_opt s = set_transitions (st_ls s) (optimise (st_ls s)) /\ st_final s = reassign (st_opt s).

Lemma pipeline_wiring : Wired solve_stages.
Proof. unfold Wired, solve_stages; simpl; auto. Qed.
End Wiring.

(* the pre-repair wiring is not [Wired] as soon as reassign distinguishes the two schedules *)
Lemma pipeline_wiring_prefix_refuted :
  exists (S T : Type) mcf imp ls (opt : S -> T) set re, ~ Wired S T mcf imp ls opt set re (solve_stages_prefix S T mcf imp ls opt set re).
Proof.
  exists nat, nat, 0%nat, (fun x => x), (fun x => x), (fun _ => 1%nat), (fun _ t => t), (fun x => x).
  unfold Wired, solve_stages_prefix; simpl. intros (_ & _ & _ & H). discriminate.
Qed.

(** * What the wiring implies for the observable snapshots *)
Section Snap.
Variable nw : network.

Definition cycles_of (o : sobs) : list (Z * list (list vehicle_id)) :=
  map (fun '(ty, (_, _, cycles)) => (ty, map fst cycles)) (so_trans o).
Fixpoint vids_eqb (a b : list vehicle_id) : bool :=
  match a, b with [] , [] => true | x :: r, y :: s => vid_eqb x y && vids_eqb r s | _, _ => false end.
Fixpoint nids_eqb (a b : list node_id) : bool :=
  match a, b with [] , [] => true | x :: r, y :: s => nid_eqb x y && nids_eqb r s | _, _ => false end.
Definition cycles_eqb (a b : list (Z * list (list vehicle_id))) : bool :=
  Nat.eqb (length a) (length b) &&
  forallb (fun '((t1, c1), (t2, c2)) =>
     (t1 =? t2) && Nat.eqb (length c1) (length c2) && forallb (fun '(x, y) => vids_eqb x y) (combine c1 c2))
    (combine a b).
Definition tours_eqb (a b : sobs) : bool :=
  Nat.eqb (length (so_vehicles a)) (length (so_vehicles b)) &&
  forallb (fun '((v1, t1, r1), (v2, t2, r2)) => vid_eqb v1 v2 && (t1 =? t2) && nids_eqb (t_nodes r1) (t_nodes r2))
          (combine (so_vehicles a) (so_vehicles b)).
Definition activities_eqb (a b : sobs) : bool :=
  Nat.eqb (length (so_vehicles a)) (length (so_vehicles b)) &&
  forallb (fun '((v1, t1, r1), (v2, t2, r2)) =>
     vid_eqb v1 v2 && (t1 =? t2) && nids_eqb (non_depots r1) (non_depots r2) &&
     nid_eqb (first_node r1) (first_node r2))
          (combine (so_vehicles a) (so_vehicles b)).
Definition forms_eqb (a b : sobs) : bool :=
  Nat.eqb (length (so_forms a)) (length (so_forms b)) &&
  forallb (fun '((n1, f1), (n2, f2)) => nid_eqb n1 n2 && vids_eqb f1 f2) (combine (so_forms a) (so_forms b)).

(* successor in the cycles of [o] *)
Definition succ_in (o : sobs) (v : vehicle_id) : option vehicle_id :=
  match find (fun '(a, _) => vid_eqb a v) (flat_map (fun '(_, (_, _, cycles)) => flat_map (fun '(l, _) => cyclic_pairs l) cycles) (so_trans o)) with
  | Some (_, b) => Some b | None => None end.

(* final = reassign_end_depots_consistent_with_transitions (opt):
   1001x codes: 1601 cycles of final differ from the optimiser's; 1602 activities/start depots differ from
   the local-search result; 1603 an end depot is not the depot where the successor (in the optimiser's cycles)
   starts; 1604 opt does not carry the local-search tours; 1605 formations changed after the search *)
Definition check_wiring (ls opt final : sobs) : list Z :=
  (if cycles_eqb (cycles_of final) (cycles_of opt) then [] else [1601]) ++
  (if activities_eqb final ls && forms_eqb final ls then [] else [1602]) ++
  (if forallb (fun '(v, _, t) =>
        match succ_in opt v with
        | Some nx =>
            match tour_of_real final nx with
            | Some tn => get_depot_idx nw (last_node t) =? get_depot_idx nw (first_node tn)
            | None => false end
        | None => false end) (so_vehicles final) then [] else [1603]) ++
  (if tours_eqb opt ls && forms_eqb opt ls then [] else [1604]).

(* start = improve_depots(mcf): activities and formations unchanged; ls steps keep ... (C08 handles order) *)
Definition check_start (mcf start : sobs) : list Z :=
  if Nat.eqb (length (so_vehicles mcf)) (length (so_vehicles start)) &&
     forallb (fun '((v1, t1, r1), (v2, t2, r2)) => vid_eqb v1 v2 && (t1 =? t2) && nids_eqb (non_depots r1) (non_depots r2))
             (combine (so_vehicles mcf) (so_vehicles start)) && forms_eqb mcf start
  then [] else [1611].
End Snap.
