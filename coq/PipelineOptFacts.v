(* PipelineOptFacts.v — proofs of the statements of PipelineOptStmts.v: the solve pipeline with the transition
   optimisation as a function (TOpt.v) instead of an oracle.  All statements are proved exactly as given:
     optimised_trans_valid, optimised_not_worse, pipeline_result_opt_is_pipeline_result, optimise_all_total   (forall nw)
     end_to_end_opt, pipeline_opt_never_crashes_loaded                                                        (closed)

   What the optimiser needs of the search result [ls] (TInv of every stored transition over the type's vehicles w.r.t.
   the schedule's tours, every listed vehicle has a tour, the keys of s_trans are the type ids) only depends on [ls]
   being a history without a fit_reassign between a tour and itself ([dreachable], SchedListFacts.v) — valid Path
   arguments are not needed.  The local search stays inside these histories on EVERY network ([ls_path_dreachable]: the
   proof of SwapsFacts2.apply_cand_wreachable without its valid-Path obligations), which is why statement 3 holds without
   [net_ok_b nw = true] / [maint_listed_ok nw]. *)
From Coq Require Import Permutation.
From RS Require Import Base BaseFacts Network NetSpec NetFacts LoadStmts LoadFacts Tour TourStmts SchedObs Output.
From RS Require Import Transition TransSpec TransStmts Schedule SchedInv SchedStruct SchedCostsFacts SchedListFacts.
From RS Require Import SchedTransFacts Swaps SwapsStmts SwapsFacts SwapsStmts2 SwapsFacts2 PipelineSched PipelineSchedFacts.
From RS Require Import Render RenderStmts RenderFacts4 EndToEndStmts EndToEndFacts NoPanicStmts NoPanicFactsA.
From RS Require Import PipelineTotalStmts PipelineTotalFacts LocalSearch TOpt TOptStmts TOptFacts TOptStmts2 TOptFacts2.
From RS Require Import TOptFacts3 PipelineOptStmts.
Local Open Scope Z_scope.

(** * 1. association lists *)
Lemma po_zget_cons {A} k k' (x : A) l : zget k ((k', x) :: l) = if k =? k' then Some x else zget k l.
Proof. reflexivity. Qed.

Lemma po_zget_in_keys {A} k (l : list (Z * A)) x : zget k l = Some x -> In k (map fst l).
Proof.
  induction l as [|[k' y] l IH]; intros H; [discriminate H|].
  rewrite po_zget_cons in H. cbn [map fst In].
  destruct (Z.eqb_spec k k') as [->|N]; [now left|right; auto].
Qed.

Lemma po_zget_of_in {A} k (x : A) l : NoDup (map fst l) -> In (k, x) l -> zget k l = Some x.
Proof.
  induction l as [|[k' y] l IH]; intros ND Hin; [destruct Hin|].
  cbn [map fst] in ND. inversion ND as [|a b Hn ND']; subst.
  rewrite po_zget_cons. destruct Hin as [Q|Hin].
  - inversion Q; subst. now rewrite Z.eqb_refl.
  - destruct (Z.eqb_spec k k') as [->|N]; [|auto].
    exfalso. apply Hn. change k' with (fst (k', x)). now apply in_map.
Qed.

(** * 2. optimise_all: a mapM over the (type, transition) pairs that keeps the keys *)
Section OA.
Variable nw : network.
Variable tours : tours_fn.
Variable pick : list transition -> option transition.
Variable fuel cfuel : nat.

Definition oa_rel (a b : Z * transition) : Prop :=
  fst b = fst a /\ exists steps, topt_run nw tours pick fuel cfuel (snd a) = Ok (snd b, steps).

Lemma optimise_all_F2 l : forall out,
  optimise_all nw tours pick fuel cfuel l = Ok out -> Forall2 oa_rel l out.
Proof.
  unfold optimise_all. induction l as [|[ty t] l IH]; intros out H; cbn [mapM] in H.
  - inversion H; subst. constructor.
  - monE H E1. monE H E2. inversion H; subst out; clear H.
    constructor; [|apply IH; reflexivity].
    destruct (topt_run nw tours pick fuel cfuel t) as [[r steps]| | |] eqn:E3; cbn [bind] in E1; try discriminate E1.
    inversion E1; subst; clear E1.
    split; [reflexivity|]. exists steps. exact E3.
Qed.

Lemma oa_keys l out : Forall2 oa_rel l out -> map fst out = map fst l.
Proof.
  intros F. induction F as [|a b l out [Hk _] F IH]; [reflexivity|].
  cbn [map]. now rewrite Hk, IH.
Qed.

Lemma oa_zget l out : Forall2 oa_rel l out ->
  forall ty t', zget ty out = Some t' ->
    exists t steps, zget ty l = Some t /\ topt_run nw tours pick fuel cfuel t = Ok (t', steps).
Proof.
  intros F. induction F as [|[k t] [k' r] l out [Hk (steps & Hr)] F IH]; intros ty t' G; [discriminate G|].
  cbn [fst snd] in Hk, Hr. subst k'.
  rewrite po_zget_cons in G. rewrite po_zget_cons.
  destruct (ty =? k).
  - inversion G; subst r. exists t, steps. split; [reflexivity|exact Hr].
  - apply IH. exact G.
Qed.
End OA.

(** * 3. the local search never leaves the histories without self-fits, on any network *)
Section D.
Variable nw : network.
Notation dreach := (dreachable nw).

Lemma dreach_step s s' : dreach s -> dstep nw s s' -> dreach s'.
Proof. intros R H. eapply dr_step; eauto. Qed.

Lemma improve_and_recompute_dreach s ch s' :
  dreach s -> improve_and_recompute nw s ch = Ok s' -> dreach s'.
Proof.
  intros R H. unfold improve_and_recompute in H.
  mon H. mon H. mon H.
  eapply dreach_step; [|eapply ds_recompute; exact H].
  eapply dreach_step; [exact R|eapply ds_improve; eassumption].
Qed.

Lemma improve_and_recompute_noerr_dreach s ch s' :
  dreach s ->
  match improve_and_recompute nw s ch with Err => Panic | x => x end = Ok s' -> dreach s'.
Proof.
  intros R H. destruct (improve_and_recompute nw s ch) eqn:E; try discriminate H.
  inversion H; subst. eapply improve_and_recompute_dreach; eassumption.
Qed.

Lemma path_exchange_dreach s seg p r s' :
  dreach s -> path_exchange nw s seg p r = Ok s' -> dreach s'.
Proof.
  intros R H. unfold path_exchange in H.
  monp H. rename s0 into first, o into newd.
  assert (R1 : dreach first) by (eapply dreach_step; [exact R|eapply ds_override; eassumption]).
  monp H. rename s0 into second, l into changed.
  assert (R2 : dreach second).
  { destruct newd as [d|].
    - destruct (is_vehicle_or_dummy first p).
      + mon E0. mon E0. inversion E0; subst.
        eapply dreach_step; [exact R1|]. eapply ds_fit; [|eassumption].
        eapply override_newd_fresh; [|exact E]. now apply dreachable_reachable.
      + destruct (is_vehicle s p).
        * mon E0. monp E0. inversion E0; subst.
          eapply dreach_step; [exact R1|eapply ds_spawn_dummy; eassumption].
        * inversion E0; subst. exact R1.
    - inversion E0; subst. exact R1. }
  eapply improve_and_recompute_noerr_dreach; eassumption.
Qed.

Lemma spawn_vehicle_for_maintenance_dreach s m v s' :
  dreach s -> spawn_vehicle_for_maintenance nw s m v = Ok s' -> dreach s'.
Proof.
  intros R H. unfold spawn_vehicle_for_maintenance in H.
  mon H. destruct (t_vm a); [discriminate H|].
  mon H.
  mon H. monp H. rename s0 into s1, l into ch1.
  assert (R1 : dreach s1).
  { destruct (track_count nw m <=? Z.of_nat (length a0)).
    - mon E2. mon E2. inversion E2; subst.
      eapply dreach_step; [exact R|eapply ds_remove_segment; eassumption].
    - inversion E2; subst. exact R. }
  monp H. rename s0 into s2, o into conflict.
  assert (R2 : dreach s2) by (eapply dreach_step; [exact R1|eapply ds_add_path; eassumption]).
  monp H. rename s0 into s3, l into ch3.
  assert (R3 : dreach s3).
  { destruct conflict as [path|].
    - monp E4. inversion E4; subst.
      eapply dreach_step; [exact R2|eapply ds_spawn; eassumption].
    - inversion E4; subst. exact R2. }
  eapply improve_and_recompute_noerr_dreach; eassumption.
Qed.

Lemma add_trip_for_hitch_hiking_dreach s n v s' :
  dreach s -> add_trip_for_hitch_hiking nw s n v = Ok s' -> dreach s'.
Proof.
  intros R H. unfold add_trip_for_hitch_hiking in H.
  mon H.
  destruct (match maximal_formation_count_for nw n with
            | Some l => l <=? Z.of_nat (length a) | None => false end); [discriminate H|].
  monp H. rename s0 into s1.
  assert (R1 : dreach s1) by (eapply dreach_step; [exact R|eapply ds_add_path; eassumption]).
  destruct o; [discriminate H|].
  eapply improve_and_recompute_noerr_dreach; eassumption.
Qed.

Lemma apply_cand_dreachable s c s' : dreach s -> apply_cand nw s c = Ok s' -> dreach s'.
Proof.
  intros R H. destruct c; cbn [apply_cand] in H.
  - eapply spawn_vehicle_for_maintenance_dreach; eassumption.
  - eapply path_exchange_dreach; eassumption.
  - eapply add_trip_for_hitch_hiking_dreach; eassumption.
  - unfold remove_single_node in H. eapply dreach_step; [exact R|eapply ds_remove_segment; eassumption].
Qed.

Lemma neighbors_dreachable s l : dreach s -> neighbors nw s = Ok l -> forall c s', In (c, s') l -> dreach s'.
Proof.
  intros R H c s' Hin.
  destruct (neighbors_are_applications nw s l H) as (cs & _ & Hcs).
  destruct (Hcs c s' Hin) as [_ Ha].
  eapply apply_cand_dreachable; eassumption.
Qed.

Lemma ls_path_dreachable s s' : dreach s -> ls_path nw s s' -> dreach s'.
Proof.
  intros R P. induction P as [s|s l c s1 s2 Hn Hin P IH]; [exact R|].
  apply IH. eapply neighbors_dreachable; eassumption.
Qed.

Lemma pipeline_dreachable tours s0 s1 ls :
  tours_are_paths nw tours -> from_tours nw tours = Ok s0 -> improve_depots nw s0 None = Ok s1 -> ls_path nw s1 ls ->
  dreach ls.
Proof.
  intros TP F I1 LP.
  eapply ls_path_dreachable; [|exact LP].
  eapply dreach_step; [|eapply ds_improve; exact I1].
  apply wreachable_dreachable. eapply from_tours_wreachable; eauto.
Qed.
End D.

(** * 4. what a history without self-fits gives about the stored transitions *)
Section W.
Variable nw : network.

Lemma dreachable_trans_keys ls : dreachable nw ls -> map fst (s_trans ls) = type_ids nw.
Proof. intros RD. apply (reachable_trans_keys nw ls). now apply dreachable_reachable. Qed.

Lemma dreachable_trans_inv ls : dreachable nw ls ->
  forall ty t, zget ty (s_trans ls) = Some t -> TInv nw (tfn nw (s_tours ls)) (vehicles_iter ls ty) t.
Proof.
  intros RD ty t G.
  pose proof (dreachable_trans_keys ls RD) as TK.
  assert (Hty : In ty (type_ids nw)) by (rewrite <- TK; eapply po_zget_in_keys; exact G).
  destruct (reachable_trans_under_distinct nw ls RD ty Hty) as (tr & G' & I).
  rewrite G in G'. inversion G'; subst tr. exact I.
Qed.

Lemma dreachable_tours_total ls ty : dreachable nw ls ->
  tours_total (tfn nw (s_tours ls)) (vehicles_iter ls ty).
Proof.
  intros RD v Hv.
  pose proof (reachable_listing_under_distinct nw ls RD) as LO.
  apply (lo_ids nw ls LO) in Hv.
  apply vget_in_keys in Hv. apply (lo_same_keys nw ls LO) in Hv.
  unfold keys in Hv. apply vget_some_iff in Hv. destruct Hv as [t Gt].
  unfold tfn. rewrite Gt. discriminate.
Qed.

(** ** statements 1 and 2, for histories without self-fits *)
Lemma optimised_trans_valid_d pick fuel cfuel ls trans :
  pick_ok transition topt_obj pick -> dreachable nw ls -> optimised nw pick fuel cfuel ls trans ->
  trans_valid nw ls trans.
Proof.
  intros PK RD O. unfold optimised in O.
  pose proof (optimise_all_F2 _ _ _ _ _ _ _ O) as F.
  split.
  - rewrite (oa_keys _ _ _ _ _ _ _ F). now apply dreachable_trans_keys.
  - intros ty r G.
    destruct (oa_zget _ _ _ _ _ _ _ F ty r G) as (t & steps & Gt & Hr).
    pose proof (dreachable_trans_inv ls RD ty t Gt) as I.
    pose proof (dreachable_tours_total ls ty RD) as TT.
    destruct (topt_run_valid nw (tfn nw (s_tours ls)) pick PK (vehicles_iter ls ty) fuel cfuel t r steps I TT Hr)
      as ((m' & P & I') & _).
    eapply TOptFacts.TInv_perm; [apply Permutation_sym; exact P|exact I'].
Qed.

Lemma optimised_not_worse_d pick fuel cfuel ls trans :
  pick_ok transition topt_obj pick -> dreachable nw ls -> optimised nw pick fuel cfuel ls trans ->
  forall ty t t', zget ty (s_trans ls) = Some t -> zget ty trans = Some t' ->
    lex_le (topt_obj t') (topt_obj t) = true.
Proof.
  intros PK RD O ty t t' Gt Gt'. unfold optimised in O.
  pose proof (optimise_all_F2 _ _ _ _ _ _ _ O) as F.
  destruct (oa_zget _ _ _ _ _ _ _ F ty t' Gt') as (t0 & steps & Gt0 & Hr).
  rewrite Gt in Gt0. inversion Gt0; subst t0; clear Gt0.
  pose proof (dreachable_trans_inv ls RD ty t Gt) as I.
  pose proof (dreachable_tours_total ls ty RD) as TT.
  destruct (topt_run_valid nw (tfn nw (s_tours ls)) pick PK (vehicles_iter ls ty) fuel cfuel t t' steps I TT Hr)
    as (_ & LE & _).
  exact LE.
Qed.

(** ** optimise_all_total: the maximum of the finitely many fuel bounds *)
Lemma optimise_all_total_list D tours (l : list (Z * transition)) :
  transfers_bounded nw D ->
  (forall ty t, In (ty, t) l -> exists m, TInv nw tours m t /\ tours_total tours m) ->
  exists N C, forall fuel cfuel, (N <= fuel)%nat -> (C <= cfuel)%nat ->
    forall pick, pick_ok transition topt_obj pick ->
      exists out, optimise_all nw tours pick fuel cfuel l = Ok out.
Proof.
  intros TB. induction l as [|[ty t] l IH]; intros H.
  - exists O, O. intros fuel cfuel _ _ pick _. exists []. reflexivity.
  - destruct (H ty t (or_introl eq_refl)) as (m & I & TT).
    destruct (topt_run_total nw tours D m t TB I TT) as (N1 & C1 & H1).
    destruct IH as (N2 & C2 & H2); [intros ty' t' Hin; apply (H ty' t'); now right|].
    exists (Nat.max N1 N2), (Nat.max C1 C2). intros fuel cfuel HN HC pick PK.
    destruct (H1 fuel cfuel) with (pick := pick) as (r & steps & Hr); [lia|lia|exact PK|].
    destruct (H2 fuel cfuel) with (pick := pick) as (out & Ho); [lia|lia|exact PK|].
    exists ((ty, r) :: out). unfold optimise_all in *. cbn [mapM].
    rewrite Hr. cbn [bind]. rewrite Ho. cbn [bind]. reflexivity.
Qed.

Lemma optimise_all_total_d D ls : transfers_bounded nw D -> dreachable nw ls ->
  exists N C, forall fuel cfuel, (N <= fuel)%nat -> (C <= cfuel)%nat ->
    forall pick, pick_ok transition topt_obj pick -> exists trans, optimised nw pick fuel cfuel ls trans.
Proof.
  intros TB RD. unfold optimised.
  destruct (optimise_all_total_list D (tfn nw (s_tours ls)) (s_trans ls) TB) as (N & C & H).
  - intros ty t Hin. exists (vehicles_iter ls ty). split; [|now apply dreachable_tours_total].
    apply dreachable_trans_inv; [exact RD|].
    apply po_zget_of_in; [|exact Hin].
    rewrite (dreachable_trans_keys ls RD). apply type_ids_nodup.
  - exists N, C. exact H.
Qed.
End W.

(** * 5. the theorems under the names of the statements *)
Theorem optimised_trans_valid : forall nw, stmt_optimised_trans_valid nw.
Proof.
  intros nw pick fuel cfuel ls trans PK W O.
  exact (optimised_trans_valid_d nw pick fuel cfuel ls trans PK (wreachable_dreachable nw ls W) O).
Qed.

Theorem optimised_not_worse : forall nw, stmt_optimised_not_worse nw.
Proof.
  intros nw pick fuel cfuel ls trans PK W O.
  exact (optimised_not_worse_d nw pick fuel cfuel ls trans PK (wreachable_dreachable nw ls W) O).
Qed.

Theorem pipeline_result_opt_is_pipeline_result : forall nw, stmt_pipeline_result_opt_is_pipeline_result nw.
Proof.
  intros nw tours final TP (s0 & s1 & ls & pick & fuel & cfuel & trans & F & I1 & LP & PK & O & C).
  exists s0, s1, ls, trans.
  split; [exact F|]. split; [exact I1|]. split; [exact LP|]. split; [|exact C].
  eapply optimised_trans_valid_d; [exact PK| |exact O].
  eapply pipeline_dreachable; eauto.
Qed.

Theorem optimise_all_total : forall nw, stmt_optimise_all_total nw.
Proof.
  intros nw D ls TB W. exact (optimise_all_total_d nw D ls TB (wreachable_dreachable nw ls W)).
Qed.

(** * 6. end to end *)
Theorem end_to_end_opt : stmt_end_to_end_opt.
Proof.
  intros i perm nw V U PO LD tours final TP TK PR.
  apply (end_to_end_perm_ok i perm nw V U PO LD tours final TP TK).
  exact (pipeline_result_opt_is_pipeline_result nw tours final TP PR).
Qed.

Theorem pipeline_opt_never_crashes_loaded : stmt_pipeline_opt_never_crashes_loaded.
Proof.
  intros i perm nw V U PC PO LD DHN tours TP TK TT TL FF.
  destruct (pipeline_never_crashes_loaded i perm nw V U PC PO LD tours TP TK TT TL FF) as (s0 & s1 & E0 & E1 & H).
  exists s0, s1. split; [exact E0|]. split; [exact E1|].
  intros ls LP. destruct (H ls LP) as [NC FS]. split; [exact NC|].
  pose proof (pipeline_dreachable nw tours s0 s1 ls TP E0 E1 LP) as RD.
  destruct (transfers_bounded_thm nw DHN) as [D TB].
  destruct (optimise_all_total_d nw D ls TB RD) as (N & C & HT).
  exists N, C. intros fuel cfuel HN HC pick PK.
  destruct (HT fuel cfuel HN HC pick PK) as [trans O].
  pose proof (optimised_trans_valid_d nw pick fuel cfuel ls trans PK RD O) as TV.
  destruct (FS trans TV) as (final & out & C1 & RE).
  exists trans, final, out. split; [exact O|]. split; [exact C1|exact RE].
Qed.

Print Assumptions optimised_trans_valid.
Print Assumptions optimised_not_worse.
Print Assumptions pipeline_result_opt_is_pipeline_result.
Print Assumptions optimise_all_total.
Print Assumptions end_to_end_opt.
Print Assumptions pipeline_opt_never_crashes_loaded.
