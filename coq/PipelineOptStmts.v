(* PipelineOptStmts.v — the solve pipeline with the transition optimisation as a FUNCTION (TOpt.v) instead of an oracle:
   the only remaining oracles are the flow solver (its tours are hypotheses, certified per run: C14) and the two [pick]
   functions of the parallel minimisers (bound by the min_by contract). Proofs in PipelineOptFacts.v. *)
From Coq Require Import Permutation.
From RS Require Import Base Network NetSpec LoadStmts LoadFacts Tour TourStmts SchedObs Output Transition TransSpec TransStmts
  Schedule SchedInv SchedStruct Swaps SwapsStmts2 PipelineSched Render RenderStmts EndToEndStmts NoPanicStmts
  NoPanicFactsA PipelineTotalStmts LocalSearch TOpt TOptStmts2.

Section PO.
Variable nw : network.

(* solve_instance: for every type, the transition of the search result is optimised against the tours of the search
   result; the results replace the transitions *)
Definition optimised (pick : list transition -> option transition) (fuel cfuel : nat) (ls : schedule)
  (trans : list (Z * transition)) : Prop :=
  optimise_all nw (tfn nw (s_tours ls)) pick fuel cfuel (s_trans ls) = Ok trans.

(* 1. what the modelled optimiser hands back is what the pipeline theorems assume of the optimiser (C15, C16) *)
Definition stmt_optimised_trans_valid : Prop :=
  forall pick fuel cfuel ls trans,
    pick_ok transition topt_obj pick ->
    wreachable nw ls -> optimised pick fuel cfuel ls trans -> trans_valid nw ls trans.

(* 2. ... and it is not worse, type by type *)
Definition stmt_optimised_not_worse : Prop :=
  forall pick fuel cfuel ls trans,
    pick_ok transition topt_obj pick ->
    wreachable nw ls -> optimised pick fuel cfuel ls trans ->
    forall ty t t', zget ty (s_trans ls) = Some t -> zget ty trans = Some t' ->
      lex_le (topt_obj t') (topt_obj t) = true.

(* the pipeline with the modelled optimiser *)
Definition pipeline_result_opt (tours : list (Z * list node_id)) (final : schedule) : Prop :=
  exists s0 s1 ls pick fuel cfuel trans,
    from_tours nw tours = Ok s0 /\ improve_depots nw s0 None = Ok s1 /\ ls_path nw s1 ls /\
    pick_ok transition topt_obj pick /\ optimised pick fuel cfuel ls trans /\
    reassign_end_depots_consistent nw (set_next_day_transitions ls trans) = Ok final.

(* 3. it is an instance of the pipeline of PipelineSched.v, so every theorem about [pipeline_result] applies *)
Definition stmt_pipeline_result_opt_is_pipeline_result : Prop :=
  forall tours final, tours_are_paths nw tours -> pipeline_result_opt tours final -> pipeline_result nw tours final.

(* 4. C06: with enough fuel the optimisation stage returns for every search result, whatever the minimiser picks *)
Definition stmt_optimise_all_total : Prop :=
  forall D ls, transfers_bounded nw D -> wreachable nw ls ->
    exists N C, forall fuel cfuel, (N <= fuel)%nat -> (C <= cfuel)%nat ->
      forall pick, pick_ok transition topt_obj pick -> exists trans, optimised pick fuel cfuel ls trans.
End PO.

(** END TO END with the optimiser inside the model *)
Definition stmt_end_to_end_opt : Prop :=
  forall i perm nw,
    valid_instance_b i = true -> inst_unsigned i -> perm_ok i perm -> load i perm = Ok nw ->
    forall tours final,
      tours_are_paths nw tours -> tours_known nw tours -> pipeline_result_opt nw tours final ->
      exists out, render nw final = Ok out /\
        check_C01 nw out = [] /\ check_C02 nw out = [] /\ check_C03 nw out = [] /\
        check_C04 nw out = [] /\ check_C05 nw out = [].

(* C06: the whole modelled pipeline returns an answer — no oracle left between the start tours and the JSON except the
   picks: for a start solution as in PipelineTotalStmts there are fuel bounds such that for every trajectory of the
   search and every pick of the optimiser the final stages succeed and the result renders *)
Definition stmt_pipeline_opt_never_crashes_loaded : Prop :=
  forall i perm nw,
    valid_instance_b i = true -> inst_unsigned i -> params_costs_nonneg (i_params i) -> perm_ok i perm ->
    load i perm = Ok nw -> dh_dists_nonneg_b nw = true ->
    forall tours, tours_are_paths nw tours -> tours_known nw tours -> tours_typed nw tours ->
      tours_within_limits nw tours -> fleet_fits_overflow nw tours ->
      exists s0 s1, from_tours nw tours = Ok s0 /\ improve_depots nw s0 None = Ok s1 /\
        forall ls, ls_path nw s1 ls ->
          no_crash (neighbors nw ls) /\
          exists N C, forall fuel cfuel, (N <= fuel)%nat -> (C <= cfuel)%nat ->
            forall pick, pick_ok transition topt_obj pick ->
              exists trans final out,
                optimised nw pick fuel cfuel ls trans /\
                reassign_end_depots_consistent nw (set_next_day_transitions ls trans) = Ok final /\
                render nw final = Ok out.
