(* PipelineSched.v — the solve pipeline at the level of the functional schedule model: the start schedule is
   Schedule::from_tours of the decoded flow tours (empty + one spawn per tour), then improve_depots(None), a
   local-search trajectory (each step one of the enumerated neighbours), the optimised rotation cycles put in by
   set_next_day_transitions, and the final end-depot alignment. Statements; proofs in PipelineSchedFacts.v. *)
From RS Require Import Base Network NetSpec Tour TourStmts Transition TransSpec Schedule SchedInv SchedStruct
  SchedListFacts Swaps SwapsStmts2.

Section PS.
Variable nw : network.

(* Schedule::from_tours (the (type, tour) pairs in the order in which the code's HashMap yields the types);
   a failing spawn is an unwrap panic *)
Definition from_tours (tours : list (Z * list node_id)) : res schedule :=
  fold_left (fun acc '(ty, path) =>
               do s <- acc;
               match spawn_vehicle_for_path nw s ty path with Ok (s', _) => Ok s' | OutOfFuel => OutOfFuel | _ => Panic end)
            tours (empty_schedule nw).

(* a trajectory of the local search: every step moves to one of the enumerated neighbours *)
Inductive ls_path : schedule -> schedule -> Prop :=
| lp_refl s : ls_path s s
| lp_step s l c s1 s2 : neighbors nw s = Ok l -> In (c, s1) l -> ls_path s1 s2 -> ls_path s s2.

(* what the transition optimiser hands back (C15): for every type a transition over exactly the type's vehicles
   whose bookkeeping is exact w.r.t. the schedule's tours *)
Definition trans_valid (s : schedule) (trans : list (Z * transition)) : Prop :=
  map fst trans = type_ids nw /\
  forall ty tr, zget ty trans = Some tr -> TInv nw (tfn nw (s_tours s)) (vehicles_iter s ty) tr.

Definition pipeline_result (tours : list (Z * list node_id)) (final : schedule) : Prop :=
  exists s0 s1 ls trans,
    from_tours tours = Ok s0 /\ improve_depots nw s0 None = Ok s1 /\ ls_path s1 ls /\ trans_valid ls trans /\
    reassign_end_depots_consistent nw (set_next_day_transitions ls trans) = Ok final.

(* C05 on the final schedule: every vehicle ends in the depot where its successor in the final rotation cycles starts *)
Definition TransAligned (s : schedule) : Prop :=
  forall v ty tr nx t tn,
    vget v (s_vehicles s) = Some ty -> zget ty (s_trans s) = Some tr -> get_successor_of tr v = Ok nx ->
    vget v (s_tours s) = Some t -> vget nx (s_tours s) = Some tn ->
    get_depot_idx nw (last_node t) = get_depot_idx nw (first_node tn).

(* the start schedule is a history of spawns with valid paths *)
Definition tours_are_paths (tours : list (Z * list node_id)) : Prop := forall ty p, In (ty, p) tours -> valid_path nw p.
Definition stmt_from_tours_wreachable : Prop :=
  forall tours s0, tours_are_paths tours -> from_tours tours = Ok s0 -> wreachable nw s0.

(* the local search never leaves the valid histories *)
Definition stmt_ls_path_wreachable : Prop :=
  net_ok_b nw = true -> maint_listed_ok nw ->
  forall s s', wreachable nw s -> ls_path s s' -> wreachable nw s'.

(* the returned schedule: valid itineraries (C01), formation and track limits (C02), truthful cached objective
   components (C04), exact listings and depot usage (C03 loads), cyclic alignment (C05) *)
Definition stmt_pipeline_valid : Prop :=
  net_ok_b nw = true -> maint_listed_ok nw -> NoDup (coverable_nodes nw) ->
  (forall n, In n (nw_maint nw) -> is_service (nd nw n) = false) ->
  forall tours final, tours_are_paths tours -> pipeline_result tours final ->
    ToursOK nw final /\ ListingOK nw final /\ FormLimitsOK nw final /\ UsageOK nw final /\
    ViolOK final /\ CostsOK nw final /\ UnservedOK nw final /\ TransAligned final.

(* C16: the final schedule has the optimiser's cycles (same vehicle lists per type, in the same order) and the
   local-search result's activities and start depots *)
Definition cycles_of_tr (t : transition) : list (list vehicle_id) := map fst (tr_cycles t).
Definition stmt_pipeline_product : Prop :=
  forall ls trans final,
    reachable nw ls -> trans_valid ls trans ->
    reassign_end_depots_consistent nw (set_next_day_transitions ls trans) = Ok final ->
    (forall ty tr, zget ty trans = Some tr ->
       exists tr', zget ty (s_trans final) = Some tr' /\ cycles_of_tr tr' = cycles_of_tr tr) /\
    s_vehicles final = s_vehicles ls /\ s_forms final = s_forms ls /\ s_dummies final = s_dummies ls /\
    (forall v t', vget v (s_tours final) = Some t' ->
       exists t, vget v (s_tours ls) = Some t /\ non_depots t' = non_depots t /\ first_node t' = first_node t).
End PS.
