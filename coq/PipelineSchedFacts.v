(* PipelineSchedFacts.v — proofs of the statements of PipelineSched.v (the solve pipeline at the level of the
   functional schedule model).

   Proved exactly as stated:
     from_tours_wreachable, ls_path_wreachable, pipeline_product.
   [stmt_pipeline_valid] needs one fact about the depot table of the network that [net_ok_b] does not contain:
   the end-depot node registered for depot d carries the depot index d ([depots_roundtrip], executable reading
   [depots_ok_b]; true of every network built by [load]).  Without it the last clause ([TransAligned]) is false:
   witness at the end of the file.
     pipeline_valid_under_depots : the statement with that one extra hypothesis
     load_depots_roundtrip       : every network returned by [load] satisfies it (no validity assumption needed)
     pipeline_valid_loaded       : hence [stmt_pipeline_valid nw] exactly as given for every loaded network
     pipeline_valid_partial      : the seven clauses other than TransAligned, exactly under the stated hypotheses
     pipeline_valid_refuted      : ~ (forall nw, stmt_pipeline_valid nw). *)
From Coq Require Import Sorted.
From RS Require Import Base BaseFacts Network NetSpec NetFacts Tour TourSpec TourStmts TourFacts TourValidFacts.
From RS Require Import Transition TransSpec Schedule SchedInv SchedObs SchedStruct SchedCostsFacts SchedUnservedFacts.
From RS Require Import SchedViolFacts SchedListFacts SchedToursFacts SchedFormLimFacts SchedUsageFacts.
From RS Require Import SchedFrameStmts SchedFrameFacts Swaps SwapsStmts SwapsFacts SwapsStmts2 SwapsFacts2 PipelineSched.
From RS Require Import LoadStmts LoadFacts.
Local Open Scope Z_scope.

(** * 1. from_tours: a history of spawns with valid Path arguments *)
Lemma from_tours_fold nw (tours : list (Z * list node_id)) : forall (acc : res schedule) s0,
  tours_are_paths nw tours ->
  (forall s, acc = Ok s -> wreachable nw s) ->
  fold_left (fun acc '(ty, path) =>
               do s <- acc;
               match spawn_vehicle_for_path nw s ty path with Ok (s', _) => Ok s' | OutOfFuel => OutOfFuel | _ => Panic end)
            tours acc = Ok s0 -> wreachable nw s0.
Proof.
  induction tours as [|[ty p] tours IH]; intros acc s0 TP Hacc H; cbn [fold_left] in H.
  - now apply Hacc.
  - eapply IH; [| |exact H].
    + intros ty' p' Hin. apply (TP ty' p'). now right.
    + intros s Hs. destruct acc as [s1| | |]; cbn [bind] in Hs; try discriminate Hs.
      destruct (spawn_vehicle_for_path nw s1 ty p) as [[s' v]| | |] eqn:E; try discriminate Hs.
      inversion Hs; subst s'; clear Hs.
      eapply wr_step; [apply Hacc; reflexivity|].
      eapply ws_spawn; [|exact E]. apply (TP ty p). now left.
Qed.

Theorem from_tours_wreachable : forall nw, stmt_from_tours_wreachable nw.
Proof.
  intros nw tours s0 TP H. unfold from_tours in H.
  eapply from_tours_fold; [exact TP| |exact H].
  intros s Hs. now apply wr_empty.
Qed.

(** * 2. the local search stays inside the valid histories *)
Theorem ls_path_wreachable : forall nw, stmt_ls_path_wreachable nw.
Proof.
  intros nw OK ML s s' R P. induction P as [s|s l c s1 s2 Hn Hin P IH]; [exact R|].
  apply IH. eapply neighbors_wreachable; eassumption.
Qed.

(** * 3. update_vehicle keeps the vehicle lists of all cycles and the lookup table *)
Definition tr_same (t t' : transition) : Prop :=
  tr_lookup t' = tr_lookup t /\ map fst (tr_cycles t') = map fst (tr_cycles t).

Lemma tr_same_refl t : tr_same t t.
Proof. split; reflexivity. Qed.
Lemma tr_same_trans a b c : tr_same a b -> tr_same b c -> tr_same a c.
Proof. intros [A1 A2] [B1 B2]. split; congruence. Qed.

Lemma set_nth_keeps_fst {A B} (l : list (A * B)) : forall k c x,
  nth_error l k = Some c -> map fst (set_nth k (fst c, x) l) = map fst l.
Proof.
  induction l as [|y l IH]; intros k c x H.
  - destruct k; discriminate H.
  - destruct k as [|k]; cbn [nth_error] in H; cbn [set_nth map].
    + inversion H; subst. reflexivity.
    + f_equal. eapply IH; eauto.
Qed.

Lemma update_vehicle_same nw t v newi upd old t' :
  update_vehicle nw t v newi upd old = Ok t' -> tr_same t t'.
Proof.
  unfold update_vehicle. intros H. mon H. mon H. mon H. mon H. inversion H; subst; clear H.
  apply SchedCostsFacts.unwrap_opt_ok in E1.
  split; cbn [with_cycle tr_lookup tr_cycles]; [reflexivity|].
  now apply set_nth_keeps_fst.
Qed.

(* the successor only reads the lookup table and the vehicle lists *)
Definition succ_of (lk : list (vehicle_id * nat)) (cyc : list (list vehicle_id)) (v : vehicle_id) : res vehicle_id :=
  do k <- unwrap_opt (lookup_get v lk);
  do l <- unwrap_opt (nth_error cyc k);
  do p <- unwrap_opt (index_of (vid_eqb v) l);
  unwrap_opt (nth_error l (Nat.modulo (p + 1) (length l))).

Lemma get_successor_succ_of t v : get_successor_of t v = succ_of (tr_lookup t) (map fst (tr_cycles t)) v.
Proof.
  unfold get_successor_of, succ_of.
  destruct (lookup_get v (tr_lookup t)) as [k|]; cbn [unwrap_opt bind]; [|reflexivity].
  rewrite nth_error_map. destruct (nth_error (tr_cycles t) k) as [c|]; cbn [option_map unwrap_opt bind]; reflexivity.
Qed.

Lemma tr_same_successor t t' v : tr_same t t' -> get_successor_of t' v = get_successor_of t v.
Proof. intros [A B]. rewrite !get_successor_succ_of, A, B. reflexivity. Qed.

(** the same, pointwise on a transitions map *)
Definition opt_same (a b : option transition) : Prop :=
  match a, b with Some t, Some t' => tr_same t t' | None, None => True | _, _ => False end.
Definition TRS (tr tr' : list (Z * transition)) : Prop := forall ty, opt_same (zget ty tr) (zget ty tr').

Lemma TRS_refl tr : TRS tr tr.
Proof. intros ty. unfold opt_same. destruct (zget ty tr); auto using tr_same_refl. Qed.

Lemma TRS_zset tr0 tr ty old new_t :
  TRS tr0 tr -> zget ty tr = Some old -> tr_same old new_t -> TRS tr0 (zset ty new_t tr).
Proof.
  intros H G S ty'. rewrite (zget_zset _ _ _ _ _ G). specialize (H ty').
  destruct (ty' =? ty) eqn:E; [|exact H].
  apply Z.eqb_eq in E. subst ty'. rewrite G in H. unfold opt_same in *.
  destruct (zget ty tr0); [|contradiction]. eapply tr_same_trans; eauto.
Qed.

(* with an unchanged vehicle map, every successful step of update_transitions is an update_vehicle *)
Lemma update_transitions_same nw s tr0 vi changed tours tr' vi' :
  update_transitions nw s tr0 vi changed (s_vehicles s) tours = Ok (tr', vi') -> TRS tr0 tr'.
Proof.
  intros H. unfold update_transitions in H.
  match type of H with bind ?x _ = _ => destruct x as [[[tr1 vi1] upd1]| | |] eqn:Hf end; cbn [bind] in H; try discriminate H.
  inversion H; subst tr1 vi1; clear H.
  set (P3 := fun a : list (Z * transition) * Z * list (vehicle_id * tour) => TRS tr0 (fst (fst a))).
  change (P3 (tr', vi', upd1)).
  eapply PR_ok; [|exact Hf].
  apply PR_fold; [|apply TRS_refl].
  clear. intros acc v Hacc.
  destruct acc as [[[tr vi] upd]| | |]; cbn [bind]; try exact I.
  destruct (negb (vid_is_real v)); [exact Hacc|].
  apply PR_bind; intros ty _.
  apply PR_bind; intros old Hold. apply SchedCostsFacts.unwrap_opt_ok in Hold.
  apply PR_bind; intros [new_t upd2] Hn.
  cbn [PR]. unfold P3; cbn [fst snd]. cbn [PR] in Hacc. unfold P3 in Hacc; cbn [fst] in Hacc.
  eapply TRS_zset; [exact Hacc | exact Hold |].
  unfold is_vehicle in Hn. destruct (vget v (s_vehicles s)); [|discriminate Hn].
  mon Hn. mon Hn. inversion Hn; subst. eapply update_vehicle_same; eauto.
Qed.

(** * 4. what reassign_end_depots_consistent does to ANY schedule with the key discipline *)
Section Core.
Variable nw : network.

Lemma consistent_core s final :
  reassign_end_depots_consistent nw s = Ok final ->
  TRS (s_trans s) (s_trans final) /\
  forall k, (In k (vehicles_iter_all nw s) -> exists nt, vget k (s_tours final) = Some nt /\ aligned nw s k nt) /\
            (~ In k (vehicles_iter_all nw s) -> vget k (s_tours final) = vget k (s_tours s)).
Proof.
  intros H. unfold reassign_end_depots_consistent in H.
  monp H. monp H. inversion H; subst; clear H. cbn [with_fields s_trans s_tours].
  split.
  - eapply update_transitions_same; eauto.
  - change (fold_left (cons_step nw s) (vehicles_iter_all nw s) (Ok (s_tours s, s_usage s, s_costs s)) = Ok (l, l0, z)) in E.
    eapply (foldf_get (cons_step nw s) (aligned nw s) (vehicles_iter_all nw s)); [| | apply incl_refl | exact E].
    + apply cons_step_strict.
    + intros tours u costs w x _ H. now apply consistent_step in H.
Qed.

(* an aligned tour: same activities, same start, end = the end-depot node of the depot where the successor starts *)
Lemma aligned_facts s v nt : real_vehicles s -> dummy_dummies s -> aligned nw s v nt ->
  exists t ty tr nx tn,
    vget v (s_tours s) = Some t /\ vget v (s_vehicles s) = Some ty /\ zget ty (s_trans s) = Some tr /\
    get_successor_of tr v = Ok nx /\ tour_of s nx = Ok tn /\ is_start_depot (nd nw (first_node tn)) = true /\
    non_depots nt = non_depots t /\ first_node nt = first_node t /\
    last_node nt = get_end_depot_node nw (get_depot_idx nw (first_node tn)).
Proof.
  intros RK DK (t & ty & tr & nx & tn & sdn & A1 & A2 & A3 & A4 & A5 & A6 & A7).
  apply tour_of_real in A1; auto; [|eapply RK; eauto].
  unfold start_depot in A6. destruct (is_start_depot (nd nw (first_node tn))) eqn:SD; inversion A6; subst sdn; clear A6.
  exists t, ty, tr, nx, tn. repeat (split; [assumption|]).
  split; [eapply red_non_depots; eauto|]. eapply red_first_last; eauto.
Qed.

(** ** C16 *)
Lemma Inv_set_next s trans : Inv nw s -> Inv nw (set_next_day_transitions s trans).
Proof. intros [T KL RK DK IO]. constructor; assumption. Qed.

Theorem pipeline_product_nw : stmt_pipeline_product nw.
Proof.
  intros ls trans final R [TK TV] H.
  apply SchedCostsFacts.reachable_inv in R.
  set (s := set_next_day_transitions ls trans) in *.
  assert (RK : real_vehicles s) by (apply (inv_real nw ls R)).
  assert (DK : dummy_dummies s) by (apply (inv_dummy nw ls R)).
  destruct (consistent_core s final H) as [TS TG].
  destruct (frame_consistent_under_keys nw s final RK DK H) as (A1 & A2 & A3 & _ & _ & _ & _ & _ & _).
  split; [|split; [exact A1|split; [exact A3|split; [exact A2|]]]].
  - intros ty tr G. specialize (TS ty). change (s_trans s) with trans in TS. rewrite G in TS. unfold opt_same in TS.
    destruct (zget ty (s_trans final)) as [tr'|]; [|contradiction].
    exists tr'. split; [reflexivity|]. unfold cycles_of_tr. apply TS.
  - intros v t' G. destruct (TG v) as [GA GB].
    destruct (in_dec vid_eq_dec v (vehicles_iter_all nw s)) as [I|I].
    + destruct (GA I) as (nt & Q & AL). rewrite Q in G. inversion G; subst t'; clear G.
      destruct (aligned_facts s v nt RK DK AL) as (t & ty & tr & nx & tn & B1 & _ & _ & _ & _ & _ & B7 & B8 & _).
      exists t. auto.
    + rewrite (GB I) in G. exists t'. auto.
Qed.
End Core.

Theorem pipeline_product : forall nw, stmt_pipeline_product nw.
Proof. exact pipeline_product_nw. Qed.

(** * 5. the depot table: the end-depot node registered for a depot carries that depot's index *)
Definition depots_roundtrip (nw : network) : Prop :=
  forall sd, is_start_depot (nd nw sd) = true ->
    get_depot_idx nw (get_end_depot_node nw (get_depot_idx nw sd)) = get_depot_idx nw sd.

(* executable reading: all depot indices carried by start-depot nodes (and 0, the index of the default node) *)
Definition start_depot_indices (nw : network) : list Z :=
  0 :: flat_map (fun '(_, n) => match n with NStart d => [dn_depot d] | _ => [] end) (nw_nodes nw).
Definition depots_ok_b (nw : network) : bool :=
  forallb (fun d => get_depot_idx nw (get_end_depot_node nw d) =? d) (start_depot_indices nw).

Lemma depots_ok_roundtrip nw : depots_ok_b nw = true -> depots_roundtrip nw.
Proof.
  intros H sd SD. unfold depots_ok_b in H. rewrite forallb_forall in H.
  apply Z.eqb_eq. apply H. clear H.
  unfold get_depot_idx, nd in *. unfold start_depot_indices.
  destruct (assoc nid_eqb sd (nw_nodes nw)) as [x|] eqn:A.
  - destruct x as [d| | |]; try discriminate SD. right.
    apply (assoc_in nid_eqb nid_eqb_eq) in A. apply in_flat_map. exists (sd, NStart d). split; [exact A|now left].
  - now left.
Qed.

(** every network built by [load] has such a depot table: depot k (the overflow depot last) has index k, nodes
    SD 2k / ED 2k+1 carrying index k, and the table maps k to them *)
Section LoadDepots.
Definition idx_from (s : nat) (deps : list depot) : Prop :=
  forall k d, nth_error deps k = Some d -> dp_idx d = Z.of_nat (s + k).

Lemma idx_from_cons s d deps : idx_from s (d :: deps) -> dp_idx d = Z.of_nat s /\ idx_from (S s) deps.
Proof.
  intros H. split.
  - rewrite (H 0%nat d eq_refl). f_equal. lia.
  - intros k x G. rewrite (H (S k) x G). f_equal. lia.
Qed.

Lemma idx_map_combine {B} (f : nat * B -> depot) (l : list B) :
  (forall k x, dp_idx (f (k, x)) = Z.of_nat k) -> forall s, idx_from s (map f (combine (seq s (length l)) l)).
Proof.
  intros Hf. induction l as [|x l IH]; intros s k d G.
  - destruct k; discriminate G.
  - cbn [length seq combine map] in G. destruct k as [|k]; cbn [nth_error] in G.
    + inversion G; subst d. rewrite Hf. f_equal. lia.
    + rewrite (IH (S s) k d G). f_equal. lia.
Qed.

Lemma idx_from_snoc l ov : idx_from 0 l -> dp_idx ov = Z.of_nat (length l) -> idx_from 0 (l ++ [ov]).
Proof.
  intros H E k d G. destruct (lt_dec k (length l)) as [L|L].
  - rewrite nth_error_app1 in G by exact L. now apply H.
  - rewrite nth_error_app2 in G by lia. destruct (k - length l)%nat as [|m] eqn:Q; cbn [nth_error] in G.
    + inversion G; subst d. rewrite E. f_equal. lia.
    + destruct m; discriminate G.
Qed.

Definition dn_of (s : nat) (deps : list depot) : list (depot * node_id * node_id) :=
  map (fun '(k, d) => (d, SD (2 * Z.of_nat k), ED (2 * Z.of_nat k + 1))) (combine (seq s (length deps)) deps).

Lemma dn_entry deps : forall s, idx_from s deps -> forall k d, nth_error deps k = Some d ->
  assoc Z.eqb (Z.of_nat (s + k)) (map (fun '(d, sn, en) => (dp_idx d, (d, sn, en))) (dn_of s deps))
    = Some (d, SD (2 * Z.of_nat (s + k)), ED (2 * Z.of_nat (s + k) + 1)) /\
  In (ED (2 * Z.of_nat (s + k) + 1), NEnd {| dn_depot := dp_idx d; dn_loc := dp_loc d |})
     (flat_map Ldentry_of (dn_of s deps)).
Proof.
  induction deps as [|d0 deps IH]; intros s IX k d G.
  - destruct k; discriminate G.
  - apply idx_from_cons in IX. destruct IX as [E0 IX].
    unfold dn_of. cbn [length seq combine map flat_map assoc Ldentry_of]. fold (dn_of (S s) deps).
    destruct k as [|k]; cbn [nth_error] in G.
    + inversion G; subst d0. rewrite Nat.add_0_r, E0, Z.eqb_refl. split; [reflexivity|]. right. now left.
    + destruct (Z.eqb_spec (Z.of_nat (s + S k)) (dp_idx d0)) as [Q|Q]; [rewrite E0 in Q; lia|].
      replace (s + S k)%nat with (S s + k)%nat by lia.
      destruct (IH (S s) IX k d G) as [A B]. split; [exact A|]. right. right. exact B.
Qed.

Lemma dn_start deps : forall s, idx_from s deps -> forall id dn, In (id, NStart dn) (flat_map Ldentry_of (dn_of s deps)) ->
  exists k d, nth_error deps k = Some d /\ dn_depot dn = Z.of_nat (s + k).
Proof.
  induction deps as [|d0 deps IH]; intros s IX id dn H.
  - destruct H.
  - apply idx_from_cons in IX. destruct IX as [E0 IX].
    unfold dn_of in H. cbn [length seq combine map flat_map Ldentry_of app] in H. fold (dn_of (S s) deps) in H.
    destruct H as [H|[H|H]].
    + inversion H; subst. exists 0%nat, d0. split; [reflexivity|]. cbn [dn_depot]. rewrite E0. f_equal. lia.
    + discriminate H.
    + destruct (IH (S s) IX id dn H) as (k & d & G & Q). exists (S k), d. split; [exact G|]. rewrite Q. f_equal. lia.
Qed.

Lemma make_depots_idx i perm x : idx_from 0 (make_depots i perm x).
Proof.
  unfold make_depots. destruct (i_depots i) as [ds|]; apply idx_map_combine; intros k y; reflexivity.
Qed.

Theorem load_depots_roundtrip : forall i perm nw, load i perm = Ok nw -> depots_roundtrip nw.
Proof.
  intros i perm nw H. rewrite load_eq in H.
  destruct (time_span i) as [[e0 l0]| | |]; cbn [bind] in H; try discriminate H.
  destruct (planning_of e0 l0) as [p0| | |]; cbn [bind] in H; try discriminate H.
  destruct (all_trips i) as [trips| | |]; cbn [bind] in H; try discriminate H.
  destruct (planning_of _ _) as [p1| | |]; cbn [bind] in H; try discriminate H.
  inversion H; subst nw; clear H.
  set (deps := Ldepots i perm trips).
  assert (IX : idx_from 0 deps).
  { unfold deps, Ldepots. apply idx_from_snoc; [apply make_depots_idx|]. reflexivity. }
  assert (NE : exists d0, nth_error deps 0 = Some d0).
  { unfold deps, Ldepots. destruct (Ldepots0 i perm trips) as [|a r]; cbn; eauto. }
  intros sd SD.
  assert (C1 : exists k d, nth_error deps k = Some d /\ get_depot_idx (Lnet i perm trips p0 p1) sd = Z.of_nat k).
  { unfold get_depot_idx, nd in *. cbn [nw_nodes Lnet] in *.
    destruct (assoc nid_eqb sd (Lnodes i perm trips)) as [n|] eqn:A.
    - destruct n as [dn| | |]; try discriminate SD.
      apply (assoc_in nid_eqb nid_eqb_eq) in A. unfold Lnodes in A.
      apply in_app_iff in A. destruct A as [A|A].
      + unfold Ldentries, Ldnodes in A. fold deps in A. fold (dn_of 0 deps) in A.
        destruct (dn_start deps 0 IX sd dn A) as (k & d & G & Q). exists k, d. split; [exact G|exact Q].
      + apply in_app_iff in A. destruct A as [A|A].
        * apply Lsvc_entries_in in A. destruct A as (x & Q & _). discriminate Q.
        * apply Lm_entries_in in A. destruct A as (x & Q & _). discriminate Q.
    - destruct NE as [d0 G]. exists 0%nat, d0. split; [exact G|reflexivity]. }
  destruct C1 as (k & d & Nk & ->).
  destruct (dn_entry deps 0 IX k d Nk) as [A B]. cbn [Nat.add] in A, B.
  unfold get_end_depot_node, depot_entry. cbn [nw_depots Lnet]. unfold Ldentry, Ldnodes. fold deps. fold (dn_of 0 deps).
  rewrite A.
  unfold get_depot_idx. erewrite Lnd.
  2:{ unfold Lnodes. apply in_app_iff. left. unfold Ldentries, Ldnodes. fold deps. fold (dn_of 0 deps). exact B. }
  cbn [dn_depot]. exact (IX k d Nk).
Qed.
End LoadDepots.

(** * 6. the returned schedule *)
Section Valid.
Variable nw : network.
Hypothesis OK : net_ok_b nw = true.
Hypothesis ML : maint_listed_ok nw.
Hypothesis ND : NoDup (coverable_nodes nw).
Hypothesis HM : forall n, In n (nw_maint nw) -> is_service (nd nw n) = false.

Lemma pipeline_ls_wreachable tours s0 s1 ls :
  tours_are_paths nw tours -> from_tours nw tours = Ok s0 -> improve_depots nw s0 None = Ok s1 -> ls_path nw s1 ls ->
  wreachable nw ls.
Proof.
  intros TP F I1 LP.
  eapply ls_path_wreachable; [exact OK | exact ML | | exact LP].
  eapply wr_step; [eapply from_tours_wreachable; eauto|]. eapply ws_improve; eauto.
Qed.

(* the seven invariants that do not depend on the depot table *)
Lemma final_invariants ls trans final :
  wreachable nw ls -> map fst trans = type_ids nw ->
  reassign_end_depots_consistent nw (set_next_day_transitions ls trans) = Ok final ->
  ToursOK nw final /\ ListingOK nw final /\ FormLimitsOK nw final /\ UsageOK nw final /\
  ViolOK final /\ CostsOK nw final /\ UnservedOK nw final.
Proof.
  intros W TK C.
  pose proof OK as OK'. unfold net_ok_b in OK'. apply andb_true_iff in OK'. destruct OK' as [WF DP].
  destruct (wreachable_sub nw ls W) as (RV & RD & RR).
  set (s := set_next_day_transitions ls trans) in *.
  assert (Is : Inv nw s) by (unfold s; apply Inv_set_next; now apply SchedCostsFacts.reachable_inv).
  assert (If : Inv nw final) by (exact (SchedCostsFacts.consistent_ok nw s final Is C)).
  assert (Ts : TIs nw s) by (exact (vreachable_T nw WF DP ls RV)).
  assert (Ls : LInv nw true s) by (exact (greachable_L nw true ls (dreachable_greachable nw ls RD))).
  assert (Lf : LInv nw true final) by (exact (SchedListFacts.consistent_L nw true s final Is Ls C)).
  assert (Fs : SFL nw s) by (exact (reachable_SFL nw ls RR)).
  assert (Us : US nw s) by (exact (reachable_us nw ls RR)).
  assert (Ss : SInv nw s) by (exact (SchedUnservedFacts.reachable_inv nw ND HM ls RR)).
  assert (Vs : ViolOK s).
  { split; cbn [s set_next_day_transitions with_fields s_trans s_viol]; [|reflexivity].
    rewrite TK. apply type_ids_nodup. }
  split; [|split; [|split; [|split; [|split; [|split]]]]].
  - apply TIs_ToursOK; auto. exact (SchedToursFacts.consistent_T nw s final Is Ts C).
  - apply L_full; auto. exact (L_weak nw true final If Lf).
  - exact (consistent_FL nw s final C Fs).
  - apply US_usage. exact (consistent_us nw s final Us C).
  - exact (PR_ok _ _ _ (SchedViolFacts.consistent_ok nw s Vs) C).
  - now apply Inv_costs.
  - apply SInv_UnservedOK. exact (SchedUnservedFacts.consistent_inv nw s final C Ss).
Qed.

(* C05 on the final schedule, given the depot table fact *)
Lemma final_aligned ls trans final :
  depots_roundtrip nw -> wreachable nw ls ->
  reassign_end_depots_consistent nw (set_next_day_transitions ls trans) = Ok final ->
  TransAligned nw final.
Proof.
  intros DR W C.
  destruct (wreachable_sub nw ls W) as (RV & RD & RR).
  set (s := set_next_day_transitions ls trans) in *.
  assert (Is : Inv nw s) by (unfold s; apply Inv_set_next; now apply SchedCostsFacts.reachable_inv).
  assert (RK : real_vehicles s) by (apply (inv_real nw s Is)).
  assert (DK : dummy_dummies s) by (apply (inv_dummy nw s Is)).
  assert (Ls : LInv nw true s) by (exact (greachable_L nw true ls (dreachable_greachable nw ls RD))).
  pose proof (L_weak nw true s Is Ls) as LW.
  destruct (consistent_core nw s final C) as [TS TG].
  destruct (frame_consistent_under_keys nw s final RK DK C) as (A1 & _).
  intros v ty tr nx t tn Gty Gtr Gnx Gt Gtn.
  rewrite A1 in Gty.
  pose proof (in_iter_all nw s v ty LW Gty) as Iv.
  destruct (proj1 (TG v) Iv) as (nt & Q & AL). rewrite Q in Gt. inversion Gt; subst t; clear Gt.
  destruct (aligned_facts nw s v nt RK DK AL) as (t0 & ty0 & tr0 & nx0 & tn0 & B1 & B2 & B3 & B4 & B5 & B6 & _ & _ & B9).
  rewrite Gty in B2. inversion B2; subst ty0; clear B2.
  (* the final transition of the type has the cycles and lookup table of the one given *)
  specialize (TS ty). rewrite B3, Gtr in TS. cbn [opt_same] in TS.
  rewrite (tr_same_successor _ _ v TS), B4 in Gnx. inversion Gnx; subst nx0; clear Gnx.
  (* the successor's final tour starts where its tour in s starts *)
  assert (F : first_node tn = first_node tn0).
  { destruct (TG nx) as [GA GB].
    destruct (in_dec vid_eq_dec nx (vehicles_iter_all nw s)) as [I|I].
    - destruct (GA I) as (ntn & Qn & ALn). rewrite Qn in Gtn. inversion Gtn; subst tn; clear Gtn.
      destruct (aligned_facts nw s nx ntn RK DK ALn) as (t1 & _ & _ & _ & _ & C1 & _ & _ & _ & _ & _ & _ & C8 & _).
      unfold tour_of in B5. rewrite C1 in B5. inversion B5; subst tn0. exact C8.
    - rewrite (GB I) in Gtn. unfold tour_of in B5. rewrite Gtn in B5. inversion B5; subst tn0. reflexivity. }
  rewrite B9, F. now apply DR.
Qed.

Theorem pipeline_valid_partial_nw :
  forall tours final, tours_are_paths nw tours -> pipeline_result nw tours final ->
    ToursOK nw final /\ ListingOK nw final /\ FormLimitsOK nw final /\ UsageOK nw final /\
    ViolOK final /\ CostsOK nw final /\ UnservedOK nw final.
Proof.
  intros tours final TP (s0 & s1 & ls & trans & F & I1 & LP & [TK TV] & C).
  eapply final_invariants; eauto. eapply pipeline_ls_wreachable; eauto.
Qed.

Theorem pipeline_valid_under_depots_nw :
  depots_roundtrip nw ->
  forall tours final, tours_are_paths nw tours -> pipeline_result nw tours final ->
    ToursOK nw final /\ ListingOK nw final /\ FormLimitsOK nw final /\ UsageOK nw final /\
    ViolOK final /\ CostsOK nw final /\ UnservedOK nw final /\ TransAligned nw final.
Proof.
  intros DR tours final TP PRs.
  destruct (pipeline_valid_partial_nw tours final TP PRs) as (P1 & P2 & P3 & P4 & P5 & P6 & P7).
  repeat (split; [assumption|]).
  destruct PRs as (s0 & s1 & ls & trans & F & I1 & LP & [TK TV] & C).
  eapply final_aligned; eauto. eapply pipeline_ls_wreachable; eauto.
Qed.
End Valid.

(** the statement of PipelineSched.v with the depot-table hypothesis added *)
Theorem pipeline_valid_under_depots : forall nw,
  depots_roundtrip nw ->
  net_ok_b nw = true -> maint_listed_ok nw -> NoDup (coverable_nodes nw) ->
  (forall n, In n (nw_maint nw) -> is_service (nd nw n) = false) ->
  forall tours final, tours_are_paths nw tours -> pipeline_result nw tours final ->
    ToursOK nw final /\ ListingOK nw final /\ FormLimitsOK nw final /\ UsageOK nw final /\
    ViolOK final /\ CostsOK nw final /\ UnservedOK nw final /\ TransAligned nw final.
Proof. intros nw DR OK ML ND HM. now apply pipeline_valid_under_depots_nw. Qed.

Corollary pipeline_valid_under_depots_b : forall nw, depots_ok_b nw = true -> stmt_pipeline_valid nw.
Proof. intros nw H. unfold stmt_pipeline_valid. apply pipeline_valid_under_depots. now apply depots_ok_roundtrip. Qed.

(** hence the statement exactly as given, for every network built by [load] *)
Theorem pipeline_valid_loaded : forall i perm nw, load i perm = Ok nw -> stmt_pipeline_valid nw.
Proof.
  intros i perm nw L. unfold stmt_pipeline_valid. apply pipeline_valid_under_depots.
  eapply load_depots_roundtrip; eauto.
Qed.

(** the seven clauses that do not speak of depots, exactly under the stated hypotheses *)
Theorem pipeline_valid_partial : forall nw,
  net_ok_b nw = true -> maint_listed_ok nw -> NoDup (coverable_nodes nw) ->
  (forall n, In n (nw_maint nw) -> is_service (nd nw n) = false) ->
  forall tours final, tours_are_paths nw tours -> pipeline_result nw tours final ->
    ToursOK nw final /\ ListingOK nw final /\ FormLimitsOK nw final /\ UsageOK nw final /\
    ViolOK final /\ CostsOK nw final /\ UnservedOK nw final.
Proof. intros nw OK ML ND HM. now apply pipeline_valid_partial_nw. Qed.

(** * 7. the statement as given is false: a network record that passes [net_ok_b] but whose depot table registers,
      for depot 0, the end-depot node of ANOTHER depot.
      [nwX] is the loaded network [nwF] of SchedFrameFacts.v (two back-to-back trips SV 4 -> SV 5 of type 0, depot 0 with
      nodes SD 0 / ED 1, overflow depot 1 with nodes SD 2 / ED 3) in which only [nw_depots] is altered: every depot's
      end node is ED 3.  [net_ok_b] does not read [nw_depots].  No network built by [load] has this shape.
      Run: from_tours [(0, [SV 4; SV 5])]; improve_depots None; no local-search step; the transitions of that
      schedule put back by set_next_day_transitions; reassign_end_depots_consistent.  The single vehicle Veh 0 is its own
      successor, starts in depot 0 (SD 0) and is sent to get_end_depot_node 0 = ED 3, a node of depot 1. *)
Definition nwX : network :=
  {| nw_nodes := nw_nodes nwF;
     nw_depots := map (fun '(d, (dp, s, _)) => (d, (dp, s, ED 3))) (nw_depots nwF);
     nw_overflow := nw_overflow nwF; nw_service := nw_service nwF; nw_maint := nw_maint nwF;
     nw_sdepots := nw_sdepots nwF; nw_edepots := nw_edepots nwF; nw_all_by_start := nw_all_by_start nwF;
     nw_type_by_start := nw_type_by_start nwF; nw_type_by_end := nw_type_by_end nwF; nw_params := nw_params nwF;
     nw_nlocs := nw_nlocs nwF; nw_dh := nw_dh nwF; nw_types := nw_types nwF; nw_nservice := nw_nservice nwF;
     nw_planning := nw_planning nwF |}.

Definition toursX : list (Z * list node_id) := [(0, [SV 4; SV 5])].
Definition sX0 : schedule := Eval vm_compute in get_ok (from_tours nwX toursX) s_dflt.
Definition sX1 : schedule := Eval vm_compute in get_ok (improve_depots nwX sX0 None) s_dflt.
Definition trX : transition :=
  {| tr_cycles := [([Veh 0], 2000)]; tr_viol := 2000; tr_count := 2000; tr_lookup := [(Veh 0, 0%nat)]; tr_empty := [] |}.
Definition sXf : schedule :=
  Eval vm_compute in get_ok (reassign_end_depots_consistent nwX (set_next_day_transitions sX1 [(0, trX)])) s_dflt.

Lemma nwX_ok : net_ok_b nwX = true.
Proof. vm_compute. reflexivity. Qed.
Lemma nwX_depots_not_ok : depots_ok_b nwX = false.
Proof. vm_compute. reflexivity. Qed.
Lemma nwF_depots_ok : depots_ok_b nwF = true /\ depots_ok_b nwC = true.
Proof. vm_compute. auto. Qed.
Lemma nwX_maint : maint_listed_ok nwX.
Proof. intros m Hm. vm_compute in Hm. destruct Hm. Qed.
Lemma nwX_nodup : NoDup (coverable_nodes nwX).
Proof.
  assert (E : coverable_nodes nwX = [SV 4; SV 5]) by (vm_compute; reflexivity). rewrite E.
  constructor; [intros [Q|[]]; discriminate Q|]. constructor; [intros []|constructor].
Qed.
Lemma nwX_maint_service : forall n, In n (nw_maint nwX) -> is_service (nd nwX n) = false.
Proof. intros n Hn. vm_compute in Hn. destruct Hn. Qed.

Lemma toursX_paths : tours_are_paths nwX toursX.
Proof.
  intros ty p [Q|[]]. inversion Q; subst; clear Q. split; [discriminate|]. split.
  - intros a b H. cbn [windows In] in H. destruct H as [H|[]]. inversion H; subst. vm_compute. reflexivity.
  - vm_compute. reflexivity.
Qed.

Lemma sX0_ok : from_tours nwX toursX = Ok sX0.
Proof. vm_compute. reflexivity. Qed.
Lemma sX1_ok : improve_depots nwX sX0 None = Ok sX1.
Proof. vm_compute. reflexivity. Qed.
Lemma sX1_trans : s_trans sX1 = [(0, trX)].
Proof. vm_compute. reflexivity. Qed.
Lemma sXf_ok : reassign_end_depots_consistent nwX (set_next_day_transitions sX1 [(0, trX)]) = Ok sXf.
Proof. vm_compute. reflexivity. Qed.

(* the transitions handed back are those of the schedule itself; their bookkeeping is exact *)
Lemma trX_inv : TInv nwX (tfn nwX (s_tours sX1)) (vehicles_iter sX1 0) trX.
Proof.
  assert (EI : vehicles_iter sX1 0 = [Veh 0]) by (vm_compute; reflexivity). rewrite EI.
  constructor.
  - unfold members_of. cbn. constructor; [intros []|constructor].
  - intros v. unfold members_of. cbn. tauto.
  - intros v k. unfold lookup_get. cbn [trX tr_lookup tr_cycles assoc]. split.
    + destruct (vid_eqb v (Veh 0)) eqn:E; [|discriminate]. apply vid_eqb_eq in E. subst v.
      intros H. inversion H; subst k. exists ([Veh 0], 2000). split; [reflexivity|now left].
    + intros (c & H & Hin). destruct k as [|[|k]]; cbn [nth_error] in H; try discriminate H.
      inversion H; subst c. cbn [fst In] in Hin. destruct Hin as [<-|[]]. rewrite vid_eqb_refl. reflexivity.
  - constructor.
  - intros k. split; [intros []|]. intros (c & H & F).
    destruct k as [|[|k]]; cbn [trX tr_cycles nth_error] in H; try discriminate H. inversion H; subst c. discriminate F.
  - intros k c H. destruct k as [|[|k]]; cbn [trX tr_cycles nth_error] in H; try discriminate H. inversion H; subst c.
    vm_compute. reflexivity.
  - vm_compute. reflexivity.
  - vm_compute. reflexivity.
Qed.

Lemma transX_valid : trans_valid nwX sX1 [(0, trX)].
Proof.
  split; [vm_compute; reflexivity|].
  intros ty tr G. unfold zget in G. cbn [assoc] in G. destruct (ty =? 0) eqn:E; [|discriminate G].
  apply Z.eqb_eq in E. subst ty. inversion G; subst tr. exact trX_inv.
Qed.

Lemma sXf_pipeline : pipeline_result nwX toursX sXf.
Proof.
  exists sX0, sX1, sX1, [(0, trX)].
  split; [exact sX0_ok|]. split; [exact sX1_ok|]. split; [apply lp_refl|]. split; [exact transX_valid|exact sXf_ok].
Qed.

Definition tXf : tour := Eval vm_compute in match s_tours sXf with (_, t) :: _ => t | [] => new_computing nwX [] false end.
Definition trXf : transition :=
  Eval vm_compute in match s_trans sXf with (_, t) :: _ => t | [] => trX end.

(* Veh 0 ends in ED 3 (depot 1); its successor, itself, starts in SD 0 (depot 0) *)
Lemma sXf_ends : t_nodes tXf = [SD 0; SV 4; SV 5; ED 3] /\ get_successor_of trXf (Veh 0) = Ok (Veh 0) /\
  get_depot_idx nwX (last_node tXf) = 1 /\ get_depot_idx nwX (first_node tXf) = 0.
Proof. vm_compute. auto. Qed.

Lemma sXf_not_aligned : ~ TransAligned nwX sXf.
Proof.
  intros H.
  assert (A1 : vget (Veh 0) (s_vehicles sXf) = Some 0) by (vm_compute; reflexivity).
  assert (A2 : zget 0 (s_trans sXf) = Some trXf) by (vm_compute; reflexivity).
  assert (A3 : get_successor_of trXf (Veh 0) = Ok (Veh 0)) by (vm_compute; reflexivity).
  assert (A4 : vget (Veh 0) (s_tours sXf) = Some tXf) by (vm_compute; reflexivity).
  specialize (H _ _ _ _ _ _ A1 A2 A3 A4 A4). vm_compute in H. discriminate H.
Qed.

Theorem pipeline_valid_refuted_nwX : ~ stmt_pipeline_valid nwX.
Proof.
  intros H.
  destruct (H nwX_ok nwX_maint nwX_nodup nwX_maint_service toursX sXf toursX_paths sXf_pipeline)
    as (_ & _ & _ & _ & _ & _ & _ & TA).
  exact (sXf_not_aligned TA).
Qed.

Theorem pipeline_valid_refuted : ~ (forall nw, stmt_pipeline_valid nw).
Proof. intros H. exact (pipeline_valid_refuted_nwX (H nwX)). Qed.

(* the positive theorem is not vacuous: the same run on the loaded network nwF succeeds and is aligned *)
Definition sF0' : schedule := Eval vm_compute in get_ok (from_tours nwF toursX) s_dflt.
Definition sF1' : schedule := Eval vm_compute in get_ok (improve_depots nwF sF0' None) s_dflt.
Example nwF_run_succeeds :
  from_tours nwF toursX = Ok sF0' /\ improve_depots nwF sF0' None = Ok sF1' /\ s_trans sF1' = [(0, trX)] /\
  is_ok (reassign_end_depots_consistent nwF (set_next_day_transitions sF1' [(0, trX)])) = true.
Proof. vm_compute. auto. Qed.

Print Assumptions from_tours_wreachable.
Print Assumptions ls_path_wreachable.
Print Assumptions pipeline_product.
Print Assumptions pipeline_valid_under_depots.
Print Assumptions pipeline_valid_under_depots_b.
Print Assumptions load_depots_roundtrip.
Print Assumptions pipeline_valid_loaded.
Print Assumptions pipeline_valid_partial.
Print Assumptions pipeline_valid_refuted.

Check (from_tours_wreachable : forall nw, stmt_from_tours_wreachable nw).
Check (ls_path_wreachable : forall nw, stmt_ls_path_wreachable nw).
Check (pipeline_product : forall nw, stmt_pipeline_product nw).
Check (pipeline_valid_under_depots_b : forall nw, depots_ok_b nw = true -> stmt_pipeline_valid nw).
