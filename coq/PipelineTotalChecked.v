(* PipelineTotalChecked.v — the "pipeline never crashes" theorem with its hypotheses in the executable form the driver
   evaluates on every pipeline run (Hyps.v, Hyps2.v). *)
From RS Require Import Base Network NetSpec LoadStmts LoadFacts Tour TourStmts SchedObs Output Transition Schedule
  Swaps PipelineSched Render EndToEndStmts NoPanicStmts NoPanicFactsA PipelineTotalStmts PipelineTotalFacts Hyps Hyps2.

Theorem pipeline_never_crashes_checked :
  forall i perm nw,
    valid_instance_b i = true -> inst_unsigned_b i = true -> params_costs_nonneg_b (i_params i) = true ->
    perm_ok i perm -> load i perm = Ok nw ->
    forall tours,
      tours_ok_b nw tours = true -> tours_typed_b nw tours = true -> tours_within_limits_b nw tours = true ->
      fleet_fits_overflow_b nw tours = true ->
      exists s0 s1, from_tours nw tours = Ok s0 /\ improve_depots nw s0 None = Ok s1 /\
        forall ls, ls_path nw s1 ls ->
          no_crash (neighbors nw ls) /\
          forall trans, trans_valid nw ls trans ->
            exists final out, reassign_end_depots_consistent nw (set_next_day_transitions ls trans) = Ok final /\
                              render nw final = Ok out.
Proof.
  intros i perm nw V U PC PO LD tours TK TT TL FO.
  destruct (tours_ok_b_sound nw tours TK) as [TP TKn].
  exact (pipeline_never_crashes_loaded i perm nw V (inst_unsigned_b_sound i U)
           (params_costs_nonneg_b_sound _ PC) PO LD tours TP TKn
           (tours_typed_b_sound nw tours TT) (tours_within_limits_b_sound nw tours TL)
           (fleet_fits_overflow_b_sound nw tours FO)).
Qed.
Print Assumptions pipeline_never_crashes_checked.
