(* PipelineTotalFacts.v -- proofs of PipelineTotalStmts.v: C06 "neither panics nor runs forever" for the whole modelled
   pipeline (every unwrap / index / unsigned subtraction of the code is an explicit Panic of the model, every fuelled
   loop an explicit OutOfFuel).  All five statements are TRUE and proved exactly as stated:

     pipeline_never_crashes_loaded : stmt_pipeline_never_crashes_loaded
     pipeline_parts_loaded         : loaded networks satisfy stmt_from_tours_total, stmt_start_improve_total,
                                     stmt_final_stages_total
   and, in Section Main, for every network nw with the side conditions
     NF  : net_fine nw                      NX  : net_extra_b nw = true        (NoPanicFactsA)
     DF  : dists_finite_b nw = true         DH  : dh_dists_finite_b nw = true
     DLI : depot_lists nw                   (EndToEndFacts: depot listings = depot nodes, overflow start node listed)
     DT  : RenderFacts1.depot_table_ok nw   (every depot node's index has a table entry: start and end depot node)
     OC  : overflow_consistent nw           (DepotFacts: the overflow start node carries the overflow index)
     OEL : the overflow END node is listed among nw_edepots            (new; PT_load.load_overflow_end_listed)
     CN  : PT_load.caps_nonneg_all nw       (new; every capacity of every depot index is >= 0: from inst_unsigned)
   the theorems
     from_tours_total        : stmt_from_tours_total nw        (uses NF NX DF DH DLI OEL)
     start_improve_total     : stmt_start_improve_total nw     (uses NF NX DF DH DLI OC CN)
     final_stages_total      : stmt_final_stages_total nw      (uses NF NX DF DH DT)
     pipeline_never_crashes  : stmt_pipeline_never_crashes nw  (all nine).
   PT_witness: the hypotheses are satisfiable (loaded network WitnessRoom.nwS, two tours, the second one put into the
   overflow depot because the named depot is full).

   Why no unwrap fails:
   * from_tours (PT_a): a typed tour sd :: mid ++ [ed] that is a valid Path has only activities in mid (nothing reaches a
     start depot, an end depot reaches nothing), so add_suitable_depots returns it unchanged or with BOTH depots replaced
     by the overflow nodes (no Err branch is reachable: first and last node are depots), and Tour::new accepts either
     node list (valid_swap; the overflow end node must be an end depot: OEL).  The formation/track limit check of
     vehicle_replacement_in_train_formation compares the CURRENT length with the limit before appending; the current
     length is the number of earlier visits (CoverFacts2.from_tours_len) plus the occurrences already processed in this
     tour, which is < visits(all tours) <= limit (utf_total_lim).  update_depot_usage / update_transitions: as in
     NoPanicFactsB.spawn_nc.
   * improve_depots(None) (PT_b): after the release fold every spawn list is empty (SchedUsageFacts.fold1_ux: all
     vehicles are listed).  In the greedy fold the overflow depot can always take the next vehicle: its per-type count
     is at most the number of already re-homed vehicles of that type, which is smaller than the number of tours of that
     type (the vehicles of the start schedule have, in spawn order, the types of the tours: from_tours_types), and
     likewise in total (fold2_overflow).  Every placement was checked by can_depot_spawn, so the result is within the
     capacity of EVERY depot (FLu_add from the empty usage, which needs the capacities to be >= 0: CN).
   * final stages (PT_final, proved by a helper agent): successor lookup by TInv, start depot of the successor's tour by
     RV, the table's end node is an end depot (DT), cost subtraction by the running-sum invariant, update_depot_usage by
     UX, update_transitions by VPart/TOK; rendering by RenderFacts1.render_total.
   * local search: NoPanicFactsB.local_search_never_crashes from LSOK s1 (= result of start_improve_total). *)
From Coq Require Import List ZArith Lia Bool Arith.
From RS Require Import Base BaseFacts Network NetSpec NetFacts LoadStmts LoadFacts Tour TourSpec TourStmts TourFacts TourValidFacts
  TourExactStmts TourExactFacts SchedObs Output Transition TransSpec
  Schedule SchedInv SchedStruct SchedCostsFacts SchedUsageFacts SchedTransFacts SchedToursFacts SchedListFacts
  SchedExactFacts SchedFrameStmts SchedFrameFacts Swaps SwapsStmts SwapsFacts SwapsStmts2 SwapsFacts2 PipelineSched PipelineSchedFacts Render RenderStmts RenderFacts1
  EndToEndStmts EndToEndFacts NoPanicStmts NoPanicFactsA NoPanicFactsB DepotFacts PipelineTotalStmts.
Import ListNotations.
Local Open Scope Z_scope.


Module PT_load.

Definition caps_nonneg_all (nw : network) : Prop :=
  forall d, 0 <= total_capacity_of nw d /\ forall ty, 0 <= capacity_of nw d ty.

Lemma fold_max_ge l : forall a, a <= fold_left Z.max l a.
Proof.
  induction l as [|x l IH]; intros a; cbn [fold_left]; [lia|].
  specialize (IH (Z.max a x)). lia.
Qed.

Lemma Llim_nonneg i vt : inst_unsigned i -> In vt (i_types i) -> 0 <= Llim vt.
Proof.
  intros (U & _ & _) H. unfold Llim. destruct (vt_limit vt) as [l|] eqn:E; [|lia]. exact (U vt l H E).
Qed.

Lemma Lmaxfc_nonneg i : inst_unsigned i -> 0 <= Lmaxfc i.
Proof.
  intros U. unfold Lmaxfc. destruct (i_types i) as [|vt r] eqn:E; [lia|].
  assert (H : 0 <= Llim vt) by (apply (Llim_nonneg i vt U); rewrite E; left; reflexivity).
  pose proof (fold_max_ge (map Llim r) (Llim vt)). lia.
Qed.

Lemma overflow_nonneg i perm trips : inst_unsigned i ->
  0 <= dp_total (Loverflow i perm trips) /\ forall ty, 0 <= depot_capacity_for (Loverflow i perm trips) ty.
Proof.
  intros U. pose proof (Lmaxfc_nonneg i U) as M.
  assert (T : 0 <= dp_total (Loverflow i perm trips)).
  { cbn [dp_total Loverflow]. unfold Lnservice.
    assert (0 <= Z.of_nat (length trips) * Lmaxfc i) by (apply Z.mul_nonneg_nonneg; lia). lia. }
  split; [exact T|]. intros ty. unfold depot_capacity_for.
  destruct (assoc Z.eqb ty (dp_allowed (Loverflow i perm trips))) as [[c|]|] eqn:A; try lia.
  cbn [dp_allowed Loverflow] in A.
  apply (assoc_in Z.eqb Z.eqb_eq) in A. apply in_map_iff in A. destruct A as (t & Q & _). discriminate Q.
Qed.

Lemma make_depots_nonneg_u i perm x d : inst_unsigned i -> 0 <= x -> In d (make_depots i perm x) ->
  0 <= dp_total d /\ forall ty, 0 <= depot_capacity_for d ty.
Proof.
  intros (_ & _ & IC) Hx H. unfold make_depots in H.
  destruct (i_depots i) as [ds|].
  - apply in_map_iff in H. destruct H as ([k dd] & <- & H). apply in_combine_r in H.
    destruct (IC dd H) as [C1 C2]. cbn [dp_total]. split; [exact C1|].
    intros ty. unfold depot_capacity_for. cbn [dp_allowed dp_total].
    destruct (assoc Z.eqb ty (id_allowed dd)) as [[c|]|] eqn:A; try lia.
    apply (assoc_in Z.eqb Z.eqb_eq) in A. specialize (C2 _ _ A). lia.
  - apply in_map_iff in H. destruct H as ([k l] & <- & H). cbn [dp_total]. split; [exact Hx|].
    intros ty. unfold depot_capacity_for. cbn [dp_allowed dp_total].
    destruct (assoc Z.eqb ty (map (fun t => (t, @None Z)) (tids i))) as [[c|]|] eqn:A; try lia.
    apply (assoc_in Z.eqb Z.eqb_eq) in A. apply in_map_iff in A. destruct A as (t & Q & _). discriminate Q.
Qed.

Theorem load_caps_nonneg_all : forall i perm nw, load i perm = Ok nw -> inst_unsigned i -> caps_nonneg_all nw.
Proof.
  intros i perm nw H U. rewrite load_eq in H.
  destruct (time_span i) as [[e0 l0]| | |]; cbn [bind] in H; try discriminate H.
  destruct (planning_of e0 l0) as [p0| | |]; cbn [bind] in H; try discriminate H.
  destruct (all_trips i) as [trips| | |]; cbn [bind] in H; try discriminate H.
  destruct (planning_of _ _) as [p1| | |]; cbn [bind] in H; try discriminate H.
  inversion H; subst nw; clear H.
  intros d.
  assert (Q : forall dp sn en, depot_entry (Lnet i perm trips p0 p1) d = Some (dp, sn, en) ->
                0 <= dp_total dp /\ forall ty, 0 <= depot_capacity_for dp ty).
  { intros dp sn en A. unfold depot_entry in A. cbn [nw_depots Lnet] in A.
    apply (assoc_in Z.eqb Z.eqb_eq) in A. unfold Ldentry in A. apply in_map_iff in A.
    destruct A as ([[dp' sn'] en'] & Q & A). inversion Q; subst; clear Q.
    unfold Ldnodes in A. apply in_map_iff in A. destruct A as ([k dd] & Q & A). inversion Q; subst; clear Q.
    apply in_combine_r in A.
    unfold Ldepots in A. apply in_app_or in A. destruct A as [A|[A|[]]].
    - eapply make_depots_nonneg_u; [exact U| |exact A]. unfold Lnservice. lia.
    - rewrite <- A. apply overflow_nonneg. exact U. }
  unfold total_capacity_of, capacity_of.
  destruct (depot_entry (Lnet i perm trips p0 p1) d) as [[[dp sn] en]|]; [|split; [lia|intros; lia]].
  destruct (Q dp sn en eq_refl) as [Q1 Q2]. split; [exact Q1|]. exact Q2.
Qed.

Theorem load_overflow_end_listed : forall i perm nw, load i perm = Ok nw ->
  In (let '(_, _, oe) := nw_overflow nw in oe) (nw_edepots nw).
Proof.
  intros i perm nw H. rewrite load_eq in H.
  destruct (time_span i) as [[e0 l0]| | |]; cbn [bind] in H; try discriminate H.
  destruct (planning_of e0 l0) as [p0| | |]; cbn [bind] in H; try discriminate H.
  destruct (all_trips i) as [trips| | |]; cbn [bind] in H; try discriminate H.
  destruct (planning_of _ _) as [p1| | |]; cbn [bind] in H; try discriminate H.
  inversion H; subst nw; clear H.
  cbn [nw_edepots nw_overflow Lnet].
  unfold Lsrt. apply sort_by_in. rewrite Ledeps_eq. apply in_map_iff.
  exists (length (Ldepots0 i perm trips)). split; [reflexivity|].
  apply in_seq. unfold Ldepots. rewrite app_length. cbn [length]. lia.
Qed.

End PT_load.

Module PT_final.

(** * list helpers *)
Lemma index_of_vid_in v (l : list vehicle_id) : In v l ->
  exists p, index_of (vid_eqb v) l = Some p /\ (p < length l)%nat.
Proof.
  induction l as [|x l IH]; intros H; [destruct H|]. cbn [index_of length].
  destruct (vid_eqb v x) eqn:E.
  - exists 0%nat. split; [reflexivity|lia].
  - destruct H as [H|H].
    + subst x. rewrite vid_eqb_refl in E. discriminate E.
    + destruct (IH H) as (p & -> & L). exists (S p). split; [reflexivity|lia].
Qed.

Lemma nth_error_lt_some {A} (l : list A) k : (k < length l)%nat -> exists x, nth_error l k = Some x.
Proof.
  intros L. destruct (nth_error l k) as [x|] eqn:E; [eauto|]. apply nth_error_None in E. lia.
Qed.

Section FS.
Variable nw : network.
Hypothesis NF : net_fine nw.
Hypothesis NX : net_extra_b nw = true.
Hypothesis DF : dists_finite_b nw = true.
Hypothesis DH : dh_dists_finite_b nw = true.
Hypothesis DLI : depot_lists nw.
Hypothesis DT : RenderFacts1.depot_table_ok nw.

(** * the successor in the rotation cycles exists and is a member *)
Lemma succ_total f m t v : TInv nw f m t -> In v m -> exists nx, get_successor_of t v = Ok nx /\ In nx m.
Proof.
  intros I Hv. destruct (tinv_locate nw f m t v I Hv) as (k & c & Hl & Hk & Hc).
  unfold get_successor_of. rewrite Hl. cbn [unwrap_opt bind]. rewrite Hk. cbn [unwrap_opt bind].
  destruct (index_of_vid_in v (fst c) Hc) as (p & -> & L). cbn [unwrap_opt bind].
  assert (M : (Nat.modulo (p + 1) (length (fst c)) < length (fst c))%nat) by (apply Nat.mod_upper_bound; lia).
  destruct (nth_error_lt_some (fst c) _ M) as (nx & E). rewrite E. cbn [unwrap_opt].
  exists nx. split; [reflexivity|]. apply (ti_members _ _ _ _ I). unfold members_of.
  apply in_concat. exists (fst c). split; [|eapply nth_error_In; exact E].
  apply in_map. eapply nth_error_In. exact Hk.
Qed.

Section S.
Variable s : schedule.
Hypothesis G : GoodI nw s.
Hypothesis Us : US nw s.

Notation V := (s_vehicles s).

(* one step of the fold *)
Lemma cons_step_total T u costs v :
  is_vehicle s v = true ->
  UX nw V T [] u ->
  vget v T = vget v (s_tours s) ->
  oc s v <= costs ->
  exists nt u' c',
    cons_step nw s (Ok (T, u, costs)) v = Ok (vset v nt T, u', c') /\
    UX nw V (vset v nt T) [] u' /\ c' = costs + t_costs nt - oc s v /\ 0 <= t_costs nt.
Proof.
  intros IV HU HT HC.
  destruct (veh_facts nw s G v IV) as (ty & t & Hv & Ity & Rv & Ht & Hto & ND & D & R & EX & _ & _).
  unfold cons_step. cbn [bind]. rewrite Hto. cbn [bind]. unfold vehicle_type_of. rewrite Hv. cbn [ok_or_err bind].
  destruct (gi_trans _ _ G ty Ity) as (tr & Ztr & TI). rewrite Ztr. cbn [unwrap_opt bind].
  assert (Iv : In v (vehicles_iter s ty)) by (apply (lo_ids _ _ (gi_listing _ _ G)); exact Hv).
  destruct (succ_total _ _ tr v TI Iv) as (nx & -> & Inx). cbn [bind].
  assert (IVn : is_vehicle s nx = true).
  { apply (lo_ids _ _ (gi_listing _ _ G)) in Inx. unfold is_vehicle. rewrite Inx. reflexivity. }
  destruct (veh_facts nw s G nx IVn) as (tyn & tn & _ & _ & _ & _ & Hton & _ & _ & Rn & _).
  rewrite Hton. cbn [bind]. unfold start_depot. pose proof (RV_first nw tn Rn) as SDn. rewrite SDn. cbn [bind].
  assert (Dn : is_depot (nd nw (first_node tn)) = true) by (unfold is_depot; rewrite SDn; reflexivity).
  destruct (DT (first_node tn) Dn) as (dp & b & e & DE & _ & Ee).
  unfold get_end_depot_node. rewrite DE.
  destruct (replace_end_total nw NF NX t e D R EX Ee) as (nt & Ent). rewrite Ent. cbn [bind].
  destruct (replace_end_depot_valid nw t e nt R Ent) as (Dnt & Rnt & _ & _).
  pose proof (replace_end_depot_exact' nw t e nt EX (RV_last nw t R) Ent) as EXn.
  pose proof (exact_costs_nn nw NF NX nt EXn) as NNn.
  unfold oc in HC |- *. rewrite Ht in HC |- *.
  destruct (z_sub_cost_total (costs + t_costs nt) (t_costs t)) as (c & -> & Ec); [lia|]. cbn [bind].
  destruct (NPB_sched.udu_nc nw s u V T V (vset v nt T) v HU) as (u' & Eu).
  - intros _. exists ty, t. split; [exact Hv|]. split; [exact Hto|]. split; [exact Hv|]. split; [rewrite HT; exact Ht|].
    split; [apply RV_first; exact R|apply RV_last; exact R].
  - intros ty1 ty2 A B. congruence.
  - intros ty1 _ t1 Q. rewrite vget_vset, vid_eqb_refl in Q. inversion Q; subst t1.
    split; [apply RV_first; exact Rnt|apply RV_last; exact Rnt].
  - rewrite Eu. cbn [bind]. exists nt, u', c. split; [reflexivity|]. split; [|split; [exact Ec|exact NNn]].
    eapply udu_ok; [exact HU| | |exact Eu].
    + intros Q. congruence.
    + intros k Nk. split; [reflexivity|]. rewrite vget_vset. apply vid_eqb_neq in Nk. rewrite Nk. reflexivity.
Qed.

Lemma oc_nn x : 0 <= oc s x.
Proof.
  unfold oc. destruct (vget x (s_tours s)) as [tx|] eqn:Q; [|lia]. apply (tour_cost_le nw NF NX s G x tx Q).
Qed.

Lemma cons_fold_total l : NoDup l -> (forall v, In v l -> is_vehicle s v = true) -> forall T u costs,
  UX nw V T [] u ->
  (forall x, In x l -> vget x T = vget x (s_tours s)) ->
  (forall x, vget x T = None <-> vget x (s_tours s) = None) ->
  z_sum (map (oc s) l) <= costs ->
  exists T' u' costs', fold_left (cons_step nw s) l (Ok (T, u, costs)) = Ok (T', u', costs') /\
    (forall x, vget x T' = None <-> vget x (s_tours s) = None) /\
    (forall x, ~ In x l -> vget x T' = vget x T).
Proof.
  induction l as [|v l IH]; intros N HV T u costs HU FR KE CO; cbn [fold_left].
  { exists T, u, costs. split; [reflexivity|]. split; [exact KE|reflexivity]. }
  inversion N; subst. cbn [map] in CO. rewrite z_sum_cons in CO.
  assert (0 <= z_sum (map (oc s) l)) as NNl by (apply z_sum_map_nn; intros x _; apply oc_nn).
  destruct (cons_step_total T u costs v (HV v (or_introl eq_refl)) HU (FR v (or_introl eq_refl))) as (nt & u' & c' & E & HU' & Ec & NNn).
  { lia. }
  rewrite E.
  destruct (IH H2 (fun x Hx => HV x (or_intror Hx)) (vset v nt T) u' c' HU') as (T' & u'' & c'' & E' & KE' & FR').
  - intros x Hx. rewrite vget_vset. destruct (vid_eqb x v) eqn:Q; [|apply FR; right; exact Hx].
    apply vid_eqb_eq in Q. subst. contradiction.
  - intros x. rewrite vget_vset. destruct (vid_eqb x v) eqn:Q; [|apply KE].
    apply vid_eqb_eq in Q. subst x.
    destruct (veh_facts nw s G v (HV v (or_introl eq_refl))) as (ty & t & _ & _ & _ & Ht & _).
    rewrite Ht. split; discriminate.
  - lia.
  - exists T', u'', c''. split; [exact E'|]. split; [exact KE'|].
    intros x Hx. rewrite FR' by (intros Q; apply Hx; right; exact Q). rewrite vget_vset.
    destruct (vid_eqb x v) eqn:Q; [|reflexivity]. apply vid_eqb_eq in Q. subst. exfalso. apply Hx. left. reflexivity.
Qed.

Lemma consistent_total :
  NoDup (vehicles_iter_all nw s) ->
  exists final, reassign_end_depots_consistent nw s = Ok final.
Proof.
  intros N. unfold reassign_end_depots_consistent.
  match goal with |- exists f, bind (fold_left ?f0 ?l ?a) _ = _ => change f0 with (cons_step nw s) end.
  assert (HV : forall v, In v (vehicles_iter_all nw s) -> is_vehicle s v = true).
  { intros v Hv. destruct (real_in_type nw s G v Hv) as (ty & _ & Q). unfold is_vehicle. rewrite Q. reflexivity. }
  destruct (cons_fold_total (vehicles_iter_all nw s) N HV (s_tours s) (s_usage s) (s_costs s) Us)
    as (T' & u' & c' & E & KE & FR).
  - intros; reflexivity.
  - intros; reflexivity.
  - destruct (gi_costs _ _ G) as [NK EC]. destruct (gi_exact _ _ G) as [EXA _].
    pose proof (oc_sum_le (vehicles_iter_all nw s) (s_tours s) NK) as Q. fold (tsum (s_tours s)) in EC.
    destruct (rates_nn nw NX) as (_ & _ & _ & _ & R5 & _).
    assert (z_sum (map (oc s) (vehicles_iter_all nw s)) <= tsum (s_tours s)); [|lia]. apply Q; [|exact N].
    intros k t Hin. apply (exact_costs_nn nw NF NX). apply (EXA k). apply in_vget; assumption.
  - unfold usage_t in E. rewrite E. cbn [bind].
    pose proof (vpart nw s G) as VP.
    assert (VP' : VPart nw V T' (s_ids s)) by (eapply V_same_keys; [exact VP|exact KE]).
    assert (ST : forall v ty ty', vget v V = Some ty -> vget v V = Some ty' -> ty = ty') by (intros; congruence).
    assert (NDf : NoDup (filter vid_is_real (vehicles_iter_all nw s))) by (apply NoDup_filter; exact N).
    destruct (update_transitions_total nw s V T' (s_ids s) VP VP' ST (s_trans s) (s_viol s) (vehicles_iter_all nw s)
                (tok nw s G) NDf) as ([tr vi] & UT).
    { intros v Hv _. left. apply HV. exact Hv. }
    rewrite UT. cbn [bind]. eexists. reflexivity.
Qed.
End S.

(** * the statement *)
Theorem final_stages_total : stmt_final_stages_total nw.
Proof.
  intros ls trans W FK [TKs TVs].
  pose proof NF as (OK & ML & ND).
  pose proof OK as OK'. unfold net_ok_b in OK'. apply andb_true_iff in OK'. destruct OK' as [WF DP].
  assert (HM : forall n, In n (nw_maint nw) -> is_service (nd nw n) = false).
  { intros n Hn. apply ML in Hn. destruct (nd nw n); try discriminate; reflexivity. }
  pose proof (NPB_base.wreachable_WS nw NF DF DH ls W) as WSl.
  destruct (wreachable_sub nw ls W) as (RV & RD & RR).
  set (s := set_next_day_transitions ls trans).
  assert (Is : Inv nw s) by (unfold s; apply Inv_set_next; exact (NPB_base.ws_inv nw ls WSl)).
  assert (TRs : TransOK nw s).
  { intros ty Hty. rewrite <- TKs in Hty. destruct (zget_of_key ty trans Hty) as [tr Gt].
    exists tr. split; [exact Gt|]. exact (TVs ty tr Gt). }
  pose proof (NPB_base.ws_good nw ls WSl) as Gl.
  assert (Gs : GoodI nw s).
  { destruct Gl. constructor.
    - destruct g_tours. constructor; assumption.
    - destruct g_listing. constructor; assumption.
    - destruct g_usage. constructor; assumption.
    - exact TRs.
    - exact g_exact.
    - exact g_costs. }
  assert (Uss : US nw s) by (exact (NPB_base.ws_us nw ls WSl)).
  assert (Ns : NoDup (vehicles_iter_all nw s)).
  { exact (proj1 (iter_all_ok nw s _ (inv_ids nw s Is))). }
  destruct (consistent_total s Gs Uss Ns) as (final & C).
  exists final.
  destruct (final_invariants nw OK ND HM ls trans final W TKs C) as (TOf & LOf & _).
  assert (If : Inv nw final) by (exact (SchedCostsFacts.consistent_ok nw s final Is C)).
  assert (Ls : LInv nw false s) by (exact (greachable_L nw false ls (reachable_greachable nw ls RR))).
  assert (Lf : LInv nw false final) by (exact (SchedListFacts.consistent_L nw false s final Is Ls C)).
  assert (TRf : TransOK nw final) by (exact (SchedTransFacts.consistent_T nw s final Is Ls If Lf TRs C)).
  destruct (render_total nw NF final TOf LOf TRf) as [out RE].
  exists out. split; [exact C|exact RE].
Qed.
End FS.
End PT_final.

From Coq Require Import Sorted Arith.
From RS Require Import Base BaseFacts Network NetSpec NetFacts LoadStmts LoadFacts Tour TourSpec TourStmts TourFacts
  TourValidFacts TourExactStmts TourExactFacts SchedObs Output Transition TransSpec Schedule SchedInv SchedStruct.
From RS Require Import SchedCostsFacts SchedUnservedFacts SchedViolFacts SchedListFacts SchedToursFacts SchedFormLimFacts
  SchedUsageFacts SchedFrameStmts SchedFrameFacts SchedFormsFacts SchedTransFacts SchedExactFacts.
From RS Require Import Swaps SwapsStmts SwapsFacts SwapsStmts2 SwapsFacts2 PipelineSched PipelineSchedFacts
  DepotStmts DepotFacts Flow FlowStmts Render RenderStmts RenderFacts1 RenderFacts3 RenderFacts4 CoverStmts CoverStmts2 CoverFacts CoverFacts2
  EndToEndStmts EndToEndFacts NoPanicStmts NoPanicFactsA NoPanicFactsB PipelineTotalStmts.
Import NPB_defs NPB_base NPB_sched NPB_spawn NPB_lim NPB_imp NPB_comb.
Local Open Scope Z_scope.


Module PT_a.

(** * list helpers *)
Lemma last_snoc {A} (a : A) l x d : last (a :: l ++ [x]) d = x.
Proof. change (a :: l ++ [x]) with ((a :: l) ++ [x]). apply last_last. Qed.

Lemma removelast_snoc {A} (a : A) l x : removelast (a :: l ++ [x]) = a :: l.
Proof. change (a :: l ++ [x]) with ((a :: l) ++ [x]). apply removelast_last. Qed.

Section A.
Variable nw : network.
Hypothesis NF : net_fine nw.
Hypothesis NX : net_extra_b nw = true.
Hypothesis DF : dists_finite_b nw = true.
Hypothesis DH : dh_dists_finite_b nw = true.
Hypothesis DLI : depot_lists nw.
Hypothesis OEL : In (let '(_, _, oe) := nw_overflow nw in oe) (nw_edepots nw).

Let WF := nf_wf nw NF.
Let DP := nf_dp nw NF.
Let ML := nf_ml nw NF.

Lemma overflow_nodes : let '(_, os, oe) := nw_overflow nw in
  is_start_depot (nd nw os) = true /\ is_end_depot (nd nw oe) = true.
Proof.
  pose proof (dl_overflow nw DLI) as A. pose proof OEL as B.
  destruct (nw_overflow nw) as [[od os] oe]. split.
  - apply (sdepots_kind nw NX). exact A.
  - apply (edepots_kind nw NX). exact B.
Qed.

(** ** the typed tours of the start solution: depot, activities, depot *)
Lemma typed_mid_nondep sd mid ed : connected nw (sd :: mid ++ [ed]) ->
  forall n, In n mid -> is_depot (nd nw n) = false.
Proof.
  intros C n Hn.
  assert (S : sdep nw n = false).
  { apply (conn_tl_no_sdep nw (mid ++ [ed]) sd n C). apply in_or_app. now left. }
  assert (E : edep nw n = false).
  { apply in_split in Hn. destruct Hn as (l1 & l2 & ->).
    assert (W : exists y, In (n, y) (windows (sd :: (l1 ++ n :: l2) ++ [ed]))).
    { rewrite <- app_assoc. cbn [app].
      change (sd :: l1 ++ n :: l2 ++ [ed]) with ((sd :: l1) ++ n :: l2 ++ [ed]).
      rewrite TransFacts.windows_app.
      destruct l2 as [|y l2]; cbn [app].
      - exists ed. apply in_or_app. right. cbn. now left.
      - exists y. apply in_or_app. right. cbn. now left. }
    destruct W as [y W]. specialize (C n y W). unfold can_reach, can_reach_nodes in C.
    unfold edep. destruct (is_end_depot (nd nw n)); [|reflexivity].
    rewrite orb_true_r in C. discriminate C. }
  change (is_depot (nd nw n)) with (node_is_depot nw n). rewrite dep_split, S, E. reflexivity.
Qed.

Lemma typed_valid_nodes sd mid ed : valid_path nw (sd :: mid ++ [ed]) ->
  is_start_depot (nd nw sd) = true -> is_end_depot (nd nw ed) = true ->
  valid_tour_nodes nw (sd :: mid ++ [ed]) = true.
Proof.
  intros (NE & C & EX) S E. apply valid_tour_nodes_RV. split; [exact NE|]. split; [exact C|].
  split; [exact S|]. split.
  - rewrite last_snoc. exact E.
  - apply existsb_exists in EX. destruct EX as (x & Hx & Dx). exists x. split; [exact Hx|].
    apply negb_true_iff in Dx. exact Dx.
Qed.

Lemma asd_typed s ty sd mid ed :
  is_start_depot (nd nw sd) = true -> is_end_depot (nd nw ed) = true ->
  exists b e, add_suitable_depots nw s ty (sd :: mid ++ [ed]) = Ok (b :: mid ++ [e]) /\
    is_start_depot (nd nw b) = true /\ is_end_depot (nd nw e) = true.
Proof.
  intros S E. pose proof overflow_nodes as OV. unfold add_suitable_depots.
  destruct (nw_overflow nw) as [[od os] oe]. destruct OV as [OS OE].
  assert (D1 : is_depot (nd nw sd) = true) by (unfold is_depot; rewrite S; reflexivity).
  assert (D2 : is_depot (nd nw (last (sd :: mid ++ [ed]) sd)) = true).
  { rewrite last_snoc. unfold is_depot. rewrite E. apply orb_true_r. }
  rewrite D1, D2. cbn [andb].
  destruct (can_depot_spawn nw (s_usage s) sd ty); cbn [negb].
  - cbn [bind]. exists sd, ed. auto.
  - cbn [tl]. exists os, oe. split; [|auto]. f_equal.
    rewrite (removelast_snoc os mid ed). reflexivity.
Qed.

(** ** formation limits: the check compares the CURRENT length with the limit *)
Definition lim_ok (n : node_id) (k : nat) : Prop :=
  (is_maint (nd nw n) = true -> Z.of_nat k <= track_count nw n) /\
  (is_service (nd nw n) = true -> forall l, maximal_formation_count_for nw n = Some l -> Z.of_nat k <= l).

Lemma limit_ok_lim n k : limit_ok nw n (Z.of_nat k) -> lim_ok n k.
Proof.
  unfold limit_ok, lim_ok. destruct (nd nw n) eqn:E; cbn [is_maint is_service]; intros H; split; try discriminate.
  - intros _ l Hl. rewrite Hl in H. exact H.
  - intros _. exact H.
Qed.

Lemma limit_ok_mono n k k' : k' <= k -> limit_ok nw n k -> limit_ok nw n k'.
Proof.
  unfold limit_ok. intros L. destruct (nd nw n); try tauto.
  - destruct (maximal_formation_count_for nw n); [lia|tauto].
  - lia.
Qed.

Lemma cnd_cons_dep n m l : is_depot (nd nw m) = true -> cnd nw n (m :: l) = cnd nw n l.
Proof. intros D. unfold cnd. cbn [filter]. unfold node_is_depot. rewrite D. reflexivity. Qed.
Lemma cnd_cons_nondep n m l : is_depot (nd nw m) = false ->
  cnd nw n (m :: l) = ((if nid_dec m n then 1 else 0) + cnd nw n l)%nat.
Proof. intros D. unfold cnd. cbn [filter]. unfold node_is_depot. rewrite D. cbn [negb]. apply cn_cons. Qed.
Lemma cnd_snoc_dep n m l : is_depot (nd nw m) = true -> cnd nw n (l ++ [m]) = cnd nw n l.
Proof.
  intros D. unfold cnd. rewrite filter_app. cbn [filter]. unfold node_is_depot. rewrite D. cbn [negb].
  rewrite app_nil_r. reflexivity.
Qed.

Lemma utf_total_lim s r rty moved : is_dummy s r = false -> forall fm uns,
  (forall n, In n moved -> is_depot (nd nw n) = false ->
     exists f, nget n fm = Some f /\ lim_ok n (length f + cnd nw n moved)) ->
  exists fm' uns', update_train_formation nw s fm uns None (Some (r, rty)) moved = Ok (fm', uns').
Proof.
  intros Dr. unfold update_train_formation.
  induction moved as [|m l IH]; intros fm uns H; cbn [fold_left].
  - eauto.
  - destruct uns as [ua ub]. cbn [bind].
    destruct (is_depot (nd nw m)) eqn:Edep.
    + apply IH. intros n Hn Dn. destruct (H n (or_intror Hn) Dn) as (f & G & L).
      exists f. split; [exact G|]. rewrite (cnd_cons_dep n m l Edep) in L. exact L.
    + destruct (H m (or_introl eq_refl) Edep) as (f & G & [L1 L2]). rewrite G. cbn [unwrap_opt bind].
      rewrite (cnd_cons_nondep m m l Edep) in L1, L2.
      destruct (nid_dec m m) as [_|C]; [|congruence].
      assert (R : replacement_in_formation nw s f None (Some (r, rty)) m = Ok (f ++ [(r, rty)])).
      { unfold replacement_in_formation. rewrite Dr. cbn [negb].
        destruct (is_maint (nd nw m)) eqn:Em; cbn [andb].
        - specialize (L1 eq_refl). destruct (Z.leb_spec (track_count nw m) (Z.of_nat (length f))); [lia|].
          assert (Es : is_service (nd nw m) = false) by (destruct (nd nw m); try discriminate; reflexivity).
          rewrite Es. reflexivity.
        - destruct (is_service (nd nw m)) eqn:Es; cbn [andb]; [|reflexivity].
          destruct (maximal_formation_count_for nw m) as [lm|] eqn:Ml; [|reflexivity].
          specialize (L2 eq_refl lm eq_refl).
          destruct (Z.leb_spec lm (Z.of_nat (length f))); [lia|reflexivity]. }
      rewrite R. cbn [bind].
      apply IH. intros n Hn Dn. rewrite (nset_key _ _ _ _ G), nget_nrepl.
      destruct (nid_eqb n m) eqn:Enm.
      * apply nid_eqb_eq in Enm. subst n. rewrite G. eexists. split; [reflexivity|].
        rewrite app_length. cbn [length].
        split; intros Q; [specialize (L1 Q)|intros lm Hl; specialize (L2 Q lm Hl)]; lia.
      * destruct (H n (or_intror Hn) Dn) as (fn & Gn & Ln). exists fn. split; [exact Gn|].
        rewrite (cnd_cons_nondep n m l Edep) in Ln.
        destruct (nid_dec m n) as [->|_]; [rewrite nid_eqb_refl in Enm; discriminate|]. exact Ln.
Qed.

(** ** one spawn of the start solution never fails *)
Lemma spawn_total s ty sd mid ed :
  Inv nw s -> LInv nw true s -> TransOK nw s -> US nw s -> FormsOK nw s ->
  In ty (type_ids nw) ->
  forallb (fun n => compatible_with_vehicle_type nw n ty) (sd :: mid ++ [ed]) = true ->
  valid_path nw (sd :: mid ++ [ed]) ->
  is_start_depot (nd nw sd) = true -> is_end_depot (nd nw ed) = true ->
  (forall n, In n mid -> exists f, nget n (s_forms s) = Some f /\ lim_ok n (length f + cnd nw n mid)) ->
  exists s' v, spawn_vehicle_for_path nw s ty (sd :: mid ++ [ed]) = Ok (s', v).
Proof.
  intros I L T U F Hty CP VP S E HL. pose proof L as [V D].
  unfold spawn_vehicle_for_path. rewrite CP. cbn [negb].
  destruct (asd_typed s ty sd mid ed S E) as (b & e & -> & Sb & Ee). cbn [bind].
  pose proof (typed_valid_nodes sd mid ed VP S E) as VN.
  pose proof (valid_swap nw sd mid ed b e VN Sb Ee) as VN'.
  unfold tour_new. rewrite VN'. cbn [bind].
  pose proof (SchedListFacts.fresh_vehicle nw s I V) as Fr.
  destruct (ids_insert_total ty (Veh (s_counter s)) (s_ids s)) as [ids Ei].
  { rewrite (v_keys _ _ _ _ V). exact Hty. }
  rewrite Ei. cbn [bind new_computing t_nodes].
  assert (ND : is_dummy s (Veh (s_counter s)) = false).
  { destruct (is_dummy s (Veh (s_counter s))) eqn:Dm; [|reflexivity].
    apply (is_dummy_not_real s _ (inv_dummy nw s I)) in Dm. discriminate. }
  destruct VP as (_ & C & _).
  pose proof (typed_mid_nondep sd mid ed C) as MD.
  destruct (utf_total_lim s (Veh (s_counter s)) ty (b :: mid ++ [e]) ND (s_forms s) (s_unserved s)) as (forms & uns & Ef).
  { intros n Hn Dn. destruct Hn as [<-|Hn].
    - unfold is_depot in Dn. rewrite Sb in Dn. discriminate.
    - apply in_app_or in Hn. destruct Hn as [Hn|[<-|[]]].
      + destruct (HL n Hn) as (f & G & Lm). exists f. split; [exact G|].
        rewrite cnd_cons_dep by (unfold is_depot; rewrite Sb; reflexivity).
        rewrite cnd_snoc_dep by (unfold is_depot; rewrite Ee; apply orb_true_r). exact Lm.
      + unfold is_depot in Dn. rewrite Ee, orb_true_r in Dn. discriminate. }
  rewrite Ef. cbn [bind].
  set (t := new_computing nw (b :: mid ++ [e]) false) in *.
  destruct (udu_nc nw s (s_usage s) (s_vehicles s) (s_tours s) (vset (Veh (s_counter s)) ty (s_vehicles s))
              (vset (Veh (s_counter s)) t (s_tours s)) (Veh (s_counter s))) as [usage Eu].
  - exact U.
  - unfold is_vehicle. rewrite Fr. discriminate.
  - intros a b0 _ G. rewrite Fr in G. discriminate.
  - intros a _ t0 G. rewrite vget_vset, vid_eqb_refl in G. inversion G; subst t0.
    apply (tour_new_ends nw (b :: mid ++ [e])). unfold tour_new. rewrite VN'. reflexivity.
  - rewrite Eu. cbn [bind].
    destruct (update_transitions_ok nw s (vset (Veh (s_counter s)) ty (s_vehicles s))
                (vset (Veh (s_counter s)) t (s_tours s)) ids (s_trans s) (s_viol s) [Veh (s_counter s)]) as [[trans viol] Etr].
    + exact V.
    + eapply V_spawn; eauto.
    + now apply stab_vset_new.
    + apply nodup_filter_one.
    + exact T.
    + intros x Hx _. left. cbn [In] in Hx. destruct Hx as [<-|[]].
      rewrite vget_vset, vid_eqb_refl. discriminate.
    + rewrite Etr. cbn [bind]. eauto.
Qed.

(** ** the empty schedule *)
Lemma empty_total : exists s, empty_schedule nw = Ok s.
Proof.
  unfold empty_schedule.
  match goal with |- exists s, bind (fold_left ?f ?l (Ok ?a)) _ = _ =>
    destruct (fold_total f (fun _ => True) l) with (s := a) as (tr & -> & _) end.
  - intros acc ty _ _. cbn [bind].
    destruct (new_fast_total nw no_tours []) as (t & ->); [intros v []|]. cbn [bind]. eexists; split; [reflexivity|exact Logic.I].
  - exact Logic.I.
  - cbn [bind]. eauto.
Qed.

(** ** the fold *)
Lemma from_tours_snoc tours ty p :
  from_tours nw (tours ++ [(ty, p)]) =
  (do s <- from_tours nw tours;
   match spawn_vehicle_for_path nw s ty p with Ok (s', _) => Ok s' | OutOfFuel => OutOfFuel | _ => Panic end).
Proof. unfold from_tours. rewrite fold_left_app. reflexivity. Qed.

Lemma visits_snoc ps p n : visits (ps ++ [p]) n = visits ps n + Z.of_nat (length (filter (nid_eqb n) p)).
Proof. unfold visits. rewrite map_app, z_sum_app. cbn [map]. rewrite z_sum_cons. change (z_sum []) with 0. lia. Qed.

Lemma visits_app_le ps qs n : visits ps n <= visits (ps ++ qs) n.
Proof.
  unfold visits. rewrite map_app, z_sum_app.
  assert (0 <= z_sum (map (fun t => Z.of_nat (length (filter (nid_eqb n) t))) qs)); [|lia].
  apply (visits_nonneg qs n).
Qed.

Theorem from_tours_total : stmt_from_tours_total nw.
Proof.
  intros tours. induction tours as [|[ty p] tours IH] using rev_ind; intros TP TK TT TL.
  - unfold from_tours. cbn [fold_left]. apply empty_total.
  - destruct IH as [s Es].
    + intros ty' p' Hin. apply (TP ty' p'). apply in_or_app. now left.
    + intros ty' p' n Hin. apply (TK ty' p' n). apply in_or_app. now left.
    + intros ty' p' Hin. apply (TT ty' p'). apply in_or_app. now left.
    + intros n Hn. eapply limit_ok_mono; [|apply (TL n Hn)]. rewrite map_app. apply visits_app_le.
    + rewrite from_tours_snoc, Es. cbn [bind].
      assert (TPs : tours_are_paths nw tours) by (intros ty' p' Hin; apply (TP ty' p'); apply in_or_app; now left).
      pose proof (from_tours_wreachable nw tours s TPs Es) as R.
      pose proof (wreachable_WS nw NF DF DH s R) as W.
      destruct (TT ty p) as (Hty & CP & sd & mid & ed & -> & S & E); [apply in_or_app; right; now left|].
      assert (VP : valid_path nw (sd :: mid ++ [ed])) by (apply (TP ty); apply in_or_app; right; now left).
      destruct (spawn_total s ty sd mid ed (ws_inv nw s W) (ws_L nw s W) (ws_trans nw s W) (ws_us nw s W)
                  (ws_forms nw s W) Hty CP VP S E) as (s' & v & ->); [|eauto].
      intros n Hn.
      pose proof VP as (_ & C & _). pose proof (typed_mid_nondep sd mid ed C n Hn) as Dn.
      pose proof (nondepot_coverable nw NX n Dn) as Cn.
      destruct (nget n (s_forms s)) as [f|] eqn:G.
      2:{ exfalso. apply (nget_of_key n (s_forms s)); [|exact G]. apply (fo_keys nw s (ws_forms nw s W)). exact Cn. }
      exists f. split; [reflexivity|]. apply limit_ok_lim.
      pose proof (from_tours_len nw tours s Es n Dn) as LN. unfold form_at in LN. rewrite G in LN.
      specialize (TL n Cn). rewrite map_app in TL. cbn [map snd] in TL. rewrite visits_snoc in TL.
      eapply limit_ok_mono; [|exact TL].
      rewrite Nat2Z.inj_add, LN, <- cn_filter_len.
      assert (Q : cn (sd :: mid ++ [ed]) n = cnd nw n mid).
      { rewrite <- (cnd_nondep nw n _ Dn).
        rewrite cnd_cons_dep by (unfold is_depot; rewrite S; reflexivity).
        rewrite cnd_snoc_dep by (unfold is_depot; rewrite E; apply orb_true_r). reflexivity. }
      rewrite Q. lia.
Qed.
End A.
End PT_a.

Import PT_a.

Module PT_b.
Notation caps_nonneg_all := PT_load.caps_nonneg_all.

Definition tyb (V : list (vehicle_id * Z)) (ty : Z) (x : vehicle_id) : bool :=
  match vget x V with Some t => t =? ty | None => false end.
Definition cntT (V : list (vehicle_id * Z)) (L : list vehicle_id) (ty : Z) : Z :=
  Z.of_nat (length (filter (tyb V ty) L)).

Lemma cntT_nonneg V L ty : 0 <= cntT V L ty.
Proof. unfold cntT. lia. Qed.
Lemma cntT_snoc V L v ty : cntT V (L ++ [v]) ty = cntT V L ty + (if tyb V ty v then 1 else 0).
Proof. unfold cntT. rewrite filter_app, app_length. cbn [filter]. destruct (tyb V ty v); cbn [length]; lia. Qed.
Lemma cntT_mid V L v R ty : tyb V ty v = true -> cntT V L ty + 1 <= cntT V (L ++ v :: R) ty.
Proof. intros H. unfold cntT. rewrite filter_app, app_length. cbn [filter]. rewrite H. cbn [length]. lia. Qed.

Lemma filter_types ty (V : list (vehicle_id * Z)) : forall (tours : list (Z * list node_id)),
  map snd V = map fst tours ->
  length (filter (fun '(_, t) => t =? ty) V) = length (filter (fun '(t, _) => t =? ty) tours).
Proof.
  induction V as [|[x t] V IH]; intros [|[t' p] tours] H; cbn [map] in H; try discriminate H; [reflexivity|].
  inversion H; subst t'. cbn [filter]. destruct (t =? ty); cbn [length]; rewrite (IH tours) by assumption; reflexivity.
Qed.

Section B.
Variable nw : network.
Hypothesis NF : net_fine nw.
Hypothesis NX : net_extra_b nw = true.
Hypothesis DF : dists_finite_b nw = true.
Hypothesis DH : dh_dists_finite_b nw = true.
Hypothesis DLI : depot_lists nw.
Hypothesis OC : overflow_consistent nw.
Hypothesis CN : caps_nonneg_all nw.
Notation idx := (get_depot_idx nw).
Notation sst := spawned_same_type.

(** ** the vehicles of the start schedule, in spawn order, have the types of the tours *)
Lemma spawn_vehicles s ty path s' v : Inv nw s -> VPart nw (s_vehicles s) (s_tours s) (s_ids s) ->
  spawn_vehicle_for_path nw s ty path = Ok (s', v) -> s_vehicles s' = s_vehicles s ++ [(Veh (s_counter s), ty)].
Proof.
  intros I V H. pose proof (SchedListFacts.fresh_vehicle nw s I V) as Fr.
  unfold spawn_vehicle_for_path in H. destruct (negb _) in H; [discriminate|].
  mon H. mon H. mon H. monp H. mon H. monp H. inversion H; subst; clear H.
  cbn [with_fields s_vehicles]. unfold vset. rewrite vset_existsb, Fr. reflexivity.
Qed.

Lemma from_tours_types tours : forall s0, tours_are_paths nw tours -> from_tours nw tours = Ok s0 ->
  map snd (s_vehicles s0) = map fst tours.
Proof.
  induction tours as [|[ty p] tours IH] using rev_ind; intros s0 TP H.
  - unfold from_tours in H. cbn [fold_left] in H. unfold empty_schedule in H. mon H. inversion H; subst. reflexivity.
  - rewrite from_tours_snoc in H.
    assert (TPs : tours_are_paths nw tours) by (intros ty' p' Hin; apply (TP ty' p'); apply in_or_app; now left).
    destruct (from_tours nw tours) as [s| | |] eqn:Es; cbn [bind] in H; try discriminate H.
    destruct (spawn_vehicle_for_path nw s ty p) as [[s' v]| | |] eqn:Esp; try discriminate H.
    inversion H; subst s'; clear H.
    pose proof (from_tours_wreachable nw tours s TPs Es) as R.
    pose proof (wreachable_WS nw NF DF DH s R) as W.
    destruct (ws_L nw s W) as [V _].
    rewrite (spawn_vehicles s ty p s0 v (ws_inv nw s W) V Esp), !map_app, (IH s TPs eq_refl). reflexivity.
Qed.

Section S.
Variable s : schedule.
Hypothesis G : GoodI nw s.
Hypothesis LW : ListingWeak nw s.
Notation V := (s_vehicles s).
Notation all := (vehicles_iter_all nw s).

Lemma all_keys x : In x all <-> In x (map fst V).
Proof.
  split.
  - intros H. destruct (real_in_type nw s G x H) as (ty & _ & Q). apply in_keys_iff. congruence.
  - intros H. apply in_keys_iff in H. destruct (vget x V) as [ty|] eqn:Q; [|congruence].
    eapply in_iter_all; eauto.
Qed.

Lemma all_length : length all = length V.
Proof.
  rewrite <- (map_length fst V). apply NoDup_same_len.
  - apply iter_all_nodup. apply (gi_listing nw s G).
  - apply (lw_veh_nodup nw s LW).
  - apply all_keys.
Qed.

Lemma cnt_all_le ty : cntT V all ty <= Z.of_nat (length (filter (fun '(_, t) => t =? ty) V)).
Proof.
  unfold cntT. rewrite <- (map_length fst (filter _ V)). apply inj_le. apply NoDup_incl_length.
  - apply NoDup_filter. apply iter_all_nodup. apply (gi_listing nw s G).
  - intros x Hx. apply filter_In in Hx. destruct Hx as [_ Hx]. unfold tyb in Hx.
    destruct (vget x V) as [t|] eqn:Q; [|discriminate]. apply vget_in in Q.
    apply in_map_iff. exists (x, t). split; [reflexivity|]. apply filter_In. split; [exact Q|exact Hx].
Qed.

(* the greedy re-homing never runs out of places: the overflow depot [os] has room for the whole fleet *)
Lemma fold2_overflow os : In os (nw_sdepots nw) -> forall rest pre tours u costs,
  NoDup (pre ++ rest) -> (forall v, In v (pre ++ rest) -> is_vehicle s v = true) ->
  (forall ty, In ty (type_ids nw) -> cntT V (pre ++ rest) ty <= capacity_of nw (idx os) ty) ->
  Z.of_nat (length (pre ++ rest)) <= total_capacity_of nw (idx os) ->
  (forall d ty, sst u d ty <= cntT V pre ty) -> (forall d, spawned_total nw u d <= Z.of_nat (length pre)) ->
  FLu nw u -> (forall x, vget x tours = None <-> vget x (s_tours s) = None) ->
  z_sum (map (oc s) rest) <= costs ->
  exists tours' u' costs', fold_left (imp_step2 nw s) rest (Ok (tours, u, costs)) = Ok (tours', u', costs') /\
    FLu nw u' /\ (forall x, vget x tours' = None <-> vget x (s_tours s) = None).
Proof.
  intros Hos. induction rest as [|v rest IH]; intros pre tours u costs N HV CT CA A B FL KE CO; cbn [fold_left].
  { exists tours, u, costs. auto. }
  assert (Hin : In v (pre ++ v :: rest)) by (apply in_or_app; right; now left).
  destruct (veh_facts nw s G v (HV v Hin)) as (ty & t & Hv & Ity & _ & Ht & Hto & _ & D & R & EX & _ & _).
  assert (TB : tyb V ty v = true) by (unfold tyb; rewrite Hv; apply Z.eqb_refl).
  pose proof (cntT_mid V pre v rest ty TB) as C1. pose proof (CT ty Ity) as CTy.
  pose proof (cntT_nonneg V pre ty) as C0.
  cbn [map] in CO. rewrite z_sum_cons in CO. unfold oc at 1 in CO. rewrite Ht in CO.
  assert (RN : 0 <= z_sum (map (oc s) rest)).
  { apply z_sum_map_nn. intros x _. unfold oc. destruct (vget x (s_tours s)) as [tx|] eqn:Q; [|lia].
    apply (tour_cost_le nw NF NX s G x tx Q). }
  destruct (step2_ok nw NF NX s tours u costs v ty t Hv Ity Ht Hto D R EX) as (nt & c & E2 & Ec & NN & CS).
  { exists os. split; [exact Hos|]. apply can_spawn_intro.
    - lia.
    - specialize (A (idx os) ty). lia.
    - specialize (B (idx os)). rewrite app_length in CA. cbn [length] in CA. lia. }
  { lia. }
  rewrite E2.
  set (u2 := usage_add_despawn (usage_add_spawn u (idx (first_node nt)) ty v) (idx (last_node nt)) ty v) in *.
  assert (UA : UAdd u2 u (idx (first_node nt)) ty).
  { unfold u2. eapply UAdd_ULe_l; [apply UEq_ULe; apply add_despawn_cnt|apply add_spawn_cnt]. }
  assert (EQ : (pre ++ [v]) ++ rest = pre ++ v :: rest) by (rewrite <- app_assoc; reflexivity).
  apply (IH (pre ++ [v])); try rewrite EQ; auto.
  - intros d ty'. rewrite cntT_snoc. specialize (UA d ty'). specialize (A d ty').
    destruct (pair_eqb (d, ty') (idx (first_node nt), ty)) eqn:PE.
    + apply pair_eqb_dec in PE. destruct PE as [_ ->]. rewrite TB. lia.
    + destruct (tyb V ty' v); lia.
  - intros d. pose proof (total_add nw u2 u _ _ d UA) as TA. specialize (B d). rewrite app_length. cbn [length].
    destruct (d =? idx (first_node nt)); lia.
  - eapply FLu_add; eauto.
  - intros x. rewrite vget_vset. destruct (vid_eqb x v) eqn:Q; [|apply KE].
    apply vid_eqb_eq in Q. subst. rewrite Ht. split; discriminate.
  - lia.
Qed.
End S.

(** ** improve_depots(None) on the start schedule *)
Theorem start_improve_total : stmt_start_improve_total nw.
Proof.
  intros tours s0 TP TK FF FT.
  pose proof (nf_wf nw NF) as WF. pose proof (nf_dp nw NF) as DP.
  pose proof (from_tours_wreachable nw tours s0 TP FT) as R0.
  pose proof (wreachable_WS nw NF DF DH s0 R0) as W.
  pose proof (Good_I nw s0 (ws_good nw s0 W)) as G.
  pose proof (ws_inv nw s0 W) as I. pose proof (ws_L nw s0 W) as L.
  pose proof (L_weak nw true s0 I L) as LW. pose proof (gi_listing nw s0 G) as LO.
  destruct (from_tours_KR nw DLI tours s0 TP TK FT) as [_ FK0].
  pose proof (from_tours_types tours s0 TP FT) as TY.
  pose proof (iter_all_nodup nw s0 LO) as ND.
  assert (HV : forall v, In v (vehicles_iter_all nw s0) -> is_vehicle s0 v = true)
    by (intros v; apply (NPB_cand.iter_all_vehicle nw s0 v L)).
  assert (EX : exists s1, improve_depots nw s0 None = Ok s1 /\ FLu nw (s_usage s1)).
  { unfold improve_depots. cbv beta iota zeta.
    match goal with |- exists s', bind (fold_left ?f ?l ?a) _ = _ /\ _ => change f with (imp_step1 nw s0) end.
    destruct (fold1_total nw s0 (vehicles_iter_all nw s0) ND (s_usage s0)) as (u0 & E0 & _).
    { intros v Hv. destruct (veh_facts nw s0 G v (HV v Hv)) as (ty & t & A1 & _ & _ & A2 & _ & _ & _ & A3 & _ & A4 & A5).
      exists ty, t. auto. }
    pose proof (fold1_ux nw s0 _ _ _ [] _ _ (ws_us nw s0 W) E0) as UXu.
    unfold usage_t in E0. rewrite E0. cbn [bind].
    assert (Z0 : forall d ty, sst u0 d ty = 0).
    { intros d ty. rewrite nsp_len. destruct (sp_of u0 d ty) as [|x r] eqn:Q; [reflexivity|]. exfalso.
      assert (Hx : In x (sp_of u0 d ty)) by (rewrite Q; now left).
      apply (ux_sp _ _ _ _ _ UXu) in Hx. destruct Hx as [(t & Gv & _) NI]. apply NI.
      apply in_or_app. left. apply -> in_rev. eapply in_iter_all; eauto. }
    assert (T0 : forall d, spawned_total nw u0 d = 0).
    { intros d. unfold spawned_total. rewrite (map_ext _ (fun _ => 0)) by (intros; apply Z0). apply DepotFacts.z_sum_zero. }
    assert (FL0 : FLu nw u0).
    { intros d. destruct (CN d) as [C1 C2]. split; [intros ty; rewrite Z0; apply C2|rewrite T0; exact C1]. }
    match goal with |- exists s', bind (fold_left ?f ?l ?a) _ = _ /\ _ => change f with (imp_step2 nw s0) end.
    pose proof (dl_overflow nw DLI) as OS. unfold overflow_consistent in OC. unfold fleet_fits_overflow in FF.
    destruct (nw_overflow nw) as [[od os] oe]. destruct FF as [FF1 FF2].
    destruct (fold2_overflow s0 G os OS (vehicles_iter_all nw s0) [] (s_tours s0) u0 (s_costs s0))
      as (tours' & u' & costs' & E2 & FL' & KE); cbn [app]; auto.
    - intros ty Ity. rewrite OC. etransitivity; [apply (cnt_all_le s0 G ty)|].
      rewrite (filter_types ty _ tours TY). apply FF2. exact Ity.
    - rewrite OC, (all_length s0 G LW), <- (map_length snd), TY, map_length. exact FF1.
    - intros d ty. rewrite Z0. apply cntT_nonneg.
    - intros d. rewrite T0. cbn [length]. lia.
    - intros x; reflexivity.
    - destruct (gi_costs _ _ G) as [NK EC]. destruct (gi_exact _ _ G) as [EXA _].
      pose proof (oc_sum_le (vehicles_iter_all nw s0) (s_tours s0) NK) as Q. fold (tsum (s_tours s0)) in EC.
      destruct (rates_nn nw NX) as (_ & _ & _ & _ & R5 & _).
      assert (z_sum (map (oc s0) (vehicles_iter_all nw s0)) <= tsum (s_tours s0)); [|lia]. apply Q; [|exact ND].
      intros k t Hin. apply (exact_costs_nn nw NF NX). apply (EXA k). apply in_vget; assumption.
    - unfold usage_t in E2. rewrite E2. cbn [bind].
      destruct (recompute_transitions_total nw (s_trans s0) (s_viol s0) (s_ids s0) tours' (type_ids nw)) as ([tr vi] & ->).
      + intros ty Ity. rewrite <- (lo_ids_keys nw s0 LO) in Ity. destruct (zget_of_key ty (s_ids s0) Ity) as [l El].
        exists l. split; [exact El|]. intros v Hv Q. apply KE in Q.
        assert (Iv : In v (vehicles_iter s0 ty)) by (unfold vehicles_iter; rewrite El; exact Hv).
        apply (lo_ids nw s0 LO) in Iv. destruct (veh_has_tour nw s0 G v ty Iv) as [t Ht]. congruence.
      + intros ty Ity. destruct (gi_trans nw s0 G ty Ity) as (tr & -> & _). discriminate.
      + cbn [bind]. eexists. split; [reflexivity|]. cbn [with_fields s_usage]. exact FL'. }
  destruct EX as (s1 & E1 & FL1). exists s1. split; [exact E1|]. split; [exact FL1|]. split.
  - eapply (improve_FKs nw); eauto.
  - eapply wr_step; [exact R0|]. eapply ws_improve; eauto.
Qed.
End B.
End PT_b.

(** * all together *)
Section Main.
Variable nw : network.
Hypothesis NF : net_fine nw.
Hypothesis NX : net_extra_b nw = true.
Hypothesis DF : dists_finite_b nw = true.
Hypothesis DH : dh_dists_finite_b nw = true.
Hypothesis DLI : depot_lists nw.
Hypothesis DT : RenderFacts1.depot_table_ok nw.
Hypothesis OC : overflow_consistent nw.
Hypothesis OEL : In (let '(_, _, oe) := nw_overflow nw in oe) (nw_edepots nw).
Hypothesis CN : PT_load.caps_nonneg_all nw.

Theorem from_tours_total : stmt_from_tours_total nw.
Proof. exact (PT_a.from_tours_total nw NF NX DF DH DLI OEL). Qed.

Theorem start_improve_total : stmt_start_improve_total nw.
Proof. exact (PT_b.start_improve_total nw NF NX DF DH DLI OC CN). Qed.

Theorem final_stages_total : stmt_final_stages_total nw.
Proof. exact (PT_final.final_stages_total nw NF NX DF DH DT). Qed.

Lemma ls_path_reach s0 s ls : ls_reach nw s0 s -> ls_path nw s ls -> ls_reach nw s0 ls.
Proof.
  intros R P. induction P as [s|s l c s1 s2 Hn Hin P IH]; [exact R|].
  apply IH. eapply lr_step; eauto.
Qed.

Theorem pipeline_never_crashes : stmt_pipeline_never_crashes nw.
Proof.
  intros tours TP TK TT TL FF.
  destruct (from_tours_total tours TP TK TT TL) as [s0 E0].
  destruct (start_improve_total tours s0 TP TK FF E0) as (s1 & E1 & FL1 & FK1 & R1).
  exists s0, s1. split; [exact E0|]. split; [exact E1|].
  intros ls LP.
  destruct (local_search_never_crashes nw NF NX DF DH DLI s1 (conj R1 (conj FL1 FK1)) ls
              (ls_path_reach s1 s1 ls (lr_refl nw s1) LP)) as ((Rl & FLl & FKl) & NC).
  split; [exact NC|]. intros trans TV. apply final_stages_total; assumption.
Qed.
End Main.

(** * loaded networks *)
Theorem pipeline_never_crashes_loaded : stmt_pipeline_never_crashes_loaded.
Proof.
  intros i perm nw V U PC PO LD.
  pose proof (load_net_fine i perm nw V PO LD) as NF.
  pose proof (load_extra i perm nw V PC LD) as NX.
  destruct (load_wf_partial i perm nw V PO LD) as (_ & _ & DF).
  pose proof (load_dh_finite i perm nw LD) as DH.
  pose proof (load_depot_lists i perm nw LD) as DLI.
  pose proof (RenderFacts1.load_depot_table_ok i perm nw LD) as DT.
  pose proof (load_overflow_consistent i perm nw LD) as OC.
  pose proof (PT_load.load_overflow_end_listed i perm nw LD) as OEL.
  pose proof (PT_load.load_caps_nonneg_all i perm nw LD U) as CN.
  exact (pipeline_never_crashes nw NF NX DF DH DLI DT OC OEL CN).
Qed.

(* the four parts for loaded networks *)
Theorem pipeline_parts_loaded : forall i perm nw,
  valid_instance_b i = true -> inst_unsigned i -> params_costs_nonneg (i_params i) -> perm_ok i perm ->
  load i perm = Ok nw ->
  stmt_from_tours_total nw /\ stmt_start_improve_total nw /\ stmt_final_stages_total nw.
Proof.
  intros i perm nw V U PC PO LD.
  pose proof (load_net_fine i perm nw V PO LD) as NF.
  pose proof (load_extra i perm nw V PC LD) as NX.
  destruct (load_wf_partial i perm nw V PO LD) as (_ & _ & DF).
  pose proof (load_dh_finite i perm nw LD) as DH.
  pose proof (load_depot_lists i perm nw LD) as DLI.
  pose proof (RenderFacts1.load_depot_table_ok i perm nw LD) as DT.
  pose proof (load_overflow_consistent i perm nw LD) as OC.
  pose proof (PT_load.load_overflow_end_listed i perm nw LD) as OEL.
  pose proof (PT_load.load_caps_nonneg_all i perm nw LD U) as CN.
  split; [exact (from_tours_total nw NF NX DF DH DLI OEL)|].
  split; [exact (start_improve_total nw NF NX DF DH DLI OC CN)|].
  exact (final_stages_total nw NF NX DF DH DT).
Qed.

(** * the hypotheses are satisfiable: a loaded network (NoPanicFactsB.WitnessRoom: one depot of capacity 1, overflow
      depot of capacity 3) and a start solution of two tours from the same depot, the second of which does not fit into
      the named depot and is put into the overflow depot by add_suitable_depots *)
Module PT_witness.
Import NPB_wit.WitnessRoom NPB_wit3.RoomCovered.
Definition toursW : list (Z * list node_id) := [(0, [SD 0; SV 4; ED 1]); (0, [SD 0; SV 5; ED 1])].

Lemma instS_unsigned : inst_unsigned instS.
Proof.
  split; [|split].
  - intros vt l H E. cbn in H. destruct H as [<-|[]]. discriminate E.
  - intros r g l Hr Hg E. cbn in Hr. destruct Hr as [<-|[<-|[]]]; cbn in Hg; destruct Hg as [<-|[]]; discriminate E.
  - intros d H. cbn in H. destruct H as [<-|[]]. cbn. split; [lia|]. intros t c [Q|[]]. discriminate Q.
Qed.

Lemma toursW_paths : tours_are_paths nwS toursW.
Proof.
  intros ty p [H|[H|[]]]; inversion H; subst; (split; [discriminate|]); (split; [|vm_compute; reflexivity]);
    apply windows_forallb; vm_compute; reflexivity.
Qed.
Lemma toursW_known : tours_known nwS toursW.
Proof.
  intros ty p n [H|[H|[]]] Hn; inversion H; subst; cbn in Hn;
    repeat (destruct Hn as [<-|Hn]; [vm_compute; reflexivity|]); destruct Hn.
Qed.
Lemma toursW_typed : tours_typed nwS toursW.
Proof.
  intros ty p [H|[H|[]]]; inversion H; subst; (split; [vm_compute; now left|]); (split; [vm_compute; reflexivity|]).
  - exists (SD 0), [SV 4], (ED 1). split; [reflexivity|]. split; vm_compute; reflexivity.
  - exists (SD 0), [SV 5], (ED 1). split; [reflexivity|]. split; vm_compute; reflexivity.
Qed.
Lemma toursW_limits : tours_within_limits nwS toursW.
Proof.
  intros n Hn. assert (E : coverable_nodes nwS = [SV 4; SV 5; MT 6]) by (vm_compute; reflexivity). rewrite E in Hn.
  destruct Hn as [<-|[<-|[<-|[]]]]; vm_compute; try exact Logic.I; discriminate.
Qed.
Lemma toursW_fleet : fleet_fits_overflow nwS toursW.
Proof.
  unfold fleet_fits_overflow. destruct nwS_overflow as (-> & _ & T). split.
  - rewrite T. cbn. lia.
  - intros ty Hty. vm_compute in Hty. destruct Hty as [<-|[]]. vm_compute. discriminate.
Qed.

Theorem witness_pipeline :
  exists s0 s1, from_tours nwS toursW = Ok s0 /\ improve_depots nwS s0 None = Ok s1 /\
    forall ls, ls_path nwS s1 ls ->
      no_crash (neighbors nwS ls) /\
      forall trans, trans_valid nwS ls trans ->
        exists final out, reassign_end_depots_consistent nwS (set_next_day_transitions ls trans) = Ok final /\
                          render nwS final = Ok out.
Proof.
  assert (PO : perm_ok instS []) by (intros Q; discriminate Q).
  exact (pipeline_never_crashes_loaded instS [] nwS instS_valid instS_unsigned instS_costs PO nwS_loaded toursW
           toursW_paths toursW_known toursW_typed toursW_limits toursW_fleet).
Qed.

(* the second vehicle of the start schedule is indeed in the overflow depot (index 1), and the first improvement
   leaves one vehicle there *)
Lemma witness_overflow_used :
  match from_tours nwS toursW with
  | Ok s0 => spawned_total nwS (s_usage s0) 1 = 1 /\
             match improve_depots nwS s0 None with Ok s1 => spawned_total nwS (s_usage s1) 1 = 1 | _ => False end
  | _ => False end.
Proof. vm_compute. auto. Qed.
End PT_witness.

Print Assumptions from_tours_total.
Print Assumptions start_improve_total.
Print Assumptions final_stages_total.
Print Assumptions pipeline_never_crashes.
Print Assumptions pipeline_parts_loaded.
Print Assumptions pipeline_never_crashes_loaded.
Print Assumptions PT_witness.witness_pipeline.
