(* PipelineTotalStmts.v — C06 ("neither panics nor runs forever") at the level of the functional model, in which every
   unwrap / index / unsigned subtraction of the code is an explicit Panic and every fuelled loop an explicit OutOfFuel:
   the stages of the pipeline never crash on the inputs the previous stages produce. Oracles (flow solver, pick,
   transition optimiser) are constrained by what is checked of them on every run. Proofs in PipelineTotalFacts.v. *)
From RS Require Import Base Network NetSpec LoadStmts LoadFacts Tour TourStmts SchedObs Output Transition TransSpec
  Schedule SchedInv SchedStruct Swaps SwapsStmts2 PipelineSched Render RenderStmts Flow FlowStmts CoverStmts
  EndToEndStmts EndToEndFacts NoPanicStmts NoPanicFactsA NoPanicFactsB.

Section PT.
Variable nw : network.

(* the decoded flow tours respect the formation and track limits (FlowFacts2: decomposition_covers gives this for
   decompositions of feasible flows; the slot allotment is within the track counts: checked on every run) *)
Definition limit_ok (n : node_id) (k : Z) : Prop :=
  match nd nw n with
  | NMaint _ => k <= track_count nw n
  | NService _ => match maximal_formation_count_for nw n with Some l => k <= l | None => True end
  | _ => True
  end.
Definition tours_within_limits (tours : list (Z * list node_id)) : Prop :=
  forall n, In n (coverable_nodes nw) -> limit_ok n (visits (map snd tours) n).
(* every tour is typed, starts with a start depot, ends with an end depot and has only compatible nodes *)
Definition tours_typed (tours : list (Z * list node_id)) : Prop :=
  forall ty p, In (ty, p) tours ->
    In ty (type_ids nw) /\ forallb (fun n => compatible_with_vehicle_type nw n ty) p = true /\
    exists sd mid ed, p = sd :: mid ++ [ed] /\ is_start_depot (nd nw sd) = true /\ is_end_depot (nd nw ed) = true.
(* the fleet of the start solution fits into the overflow depot (which load sizes for the largest fleet the instance
   can need) *)
Definition fleet_fits_overflow (tours : list (Z * list node_id)) : Prop :=
  let '(od, _, _) := nw_overflow nw in
  Z.of_nat (length tours) <= total_capacity_of nw od /\
  forall ty, In ty (type_ids nw) ->
    Z.of_nat (length (filter (fun '(t, _) => t =? ty) tours)) <= capacity_of nw od ty.

(* 1. building the start schedule never crashes *)
Definition stmt_from_tours_total : Prop :=
  forall tours, tours_are_paths nw tours -> tours_known nw tours -> tours_typed tours -> tours_within_limits tours ->
    exists s0, from_tours nw tours = Ok s0.

(* 2. the first depot improvement never crashes and leaves a schedule within the capacity of EVERY depot *)
Definition stmt_start_improve_total : Prop :=
  forall tours s0, tours_are_paths nw tours -> tours_known nw tours -> fleet_fits_overflow tours ->
    from_tours nw tours = Ok s0 ->
    exists s1, improve_depots nw s0 None = Ok s1 /\ NPB_lim.FullLimits nw s1 /\ FKs nw s1 /\ wreachable nw s1.

(* 3. the stages after the search never crash, and the result renders *)
Definition stmt_final_stages_total : Prop :=
  forall ls trans, wreachable nw ls -> FKs nw ls -> trans_valid nw ls trans ->
    exists final out, reassign_end_depots_consistent nw (set_next_day_transitions ls trans) = Ok final /\
                      render nw final = Ok out.

(* 4. all together: with a start solution as above, every choice of the search and of the optimiser leads to an
   answer, and no neighbourhood generation on the way crashes *)
Definition stmt_pipeline_never_crashes : Prop :=
  forall tours, tours_are_paths nw tours -> tours_known nw tours -> tours_typed tours ->
    tours_within_limits tours -> fleet_fits_overflow tours ->
    exists s0 s1, from_tours nw tours = Ok s0 /\ improve_depots nw s0 None = Ok s1 /\
      forall ls, ls_path nw s1 ls ->
        no_crash (neighbors nw ls) /\
        forall trans, trans_valid nw ls trans ->
          exists final out, reassign_end_depots_consistent nw (set_next_day_transitions ls trans) = Ok final /\
                            render nw final = Ok out.
End PT.

(* for loaded networks *)
Definition stmt_pipeline_never_crashes_loaded : Prop :=
  forall i perm nw,
    valid_instance_b i = true -> inst_unsigned i -> params_costs_nonneg (i_params i) -> perm_ok i perm ->
    load i perm = Ok nw -> stmt_pipeline_never_crashes nw.
