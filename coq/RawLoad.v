(* RawLoad.v — the reference-resolving layer of model/src/json_serialisation/mod.rs: the instance as the JSON gives it,
   with every reference still an IDENTIFIER (interned as an integer by the test glue; nothing else is done outside Coq),
   and [resolve], which turns it into the index-based [instance] that [load] consumes:
   - location and vehicle-type ids go through HashMaps filled in listing order (a repeated id: the LAST entry wins);
   - a departure's route is the FIRST route with that id (`iter().find`), its route segment the first segment with
     that id INSIDE that route (segment ids are local to their route);
   - the dead-head matrices are listed in the order of `indices`, an arbitrary arrangement of the location ids; row i /
     column j belong to location indices[i] / indices[j] (inserted into HashMaps: last wins);
   - a depot's allowedTypes are inserted into a HashMap (last wins);
   - a dangling reference is a panic (`HashMap[..]`, `find(..).unwrap()`), a matrix smaller than `indices` an index panic;
   - a location that `indices` does not mention has no dead-head entry: the getters unwrap a missing entry only when
     used, so here it is reported as Panic as well (outside "references resolve"). *)
From RS Require Import Base Network.

Record rvtype := { rv_id : Z; rv_cap : Z; rv_seats : Z; rv_limit : option Z }.
Record rdepot := { rd_loc : Z; rd_cap : Z; rd_allowed : list (Z * option Z) }.
Record rrseg := { rg_id : Z; rg_origin : Z; rg_dest : Z; rg_dist : Z; rg_dur : Z; rg_limit : option Z }.
Record rroute := { rr_id : Z; rr_type : Z; rr_segs : list rrseg }.
Record rdseg := { rds_rseg : Z; rds_dep : Z; rds_pass : Z; rds_seated : Z }.
Record rdeparture := { rdp_route : Z; rdp_segs : list rdseg }.
Record rslot := { rsl_loc : Z; rsl_start : Z; rsl_end : Z; rsl_tracks : Z }.
Record raw_instance := {
  ri_types : list rvtype;
  ri_locs : list Z;                       (* location ids in listing order *)
  ri_depots : option (list rdepot);
  ri_routes : list rroute;
  ri_departures : list rdeparture;
  ri_slots : option (list rslot);
  ri_dh_indices : list Z;                 (* location ids *)
  ri_dh_dur : list (list Z);
  ri_dh_dist : list (list Z);
  ri_params : params }.

(* index of the last / first occurrence *)
Fixpoint last_index (id : Z) (l : list Z) (k : nat) (acc : option nat) : option nat :=
  match l with
  | [] => acc
  | x :: r => last_index id r (S k) (if x =? id then Some k else acc)
  end.
Definition lookup_last (id : Z) (l : list Z) : option nat := last_index id l 0%nat None.
Definition lookup_first (id : Z) (l : list Z) : option nat := index_of (fun x => x =? id) l.

(* HashMap filled by successive inserts, read through assoc-first: reverse, keep the first of each key *)
Fixpoint dedup_first {B} (seen : list Z) (l : list (Z * B)) : list (Z * B) :=
  match l with
  | [] => []
  | (k, v) :: r => if existsb (Z.eqb k) seen then dedup_first seen r else (k, v) :: dedup_first (k :: seen) r
  end.
Definition last_wins {B} (l : list (Z * B)) : list (Z * B) := dedup_first [] (rev l).

Fixpoint map_res {A B} (f : A -> res B) (l : list A) : res (list B) :=
  match l with
  | [] => Ok []
  | x :: r => do y <- f x; do ys <- map_res f r; Ok (y :: ys)
  end.

Section Resolve.
Variable r : raw_instance.

Definition loc_ix (id : Z) : res Z := do k <- unwrap_opt (lookup_last id (ri_locs r)); Ok (Z.of_nat k).
Definition type_ix (id : Z) : res Z := do k <- unwrap_opt (lookup_last id (map rv_id (ri_types r))); Ok (Z.of_nat k).

Definition res_type (t : rvtype) : vtype := {| vt_cap := rv_cap t; vt_seats := rv_seats t; vt_limit := rv_limit t |}.

Definition res_depot (d : rdepot) : res idepot :=
  do l <- loc_ix (rd_loc d);
  do al <- map_res (fun '(t, c) => do k <- type_ix t; Ok (k, c)) (rd_allowed d);
  Ok {| id_loc := l; id_cap := rd_cap d; id_allowed := last_wins al |}.

(* routes are resolved LAZILY by the loader: a route's vehicle type and a segment's locations are looked up only when a
   departure uses them (create_service_trips, determine_planning_days).  A reference of an unused route / segment that
   does not resolve is never noticed: it becomes the sentinel -1 here, which [load] never reads either. *)
Definition ix_or_neg (o : option nat) : Z := match o with Some k => Z.of_nat k | None => -1 end.
Definition res_rseg (g : rrseg) : rseg :=
  {| rs_origin := ix_or_neg (lookup_last (rg_origin g) (ri_locs r));
     rs_dest := ix_or_neg (lookup_last (rg_dest g) (ri_locs r));
     rs_dist := rg_dist g; rs_dur := rg_dur g; rs_limit := rg_limit g |}.
Definition res_route (x : rroute) : route :=
  {| r_type := ix_or_neg (lookup_last (rr_type x) (map rv_id (ri_types r))); r_segs := map res_rseg (rr_segs x) |}.

(* per departure: the route (first with that id) and its vehicle type must resolve, even for a departure without segments;
   per departure segment: the route segment (first with that id inside the route) and both its locations *)
Definition res_departure (d : rdeparture) : res departure :=
  do k <- unwrap_opt (lookup_first (rdp_route d) (map rr_id (ri_routes r)));
  do rt <- unwrap_opt (nth_error (ri_routes r) k);
  do _ <- type_ix (rr_type rt);
  do segs <- map_res (fun s => do g <- unwrap_opt (lookup_first (rds_rseg s) (map rg_id (rr_segs rt)));
                               do sg <- unwrap_opt (nth_error (rr_segs rt) g);
                               do _ <- loc_ix (rg_origin sg);
                               do _ <- loc_ix (rg_dest sg);
                               Ok {| ds_rseg := g; ds_dep := rds_dep s; ds_pass := rds_pass s; ds_seated := rds_seated s |})
                     (rdp_segs d);
  Ok {| d_route := k; d_segs := segs |}.

Definition res_slot (s : rslot) : res islot :=
  do l <- loc_ix (rsl_loc s);
  Ok {| is_loc := l; is_start := rsl_start s; is_end := rsl_end s; is_tracks := rsl_tracks s |}.

Definition opt_map_res {A B} (f : A -> res B) (o : option (list A)) : res (option (list B)) :=
  match o with None => Ok None | Some l => do l' <- map_res f l; Ok (Some l') end.

(* matrix by location index: entry (a, b) is listed at (i, j) where i / j are the LAST positions of `indices` that
   resolve to a / b *)
Definition dh_matrix (m : list (list Z)) : res (list (list Z)) :=
  do ix <- map_res loc_ix (ri_dh_indices r);
  let n := length ix in
  (* durations[i][j] for all i, j < n is read by the loader: smaller matrices are index panics *)
  if negb (Nat.leb n (length m) && forallb (fun row => Nat.leb n (length row)) (firstn n m)) then Panic else
  let nl := length (ri_locs r) in
  map_res (fun a =>
    do i <- unwrap_opt (lookup_last (Z.of_nat a) ix);
    map_res (fun b =>
      do j <- unwrap_opt (lookup_last (Z.of_nat b) ix);
      Ok (nth j (nth i m []) 0)) (seq 0 nl)) (seq 0 nl).

Definition resolve : res instance :=
  do deps <- opt_map_res res_depot (ri_depots r);
  let routes := map res_route (ri_routes r) in
  do dps <- map_res res_departure (ri_departures r);
  do slots <- opt_map_res res_slot (ri_slots r);
  do dur <- dh_matrix (ri_dh_dur r);
  do dst <- dh_matrix (ri_dh_dist r);
  Ok {| i_types := map res_type (ri_types r); i_nlocs := length (ri_locs r); i_depots := deps; i_routes := routes;
        i_departures := dps; i_slots := slots; i_dh_dur := dur; i_dh_dist := dst; i_params := ri_params r |}.

End Resolve.

Definition load_raw (r : raw_instance) (perm : list Z) : res network :=
  do i <- resolve r; load i perm.
