(* RawLoadFacts.v — proofs of the statements of RawLoadStmts.v (the reference-resolving layer, RawLoad.v). *)
From Coq Require Import Permutation.
From RS Require Import Base Network NetSpec LoadStmts LoadFacts RawLoad RawLoadStmts.

(** * Boolean reflection *)
Lemma zin_In x l : zin x l = true <-> In x l.
Proof.
  unfold zin. rewrite existsb_exists. split.
  - intros [y [Hy He]]. apply Z.eqb_eq in He. subst; auto.
  - intros H. exists x. split; auto. apply Z.eqb_refl.
Qed.

Lemma nodup_z_NoDup l : nodup_z l = true <-> NoDup l.
Proof.
  induction l as [|a l IH]; cbn [nodup_z].
  - split; intros; [constructor|reflexivity].
  - rewrite andb_true_iff, negb_true_iff. split.
    + intros [H1 H2]. constructor.
      * intro Hin. apply zin_In in Hin. congruence.
      * apply IH; auto.
    + intros H. inversion H as [|? ? Hn Hd]; subst. split.
      * destruct (zin a l) eqn:E; auto. apply zin_In in E. contradiction.
      * apply IH; auto.
Qed.

(** * res monad *)
Lemma bind_ok {A B} (x : res A) (f : A -> res B) b : bind x f = Ok b -> exists a, x = Ok a /\ f a = Ok b.
Proof. destruct x; cbn [bind]; intros H; try discriminate. eauto. Qed.

Lemma unwrap_opt_ok {A} (o : option A) a : unwrap_opt o = Ok a -> o = Some a.
Proof. destruct o; cbn [unwrap_opt]; intros H; try discriminate. congruence. Qed.

(** * Forall2 helpers *)
Lemma Forall2_nth_l {A B} (R : A -> B -> Prop) l l' : Forall2 R l l' ->
  forall k x, nth_error l k = Some x -> exists y, nth_error l' k = Some y /\ R x y.
Proof.
  induction 1 as [|x0 y0 l l' H0 HF IH]; intros k x Hk.
  - destruct k; discriminate.
  - destruct k as [|k]; cbn [nth_error] in *.
    + injection Hk as <-. eauto.
    + eauto.
Qed.

Lemma Forall2_nth_r {A B} (R : A -> B -> Prop) l l' : Forall2 R l l' ->
  forall k y, nth_error l' k = Some y -> exists x, nth_error l k = Some x /\ R x y.
Proof.
  induction 1 as [|x0 y0 l l' H0 HF IH]; intros k y Hk.
  - destruct k; discriminate.
  - destruct k as [|k]; cbn [nth_error] in *.
    + injection Hk as <-. eauto.
    + eauto.
Qed.

Lemma Forall2_len {A B} (R : A -> B -> Prop) l l' : Forall2 R l l' -> length l = length l'.
Proof. induction 1; cbn [length]; congruence. Qed.

Lemma Forall2_in_r {A B} (R : A -> B -> Prop) l l' : Forall2 R l l' ->
  forall y, In y l' -> exists x, In x l /\ R x y.
Proof.
  induction 1 as [|x0 y0 l l' H0 HF IH]; intros y Hy.
  - destruct Hy.
  - destruct Hy as [<-|Hy].
    + exists x0; split; [left; auto|auto].
    + destruct (IH _ Hy) as (x & Hx & HR). exists x; split; [right; auto|auto].
Qed.

Lemma Forall2_impl_in {A B} (R S : A -> B -> Prop) l l' :
  Forall2 R l l' -> (forall x y, In x l -> R x y -> S x y) -> Forall2 S l l'.
Proof.
  induction 1 as [|x0 y0 l l' H0 HF IH]; intros HI; constructor.
  - apply HI; [left; auto|auto].
  - apply IH. intros x y Hx. apply HI. right; auto.
Qed.

Lemma Forall2_map_r_in {A B} (R : A -> B -> Prop) (f : A -> B) l :
  (forall x, In x l -> R x (f x)) -> Forall2 R l (map f l).
Proof.
  induction l as [|a l IH]; intros H; cbn [map]; constructor.
  - apply H; left; auto.
  - apply IH. intros x Hx. apply H; right; auto.
Qed.

Lemma Forall2_forallb_r {A B} (R : A -> B -> Prop) (P : B -> bool) l l' :
  Forall2 R l l' -> (forall x y, In x l -> R x y -> P y = true) -> forallb P l' = true.
Proof.
  intros HF HP. apply forallb_forall. intros y Hy.
  destruct (Forall2_in_r _ _ _ HF y Hy) as (x & Hx & HR). eauto.
Qed.

(** * map_res *)
Lemma map_res_Forall2 {A B} (f : A -> res B) l : forall l', map_res f l = Ok l' -> Forall2 (fun x y => f x = Ok y) l l'.
Proof.
  induction l as [|a l IH]; intros l' H; cbn [map_res] in H.
  - injection H as <-. constructor.
  - apply bind_ok in H. destruct H as (y & Hy & H).
    apply bind_ok in H. destruct H as (ys & Hys & H). injection H as <-.
    constructor; auto.
Qed.

Lemma map_res_total {A B} (f : A -> res B) l :
  (forall x, In x l -> exists y, f x = Ok y) -> exists l', map_res f l = Ok l'.
Proof.
  induction l as [|a l IH]; intros H; cbn [map_res].
  - eauto.
  - destruct (H a) as (y & Hy); [left; auto|]. rewrite Hy. cbn [bind].
    destruct IH as (ys & Hys). { intros x Hx. apply H; right; auto. }
    rewrite Hys. cbn [bind]. eauto.
Qed.

Lemma map_res_length {A B} (f : A -> res B) l l' : map_res f l = Ok l' -> length l' = length l.
Proof. intros H. apply map_res_Forall2 in H. symmetry. eapply Forall2_len; eauto. Qed.

(** * lookup_last / lookup_first *)
Lemma last_index_some id l : forall k acc p, last_index id l k acc = Some p ->
  acc = Some p \/ (k <= p /\ nth_error l (p - k) = Some id)%nat.
Proof.
  induction l as [|x l IH]; intros k acc p H; cbn [last_index] in H.
  - left; auto.
  - apply IH in H. destruct H as [H|[H1 H2]].
    + destruct (Z.eqb_spec x id) as [E|E].
      * injection H as <-. right. split; [lia|]. rewrite Nat.sub_diag. cbn [nth_error]. congruence.
      * left; auto.
    + right. split; [lia|]. replace (p - k)%nat with (S (p - S k)) by lia. cbn [nth_error]. auto.
Qed.

Lemma last_index_in id l : forall k acc, (In id l \/ exists p, acc = Some p) -> exists p, last_index id l k acc = Some p.
Proof.
  induction l as [|x l IH]; intros k acc H; cbn [last_index].
  - destruct H as [[]|H]; auto.
  - apply IH. destruct (Z.eqb_spec x id) as [E|E].
    + right; eauto.
    + destruct H as [[H|H]|H]; [contradiction|left; auto|right; auto].
Qed.

Lemma lookup_last_some id l k : lookup_last id l = Some k -> nth_error l k = Some id.
Proof.
  unfold lookup_last. intros H. apply last_index_some in H. destruct H as [H|[_ H]]; [discriminate|].
  now rewrite Nat.sub_0_r in H.
Qed.

Lemma lookup_last_in id l : In id l -> exists k, lookup_last id l = Some k.
Proof. intros H. apply last_index_in. left; auto. Qed.

Lemma nth_error_lt {A} (l : list A) k x : nth_error l k = Some x -> (k < length l)%nat.
Proof. intros H. apply nth_error_Some. congruence. Qed.

Lemma NoDup_nth_error_inj {A} (l : list A) i j x : NoDup l -> nth_error l i = Some x -> nth_error l j = Some x -> i = j.
Proof.
  intros ND Hi Hj. apply (proj1 (NoDup_nth_error l) ND).
  - eapply nth_error_lt; eauto.
  - congruence.
Qed.

Lemma lookup_last_nodup id l k : NoDup l -> nth_error l k = Some id -> lookup_last id l = Some k.
Proof.
  intros ND Hk. destruct (lookup_last_in id l) as (k' & Hk'). { eapply nth_error_In; eauto. }
  rewrite Hk'. f_equal. eapply NoDup_nth_error_inj; eauto. now apply lookup_last_some.
Qed.

Lemma lookup_first_map_some {A} (f : A -> Z) id l : forall k, lookup_first id (map f l) = Some k ->
  exists x, nth_error l k = Some x /\ f x = id.
Proof.
  unfold lookup_first. induction l as [|a l IH]; intros k H; cbn [map index_of] in H.
  - discriminate.
  - destruct (Z.eqb_spec (f a) id) as [E|E].
    + injection H as <-. exists a. split; auto.
    + destruct (index_of (fun x => x =? id) (map f l)) as [i|] eqn:Ei; [|discriminate].
      injection H as <-. cbn [nth_error]. apply IH; auto.
Qed.

Lemma lookup_first_map_in {A} (f : A -> Z) id l : In id (map f l) -> exists k, lookup_first id (map f l) = Some k.
Proof.
  unfold lookup_first. induction l as [|a l IH]; intros H; cbn [map index_of] in *.
  - destruct H.
  - destruct (Z.eqb_spec (f a) id) as [E|E]; [eauto|].
    destruct H as [H|H]; [contradiction|]. destruct (IH H) as (k & Hk). rewrite Hk. eauto.
Qed.

Lemma find_lookup_first {A} (f : A -> Z) id l x : find (fun y => f y =? id) l = Some x ->
  exists k, lookup_first id (map f l) = Some k /\ nth_error l k = Some x.
Proof.
  unfold lookup_first. induction l as [|a l IH]; intros H; cbn [map index_of find] in *.
  - discriminate.
  - destruct (Z.eqb_spec (f a) id) as [E|E].
    + injection H as <-. exists 0%nat. split; auto.
    + destruct (IH H) as (k & Hk & Hn). rewrite Hk. exists (S k). split; auto.
Qed.

(** * id_at *)
Lemma id_at_bounds ids k id : id_at ids k id -> (0 <=? k) && (k <? Z.of_nat (length ids)) = true.
Proof.
  intros [H0 Hn]. apply nth_error_lt in Hn. apply andb_true_iff. split.
  - apply Z.leb_le; auto.
  - apply Z.ltb_lt. lia.
Qed.

Lemma id_at_of_nat ids k id : nth_error ids k = Some id -> id_at ids (Z.of_nat k) id.
Proof. intros H. split; [lia|]. now rewrite Nat2Z.id. Qed.

Lemma id_at_inj ids k id id' : id_at ids k id -> id_at ids k id' -> id = id'.
Proof. intros [_ H1] [_ H2]. congruence. Qed.

Lemma id_at_nodup ids k a id : NoDup ids -> id_at ids k id -> nth_error ids a = Some id -> k = Z.of_nat a.
Proof.
  intros ND [H0 Hk] Ha. assert (Z.to_nat k = a) by (eapply NoDup_nth_error_inj; eauto). lia.
Qed.

Lemma ix_or_neg_in id l : In id l -> id_at l (ix_or_neg (lookup_last id l)) id.
Proof.
  intros H. destruct (lookup_last_in id l H) as (k & Hk). rewrite Hk. cbn [ix_or_neg].
  apply id_at_of_nat. now apply lookup_last_some.
Qed.

Section WithR.
Variable r : raw_instance.

Lemma loc_ix_ok id z : loc_ix r id = Ok z -> id_at (ri_locs r) z id.
Proof.
  unfold loc_ix. intros H. apply bind_ok in H. destruct H as (k & Hk & H). injection H as <-.
  apply unwrap_opt_ok in Hk. apply id_at_of_nat. now apply lookup_last_some.
Qed.

Lemma type_ix_ok id z : type_ix r id = Ok z -> id_at (map rv_id (ri_types r)) z id.
Proof.
  unfold type_ix. intros H. apply bind_ok in H. destruct H as (k & Hk & H). injection H as <-.
  apply unwrap_opt_ok in Hk. apply id_at_of_nat. now apply lookup_last_some.
Qed.

Lemma loc_ix_total id : In id (ri_locs r) -> exists z, loc_ix r id = Ok z.
Proof.
  intros H. unfold loc_ix. destruct (lookup_last_in _ _ H) as (k & Hk). rewrite Hk. cbn [unwrap_opt bind]. eauto.
Qed.

Lemma type_ix_total id : In id (map rv_id (ri_types r)) -> exists z, type_ix r id = Ok z.
Proof.
  intros H. unfold type_ix. destruct (lookup_last_in _ _ H) as (k & Hk). rewrite Hk. cbn [unwrap_opt bind]. eauto.
Qed.

End WithR.

(** * The hypotheses, as propositions *)
Definition depots_l (r : raw_instance) := match ri_depots r with Some l => l | None => [] end.
Definition slots_l (r : raw_instance) := match ri_slots r with Some l => l | None => [] end.

Lemma refs_ok_split r : raw_refs_ok_b r = true ->
  NoDup (ri_locs r) /\ NoDup (map rv_id (ri_types r)) /\ NoDup (map rr_id (ri_routes r)) /\
  (forall x, In x (ri_routes r) -> NoDup (map rg_id (rr_segs x)) /\ In (rr_type x) (map rv_id (ri_types r)) /\
       forall g, In g (rr_segs x) -> In (rg_origin g) (ri_locs r) /\ In (rg_dest g) (ri_locs r)) /\
  (forall d, In d (ri_departures r) -> exists x, find (fun x => rr_id x =? rdp_route d) (ri_routes r) = Some x /\
       forall s, In s (rdp_segs d) -> In (rds_rseg s) (map rg_id (rr_segs x))) /\
  (forall d, In d (depots_l r) -> In (rd_loc d) (ri_locs r) /\
       (forall t c, In (t, c) (rd_allowed d) -> In t (map rv_id (ri_types r))) /\ NoDup (map fst (rd_allowed d))) /\
  (forall s, In s (slots_l r) -> In (rsl_loc s) (ri_locs r)) /\
  length (ri_dh_indices r) = length (ri_locs r) /\ NoDup (ri_dh_indices r) /\
  (forall x, In x (ri_dh_indices r) -> In x (ri_locs r)) /\
  length (ri_dh_dur r) = length (ri_locs r) /\ (forall row, In row (ri_dh_dur r) -> length row = length (ri_locs r)) /\
  length (ri_dh_dist r) = length (ri_locs r) /\ (forall row, In row (ri_dh_dist r) -> length row = length (ri_locs r)).
Proof.
  unfold raw_refs_ok_b. cbv zeta. rewrite !andb_true_iff.
  intros [[[[[[[[[[[[[H1 H2] H3] H4] H5] H6] H7] H8] H9] H10] H11] H12] H13] H14].
  split; [now apply nodup_z_NoDup|]. split; [now apply nodup_z_NoDup|]. split; [now apply nodup_z_NoDup|].
  split.
  { intros x Hx. rewrite forallb_forall in H4. specialize (H4 x Hx). rewrite !andb_true_iff in H4.
    destruct H4 as [[Ha Hb] Hc]. split; [now apply nodup_z_NoDup|]. split; [now apply zin_In|].
    intros g Hg. rewrite forallb_forall in Hc. specialize (Hc g Hg). rewrite andb_true_iff in Hc.
    destruct Hc as [Hc1 Hc2]. split; now apply zin_In. }
  split.
  { intros d Hd. rewrite forallb_forall in H5. specialize (H5 d Hd).
    destruct (find (fun x => rr_id x =? rdp_route d) (ri_routes r)) as [x|]; [|discriminate].
    exists x. split; auto. intros s Hs. rewrite forallb_forall in H5. apply zin_In. now apply H5. }
  split.
  { intros d Hd. fold (depots_l r) in H6. rewrite forallb_forall in H6. specialize (H6 d Hd). rewrite !andb_true_iff in H6.
    destruct H6 as [[Ha Hb] Hc]. split; [now apply zin_In|]. split; [|now apply nodup_z_NoDup].
    intros t c Htc. rewrite forallb_forall in Hb. specialize (Hb _ Htc). cbn beta iota in Hb. now apply zin_In. }
  split.
  { intros s Hs. fold (slots_l r) in H7. rewrite forallb_forall in H7. apply zin_In. now apply H7. }
  split; [now apply Nat.eqb_eq|]. split; [now apply nodup_z_NoDup|].
  split. { intros x Hx. rewrite forallb_forall in H10. apply zin_In. now apply H10. }
  split; [now apply Nat.eqb_eq|].
  split. { intros row Hrow. rewrite forallb_forall in H12. apply Nat.eqb_eq. now apply H12. }
  split; [now apply Nat.eqb_eq|].
  intros row Hrow. rewrite forallb_forall in H14. apply Nat.eqb_eq. now apply H14.
Qed.

Lemma numbers_ok_split r : raw_numbers_ok_b r = true ->
  (forall t, In t (ri_types r) -> 0 < rv_cap t /\ 0 < rv_seats t) /\
  (forall x, In x (ri_routes r) -> forall g, In g (rr_segs x) -> 0 <= rg_dist g /\ 0 < rg_dur g) /\
  (forall d, In d (ri_departures r) -> forall s, In s (rdp_segs d) -> 0 <= rds_pass s /\ 0 <= rds_seated s) /\
  negb (Nat.eqb (length (flat_map rdp_segs (ri_departures r))) 0) = true /\
  (forall s, In s (slots_l r) -> rsl_start s < rsl_end s /\ 0 <= rsl_tracks s) /\
  (forall d, In d (depots_l r) -> 0 <= rd_cap d) /\
  (forall row, In row (ri_dh_dur r) -> forall x, In x row -> 0 <= x) /\
  (forall row, In row (ri_dh_dist r) -> forall x, In x row -> 0 <= x) /\
  (0 <=? p_min (ri_params r)) = true /\ (0 <=? p_dht (ri_params r)) = true /\
  (2 * (Z.of_nat (match ri_depots r with Some l => length l | None => length (ri_locs r) end) + 1) +
   Z.of_nat (length (flat_map rdp_segs (ri_departures r))) +
   Z.of_nat (length (slots_l r)) <=? 65536) = true.
Proof.
  unfold raw_numbers_ok_b. rewrite !andb_true_iff.
  intros [[[[[[[[[[H1 H2] H3] H4] H5] H6] H7] H8] H9] H10] H11].
  split.
  { intros t Ht. rewrite forallb_forall in H1. specialize (H1 t Ht). rewrite andb_true_iff in H1.
    destruct H1 as [Ha Hb]. apply Z.ltb_lt in Ha, Hb. auto. }
  split.
  { intros x Hx g Hg. rewrite forallb_forall in H2. specialize (H2 x Hx). rewrite forallb_forall in H2.
    specialize (H2 g Hg). rewrite andb_true_iff in H2. destruct H2 as [Ha Hb].
    apply Z.leb_le in Ha. apply Z.ltb_lt in Hb. auto. }
  split.
  { intros d Hd s Hs. rewrite forallb_forall in H3. specialize (H3 d Hd). rewrite forallb_forall in H3.
    specialize (H3 s Hs). rewrite andb_true_iff in H3. destruct H3 as [Ha Hb].
    apply Z.leb_le in Ha, Hb. auto. }
  split; [exact H4|].
  split.
  { intros s Hs. fold (slots_l r) in H5. rewrite forallb_forall in H5. specialize (H5 s Hs). rewrite andb_true_iff in H5.
    destruct H5 as [Ha Hb]. apply Z.ltb_lt in Ha. apply Z.leb_le in Hb. auto. }
  split.
  { intros d Hd. fold (depots_l r) in H6. rewrite forallb_forall in H6. apply Z.leb_le. now apply H6. }
  split.
  { intros row Hrow x Hx. rewrite forallb_forall in H7. specialize (H7 row Hrow). rewrite forallb_forall in H7.
    apply Z.leb_le. now apply H7. }
  split.
  { intros row Hrow x Hx. rewrite forallb_forall in H8. specialize (H8 row Hrow). rewrite forallb_forall in H8.
    apply Z.leb_le. now apply H8. }
  auto.
Qed.

(** * Relations of the faithfulness statement *)
Definition seg_rel r (g : rrseg) (h : rseg) : Prop :=
  id_at (ri_locs r) (rs_origin h) (rg_origin g) /\ id_at (ri_locs r) (rs_dest h) (rg_dest g) /\
  rs_dist h = rg_dist g /\ rs_dur h = rg_dur g /\ rs_limit h = rg_limit g.
Definition route_rel r (x : rroute) (y : route) : Prop :=
  id_at (map rv_id (ri_types r)) (r_type y) (rr_type x) /\ Forall2 (seg_rel r) (rr_segs x) (r_segs y).
Definition dseg_rel (x : rroute) (s : rdseg) (t : dseg) : Prop :=
  (exists g, nth_error (rr_segs x) (ds_rseg t) = Some g /\ rg_id g = rds_rseg s) /\
  ds_dep t = rds_dep s /\ ds_pass t = rds_pass s /\ ds_seated t = rds_seated s.
Definition dep_rel r (d : rdeparture) (e : departure) : Prop :=
  exists x, nth_error (ri_routes r) (d_route e) = Some x /\ rr_id x = rdp_route d /\
            Forall2 (dseg_rel x) (rdp_segs d) (d_segs e).
Definition slot_rel r (s : rslot) (t : islot) : Prop :=
  id_at (ri_locs r) (is_loc t) (rsl_loc s) /\ is_start t = rsl_start s /\ is_end t = rsl_end s /\
  is_tracks t = rsl_tracks s.
Definition depot_rel r (d : rdepot) (e : idepot) : Prop :=
  id_at (ri_locs r) (id_loc e) (rd_loc d) /\ id_cap e = rd_cap d /\
  forall t c k, In (t, c) (rd_allowed d) -> id_at (map rv_id (ri_types r)) k t ->
                assoc Z.eqb k (id_allowed e) = Some c.

(** * last_wins *)
Lemma assoc_dedup_first {B} k (l : list (Z * B)) : forall seen,
  assoc Z.eqb k (dedup_first seen l) = if zin k seen then None else assoc Z.eqb k l.
Proof.
  induction l as [|[k' v] l IH]; intros seen; cbn [dedup_first assoc].
  - now destruct (zin k seen).
  - fold (zin k' seen). destruct (zin k' seen) eqn:Ek'.
    + rewrite IH. destruct (zin k seen) eqn:Ek; auto.
      destruct (Z.eqb_spec k k') as [E|E]; auto. subst. congruence.
    + cbn [assoc]. rewrite IH. unfold zin at 1. cbn [existsb]. fold (zin k seen).
      destruct (Z.eqb_spec k k') as [E|E]; cbn [orb].
      * subst. now rewrite Ek'.
      * reflexivity.
Qed.

Lemma assoc_last_wins {B} k (l : list (Z * B)) : assoc Z.eqb k (last_wins l) = assoc Z.eqb k (rev l).
Proof. unfold last_wins. rewrite assoc_dedup_first. reflexivity. Qed.

Lemma assoc_unique {B} k (c : B) l : In (k, c) l -> (forall c', In (k, c') l -> c' = c) -> assoc Z.eqb k l = Some c.
Proof.
  induction l as [|[k' v] l IH]; intros Hin Hu; cbn [assoc].
  - destruct Hin.
  - destruct (Z.eqb_spec k k') as [E|E].
    + subst. f_equal. apply Hu. left; auto.
    + destruct Hin as [Hin|Hin]; [congruence|]. apply IH; auto. intros c' Hc'. apply Hu. right; auto.
Qed.

Lemma NoDup_map_fst_unique {B} (l : list (Z * B)) t c c' : NoDup (map fst l) -> In (t, c) l -> In (t, c') l -> c = c'.
Proof.
  induction l as [|[a b] l IH]; intros ND H1 H2; cbn [map fst] in ND.
  - destruct H1.
  - inversion ND as [|? ? Hn Hd]; subst.
    destruct H1 as [H1|H1], H2 as [H2|H2].
    + congruence.
    + injection H1 as -> ->. exfalso. apply Hn. change t with (fst (t, c')). now apply in_map.
    + injection H2 as -> ->. exfalso. apply Hn. change t with (fst (t, c)). now apply in_map.
    + auto.
Qed.

Lemma Forall2_in_l {A B} (R : A -> B -> Prop) l l' : Forall2 R l l' ->
  forall x, In x l -> exists y, In y l' /\ R x y.
Proof.
  induction 1 as [|x0 y0 l l' H0 HF IH]; intros x Hx.
  - destruct Hx.
  - destruct Hx as [<-|Hx].
    + exists y0; split; [left; auto|auto].
    + destruct (IH _ Hx) as (y & Hy & HR). exists y; split; [right; auto|auto].
Qed.

Lemma id_at_nodup_eq ids k k' id : NoDup ids -> id_at ids k id -> id_at ids k' id -> k = k'.
Proof.
  intros ND [H0 Hk] [H0' Hk']. assert (Z.to_nat k = Z.to_nat k') by (eapply NoDup_nth_error_inj; eauto). lia.
Qed.

Lemma nth_error_seq0 n a : (a < n)%nat -> nth_error (seq 0 n) a = Some a.
Proof.
  intros H. rewrite (nth_error_nth' _ 0%nat) by (rewrite seq_length; lia). rewrite seq_nth by lia. reflexivity.
Qed.

Lemma nth_nth_nonneg (m : list (list Z)) i j :
  (forall row, In row m -> forall x, In x row -> 0 <= x) -> 0 <= nth j (nth i m []) 0.
Proof.
  intros H. destruct (nth_in_or_default i m []) as [Hi|Hi].
  - destruct (nth_in_or_default j (nth i m []) 0) as [Hj|Hj].
    + eapply H; eauto.
    + rewrite Hj. lia.
  - rewrite Hi. destruct j; cbn [nth]; lia.
Qed.

(** * The dead-head index list *)
Lemma rel_nodup (locs indices ix : list Z) :
  NoDup indices -> Forall2 (fun id z => id_at locs z id) indices ix -> NoDup ix.
Proof.
  intros ND HF. apply NoDup_nth_error. intros i j Hi E.
  destruct (nth_error ix i) as [z|] eqn:Ei; [|apply nth_error_None in Ei; lia]. symmetry in E.
  destruct (Forall2_nth_r _ _ _ HF i z Ei) as (idi & Hi1 & Hi2).
  destruct (Forall2_nth_r _ _ _ HF j z E) as (idj & Hj1 & Hj2). cbv beta in Hi2, Hj2.
  assert (idi = idj) by (eapply id_at_inj; eauto). subst idj.
  eapply NoDup_nth_error_inj; eauto.
Qed.

Lemma ix_lookup (locs indices ix : list Z) p a id :
  NoDup locs -> NoDup indices -> Forall2 (fun id z => id_at locs z id) indices ix ->
  nth_error indices p = Some id -> nth_error locs a = Some id -> lookup_last (Z.of_nat a) ix = Some p.
Proof.
  intros NL NI HF Hp Ha. destruct (Forall2_nth_l _ _ _ HF p id Hp) as (z & Hz & Hid).
  cbv beta in Hid. assert (z = Z.of_nat a) by (apply (id_at_nodup locs z a id NL Hid Ha)). subst z.
  apply lookup_last_nodup; auto. eapply rel_nodup; eauto.
Qed.

Lemma ix_covers (locs indices ix : list Z) a :
  NoDup locs -> NoDup indices -> length indices = length locs -> (forall x, In x indices -> In x locs) ->
  Forall2 (fun id z => id_at locs z id) indices ix -> (a < length locs)%nat ->
  exists p, lookup_last (Z.of_nat a) ix = Some p.
Proof.
  intros NL NI Hlen Hincl HF Ha.
  destruct (nth_error locs a) as [id|] eqn:Eid; [|apply nth_error_None in Eid; lia].
  assert (Hin : In id indices).
  { assert (Hi : incl locs indices).
    { apply NoDup_length_incl; [exact NI|lia|exact Hincl]. }
    apply Hi. eapply nth_error_In; eauto. }
  apply In_nth_error in Hin. destruct Hin as (p & Hp). exists p.
  exact (ix_lookup locs indices ix p a id NL NI HF Hp Eid).
Qed.

(** * Component lemmas *)
Lemma opt_map_res_inv {A B} (f : A -> res B) o o' : opt_map_res f o = Ok o' ->
  match o, o' with
  | Some l, Some l' => Forall2 (fun x y => f x = Ok y) l l'
  | None, None => True
  | _, _ => False
  end.
Proof.
  destruct o as [l|]; cbn [opt_map_res]; intros H.
  - apply bind_ok in H. destruct H as (l' & Hl' & H). injection H as <-. now apply map_res_Forall2.
  - injection H as <-. exact I.
Qed.

Lemma opt_map_res_total {A B} (f : A -> res B) o :
  (forall x, In x (match o with Some l => l | None => [] end) -> exists y, f x = Ok y) ->
  exists o', opt_map_res f o = Ok o'.
Proof.
  destruct o as [l|]; cbn [opt_map_res]; intros H.
  - destruct (map_res_total f l H) as (l' & Hl'). rewrite Hl'. cbn [bind]. eauto.
  - eauto.
Qed.

Section Components.
Variable r : raw_instance.

Lemma res_route_rel x :
  In (rr_type x) (map rv_id (ri_types r)) ->
  (forall g, In g (rr_segs x) -> In (rg_origin g) (ri_locs r) /\ In (rg_dest g) (ri_locs r)) ->
  route_rel r x (res_route r x).
Proof.
  intros Ht Hg. split; cbn [res_route r_type r_segs].
  - now apply ix_or_neg_in.
  - apply Forall2_map_r_in. intros g Hin. destruct (Hg g Hin) as [Ho Hd].
    unfold seg_rel, res_rseg; cbn [rs_origin rs_dest rs_dist rs_dur rs_limit].
    split; [now apply ix_or_neg_in|]. split; [now apply ix_or_neg_in|]. auto.
Qed.

Lemma res_departure_rel d e : res_departure r d = Ok e -> dep_rel r d e.
Proof.
  unfold res_departure. intros H.
  apply bind_ok in H. destruct H as (k & Hk & H). apply unwrap_opt_ok in Hk.
  apply bind_ok in H. destruct H as (rt & Hrt & H). apply unwrap_opt_ok in Hrt.
  apply bind_ok in H. destruct H as (z & Hz & H).
  apply bind_ok in H. destruct H as (segs & Hsegs & H). injection H as <-.
  exists rt. cbn [d_route d_segs]. split; auto. split.
  - destruct (lookup_first_map_some rr_id _ _ _ Hk) as (x & Hx & Hid). congruence.
  - apply map_res_Forall2 in Hsegs. eapply Forall2_impl_in; [exact Hsegs|].
    intros s t _ Hst. cbv beta in Hst.
    apply bind_ok in Hst. destruct Hst as (g & Hg & Hst). apply unwrap_opt_ok in Hg.
    apply bind_ok in Hst. destruct Hst as (sg & Hsg & Hst). apply unwrap_opt_ok in Hsg.
    apply bind_ok in Hst. destruct Hst as (z1 & Hz1 & Hst).
    apply bind_ok in Hst. destruct Hst as (z2 & Hz2 & Hst). injection Hst as <-.
    unfold dseg_rel; cbn [ds_rseg ds_dep ds_pass ds_seated]. repeat split; auto.
    exists sg. split; auto.
    destruct (lookup_first_map_some rg_id _ _ _ Hg) as (x & Hx & Hid). congruence.
Qed.

Lemma res_departure_total d x :
  (forall y, In y (ri_routes r) -> In (rr_type y) (map rv_id (ri_types r)) /\
       forall g, In g (rr_segs y) -> In (rg_origin g) (ri_locs r) /\ In (rg_dest g) (ri_locs r)) ->
  find (fun x => rr_id x =? rdp_route d) (ri_routes r) = Some x ->
  (forall s, In s (rdp_segs d) -> In (rds_rseg s) (map rg_id (rr_segs x))) ->
  exists e, res_departure r d = Ok e.
Proof.
  intros HR Hf Hs. destruct (find_lookup_first rr_id _ _ _ Hf) as (k & Hk & Hx).
  assert (Hin : In x (ri_routes r)) by (eapply nth_error_In; eauto).
  destruct (HR x Hin) as [Hty Hlocs].
  unfold res_departure. rewrite Hk. cbn [unwrap_opt bind]. rewrite Hx. cbn [unwrap_opt bind].
  destruct (type_ix_total r _ Hty) as (z & Hz). rewrite Hz. cbn [bind].
  match goal with |- exists e, bind (map_res ?f ?l) _ = _ => destruct (map_res_total f l) as (segs & Hsegs) end.
  { intros s Hin_s. destruct (lookup_first_map_in rg_id _ _ (Hs s Hin_s)) as (g & Hg). rewrite Hg. cbn [unwrap_opt bind].
    destruct (lookup_first_map_some rg_id _ _ _ Hg) as (sg & Hsg & _). rewrite Hsg. cbn [unwrap_opt bind].
    destruct (Hlocs sg) as [Ho Hd]. { eapply nth_error_In; eauto. }
    destruct (loc_ix_total r _ Ho) as (z1 & Hz1). rewrite Hz1. cbn [bind].
    destruct (loc_ix_total r _ Hd) as (z2 & Hz2). rewrite Hz2. cbn [bind]. eauto. }
  rewrite Hsegs. cbn [bind]. eauto.
Qed.

Lemma res_slot_rel s t : res_slot r s = Ok t -> slot_rel r s t.
Proof.
  unfold res_slot. intros H. apply bind_ok in H. destruct H as (l & Hl & H). injection H as <-.
  unfold slot_rel; cbn [is_loc is_start is_end is_tracks]. split; [now apply loc_ix_ok|]. auto.
Qed.

Lemma res_slot_total s : In (rsl_loc s) (ri_locs r) -> exists t, res_slot r s = Ok t.
Proof.
  intros H. unfold res_slot. destruct (loc_ix_total r _ H) as (z & Hz). rewrite Hz. cbn [bind]. eauto.
Qed.

Lemma res_depot_total d : In (rd_loc d) (ri_locs r) ->
  (forall t c, In (t, c) (rd_allowed d) -> In t (map rv_id (ri_types r))) -> exists e, res_depot r d = Ok e.
Proof.
  intros Hl Ha. unfold res_depot. destruct (loc_ix_total r _ Hl) as (z & Hz). rewrite Hz. cbn [bind].
  match goal with |- exists e, bind (map_res ?f ?l) _ = _ => destruct (map_res_total f l) as (al & Hal) end.
  { intros [t c] Hin. destruct (type_ix_total r _ (Ha t c Hin)) as (k & Hk). rewrite Hk. cbn [bind]. eauto. }
  rewrite Hal. cbn [bind]. eauto.
Qed.

Lemma res_depot_rel d e : NoDup (map rv_id (ri_types r)) -> NoDup (map fst (rd_allowed d)) ->
  res_depot r d = Ok e -> depot_rel r d e.
Proof.
  intros NT NA. unfold res_depot. intros H.
  apply bind_ok in H. destruct H as (l & Hl & H).
  apply bind_ok in H. destruct H as (al & Hal & H). injection H as <-.
  unfold depot_rel; cbn [id_loc id_cap id_allowed]. split; [now apply loc_ix_ok|]. split; auto.
  apply map_res_Forall2 in Hal.
  assert (HF : Forall2 (fun tc kc => id_at (map rv_id (ri_types r)) (fst kc) (fst tc) /\ snd kc = snd tc) (rd_allowed d) al).
  { eapply Forall2_impl_in; [exact Hal|]. intros [t c] kc _ Hx. cbv beta iota in Hx.
    apply bind_ok in Hx. destruct Hx as (k & Hk & Hx). injection Hx as <-. cbn [fst snd]. split; auto.
    now apply type_ix_ok. }
  intros t c k Hin Hk. rewrite assoc_last_wins. apply assoc_unique.
  - apply -> in_rev. destruct (Forall2_in_l _ _ _ HF _ Hin) as ([k' c'] & Hin' & Hid & Hc). cbn [fst snd] in Hid, Hc.
    subst c'. assert (k = k') by (exact (id_at_nodup_eq _ k k' t NT Hk Hid)). subst k'. exact Hin'.
  - intros c' Hin'. apply in_rev in Hin'.
    destruct (Forall2_in_r _ _ _ HF _ Hin') as ([t' c''] & Hin'' & Hid & Hc). cbn [fst snd] in Hid, Hc. subst c''.
    assert (t' = t) by (exact (id_at_inj _ k t' t Hid Hk)). subst t'.
    eapply NoDup_map_fst_unique; eauto.
Qed.

(* dead-head matrices *)
Lemma dh_matrix_inv m M : dh_matrix r m = Ok M ->
  exists ix, map_res (loc_ix r) (ri_dh_indices r) = Ok ix /\
    Forall2 (fun a row => exists i, lookup_last (Z.of_nat a) ix = Some i /\
               Forall2 (fun b z => exists j, lookup_last (Z.of_nat b) ix = Some j /\ z = nth j (nth i m []) 0)
                       (seq 0 (length (ri_locs r))) row)
            (seq 0 (length (ri_locs r))) M.
Proof.
  unfold dh_matrix. intros H. apply bind_ok in H. destruct H as (ix & Hix & H). cbv zeta in H.
  exists ix. split; auto.
  match type of H with (if ?c then _ else _) = _ => destruct c end; [discriminate|].
  apply map_res_Forall2 in H. eapply Forall2_impl_in; [exact H|].
  intros a row _ Ha. cbv beta in Ha.
  apply bind_ok in Ha. destruct Ha as (i & Hi & Ha). apply unwrap_opt_ok in Hi.
  exists i. split; auto.
  apply map_res_Forall2 in Ha. eapply Forall2_impl_in; [exact Ha|].
  intros b z _ Hb. cbv beta in Hb.
  apply bind_ok in Hb. destruct Hb as (j & Hj & Hb). apply unwrap_opt_ok in Hj. injection Hb as <-.
  exists j. split; auto.
Qed.

Lemma ix_rel ix : map_res (loc_ix r) (ri_dh_indices r) = Ok ix ->
  Forall2 (fun id z => id_at (ri_locs r) z id) (ri_dh_indices r) ix.
Proof.
  intros H. apply map_res_Forall2 in H. eapply Forall2_impl_in; [exact H|].
  intros id z _ Hz. now apply loc_ix_ok.
Qed.

Lemma dh_matrix_shape m M : dh_matrix r m = Ok M ->
  length M = length (ri_locs r) /\
  forall row, In row M -> length row = length (ri_locs r) /\
    ((forall row', In row' m -> forall x, In x row' -> 0 <= x) -> forall x, In x row -> 0 <= x).
Proof.
  intros H. destruct (dh_matrix_inv _ _ H) as (ix & _ & HF). split.
  - apply Forall2_len in HF. rewrite seq_length in HF. auto.
  - intros row Hrow. destruct (Forall2_in_r _ _ _ HF row Hrow) as (a & _ & i & _ & HF2). split.
    + apply Forall2_len in HF2. rewrite seq_length in HF2. auto.
    + intros Hm x Hx. destruct (Forall2_in_r _ _ _ HF2 x Hx) as (b & _ & j & _ & ->).
      now apply nth_nth_nonneg.
Qed.

Lemma dh_matrix_entry m M : NoDup (ri_locs r) -> NoDup (ri_dh_indices r) -> dh_matrix r m = Ok M ->
  forall p q a b ida idb,
    nth_error (ri_dh_indices r) p = Some ida -> nth_error (ri_dh_indices r) q = Some idb ->
    nth_error (ri_locs r) a = Some ida -> nth_error (ri_locs r) b = Some idb ->
    nth b (nth a M []) 0 = nth q (nth p m []) 0.
Proof.
  intros NL NI H p q a b ida idb Hp Hq Ha Hb.
  destruct (dh_matrix_inv _ _ H) as (ix & Hix & HF). apply ix_rel in Hix.
  pose proof (ix_lookup _ _ _ _ _ _ NL NI Hix Hp Ha) as La.
  pose proof (ix_lookup _ _ _ _ _ _ NL NI Hix Hq Hb) as Lb.
  destruct (Forall2_nth_l _ _ _ HF a a) as (row & Hrow & i & Hi & HF2).
  { apply nth_error_seq0. eapply nth_error_lt; eauto. }
  assert (i = p) by congruence. subst i.
  destruct (Forall2_nth_l _ _ _ HF2 b b) as (z & Hz & j & Hj & ->).
  { apply nth_error_seq0. eapply nth_error_lt; eauto. }
  assert (j = q) by congruence. subst j.
  rewrite (nth_error_nth _ _ _ Hrow). now rewrite (nth_error_nth _ _ _ Hz).
Qed.

Lemma dh_matrix_total m : NoDup (ri_locs r) -> NoDup (ri_dh_indices r) ->
  length (ri_dh_indices r) = length (ri_locs r) -> (forall x, In x (ri_dh_indices r) -> In x (ri_locs r)) ->
  length m = length (ri_locs r) -> (forall row, In row m -> length row = length (ri_locs r)) ->
  exists M, dh_matrix r m = Ok M.
Proof.
  intros NL NI Hlen Hincl Hm Hrows.
  destruct (map_res_total (loc_ix r) (ri_dh_indices r)) as (ix & Hix).
  { intros x Hx. apply loc_ix_total. auto. }
  unfold dh_matrix. rewrite Hix. cbn [bind]. cbv zeta.
  assert (Hl : length ix = length (ri_locs r)) by (rewrite (map_res_length _ _ _ Hix); auto).
  assert (C : Nat.leb (length ix) (length m) &&
              forallb (fun row => Nat.leb (length ix) (length row)) (firstn (length ix) m) = true).
  { rewrite Hl, <- Hm, firstn_all, Nat.leb_refl. cbn [andb]. apply forallb_forall.
    intros row Hrow. apply Nat.leb_le. rewrite (Hrows row Hrow). lia. }
  rewrite C. cbn [negb]. apply ix_rel in Hix.
  apply map_res_total. intros a Ha. apply in_seq in Ha.
  destruct (ix_covers _ _ _ a NL NI Hlen Hincl Hix) as (i & Hi); [lia|]. rewrite Hi. cbn [unwrap_opt bind].
  apply map_res_total. intros b Hb. apply in_seq in Hb.
  destruct (ix_covers _ _ _ b NL NI Hlen Hincl Hix) as (j & Hj); [lia|]. rewrite Hj. cbn [unwrap_opt bind]. eauto.
Qed.

End Components.

Lemma resolve_inv r i : resolve r = Ok i ->
  exists deps dps slots dur dst,
    opt_map_res (res_depot r) (ri_depots r) = Ok deps /\
    map_res (res_departure r) (ri_departures r) = Ok dps /\
    opt_map_res (res_slot r) (ri_slots r) = Ok slots /\
    dh_matrix r (ri_dh_dur r) = Ok dur /\ dh_matrix r (ri_dh_dist r) = Ok dst /\
    i = {| i_types := map res_type (ri_types r); i_nlocs := length (ri_locs r); i_depots := deps;
           i_routes := map (res_route r) (ri_routes r); i_departures := dps; i_slots := slots;
           i_dh_dur := dur; i_dh_dist := dst; i_params := ri_params r |}.
Proof.
  unfold resolve. intros H.
  apply bind_ok in H. destruct H as (deps & H1 & H). cbv zeta in H.
  apply bind_ok in H. destruct H as (dps & H2 & H).
  apply bind_ok in H. destruct H as (slots & H3 & H).
  apply bind_ok in H. destruct H as (dur & H4 & H).
  apply bind_ok in H. destruct H as (dst & H5 & H). injection H as <-.
  exists deps, dps, slots, dur, dst. repeat split; auto.
Qed.

(** * Theorem: resolving never panics when the references resolve *)
Theorem resolve_total : stmt_resolve_total.
Proof.
  intros r H. apply refs_ok_split in H.
  destruct H as (NL & NT & NR & HR & HD & HP & HS & Hlen & NI & Hincl & Hdur & Hdurr & Hdst & Hdstr).
  unfold resolve.
  destruct (opt_map_res_total (res_depot r) (ri_depots r)) as (deps & E1).
  { intros d Hd. destruct (HP d Hd) as (Ha & Hb & _). now apply res_depot_total. }
  rewrite E1. cbn [bind]. cbv zeta.
  destruct (map_res_total (res_departure r) (ri_departures r)) as (dps & E2).
  { intros d Hd. destruct (HD d Hd) as (x & Hf & Hs). apply res_departure_total with (x := x); auto.
    intros y Hy. destruct (HR y Hy) as (_ & Ha & Hb). auto. }
  rewrite E2. cbn [bind].
  destruct (opt_map_res_total (res_slot r) (ri_slots r)) as (slots & E3).
  { intros s Hs. apply res_slot_total. now apply HS. }
  rewrite E3. cbn [bind].
  destruct (dh_matrix_total r (ri_dh_dur r)) as (dur & E4); auto. rewrite E4. cbn [bind].
  destruct (dh_matrix_total r (ri_dh_dist r)) as (dst & E5); auto. rewrite E5. cbn [bind].
  eauto.
Qed.

(** * Witnesses *)
Definition w_params : params :=
  {| p_forbid := false; p_min := 0; p_dht := 0; p_maxdist := 1000; c_staff := 1; c_service := 1; c_maint := 1;
     c_dh := 1; c_idle := 1 |}.

(* a departure names a route that does not exist *)
Definition w_dangling_used : raw_instance :=
  {| ri_types := []; ri_locs := []; ri_depots := None; ri_routes := [];
     ri_departures := [ {| rdp_route := 1; rdp_segs := [] |} ]; ri_slots := None;
     ri_dh_indices := []; ri_dh_dur := []; ri_dh_dist := []; ri_params := w_params |}.

(* an unused route names a vehicle type that does not exist *)
Definition w_dangling_unused : raw_instance :=
  {| ri_types := []; ri_locs := []; ri_depots := None;
     ri_routes := [ {| rr_id := 1; rr_type := 5; rr_segs := [] |} ];
     ri_departures := []; ri_slots := None;
     ri_dh_indices := []; ri_dh_dur := []; ri_dh_dist := []; ri_params := w_params |}.

Theorem resolve_dangling : stmt_resolve_dangling.
Proof.
  split.
  - exists w_dangling_used. vm_compute. reflexivity.
  - exists w_dangling_unused. eexists. split.
    + vm_compute. reflexivity.
    + vm_compute. reflexivity.
Qed.

Definition w_seg_a : rrseg := {| rg_id := 7; rg_origin := 1; rg_dest := 2; rg_dist := 10; rg_dur := 100; rg_limit := None |}.
Definition w_seg_b : rrseg := {| rg_id := 7; rg_origin := 2; rg_dest := 1; rg_dist := 10; rg_dur := 200; rg_limit := None |}.
Definition w_route_a : rroute := {| rr_id := 1; rr_type := 1; rr_segs := [w_seg_a] |}.
Definition w_route_b : rroute := {| rr_id := 2; rr_type := 1; rr_segs := [w_seg_b] |}.
Definition w_local : raw_instance :=
  {| ri_types := [ {| rv_id := 1; rv_cap := 10; rv_seats := 5; rv_limit := None |} ];
     ri_locs := [1; 2]; ri_depots := None; ri_routes := [w_route_a; w_route_b];
     ri_departures := [ {| rdp_route := 1; rdp_segs := [ {| rds_rseg := 7; rds_dep := 0; rds_pass := 1; rds_seated := 1 |} ] |};
                        {| rdp_route := 2; rdp_segs := [ {| rds_rseg := 7; rds_dep := 500; rds_pass := 1; rds_seated := 1 |} ] |} ];
     ri_slots := None; ri_dh_indices := [1; 2]; ri_dh_dur := [[0; 5]; [5; 0]]; ri_dh_dist := [[0; 5]; [5; 0]];
     ri_params := w_params |}.

Theorem resolve_segment_ids_local : stmt_resolve_segment_ids_local.
Proof.
  exists w_local. eexists. split; [vm_compute; reflexivity|]. split; [vm_compute; reflexivity|].
  exists w_route_a, w_route_b, w_seg_a, w_seg_b.
  split; [cbn [w_local ri_routes In]; auto|]. split; [cbn [w_local ri_routes In]; auto|].
  split; [intro E; discriminate E|].
  split; [cbn [w_route_a rr_segs In]; auto|]. split; [cbn [w_route_b rr_segs In]; auto|].
  split; [reflexivity|]. cbn [w_seg_a w_seg_b rg_dur]. intro E; discriminate E.
Qed.

(** * Theorem: a valid listed instance resolves to a valid index-based instance *)
Lemma opt_map_res_Forall2 {A B} (f : A -> res B) o o' : opt_map_res f o = Ok o' ->
  Forall2 (fun x y => f x = Ok y) (match o with Some l => l | None => [] end) (match o' with Some l => l | None => [] end).
Proof.
  intros H. apply opt_map_res_inv in H. destruct o, o'; try contradiction; auto.
Qed.

Lemma opt_map_res_len {A B} (f : A -> res B) o o' (n : nat) : opt_map_res f o = Ok o' ->
  match o' with Some l => length l | None => n end = match o with Some l => length l | None => n end.
Proof.
  intros H. apply opt_map_res_inv in H. destruct o, o'; try contradiction; auto.
  symmetry. eapply Forall2_len; eauto.
Qed.

Lemma flat_map_len {A B C D} (f : A -> list C) (g : B -> list D) l l' :
  Forall2 (fun x y => length (f x) = length (g y)) l l' -> length (flat_map f l) = length (flat_map g l').
Proof.
  induction 1 as [|x y l l' H0 HF IH]; cbn [flat_map]; auto. rewrite !app_length. congruence.
Qed.

Lemma deps_flat_len r dps : map_res (res_departure r) (ri_departures r) = Ok dps ->
  length (flat_map d_segs dps) = length (flat_map rdp_segs (ri_departures r)).
Proof.
  intros H. symmetry. apply flat_map_len. apply map_res_Forall2 in H. eapply Forall2_impl_in; [exact H|].
  intros d e _ Hde. apply res_departure_rel in Hde. destruct Hde as (x & _ & _ & HF). eapply Forall2_len; eauto.
Qed.

Theorem resolve_valid : stmt_resolve_valid.
Proof.
  intros r i V Hres. unfold raw_valid_b in V. apply andb_true_iff in V. destruct V as [VR VN].
  apply refs_ok_split in VR.
  destruct VR as (NL & NT & NR & HR & HD & HP & HS & Hlen & NI & Hincl & Hdur & Hdurr & Hdst & Hdstr).
  apply numbers_ok_split in VN. destruct VN as (N1 & N2 & N3 & N4 & N5 & N6 & N7 & N8 & N9 & N10 & N11).
  destruct (resolve_inv _ _ Hres) as (deps & dps & slots & dur & dst & E1 & E2 & E3 & E4 & E5 & ->).
  unfold valid_instance_b. cbv zeta.
  cbn [i_types i_nlocs i_depots i_routes i_departures i_slots i_dh_dur i_dh_dist i_params].
  destruct (dh_matrix_shape _ _ _ E4) as (S1 & S2). destruct (dh_matrix_shape _ _ _ E5) as (S3 & S4).
  repeat (apply andb_true_iff; split).
  - (* types *)
    apply forallb_forall. intros vt Hvt. apply in_map_iff in Hvt. destruct Hvt as (t & <- & Ht).
    cbn [res_type vt_cap vt_seats]. destruct (N1 t Ht) as [Ha Hb].
    apply andb_true_iff. split; now apply Z.ltb_lt.
  - (* routes *)
    apply forallb_forall. intros y Hy. apply in_map_iff in Hy. destruct Hy as (x & <- & Hx).
    destruct (HR x Hx) as (_ & Hty & Hlocs). destruct (res_route_rel r x Hty Hlocs) as [Rt Rs].
    apply andb_true_iff. split.
    + apply id_at_bounds in Rt. now rewrite !map_length in *.
    + cbn [res_route r_segs]. apply forallb_forall. intros h Hh. apply in_map_iff in Hh. destruct Hh as (g & <- & Hg).
      destruct (Hlocs g Hg) as [Ho Hd]. destruct (N2 x Hx g Hg) as [Hdist Hdur'].
      cbn [res_rseg rs_origin rs_dest rs_dist rs_dur].
      rewrite (id_at_bounds _ _ _ (ix_or_neg_in _ _ Ho)), (id_at_bounds _ _ _ (ix_or_neg_in _ _ Hd)).
      cbn [andb]. apply andb_true_iff. split; [now apply Z.leb_le|now apply Z.ltb_lt].
  - (* departures *)
    apply map_res_Forall2 in E2. eapply Forall2_forallb_r; [exact E2|].
    intros d e Hd Hde. cbv beta in Hde. apply res_departure_rel in Hde. destruct Hde as (x & Hx & _ & HF).
    rewrite (map_nth_error (res_route r) _ _ Hx). eapply Forall2_forallb_r; [exact HF|].
    intros s t Hs ((g & Hg & _) & _ & Hp & Hse). cbn [res_route r_segs]. rewrite map_length.
    destruct (N3 d Hd s Hs) as [Ha Hb]. rewrite Hp, Hse.
    apply andb_true_iff; split; [apply andb_true_iff; split|].
    + apply Nat.ltb_lt. eapply nth_error_lt; eauto.
    + now apply Z.leb_le.
    + now apply Z.leb_le.
  - (* at least one trip *)
    now rewrite (deps_flat_len _ _ E2).
  - (* slots *)
    apply opt_map_res_Forall2 in E3. fold (slots_l r) in E3. eapply Forall2_forallb_r; [exact E3|].
    intros s t Hs Hst. cbv beta in Hst. apply res_slot_rel in Hst. destruct Hst as (Hl & -> & -> & ->).
    destruct (N5 s Hs) as [Ha Hb]. rewrite (id_at_bounds _ _ _ Hl). cbn [andb].
    apply andb_true_iff. split; [now apply Z.ltb_lt|now apply Z.leb_le].
  - (* depots *)
    apply opt_map_res_Forall2 in E1. fold (depots_l r) in E1. eapply Forall2_forallb_r; [exact E1|].
    intros d e Hd Hde. cbv beta in Hde. destruct (HP d Hd) as (_ & _ & NA).
    apply (res_depot_rel r d e NT NA) in Hde. destruct Hde as (Hl & -> & _).
    rewrite (id_at_bounds _ _ _ Hl). cbn [andb]. apply Z.leb_le. now apply N6.
  - apply Nat.eqb_eq. exact S1.
  - apply Nat.eqb_eq. exact S3.
  - apply forallb_forall. intros row Hrow. destruct (S2 row Hrow) as [Ha Hb]. apply andb_true_iff. split.
    + now apply Nat.eqb_eq.
    + apply forallb_forall. intros x Hx. apply Z.leb_le. now apply (Hb N7).
  - apply forallb_forall. intros row Hrow. destruct (S4 row Hrow) as [Ha Hb]. apply andb_true_iff. split.
    + now apply Nat.eqb_eq.
    + apply forallb_forall. intros x Hx. apply Z.leb_le. now apply (Hb N8).
  - exact N9.
  - exact N10.
  - rewrite (opt_map_res_len _ _ _ (length (ri_locs r)) E1), (deps_flat_len _ _ E2).
    pose proof (opt_map_res_Forall2 _ _ _ E3) as HF. apply Forall2_len in HF. rewrite <- HF. exact N11.
Qed.

(** * Theorem: loading a valid listed instance never panics *)
Theorem load_raw_total : stmt_load_raw_total.
Proof.
  intros r perm V. pose proof V as V'. unfold raw_valid_b in V'. apply andb_true_iff in V'. destruct V' as [VR _].
  destruct (resolve_total r VR) as (i & Hi). unfold load_raw. rewrite Hi. cbn [bind].
  apply load_total. eapply resolve_valid; eauto.
Qed.

(** * Theorem: every reference points to the record carrying the identifier *)
Theorem resolve_faithful : stmt_resolve_faithful.
Proof.
  intros r i VR Hres. apply refs_ok_split in VR.
  destruct VR as (NL & NT & NR & HR & HD & HP & HS & Hlen & NI & Hincl & Hdur & Hdurr & Hdst & Hdstr).
  destruct (resolve_inv _ _ Hres) as (deps & dps & slots & dur & dst & E1 & E2 & E3 & E4 & E5 & ->).
  cbn [i_types i_nlocs i_depots i_routes i_departures i_slots i_dh_dur i_dh_dist i_params].
  split; [reflexivity|]. split; [reflexivity|]. split; [reflexivity|].
  split.
  { (* routes *)
    change (Forall2 (route_rel r) (ri_routes r) (map (res_route r) (ri_routes r))).
    apply Forall2_map_r_in. intros x Hx. destruct (HR x Hx) as (_ & Hty & Hlocs). now apply res_route_rel. }
  split.
  { (* departures *)
    change (Forall2 (dep_rel r) (ri_departures r) dps).
    apply map_res_Forall2 in E2. eapply Forall2_impl_in; [exact E2|].
    intros d e _ Hde. now apply res_departure_rel. }
  split.
  { (* slots *)
    apply opt_map_res_inv in E3. destruct (ri_slots r) as [l|], slots as [l'|]; try contradiction; auto.
    change (Forall2 (slot_rel r) l l'). eapply Forall2_impl_in; [exact E3|].
    intros s t _ Hst. now apply res_slot_rel. }
  split.
  { (* depots *)
    apply opt_map_res_inv in E1. unfold depots_l in HP.
    destruct (ri_depots r) as [l|], deps as [l'|]; try contradiction; auto.
    change (Forall2 (depot_rel r) l l'). eapply Forall2_impl_in; [exact E1|].
    intros d e Hd Hde. destruct (HP d Hd) as (_ & _ & NA). now apply res_depot_rel. }
  (* dead-head matrices *)
  intros p q a b ida idb Hp Hq Ha Hb. split.
  - exact (dh_matrix_entry r _ _ NL NI E4 p q a b ida idb Hp Hq Ha Hb).
  - exact (dh_matrix_entry r _ _ NL NI E5 p q a b ida idb Hp Hq Ha Hb).
Qed.

Print Assumptions resolve_total.
Print Assumptions resolve_valid.
Print Assumptions load_raw_total.
Print Assumptions resolve_faithful.
Print Assumptions resolve_dangling.
Print Assumptions resolve_segment_ids_local.
