(* RawLoadStmts.v — statements about the reference-resolving layer (RawLoad.v). Proofs: RawLoadFacts.v.
   C17 / C06: "an instance that conforms to the documented input format (references resolve, ...)" is stated on the instance
   AS LISTED, identifiers and all ([raw_valid_b]); it resolves, the resolved instance satisfies [valid_instance_b] (the
   hypothesis of every theorem about [load] and the pipeline), every reference points to the record that carries the
   identifier, the dead-head matrices are read through `indices` whatever its arrangement, and [load_raw] never panics. *)
From Coq Require Import Permutation.
From RS Require Import Base Network NetSpec LoadStmts RawLoad.

Definition zin (x : Z) (l : list Z) : bool := existsb (Z.eqb x) l.
Fixpoint nodup_z (l : list Z) : bool :=
  match l with [] => true | x :: r => negb (zin x r) && nodup_z r end.

(* identifiers unique in their scope; every reference names an existing record; `indices` arranges the location ids; both
   matrices are square of that size *)
Definition raw_refs_ok_b (r : raw_instance) : bool :=
  let locs := ri_locs r in
  let tys := map rv_id (ri_types r) in
  let n := length locs in
  nodup_z locs && nodup_z tys && nodup_z (map rr_id (ri_routes r)) &&
  forallb (fun x => nodup_z (map rg_id (rr_segs x)) && zin (rr_type x) tys &&
                    forallb (fun g => zin (rg_origin g) locs && zin (rg_dest g) locs) (rr_segs x)) (ri_routes r) &&
  forallb (fun d => match find (fun x => rr_id x =? rdp_route d) (ri_routes r) with
                    | Some x => forallb (fun s => zin (rds_rseg s) (map rg_id (rr_segs x))) (rdp_segs d)
                    | None => false end) (ri_departures r) &&
  forallb (fun d => zin (rd_loc d) locs && forallb (fun '(t, _) => zin t tys) (rd_allowed d) &&
                    nodup_z (map fst (rd_allowed d)))
          (match ri_depots r with Some l => l | None => [] end) &&
  forallb (fun s => zin (rsl_loc s) locs) (match ri_slots r with Some l => l | None => [] end) &&
  Nat.eqb (length (ri_dh_indices r)) n && nodup_z (ri_dh_indices r) && forallb (fun x => zin x locs) (ri_dh_indices r) &&
  Nat.eqb (length (ri_dh_dur r)) n && forallb (fun row => Nat.eqb (length row) n) (ri_dh_dur r) &&
  Nat.eqb (length (ri_dh_dist r)) n && forallb (fun row => Nat.eqb (length row) n) (ri_dh_dist r).

(* the numeric side of the documented format, on the listed records (mirrors valid_instance_b) *)
Definition raw_numbers_ok_b (r : raw_instance) : bool :=
  forallb (fun t => (0 <? rv_cap t) && (0 <? rv_seats t)) (ri_types r) &&
  forallb (fun x => forallb (fun g => (0 <=? rg_dist g) && (0 <? rg_dur g)) (rr_segs x)) (ri_routes r) &&
  forallb (fun d => forallb (fun s => (0 <=? rds_pass s) && (0 <=? rds_seated s)) (rdp_segs d)) (ri_departures r) &&
  negb (Nat.eqb (length (flat_map rdp_segs (ri_departures r))) 0) &&
  forallb (fun s => (rsl_start s <? rsl_end s) && (0 <=? rsl_tracks s)) (match ri_slots r with Some l => l | None => [] end) &&
  forallb (fun d => 0 <=? rd_cap d) (match ri_depots r with Some l => l | None => [] end) &&
  forallb (fun row => forallb (fun x => 0 <=? x) row) (ri_dh_dur r) &&
  forallb (fun row => forallb (fun x => 0 <=? x) row) (ri_dh_dist r) &&
  (0 <=? p_min (ri_params r)) && (0 <=? p_dht (ri_params r)) &&
  (2 * (Z.of_nat (match ri_depots r with Some l => length l | None => length (ri_locs r) end) + 1) +
   Z.of_nat (length (flat_map rdp_segs (ri_departures r))) +
   Z.of_nat (length (match ri_slots r with Some l => l | None => [] end)) <=? 65536).

Definition raw_valid_b (r : raw_instance) : bool := raw_refs_ok_b r && raw_numbers_ok_b r.

(** resolving never panics when the references resolve *)
Definition stmt_resolve_total : Prop :=
  forall r, raw_refs_ok_b r = true -> exists i, resolve r = Ok i.

(** a valid listed instance resolves to a valid index-based instance, and loading it never panics *)
Definition stmt_resolve_valid : Prop :=
  forall r i, raw_valid_b r = true -> resolve r = Ok i -> valid_instance_b i = true.
Definition stmt_load_raw_total : Prop :=
  forall r perm, raw_valid_b r = true -> exists nw, load_raw r perm = Ok nw.

(** every reference points to the record carrying the identifier *)
Definition id_at (ids : list Z) (k : Z) (id : Z) : Prop := 0 <= k /\ nth_error ids (Z.to_nat k) = Some id.
Definition stmt_resolve_faithful : Prop :=
  forall r i, raw_refs_ok_b r = true -> resolve r = Ok i ->
    i_nlocs i = length (ri_locs r) /\
    i_types i = map (res_type) (ri_types r) /\
    i_params i = ri_params r /\
    (* routes: same listing; type and locations are the positions of the named records *)
    Forall2 (fun x y => id_at (map rv_id (ri_types r)) (r_type y) (rr_type x) /\
                        Forall2 (fun g h => id_at (ri_locs r) (rs_origin h) (rg_origin g) /\
                                            id_at (ri_locs r) (rs_dest h) (rg_dest g) /\
                                            rs_dist h = rg_dist g /\ rs_dur h = rg_dur g /\ rs_limit h = rg_limit g)
                                (rr_segs x) (r_segs y))
            (ri_routes r) (i_routes i) /\
    (* departures: the route with the named id, and inside it the segment with the named id *)
    Forall2 (fun d e => exists x, nth_error (ri_routes r) (d_route e) = Some x /\ rr_id x = rdp_route d /\
                        Forall2 (fun s t => (exists g, nth_error (rr_segs x) (ds_rseg t) = Some g /\ rg_id g = rds_rseg s) /\
                                            ds_dep t = rds_dep s /\ ds_pass t = rds_pass s /\ ds_seated t = rds_seated s)
                                (rdp_segs d) (d_segs e))
            (ri_departures r) (i_departures i) /\
    (* slots and depots *)
    (match ri_slots r, i_slots i with
     | Some l, Some l' => Forall2 (fun s t => id_at (ri_locs r) (is_loc t) (rsl_loc s) /\ is_start t = rsl_start s /\
                                              is_end t = rsl_end s /\ is_tracks t = rsl_tracks s) l l'
     | None, None => True | _, _ => False end) /\
    (match ri_depots r, i_depots i with
     | Some l, Some l' => Forall2 (fun d e => id_at (ri_locs r) (id_loc e) (rd_loc d) /\ id_cap e = rd_cap d /\
                                   forall t c k, In (t, c) (rd_allowed d) -> id_at (map rv_id (ri_types r)) k t ->
                                                 assoc Z.eqb k (id_allowed e) = Some c) l l'
     | None, None => True | _, _ => False end) /\
    (* dead-head matrices: the entry listed at (p, q) is the entry of the locations indices[p], indices[q] *)
    (forall p q a b ida idb, nth_error (ri_dh_indices r) p = Some ida -> nth_error (ri_dh_indices r) q = Some idb ->
        nth_error (ri_locs r) a = Some ida -> nth_error (ri_locs r) b = Some idb ->
        nth b (nth a (i_dh_dur i) []) 0 = nth q (nth p (ri_dh_dur r) []) 0 /\
        nth b (nth a (i_dh_dist i) []) 0 = nth q (nth p (ri_dh_dist r) []) 0).

(** a reference that a departure uses and that names nothing is the loader's panic; an unused route may dangle *)
Definition stmt_resolve_dangling : Prop :=
  (exists r, resolve r = Panic) /\
  (exists r i, raw_refs_ok_b r = false /\ resolve r = Ok i).

(** segment identifiers are local to their route: two routes may use the same segment id (seeded C03d / C07e) *)
Definition stmt_resolve_segment_ids_local : Prop :=
  exists r i, raw_refs_ok_b r = true /\ resolve r = Ok i /\
    exists x y g h, In x (ri_routes r) /\ In y (ri_routes r) /\ x <> y /\ In g (rr_segs x) /\ In h (rr_segs y) /\
                    rg_id g = rg_id h /\ rg_dur g <> rg_dur h.
