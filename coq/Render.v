(* Render.v — executable model of solution/src/json_serialisation.rs (schedule_to_json) and of the objective value
   the server reports (solver/src/objective.rs, server::create_output_json): the returned JSON as the [outp] record
   of Output.v, in the normal form in which gen/solve.py hands the JSON to the checkers (ids as indices, times in
   seconds, activities of a vehicle merged chronologically). Definitions only. *)
From RS Require Import Base Network NetSpec Tour SchedObs Output Transition Schedule.

Section R.
Variable nw : network.
Variable s : schedule.

(* schedule_dead_head_trip *)
Definition schedule_dead_head_trip (a b : node_id) : res (datetime * datetime) :=
  if is_depot (nd nw a) then
    do dep <- dt_sub_dur (start_time nw b) (minimal_duration_between nw a b);
    Ok (dep, start_time nw b)
  else Ok (end_time nw a, dt_add (end_time nw a) (minimal_duration_between nw a b)).

Definition act_of (n : node_id) : oact :=
  {| oa_node := n; oa_origin := n_start_loc (nd nw n); oa_dest := n_end_loc (nd nw n);
     oa_dep := start_time nw n; oa_arr := end_time nw n |}.
Definition act_key_leb (a b : oact) : bool :=
  dt_ltb (oa_dep a) (oa_dep b) || (dt_eqb (oa_dep a) (oa_dep b) && dt_leb (oa_arr a) (oa_arr b)).
Fixpoint chrono_b (l : list oact) : bool :=
  match l with a :: ((b :: _) as r) => act_key_leb a b && chrono_b r | _ => true end.

(* vehicle_to_json: the windows of the tour; every second node that is a service trip / a maintenance slot is listed;
   a dead-head trip is listed wherever the location changes *)
Definition render_vehicle (v : vehicle_id) : res (oveh * list (odh * list vehicle_id)) :=
  do ty <- unwrap_opt (vget v (s_vehicles s));
  do t <- (match tour_of s v with Ok t => Ok t | _ => Panic end);
  do dhs <- fold_left (fun acc '(a, b) =>
              do l <- acc;
              if loc_eqb (n_end_loc (nd nw a)) (n_start_loc (nd nw b)) then Ok l
              else do (dep, arr) <- schedule_dead_head_trip a b;
                   Ok (l ++ [ {| od_origin := n_end_loc (nd nw a); od_dest := n_start_loc (nd nw b);
                                 od_dep := dep; od_arr := arr |} ]))
            (windows (t_nodes t)) (Ok []);
  let seconds := map snd (windows (t_nodes t)) in
  let segs := map act_of (filter (fun n => is_service (nd nw n)) seconds) in
  let slots := map act_of (filter (fun n => is_maint (nd nw n)) seconds) in
  Ok ({| ov_id := v; ov_type := ty;
         ov_sdepot := get_depot_idx nw (first_node t); ov_edepot := get_depot_idx nw (last_node t);
         ov_acts := sort_by act_key_leb (segs ++ slots);
         ov_lists_sorted := chrono_b segs && chrono_b slots;
         ov_dhs := dhs |},
      map (fun d => (d, [v])) dhs).

Definition seg_of (ty : Z) (n : node_id) : oseg :=
  {| os_node := n; os_origin := n_start_loc (nd nw n); os_dest := n_end_loc (nd nw n);
     os_dep := start_time nw n; os_arr := end_time nw n; os_type := ty;
     os_form := match nget n (s_forms s) with Some f => map fst f | None => [] end |}.

Definition render : res outp :=
  do vd <- fold_left (fun acc v => do (vs, ds) <- acc; do (ov, d) <- render_vehicle v; Ok (vs ++ [ov], ds ++ d))
                     (vehicles_iter_all nw s) (Ok ([], []));
  do cycles <- fold_left (fun acc ty =>
                 do l <- acc; do tr <- unwrap_opt (zget ty (s_trans s));
                 Ok (l ++ [(ty, map fst (tr_cycles tr))])) (type_ids nw) (Ok []);
  Ok {| o_obj := (fst (s_unserved s) + snd (s_unserved s), s_viol s, Z.of_nat (length (s_vehicles s)), s_costs s);
        o_vehicles := fst vd;
        o_cycles := cycles;
        o_segs := flat_map (fun ty => map (seg_of ty) (service_nodes nw ty)) (type_ids nw);
        o_slots := map (seg_of 0) (nw_maint nw);
        o_loads := flat_map (fun d => flat_map (fun ty =>
                      let c := spawned_same_type (s_usage s) d ty in if 0 <? c then [(d, ty, c)] else [])
                      (type_ids nw)) (map fst (nw_depots nw));
        o_dhts := snd vd |}.
End R.
