(* RenderFacts1.v — proofs about Render.v (the model of schedule_to_json) against the output-level checkers of
   Output.v: the statements stmt_render_total, stmt_render_C01, stmt_render_C02_formations, stmt_render_C05 of
   RenderStmts.v.

   Proved exactly as stated:
     render_total                  : forall nw, stmt_render_total nw
     render_C05                    : forall nw, stmt_render_C05 nw

   [stmt_render_C01] is false for arbitrary network records: [net_fine] does not read the depot table [nw_depots],
   which check_C01 consults (depot_known; the itinerary is rebuilt from get_start/end_depot_node).
     render_C01_refuted            : ~ (forall nw, stmt_render_C01 nw)   (witness: a loaded network whose depot table
                                     has been emptied; no network built by [load] has this shape)
     render_C01_under_depots       : the statement with the extra hypothesis [DepotsKnown nw s] (the table has an entry for
                                     the depot index of every tour's first / last node, registering a start-depot /
                                     end-depot node) - necessary for clauses 101/103, too
     render_C01_under_depot_table  : forall nw, depot_table_ok nw -> stmt_render_C01 nw     (network-level hypothesis)
     render_C01_under_depot_table_b: the same with the executable reading depot_table_ok_b nw = true
     load_depot_table_ok           : every network returned by [load] satisfies depot_table_ok (no validity needed)
     render_C01_loaded             : hence stmt_render_C01 nw exactly as given for every loaded network
     render_C01_clauses_102_104    : clauses 102, 104 and the flag ov_lists_sorted exactly under the stated hypotheses

   [stmt_render_C02_formations] is false for arbitrary network records: [net_fine] allows negative formation limits
   and track counts (unsigned in the implementation; an empty formation then exceeds the limit) and does not say that
   the ids listed in [nw_service] are service trips.
     render_C02_refuted            : ~ (forall nw, stmt_render_C02_formations nw)  (witness: loaded from an instance that
                                     passes valid_instance_b, with formation limit -1 on a route segment)
     render_C02_under_limits       : forall nw, LimitsSane nw -> stmt_render_C02_formations nw
     render_C02_under_limits_b     : the same with the executable reading limits_sane_b nw = true
     load_limits_sane              : networks loaded from valid instances without negative limits satisfy limits_sane_b
     render_C02_loaded             : hence stmt_render_C02_formations for those networks *)
From Coq Require Import Sorted Permutation Arith RelationClasses.
From RS Require Import Base BaseFacts Network NetSpec NetFacts Tour TourSpec TourStmts TourFacts SchedObs Output OutStmts
  OutFacts Transition TransSpec TransFacts Schedule SchedInv SchedStruct SchedCostsFacts PipelineSched Render RenderStmts.
From RS Require Import LoadStmts LoadFacts SchedListFacts SchedToursFacts SchedFormLimFacts SchedFormsFacts SchedFrameFacts.
Local Open Scope Z_scope.

(** * 1. generic list facts *)
Section SortGen.
Context {A : Type} (le : A -> A -> bool).
Hypothesis le_total : forall a b, le a b = false -> le b a = true.
Hypothesis le_trans : forall a b c, le a b = true -> le b c = true -> le a c = true.

Lemma insert_by_sorted x l :
  StronglySorted (fun a b => le a b = true) l -> StronglySorted (fun a b => le a b = true) (insert_by le x l).
Proof.
  induction l as [|y r IH]; intros S; cbn [insert_by].
  - constructor; constructor.
  - inversion S as [|? ? Sr Fy]; subst. destruct (le y x) eqn:E.
    + constructor; [auto|]. apply Forall_forall. intros z Hz. apply insert_by_in in Hz.
      destruct Hz as [->|Hz]; [exact E|]. rewrite Forall_forall in Fy. auto.
    + constructor; [exact S|]. constructor; [apply le_total; exact E|].
      rewrite Forall_forall in *. intros z Hz. eapply le_trans; [apply le_total, E|apply Fy, Hz].
Qed.

Lemma fold_insert_sorted l : forall acc,
  StronglySorted (fun a b => le a b = true) acc ->
  StronglySorted (fun a b => le a b = true) (fold_left (fun acc x => insert_by le x acc) l acc).
Proof. induction l as [|x l IH]; cbn [fold_left]; intros acc S; [exact S|]. apply IH, insert_by_sorted, S. Qed.

Lemma sort_by_sorted l : StronglySorted (fun a b => le a b = true) (sort_by le l).
Proof. unfold sort_by. apply fold_insert_sorted. constructor. Qed.
End SortGen.

Lemma sorted_perm_unique {A} (R : A -> A -> Prop) (l1 : list A) : forall l2,
  StronglySorted R l1 -> StronglySorted R l2 -> Permutation l1 l2 ->
  (forall a b, In a l1 -> In b l1 -> R a b -> R b a -> a = b) -> l1 = l2.
Proof.
  induction l1 as [|x r1 IH]; intros l2 S1 S2 P AS.
  - apply Permutation_nil in P. auto.
  - destruct l2 as [|y r2]. { apply Permutation_sym, Permutation_nil in P. discriminate. }
    inversion S1 as [|? ? S1' F1]; subst. inversion S2 as [|? ? S2' F2]; subst.
    assert (x = y).
    { assert (Hx : In x (y :: r2)) by (eapply Permutation_in; [exact P|now left]).
      assert (Hy : In y (x :: r1)) by (eapply Permutation_in; [apply Permutation_sym; exact P|now left]).
      destruct Hx as [->|Hx]; [reflexivity|]. destruct Hy as [<-|Hy]; [reflexivity|].
      rewrite Forall_forall in F1, F2. apply AS; [now left|now right|apply F1, Hy|apply F2, Hx]. }
    subst y. f_equal. apply IH; auto.
    + eapply Permutation_cons_inv; eauto.
    + intros a b Ha Hb. apply AS; now right.
Qed.

Lemma ss_trichotomy {A} (R : A -> A -> Prop) l :
  StronglySorted R l -> forall a b, In a l -> In b l -> a = b \/ R a b \/ R b a.
Proof.
  induction 1 as [|x l S IH F]; intros a b Ha Hb; [destruct Ha|].
  rewrite Forall_forall in F. destruct Ha as [<-|Ha], Hb as [<-|Hb]; auto.
Qed.

Lemma ss_filter {A} (R : A -> A -> Prop) (p : A -> bool) l : StronglySorted R l -> StronglySorted R (filter p l).
Proof.
  induction 1 as [|x l S IH F]; cbn [filter]; [constructor|]. destruct (p x); [|exact IH].
  constructor; [exact IH|]. rewrite Forall_forall in *. intros y Hy. apply filter_In in Hy. apply F, Hy.
Qed.

Lemma ss_map {A B} (f : A -> B) (R : B -> B -> Prop) l :
  StronglySorted (fun a b => R (f a) (f b)) l -> StronglySorted R (map f l).
Proof.
  induction 1 as [|x l S IH F]; cbn [map]; [constructor|]. constructor; [exact IH|].
  rewrite Forall_forall in *. intros y Hy. apply in_map_iff in Hy. destruct Hy as (z & <- & Hz). auto.
Qed.

Lemma ss_impl {A} (R R' : A -> A -> Prop) l :
  (forall a b, R a b -> R' a b) -> StronglySorted R l -> StronglySorted R' l.
Proof.
  intros HR. induction 1 as [|x l S IH F]; constructor; [exact IH|].
  rewrite Forall_forall in *. auto.
Qed.

Lemma windows_Sorted {A} (R : A -> A -> Prop) l : (forall a b, In (a, b) (windows l) -> R a b) -> Sorted R l.
Proof.
  induction l as [|a r IH]; intros H; [constructor|]. constructor.
  - apply IH. intros x y Hxy. apply H. apply windows_tl, Hxy.
  - destruct r as [|b r]; constructor. apply H. now left.
Qed.

Lemma windows_app_l {A} (l l2 : list A) w : In w (windows l) -> In w (windows (l ++ l2)).
Proof.
  induction l as [|a r IH]; [intros []|]. destruct r as [|b r]; [intros []|].
  change (In w ((a, b) :: windows (b :: r)) -> In w ((a, b) :: windows ((b :: r) ++ l2))).
  intros [<-|H]; [now left|right; auto].
Qed.

Lemma windows_snoc_fst {A} (l : list A) e a b : In (a, b) (windows (l ++ [e])) -> In a l.
Proof.
  induction l as [|x r IH]; [intros []|]. destruct r as [|y r].
  - cbn. intros [H|[]]. inversion H. now left.
  - change (In (a, b) ((x, y) :: windows ((y :: r) ++ [e])) -> In a (x :: y :: r)).
    intros [H|H]; [inversion H; now left|right; auto].
Qed.

Lemma map_snd_windows {A} (r : list A) : forall a, map snd (windows (a :: r)) = r.
Proof.
  induction r as [|b r IH]; intros a; [reflexivity|].
  change (map snd ((a, b) :: windows (b :: r)) = b :: r). cbn [map snd]. now rewrite IH.
Qed.

Lemma filter_split_perm {A} (p q : A -> bool) l :
  (forall x, In x l -> q x = negb (p x)) -> Permutation (filter p l ++ filter q l) l.
Proof.
  induction l as [|a l IH]; intros H; [constructor|]. cbn [filter]. rewrite (H a (or_introl eq_refl)).
  assert (IH' : Permutation (filter p l ++ filter q l) l) by (apply IH; intros; apply H; now right).
  destruct (p a); cbn [negb app].
  - now constructor.
  - apply Permutation_sym, Permutation_cons_app, Permutation_sym, IH'.
Qed.

Lemma Forall2_in_r {A B} (R : A -> B -> Prop) l1 l2 y : Forall2 R l1 l2 -> In y l2 -> exists x, In x l1 /\ R x y.
Proof.
  induction 1 as [|a b l1 l2 H F IH]; [intros []|]. intros [<-|Hy].
  - exists a. split; [now left|exact H].
  - destruct (IH Hy) as (x & Hx & Hr). exists x. split; [now right|exact Hr].
Qed.

Lemma Forall2_in_l {A B} (R : A -> B -> Prop) l1 l2 x : Forall2 R l1 l2 -> In x l1 -> exists y, In y l2 /\ R x y.
Proof.
  induction 1 as [|a b l1 l2 H F IH]; [intros []|]. intros [<-|Hx].
  - exists b. split; [now left|exact H].
  - destruct (IH Hx) as (y & Hy & Hr). exists y. split; [now right|exact Hr].
Qed.

Lemma fold_strict_gen {A B} (G : res B -> A -> res B) :
  (forall w r x, G r w = Ok x -> exists y, r = Ok y) ->
  forall ws r x, fold_left G ws r = Ok x -> exists y, r = Ok y.
Proof.
  intros Hs. induction ws as [|w ws IH]; cbn [fold_left]; intros r x H; [eauto|].
  apply IH in H. destruct H as [y H]. eapply Hs; eauto.
Qed.

Lemma fold_ok_gen {A B} (G : res B -> A -> res B) (ws : list A) (P : A -> Prop) :
  (forall w l, P w -> exists l', G (Ok l) w = Ok l') -> (forall w, In w ws -> P w) ->
  forall l0, exists l1, fold_left G ws (Ok l0) = Ok l1.
Proof.
  intros Hs. induction ws as [|w ws IH]; intros HP l0; cbn [fold_left]; [eauto|].
  destruct (Hs w l0 (HP w (or_introl eq_refl))) as [l' ->]. apply IH. intros; apply HP; now right.
Qed.

Lemma nth_last_snoc {A} (f : A) mid e d : nth (length (f :: mid ++ [e]) - 1) (f :: mid ++ [e]) d = e.
Proof. rewrite <- last_nth. change (f :: mid ++ [e]) with ((f :: mid) ++ [e]). apply last_last. Qed.

(** * 2. the activity key order *)
Lemma dt_eqb_eq a b : dt_eqb a b = true -> a = b.
Proof. unfold dt_eqb. destruct (dt_cmp a b) eqn:E; try discriminate. intros _. now apply dt_cmp_eq. Qed.
Lemma dt_eqb_refl a : dt_eqb a a = true.
Proof. unfold dt_eqb. now rewrite dt_cmp_refl. Qed.
Lemma dt_leb_cases a b : dt_leb a b = true -> dt_ltb a b = true \/ a = b.
Proof. unfold dt_leb, dt_ltb. destruct (dt_cmp a b) eqn:E; try discriminate; auto. right. now apply dt_cmp_eq. Qed.
Lemma dt_ltb_asym a b : dt_ltb a b = true -> dt_ltb b a = false /\ dt_eqb b a = false.
Proof. unfold dt_ltb, dt_eqb. rewrite (dt_cmp_antisym a b). destruct (dt_cmp a b); try discriminate; cbn; auto. Qed.

Lemma akl_total a b : act_key_leb a b = false -> act_key_leb b a = true.
Proof.
  unfold act_key_leb. intros H. apply orb_false_iff in H. destruct H as [H1 H2].
  rewrite dt_ltb_leb in H1. apply negb_false_iff in H1.
  destruct (dt_leb_cases _ _ H1) as [L|E].
  - rewrite L. reflexivity.
  - rewrite E in *. rewrite dt_eqb_refl in *. cbn [andb] in H2.
    destruct (dt_leb_total (oa_arr a) (oa_arr b)) as [T|T]; [congruence|]. rewrite T. apply orb_true_r.
Qed.

Lemma akl_trans a b c : act_key_leb a b = true -> act_key_leb b c = true -> act_key_leb a c = true.
Proof.
  unfold act_key_leb. intros H1 H2. apply orb_true_iff in H1, H2. apply orb_true_iff.
  destruct H1 as [H1|H1], H2 as [H2|H2].
  - left. eapply dt_lt_le_trans; [exact H1|apply dt_ltb_true_leb, H2].
  - apply andb_true_iff in H2. destruct H2 as [E _]. apply dt_eqb_eq in E. rewrite <- E. now left.
  - apply andb_true_iff in H1. destruct H1 as [E _]. apply dt_eqb_eq in E. rewrite E. now left.
  - apply andb_true_iff in H1, H2. destruct H1 as [E1 L1], H2 as [E2 L2]. apply dt_eqb_eq in E1, E2. right.
    rewrite E1, E2, dt_eqb_refl. cbn [andb]. eapply dt_leb_trans; eauto.
Qed.

Lemma ss_chrono l : StronglySorted (fun a b => act_key_leb a b = true) l -> chrono_b l = true.
Proof.
  induction 1 as [|a l S IH F]; [reflexivity|]. destruct l as [|b r]; [reflexivity|].
  change (act_key_leb a b && chrono_b (b :: r) = true). inversion F; subst. rewrite IH. now rewrite H1.
Qed.

(** * 3. one rendered vehicle *)
Section RV.
Variable nw : network.

Lemma render_vehicle_inv s v ov d : render_vehicle nw s v = Ok (ov, d) ->
  exists ty t, vget v (s_vehicles s) = Some ty /\ tour_of s v = Ok t /\
    ov_id ov = v /\ ov_type ov = ty /\
    ov_sdepot ov = get_depot_idx nw (first_node t) /\ ov_edepot ov = get_depot_idx nw (last_node t) /\
    ov_acts ov = sort_by act_key_leb
      (map (act_of nw) (filter (fun n => is_service (nd nw n)) (map snd (windows (t_nodes t)))) ++
       map (act_of nw) (filter (fun n => is_maint (nd nw n)) (map snd (windows (t_nodes t))))) /\
    ov_lists_sorted ov =
      chrono_b (map (act_of nw) (filter (fun n => is_service (nd nw n)) (map snd (windows (t_nodes t))))) &&
      chrono_b (map (act_of nw) (filter (fun n => is_maint (nd nw n)) (map snd (windows (t_nodes t))))).
Proof.
  unfold render_vehicle. intros H. mon H. apply unwrap_opt_ok in E. mon H. mon H.
  inversion H; subst; clear H. exists a, a0. cbn.
  repeat split; auto. destruct (tour_of s v); try discriminate; congruence.
Qed.

Hypothesis WF : net_wf_b nw = true.
Hypothesis DP : durations_pos_b nw = true.

Definition nlt (a b : node_id) : Prop := dt_ltb (start_time nw a) (start_time nw b) = true.
Lemma nlt_trans : Transitive nlt.
Proof. intros a b c H1 H2. unfold nlt in *. eapply dt_lt_le_trans; [exact H1|apply dt_ltb_true_leb, H2]. Qed.

Lemma valid_decomp l : valid_tour_nodes nw l = true ->
  exists f mid e, l = f :: mid ++ [e] /\ mid <> [] /\
    is_start_depot (nd nw f) = true /\ is_end_depot (nd nw e) = true /\
    (forall n, In n mid -> is_depot (nd nw n) = false) /\
    (forall a b, In (a, b) (windows l) -> can_reach nw a b = true).
Proof.
  unfold valid_tour_nodes. destruct l as [|f r]; [discriminate|]. intros H.
  rewrite !andb_true_iff in H. destruct H as [[[[H1 H2] H3] H4] H5].
  apply Z.leb_le in H3. cbn [tl] in H4.
  destruct r as [|x r']; [cbn in H3; lia|].
  assert (Hne : x :: r' <> []) by discriminate.
  destruct (exists_last Hne) as (mid & e & E). rewrite E in *. clear E Hne x r'.
  change (f :: mid ++ [e]) with ((f :: mid) ++ [e]) in H2. rewrite last_last in H2.
  rewrite removelast_last in H4.
  exists f, mid, e. split; [reflexivity|]. split.
  { intros ->. cbn in H3. lia. }
  split; [exact H1|]. split; [exact H2|]. split.
  - intros n Hn. rewrite forallb_forall in H4. specialize (H4 n Hn). apply negb_true_iff in H4. exact H4.
  - intros a b Hab. rewrite forallb_forall in H5. exact (H5 (a, b) Hab).
Qed.

Lemma mid_sorted f mid e :
  (forall n, In n mid -> is_depot (nd nw n) = false) ->
  (forall a b, In (a, b) (windows (f :: mid ++ [e])) -> can_reach nw a b = true) -> StronglySorted nlt mid.
Proof.
  intros ND CR. apply Sorted_StronglySorted; [apply nlt_trans|]. apply windows_Sorted. intros a b Hab.
  assert (H : In (a, b) (windows (f :: mid ++ [e]))) by (apply windows_tl, windows_app_l, Hab).
  destruct (windows_in _ _ _ Hab) as [Ha Hb].
  pose proof (can_reach_le nw WF a b (CR _ _ H)) as L.
  destruct (dur_pos nw DP a) as [D|D]; [rewrite ND in D by auto; discriminate|].
  unfold nlt. eapply dt_lt_le_trans; eauto.
Qed.

Lemma nondep_kind n : is_depot (nd nw n) = false -> is_maint (nd nw n) = negb (is_service (nd nw n)).
Proof. destruct (nd nw n); cbn; auto; discriminate. Qed.

Lemma nlt_key a b : nlt a b -> act_key_leb (act_of nw a) (act_of nw b) = true.
Proof. unfold nlt, act_key_leb, act_of. cbn [oa_dep oa_arr]. intros ->. reflexivity. Qed.
Lemma nlt_key_rev a b : nlt a b -> act_key_leb (act_of nw b) (act_of nw a) = false.
Proof.
  unfold nlt, act_key_leb, act_of. cbn [oa_dep oa_arr]. intros H. destruct (dt_ltb_asym _ _ H) as [-> ->]. reflexivity.
Qed.

Lemma filter_end (p : node -> bool) mid e : p (nd nw e) = false ->
  filter (fun n => p (nd nw n)) (mid ++ [e]) = filter (fun n => p (nd nw n)) mid.
Proof. intros H. rewrite filter_app. cbn [filter]. rewrite H. apply app_nil_r. Qed.

Lemma acts_sorted mid e :
  is_end_depot (nd nw e) = true -> (forall n, In n mid -> is_depot (nd nw n) = false) -> StronglySorted nlt mid ->
  sort_by act_key_leb
    (map (act_of nw) (filter (fun n => is_service (nd nw n)) (mid ++ [e])) ++
     map (act_of nw) (filter (fun n => is_maint (nd nw n)) (mid ++ [e]))) = map (act_of nw) mid /\
  chrono_b (map (act_of nw) (filter (fun n => is_service (nd nw n)) (mid ++ [e]))) = true /\
  chrono_b (map (act_of nw) (filter (fun n => is_maint (nd nw n)) (mid ++ [e]))) = true.
Proof.
  intros He ND SS.
  assert (E1 : is_service (nd nw e) = false) by (destruct (nd nw e); try discriminate; reflexivity).
  assert (E2 : is_maint (nd nw e) = false) by (destruct (nd nw e); try discriminate; reflexivity).
  rewrite (filter_end is_service mid e E1), (filter_end is_maint mid e E2).
  assert (SK : StronglySorted (fun a b => act_key_leb (act_of nw a) (act_of nw b) = true) mid)
    by (eapply ss_impl; [apply nlt_key|exact SS]).
  split; [|split].
  - symmetry. apply (sorted_perm_unique (fun a b => act_key_leb a b = true)).
    + apply ss_map. exact SK.
    + apply sort_by_sorted; [apply akl_total|apply akl_trans].
    + apply Permutation_sym. eapply Permutation_trans; [apply sort_by_perm|].
      rewrite <- map_app. apply Permutation_map. apply filter_split_perm.
      intros x Hx. apply nondep_kind. auto.
    + intros a b Ha Hb Hab Hba. apply in_map_iff in Ha, Hb.
      destruct Ha as (x & <- & Hx), Hb as (y & <- & Hy).
      destruct (ss_trichotomy _ _ SS x y Hx Hy) as [->|[L|L]]; [reflexivity| |].
      * rewrite (nlt_key_rev _ _ L) in Hba. discriminate.
      * rewrite (nlt_key_rev _ _ L) in Hab. discriminate.
  - apply ss_chrono, ss_map, ss_filter, SK.
  - apply ss_chrono, ss_map, ss_filter, SK.
Qed.

Lemma sdt_ok a b : is_depot (nd nw a) = false \/ is_depot (nd nw b) = false ->
  exists p, schedule_dead_head_trip nw a b = Ok p.
Proof.
  intros H. unfold schedule_dead_head_trip. destruct (is_depot (nd nw a)) eqn:Da; [|eauto].
  destruct H as [H|Db]; [discriminate|].
  pose proof (nd_wf nw WF b) as W. unfold start_time.
  destruct (nd nw b) as [d|sv|m|d]; try discriminate Db; cbn [node_wf] in W; cbn [n_start_time].
  - destruct (st_dep sv); try discriminate W. cbn [dt_sub_dur].
    destruct (minimal_duration_between nw a b); cbn [bind]; eauto.
  - destruct (ms_start m); try discriminate W. cbn [dt_sub_dur].
    destruct (minimal_duration_between nw a b); cbn [bind]; eauto.
Qed.

Lemma render_vehicle_real s v ty t ov d :
  vget v (s_vehicles s) = Some ty -> vget v (s_tours s) = Some t -> real_tour_ok nw (v, ty, t) = true ->
  render_vehicle nw s v = Ok (ov, d) ->
  exists f mid e, t_nodes t = f :: mid ++ [e] /\ mid <> [] /\ first_node t = f /\ last_node t = e /\
    ov_id ov = v /\ ov_type ov = ty /\
    ov_sdepot ov = get_depot_idx nw f /\ ov_edepot ov = get_depot_idx nw e /\
    ov_acts ov = map (act_of nw) mid /\ ov_lists_sorted ov = true.
Proof.
  intros Hv Ht Hok R. apply render_vehicle_inv in R.
  destruct R as (ty' & t' & Hv' & Ht' & R1 & R2 & R3 & R4 & R5 & R6).
  assert (ty' = ty) by congruence. subst ty'.
  assert (t' = t). { unfold tour_of in Ht'. rewrite Ht in Ht'. congruence. } subst t'.
  unfold real_tour_ok in Hok. rewrite !andb_true_iff in Hok. destruct Hok as [[[_ _] Hval] _].
  destruct (valid_decomp _ Hval) as (f & mid & e & E & Hne & Hf & He & ND & CR).
  assert (F1 : first_node t = f) by (unfold first_node, nth_node; rewrite E; reflexivity).
  assert (F2 : last_node t = e) by (unfold last_node, nth_node, tlen; rewrite E; apply nth_last_snoc).
  rewrite E in CR. pose proof (mid_sorted f mid e ND CR) as SS.
  rewrite E, map_snd_windows in R5, R6.
  destruct (acts_sorted mid e He ND SS) as (A1 & A2 & A3).
  exists f, mid, e. rewrite R5, R6, A1, A2, A3, R3, R4, F1, F2. repeat split; auto.
Qed.

Lemma render_vehicle_total s v ty t :
  vget v (s_vehicles s) = Some ty -> vget v (s_tours s) = Some t -> real_tour_ok nw (v, ty, t) = true ->
  exists r, render_vehicle nw s v = Ok r.
Proof.
  intros Hv Ht Hok. unfold render_vehicle. rewrite Hv. cbn [unwrap_opt bind].
  unfold tour_of. rewrite Ht. cbn [bind].
  unfold real_tour_ok in Hok. rewrite !andb_true_iff in Hok. destruct Hok as [[[_ _] Hval] _].
  destruct (valid_decomp _ Hval) as (f & mid & e & E & Hne & Hf & He & ND & CR).
  match goal with |- context [fold_left ?G ?ws (Ok [])] =>
    destruct (fold_ok_gen G ws (fun w => is_depot (nd nw (fst w)) = false \/ is_depot (nd nw (snd w)) = false)) with (l0 := @nil odh)
      as [l1 ->] end.
  - intros [a b] l HP. cbn [fst snd] in HP. cbn [bind].
    destruct (loc_eqb (n_end_loc (nd nw a)) (n_start_loc (nd nw b))); [eauto|].
    destruct (sdt_ok a b HP) as [[dep arr] ->]. cbn [bind]. eauto.
  - intros [a b] Hab. cbn [fst snd]. rewrite E in Hab.
    destruct mid as [|m0 mid']; [congruence|].
    change (In (a, b) ((f, m0) :: windows ((m0 :: mid') ++ [e]))) in Hab. destruct Hab as [Q|Hab].
    + inversion Q; subst. right. apply ND. now left.
    + left. apply ND. eapply windows_snoc_fst; eauto.
  - cbn [bind]. eauto.
Qed.
End RV.

(** * 4. the whole rendering *)
Section RW.
Variable nw : network.

Definition rendered_as (s : schedule) (v : vehicle_id) (ov : oveh) : Prop := exists d, render_vehicle nw s v = Ok (ov, d).
Definition cycle_entry (s : schedule) (ty : Z) (e : Z * list (list vehicle_id)) : Prop :=
  exists tr, zget ty (s_trans s) = Some tr /\ e = (ty, map fst (tr_cycles tr)).

Lemma veh_fold_spec s vs : forall vs0 ds0 vs1 ds1,
  fold_left (fun acc v => do (vs, ds) <- acc; do (ov, d) <- render_vehicle nw s v; Ok (vs ++ [ov], ds ++ d))
            vs (Ok (vs0, ds0)) = Ok (vs1, ds1) ->
  exists ovs, vs1 = vs0 ++ ovs /\ Forall2 (rendered_as s) vs ovs.
Proof.
  induction vs as [|v vs IH]; intros vs0 ds0 vs1 ds1 H; cbn [fold_left] in H.
  - inversion H; subst. exists []. split; [now rewrite app_nil_r|constructor].
  - cbn [bind] in H. destruct (render_vehicle nw s v) as [[ov d]| | |] eqn:R; cbn [bind] in H.
    + apply IH in H. destruct H as (ovs & -> & F). exists (ov :: ovs). split; [now rewrite <- app_assoc|].
      constructor; [exists d; exact R|exact F].
    + apply fold_strict_gen in H; [destruct H; discriminate|].
      intros w r x Hx. destruct r; try discriminate Hx. eauto.
    + apply fold_strict_gen in H; [destruct H; discriminate|].
      intros w r x Hx. destruct r; try discriminate Hx. eauto.
    + apply fold_strict_gen in H; [destruct H; discriminate|].
      intros w r x Hx. destruct r; try discriminate Hx. eauto.
Qed.

Lemma cyc_fold_spec s tys : forall l0 l1,
  fold_left (fun acc ty => do l <- acc; do tr <- unwrap_opt (zget ty (s_trans s)); Ok (l ++ [(ty, map fst (tr_cycles tr))]))
            tys (Ok l0) = Ok l1 ->
  exists cs, l1 = l0 ++ cs /\ Forall2 (cycle_entry s) tys cs.
Proof.
  induction tys as [|ty tys IH]; intros l0 l1 H; cbn [fold_left] in H.
  - inversion H; subst. exists []. split; [now rewrite app_nil_r|constructor].
  - cbn [bind] in H. destruct (zget ty (s_trans s)) as [tr|] eqn:Z0; cbn [unwrap_opt bind] in H.
    + apply IH in H. destruct H as (cs & -> & F). exists ((ty, map fst (tr_cycles tr)) :: cs).
      split; [now rewrite <- app_assoc|]. constructor; [exists tr; auto|exact F].
    + apply fold_strict_gen in H; [destruct H; discriminate|].
      intros w r x Hx. destruct r; try discriminate Hx. eauto.
Qed.

Lemma render_inv s out : render nw s = Ok out ->
  Forall2 (rendered_as s) (vehicles_iter_all nw s) (o_vehicles out) /\
  Forall2 (cycle_entry s) (type_ids nw) (o_cycles out) /\
  o_segs out = flat_map (fun ty => map (seg_of nw s ty) (service_nodes nw ty)) (type_ids nw) /\
  o_slots out = map (seg_of nw s 0) (nw_maint nw).
Proof.
  unfold render. intros H. mon H. mon H. inversion H; subst; clear H. cbn.
  destruct a as [vs ds]. apply veh_fold_spec in E. destruct E as (ovs & -> & F).
  apply cyc_fold_spec in E0. destruct E0 as (cs & -> & F').
  cbn. auto.
Qed.

Lemma iter_all_facts s v : ListingOK nw s -> ToursOK nw s -> In v (vehicles_iter_all nw s) ->
  exists ty t, In ty (type_ids nw) /\ In v (vehicles_iter s ty) /\
    vget v (s_vehicles s) = Some ty /\ vget v (s_tours s) = Some t /\ real_tour_ok nw (v, ty, t) = true.
Proof.
  intros LO TO Hv. unfold vehicles_iter_all in Hv. apply in_flat_map in Hv. destruct Hv as (ty & Hty & Hv).
  pose proof (proj2 (lo_ids _ _ LO v ty) Hv) as G.
  pose proof (vget_in_keys _ _ _ G) as K. apply (lo_same_keys _ _ LO) in K.
  destruct (vget v (s_tours s)) as [t|] eqn:T; [|apply vget_none_keys in T; contradiction].
  destruct (to_real _ _ TO v t T) as (ty' & G' & OK). assert (ty' = ty) by congruence. subst ty'.
  exists ty, t. auto.
Qed.

(* every rendered vehicle, under the tour and listing invariants *)
Lemma rendered_facts s out : net_wf_b nw = true -> durations_pos_b nw = true ->
  ListingOK nw s -> ToursOK nw s -> render nw s = Ok out ->
  forall ov, In ov (o_vehicles out) ->
  exists ty t f mid e, In ty (type_ids nw) /\ In (ov_id ov) (vehicles_iter s ty) /\
    vget (ov_id ov) (s_vehicles s) = Some ty /\ vget (ov_id ov) (s_tours s) = Some t /\
    real_tour_ok nw (ov_id ov, ty, t) = true /\
    t_nodes t = f :: mid ++ [e] /\ mid <> [] /\ first_node t = f /\ last_node t = e /\
    ov_type ov = ty /\ ov_sdepot ov = get_depot_idx nw f /\ ov_edepot ov = get_depot_idx nw e /\
    ov_acts ov = map (act_of nw) mid /\ ov_lists_sorted ov = true.
Proof.
  intros WF DP LO TO R ov Hov. destruct (render_inv _ _ R) as (F & _).
  destruct (Forall2_in_r _ _ _ _ F Hov) as (v & Hv & (d & Rv)).
  destruct (iter_all_facts s v LO TO Hv) as (ty & t & Hty & Hit & G & T & OK).
  destruct (render_vehicle_real nw WF DP s v ty t ov d G T OK Rv)
    as (f & mid & e & E & Hne & F1 & F2 & I1 & I2 & I3 & I4 & I5 & I6).
  subst v. exists ty, t, f, mid, e. repeat split; auto.
Qed.

Lemma rendered_all s out : render nw s = Ok out ->
  forall v, In v (vehicles_iter_all nw s) -> exists ov, In ov (o_vehicles out) /\ ov_id ov = v.
Proof.
  intros R v Hv. destruct (render_inv _ _ R) as (F & _).
  destruct (Forall2_in_l _ _ _ _ F Hv) as (ov & Hov & (d & Rv)). exists ov. split; [exact Hov|].
  apply render_vehicle_inv in Rv. destruct Rv as (ty & t & _ & _ & I & _). exact I.
Qed.
End RW.

(** * 5. rendering never fails *)
Theorem render_total : forall nw, stmt_render_total nw.
Proof.
  intros nw (NOK & _ & _) s TO LO TR. unfold net_ok_b in NOK. apply andb_true_iff in NOK. destruct NOK as [WF DP].
  unfold render.
  match goal with |- context [fold_left ?G ?ws (Ok ([], []))] =>
    destruct (fold_ok_gen G ws (fun v => In v (vehicles_iter_all nw s))) with (l0 := (@nil oveh, @nil (odh * list vehicle_id)))
      as [vd ->] end.
  - intros v [vs ds] Hv. cbn [bind].
    destruct (iter_all_facts nw s v LO TO Hv) as (ty & t & _ & _ & G & T & OK).
    destruct (render_vehicle_total nw WF s v ty t G T OK) as [[ov d] ->]. cbn [bind]. eauto.
  - auto.
  - cbn [bind].
    match goal with |- context [fold_left ?G ?ws (Ok [])] =>
      destruct (fold_ok_gen G ws (fun ty => In ty (type_ids nw))) with (l0 := @nil (Z * list (list vehicle_id)))
        as [cy ->] end.
    + intros ty l Hty. cbn [bind]. destruct (TR ty Hty) as (tr & -> & _). cbn [unwrap_opt bind]. eauto.
    + auto.
    + cbn [bind]. eauto.
Qed.

(** * 6. C01 *)
(* what [net_fine] does not provide (it does not read [nw_depots]): the depot table knows the depot index carried by
   the first / last node of every real tour and registers a start-depot node / an end-depot node for it.
   Given the other hypotheses this is also necessary for clauses 101 and 103. *)
Definition DepotsKnown (nw : network) (s : schedule) : Prop :=
  forall v t, vget v (s_tours s) = Some t ->
    (exists dp b e, depot_entry nw (get_depot_idx nw (first_node t)) = Some (dp, b, e) /\
                    is_start_depot (nd nw b) = true) /\
    (exists dp b e, depot_entry nw (get_depot_idx nw (last_node t)) = Some (dp, b, e) /\
                    is_end_depot (nd nw e) = true).

(* network-level sufficient condition: every depot index carried by a depot node (of any node id, so that the index 0
   of the default node is included) has an entry whose nodes are a start-depot and an end-depot node *)
Definition depot_table_ok (nw : network) : Prop :=
  forall n, is_depot (nd nw n) = true ->
    exists dp b e, depot_entry nw (get_depot_idx nw n) = Some (dp, b, e) /\
                   is_start_depot (nd nw b) = true /\ is_end_depot (nd nw e) = true.

(* executable reading *)
Definition depot_indices (nw : network) : list Z :=
  0 :: flat_map (fun '(_, n) => match n with NStart d | NEnd d => [dn_depot d] | _ => [] end) (nw_nodes nw).
Definition depot_table_ok_b (nw : network) : bool :=
  forallb (fun d => match depot_entry nw d with
                    | Some (_, b, e) => is_start_depot (nd nw b) && is_end_depot (nd nw e)
                    | None => false end) (depot_indices nw).

Lemma depot_table_ok_b_sound nw : depot_table_ok_b nw = true -> depot_table_ok nw.
Proof.
  intros H n Hn. unfold depot_table_ok_b in H. rewrite forallb_forall in H.
  assert (I : In (get_depot_idx nw n) (depot_indices nw)).
  { unfold get_depot_idx, nd in *. unfold depot_indices.
    destruct (assoc nid_eqb n (nw_nodes nw)) as [x|] eqn:A; [|now left].
    apply (assoc_in nid_eqb nid_eqb_eq) in A. right. apply in_flat_map. exists (n, x). split; [exact A|].
    destruct x; try discriminate Hn; now left. }
  specialize (H _ I). destruct (depot_entry nw (get_depot_idx nw n)) as [[[dp b] e]|]; [|discriminate].
  apply andb_true_iff in H. exists dp, b, e. tauto.
Qed.

Lemma forallb_intro {A} (p : A -> bool) l : (forall x, In x l -> p x = true) -> forallb p l = true.
Proof. intros H. apply forallb_forall. exact H. Qed.

Lemma map_node_acts nw mid : map oa_node (map (act_of nw) mid) = mid.
Proof. rewrite map_map. cbn [act_of oa_node]. apply map_id. Qed.

Lemma windows_snoc_cases {A} (l : list A) e x y : In (x, y) (windows (l ++ [e])) -> In (x, y) (windows l) \/ y = e.
Proof.
  induction l as [|a r IH]; [intros []|]. destruct r as [|b r].
  - cbn. intros [H|[]]. inversion H. now right.
  - change (In (x, y) ((a, b) :: windows ((b :: r) ++ [e])) -> In (x, y) ((a, b) :: windows (b :: r)) \/ y = e).
    intros [H|H]; [left; now left|]. destruct (IH H) as [G|G]; [left; now right|now right].
Qed.

Lemma cr_start nw b y : is_start_depot (nd nw b) = true -> is_depot (nd nw y) = false -> can_reach nw b y = true.
Proof.
  unfold can_reach, can_reach_nodes. destruct (nd nw b); try discriminate. destruct (nd nw y); try discriminate; reflexivity.
Qed.
Lemma cr_end nw x e : is_depot (nd nw x) = false -> is_end_depot (nd nw e) = true -> can_reach nw x e = true.
Proof.
  unfold can_reach, can_reach_nodes. destruct (nd nw e); try discriminate. destruct (nd nw x); try discriminate; reflexivity.
Qed.

(* a valid tour stays valid when its depot nodes are replaced by other start / end depot nodes *)
Lemma valid_swap nw f mid e b e' :
  valid_tour_nodes nw (f :: mid ++ [e]) = true -> is_start_depot (nd nw b) = true -> is_end_depot (nd nw e') = true ->
  valid_tour_nodes nw (b :: mid ++ [e']) = true.
Proof.
  intros V Hb He'. destruct (valid_decomp nw _ V) as (f0 & mid0 & e0 & E & Hne & _ & _ & ND & CR).
  inversion E as [[Ef Em]]. subst f0. apply app_inj_tail in Em. destruct Em as [<- <-]. clear E.
  unfold valid_tour_nodes. rewrite Hb. cbn [andb tl].
  change (b :: mid ++ [e']) with ((b :: mid) ++ [e']) at 1. rewrite last_last, He'. cbn [andb].
  rewrite removelast_last.
  assert (L : (3 <=? Z.of_nat (length (b :: mid ++ [e']))) = true).
  { apply Z.leb_le. cbn [length]. rewrite app_length. cbn [length]. destruct mid; [congruence|cbn [length]; lia]. }
  rewrite L. cbn [andb]. apply andb_true_iff. split.
  - apply forallb_forall. intros n Hn. unfold node_is_depot. now rewrite (ND n Hn).
  - apply forallb_forall. intros [x y] Hxy.
    destruct mid as [|m0 mid']; [congruence|].
    change (In (x, y) ((b, m0) :: windows ((m0 :: mid') ++ [e']))) in Hxy. destruct Hxy as [Q|Hxy].
    + inversion Q; subst. apply cr_start; [exact Hb|apply ND; now left].
    + pose proof (windows_snoc_fst _ _ _ _ Hxy) as Hx. destruct (windows_snoc_cases _ _ _ _ Hxy) as [G| ->].
      * apply CR. apply windows_tl, windows_app_l, G.
      * apply cr_end; [apply ND, Hx|exact He'].
Qed.

Lemma depot_table_known nw s : depot_table_ok nw -> ToursOK nw s -> DepotsKnown nw s.
Proof.
  intros DT TO v t T. destruct (to_real _ _ TO v t T) as (ty & _ & OK).
  unfold real_tour_ok in OK. rewrite !andb_true_iff in OK. destruct OK as [[[_ _] V] _].
  destruct (valid_decomp nw _ V) as (f & mid & e & E & _ & Hf & He & _).
  assert (F1 : first_node t = f) by (unfold first_node, nth_node; rewrite E; reflexivity).
  assert (F2 : last_node t = e) by (unfold last_node, nth_node, tlen; rewrite E; apply nth_last_snoc).
  rewrite F1, F2. split.
  - destruct (DT f) as (dp & b & e' & Q & B & _); [unfold is_depot; now rewrite Hf|]. eauto 6.
  - destruct (DT e) as (dp & b & e' & Q & _ & B); [unfold is_depot; rewrite He; apply orb_true_r|]. eauto 6.
Qed.

Theorem render_C01_under_depots : forall nw, net_fine nw -> forall s out,
  ToursOK nw s -> ListingOK nw s -> DepotsKnown nw s -> render nw s = Ok out -> check_C01 nw out = [].
Proof.
  intros nw (NOK & _ & _) s out TO LO DK R. unfold net_ok_b in NOK. apply andb_true_iff in NOK. destruct NOK as [WF DP].
  pose proof (rendered_facts nw s out WF DP LO TO R) as K.
  unfold check_C01.
  rewrite (forallb_intro (fun v => depot_known nw (ov_sdepot v) && depot_known nw (ov_edepot v))).
  rewrite (forallb_intro (fun v => negb (Nat.eqb (length (ov_acts v)) 0))).
  rewrite (forallb_intro (fun v => ov_lists_sorted v && valid_tour_nodes nw (itinerary nw v))).
  rewrite (forallb_intro (fun v => forallb (fun a => compatible_with_vehicle_type nw (oa_node a) (ov_type v)) (ov_acts v))).
  reflexivity.
  - intros ov Hov.
    destruct (K ov Hov) as (ty & t & f & mid & e & _ & _ & G & T & OK & E & Hne & F1 & F2 & I2 & I3 & I4 & I5 & I6).
    rewrite I5, I2. apply forallb_forall. intros a Ha. apply in_map_iff in Ha. destruct Ha as (n & <- & Hn).
    cbn [act_of oa_node]. unfold real_tour_ok in OK. rewrite !andb_true_iff in OK. destruct OK as [_ C].
    rewrite forallb_forall in C. apply C. rewrite E. right. apply in_or_app. now left.
  - intros ov Hov.
    destruct (K ov Hov) as (ty & t & f & mid & e & _ & _ & G & T & OK & E & Hne & F1 & F2 & I2 & I3 & I4 & I5 & I6).
    rewrite I6. cbn [andb]. unfold itinerary. rewrite I3, I4, I5, map_node_acts.
    destruct (DK _ _ T) as ((dp & b & e1 & D1 & B1) & (dp' & b2 & e' & D2 & B2)). rewrite F1 in D1. rewrite F2 in D2.
    unfold get_start_depot_node, get_end_depot_node. rewrite D1, D2.
    unfold real_tour_ok in OK. rewrite !andb_true_iff in OK. destruct OK as [[[_ _] V] _]. rewrite E in V.
    eapply valid_swap; eauto.
  - intros ov Hov.
    destruct (K ov Hov) as (ty & t & f & mid & e & _ & _ & G & T & OK & E & Hne & F1 & F2 & I2 & I3 & I4 & I5 & I6).
    rewrite I5, map_length. destruct mid; [congruence|reflexivity].
  - intros ov Hov.
    destruct (K ov Hov) as (ty & t & f & mid & e & _ & _ & G & T & OK & E & Hne & F1 & F2 & I2 & I3 & I4 & I5 & I6).
    destruct (DK _ _ T) as ((dp & b & e1 & D1 & B1) & (dp' & b2 & e' & D2 & B2)). rewrite F1 in D1. rewrite F2 in D2.
    unfold depot_known. rewrite I3, I4, D1, D2. reflexivity.
Qed.

(* the statement exactly as given, for every network whose depot table is sound *)
Theorem render_C01_under_depot_table : forall nw, depot_table_ok nw -> stmt_render_C01 nw.
Proof.
  intros nw DT NF s out TO LO R. eapply render_C01_under_depots; eauto. apply depot_table_known; assumption.
Qed.
Corollary render_C01_under_depot_table_b : forall nw, depot_table_ok_b nw = true -> stmt_render_C01 nw.
Proof. intros nw H. apply render_C01_under_depot_table, depot_table_ok_b_sound, H. Qed.

(* the clauses that do not read the depot table hold exactly under the stated hypotheses *)
Theorem render_C01_clauses_102_104 : forall nw, net_fine nw -> forall s out,
  ToursOK nw s -> ListingOK nw s -> render nw s = Ok out ->
  ~ In 102 (check_C01 nw out) /\ ~ In 104 (check_C01 nw out) /\
  forallb ov_lists_sorted (o_vehicles out) = true.
Proof.
  intros nw (NOK & _ & _) s out TO LO R. unfold net_ok_b in NOK. apply andb_true_iff in NOK. destruct NOK as [WF DP].
  pose proof (rendered_facts nw s out WF DP LO TO R) as K.
  unfold check_C01.
  rewrite (forallb_intro (fun v => negb (Nat.eqb (length (ov_acts v)) 0))).
  rewrite (forallb_intro (fun v => forallb (fun a => compatible_with_vehicle_type nw (oa_node a) (ov_type v)) (ov_acts v))).
  - split; [|split].
    + intros H. rewrite app_nil_l, app_nil_r in H. apply in_app_or in H.
      destruct H as [H|H]; [destruct (forallb _ _) in H|destruct (forallb _ _) in H]; cbn in H; intuition discriminate.
    + intros H. rewrite app_nil_l, app_nil_r in H. apply in_app_or in H.
      destruct H as [H|H]; [destruct (forallb _ _) in H|destruct (forallb _ _) in H]; cbn in H; intuition discriminate.
    + apply forallb_intro. intros ov Hov.
      destruct (K ov Hov) as (ty & t & f & mid & e & _ & _ & G & T & OK & E & Hne & F1 & F2 & I2 & I3 & I4 & I5 & I6).
      exact I6.
  - intros ov Hov.
    destruct (K ov Hov) as (ty & t & f & mid & e & _ & _ & G & T & OK & E & Hne & F1 & F2 & I2 & I3 & I4 & I5 & I6).
    rewrite I5, I2. apply forallb_forall. intros a Ha. apply in_map_iff in Ha. destruct Ha as (n & <- & Hn).
    cbn [act_of oa_node]. unfold real_tour_ok in OK. rewrite !andb_true_iff in OK. destruct OK as [_ C].
    rewrite forallb_forall in C. apply C. rewrite E. right. apply in_or_app. now left.
  - intros ov Hov.
    destruct (K ov Hov) as (ty & t & f & mid & e & _ & _ & G & T & OK & E & Hne & F1 & F2 & I2 & I3 & I4 & I5 & I6).
    rewrite I5, map_length. destruct mid; [congruence|reflexivity].
Qed.

(** * 6b. every network built by [load] has a sound depot table (no validity assumption needed): depot k (the
      overflow depot last) has index k and the nodes SD 2k / ED 2k+1, which carry index k; the table maps k to them *)
Section LoadDepotTable.
Definition rd_idx_from (s : nat) (deps : list depot) : Prop :=
  forall k d, nth_error deps k = Some d -> dp_idx d = Z.of_nat (s + k).

Lemma rd_idx_from_cons s d deps : rd_idx_from s (d :: deps) -> dp_idx d = Z.of_nat s /\ rd_idx_from (S s) deps.
Proof.
  intros H. split.
  - rewrite (H 0%nat d eq_refl). f_equal. lia.
  - intros k x G. rewrite (H (S k) x G). f_equal. lia.
Qed.

Lemma rd_idx_map_combine {B} (f : nat * B -> depot) (l : list B) :
  (forall k x, dp_idx (f (k, x)) = Z.of_nat k) -> forall s, rd_idx_from s (map f (combine (seq s (length l)) l)).
Proof.
  intros Hf. induction l as [|x l IH]; intros s k d G.
  - destruct k; discriminate G.
  - cbn [length seq combine map] in G. destruct k as [|k]; cbn [nth_error] in G.
    + inversion G; subst d. rewrite Hf. f_equal. lia.
    + rewrite (IH (S s) k d G). f_equal. lia.
Qed.

Lemma rd_idx_from_snoc l ov : rd_idx_from 0 l -> dp_idx ov = Z.of_nat (length l) -> rd_idx_from 0 (l ++ [ov]).
Proof.
  intros H E k d G. destruct (lt_dec k (length l)) as [L|L].
  - rewrite nth_error_app1 in G by exact L. now apply H.
  - rewrite nth_error_app2 in G by lia. destruct (k - length l)%nat as [|m] eqn:Q; cbn [nth_error] in G.
    + inversion G; subst d. rewrite E. f_equal. lia.
    + destruct m; discriminate G.
Qed.

Definition rd_dn_of (s : nat) (deps : list depot) : list (depot * node_id * node_id) :=
  map (fun '(k, d) => (d, SD (2 * Z.of_nat k), ED (2 * Z.of_nat k + 1))) (combine (seq s (length deps)) deps).

Lemma rd_dn_entry deps : forall s, rd_idx_from s deps -> forall k d, nth_error deps k = Some d ->
  assoc Z.eqb (Z.of_nat (s + k)) (map (fun '(d, sn, en) => (dp_idx d, (d, sn, en))) (rd_dn_of s deps))
    = Some (d, SD (2 * Z.of_nat (s + k)), ED (2 * Z.of_nat (s + k) + 1)) /\
  In (SD (2 * Z.of_nat (s + k)), NStart {| dn_depot := dp_idx d; dn_loc := dp_loc d |})
     (flat_map Ldentry_of (rd_dn_of s deps)) /\
  In (ED (2 * Z.of_nat (s + k) + 1), NEnd {| dn_depot := dp_idx d; dn_loc := dp_loc d |})
     (flat_map Ldentry_of (rd_dn_of s deps)).
Proof.
  induction deps as [|d0 deps IH]; intros s IX k d G.
  - destruct k; discriminate G.
  - apply rd_idx_from_cons in IX. destruct IX as [E0 IX].
    unfold rd_dn_of. cbn [length seq combine map flat_map assoc Ldentry_of]. fold (rd_dn_of (S s) deps).
    destruct k as [|k]; cbn [nth_error] in G.
    + inversion G; subst d0. rewrite Nat.add_0_r, E0, Z.eqb_refl. split; [reflexivity|]. split; [now left|right; now left].
    + destruct (Z.eqb_spec (Z.of_nat (s + S k)) (dp_idx d0)) as [Q|Q]; [rewrite E0 in Q; lia|].
      replace (s + S k)%nat with (S s + k)%nat by lia.
      destruct (IH (S s) IX k d G) as (A & B & C). split; [exact A|]. split; right; right; assumption.
Qed.

Lemma rd_dn_depot deps : forall s, rd_idx_from s deps -> forall id n, In (id, n) (flat_map Ldentry_of (rd_dn_of s deps)) ->
  exists k d dn, nth_error deps k = Some d /\ (n = NStart dn \/ n = NEnd dn) /\ dn_depot dn = Z.of_nat (s + k).
Proof.
  induction deps as [|d0 deps IH]; intros s IX id n H.
  - destruct H.
  - apply rd_idx_from_cons in IX. destruct IX as [E0 IX].
    unfold rd_dn_of in H. cbn [length seq combine map flat_map Ldentry_of app] in H. fold (rd_dn_of (S s) deps) in H.
    destruct H as [H|[H|H]].
    + inversion H; subst. exists 0%nat, d0. eexists. split; [reflexivity|]. split; [left; reflexivity|].
      cbn [dn_depot]. rewrite E0. f_equal. lia.
    + inversion H; subst. exists 0%nat, d0. eexists. split; [reflexivity|]. split; [right; reflexivity|].
      cbn [dn_depot]. rewrite E0. f_equal. lia.
    + destruct (IH (S s) IX id n H) as (k & d & dn & G & Q1 & Q2). exists (S k), d, dn. split; [exact G|].
      split; [exact Q1|]. rewrite Q2. f_equal. lia.
Qed.

Lemma rd_make_depots_idx i perm x : rd_idx_from 0 (make_depots i perm x).
Proof.
  unfold make_depots. destruct (i_depots i) as [ds|]; apply rd_idx_map_combine; intros k y; reflexivity.
Qed.

Theorem load_depot_table_ok : forall i perm nw, load i perm = Ok nw -> depot_table_ok nw.
Proof.
  intros i perm nw H. rewrite load_eq in H.
  destruct (time_span i) as [[e0 l0]| | |]; cbn [bind] in H; try discriminate H.
  destruct (planning_of e0 l0) as [p0| | |]; cbn [bind] in H; try discriminate H.
  destruct (all_trips i) as [trips| | |]; cbn [bind] in H; try discriminate H.
  destruct (planning_of _ _) as [p1| | |]; cbn [bind] in H; try discriminate H.
  inversion H; subst nw; clear H.
  set (deps := Ldepots i perm trips).
  assert (IX : rd_idx_from 0 deps).
  { unfold deps, Ldepots. apply rd_idx_from_snoc; [apply rd_make_depots_idx|]. reflexivity. }
  assert (NE : exists d0, nth_error deps 0 = Some d0).
  { unfold deps, Ldepots. destruct (Ldepots0 i perm trips) as [|a r]; cbn; eauto. }
  intros n Hn.
  assert (C1 : exists k d, nth_error deps k = Some d /\ get_depot_idx (Lnet i perm trips p0 p1) n = Z.of_nat k).
  { unfold get_depot_idx, nd in *. cbn [nw_nodes Lnet] in *.
    destruct (assoc nid_eqb n (Lnodes i perm trips)) as [x|] eqn:A.
    - apply (assoc_in nid_eqb nid_eqb_eq) in A. unfold Lnodes in A.
      apply in_app_iff in A. destruct A as [A|A].
      + unfold Ldentries, Ldnodes in A. fold deps in A. fold (rd_dn_of 0 deps) in A.
        destruct (rd_dn_depot deps 0 IX n x A) as (k & d & dn & G & [->| ->] & Q); exists k, d; split; auto.
      + apply in_app_iff in A. destruct A as [A|A].
        * apply Lsvc_entries_in in A. destruct A as (y & -> & _). discriminate Hn.
        * apply Lm_entries_in in A. destruct A as (y & -> & _). discriminate Hn.
    - destruct NE as [d0 G]. exists 0%nat, d0. split; [exact G|reflexivity]. }
  destruct C1 as (k & d & Nk & ->).
  destruct (rd_dn_entry deps 0 IX k d Nk) as (A & B & C). cbn [Nat.add] in A, B, C.
  exists d, (SD (2 * Z.of_nat k)), (ED (2 * Z.of_nat k + 1)). split; [|split].
  - unfold depot_entry. cbn [nw_depots Lnet]. unfold Ldentry, Ldnodes. fold deps. fold (rd_dn_of 0 deps). exact A.
  - rewrite (Lnd i perm trips p0 _ (NStart {| dn_depot := dp_idx d; dn_loc := dp_loc d |}) p1); [reflexivity|].
    unfold Lnodes. apply in_app_iff. left. unfold Ldentries, Ldnodes. fold deps. fold (rd_dn_of 0 deps). exact B.
  - rewrite (Lnd i perm trips p0 _ (NEnd {| dn_depot := dp_idx d; dn_loc := dp_loc d |}) p1); [reflexivity|].
    unfold Lnodes. apply in_app_iff. left. unfold Ldentries, Ldnodes. fold deps. fold (rd_dn_of 0 deps). exact C.
Qed.

(* hence the C01 statement exactly as given, for every loaded network *)
Corollary render_C01_loaded : forall i perm nw, load i perm = Ok nw -> stmt_render_C01 nw.
Proof. intros i perm nw H. apply render_C01_under_depot_table. eapply load_depot_table_ok; eauto. Qed.
End LoadDepotTable.

(** * 7. C02, formation and track clauses *)
(* what [net_fine] does not provide: limits and track counts are not negative (they are unsigned in the
   implementation) and no node listed as a service trip of a type is a maintenance slot *)
Definition LimitsSane (nw : network) : Prop :=
  (forall ty n l, In ty (type_ids nw) -> In n (service_nodes nw ty) -> formation_limit nw n = Some l -> 0 <= l) /\
  (forall m, In m (nw_maint nw) -> 0 <= track_count nw m) /\
  (forall ty n, In ty (type_ids nw) -> In n (service_nodes nw ty) -> is_maint (nd nw n) = false).

Lemma not_in_single (b : bool) (c x : Z) : x <> c -> ~ In x (if b then [] else [c]).
Proof. intros H. destruct b; cbn; intuition. Qed.

Theorem render_C02_under_limits : forall nw, LimitsSane nw -> stmt_render_C02_formations nw.
Proof.
  intros nw (L1 & L2 & L3) (NOK & MK & _) s out FL FO R.
  destruct (render_inv _ _ _ R) as (_ & _ & ES & EL).
  unfold check_C02.
  rewrite (forallb_intro (fun s0 => match formation_limit nw (os_node s0) with
                                   | Some l => Z.of_nat (length (os_form s0)) <=? l | None => true end)).
  rewrite (forallb_intro (fun s0 => Z.of_nat (length (os_form s0)) <=? track_count nw (os_node s0))).
  - cbn [app]. destruct (nw_overflow nw) as [[od x] y]. split; apply not_in_single; discriminate.
  - intros s0 H0. rewrite EL in H0. apply in_map_iff in H0. destruct H0 as (m & <- & Hm).
    cbn [seg_of os_node os_form]. apply Z.leb_le. pose proof (L2 m Hm) as T.
    destruct (nget m (s_forms s)) as [f|] eqn:NG; [|cbn; lia].
    rewrite map_length. pose proof (FL m f NG) as B. unfold form_len_ok in B.
    pose proof (MK m Hm) as IM. unfold track_count in *. destruct (nd nw m); try discriminate IM. lia.
  - intros s0 H0. rewrite ES in H0. apply in_flat_map in H0. destruct H0 as (ty & Hty & H0).
    apply in_map_iff in H0. destruct H0 as (n & <- & Hn).
    cbn [seg_of os_node os_form]. destruct (formation_limit nw n) as [l|] eqn:EF; [|reflexivity].
    apply Z.leb_le. pose proof (L1 ty n l Hty Hn EF) as T.
    destruct (nget n (s_forms s)) as [f|] eqn:NG; [|cbn; lia].
    rewrite map_length. pose proof (FL n f NG) as B. unfold form_len_ok in B.
    assert (SV : is_service (nd nw n) = true).
    { assert (Kn : In n (keys (s_forms s))).
      { unfold keys. apply (assoc_in nid_eqb nid_eqb_eq) in NG. apply in_map_iff. exists (n, f). auto. }
      apply (fo_keys _ _ FO) in Kn. unfold coverable_nodes in Kn. apply in_app_or in Kn. destruct Kn as [Kn|Kn].
      - unfold all_service_nodes in Kn. apply filter_In in Kn. tauto.
      - pose proof (MK n Kn) as IM. rewrite (L3 ty n Hty Hn) in IM. discriminate. }
    destruct (nd nw n); try discriminate SV. rewrite max_formation_spec, EF in B. lia.
Qed.

(* executable reading of [LimitsSane] (sufficient; can be evaluated on every loaded network like [net_ok_b]) *)
Definition limits_sane_b (nw : network) : bool :=
  forallb (fun vt => match vt_limit vt with Some l => 0 <=? l | None => true end) (nw_types nw) &&
  forallb (fun '(_, x) => match x with
                          | NService sv => match st_limit sv with Some l => 0 <=? l | None => true end
                          | NMaint m => 0 <=? ms_tracks m
                          | _ => true end) (nw_nodes nw) &&
  forallb (fun ty => forallb (fun n => negb (is_maint (nd nw n))) (service_nodes nw ty)) (type_ids nw).

Lemma limits_sane_b_sound nw : limits_sane_b nw = true -> LimitsSane nw.
Proof.
  unfold limits_sane_b. rewrite !andb_true_iff. intros [[H1 H2] H3].
  rewrite forallb_forall in H1, H2, H3.
  assert (N : forall n, match nd nw n with
                        | NService sv => match st_limit sv with Some l => 0 <= l | None => True end
                        | NMaint m => 0 <= ms_tracks m
                        | _ => True end).
  { intros n. unfold nd. destruct (assoc nid_eqb n (nw_nodes nw)) as [x|] eqn:A; [|exact I].
    apply (assoc_in nid_eqb nid_eqb_eq) in A. specialize (H2 _ A). cbn in H2.
    destruct x as [d|sv|m|d]; auto; [destruct (st_limit sv); [apply Z.leb_le, H2|exact I]|apply Z.leb_le, H2]. }
  split; [|split].
  - intros ty n l _ _ EF. unfold formation_limit in EF.
    assert (A : forall a, match vtype_of nw (vehicle_type_for nw n) with Some vt => vt_limit vt | None => None end = Some a ->
                          0 <= a).
    { intros a Q. destruct (vtype_of nw (vehicle_type_for nw n)) as [vt|] eqn:V; [|discriminate Q].
      unfold vtype_of in V. destruct (vehicle_type_for nw n <? 0); [discriminate V|].
      apply nth_error_In in V. specialize (H1 _ V). cbn in H1. rewrite Q in H1. apply Z.leb_le, H1. }
    assert (B : forall b, match nd nw n with NService sv => st_limit sv | _ => None end = Some b -> 0 <= b).
    { intros b Q. specialize (N n). destruct (nd nw n) as [d|sv|m|d]; try discriminate Q. rewrite Q in N. exact N. }
    destruct (match vtype_of nw (vehicle_type_for nw n) with Some vt => vt_limit vt | None => None end) as [a|];
      destruct (match nd nw n with NService sv => st_limit sv | _ => None end) as [b|]; cbn [omin] in EF;
      inversion EF; subst; clear EF.
    + specialize (A a eq_refl). specialize (B b eq_refl). lia.
    + exact (A l eq_refl).
    + exact (B l eq_refl).
  - intros m _. specialize (N m). unfold track_count. destruct (nd nw m); auto; lia.
  - intros ty n Hty Hn. specialize (H3 ty Hty). rewrite forallb_forall in H3. specialize (H3 n Hn).
    apply negb_true_iff in H3. exact H3.
Qed.

Corollary render_C02_under_limits_b : forall nw, limits_sane_b nw = true -> stmt_render_C02_formations nw.
Proof. intros nw H. apply render_C02_under_limits, limits_sane_b_sound, H. Qed.

(* every network loaded from a valid instance whose limits are not negative (in the implementation they are unsigned)
   satisfies [limits_sane_b] *)
Definition inst_limits_nonneg_b (i : instance) : bool :=
  forallb (fun vt => match vt_limit vt with Some l => 0 <=? l | None => true end) (i_types i) &&
  forallb (fun r => forallb (fun g => match rs_limit g with Some l => 0 <=? l | None => true end) (r_segs r)) (i_routes i).

Lemma trip_records_limit i sv : In sv (trip_records i) ->
  exists r g, In r (i_routes i) /\ In g (r_segs r) /\ st_limit sv = rs_limit g.
Proof.
  unfold trip_records. intros H. apply in_flat_map in H. destruct H as (d & _ & H).
  apply in_flat_map in H. destruct H as (sg & _ & H).
  destruct (lookup_rseg i d sg) as [[r g]|] eqn:Q; [|destruct H].
  destruct H as [<-|[]]. destruct (lookup_in i d sg r g Q) as [A B]. exists r, g. auto.
Qed.

Theorem load_limits_sane : forall i perm nw,
  valid_instance_b i = true -> inst_limits_nonneg_b i = true -> load i perm = Ok nw -> limits_sane_b nw = true.
Proof.
  intros i perm nw V LN H. destruct (load_inv i perm nw V H) as (trips & n0 & p1 & -> & _ & R & _ & _).
  unfold inst_limits_nonneg_b in LN. apply andb_true_iff in LN. destruct LN as [LT LR].
  rewrite forallb_forall in LR.
  destruct (valid_parts i V) as (_ & _ & _ & _ & VS & _).
  unfold limits_sane_b. rewrite !andb_true_iff. split; [split|].
  - cbn [nw_types Lnet]. exact LT.
  - cbn [nw_nodes Lnet]. apply forallb_forall. intros [id x] Hx. unfold Lnodes in Hx.
    apply in_app_iff in Hx. destruct Hx as [Hx|Hx].
    + apply Ldentries_in in Hx. destruct Hx as (d & [Q|Q]); cbn [snd] in Q; subst x; reflexivity.
    + apply in_app_iff in Hx. destruct Hx as [Hx|Hx].
      * apply Lsvc_entries_in in Hx. destruct Hx as (sv & -> & Hs). apply Ltbt_in in Hs. rewrite R in Hs.
        destruct (trip_records_limit i sv Hs) as (r & g & Hr & Hg & ->).
        specialize (LR r Hr). rewrite forallb_forall in LR. exact (LR g Hg).
      * apply Lm_entries_in in Hx. destruct Hx as (sl & -> & Hs). cbn [Lmk_slot ms_tracks].
        apply Z.leb_le. apply (VS sl Hs).
  - apply forallb_forall. intros ty Hty. apply forallb_forall. intros n Hn.
    assert (Hty' : In ty (tids i)) by exact Hty.
    rewrite (Lservice_nodes i perm trips (Len n0) p1 ty Hty') in Hn. unfold Lsrt in Hn. apply sort_by_in in Hn.
    unfold Lsvc_list in Hn. apply in_map_iff in Hn. destruct Hn as ([id x] & Q & Hx). cbn [fst] in Q. subst id.
    apply filter_In in Hx. destruct Hx as [Hx _].
    assert (Hx' : In (n, x) (Lnodes i perm trips)).
    { unfold Lnodes. apply in_app_iff. right. apply in_app_iff. left. exact Hx. }
    rewrite (Lnd i perm trips (Len n0) n x p1 Hx').
    apply Lsvc_entries_in in Hx. destruct Hx as (sv & -> & _). reflexivity.
Qed.

Corollary render_C02_loaded : forall i perm nw,
  valid_instance_b i = true -> inst_limits_nonneg_b i = true -> load i perm = Ok nw -> stmt_render_C02_formations nw.
Proof. intros i perm nw V L H. apply render_C02_under_limits_b. eapply load_limits_sane; eauto. Qed.

(** * 8. C05 *)
Lemma NoDup_nodup_vid l : NoDup l -> nodup_vid l = true.
Proof.
  induction 1 as [|x l Hx N IH]; [reflexivity|]. cbn [nodup_vid]. rewrite IH, andb_true_r. apply negb_true_iff.
  destruct (mem_vid x l) eqn:E; [|reflexivity]. apply mem_vid_in in E. contradiction.
Qed.

Lemma same_vids_intro a b : (forall x, In x a <-> In x b) -> same_vids a b = true.
Proof.
  intros H. unfold same_vids. apply andb_true_iff. split; apply forallb_forall; intros x Hx; apply mem_vid_in, H, Hx.
Qed.

Lemma assoc_cycles s tys cs ty : Forall2 (cycle_entry s) tys cs -> In ty tys ->
  exists tr, zget ty (s_trans s) = Some tr /\ assoc Z.eqb ty cs = Some (map fst (tr_cycles tr)).
Proof.
  induction 1 as [|ty0 e tys cs (tr0 & Z0 & ->) F IH]; [intros []|]. intros Hty. cbn [assoc].
  destruct (ty =? ty0) eqn:Q.
  - apply Z.eqb_eq in Q. subst ty0. eauto.
  - apply Z.eqb_neq in Q. destruct Hty as [->|Hty]; [congruence|]. auto.
Qed.

Lemma find_by_id (l : list oveh) a : (exists ov, In ov l /\ ov_id ov = a) ->
  exists va, find (fun v => vid_eqb a (ov_id v)) l = Some va /\ In va l /\ ov_id va = a.
Proof.
  intros (ov & Hov & Hid). destruct (find (fun v => vid_eqb a (ov_id v)) l) as [va|] eqn:Fd.
  - apply find_some in Fd. destruct Fd as [Hin Q]. apply vid_eqb_eq in Q. eauto.
  - pose proof (find_none _ _ Fd ov Hov) as Q. cbn in Q. rewrite Hid, vid_eqb_refl in Q. discriminate.
Qed.

Lemma cyc_succ (l : list vehicle_id) a b : NoDup l -> In (a, b) (cyc_pairs l) ->
  exists p, index_of (vid_eqb a) l = Some p /\ nth_error l (Nat.modulo (p + 1) (length l)) = Some b.
Proof.
  intros ND Hab. destruct (cyc_pairs_in _ _ _ Hab) as [Ha _].
  destruct (in_split _ _ Ha) as (pre & suf & E). subst l.
  apply NoDup_remove_2 in ND. assert (Npre : ~ In a pre) by (intros Q; apply ND, in_or_app; now left).
  assert (Nsuf : ~ In a suf) by (intros Q; apply ND, in_or_app; now right).
  exists (length pre). split; [apply index_of_split, Npre|].
  unfold cyc_pairs in Hab.
  assert (Hf : exists f, In (a, b) (windows ((pre ++ a :: suf) ++ [f])) /\ hd_error (pre ++ a :: suf) = Some f).
  { destruct (pre ++ a :: suf) as [|f r] eqn:E; [destruct pre; discriminate|]. exists f. auto. }
  destruct Hf as (f & Hw & Hf). clear Hab.
  rewrite <- app_assoc in Hw. cbn [app] in Hw. rewrite windows_app in Hw. apply in_app_or in Hw.
  destruct Hw as [Hw|Hw]; [apply windows_snoc_fst in Hw; contradiction|].
  rewrite app_length. cbn [length].
  destruct suf as [|x suf'].
  - cbn [app] in Hw. cbn in Hw. destruct Hw as [Q|[]]. inversion Q; subst f.
    replace (length pre + 1)%nat with (length pre + 1 + 0)%nat at 1 by lia.
    cbn [length]. replace (length pre + 1 + 0)%nat with (length pre + 1)%nat by lia.
    rewrite Nat.mod_same by lia. destruct pre; cbn in Hf |- *; congruence.
  - change (In (a, b) ((a, x) :: windows ((x :: suf') ++ [f]))) in Hw. destruct Hw as [Q|Hw].
    + inversion Q; subst x. rewrite Nat.mod_small by (cbn [length]; lia).
      change (pre ++ a :: b :: suf') with (pre ++ [a] ++ b :: suf'). rewrite app_assoc.
      replace (length pre + 1)%nat with (length (pre ++ [a])) by (rewrite app_length; reflexivity).
      apply nth_error_mid_eq.
    + apply windows_snoc_fst in Hw. contradiction.
Qed.

Lemma succ_of_pair nw tours m tr k c a b :
  TInv nw tours m tr -> nth_error (tr_cycles tr) k = Some c -> In (a, b) (cyc_pairs (fst c)) ->
  get_successor_of tr a = Ok b.
Proof.
  intros I Hk Hab. destruct (cyc_pairs_in _ _ _ Hab) as [Ha _].
  unfold get_successor_of. rewrite (inv_lookup_k nw tours m tr k c a I Hk Ha). cbn [unwrap_opt bind].
  rewrite Hk. cbn [unwrap_opt bind].
  destruct (cyc_succ (fst c) a b (inv_cycle_nodup nw tours m tr k c I Hk) Hab) as (p & Ep & En).
  rewrite Ep. cbn [unwrap_opt bind]. rewrite En. reflexivity.
Qed.

Theorem render_C05 : forall nw, stmt_render_C05 nw.
Proof.
  intros nw (NOK & _ & _) s out TO LO TR TA R. unfold net_ok_b in NOK. apply andb_true_iff in NOK. destruct NOK as [WF DP].
  pose proof (rendered_facts nw s out WF DP LO TO R) as K.
  pose proof (rendered_all nw s out R) as KA.
  destruct (render_inv _ _ _ R) as (_ & FC & _).
  assert (ALL : forall ty v, In ty (type_ids nw) -> In v (vehicles_iter s ty) -> In v (vehicles_iter_all nw s)).
  { intros ty v Hty Hv. unfold vehicles_iter_all. apply in_flat_map. eauto. }
  unfold check_C05.
  rewrite (forallb_intro (fun ty => match assoc Z.eqb ty (o_cycles out) with
     | Some cycles => nodup_vid (concat cycles) &&
                      same_vids (concat cycles) (map ov_id (filter (fun v => ov_type v =? ty) (o_vehicles out)))
     | None => false end)).
  rewrite (forallb_intro (fun '(_, cycles) =>
     forallb (fun l => forallb (fun '(a, b) =>
        match veh_by_id out a, veh_by_id out b with
        | Some va, Some vb => ov_edepot va =? ov_sdepot vb | _, _ => false end) (cyclic_pairs l)) cycles)).
  - reflexivity.
  - intros [ty cycles] He. destruct (Forall2_in_r _ _ _ _ FC He) as (ty' & Hty & (tr & Z0 & Q)).
    inversion Q; subst ty' cycles; clear Q.
    destruct (TR ty Hty) as (tr' & Z1 & I). assert (tr' = tr) by congruence. subst tr'.
    apply forallb_forall. intros l Hl. apply in_map_iff in Hl. destruct Hl as (c & <- & Hc).
    destruct (In_nth_error _ _ Hc) as (k & Hk).
    apply forallb_forall. intros [a b] Hab. change (cyclic_pairs (fst c)) with (cyc_pairs (fst c)) in Hab.
    pose proof (succ_of_pair _ _ _ _ _ _ _ _ I Hk Hab) as SU.
    destruct (cyc_pairs_in _ _ _ Hab) as [Ha Hb].
    assert (Ma : In a (vehicles_iter s ty)) by (eapply inv_cycle_in; eauto).
    assert (Mb : In b (vehicles_iter s ty)) by (eapply inv_cycle_in; eauto).
    unfold veh_by_id.
    destruct (find_by_id (o_vehicles out) a (KA a (ALL ty a Hty Ma))) as (va & -> & Hva & Ida).
    destruct (find_by_id (o_vehicles out) b (KA b (ALL ty b Hty Mb))) as (vb & -> & Hvb & Idb).
    destruct (K va Hva) as (tya & ta & fa & mida & ea & _ & _ & Ga & Ta & _ & _ & _ & F1a & F2a & _ & _ & I4a & _).
    destruct (K vb Hvb) as (tyb & tb & fb & midb & eb & _ & _ & Gb & Tb & _ & _ & _ & F1b & F2b & _ & I3b & _).
    rewrite Ida in *. rewrite Idb in *.
    apply Z.eqb_eq. rewrite I4a, I3b, <- F2a, <- F1b.
    apply (TA a ty tr b ta tb); auto. apply (lo_ids _ _ LO). exact Ma.
  - intros ty Hty. destruct (assoc_cycles s _ _ ty FC Hty) as (tr & Z0 & ->).
    destruct (TR ty Hty) as (tr' & Z1 & I). assert (tr' = tr) by congruence. subst tr'.
    change (concat (map fst (tr_cycles tr))) with (members_of tr).
    apply andb_true_iff. split; [apply NoDup_nodup_vid, (ti_nodup _ _ _ _ I)|].
    apply same_vids_intro. intros v. rewrite (ti_members _ _ _ _ I). split.
    + intros Hv. destruct (KA v (ALL ty v Hty Hv)) as (ov & Hov & Id).
      apply in_map_iff. exists ov. split; [exact Id|]. apply filter_In. split; [exact Hov|].
      destruct (K ov Hov) as (ty' & t & f & mid & e & _ & _ & G & _ & _ & _ & _ & _ & _ & I2 & _).
      rewrite Id in G. apply (lo_ids _ _ LO) in Hv. apply Z.eqb_eq. congruence.
    + intros Hv. apply in_map_iff in Hv. destruct Hv as (ov & Id & Hov). apply filter_In in Hov.
      destruct Hov as [Hov Q]. apply Z.eqb_eq in Q.
      destruct (K ov Hov) as (ty' & t & f & mid & e & _ & Hit & _ & _ & _ & _ & _ & _ & _ & I2 & _).
      rewrite Id in Hit. congruence.
Qed.

(** * 9. the C01 statement as given is false: [net_fine] does not read the depot table
      [nwD] is the loaded network [nwF] of SchedFrameFacts.v (two back-to-back trips SV 4 -> SV 5 of type 0, depot 0 with
      nodes SD 0 / ED 1, overflow depot 1 with nodes SD 2 / ED 3) in which only [nw_depots] is altered: it is empty.
      No network built by [load] has this shape.  History: empty schedule; spawn_vehicle_for_path(type 0,
      [SD 0; SV 4; SV 5; ED 1]) — no depot has capacity, so the vehicle gets the overflow nodes: tour
      [SD 2; SV 4; SV 5; ED 3].  The rendered vehicle has start and end depot 1, which the depot table does not know:
      check_C01 = [101; 103]. *)
Definition nwD : network :=
  {| nw_nodes := nw_nodes nwF; nw_depots := [];
     nw_overflow := nw_overflow nwF; nw_service := nw_service nwF; nw_maint := nw_maint nwF;
     nw_sdepots := nw_sdepots nwF; nw_edepots := nw_edepots nwF; nw_all_by_start := nw_all_by_start nwF;
     nw_type_by_start := nw_type_by_start nwF; nw_type_by_end := nw_type_by_end nwF; nw_params := nw_params nwF;
     nw_nlocs := nw_nlocs nwF; nw_dh := nw_dh nwF; nw_types := nw_types nwF; nw_nservice := nw_nservice nwF;
     nw_planning := nw_planning nwF |}.
Definition pathD : list node_id := [SD 0; SV 4; SV 5; ED 1].
Definition sD0 : schedule := Eval vm_compute in get_ok (empty_schedule nwD) s_dflt.
Definition sD1 : schedule := Eval vm_compute in fst (get_ok (spawn_vehicle_for_path nwD sD0 0 pathD) (s_dflt, Veh 99)).
Definition outD : outp := Eval vm_compute in match render nwD sD1 with Ok o => o | _ =>
  {| o_obj := (0, 0, 0, 0); o_vehicles := []; o_cycles := []; o_segs := []; o_slots := []; o_loads := []; o_dhts := [] |} end.

Lemma nwD_fine : net_fine nwD.
Proof.
  split; [vm_compute; reflexivity|]. split.
  - intros m Hm. vm_compute in Hm. destruct Hm.
  - assert (E : coverable_nodes nwD = [SV 4; SV 5]) by (vm_compute; reflexivity). rewrite E.
    constructor; [intros [Q|[]]; discriminate Q|]. constructor; [intros []|constructor].
Qed.
Lemma sD0_ok : empty_schedule nwD = Ok sD0.
Proof. vm_compute. reflexivity. Qed.
Lemma sD1_ok : spawn_vehicle_for_path nwD sD0 0 pathD = Ok (sD1, Veh 0).
Proof. vm_compute. reflexivity. Qed.
Lemma pathD_valid : valid_path nwD pathD.
Proof.
  split; [discriminate|]. split.
  - intros a b H. unfold pathD in H. cbn [windows In] in H.
    destruct H as [H|[H|[H|[]]]]; inversion H; subst; vm_compute; reflexivity.
  - vm_compute. reflexivity.
Qed.
Lemma sD1_tours : ToursOK nwD sD1.
Proof.
  apply vreachable_tours; [apply nwD_fine|]. eapply vr_step; [apply vr_empty, sD0_ok|].
  eapply vs_spawn; [apply pathD_valid|apply sD1_ok].
Qed.
Lemma sD1_listing : ListingOK nwD sD1.
Proof.
  apply reachable_listing_under_distinct. eapply dr_step; [apply dr_empty, sD0_ok|]. eapply ds_spawn. apply sD1_ok.
Qed.
Lemma outD_ok : render nwD sD1 = Ok outD.
Proof. vm_compute. reflexivity. Qed.
Lemma outD_C01 : check_C01 nwD outD = [101; 103].
Proof. vm_compute. reflexivity. Qed.

Theorem render_C01_refuted_nwD : ~ stmt_render_C01 nwD.
Proof.
  intros H. pose proof (H nwD_fine sD1 outD sD1_tours sD1_listing outD_ok) as Q. rewrite outD_C01 in Q. discriminate Q.
Qed.
Theorem render_C01_refuted : ~ (forall nw, stmt_render_C01 nw).
Proof. intros H. exact (render_C01_refuted_nwD (H nwD)). Qed.
(* the schedule of the witness does not satisfy the added hypothesis *)
Lemma sD1_not_known : ~ DepotsKnown nwD sD1.
Proof.
  intros H. assert (T : exists t, vget (Veh 0) (s_tours sD1) = Some t) by (vm_compute; eauto).
  destruct T as (t & T). destruct (H _ _ T) as ((dp & b & e & Q & _) & _). vm_compute in Q. discriminate Q.
Qed.

(** * 10. the C02 statement as given is false: [net_fine] (and even [valid_instance_b]) allows a negative limit
      [instN] is [instF] with the formation limit -1 on the first route segment (the implementation's limits are
      unsigned, so no JSON input denotes this instance).  The empty schedule renders every trip with an empty formation;
      0 <= -1 fails: clause 201. *)
Definition instN : instance := {|
  i_types := i_types instF; i_nlocs := i_nlocs instF; i_depots := i_depots instF;
  i_routes := [ {| r_type := 0; r_segs := [ {| rs_origin := 0; rs_dest := 1; rs_dist := 1000; rs_dur := 3600; rs_limit := Some (-1) |} ] |};
                {| r_type := 0; r_segs := [ {| rs_origin := 1; rs_dest := 0; rs_dist := 1000; rs_dur := 3600; rs_limit := None |} ] |} ];
  i_departures := i_departures instF; i_slots := i_slots instF; i_dh_dur := i_dh_dur instF; i_dh_dist := i_dh_dist instF;
  i_params := i_params instF |}.
Definition nwN : network := Eval vm_compute in get_ok (load instN []) nw_dflt.
Definition sN0 : schedule := Eval vm_compute in get_ok (empty_schedule nwN) s_dflt.
Definition outN : outp := Eval vm_compute in match render nwN sN0 with Ok o => o | _ =>
  {| o_obj := (0, 0, 0, 0); o_vehicles := []; o_cycles := []; o_segs := []; o_slots := []; o_loads := []; o_dhts := [] |} end.

Lemma instN_valid : valid_instance_b instN = true /\ load instN [] = Ok nwN.
Proof. vm_compute. auto. Qed.
Lemma nwN_fine : net_fine nwN.
Proof.
  split; [vm_compute; reflexivity|]. split.
  - intros m Hm. vm_compute in Hm. destruct Hm.
  - assert (E : coverable_nodes nwN = [SV 4; SV 5]) by (vm_compute; reflexivity). rewrite E.
    constructor; [intros [Q|[]]; discriminate Q|]. constructor; [intros []|constructor].
Qed.
Lemma sN0_ok : empty_schedule nwN = Ok sN0.
Proof. vm_compute. reflexivity. Qed.
Lemma outN_ok : render nwN sN0 = Ok outN.
Proof. vm_compute. reflexivity. Qed.
Lemma outN_C02 : check_C02 nwN outN = [201].
Proof. vm_compute. reflexivity. Qed.

Theorem render_C02_refuted_nwN : ~ stmt_render_C02_formations nwN.
Proof.
  intros H.
  assert (FL : FormLimitsOK nwN sN0) by (apply reachable_form_limits, r_empty, sN0_ok).
  assert (FO : FormsOK nwN sN0).
  { destruct nwN_fine as (A & B & C). apply vreachable_forms_under_maint_listed; auto. apply vr_empty, sN0_ok. }
  destruct (H nwN_fine sN0 outN FL FO outN_ok) as [Q _]. apply Q. rewrite outN_C02. now left.
Qed.
Lemma nwN_not_sane : limits_sane_b nwN = false /\ limits_sane_b nwF = true /\ depot_table_ok_b nwF = true /\
  depot_table_ok_b nwD = false.
Proof. vm_compute. auto. Qed.
Theorem render_C02_refuted : ~ (forall nw, stmt_render_C02_formations nw).
Proof. intros H. exact (render_C02_refuted_nwN (H nwN)). Qed.

(** * 11. summary *)
Check (render_total : forall nw, stmt_render_total nw).
Check (render_C05 : forall nw, stmt_render_C05 nw).
Check (render_C01_under_depots : forall nw, net_fine nw -> forall s out,
  ToursOK nw s -> ListingOK nw s -> DepotsKnown nw s -> render nw s = Ok out -> check_C01 nw out = []).
Check (render_C01_under_depot_table : forall nw, depot_table_ok nw -> stmt_render_C01 nw).
Check (render_C01_loaded : forall i perm nw, load i perm = Ok nw -> stmt_render_C01 nw).
Check (render_C01_refuted : ~ (forall nw, stmt_render_C01 nw)).
Check (render_C02_under_limits : forall nw, LimitsSane nw -> stmt_render_C02_formations nw).
Check (render_C02_loaded : forall i perm nw,
  valid_instance_b i = true -> inst_limits_nonneg_b i = true -> load i perm = Ok nw -> stmt_render_C02_formations nw).
Check (render_C02_refuted : ~ (forall nw, stmt_render_C02_formations nw)).
Print Assumptions render_total.
Print Assumptions render_C05.
Print Assumptions render_C01_under_depots.
Print Assumptions render_C01_under_depot_table_b.
Print Assumptions render_C01_loaded.
Print Assumptions render_C01_clauses_102_104.
Print Assumptions render_C01_refuted.
Print Assumptions render_C02_under_limits_b.
Print Assumptions render_C02_loaded.
Print Assumptions render_C02_refuted.
