(* RenderFacts3.v — clause C03 of the rendered JSON (RenderStmts.stmt_render_C03).

   Result.  [stmt_render_C03] is FALSE for arbitrary [network] records satisfying [net_fine]
   ([render_C03_refuted], concrete witness [nwX]/[sX] below): [net_fine] says nothing about
     (N1) how the per-type service listing [nw_service] (rendered as "departureSegments") relates to
          [all_service_nodes] (which the checker and the formations are keyed on), and
     (N2) how the depot table [nw_depots] (used by the checker to turn the rendered depot ids back into
          depot nodes, [itinerary]) relates to the depot nodes the tours start and end with.
   Both hold for every network built by [load] and every tour made of network nodes; they are stated below as
   [services_listed] and [EndsListed].  With them all seven clauses hold ([render_C03_under_listed]); without
   them the clauses 302, 304, 305, 307 hold ([render_C03_partial]); clause 303 only needs the inclusion part of
   N1, clause 306 only needs N2, clause 301 needs N1. *)
From Coq Require Import Permutation Sorted.
From RS Require Import Base BaseFacts Network NetSpec NetFacts Tour TourSpec TourStmts TourFacts TourValidFacts
  SchedObs Output OutFacts Transition TransSpec Schedule SchedInv SchedStruct SchedCostsFacts Render RenderStmts.

Local Open Scope Z_scope.

(** * small facts about times and locations *)
Lemma dt_eqb_refl a : dt_eqb a a = true.
Proof. unfold dt_eqb. now rewrite dt_cmp_refl. Qed.

Lemma loc_eqb_refl a : loc_eqb a a = true.
Proof. now apply loc_eqb_eq. Qed.

Lemma dt_ltb_trans a b c : dt_ltb a b = true -> dt_ltb b c = true -> dt_ltb a c = true.
Proof.
  unfold dt_ltb; destruct a, b, c; simpl; auto; try discriminate.
  destruct (Z.compare_spec s s0), (Z.compare_spec s0 s1), (Z.compare_spec s s1); auto; try discriminate; lia.
Qed.

Lemma dt_ltb_leb_trans a b c : dt_ltb a b = true -> dt_leb b c = true -> dt_ltb a c = true.
Proof.
  unfold dt_ltb, dt_leb; destruct a, b, c; simpl; auto; try discriminate.
  destruct (Z.compare_spec s s0), (Z.compare_spec s0 s1), (Z.compare_spec s s1); auto; try discriminate; lia.
Qed.

Lemma dt_ltb_asym a b : dt_ltb a b = true -> dt_ltb b a = false /\ dt_eqb b a = false.
Proof.
  unfold dt_ltb, dt_eqb. rewrite (dt_cmp_antisym a b). destruct (dt_cmp a b); simpl; try discriminate; auto.
Qed.

Lemma dt_ltb_irrefl a : dt_ltb a a = false.
Proof. unfold dt_ltb. now rewrite dt_cmp_refl. Qed.

Lemma dt_add_ge t d : (forall x, d = Len x -> 0 <= x) -> dt_leb t (dt_add t d) = true.
Proof.
  intros H. destruct d as [x|]; cbn [dt_add].
  - specialize (H x eq_refl). destruct t; try reflexivity. apply dt_leb_point. lia.
  - apply dt_leb_latest.
Qed.

Lemma dt_sub_dur_le t d r : (forall x, d = Len x -> 0 <= x) -> dt_sub_dur t d = Ok r -> dt_leb r t = true.
Proof.
  intros H. destruct t as [|s|]; cbn [dt_sub_dur].
  - intros E; inversion E; reflexivity.
  - destruct d as [x|]; intros E; inversion E; subst; [|reflexivity].
    specialize (H x eq_refl). apply dt_leb_point. lia.
  - destruct d; intros E; inversion E; reflexivity.
Qed.

(** * generic list facts *)
Lemma map_snd_windows {A} (l : list A) : forall a, map snd (windows (a :: l)) = l.
Proof.
  induction l as [|b r IH]; intros a; [reflexivity|].
  change (windows (a :: b :: r)) with ((a, b) :: windows (b :: r)). cbn [map snd]. now rewrite IH.
Qed.

Lemma nth_last_len {A} (l : list A) d : nth (length l - 1) l d = last l d.
Proof.
  destruct l as [|a r]; [reflexivity|].
  assert (NE : a :: r <> []) by discriminate.
  rewrite (app_removelast_last d NE) at 1 2.
  rewrite app_length, app_nth2; cbn [length]; [|lia].
  replace (length (removelast (a :: r)) + 1 - 1 - length (removelast (a :: r)))%nat with O by lia.
  reflexivity.
Qed.

Lemma Forall2_in_l {A B} (R : A -> B -> Prop) l1 l2 x :
  Forall2 R l1 l2 -> In x l1 -> exists y, In y l2 /\ R x y.
Proof.
  induction 1 as [|a b l1 l2 Hab F IH]; intros Hin; [destruct Hin|].
  destruct Hin as [->|Hin]; [exists b; split; [left; reflexivity|exact Hab]|].
  destruct (IH Hin) as (y & Hy & Ry). exists y; split; [right; exact Hy|exact Ry].
Qed.

Lemma Forall2_in_r {A B} (R : A -> B -> Prop) l1 l2 y :
  Forall2 R l1 l2 -> In y l2 -> exists x, In x l1 /\ R x y.
Proof.
  induction 1 as [|a b l1 l2 Hab F IH]; intros Hin; [destruct Hin|].
  destruct Hin as [->|Hin]; [exists a; split; [left; reflexivity|exact Hab]|].
  destruct (IH Hin) as (x & Hx & Rx). exists x; split; [right; exact Hx|exact Rx].
Qed.

Lemma Forall2_impl_in {A B} (R S : A -> B -> Prop) l1 l2 :
  (forall x y, In x l1 -> In y l2 -> R x y -> S x y) -> Forall2 R l1 l2 -> Forall2 S l1 l2.
Proof.
  intros H F. induction F as [|a b l1 l2 Hab F IH]; constructor.
  - apply H; [left; reflexivity | left; reflexivity | exact Hab].
  - apply IH. intros x y Hx Hy. apply H; right; assumption.
Qed.

Lemma all2_of_Forall2 {A B} (f : A -> B -> bool) (R : A -> B -> Prop) l1 l2 :
  (forall x y, In x l1 -> R x y -> f x y = true) -> Forall2 R l1 l2 -> all2 f l1 l2 = true.
Proof.
  intros H F. induction F as [|a b l1 l2 Hab F IH]; [reflexivity|].
  cbn [all2]. rewrite (H a b (or_introl eq_refl) Hab). cbn [andb]. apply IH.
  intros x y Hx. apply H. right; exact Hx.
Qed.

Lemma all2_app {A B} (f : A -> B -> bool) l1 l2 l1' l2' :
  all2 f l1 l2 = true -> all2 f l1' l2' = true -> all2 f (l1 ++ l1') (l2 ++ l2') = true.
Proof.
  revert l2. induction l1 as [|a l1 IH]; intros [|b l2]; cbn [all2 app]; try discriminate; auto.
  rewrite !andb_true_iff. intros [H1 H2] H3. split; auto.
Qed.

Lemma all2_map {A B C} (f : B -> C -> bool) (g : A -> B) (h : A -> C) l :
  (forall x, In x l -> f (g x) (h x) = true) -> all2 f (map g l) (map h l) = true.
Proof.
  induction l as [|a l IH]; intros H; [reflexivity|]. cbn [map all2].
  rewrite (H a (or_introl eq_refl)). cbn [andb]. apply IH. intros x Hx. apply H. right; exact Hx.
Qed.

Lemma filter_split_perm {A} (p q : A -> bool) l :
  (forall x, In x l -> p x = negb (q x)) -> Permutation (filter p l ++ filter q l) l.
Proof.
  induction l as [|a l IH]; intros H; [constructor|]. cbn [filter].
  assert (IH' : Permutation (filter p l ++ filter q l) l) by (apply IH; intros x Hx; apply H; right; exact Hx).
  rewrite (H a (or_introl eq_refl)). destruct (q a); cbn [negb].
  - rewrite <- Permutation_middle. constructor. exact IH'.
  - cbn [app]. constructor. exact IH'.
Qed.

Lemma filter_none {A} (p : A -> bool) l : (forall x, In x l -> p x = false) -> filter p l = [].
Proof.
  induction l as [|a l IH]; intros H; [reflexivity|]. cbn [filter].
  rewrite (H a (or_introl eq_refl)). apply IH. intros x Hx. apply H. right; exact Hx.
Qed.

Lemma nodup_vid_intro l : NoDup l -> nodup_vid l = true.
Proof.
  induction 1 as [|x l Hx ND IH]; [reflexivity|]. cbn [nodup_vid]. rewrite IH, andb_true_r.
  apply negb_true_iff. destruct (mem_vid x l) eqn:E; [|reflexivity]. apply mem_vid_in in E. contradiction.
Qed.

Lemma nodup_nid_intro' l : NoDup l -> nodup_nid l = true.
Proof.
  induction 1 as [|x l Hx ND IH]; [reflexivity|]. cbn [nodup_nid]. rewrite IH, andb_true_r.
  apply negb_true_iff. destruct (mem_nid x l) eqn:E; [|reflexivity]. apply mem_nid_in in E. contradiction.
Qed.

Lemma same_vids_intro a b : (forall x, In x a <-> In x b) -> same_vids a b = true.
Proof.
  intros H. unfold same_vids. rewrite andb_true_iff, !forallb_forall.
  split; intros x Hx; apply mem_vid_in; apply H; exact Hx.
Qed.

Lemma nget_of_key {A} n (l : list (node_id * A)) : In n (map fst l) -> exists f, nget n l = Some f.
Proof.
  induction l as [|[k y] l IH]; [intros []|]. unfold nget. cbn [map fst In assoc].
  destruct (nid_eqb n k) eqn:E; [intros _; eauto|].
  intros [H|H]; [subst k; rewrite nid_eqb_refl in E; discriminate | apply IH; exact H].
Qed.

Lemma vget_of_key {A} v (l : list (vehicle_id * A)) : In v (map fst l) -> exists x, vget v l = Some x.
Proof.
  intros H. destruct (vget v l) eqn:E; [eauto|]. apply vget_none_keys in E. contradiction.
Qed.

(** counting *)
Lemma count_nid_app n l1 l2 : count_nid n (l1 ++ l2) = (count_nid n l1 + count_nid n l2)%nat.
Proof. induction l1 as [|x l1 IH]; cbn [count_nid app]; [reflexivity|]. rewrite IH. lia. Qed.

Lemma count_nid_perm n l l' : Permutation l l' -> count_nid n l = count_nid n l'.
Proof. induction 1; cbn [count_nid]; lia. Qed.

Lemma count_nid_notin n l : ~ In n l -> count_nid n l = O.
Proof.
  induction l as [|x l IH]; intros H; [reflexivity|]. cbn [count_nid].
  destruct (nid_eqb n x) eqn:E; [apply nid_eqb_eq in E; subst; exfalso; apply H; left; reflexivity|].
  rewrite IH; [reflexivity|]. intros G. apply H. right; exact G.
Qed.

Lemma count_nid_nodup n l : NoDup l -> In n l -> count_nid n l = 1%nat.
Proof.
  induction 1 as [|x l Hx ND IH]; intros Hin; [destruct Hin|]. cbn [count_nid].
  destruct Hin as [->|Hin].
  - rewrite nid_eqb_refl, count_nid_notin by exact Hx. reflexivity.
  - destruct (nid_eqb n x) eqn:E; [apply nid_eqb_eq in E; subst; contradiction|].
    rewrite IH by exact Hin. reflexivity.
Qed.

Lemma once_each_intro want got : NoDup want -> Permutation got want -> once_each want got = true.
Proof.
  intros ND P. unfold once_each. rewrite andb_true_iff. split.
  - apply Nat.eqb_eq. symmetry. apply Permutation_length. exact P.
  - apply forallb_forall. intros n Hn. apply Nat.eqb_eq.
    rewrite (count_nid_perm n _ _ P). apply count_nid_nodup; assumption.
Qed.

(** * insertion sort of a permutation of a strictly sorted list gives that list *)
Section SortUnique.
Context {A : Type} (le : A -> A -> bool) (lt : A -> A -> Prop).
Hypothesis lt_trans : forall a b c, lt a b -> lt b c -> lt a c.
Hypothesis lt_irrefl : forall a, ~ lt a a.
Hypothesis lt_le : forall a b, lt a b -> le a b = true /\ le b a = false.

Lemma insert_sorted x acc :
  StronglySorted lt acc -> (forall y, In y acc -> lt x y \/ lt y x) -> StronglySorted lt (insert_by le x acc).
Proof.
  induction acc as [|y r IH]; intros S T; cbn [insert_by].
  - constructor; constructor.
  - inversion S as [|? ? Sr Fy]; subst.
    destruct (le y x) eqn:E.
    + assert (L : lt y x).
      { destruct (T y (or_introl eq_refl)) as [L|L]; auto. apply lt_le in L. destruct L; congruence. }
      constructor.
      * apply IH; auto. intros z Hz; apply T; right; auto.
      * apply Forall_forall. intros z Hz. apply insert_by_in in Hz. destruct Hz as [->|Hz]; auto.
        rewrite Forall_forall in Fy; auto.
    + assert (L : lt x y).
      { destruct (T y (or_introl eq_refl)) as [L|L]; auto. apply lt_le in L. destruct L; congruence. }
      constructor; auto. constructor; auto. rewrite Forall_forall in *. intros z Hz. eapply lt_trans; eauto.
Qed.

Lemma fold_insert_sorted (U : A -> Prop) (HU : forall x y, U x -> U y -> x = y \/ lt x y \/ lt y x) l :
  forall acc, StronglySorted lt acc -> (forall x, In x (l ++ acc) -> U x) -> NoDup (l ++ acc) ->
  StronglySorted lt (fold_left (fun acc x => insert_by le x acc) l acc).
Proof.
  induction l as [|x l IH]; intros acc S HIn ND; cbn [fold_left]; [exact S|].
  cbn [app] in ND. inversion ND as [|? ? Hx ND']; subst.
  apply IH.
  - apply insert_sorted; [exact S|]. intros y Hy.
    destruct (HU x y) as [E|G]; auto.
    + apply HIn. left; reflexivity.
    + apply HIn. right. apply in_app_iff. right; exact Hy.
    + subst y. exfalso. apply Hx. apply in_app_iff. right; exact Hy.
  - intros z Hz. apply HIn. apply in_app_iff in Hz. destruct Hz as [Hz|Hz].
    + right. apply in_app_iff. left; exact Hz.
    + apply insert_by_in in Hz. destruct Hz as [->|Hz]; [left; reflexivity|right; apply in_app_iff; right; exact Hz].
  - eapply Permutation_NoDup; [|exact ND].
    transitivity (l ++ x :: acc); [apply Permutation_middle|].
    apply Permutation_app_head. symmetry. apply insert_by_perm.
Qed.

Lemma sorted_perm_eq l1 : forall l2, StronglySorted lt l1 -> StronglySorted lt l2 -> Permutation l1 l2 -> l1 = l2.
Proof.
  induction l1 as [|a r1 IH]; intros l2 S1 S2 P.
  - apply Permutation_nil in P. now subst.
  - destruct l2 as [|b r2]; [apply Permutation_sym, Permutation_nil in P; discriminate|].
    inversion S1 as [|? ? S1' F1]; subst. inversion S2 as [|? ? S2' F2]; subst.
    rewrite Forall_forall in F1, F2.
    assert (E : a = b).
    { assert (Ha : In a (b :: r2)) by (eapply Permutation_in; [exact P|left; reflexivity]).
      assert (Hb : In b (a :: r1)) by (eapply Permutation_in; [symmetry; exact P|left; reflexivity]).
      destruct Ha as [Ha|Ha]; [congruence|]. destruct Hb as [Hb|Hb]; [congruence|].
      exfalso. apply (lt_irrefl a). eapply lt_trans; [apply F1; exact Hb | apply F2; exact Ha]. }
    subst b. f_equal. apply IH; auto. eapply Permutation_cons_inv; exact P.
Qed.

Lemma sorted_comparable l : StronglySorted lt l -> forall x y, In x l -> In y l -> x = y \/ lt x y \/ lt y x.
Proof.
  induction 1 as [|a r S IH F]; intros x y Hx Hy; [destruct Hx|].
  rewrite Forall_forall in F.
  destruct Hx as [->|Hx], Hy as [->|Hy]; auto.
Qed.

Lemma sorted_nodup l : StronglySorted lt l -> NoDup l.
Proof.
  induction 1 as [|a r S IH F]; constructor; auto.
  rewrite Forall_forall in F. intros Hin. apply (lt_irrefl a). apply F. exact Hin.
Qed.

Lemma sort_by_sorted_perm l l0 : StronglySorted lt l0 -> Permutation l l0 -> sort_by le l = l0.
Proof.
  intros S P. apply sorted_perm_eq; [|exact S|].
  - unfold sort_by. apply (fold_insert_sorted (fun x => In x l0) (sorted_comparable l0 S)).
    + constructor.
    + intros x Hx. rewrite app_nil_r in Hx. eapply Permutation_in; eauto.
    + rewrite app_nil_r. eapply Permutation_NoDup; [symmetry; exact P|]. apply sorted_nodup; exact S.
  - transitivity l; [apply sort_by_perm | exact P].
Qed.
End SortUnique.

(** * the rendered vehicle *)
Section Veh.
Variable nw : network.
Variable s : schedule.
Hypothesis OKb : net_ok_b nw = true.

Lemma ok_wf : net_wf_b nw = true.
Proof. unfold net_ok_b in OKb. apply andb_true_iff in OKb. tauto. Qed.
Lemma ok_dp : durations_pos_b nw = true.
Proof. unfold net_ok_b in OKb. apply andb_true_iff in OKb. tauto. Qed.

Definition mk_dh (a b : node_id) (dep arr : datetime) : odh :=
  {| od_origin := n_end_loc (nd nw a); od_dest := n_start_loc (nd nw b); od_dep := dep; od_arr := arr |}.
Definition loc_change (p : node_id * node_id) : bool :=
  let '(a, b) := p in negb (loc_eqb (n_end_loc (nd nw a)) (n_start_loc (nd nw b))).
Definition dh_step (acc : res (list odh)) (p : node_id * node_id) : res (list odh) :=
  let '(a, b) := p in
  do l <- acc;
  if loc_eqb (n_end_loc (nd nw a)) (n_start_loc (nd nw b)) then Ok l
  else do (dep, arr) <- schedule_dead_head_trip nw a b; Ok (l ++ [mk_dh a b dep arr]).

Lemma dh_fold_strict W : forall r x, fold_left dh_step W r = Ok x -> exists y, r = Ok y.
Proof.
  induction W as [|[a b] W IH]; intros r x H; cbn [fold_left] in H; [eauto|].
  apply IH in H. destruct H as [y H]. destruct r; cbn [dh_step bind] in H; try discriminate. eauto.
Qed.

Definition dh_rel (p : node_id * node_id) (d : odh) : Prop :=
  exists dep arr, schedule_dead_head_trip nw (fst p) (snd p) = Ok (dep, arr) /\ d = mk_dh (fst p) (snd p) dep arr.

Lemma dh_fold_spec W : forall l0 dhs, fold_left dh_step W (Ok l0) = Ok dhs ->
  exists ds, dhs = l0 ++ ds /\ Forall2 dh_rel (filter loc_change W) ds.
Proof.
  induction W as [|[a b] W IH]; intros l0 dhs H; cbn [fold_left] in H.
  - inversion H; subst. exists []. rewrite app_nil_r. split; [reflexivity|constructor].
  - destruct (dh_fold_strict _ _ _ H) as [l1 E1]. rewrite E1 in H.
    cbn [filter loc_change]. cbn [dh_step bind] in E1.
    destruct (loc_eqb (n_end_loc (nd nw a)) (n_start_loc (nd nw b))); cbn [negb].
    + inversion E1; subst l1. apply IH; exact H.
    + destruct (schedule_dead_head_trip nw a b) as [[dep arr]| | |] eqn:ES; cbn [bind] in E1; try discriminate.
      inversion E1; subst l1. destruct (IH _ _ H) as (ds & -> & F).
      exists (mk_dh a b dep arr :: ds). rewrite <- app_assoc. split; [reflexivity|].
      constructor; [|exact F]. exists dep, arr. split; [exact ES|reflexivity].
Qed.

(* the middle nodes of a tour *)
Definition mids (t : tour) : list node_id := removelast (tl (t_nodes t)).

Lemma RV_decomp l : RV nw l -> l = hd (SD 0) l :: removelast (tl l) ++ [last l (SD 0)].
Proof.
  intros R. pose proof (RV_length _ _ R) as L.
  destruct l as [|f [|g r]]; cbn [length] in L; try lia. cbn [hd tl].
  f_equal.
  change (last (f :: g :: r) (SD 0)) with (last (g :: r) (SD 0)).
  apply app_removelast_last. discriminate.
Qed.

Lemma RV_first t : first_node t = hd (SD 0) (t_nodes t).
Proof. unfold first_node, nth_node. destruct (t_nodes t); reflexivity. Qed.
Lemma RV_last t : last_node t = last (t_nodes t) (SD 0).
Proof. unfold last_node, nth_node, tlen. apply nth_last_len. Qed.

Lemma RV_nodes t : RV nw (t_nodes t) -> t_nodes t = first_node t :: mids t ++ [last_node t].
Proof. intros R. rewrite RV_first, RV_last. apply RV_decomp. exact R. Qed.

Lemma RV_mid_in l n : RV nw l -> In n l -> node_is_depot nw n = false -> In n (removelast (tl l)).
Proof.
  intros R Hin D. pose proof R as (_ & _ & S & E & _).
  rewrite (RV_decomp _ R) in Hin. destruct Hin as [Hin|Hin].
  - subst n. rewrite dep_split, S in D. discriminate.
  - apply in_app_iff in Hin. destruct Hin as [Hin|[Hin|[]]]; [exact Hin|].
    subst n. rewrite dep_split, E, orb_true_r in D. discriminate.
Qed.

Lemma mid_in_nodes (l : list node_id) n : In n (removelast (tl l)) -> In n l.
Proof. intros H. apply in_removelast in H. destruct l; [destruct H|right; exact H]. Qed.

Lemma nondep_kind n : node_is_depot nw n = false -> is_service (nd nw n) = negb (is_maint (nd nw n)).
Proof. unfold node_is_depot. destruct (nd nw n); cbn; congruence. Qed.

(* strictly increasing departure times along connected non-depot nodes *)
Definition act_lt (a b : oact) : Prop := dt_ltb (oa_dep a) (oa_dep b) = true.

Lemma act_lt_le a b : act_lt a b -> act_key_leb a b = true /\ act_key_leb b a = false.
Proof.
  unfold act_lt, act_key_leb. intros H. rewrite H. split; [reflexivity|].
  destruct (dt_ltb_asym _ _ H) as [-> ->]. reflexivity.
Qed.

Lemma acts_sorted l : connected nw l -> (forall x, In x l -> node_is_depot nw x = false) ->
  StronglySorted act_lt (map (act_of nw) l).
Proof.
  induction l as [|a r IH]; intros C ND; cbn [map]; [constructor|].
  constructor.
  - apply IH; [eapply connected_tl; exact C | intros x Hx; apply ND; right; exact Hx].
  - apply Forall_forall. intros z Hz. apply in_map_iff in Hz. destruct Hz as (y & <- & Hy).
    unfold act_lt, act_of; cbn [oa_dep].
    destruct (In_nth _ _ (SD 0) Hy) as (k & Lk & Ek).
    pose proof (connected_ordered nw ok_wf ok_dp (a :: r) 0 (S k) C ltac:(lia) ltac:(cbn [length]; lia)) as O.
    change (nth (S k) (a :: r) (SD 0)) with (nth k r (SD 0)) in O. change (nth 0 (a :: r) (SD 0)) with a in O.
    rewrite Ek in O.
    destruct (dur_pos nw ok_dp a) as [D|D].
    + change (is_depot (nd nw a)) with (node_is_depot nw a) in D. rewrite (ND a (or_introl eq_refl)) in D. discriminate.
    + eapply dt_ltb_leb_trans; eauto.
Qed.

Lemma acts_of_tour l : RV nw l ->
  sort_by act_key_leb
    (map (act_of nw) (filter (fun n => is_service (nd nw n)) (map snd (windows l))) ++
     map (act_of nw) (filter (fun n => is_maint (nd nw n)) (map snd (windows l)))) =
  map (act_of nw) (removelast (tl l)).
Proof.
  intros R. pose proof R as (_ & C & _ & E & _).
  set (M := removelast (tl l)).
  assert (HT : map snd (windows l) = M ++ [last l (SD 0)]).
  { rewrite (RV_decomp _ R) at 1. rewrite map_snd_windows. reflexivity. }
  rewrite HT, !filter_app.
  assert (E1 : filter (fun n => is_service (nd nw n)) [last l (SD 0)] = []).
  { apply filter_none. intros x [<-|[]]. unfold edep in E. destruct (nd nw (last l (SD 0))); cbn in *; congruence. }
  assert (E2 : filter (fun n => is_maint (nd nw n)) [last l (SD 0)] = []).
  { apply filter_none. intros x [<-|[]]. unfold edep in E. destruct (nd nw (last l (SD 0))); cbn in *; congruence. }
  rewrite E1, E2, !app_nil_r.
  assert (NDp : forall x, In x M -> node_is_depot nw x = false) by (intros x Hx; eapply RV_inner; eauto).
  apply (sort_by_sorted_perm act_key_leb act_lt).
  - intros a b c. unfold act_lt. apply dt_ltb_trans.
  - intros a. unfold act_lt. rewrite dt_ltb_irrefl. discriminate.
  - apply act_lt_le.
  - apply acts_sorted; [|exact NDp].
    unfold M. apply connected_removelast. destruct l as [|f t]; [intros x y []|]. eapply connected_tl; exact C.
  - rewrite <- map_app. apply Permutation_map. apply filter_split_perm.
    intros x Hx. apply nondep_kind. apply NDp. exact Hx.
Qed.

(* what render_vehicle returns for a real vehicle with a valid tour *)
Definition veh_spec (v : vehicle_id) (ov : oveh) (dl : list (odh * list vehicle_id)) : Prop :=
  exists ty t,
    vget v (s_vehicles s) = Some ty /\ vget v (s_tours s) = Some t /\ RV nw (t_nodes t) /\
    ov_id ov = v /\ ov_type ov = ty /\
    ov_sdepot ov = get_depot_idx nw (first_node t) /\ ov_edepot ov = get_depot_idx nw (last_node t) /\
    ov_acts ov = map (act_of nw) (mids t) /\
    dl = map (fun d => (d, [v])) (ov_dhs ov) /\
    fold_left dh_step (windows (t_nodes t)) (Ok []) = Ok (ov_dhs ov).

Lemma render_vehicle_spec v ty t ov dl :
  vget v (s_vehicles s) = Some ty -> vget v (s_tours s) = Some t -> RV nw (t_nodes t) ->
  render_vehicle nw s v = Ok (ov, dl) -> veh_spec v ov dl.
Proof.
  intros Hty Ht R H. unfold render_vehicle in H. rewrite Hty in H. cbn [unwrap_opt bind] in H.
  unfold tour_of in H. rewrite Ht in H. cbn [bind] in H.
  mon H. cbv zeta in H. inversion H; subst ov dl; clear H.
  exists ty, t. cbn [ov_id ov_type ov_sdepot ov_edepot ov_acts ov_dhs].
  split; [exact Hty|]. split; [exact Ht|]. split; [exact R|].
  do 4 (split; [reflexivity|]).
  split; [unfold mids; apply acts_of_tour; exact R|].
  split; [reflexivity|exact E].
Qed.
End Veh.

(** * a rendered dead-head trip lies inside its gap *)
Lemma mindur_nonneg nw : net_wf_b nw = true ->
  forall n1 n2 x, minimal_duration_nodes nw n1 n2 = Len x -> 0 <= x.
Proof.
  intros WF n1 n2 x. destruct (wf_parts nw WF) as (_ & _ & Hp & _). unfold params_nonneg in Hp.
  rewrite andb_true_iff, !Z.leb_le in Hp. destruct Hp as [Hp1 Hp2].
  unfold minimal_duration_nodes.
  destruct (loc_eqb (n_end_loc n1) (n_start_loc n2)).
  - unfold shunting_no_dh. destruct n1, n2; intros E; inversion E; lia.
  - destruct (loc_travel_time nw (n_end_loc n1) (n_start_loc n2)) as [tv|] eqn:Et; [|discriminate].
    apply (travel_nonneg nw WF) in Et.
    unfold shunting_dh. destruct n1, n2; cbn [dur_add]; intros E; inversion E; lia.
Qed.

Lemma dh_ok_rendered nw a b d : net_wf_b nw = true ->
  can_reach nw a b = true -> dh_rel nw (a, b) d -> dh_ok nw (a, b) d = true.
Proof.
  intros WF C (dep & arr & ES & ->). cbn [fst snd] in *. unfold dh_ok, mk_dh. cbn [od_origin od_dest od_dep od_arr].
  rewrite !loc_eqb_refl. cbn [andb].
  pose proof (mindur_nonneg nw WF (nd nw a) (nd nw b)) as MN.
  unfold schedule_dead_head_trip in ES.
  destruct (is_depot (nd nw a)) eqn:Da.
  - mon ES. inversion ES; subst. cbn [orb].
    rewrite (dt_sub_dur_le _ _ _ MN E), dt_leb_refl, orb_true_r. reflexivity.
  - inversion ES; subst. unfold minimal_duration_between.
    rewrite (dt_add_ge _ _ MN), dt_leb_refl. cbn [andb orb].
    unfold is_depot in Da. apply orb_false_iff in Da. destruct Da as [Da1 Da2].
    unfold can_reach, can_reach_nodes in C. rewrite Da1, Da2, orb_false_r in C. cbn [orb] in C.
    unfold is_depot.
    destruct (is_start_depot (nd nw b)); [discriminate|].
    destruct (is_end_depot (nd nw b)); [reflexivity|]. cbn [orb].
    destruct (p_forbid (nw_params nw) && negb (loc_eqb (n_end_loc (nd nw a)) (n_start_loc (nd nw b)))); [discriminate|].
    exact C.
Qed.

(** * the two facts about the network / the tours' depots that [net_fine] and the invariants do not give *)
(* N1: the per-type service listing enumerates the service nodes, each under its own type *)
Definition services_listed (nw : network) : Prop :=
  Permutation (flat_map (service_nodes nw) (type_ids nw)) (all_service_nodes nw) /\
  (forall ty n, In ty (type_ids nw) -> In n (service_nodes nw ty) -> vehicle_type_for nw n = ty).
(* the part of N1 clause 303 needs *)
Definition services_known (nw : network) : Prop :=
  forall ty n, In ty (type_ids nw) -> In n (service_nodes nw ty) -> In n (all_service_nodes nw).
(* N2: the depot table maps the depot index of a tour's first / last node back to that node *)
Definition EndsListed (nw : network) (s : schedule) : Prop :=
  forall v t, vget v (s_tours s) = Some t ->
    get_start_depot_node nw (get_depot_idx nw (first_node t)) = first_node t /\
    get_end_depot_node nw (get_depot_idx nw (last_node t)) = last_node t.

Lemma services_listed_known nw : services_listed nw -> services_known nw.
Proof.
  intros [P _] ty n Hty Hn. eapply Permutation_in; [exact P|]. apply in_flat_map. exists ty. split; assumption.
Qed.

(** * the seven clauses *)
Definition c301 nw out : bool :=
  once_each (all_service_nodes nw) (map os_node (o_segs out)) &&
  forallb (fun s => fields_ok nw (os_node s) (os_origin s) (os_dest s) (os_dep s) (os_arr s) &&
                    (os_type s =? vehicle_type_for nw (os_node s))) (o_segs out).
Definition c302 nw out : bool :=
  once_each (nw_maint nw) (map os_node (o_slots out)) &&
  forallb (fun s => fields_ok nw (os_node s) (os_origin s) (os_dest s) (os_dep s) (os_arr s)) (o_slots out).
Definition c303 (out : outp) : bool :=
  forallb (fun s => nodup_vid (os_form s) && same_vids (os_form s) (vehicles_with out (os_node s)))
          (o_segs out ++ o_slots out).
Definition c304 nw out : bool :=
  forallb (fun v => forallb (fun a => fields_ok nw (oa_node a) (oa_origin a) (oa_dest a) (oa_dep a) (oa_arr a))
                            (ov_acts v) &&
                    nodup_nid (map oa_node (ov_acts v))) (o_vehicles out) &&
  nodup_vid (map ov_id (o_vehicles out)).
Definition c305 nw out : bool :=
  forallb (fun '(d, ty, c) => (0 <? c) && (c =? Output.starts_at out d ty)) (o_loads out) &&
  forallb (fun '(d, _) => forallb (fun ty =>
             (Output.starts_at out d ty =? 0) || existsb (fun '(d', ty', _) => (d' =? d) && (ty' =? ty)) (o_loads out))
           (type_ids nw)) (nw_depots nw).
Definition c306 nw out : bool :=
  forallb (fun v => all2 (dh_ok nw) (expected_dhs nw v) (ov_dhs v)) (o_vehicles out).
Definition c307 (out : outp) : bool :=
  all2 (fun '(d, f) '(d', v) => odh_eqb d d' && match f with [x] => vid_eqb x v | _ => false end)
       (o_dhts out) (flat_map (fun v => map (fun d => (d, ov_id v)) (ov_dhs v)) (o_vehicles out)).

Lemma check_C03_split nw out :
  check_C03 nw out =
    (if c301 nw out then [] else [301]) ++ (if c302 nw out then [] else [302]) ++
    (if c303 out then [] else [303]) ++ (if c304 nw out then [] else [304]) ++
    (if c305 nw out then [] else [305]) ++ (if c306 nw out then [] else [306]) ++
    (if c307 out then [] else [307]).
Proof. reflexivity. Qed.

Lemma fields_ok_refl nw n :
  fields_ok nw n (n_start_loc (nd nw n)) (n_end_loc (nd nw n)) (start_time nw n) (end_time nw n) = true.
Proof. unfold fields_ok, dt_eq. now rewrite !loc_eqb_refl, !dt_eqb_refl. Qed.

Lemma odh_eqb_refl d : odh_eqb d d = true.
Proof. unfold odh_eqb, dt_eq. now rewrite !loc_eqb_refl, !dt_eqb_refl. Qed.

(** the fold of [render] over the vehicles *)
Section RFold.
Variable g : vehicle_id -> res (oveh * list (odh * list vehicle_id)).
Definition rstep (acc : res (list oveh * list (odh * list vehicle_id))) (v : vehicle_id) :=
  do (vs, ds) <- acc; do (ov, d) <- g v; Ok (vs ++ [ov], ds ++ d).

Lemma rfold_strict l : forall r x, fold_left rstep l r = Ok x -> exists y, r = Ok y.
Proof.
  induction l as [|v l IH]; intros r x H; cbn [fold_left] in H; [eauto|].
  apply IH in H. destruct H as [y H]. destruct r; cbn [rstep bind] in H; try discriminate. eauto.
Qed.

Lemma rfold_spec l : forall vs0 ds0 vs ds, fold_left rstep l (Ok (vs0, ds0)) = Ok (vs, ds) ->
  exists rs, Forall2 (fun v r => g v = Ok r) l rs /\ vs = vs0 ++ map fst rs /\ ds = ds0 ++ flat_map snd rs.
Proof.
  induction l as [|v l IH]; intros vs0 ds0 vs ds H; cbn [fold_left] in H.
  - inversion H; subst. exists []. cbn. rewrite !app_nil_r. split; [constructor|split; reflexivity].
  - destruct (rfold_strict _ _ _ H) as [[vs1 ds1] E1]. rewrite E1 in H.
    unfold rstep in E1. cbn [bind] in E1.
    destruct (g v) as [[ov d]| | |] eqn:Eg; cbn [bind] in E1; try discriminate.
    inversion E1; subst vs1 ds1. destruct (IH _ _ _ _ H) as (rs & F & -> & ->).
    exists ((ov, d) :: rs). cbn [map fst snd flat_map]. rewrite <- !app_assoc. cbn [app].
    split; [constructor; assumption|split; reflexivity].
Qed.
End RFold.

Lemma Forall2_map_eq {A B} (f : B -> A) l1 l2 : Forall2 (fun x y => f y = x) l1 l2 -> map f l2 = l1.
Proof. induction 1 as [|a b l1 l2 Hab F IH]; cbn [map]; [reflexivity|]. now rewrite Hab, IH. Qed.

Lemma all2_dhts (rs : list (oveh * list (odh * list vehicle_id))) :
  (forall r, In r rs -> snd r = map (fun d => (d, [ov_id (fst r)])) (ov_dhs (fst r))) ->
  all2 (fun '(d, f) '(d', v) => odh_eqb d d' && match f with [x] => vid_eqb x v | _ => false end)
       (flat_map snd rs) (flat_map (fun v => map (fun d => (d, ov_id v)) (ov_dhs v)) (map fst rs)) = true.
Proof.
  induction rs as [|r rs IH]; intros G; [reflexivity|]. cbn [map flat_map]. apply all2_app.
  - rewrite (G r (or_introl eq_refl)). apply all2_map. intros d _. rewrite odh_eqb_refl, vid_eqb_refl. reflexivity.
  - apply IH. intros r' Hr'. apply G. right; exact Hr'.
Qed.

Lemma NoDup_app_l {A} (l1 l2 : list A) : NoDup (l1 ++ l2) -> NoDup l1.
Proof.
  induction l1 as [|a l1 IH]; cbn [app]; intros H; [constructor|]. inversion H; subst. constructor.
  - intros G. apply H2. apply in_app_iff. left; exact G.
  - apply IH. assumption.
Qed.
Lemma NoDup_app_r {A} (l1 l2 : list A) : NoDup (l1 ++ l2) -> NoDup l2.
Proof. induction l1 as [|a l1 IH]; cbn [app]; intros H; [exact H|]. inversion H; subst. apply IH. assumption. Qed.

Lemma vid_lt_irrefl a : ~ vid_lt a a.
Proof. unfold vid_lt, vid_ltb. rewrite vid_cmp_refl. discriminate. Qed.

Section Main.
Variable nw : network.
Variable s : schedule.
Variable out : outp.
Hypothesis NF : net_fine nw.
Hypothesis TO : ToursOK nw s.
Hypothesis LO : ListingOK nw s.
Hypothesis R : render nw s = Ok out.

Notation VL := (vehicles_iter_all nw s).

Lemma nf_ok : net_ok_b nw = true.
Proof. apply NF. Qed.
Lemma nf_wf : net_wf_b nw = true.
Proof. apply ok_wf. exact nf_ok. Qed.

Lemma iter_in_ty v ty : In v (vehicles_iter s ty) -> In ty (type_ids nw).
Proof.
  unfold vehicles_iter. destruct (zget ty (s_ids s)) as [l|] eqn:E; [|intros []]. intros _.
  rewrite <- (lo_ids_keys _ _ LO). unfold keys. unfold zget in E.
  apply (assoc_in Z.eqb Z.eqb_eq) in E. apply (in_map fst) in E. exact E.
Qed.

Lemma VL_in v : In v VL <-> exists ty, vget v (s_vehicles s) = Some ty.
Proof.
  unfold vehicles_iter_all. rewrite in_flat_map. split.
  - intros (ty & _ & H). exists ty. apply (lo_ids _ _ LO). exact H.
  - intros (ty & H). apply (lo_ids _ _ LO) in H. exists ty. split; [eapply iter_in_ty; eauto|exact H].
Qed.

Lemma VL_nodup : NoDup VL.
Proof.
  apply NoDup_flat_map.
  - apply type_ids_nodup.
  - intros ty _. apply (sorted_nodup vid_lt vid_lt_irrefl). apply (lo_ids_sorted _ _ LO).
  - intros x y v _ _ Hx Hy. apply (lo_ids _ _ LO) in Hx, Hy. congruence.
Qed.

Lemma veh_tour v ty : vget v (s_vehicles s) = Some ty ->
  exists t, vget v (s_tours s) = Some t /\ RV nw (t_nodes t).
Proof.
  intros H.
  assert (K : In v (keys (s_tours s))) by (apply (lo_same_keys _ _ LO); eapply vget_in_keys; eauto).
  destruct (vget_of_key _ _ K) as [t Ht]. exists t. split; auto.
  destruct (to_real _ _ TO v t Ht) as (ty' & H' & RT). unfold real_tour_ok in RT.
  rewrite !andb_true_iff in RT. destruct RT as [[[_ _] V] _]. apply valid_tour_nodes_RV; exact V.
Qed.

Lemma rendered :
  exists rs, Forall2 (fun v r => veh_spec nw s v (fst r) (snd r)) VL rs /\
    o_vehicles out = map fst rs /\ o_dhts out = flat_map snd rs /\
    o_segs out = flat_map (fun ty => map (seg_of nw s ty) (service_nodes nw ty)) (type_ids nw) /\
    o_slots out = map (seg_of nw s 0) (nw_maint nw) /\
    o_loads out = flat_map (fun d => flat_map (fun ty =>
                      let c := spawned_same_type (s_usage s) d ty in if 0 <? c then [(d, ty, c)] else [])
                      (type_ids nw)) (map fst (nw_depots nw)).
Proof.
  pose proof R as R'. unfold render in R'. mon R'. destruct a as [vs ds]. mon R'. inversion R' as [EO]; clear R'.
  cbn [o_vehicles o_dhts o_segs o_slots o_loads fst snd].
  apply (rfold_spec (render_vehicle nw s)) in E. destruct E as (rs & F & -> & ->). exists rs. cbn [app].
  split; [|repeat split; reflexivity].
  eapply Forall2_impl_in; [|exact F]. intros v [ov dl] Hv _ Hr. cbn [fst snd].
  apply VL_in in Hv. destruct Hv as [ty Hty]. destruct (veh_tour v ty Hty) as (t & Ht & RVt).
  eapply render_vehicle_spec; eauto. apply nf_ok.
Qed.

Lemma ids_eq rs : Forall2 (fun v r => veh_spec nw s v (fst r) (snd r)) VL rs -> map ov_id (map fst rs) = VL.
Proof.
  intros F. rewrite map_map. apply Forall2_map_eq. eapply Forall2_impl_in; [|exact F].
  intros v r _ _ (ty & t & _ & _ & _ & Eid & _). exact Eid.
Qed.

Lemma acts_nodes M : map oa_node (map (act_of nw) M) = M.
Proof. induction M as [|a M IH]; cbn [map]; [reflexivity|]. rewrite IH. reflexivity. Qed.

Lemma segs_nodes ty l : map os_node (map (seg_of nw s ty) l) = l.
Proof. induction l as [|a l IH]; cbn [map]; [reflexivity|]. rewrite IH. reflexivity. Qed.

Lemma mids_nodup t : RV nw (t_nodes t) -> NoDup (mids t).
Proof.
  intros RVt. pose proof RVt as (_ & C & _).
  pose proof (connected_nodup nw nf_wf (ok_dp nw nf_ok) _ C) as ND.
  rewrite (RV_nodes nw t RVt) in ND. inversion ND as [|? ? _ ND']; subst.
  eapply NoDup_app_l. exact ND'.
Qed.

(** ** 304 *)
Lemma clause304 : c304 nw out = true.
Proof.
  destruct rendered as (rs & F & EV & _). unfold c304. rewrite andb_true_iff. split.
  - apply forallb_forall. intros ov Hov. rewrite EV in Hov. apply in_map_iff in Hov. destruct Hov as (r & <- & Hr).
    destruct (Forall2_in_r _ _ _ _ F Hr) as (v & Hv & (ty & t & Hty & Ht & RVt & _ & _ & _ & _ & EA & _)).
    rewrite EA. rewrite andb_true_iff. split.
    + apply forallb_forall. intros a Ha. apply in_map_iff in Ha. destruct Ha as (n & <- & _).
      unfold act_of; cbn [oa_node oa_origin oa_dest oa_dep oa_arr]. apply fields_ok_refl.
    + rewrite acts_nodes. apply nodup_nid_intro'. apply mids_nodup. exact RVt.
  - apply nodup_vid_intro. rewrite EV, (ids_eq rs F). apply VL_nodup.
Qed.

(** ** 307 *)
Lemma clause307 : c307 out = true.
Proof.
  destruct rendered as (rs & F & EV & ED & _). unfold c307. rewrite EV, ED. apply all2_dhts.
  intros r Hr.
  destruct (Forall2_in_r _ _ _ _ F Hr) as (v & _ & (ty & t & _ & _ & _ & Eid & _ & _ & _ & _ & Edl & _)).
  rewrite Eid. exact Edl.
Qed.

(** ** 306 *)
Lemma clause306 : EndsListed nw s -> c306 nw out = true.
Proof.
  intros EL. destruct rendered as (rs & F & EV & _). unfold c306. apply forallb_forall. intros ov Hov.
  rewrite EV in Hov. apply in_map_iff in Hov. destruct Hov as (r & <- & Hr).
  destruct (Forall2_in_r _ _ _ _ F Hr) as (v & _ & (ty & t & Hty & Ht & RVt & Eid & Ety & Esd & Eed & EA & Edl & Efold)).
  assert (IT : itinerary nw (fst r) = t_nodes t).
  { unfold itinerary. rewrite Esd, Eed, EA, acts_nodes. destruct (EL v t Ht) as [-> ->].
    symmetry. apply (RV_nodes nw); exact RVt. }
  unfold expected_dhs. rewrite IT.
  destruct (dh_fold_spec nw _ _ _ Efold) as (ds & Eds & F2). cbn [app] in Eds. rewrite Eds.
  eapply all2_of_Forall2; [|exact F2].
  intros [a b] d Hin Hrel. apply filter_In in Hin. destruct Hin as [Hin _].
  apply dh_ok_rendered; [exact nf_wf | | exact Hrel].
  destruct RVt as (_ & C & _). apply C. exact Hin.
Qed.

(** ** 302 *)
Lemma maint_nodup : NoDup (nw_maint nw).
Proof. destruct NF as (_ & _ & ND). unfold coverable_nodes in ND. eapply NoDup_app_r. exact ND. Qed.

Lemma clause302 : c302 nw out = true.
Proof.
  destruct rendered as (rs & _ & _ & _ & _ & ESl & _). unfold c302. rewrite ESl, segs_nodes.
  rewrite andb_true_iff. split.
  - apply once_each_intro; [apply maint_nodup | apply Permutation_refl].
  - apply forallb_forall. intros sg Hsg. apply in_map_iff in Hsg. destruct Hsg as (n & <- & _).
    unfold seg_of; cbn [os_node os_origin os_dest os_dep os_arr]. apply fields_ok_refl.
Qed.

(** ** 301 *)
Lemma segs_flat l :
  map os_node (flat_map (fun ty => map (seg_of nw s ty) (service_nodes nw ty)) l) = flat_map (service_nodes nw) l.
Proof.
  induction l as [|ty l IH]; cbn [flat_map]; [reflexivity|]. rewrite map_app, segs_nodes, IH. reflexivity.
Qed.

Lemma services_nodup : NoDup (all_service_nodes nw).
Proof. destruct NF as (_ & _ & ND). unfold coverable_nodes in ND. eapply NoDup_app_l. exact ND. Qed.

Lemma clause301 : services_listed nw -> c301 nw out = true.
Proof.
  intros [SP ST]. destruct rendered as (rs & _ & _ & _ & ES & _). unfold c301. rewrite ES, segs_flat.
  rewrite andb_true_iff. split.
  - apply once_each_intro; [apply services_nodup | exact SP].
  - apply forallb_forall. intros sg Hsg. apply in_flat_map in Hsg. destruct Hsg as (ty & Hty & Hsg).
    apply in_map_iff in Hsg. destruct Hsg as (n & <- & Hn).
    unfold seg_of; cbn [os_node os_origin os_dest os_dep os_arr os_type].
    rewrite fields_ok_refl, (ST ty n Hty Hn), Z.eqb_refl. reflexivity.
Qed.

(** ** 303 *)
Hypothesis FO : FormsOK nw s.

Lemma coverable_nondep n : In n (coverable_nodes nw) -> node_is_depot nw n = false.
Proof.
  unfold coverable_nodes. rewrite in_app_iff. intros [H|H].
  - unfold all_service_nodes in H. apply filter_In in H. destruct H as [_ H].
    unfold node_is_depot. destruct (nd nw n); cbn in *; congruence.
  - destruct NF as (_ & ML & _). apply ML in H. unfold node_is_depot. destruct (nd nw n); cbn in *; congruence.
Qed.

Lemma form_ok rs n :
  Forall2 (fun v r => veh_spec nw s v (fst r) (snd r)) VL rs -> o_vehicles out = map fst rs ->
  In n (coverable_nodes nw) ->
  let f := match nget n (s_forms s) with Some f => map fst f | None => [] end in
  nodup_vid f && same_vids f (vehicles_with out n) = true.
Proof.
  intros F EV Hn. cbv zeta.
  assert (K : In n (keys (s_forms s))) by (apply (fo_keys _ _ FO); exact Hn).
  destruct (nget_of_key _ _ K) as [f Hf]. rewrite Hf.
  rewrite andb_true_iff. split.
  - apply nodup_vid_intro. apply (fo_nodup _ _ FO n f Hf).
  - apply same_vids_intro. intros x. unfold vehicles_with. rewrite in_map_iff. split.
    + intros (p & <- & Hp). destruct p as [x ty]. cbn [fst].
      apply (fo_member _ _ FO n f x ty Hf) in Hp. destruct Hp as (Hty & t & Ht & Hin).
      assert (Hx : In x VL) by (apply VL_in; eauto).
      destruct (Forall2_in_l _ _ _ _ F Hx) as (r & Hr & (ty' & t' & Hty' & Ht' & RVt & Eid & _ & _ & _ & EA & _)).
      assert (t' = t) by congruence. subst t'.
      apply in_map_iff. exists (fst r). split; [exact Eid|]. apply filter_In. split; [rewrite EV; apply in_map; exact Hr|].
      apply existsb_exists. exists (act_of nw n). split.
      * rewrite EA. apply in_map. unfold mids. apply (RV_mid_in nw); auto. apply coverable_nondep; exact Hn.
      * cbn [act_of oa_node]. apply nid_eqb_refl.
    + intros Hov. apply in_map_iff in Hov. destruct Hov as (ov & <- & Hov).
      apply filter_In in Hov. destruct Hov as [Hov Hex].
      apply existsb_exists in Hex. destruct Hex as (a & Ha & Hna). apply nid_eqb_eq in Hna.
      rewrite EV in Hov. apply in_map_iff in Hov. destruct Hov as (r & <- & Hr).
      destruct (Forall2_in_r _ _ _ _ F Hr) as (v & _ & (ty & t & Hty & Ht & RVt & Eid & _ & _ & _ & EA & _)).
      rewrite Eid. exists (v, ty). split; [reflexivity|].
      apply (fo_member _ _ FO n f v ty Hf). split; [exact Hty|]. exists t. split; [exact Ht|].
      rewrite EA in Ha. apply in_map_iff in Ha. destruct Ha as (m & <- & Hm). cbn [act_of oa_node] in Hna. subst m.
      apply mid_in_nodes. exact Hm.
Qed.

Lemma clause303 : services_known nw -> c303 out = true.
Proof.
  intros SK. destruct rendered as (rs & F & EV & _ & ES & ESl & _). unfold c303. apply forallb_forall.
  intros sg Hsg. apply in_app_iff in Hsg. destruct Hsg as [Hsg|Hsg].
  - rewrite ES in Hsg. apply in_flat_map in Hsg. destruct Hsg as (ty & Hty & Hsg).
    apply in_map_iff in Hsg. destruct Hsg as (n & <- & Hn).
    unfold seg_of; cbn [os_node os_form]. apply (form_ok rs n F EV).
    unfold coverable_nodes. apply in_app_iff. left. eapply SK; eauto.
  - rewrite ESl in Hsg. apply in_map_iff in Hsg. destruct Hsg as (n & <- & Hn).
    unfold seg_of; cbn [os_node os_form]. apply (form_ok rs n F EV).
    unfold coverable_nodes. apply in_app_iff. right. exact Hn.
Qed.

(** ** 305 *)
Hypothesis UO : UsageOK nw s.

Lemma loads_count d ty : spawned_same_type (s_usage s) d ty = Output.starts_at out d ty.
Proof.
  destruct rendered as (rs & F & EV & _).
  unfold spawned_same_type, Output.starts_at.
  set (L1 := filter (fun v => (ov_sdepot v =? d) && (ov_type v =? ty)) (o_vehicles out)).
  transitivity (Z.of_nat (length (fst (usage_at s d ty)))).
  { unfold usage_at. destruct (uget (d, ty) (s_usage s)) as [[sp de]|]; reflexivity. }
  f_equal. rewrite <- (map_length ov_id L1). apply Permutation_length. apply NoDup_Permutation.
  - apply (uo_nodup _ _ UO).
  - unfold L1. apply NoDup_map_filter. rewrite EV, (ids_eq rs F). apply VL_nodup.
  - intros x. rewrite (uo_spawned _ _ UO d ty x). unfold SchedStruct.starts_at, L1. rewrite in_map_iff. split.
    + intros (t & Hty & Ht & Hd).
      assert (Hx : In x VL) by (apply VL_in; eauto).
      destruct (Forall2_in_l _ _ _ _ F Hx) as (r & Hr & (ty' & t' & Hty' & Ht' & _ & Eid & Ety & Esd & _)).
      assert (Et : t' = t) by congruence. assert (Ey : ty' = ty) by congruence.
      exists (fst r). split; [exact Eid|]. apply filter_In. split; [rewrite EV; apply in_map; exact Hr|].
      rewrite Esd, Ety, Et, Ey, Hd, !Z.eqb_refl. reflexivity.
    + intros (ov & <- & Hov). apply filter_In in Hov. destruct Hov as [Hov Hc].
      apply andb_true_iff in Hc. destruct Hc as [Hc1 Hc2]. apply Z.eqb_eq in Hc1, Hc2.
      rewrite EV in Hov. apply in_map_iff in Hov. destruct Hov as (r & <- & Hr).
      destruct (Forall2_in_r _ _ _ _ F Hr) as (v & _ & (ty' & t & Hty & Ht & _ & Eid & Ety & Esd & _)).
      rewrite Eid. exists t. split; [congruence|]. split; [exact Ht|]. congruence.
Qed.

Lemma clause305 : c305 nw out = true.
Proof.
  destruct rendered as (rs & _ & _ & _ & _ & _ & EL). unfold c305. rewrite andb_true_iff. split.
  - apply forallb_forall. intros [[d ty] c] Hx. rewrite EL in Hx.
    apply in_flat_map in Hx. destruct Hx as (d' & _ & Hx). apply in_flat_map in Hx. destruct Hx as (ty' & _ & Hx).
    cbv zeta in Hx. destruct (0 <? spawned_same_type (s_usage s) d' ty') eqn:E0; [|destruct Hx].
    destruct Hx as [Hx|[]]. inversion Hx; subst d' ty' c. rewrite E0. cbn [andb].
    apply Z.eqb_eq. apply loads_count.
  - apply forallb_forall. intros [d e] Hd. apply forallb_forall. intros ty Hty.
    destruct (Output.starts_at out d ty =? 0) eqn:E0; [reflexivity|]. cbn [orb].
    apply existsb_exists. exists (d, ty, spawned_same_type (s_usage s) d ty). split.
    + rewrite EL. apply in_flat_map. exists d. split; [apply (in_map fst) in Hd; exact Hd|].
      apply in_flat_map. exists ty. split; [exact Hty|]. cbv zeta.
      assert (P : 0 <? spawned_same_type (s_usage s) d ty = true).
      { apply Z.ltb_lt. apply Z.eqb_neq in E0. rewrite loads_count. unfold Output.starts_at in *. lia. }
      rewrite P. left; reflexivity.
    + rewrite !Z.eqb_refl. reflexivity.
Qed.
End Main.

(** * the theorems *)
Lemma in_if_nil (b : bool) (c x : Z) : In x (if b then [] else [c]) -> b = false /\ x = c.
Proof. destruct b; [intros []|]. intros [<-|[]]. split; reflexivity. Qed.

(* all seven clauses, under the two listing facts *)
Theorem render_C03_under_listed nw :
  net_fine nw -> services_listed nw ->
  forall s out, ToursOK nw s -> ListingOK nw s -> FormsOK nw s -> UsageOK nw s -> EndsListed nw s ->
    render nw s = Ok out -> check_C03 nw out = [].
Proof.
  intros NF SL s out TO LO FO UO EL R. rewrite check_C03_split.
  rewrite (clause301 nw s out NF TO LO R SL), (clause302 nw s out NF TO LO R),
    (clause303 nw s out NF TO LO R FO (services_listed_known nw SL)), (clause304 nw s out NF TO LO R),
    (clause305 nw s out NF TO LO R UO), (clause306 nw s out NF TO LO R EL), (clause307 nw s out NF TO LO R).
  reflexivity.
Qed.

(* exactly the hypotheses of [stmt_render_C03]: clauses 302, 304, 305, 307 hold *)
Theorem render_C03_partial nw :
  net_fine nw ->
  forall s out, ToursOK nw s -> ListingOK nw s -> FormsOK nw s -> UsageOK nw s ->
    render nw s = Ok out -> forall c, In c (check_C03 nw out) -> c = 301 \/ c = 303 \/ c = 306.
Proof.
  intros NF s out TO LO FO UO R c. rewrite check_C03_split.
  rewrite (clause302 nw s out NF TO LO R), (clause304 nw s out NF TO LO R),
    (clause305 nw s out NF TO LO R UO), (clause307 nw s out NF TO LO R).
  cbn [app]. rewrite !in_app_iff. intros [H|[H|[H|[]]]]; apply in_if_nil in H; destruct H as [_ ->]; auto.
Qed.

(* clause by clause: what each of the three remaining clauses needs *)
Theorem render_C03_clause_301 nw :
  net_fine nw -> services_listed nw ->
  forall s out, ToursOK nw s -> ListingOK nw s -> render nw s = Ok out -> ~ In 301 (check_C03 nw out).
Proof.
  intros NF SL s out TO LO R. rewrite check_C03_split, (clause301 nw s out NF TO LO R SL). cbn [app].
  rewrite !in_app_iff. intros H. repeat (destruct H as [H|H]; [apply in_if_nil in H; destruct H; discriminate|]).
  apply in_if_nil in H; destruct H; discriminate.
Qed.

Theorem render_C03_clause_303 nw :
  net_fine nw -> services_known nw ->
  forall s out, ToursOK nw s -> ListingOK nw s -> FormsOK nw s -> render nw s = Ok out ->
    ~ In 303 (check_C03 nw out).
Proof.
  intros NF SK s out TO LO FO R. rewrite check_C03_split, (clause303 nw s out NF TO LO R FO SK). cbn [app].
  rewrite !in_app_iff. intros H. repeat (destruct H as [H|H]; [apply in_if_nil in H; destruct H; discriminate|]).
  apply in_if_nil in H; destruct H; discriminate.
Qed.

Theorem render_C03_clause_306 nw :
  net_fine nw ->
  forall s out, ToursOK nw s -> ListingOK nw s -> EndsListed nw s -> render nw s = Ok out ->
    ~ In 306 (check_C03 nw out).
Proof.
  intros NF s out TO LO EL R. rewrite check_C03_split, (clause306 nw s out NF TO LO R EL). cbn [app].
  rewrite !in_app_iff. intros H. repeat (destruct H as [H|H]; [apply in_if_nil in H; destruct H; discriminate|]).
  apply in_if_nil in H; destruct H; discriminate.
Qed.

(** * [stmt_render_C03] is false for arbitrary network records: a [net_fine] network whose per-type service
      listing names a service node that [nw_all_by_start] (hence [all_service_nodes]) does not contain.  The
      schedule is the empty schedule of that network; the rendered JSON lists one departure segment, the checker
      expects none: clause 301 fails. *)
Definition tripX : service_trip :=
  {| st_type := 0; st_origin := Station 0; st_dest := Station 0; st_dep := Point 0; st_arr := Point 1;
     st_dist := Dist 0; st_pass := 1; st_seated := 0; st_limit := None |}.
Definition nwX : network :=
  {| nw_nodes := [(SV 0, NService tripX)]; nw_depots := []; nw_overflow := (0, SD 0, ED 0);
     nw_service := [(0, [SV 0])]; nw_maint := []; nw_sdepots := []; nw_edepots := [];
     nw_all_by_start := [];
     nw_type_by_start := [(0, [(Point 0, SV 0)])]; nw_type_by_end := [(0, [(Point 1, SV 0)])];
     nw_params := {| p_forbid := false; p_min := 0; p_dht := 0; p_maxdist := 0;
                     c_staff := 0; c_service := 0; c_maint := 0; c_dh := 0; c_idle := 0 |};
     nw_nlocs := 1; nw_dh := [[(Dist 0, Len 0)]];
     nw_types := [{| vt_cap := 1; vt_seats := 1; vt_limit := None |}];
     nw_nservice := 1; nw_planning := Len 86400 |}.
Definition sX : schedule :=
  {| s_vehicles := []; s_tours := [];
     s_trans := [(0, {| tr_cycles := []; tr_viol := 0; tr_count := 0; tr_lookup := []; tr_empty := [] |})];
     s_forms := []; s_usage := []; s_dummies := []; s_counter := 0; s_ids := [(0, [])]; s_dummy_ids := [];
     s_unserved := (0, 0); s_viol := 0; s_costs := 0 |}.
Definition outX : outp :=
  {| o_obj := (0, 0, 0, 0); o_vehicles := []; o_cycles := [(0, [])];
     o_segs := [{| os_node := SV 0; os_origin := Station 0; os_dest := Station 0; os_dep := Point 0;
                   os_arr := Point 1; os_type := 0; os_form := [] |}];
     o_slots := []; o_loads := []; o_dhts := [] |}.

Lemma sX_is_empty : empty_schedule nwX = Ok sX.
Proof. vm_compute. reflexivity. Qed.
Lemma nwX_fine : net_fine nwX.
Proof.
  split; [vm_compute; reflexivity|]. split; [intros m []|].
  change (coverable_nodes nwX) with (@nil node_id). constructor.
Qed.
Lemma renderX : render nwX sX = Ok outX.
Proof. vm_compute. reflexivity. Qed.
Lemma checkX : check_C03 nwX outX = [301].
Proof. vm_compute. reflexivity. Qed.

Lemma iterX ty : vehicles_iter sX ty = [].
Proof. unfold vehicles_iter, zget. cbn [s_ids sX assoc]. destruct (ty =? 0); reflexivity. Qed.

Lemma sX_tours : ToursOK nwX sX.
Proof. split; intros v t H; discriminate H. Qed.
Lemma sX_listing : ListingOK nwX sX.
Proof.
  split; cbn [s_vehicles s_tours s_dummies s_dummy_ids sX keys map].
  - constructor.
  - constructor.
  - constructor.
  - intros v; tauto.
  - intros v [].
  - intros v [].
  - reflexivity.
  - intros v ty. rewrite iterX. split; [intros H; discriminate H | intros []].
  - intros ty. rewrite iterX. constructor.
  - intros d; tauto.
  - constructor.
Qed.
Lemma sX_forms : FormsOK nwX sX.
Proof.
  split; cbn [s_forms sX keys map].
  - constructor.
  - intros n. change (coverable_nodes nwX) with (@nil node_id). tauto.
  - intros n f H; discriminate H.
  - intros n f v ty H; discriminate H.
Qed.
Lemma sX_usage : UsageOK nwX sX.
Proof.
  assert (E : forall d ty, usage_at sX d ty = ([], [])) by reflexivity.
  split.
  - constructor.
  - intros d ty. rewrite E. split; constructor.
  - intros d ty v. rewrite E. split; [intros []|]. intros (t & H & _). discriminate H.
  - intros d ty v. rewrite E. split; [intros []|]. intros (t & H & _). discriminate H.
Qed.

Theorem render_C03_refuted_nwX : ~ stmt_render_C03 nwX.
Proof.
  intros H. specialize (H nwX_fine sX outX sX_tours sX_listing sX_forms sX_usage renderX).
  rewrite checkX in H. discriminate H.
Qed.
Theorem render_C03_refuted : ~ (forall nw, stmt_render_C03 nw).
Proof. intros H. exact (render_C03_refuted_nwX (H nwX)). Qed.
(* the witness is outside [services_listed] *)
Lemma nwX_not_listed : ~ services_listed nwX.
Proof.
  intros [P _]. apply Permutation_length in P. vm_compute in P. discriminate P.
Qed.

(** * clause 306 needs [EndsListed]: a [net_fine] network that satisfies [services_listed] but has two start
      depot nodes of the same depot index, only one of them in the depot table; the schedule is "empty, then
      spawn a vehicle for the path [SD 2; SV 3; ED 1]".  The vehicle starts at SD 2 (Station 1) and needs a
      dead-head trip to the service trip at Station 0; the checker reads start depot 0 back as SD 0 (Station 0)
      and expects no dead-head trip. *)
Definition tripY : service_trip :=
  {| st_type := 0; st_origin := Station 0; st_dest := Station 0; st_dep := Point 0; st_arr := Point 1;
     st_dist := Dist 0; st_pass := 1; st_seated := 0; st_limit := None |}.
Definition dpY : depot := {| dp_idx := 0; dp_loc := Station 0; dp_total := 5; dp_allowed := [(0, None)] |}.
Definition nwY : network :=
  {| nw_nodes := [(SD 0, NStart {| dn_depot := 0; dn_loc := Station 0 |});
                  (SD 2, NStart {| dn_depot := 0; dn_loc := Station 1 |});
                  (ED 1, NEnd {| dn_depot := 0; dn_loc := Station 0 |});
                  (SV 3, NService tripY)];
     nw_depots := [(0, (dpY, SD 0, ED 1))]; nw_overflow := (0, SD 0, ED 1);
     nw_service := [(0, [SV 3])]; nw_maint := []; nw_sdepots := [SD 0; SD 2]; nw_edepots := [ED 1];
     nw_all_by_start := [(Earliest, SD 0); (Earliest, SD 2); (Point 0, SV 3); (Latest, ED 1)];
     nw_type_by_start := [(0, [(Earliest, SD 0); (Earliest, SD 2); (Point 0, SV 3); (Latest, ED 1)])];
     nw_type_by_end := [(0, [(Earliest, SD 0); (Earliest, SD 2); (Point 1, SV 3); (Latest, ED 1)])];
     nw_params := {| p_forbid := false; p_min := 0; p_dht := 0; p_maxdist := 0;
                     c_staff := 0; c_service := 0; c_maint := 0; c_dh := 0; c_idle := 0 |};
     nw_nlocs := 2; nw_dh := [[(Dist 0, Len 0); (Dist 0, Len 0)]; [(Dist 0, Len 0); (Dist 0, Len 0)]];
     nw_types := [{| vt_cap := 1; vt_seats := 1; vt_limit := None |}];
     nw_nservice := 1; nw_planning := Len 86400 |}.
Definition tY : tour :=
  {| t_nodes := [SD 2; SV 3; ED 1]; t_dummy := false; t_vm := false; t_useful := Len 1; t_sdist := Dist 0;
     t_ddist := Dist 0; t_costs := 0 |}.
Definition sY : schedule :=
  {| s_vehicles := [(Veh 0, 0)]; s_tours := [(Veh 0, tY)];
     s_trans := [(0, {| tr_cycles := [([Veh 0], 0)]; tr_viol := 0; tr_count := 0; tr_lookup := [(Veh 0, O)];
                        tr_empty := [] |})];
     s_forms := [(SV 3, [(Veh 0, 0)])]; s_usage := [((0, 0), ([Veh 0], [Veh 0]))]; s_dummies := [];
     s_counter := 1; s_ids := [(0, [Veh 0])]; s_dummy_ids := [];
     s_unserved := (0, 0); s_viol := 0; s_costs := 0 |}.

Lemma sY_history :
  exists s0, empty_schedule nwY = Ok s0 /\ spawn_vehicle_for_path nwY s0 0 [SD 2; SV 3; ED 1] = Ok (sY, Veh 0).
Proof. eexists. split; vm_compute; reflexivity. Qed.

Lemma nwY_fine : net_fine nwY.
Proof.
  split; [vm_compute; reflexivity|]. split; [intros m []|].
  change (coverable_nodes nwY) with [SV 3]. constructor; [intros []|constructor].
Qed.
Lemma nwY_listed : services_listed nwY.
Proof.
  split.
  - change (flat_map (service_nodes nwY) (type_ids nwY)) with [SV 3].
    change (all_service_nodes nwY) with [SV 3]. apply Permutation_refl.
  - intros ty n Hty Hn. change (type_ids nwY) with [0] in Hty. destruct Hty as [<-|[]].
    change (service_nodes nwY 0) with [SV 3] in Hn. destruct Hn as [<-|[]]. reflexivity.
Qed.

Lemma vgetY {A} (x : A) v y : vget v [(Veh 0, x)] = Some y -> v = Veh 0 /\ y = x.
Proof.
  unfold vget. cbn [assoc]. destruct (vid_eqb v (Veh 0)) eqn:E; [|discriminate].
  apply vid_eqb_eq in E. intros H; inversion H. auto.
Qed.

Lemma iterY ty : vehicles_iter sY ty = if ty =? 0 then [Veh 0] else [].
Proof. unfold vehicles_iter, zget. cbn [s_ids sY assoc]. destruct (ty =? 0); reflexivity. Qed.

Lemma sY_tours : ToursOK nwY sY.
Proof.
  split.
  - intros v t H. cbn [s_tours sY] in H. apply vgetY in H. destruct H as [-> ->].
    exists 0. split; [reflexivity|]. vm_compute. reflexivity.
  - intros d t H. discriminate H.
Qed.

Lemma sY_listing : ListingOK nwY sY.
Proof.
  split; cbn [s_vehicles s_tours s_dummies s_dummy_ids sY keys map fst].
  - constructor; [intros []|constructor].
  - constructor; [intros []|constructor].
  - constructor.
  - intros v; tauto.
  - intros v [<-|[]]. reflexivity.
  - intros v [].
  - reflexivity.
  - intros v ty. rewrite iterY. split.
    + intros H. apply vgetY in H. destruct H as [-> ->]. left; reflexivity.
    + destruct (Z.eqb_spec ty 0) as [->|Hne]; [|intros []]. intros [<-|[]]. reflexivity.
  - intros ty. rewrite iterY. destruct (ty =? 0); repeat constructor.
  - intros d; tauto.
  - constructor.
Qed.

Lemma ngetY n f : nget n (s_forms sY) = Some f -> n = SV 3 /\ f = [(Veh 0, 0)].
Proof.
  unfold nget. cbn [s_forms sY assoc]. destruct (nid_eqb n (SV 3)) eqn:E; [|discriminate].
  apply nid_eqb_eq in E. intros H; inversion H. auto.
Qed.

Lemma sY_forms : FormsOK nwY sY.
Proof.
  split.
  - cbn [s_forms sY keys map fst]. constructor; [intros []|constructor].
  - intros n. cbn [s_forms sY keys map fst]. change (coverable_nodes nwY) with [SV 3]. tauto.
  - intros n f H. apply ngetY in H. destruct H as [-> ->]. cbn [map fst]. constructor; [intros []|constructor].
  - intros n f v ty H. apply ngetY in H. destruct H as [-> ->]. split.
    + intros [E|[]]. inversion E; subst v ty. split; [reflexivity|]. exists tY. split; [reflexivity|].
      cbn [t_nodes tY]. right; left; reflexivity.
    + intros [H _]. cbn [s_vehicles sY] in H. apply vgetY in H. destruct H as [-> ->]. left; reflexivity.
Qed.

Lemma usageY d ty : usage_at sY d ty = if pair_eqb (d, ty) (0, 0) then ([Veh 0], [Veh 0]) else ([], []).
Proof. unfold usage_at, uget. cbn [s_usage sY assoc]. destruct (pair_eqb (d, ty) (0, 0)); reflexivity. Qed.

Lemma sY_usage : UsageOK nwY sY.
Proof.
  split.
  - cbn [s_usage sY keys map fst]. constructor; [intros []|constructor].
  - intros d ty. rewrite usageY. destruct (pair_eqb (d, ty) (0, 0)); cbn [fst snd]; split; repeat constructor; intros [].
  - intros d ty v. rewrite usageY. unfold SchedStruct.starts_at. destruct (pair_eqb (d, ty) (0, 0)) eqn:E; cbn [fst].
    + apply pair_eqb_eq in E. inversion E; subst d ty. split.
      * intros [<-|[]]. exists tY. repeat split; reflexivity.
      * intros (t & H & _). cbn [s_vehicles sY] in H. apply vgetY in H. destruct H as [-> _]. left; reflexivity.
    + split; [intros []|]. intros (t & H1 & H2 & H3). cbn [s_vehicles s_tours sY] in H1, H2.
      apply vgetY in H1. apply vgetY in H2. destruct H1 as [-> ->]. destruct H2 as [_ ->].
      change (get_depot_idx nwY (first_node tY)) with 0 in H3. subst d.
      rewrite pair_eqb_refl in E. discriminate.
  - intros d ty v. rewrite usageY. unfold SchedStruct.ends_at. destruct (pair_eqb (d, ty) (0, 0)) eqn:E; cbn [snd].
    + apply pair_eqb_eq in E. inversion E; subst d ty. split.
      * intros [<-|[]]. exists tY. repeat split; reflexivity.
      * intros (t & H & _). cbn [s_vehicles sY] in H. apply vgetY in H. destruct H as [-> _]. left; reflexivity.
    + split; [intros []|]. intros (t & H1 & H2 & H3). cbn [s_vehicles s_tours sY] in H1, H2.
      apply vgetY in H1. apply vgetY in H2. destruct H1 as [-> ->]. destruct H2 as [_ ->].
      change (get_depot_idx nwY (last_node tY)) with 0 in H3. subst d.
      rewrite pair_eqb_refl in E. discriminate.
Qed.

Lemma checkY : exists out, render nwY sY = Ok out /\ check_C03 nwY out = [306].
Proof. eexists. split; vm_compute; reflexivity. Qed.

(* so clause 306 is not a consequence of the stated hypotheses even together with [services_listed] *)
Theorem render_C03_306_needs_ends_listed :
  ~ (forall nw, net_fine nw -> services_listed nw ->
     forall s out, ToursOK nw s -> ListingOK nw s -> FormsOK nw s -> UsageOK nw s ->
       render nw s = Ok out -> check_C03 nw out = []).
Proof.
  intros H. destruct checkY as (out & Rn & C).
  specialize (H nwY nwY_fine nwY_listed sY out sY_tours sY_listing sY_forms sY_usage Rn).
  rewrite C in H. discriminate H.
Qed.
Lemma sY_not_ends_listed : ~ EndsListed nwY sY.
Proof. intros H. destruct (H (Veh 0) tY eq_refl) as [H1 _]. vm_compute in H1. discriminate H1. Qed.

(** * [services_listed] holds for every network built by [load] from a valid instance *)
From RS Require Import LoadStmts LoadFacts.

Lemma perm_flat_map {A B} (f g : A -> list B) l :
  (forall x, In x l -> Permutation (f x) (g x)) -> Permutation (flat_map f l) (flat_map g l).
Proof.
  induction l as [|a l IH]; intros H; cbn [flat_map]; [constructor|].
  apply Permutation_app; [apply H; left; reflexivity | apply IH; intros x Hx; apply H; right; exact Hx].
Qed.

Lemma flat_map_ext_in' {A B} (f g : A -> list B) l :
  (forall x, In x l -> f x = g x) -> flat_map f l = flat_map g l.
Proof.
  induction l as [|a l IH]; intros H; cbn [flat_map]; [reflexivity|].
  rewrite (H a (or_introl eq_refl)), IH; [reflexivity|]. intros x Hx. apply H. right; exact Hx.
Qed.

Lemma map_flat_map' {A B C} (h : B -> C) (g : A -> list B) l :
  map h (flat_map g l) = flat_map (fun x => map h (g x)) l.
Proof. induction l as [|a l IH]; cbn [flat_map map]; [reflexivity|]. now rewrite map_app, IH. Qed.

Definition entry_type (x : node_id * node) : Z := match snd x with NService s => st_type s | _ => 0 end.

Theorem load_services_listed :
  forall i perm nw, valid_instance_b i = true -> load i perm = Ok nw -> services_listed nw.
Proof.
  intros i perm nw V H. destruct (load_inv i perm nw V H) as (trips & n0 & p1 & -> & Hn0 & Rr & G & Ne).
  set (p0 := Len n0). split.
  - change (type_ids (Lnet i perm trips p0 p1)) with (tids i).
    rewrite (flat_map_ext_in' _ (fun ty => Lsrt i perm trips p0 (Lsvc_list i perm trips ty)))
      by (intros ty Hty; apply Lservice_nodes; exact Hty).
    etransitivity; [|symmetry; apply Lall_service].
    transitivity (flat_map (Lsvc_list i perm trips) (tids i)).
    + apply perm_flat_map. intros ty _. apply sort_by_perm.
    + unfold Lsvc_list. rewrite <- map_flat_map'.
      set (E := Lsvc_entries i perm trips).
      rewrite (flat_map_ext_in' _ (fun t => filter (fun x => entry_type x =? t) E)).
      2:{ intros t _. apply filter_ext_in. intros [id n] Hx. apply Lsvc_entries_in in Hx.
          destruct Hx as (s0 & -> & _). reflexivity. }
      unfold tids, ntypes. rewrite partition_perm.
      2:{ intros [id n] Hx. apply Lsvc_entries_in in Hx. destruct Hx as (s0 & -> & Hs). unfold entry_type; cbn [snd].
          apply Ltbt_in in Hs. apply G in Hs. destruct Hs as [Hs _]. lia. }
      rewrite filter_all_true.
      2:{ intros [id n] Hx. apply Lsvc_entries_in in Hx. destruct Hx as (s0 & -> & Hs). unfold entry_type; cbn [snd].
          apply Ltbt_in in Hs. apply G in Hs. destruct Hs as [Hs _]. apply Z.ltb_lt. lia. }
      unfold E, Lsvc_entries. rewrite (map_fst_combine _ _ (Lsvc_len i perm trips)). reflexivity.
  - intros ty n Hty Hn. change (type_ids (Lnet i perm trips p0 p1)) with (tids i) in Hty.
    rewrite (Lservice_nodes i perm trips p0 p1 ty Hty) in Hn. unfold Lsrt in Hn. apply sort_by_in in Hn.
    unfold Lsvc_list in Hn. apply in_map_iff in Hn. destruct Hn as ([id x] & <- & Hx).
    apply filter_In in Hx. destruct Hx as [Hx Hp]. cbn [fst].
    destruct (Lsvc_entries_in _ _ _ _ _ Hx) as (s0 & -> & _).
    unfold vehicle_type_for. rewrite (Lnd i perm trips p0 id (NService s0) p1).
    + apply Z.eqb_eq. exact Hp.
    + unfold Lnodes. rewrite !in_app_iff. right; left. exact Hx.
Qed.

(** * the network half of [EndsListed]: the depot table of a loaded network maps the depot index of every listed
      depot node back to that node; together with "tours start and end at listed depot nodes" this gives
      [EndsListed] *)
Definition depot_table_ok (nw : network) : Prop :=
  (forall n, In n (nw_sdepots nw) -> get_start_depot_node nw (get_depot_idx nw n) = n) /\
  (forall n, In n (nw_edepots nw) -> get_end_depot_node nw (get_depot_idx nw n) = n).
Definition EndsKnown (nw : network) (s : schedule) : Prop :=
  forall v t, vget v (s_tours s) = Some t -> In (first_node t) (nw_sdepots nw) /\ In (last_node t) (nw_edepots nw).

Lemma ends_listed_of_known nw s : depot_table_ok nw -> EndsKnown nw s -> EndsListed nw s.
Proof. intros [D1 D2] K v t Ht. destruct (K v t Ht) as [K1 K2]. split; [apply D1 | apply D2]; assumption. Qed.

Lemma make_depots_idx i perm x :
  map dp_idx (make_depots i perm x) = map Z.of_nat (seq 0 (length (make_depots i perm x))).
Proof.
  rewrite Ldepots0_length. unfold make_depots. destruct (i_depots i) as [ds|]; rewrite map_map.
  - rewrite <- (map_combine_seq Z.of_nat ds 0). apply map_ext. intros [k d]; reflexivity.
  - rewrite <- (map_combine_seq Z.of_nat perm 0). apply map_ext. intros [k d]; reflexivity.
Qed.

Lemma Ldepots_idx i perm trips :
  map dp_idx (Ldepots i perm trips) = map Z.of_nat (seq 0 (length (Ldepots i perm trips))).
Proof.
  unfold Ldepots, Ldepots0. rewrite map_app, app_length, make_depots_idx. cbn [map length].
  rewrite seq_app, map_app. cbn [seq map plus]. reflexivity.
Qed.

Lemma dnodes_lookup (deps : list depot) : forall s0,
  map dp_idx deps = map Z.of_nat (seq s0 (length deps)) ->
  forall k d, In (k, d) (combine (seq s0 (length deps)) deps) ->
    dp_idx d = Z.of_nat k /\
    assoc Z.eqb (dp_idx d)
      (map (fun '(d, s, en) => (dp_idx d, (d, s, en)))
         (map (fun '(k, d) => (d, SD (2 * Z.of_nat k), ED (2 * Z.of_nat k + 1)))
            (combine (seq s0 (length deps)) deps))) = Some (d, SD (2 * Z.of_nat k), ED (2 * Z.of_nat k + 1)).
Proof.
  induction deps as [|d0 l IH]; intros s0 E k d Hin; [destruct Hin|].
  cbn [length seq map] in E. inversion E as [[E0 E1]].
  cbn [length seq combine map assoc] in *. destruct Hin as [Hin|Hin].
  - inversion Hin; subst k d. rewrite Z.eqb_refl. split; [exact E0|reflexivity].
  - destruct (IH (S s0) E1 k d Hin) as [Ik A]. split; [exact Ik|].
    apply in_combine_l, in_seq in Hin.
    destruct (Z.eqb_spec (dp_idx d) (dp_idx d0)) as [Q|Q]; [lia|]. exact A.
Qed.

Theorem load_depot_table_ok :
  forall i perm nw, valid_instance_b i = true -> load i perm = Ok nw -> depot_table_ok nw.
Proof.
  intros i perm nw V H. destruct (load_inv i perm nw V H) as (trips & n0 & p1 & -> & Hn0 & Rr & G & Ne).
  set (p0 := Len n0).
  assert (K : forall k d, In (k, d) (combine (seq 0 (length (Ldepots i perm trips))) (Ldepots i perm trips)) ->
    In (d, SD (2 * Z.of_nat k), ED (2 * Z.of_nat k + 1)) (Ldnodes i perm trips)).
  { intros k d Hk. unfold Ldnodes. apply in_map_iff. exists (k, d). split; [reflexivity|exact Hk]. }
  split; intros n Hn.
  - cbn [nw_sdepots Lnet] in Hn. unfold Lsrt in Hn. apply sort_by_in in Hn. unfold Lsdeps in Hn.
    apply in_map_iff in Hn. destruct Hn as ([[d s0] en] & <- & Hd). unfold Ldnodes in Hd.
    apply in_map_iff in Hd. destruct Hd as ([k d'] & Ed & Hk). injection Ed as E1 E2 E3; subst d' s0 en. cbv beta iota.
    destruct (dnodes_lookup (Ldepots i perm trips) 0 (Ldepots_idx i perm trips) k d Hk) as [Ik A].
    assert (Nd : nd (Lnet i perm trips p0 p1) (SD (2 * Z.of_nat k)) = NStart {| dn_depot := dp_idx d; dn_loc := dp_loc d |}).
    { apply Lnd. unfold Lnodes. rewrite !in_app_iff. left. unfold Ldentries. apply in_flat_map.
      exists (d, SD (2 * Z.of_nat k), ED (2 * Z.of_nat k + 1)). split; [apply K; exact Hk|left; reflexivity]. }
    change (get_start_depot_node (Lnet i perm trips p0 p1)
              (get_depot_idx (Lnet i perm trips p0 p1) (SD (2 * Z.of_nat k))) = SD (2 * Z.of_nat k)).
    unfold get_depot_idx. rewrite Nd. cbn [dn_depot]. unfold get_start_depot_node, depot_entry.
    cbn [nw_depots Lnet]. unfold Ldentry, Ldnodes. rewrite A. reflexivity.
  - cbn [nw_edepots Lnet] in Hn. unfold Lsrt in Hn. apply sort_by_in in Hn. unfold Ledeps in Hn.
    apply in_map_iff in Hn. destruct Hn as ([[d s0] en] & <- & Hd). unfold Ldnodes in Hd.
    apply in_map_iff in Hd. destruct Hd as ([k d'] & Ed & Hk). injection Ed as E1 E2 E3; subst d' s0 en. cbv beta iota.
    destruct (dnodes_lookup (Ldepots i perm trips) 0 (Ldepots_idx i perm trips) k d Hk) as [Ik A].
    assert (Nd : nd (Lnet i perm trips p0 p1) (ED (2 * Z.of_nat k + 1)) = NEnd {| dn_depot := dp_idx d; dn_loc := dp_loc d |}).
    { apply Lnd. unfold Lnodes. rewrite !in_app_iff. left. unfold Ldentries. apply in_flat_map.
      exists (d, SD (2 * Z.of_nat k), ED (2 * Z.of_nat k + 1)). split; [apply K; exact Hk|right; left; reflexivity]. }
    change (get_end_depot_node (Lnet i perm trips p0 p1)
              (get_depot_idx (Lnet i perm trips p0 p1) (ED (2 * Z.of_nat k + 1))) = ED (2 * Z.of_nat k + 1)).
    unfold get_depot_idx. rewrite Nd. cbn [dn_depot]. unfold get_end_depot_node, depot_entry.
    cbn [nw_depots Lnet]. unfold Ldentry, Ldnodes. rewrite A. reflexivity.
Qed.

Print Assumptions render_C03_under_listed.
Print Assumptions render_C03_partial.
Print Assumptions render_C03_refuted.
Print Assumptions load_services_listed.
Print Assumptions load_depot_table_ok.
Print Assumptions render_C03_306_needs_ends_listed.
