(* RenderFacts4.v — C04 end to end (statement [stmt_render_C04], RenderStmts.v): the objective the server reports
   (unserved = sum of the two cached components, violation, vehicle count, costs) equals the independent evaluation
   (Output.v: eval_unserved / eval_violation / eval_costs) of the rendered output (Render.v).

   [stmt_render_C04] is FALSE as written ([render_C04_refuted], three independent witnesses in section 12), because
   three facts it needs follow from none of its hypotheses:
     H1  the depot table names the depot nodes of the stored tours: [DepotsNamed nw s] (weakest form), or
         [depots_named nw] (network) + [KnownEnds nw s] (the tours start and end at ids of the node table);
         [net_fine] does not look at [nw_depots]                                         -- witness nwB, clauses 402, 404
     H2  [services_listed nw]: the per-type listings [service_nodes] (the output's segments) enumerate
         [all_service_nodes] (the index set of UnservedOK); [net_fine] does not relate them -- witness nwS, clause 401
     H3  [TransKeys nw s]: the keys of [s_trans] are the vehicle types; ViolOK sums over all keys, TransOK and the
         output speak of the types only                                                   -- witness nw_dflt/sA, clause 402
   Proved here:
     render_C04_under_depots_services_transkeys : the statement with H1 (weakest form), H2, H3 added
     render_C04_under_net                       : the same with H1 in network form
     reachable_trans_keys                       : H3 for every reachable schedule (also kept by
                                                  set_next_day_transitions with [map fst trans = type_ids] and by
                                                  reassign_end_depots_consistent)
     load_depots_named, load_services_listed    : H1 (network part) and H2 for every network built by [load]
     load_maint_coverable, load_net_fine        : [net_fine] for loaded networks (valid instance, perm_ok)
     render_C04_loaded(_valid)                  : C04 for loaded networks; remaining schedule hypotheses besides the
                                                  stated invariants: KnownEnds and TransKeys
     render_C04_history                         : C04 for histories (vreachable + dreachable) with KnownEnds
     sK1_render                                 : why KnownEnds is needed even on a loaded network (model artefact:
                                                  an unknown id reads as a depot-0 start depot; the code panics). *)
From Coq Require Import Permutation Sorted Arith.
From RS Require Import Base BaseFacts Network NetSpec NetFacts Tour TourSpec TourStmts TourFacts TourValidFacts.
From RS Require Import TourExactStmts TourExactFacts SchedObs Output Transition TransSpec Schedule SchedInv SchedStruct.
From RS Require Import SchedCostsFacts SchedToursFacts C04Facts PipelineSched Render RenderStmts SchedExactFacts.
Local Open Scope Z_scope.

(** * 1. insertion sort with a total, transitive comparison *)
Section Sorting.
Context {A : Type} (le : A -> A -> bool).
Let R a b := le a b = true.
Hypothesis le_total : forall a b, le a b = true \/ le b a = true.
Hypothesis le_trans : forall a b c, le a b = true -> le b c = true -> le a c = true.

Lemma insert_by_SS x l : StronglySorted R l -> StronglySorted R (insert_by le x l).
Proof.
  induction l as [|y r IH]; intros S; cbn [insert_by].
  - constructor; constructor.
  - inversion S as [|? ? S' F]; subst. destruct (le y x) eqn:E.
    + constructor; [apply IH; exact S'|]. apply Forall_forall. intros z Hz. apply insert_by_in in Hz.
      destruct Hz as [->|Hz]; [exact E|]. rewrite Forall_forall in F. apply F. exact Hz.
    + assert (Rxy : R x y) by (destruct (le_total x y) as [G|G]; [exact G|congruence]).
      constructor; [exact S|]. constructor; [exact Rxy|]. apply Forall_forall. intros z Hz.
      rewrite Forall_forall in F. eapply le_trans; [exact Rxy|apply F; exact Hz].
Qed.

Lemma fold_insert_SS l : forall acc, StronglySorted R acc ->
  StronglySorted R (fold_left (fun acc x => insert_by le x acc) l acc).
Proof. induction l as [|x l IH]; intros acc S; cbn [fold_left]; [exact S|]. apply IH. apply insert_by_SS. exact S. Qed.

Lemma sort_by_SS l : StronglySorted R (sort_by le l).
Proof. unfold sort_by. apply fold_insert_SS. constructor. Qed.

Lemma SS_perm_eq l1 : forall l2, StronglySorted R l1 -> StronglySorted R l2 -> Permutation l1 l2 ->
  (forall a b, In a l1 -> In b l1 -> R a b -> R b a -> a = b) -> l1 = l2.
Proof.
  induction l1 as [|a r1 IH]; intros l2 S1 S2 P AS.
  - apply Permutation_nil in P. congruence.
  - destruct l2 as [|b r2]; [apply Permutation_sym, Permutation_nil in P; discriminate|].
    inversion S1 as [|? ? S1' F1]; subst. inversion S2 as [|? ? S2' F2]; subst.
    rewrite Forall_forall in F1, F2.
    assert (E : a = b).
    { assert (Hb : In b (a :: r1)) by (eapply Permutation_in; [apply Permutation_sym; exact P|left; reflexivity]).
      assert (Ha : In a (b :: r2)) by (eapply Permutation_in; [exact P|left; reflexivity]).
      destruct Hb as [Hb|Hb]; [exact Hb|]. destruct Ha as [Ha|Ha]; [congruence|].
      apply AS; [left; reflexivity|right; exact Hb|apply F1; exact Hb|apply F2; exact Ha]. }
    subst b. f_equal. apply IH; auto.
    + eapply Permutation_cons_inv; eauto.
    + intros x y Hx Hy. apply AS; right; assumption.
Qed.

(* sorting a permutation of a sorted list whose elements are pairwise distinguishable gives that list *)
Lemma sort_by_perm_sorted l l' : StronglySorted R l -> Permutation l' l ->
  (forall a b, In a l -> In b l -> R a b -> R b a -> a = b) -> sort_by le l' = l.
Proof.
  intros S P AS. symmetry. apply SS_perm_eq; auto.
  - apply sort_by_SS.
  - eapply Permutation_trans; [apply Permutation_sym; exact P|]. apply Permutation_sym. apply sort_by_perm.
Qed.
End Sorting.

Lemma filter_split_perm {A} (p q : A -> bool) l :
  (forall x, In x l -> p x = negb (q x)) -> Permutation (filter p l ++ filter q l) l.
Proof.
  induction l as [|x l IH]; intros H; [constructor|]. cbn [filter].
  assert (IH' : Permutation (filter p l ++ filter q l) l) by (apply IH; intros y Hy; apply H; right; exact Hy).
  rewrite (H x (or_introl eq_refl)). destruct (q x); cbn [negb app].
  - apply Permutation_sym. apply Permutation_cons_app. apply Permutation_sym. exact IH'.
  - constructor. exact IH'.
Qed.

(** * 2. the chronological key of activities *)
Lemma dt_cmp_lt_trans a b c : dt_cmp a b = Lt -> dt_cmp b c = Lt -> dt_cmp a c = Lt.
Proof.
  destruct a, b, c; cbn [dt_cmp]; try discriminate; try reflexivity.
  rewrite !Z.compare_lt_iff. lia.
Qed.

Lemma act_key_total (a b : oact) : act_key_leb a b = true \/ act_key_leb b a = true.
Proof.
  unfold act_key_leb, dt_ltb, dt_eqb. pose proof (dt_cmp_antisym (oa_dep a) (oa_dep b)) as AS.
  destruct (dt_cmp (oa_dep a) (oa_dep b)) eqn:C; cbn [CompOpp] in AS; rewrite AS; cbn [orb andb].
  - destruct (dt_leb_total (oa_arr a) (oa_arr b)) as [H|H]; rewrite H; auto.
  - left; reflexivity.
  - right; reflexivity.
Qed.

Lemma act_key_trans (a b c : oact) : act_key_leb a b = true -> act_key_leb b c = true -> act_key_leb a c = true.
Proof.
  unfold act_key_leb, dt_ltb, dt_eqb. intros H1 H2.
  destruct (dt_cmp (oa_dep a) (oa_dep b)) eqn:C1; cbn [orb andb] in H1; try discriminate H1;
  destruct (dt_cmp (oa_dep b) (oa_dep c)) eqn:C2; cbn [orb andb] in H2; try discriminate H2.
  - apply dt_cmp_eq in C1, C2. rewrite C1, C2, dt_cmp_refl. cbn [orb andb]. eapply dt_leb_trans; eauto.
  - apply dt_cmp_eq in C1. rewrite C1, C2. reflexivity.
  - apply dt_cmp_eq in C2. rewrite <- C2, C1. reflexivity.
  - rewrite (dt_cmp_lt_trans _ _ _ C1 C2). reflexivity.
Qed.

(* strictly earlier departure: the key comparison is decided, one way only *)
Lemma act_key_lt (a b : oact) : dt_ltb (oa_dep a) (oa_dep b) = true ->
  act_key_leb a b = true /\ act_key_leb b a = false.
Proof.
  unfold act_key_leb, dt_ltb, dt_eqb. intros H. pose proof (dt_cmp_antisym (oa_dep a) (oa_dep b)) as AS.
  destruct (dt_cmp (oa_dep a) (oa_dep b)); try discriminate H. cbn [CompOpp] in AS. rewrite AS. auto.
Qed.

(** * 3. the rendered activities of a valid real tour are its inner nodes, in order *)
Lemma windows_snd {A} (l : list A) : map snd (windows l) = tl l.
Proof.
  induction l as [|a [|b r] IH]; try reflexivity.
  change (windows (a :: b :: r)) with ((a, b) :: windows (b :: r)). cbn [map snd tl]. rewrite IH. reflexivity.
Qed.

Lemma SS_map {A B} (f : A -> B) (R : B -> B -> Prop) l :
  StronglySorted (fun x y => R (f x) (f y)) l -> StronglySorted R (map f l).
Proof.
  induction 1 as [|a l S IH F]; cbn [map]; constructor; auto.
  rewrite Forall_forall in *. intros y Hy. apply in_map_iff in Hy. destruct Hy as (x & <- & Hx). auto.
Qed.

Lemma SS_in_order {A} (P : A -> A -> Prop) l x y :
  StronglySorted P l -> In x l -> In y l -> x = y \/ P x y \/ P y x.
Proof.
  induction 1 as [|a l S IH F]; intros Hx Hy; [destruct Hx|]. rewrite Forall_forall in F.
  destruct Hx as [<-|Hx], Hy as [<-|Hy]; auto.
Qed.

Section Acts.
Variable nw : network.
Hypothesis WF : net_wf_b nw = true.
Hypothesis DP : durations_pos_b nw = true.
Notation d0 := (SD 0).
Notation dep := (node_is_depot nw).
Notation svc := (fun n => is_service (nd nw n)).
Notation mnt := (fun n => is_maint (nd nw n)).
Let ltS (x y : node_id) : Prop := dt_ltb (start_time nw x) (start_time nw y) = true.
Let Rk (a b : oact) : Prop := act_key_leb a b = true.

Lemma nondep_starts_sorted l : connected nw l -> (forall x, In x l -> dep x = false) -> StronglySorted ltS l.
Proof.
  induction l as [|a r IH]; intros C ND; constructor.
  - apply IH; [eapply connected_tl; eauto|]. intros x Hx. apply ND. right; exact Hx.
  - apply Forall_forall. intros y Hy. destruct (In_nth _ _ d0 Hy) as (k & Lk & Ek).
    pose proof (connected_ordered nw WF DP (a :: r) 0 (S k) C ltac:(lia) ltac:(cbn [length]; lia)) as O.
    cbn [nth] in O. rewrite Ek in O. unfold ltS.
    destruct (dur_pos nw DP a) as [D|D].
    + change (is_depot (nd nw a)) with (dep a) in D. rewrite (ND a (or_introl eq_refl)) in D. discriminate.
    + eapply dt_lt_le_trans; [exact D|exact O].
Qed.

Lemma nondep_svc_mnt x : dep x = false -> is_service (nd nw x) = negb (is_maint (nd nw x)).
Proof. unfold node_is_depot. destruct (nd nw x); cbn; intros H; congruence. Qed.

Lemma sorted_acts inner : connected nw inner -> (forall x, In x inner -> dep x = false) ->
  map oa_node (sort_by act_key_leb (map (act_of nw) (filter svc inner) ++ map (act_of nw) (filter mnt inner))) = inner.
Proof.
  intros C ND. pose proof (nondep_starts_sorted inner C ND) as SS.
  rewrite <- map_app.
  rewrite (sort_by_perm_sorted act_key_leb act_key_total act_key_trans (map (act_of nw) inner)).
  - rewrite map_map. cbn [act_of oa_node]. apply map_id.
  - apply SS_map. eapply StronglySorted_ind with (P := fun l => StronglySorted _ l); [constructor| |exact SS].
    intros a l _ IH F. constructor; [exact IH|]. rewrite Forall_forall in *. intros y Hy.
    apply act_key_lt. cbn [act_of oa_dep]. apply F. exact Hy.
  - apply Permutation_map. apply filter_split_perm. intros x Hx. apply nondep_svc_mnt. apply ND. exact Hx.
  - intros a b Ha Hb Rab Rba. apply in_map_iff in Ha, Hb.
    destruct Ha as (x & <- & Hx). destruct Hb as (y & <- & Hy).
    destruct (SS_in_order ltS inner x y SS Hx Hy) as [->|[L|L]]; [reflexivity| |];
      apply (act_key_lt (act_of nw _) (act_of nw _)) in L; destruct L as [_ L]; congruence.
Qed.

Lemma RV_shape l : RV nw l -> l = hd d0 l :: removelast (tl l) ++ [last l d0].
Proof.
  intros R. pose proof (RV_length nw l R) as L3. destruct l as [|f r]; [cbn in L3; lia|].
  destruct r as [|g r']; [cbn in L3; lia|]. cbn [hd tl]. f_equal.
  change (last (f :: g :: r') d0) with (last (g :: r') d0). apply app_removelast_last. discriminate.
Qed.

(* the activities listed for a valid real tour *)
Lemma tour_acts l : RV nw l ->
  map oa_node (sort_by act_key_leb
     (map (act_of nw) (filter svc (map snd (windows l))) ++ map (act_of nw) (filter mnt (map snd (windows l)))))
  = removelast (tl l).
Proof.
  intros R. rewrite windows_snd. pose proof (RV_shape l R) as SH.
  set (inner := removelast (tl l)) in *. set (e := last l d0) in *.
  assert (TL : tl l = inner ++ [e]) by (rewrite SH at 1; reflexivity).
  pose proof R as (NE & C & _ & He & _).
  assert (Ee : is_service (nd nw e) = false /\ is_maint (nd nw e) = false).
  { fold e in He. unfold edep in He. destruct (nd nw e); cbn in *; try discriminate; auto. }
  destruct Ee as [E1 E2].
  rewrite TL, !filter_app. cbn [filter]. rewrite E1, E2, !app_nil_r.
  apply sorted_acts.
  - assert (CT : connected nw (tl l)) by (destruct l; [exact C|eapply connected_tl; eauto]).
    rewrite TL in CT. apply connected_app in CT. tauto.
  - intros x Hx. unfold inner in Hx.
    apply (RV_inner nw l x); [exact R|exact Hx].
Qed.
End Acts.

(** * 4. the extra hypotheses (see the counterexamples at the end of the file) *)
(* H1, weakest form: the depot table names the two depot nodes of every stored tour *)
Definition DepotsNamed (nw : network) (s : schedule) : Prop :=
  forall v t, vget v (s_tours s) = Some t ->
    get_start_depot_node nw (get_depot_idx nw (first_node t)) = first_node t /\
    get_end_depot_node nw (get_depot_idx nw (last_node t)) = last_node t.
(* H1, network form: the depot table names every depot node of the node table ... *)
Definition depots_named (nw : network) : Prop :=
  forall n, has_node nw n = true ->
    (is_start_depot (nd nw n) = true -> get_start_depot_node nw (get_depot_idx nw n) = n) /\
    (is_end_depot (nd nw n) = true -> get_end_depot_node nw (get_depot_idx nw n) = n).
(* ... and the stored tours start and end at nodes of the node table (an id that is not in the table reads as a
   start depot at no location in the model, and is an unwrap panic in the code) *)
Definition KnownEnds (nw : network) (s : schedule) : Prop :=
  forall v t, vget v (s_tours s) = Some t -> has_node nw (first_node t) = true /\ has_node nw (last_node t) = true.
(* H2: the per-type service listings enumerate the service nodes *)
Definition services_listed (nw : network) : Prop :=
  Permutation (flat_map (service_nodes nw) (type_ids nw)) (all_service_nodes nw).
(* H3: the transitions map has exactly the vehicle types as keys *)
Definition TransKeys (nw : network) (s : schedule) : Prop := map fst (s_trans s) = type_ids nw.

(** * 5. what render returns *)
Lemma render_fold {D} (rv : vehicle_id -> res (oveh * list D)) L : forall vs0 ds0 vs ds,
  fold_left (fun acc v => do (vs, ds) <- acc; do (ov, d) <- rv v; Ok (vs ++ [ov], ds ++ d)) L (Ok (vs0, ds0)) = Ok (vs, ds) ->
  exists ovs, vs = vs0 ++ ovs /\ Forall2 (fun v ov => exists d, rv v = Ok (ov, d)) L ovs.
Proof.
  induction L as [|a L IH]; intros vs0 ds0 vs ds H; cbn [fold_left] in H.
  - inversion H; subst. exists []. split; [now rewrite app_nil_r|constructor].
  - cbn [bind] in H. destruct (rv a) as [[ov d]| | |] eqn:E; cbn [bind] in H.
    + apply IH in H. destruct H as (ovs & -> & F). exists (ov :: ovs). split; [now rewrite <- app_assoc|].
      constructor; [exists d; exact E|exact F].
    + apply fold_res_strict in H; [destruct H as [y H]; discriminate H|].
      intros r v x G. destruct r; cbn [bind] in G; try discriminate G; eauto.
    + apply fold_res_strict in H; [destruct H as [y H]; discriminate H|].
      intros r v x G. destruct r; cbn [bind] in G; try discriminate G; eauto.
    + apply fold_res_strict in H; [destruct H as [y H]; discriminate H|].
      intros r v x G. destruct r; cbn [bind] in G; try discriminate G; eauto.
Qed.

Definition cyc_of (s : schedule) (ty : Z) : list (list vehicle_id) :=
  match zget ty (s_trans s) with Some tr => map fst (tr_cycles tr) | None => [] end.

Lemma cycles_fold s tys : forall l0 cyc,
  fold_left (fun acc ty => do l <- acc; do tr <- unwrap_opt (zget ty (s_trans s));
                           Ok (l ++ [(ty, map fst (tr_cycles tr))])) tys (Ok l0) = Ok cyc ->
  cyc = l0 ++ map (fun ty => (ty, cyc_of s ty)) tys.
Proof.
  induction tys as [|ty tys IH]; intros l0 cyc H; cbn [fold_left] in H.
  - inversion H; subst. cbn [map]. now rewrite app_nil_r.
  - cbn [bind] in H. cbn [map]. destruct (zget ty (s_trans s)) as [tr|] eqn:E; cbn [unwrap_opt bind] in H.
    + apply IH in H. rewrite H, <- app_assoc. cbn [app]. f_equal. f_equal. unfold cyc_of. rewrite E. reflexivity.
    + apply fold_res_strict in H; [destruct H as [y H]; discriminate H|].
      intros r v x G. destruct r; cbn [bind] in G; try discriminate G; eauto.
Qed.

Lemma find_forall2 (P : vehicle_id -> oveh -> Prop) L ovs x :
  Forall2 P L ovs -> (forall v ov, P v ov -> ov_id ov = v) -> In x L ->
  exists ov, find (fun v => vid_eqb x (ov_id v)) ovs = Some ov /\ P x ov.
Proof.
  intros F ID. induction F as [|v ov L ovs Pv F IH]; intros Hx; [destruct Hx|].
  cbn [find]. destruct (vid_eqb x (ov_id ov)) eqn:E.
  - apply vid_eqb_eq in E. rewrite (ID _ _ Pv) in E. subst v. exists ov. auto.
  - destruct Hx as [->|Hx]; [|auto]. rewrite (ID _ _ Pv), vid_eqb_refl in E. discriminate.
Qed.

Lemma forall2_length {A B} (P : A -> B -> Prop) l1 l2 : Forall2 P l1 l2 -> length l1 = length l2.
Proof. induction 1; cbn [length]; congruence. Qed.

Lemma forall2_map_eq {A B C} (P : A -> B -> Prop) (f : A -> C) (g : B -> C) l1 l2 :
  Forall2 P l1 l2 -> (forall a b, P a b -> f a = g b) -> map f l1 = map g l2.
Proof. intros F H. induction F; cbn [map]; [reflexivity|]. f_equal; auto. Qed.

(** * 6. association lists and their key lists *)
Lemma assoc_map_keys {K T} (eqb : K -> K -> bool) (Heq : forall a b, eqb a b = true <-> a = b)
    (f : T -> Z) (l : list (K * T)) : NoDup (map fst l) ->
  map (fun p => f (snd p)) l = map (fun k => match assoc eqb k l with Some t => f t | None => 0 end) (map fst l).
Proof.
  induction l as [|[k t] l IH]; intros N; [reflexivity|]. cbn [map fst snd assoc]. inversion N as [|? ? NI N']; subst.
  assert (E : eqb k k = true) by (apply Heq; reflexivity). rewrite E. f_equal.
  rewrite (IH N'). apply map_ext_in. intros k' Hk'.
  destruct (eqb k' k) eqn:E'; [|reflexivity]. apply Heq in E'. subst k'. contradiction.
Qed.

Lemma zeqb_eq a b : (a =? b) = true <-> a = b.
Proof. apply Z.eqb_eq. Qed.

Lemma z_sum_map_add {A} (f g : A -> Z) l : z_sum (map (fun x => f x + g x) l) = z_sum (map f l) + z_sum (map g l).
Proof. induction l as [|x l IH]; [reflexivity|]. cbn [map]. rewrite !z_sum_cons, IH. lia. Qed.

Lemma SS_lt_nodup l : StronglySorted vid_lt l -> NoDup l.
Proof.
  induction 1 as [|a l S IH F]; constructor; [|exact IH]. intros Hin. rewrite Forall_forall in F.
  specialize (F a Hin). unfold vid_lt, vid_ltb in F. rewrite vid_cmp_refl in F. discriminate.
Qed.

Lemma vget_some_iff {T} v (l : list (vehicle_id * T)) : In v (map fst l) <-> exists x, vget v l = Some x.
Proof.
  split.
  - intros H. destruct (vget v l) eqn:G; [eauto|]. apply vget_none_keys in G. contradiction.
  - intros [x G]. eapply vget_in_keys; eauto.
Qed.

(** * 7. the main argument *)
Section Main.
Variable nw : network.
Hypothesis WF : net_wf_b nw = true.
Hypothesis DP : durations_pos_b nw = true.
Hypothesis SL : services_listed nw.
Variable s : schedule.
Hypothesis DN : DepotsNamed nw s.
Hypothesis TK : TransKeys nw s.
Hypothesis TO : ToursOK nw s.
Hypothesis LO : ListingOK nw s.
Hypothesis FO : FormsOK nw s.
Hypothesis TE : ToursExact nw s.
Hypothesis TR : TransOK nw s.
Hypothesis VO : ViolOK s.
Hypothesis CO : CostsOK nw s.
Hypothesis UO : UnservedOK nw s.
Notation L := (vehicles_iter_all nw s).
Notation d0 := (SD 0).

(** ** the vehicle listing *)
Lemma iter_all_in v : In v L <-> In v (map fst (s_vehicles s)).
Proof.
  unfold vehicles_iter_all. rewrite in_flat_map. split.
  - intros (ty & _ & H). apply (lo_ids nw s LO) in H. eapply vget_in_keys; eauto.
  - intros H. apply vget_some_iff in H. destruct H as [ty G]. exists ty.
    apply (lo_ids nw s LO) in G. split; [|exact G].
    unfold vehicles_iter in G. destruct (zget ty (s_ids s)) as [l|] eqn:Z; [|destruct G].
    apply (assoc_in Z.eqb zeqb_eq) in Z. rewrite <- (lo_ids_keys nw s LO). unfold keys.
    apply in_map_iff. exists (ty, l). auto.
Qed.

Lemma iter_all_nodup : NoDup L.
Proof.
  unfold vehicles_iter_all. apply NoDup_flat_map.
  - apply type_ids_nodup.
  - intros ty _. apply SS_lt_nodup. apply (lo_ids_sorted nw s LO).
  - intros x y v _ _ H1 H2. apply (lo_ids nw s LO) in H1, H2. congruence.
Qed.

Lemma iter_all_perm_vehicles : Permutation (map fst (s_vehicles s)) L.
Proof.
  apply NoDup_Permutation; [apply (lo_veh_nodup nw s LO)|apply iter_all_nodup|]. intros v. symmetry. apply iter_all_in.
Qed.

Lemma iter_all_perm_tours : Permutation (map fst (s_tours s)) L.
Proof.
  apply NoDup_Permutation; [apply (lo_tours_nodup nw s LO)|apply iter_all_nodup|]. intros v.
  rewrite iter_all_in. symmetry. apply (lo_same_keys nw s LO).
Qed.

(** ** one rendered vehicle *)
Definition VehOK (v : vehicle_id) (ov : oveh) : Prop :=
  exists ty t, vget v (s_vehicles s) = Some ty /\ vget v (s_tours s) = Some t /\
    ov_id ov = v /\ ov_type ov = ty /\
    ov_sdepot ov = get_depot_idx nw (first_node t) /\ ov_edepot ov = get_depot_idx nw (last_node t) /\
    tour_of_veh nw ov = t.

Lemma real_tour_facts v t : vget v (s_tours s) = Some t -> t_dummy t = false /\ RV nw (t_nodes t).
Proof.
  intros G. destruct (to_real nw s TO v t G) as (ty & _ & R). unfold real_tour_ok in R.
  rewrite !andb_true_iff in R. destruct R as (((_ & D) & V) & _). apply negb_true_iff in D.
  split; [exact D|]. apply valid_tour_nodes_RV. exact V.
Qed.

Lemma render_vehicle_ok v ov d : render_vehicle nw s v = Ok (ov, d) -> VehOK v ov.
Proof.
  intros H. unfold render_vehicle in H. mon H. mon H. mon H. apply unwrap_opt_ok in E. apply panic_ok in E0.
  assert (G : vget v (s_tours s) = Some a0).
  { assert (I : In v (map fst (s_tours s))).
    { apply (lo_same_keys nw s LO). eapply vget_in_keys; eauto. }
    apply vget_some_iff in I. destruct I as [t G]. unfold tour_of in E0. rewrite G in E0. congruence. }
  destruct (real_tour_facts v a0 G) as [D R]. destruct (DN v a0 G) as [N1 N2].
  inversion H; subst ov d; clear H. exists a, a0. cbn [ov_id ov_type ov_sdepot ov_edepot].
  do 6 (split; [auto|]).
  unfold tour_of_veh, itinerary. cbn [ov_sdepot ov_edepot ov_acts].
  rewrite (tour_acts nw WF DP _ R), N1, N2.
  unfold first_node, last_node, nth_node, tlen. rewrite <- hd_nth0, <- last_nth, <- (RV_shape nw _ R).
  destruct TE as [TE1 _]. rewrite <- D. symmetry. apply (TE1 v a0 G).
Qed.

(** ** the four objective components *)
Section Out.
Variable out : outp.
Hypothesis OV : Forall2 VehOK L (o_vehicles out).
Hypothesis OC : o_cycles out = map (fun ty => (ty, cyc_of s ty)) (type_ids nw).
Hypothesis OS : o_segs out = flat_map (fun ty => map (seg_of nw s ty) (service_nodes nw ty)) (type_ids nw).

Lemma veh_lookup x : In x L -> exists ov, veh_by_id out x = Some ov /\ VehOK x ov.
Proof.
  intros H. unfold veh_by_id. apply (find_forall2 VehOK L); auto.
  intros v ov (ty & t & _ & _ & I & _). exact I.
Qed.

Lemma nveh_eq : Z.of_nat (length (s_vehicles s)) = Z.of_nat (length (o_vehicles out)).
Proof.
  f_equal. rewrite <- (forall2_length _ _ _ OV), <- (Permutation_length iter_all_perm_vehicles). now rewrite map_length.
Qed.

Lemma costs_eq : s_costs s = eval_costs nw out.
Proof.
  destruct CO as [ND ->]. unfold eval_costs. f_equal.
  rewrite (map_ext (fun '(_, t) => t_costs t) (fun p : vehicle_id * tour => t_costs (snd p))) by (intros [k t]; reflexivity).
  rewrite (assoc_map_keys vid_eqb vid_eqb_eq t_costs _ ND).
  rewrite (z_sum_perm _ _ (Permutation_map _ iter_all_perm_tours)). f_equal.
  apply (forall2_map_eq VehOK); [exact OV|].
  intros v ov (ty & t & _ & G & _ & _ & _ & _ & T). fold (vget v (s_tours s)). rewrite G, T. reflexivity.
Qed.

(* the recomputed counter of a cycle of listed vehicles, read off the tours and read off the rendered output *)
Lemma cycle_eq l : (forall v, In v l -> In v L) ->
  cycle_counter nw (tfn nw (s_tours s)) l = eval_cycle nw out l.
Proof.
  intros IN. unfold cycle_counter, eval_cycle. f_equal; f_equal.
  - apply map_ext_in. intros v Hv. destruct (veh_lookup v (IN v Hv)) as (ov & F & (ty & t & _ & G & _ & _ & _ & _ & T)).
    unfold mc_of_v, tfn, omc. rewrite G, F, T. reflexivity.
  - change (cyclic_pairs l) with (cyc_pairs l). apply map_ext_in. intros [a b] Hab.
    assert (AB : In a l /\ In b l).
    { unfold cyc_pairs in Hab. destruct l as [|f r]; [destruct Hab|]. apply windows_in in Hab.
      destruct Hab as [Ha Hb]. split.
      - apply in_app_or in Ha. destruct Ha as [Ha|[<-|[]]]; [exact Ha|left; reflexivity].
      - apply in_app_or in Hb. destruct Hb as [Hb|[<-|[]]]; [exact Hb|left; reflexivity]. }
    destruct AB as [Ha Hb].
    destruct (veh_lookup a (IN a Ha)) as (oa & Fa & (tya & ta & _ & Ga & _ & _ & _ & Ea & _)).
    destruct (veh_lookup b (IN b Hb)) as (ob & Fb & (tyb & tb & _ & Gb & _ & _ & Sb & _ & _)).
    unfold transfer_m, ed_of_v, sd_of_v, tfn, oedep, osdep. rewrite Ga, Gb, Fa, Fb, Ea, Sb. cbn [info_of vi_ed vi_sd].
    rewrite (proj2 (DN a ta Ga)), (proj1 (DN b tb Gb)). reflexivity.
Qed.

Lemma viol_eq : s_viol s = eval_violation nw out.
Proof.
  destruct VO as [ND ->]. unfold eval_violation. rewrite OC, map_map.
  rewrite (map_ext (fun '(_, t) => tr_viol t) (fun p : Z * transition => tr_viol (snd p))) by (intros [k t]; reflexivity).
  rewrite (assoc_map_keys Z.eqb zeqb_eq tr_viol _ ND). rewrite TK. f_equal.
  apply map_ext_in. intros ty Hty. destruct (TR ty Hty) as (tr & G & TI).
  fold (zget ty (s_trans s)). unfold cyc_of. rewrite G, (ti_viol _ _ _ _ TI), map_map. f_equal.
  apply map_ext_in. intros c Hc. f_equal.
  destruct (In_nth_error _ _ Hc) as [k Hk]. rewrite (ti_counter _ _ _ _ TI k c Hk).
  apply cycle_eq. intros v Hv.
  assert (M : In v (members_of tr)).
  { unfold members_of. apply in_concat. exists (fst c). split; [apply in_map; exact Hc|exact Hv]. }
  apply (ti_members _ _ _ _ TI) in M. unfold vehicles_iter_all. apply in_flat_map. exists ty. auto.
Qed.

Lemma cap_eq v ty : vget v (s_vehicles s) = Some ty -> ocap nw out v = type_cap nw ty /\ oseats nw out v = type_seats nw ty.
Proof.
  intros G. assert (I : In v L) by (apply iter_all_in; eapply vget_in_keys; eauto).
  destruct (veh_lookup v I) as (ov & F & (ty' & t & G' & _ & _ & Ty & _)).
  unfold ocap, oseats, type_cap, type_seats. rewrite F, Ty. assert (ty' = ty) by congruence. subst. auto.
Qed.

Definition uns_of (n : node_id) : Z :=
  Z.max 0 (passengers_of nw n - z_sum (map (ocap nw out) (map fst (form_at s n)))) +
  Z.max 0 (seated_of nw n - z_sum (map (oseats nw out) (map fst (form_at s n)))).

Lemma uns_of_eq n : uns_of n = fst (unserved_at_node nw n (form_at s n)) + snd (unserved_at_node nw n (form_at s n)).
Proof.
  unfold uns_of, unserved_at_node. cbn [fst snd]. rewrite !map_map.
  assert (E : forall v ty, In (v, ty) (form_at s n) -> vget v (s_vehicles s) = Some ty).
  { unfold form_at. destruct (nget n (s_forms s)) as [f|] eqn:G; [|intros v ty []].
    intros v ty H. apply (fo_member nw s FO n f v ty G) in H. tauto. }
  rewrite (map_ext_in (fun x => ocap nw out (fst x)) (fun '(_, ty) => type_cap nw ty))
    by (intros [v ty] H; apply (cap_eq v ty (E v ty H))).
  rewrite (map_ext_in (fun x => oseats nw out (fst x)) (fun '(_, ty) => type_seats nw ty))
    by (intros [v ty] H; apply (cap_eq v ty (E v ty H))).
  reflexivity.
Qed.

Lemma segs_map : forall tys,
  map (fun sg => Z.max 0 (passengers_of nw (os_node sg) - z_sum (map (ocap nw out) (os_form sg))) +
                 Z.max 0 (seated_of nw (os_node sg) - z_sum (map (oseats nw out) (os_form sg))))
      (flat_map (fun ty => map (seg_of nw s ty) (service_nodes nw ty)) tys)
  = map uns_of (flat_map (service_nodes nw) tys).
Proof.
  induction tys as [|ty tys IH]; [reflexivity|]. cbn [flat_map]. rewrite !map_app, IH. f_equal.
  rewrite map_map. apply map_ext. intros n. unfold uns_of, form_at. cbn [seg_of os_node os_form].
  destruct (nget n (s_forms s)); reflexivity.
Qed.

Lemma uns_eq : fst (s_unserved s) + snd (s_unserved s) = eval_unserved nw out.
Proof.
  destruct UO as [_ ->]. cbn [fst snd]. unfold eval_unserved. rewrite OS, segs_map.
  rewrite (z_sum_perm _ _ (Permutation_map uns_of SL)).
  rewrite <- z_sum_map_add. f_equal. apply map_ext. intros n. symmetry. apply uns_of_eq.
Qed.

Lemma check_C04_ok :
  o_obj out = (fst (s_unserved s) + snd (s_unserved s), s_viol s, Z.of_nat (length (s_vehicles s)), s_costs s) ->
  check_C04 nw out = [].
Proof.
  intros OO. unfold check_C04. rewrite OO.
  rewrite uns_eq, viol_eq, nveh_eq, costs_eq, !Z.eqb_refl. reflexivity.
Qed.
End Out.

Lemma render_C04_main out : render nw s = Ok out -> check_C04 nw out = [].
Proof.
  intros RE. unfold render in RE. mon RE. destruct a as [vs ds]. mon RE. inversion RE; subst out; clear RE.
  apply render_fold in E. destruct E as (ovs & -> & F). cbn [app] in *.
  apply cycles_fold in E0. cbn [app] in E0. subst a.
  apply check_C04_ok; cbn [o_vehicles o_cycles o_segs o_obj fst]; try reflexivity.
  induction F as [|v ov L0 ovs0 [d H] F IH]; constructor; [eapply render_vehicle_ok; eauto|exact IH].
Qed.
End Main.

(** * 8. C04 under the three explicit hypotheses *)
Theorem render_C04_under_depots_services_transkeys : forall nw,
  net_fine nw -> services_listed nw ->
  forall s out, DepotsNamed nw s -> TransKeys nw s ->
    ToursOK nw s -> ListingOK nw s -> FormsOK nw s -> ToursExact nw s -> TransOK nw s ->
    ViolOK s -> CostsOK nw s -> UnservedOK nw s ->
    render nw s = Ok out -> check_C04 nw out = [].
Proof.
  intros nw (OK & _ & _) SL s out DN TK TO LO FO TE TR VO CO UO RE.
  unfold net_ok_b in OK. apply andb_true_iff in OK. destruct OK as [WF DP].
  eapply render_C04_main; eauto.
Qed.

(* the network form of H1 *)
Lemma depots_named_DepotsNamed nw s : depots_named nw -> KnownEnds nw s -> ToursOK nw s -> DepotsNamed nw s.
Proof.
  intros DN KE TO v t G. destruct (KE v t G) as [K1 K2].
  destruct (to_real nw s TO v t G) as (ty & _ & R). unfold real_tour_ok in R.
  rewrite !andb_true_iff in R. destruct R as (((_ & _) & V) & _). apply valid_tour_nodes_RV in V.
  split.
  - apply (proj1 (DN _ K1)). apply (RV_first nw). exact V.
  - apply (proj2 (DN _ K2)). apply (RV_last nw). exact V.
Qed.

Theorem render_C04_under_net : forall nw,
  net_fine nw -> depots_named nw -> services_listed nw ->
  forall s out, KnownEnds nw s -> TransKeys nw s ->
    ToursOK nw s -> ListingOK nw s -> FormsOK nw s -> ToursExact nw s -> TransOK nw s ->
    ViolOK s -> CostsOK nw s -> UnservedOK nw s ->
    render nw s = Ok out -> check_C04 nw out = [].
Proof.
  intros nw NF DN SL s out KE TK TO. apply render_C04_under_depots_services_transkeys; auto.
  apply depots_named_DepotsNamed; auto.
Qed.

(** * 9. H3 holds of every reachable schedule: the transitions map keeps the vehicle types as its keys *)
From RS Require SchedViolFacts.
Module TKeys.
Import SchedViolFacts.

Definition KI (K : list Z) (p : list (Z * transition) * Z) : Prop := map fst (fst p) = K.

Lemma KI_step K tr vi vi' ty old new_t : zget ty tr = Some old -> KI K (tr, vi) -> KI K (zset ty new_t tr, vi').
Proof. intros Hg H. unfold KI in *. cbn [fst] in *. rewrite (zset_repl _ _ _ _ Hg), zrepl_keys. exact H. Qed.

Lemma update_transitions_PRK K nw s tr vi ch veh tours :
  KI K (tr, vi) -> PR (KI K) (update_transitions nw s tr vi ch veh tours).
Proof.
  intros H0. unfold update_transitions.
  apply PR_bind. intros [[tr' vi'] upd'] Hf. cbn [PR].
  set (P3 := fun a : list (Z * transition) * Z * list (vehicle_id * tour) => KI K (fst (fst a), snd (fst a))).
  change (P3 (tr', vi', upd')).
  eapply PR_ok; [|exact Hf].
  apply PR_fold; [|exact H0].
  clear. intros acc v Hacc.
  destruct acc as [[[tr vi] upd]| | |]; cbn [bind]; try exact I.
  destruct (negb (vid_is_real v)); [exact Hacc|].
  apply PR_bind; intros ty _.
  apply PR_bind; intros old Hold. apply unwrap_opt_ok in Hold.
  apply PR_bind; intros [new_t upd2] _.
  cbn [PR]. unfold P3; cbn [fst snd].
  eapply KI_step; [exact Hold | exact Hacc].
Qed.

Lemma recompute_transitions_PRK K nw tr vi ids tours types :
  KI K (tr, vi) -> PR (KI K) (recompute_transitions nw tr vi ids tours types).
Proof.
  intros H0. unfold recompute_transitions.
  apply PR_fold; [|exact H0].
  clear. intros acc ty Hacc.
  destruct acc as [[tr vi]| | |]; cbn [bind]; try exact I.
  apply PR_bind; intros vs _.
  apply PR_bind; intros nt _.
  apply PR_bind; intros old Hold. apply unwrap_opt_ok in Hold.
  cbn [PR]. eapply KI_step; [exact Hold | exact Hacc].
Qed.

Lemma update_transitions_K K nw s tr vi ch veh tours tr' vi' :
  map fst tr = K -> update_transitions nw s tr vi ch veh tours = Ok (tr', vi') -> map fst tr' = K.
Proof. intros H E. exact (PR_ok (KI K) _ _ (update_transitions_PRK K nw s tr vi ch veh tours H) E). Qed.

Lemma recompute_transitions_K K nw tr vi ids tours types tr' vi' :
  map fst tr = K -> recompute_transitions nw tr vi ids tours types = Ok (tr', vi') -> map fst tr' = K.
Proof. intros H E. exact (PR_ok (KI K) _ _ (recompute_transitions_PRK K nw tr vi ids tours types H) E). Qed.

Ltac finK H0 :=
  cbn [PR fst]; unfold with_fields, TransKeys; cbn [s_trans];
  first [ eapply update_transitions_K; [exact H0 | eassumption]
        | eapply recompute_transitions_K; [exact H0 | eassumption] ].

Definition Q1 nw (s : schedule) : Prop := TransKeys nw s.
Definition Q2 {B} nw (p : schedule * B) : Prop := TransKeys nw (fst p).

Lemma spawn_K nw s ty path : TransKeys nw s -> PR (Q2 nw) (spawn_vehicle_for_path nw s ty path).
Proof. intros H0. unfold spawn_vehicle_for_path, Q2. crunch. finK H0. Qed.

Lemma spawn_dummy_K nw s d ty : TransKeys nw s -> PR (Q2 nw) (spawn_to_replace_dummy nw s d ty).
Proof.
  intros H0. unfold spawn_to_replace_dummy.
  apply PR_bind; intros nodes _. apply PR_bind; intros s1 H1.
  apply spawn_K. apply delete_dummy_same in H1. destruct H1 as [E1 _].
  unfold TransKeys. rewrite E1. exact H0.
Qed.

Lemma replace_K nw s v : TransKeys nw s -> PR (Q1 nw) (replace_vehicle_by_dummy nw s v).
Proof. intros H0. unfold replace_vehicle_by_dummy, Q1, add_dummy_tour. crunch; finK H0. Qed.

Lemma add_path_K nw s v path : TransKeys nw s -> PR (Q2 nw) (add_path_to_vehicle_tour nw s v path).
Proof. intros H0. unfold add_path_to_vehicle_tour, Q2. crunch; finK H0. Qed.

Lemma remove_segment_K nw s seg v : TransKeys nw s -> PR (Q1 nw) (remove_segment nw s seg v).
Proof.
  intros H0. unfold remove_segment. crunch; try (apply replace_K; exact H0).
  all: unfold Q1, add_dummy_tour; crunch; finK H0.
Qed.

Lemma fit_K nw s seg p r : TransKeys nw s -> PR (Q1 nw) (fit_reassign nw s seg p r).
Proof. intros H0. unfold fit_reassign, Q1. crunch; finK H0. Qed.

Lemma override_K nw s seg p r : TransKeys nw s -> PR (Q2 nw) (override_reassign nw s seg p r).
Proof. intros H0. unfold override_reassign, Q2. crunch; finK H0. Qed.

Lemma improve_K nw s vs : TransKeys nw s -> PR (Q1 nw) (improve_depots nw s vs).
Proof. intros H0. unfold improve_depots, Q1. destruct vs; crunch; finK H0. Qed.

Lemma greedy_K nw s : TransKeys nw s -> PR (Q1 nw) (reassign_end_depots_greedily nw s).
Proof. intros H0. unfold reassign_end_depots_greedily, Q1. crunch; finK H0. Qed.

Lemma recompute_for_K nw s ts : TransKeys nw s -> PR (Q1 nw) (recompute_transitions_for nw s ts).
Proof. intros H0. unfold recompute_transitions_for, Q1. crunch; finK H0. Qed.

Lemma consistent_K nw s : TransKeys nw s -> PR (Q1 nw) (reassign_end_depots_consistent nw s).
Proof. intros H0. unfold reassign_end_depots_consistent, Q1. crunch; finK H0. Qed.

Lemma empty_K nw s : empty_schedule nw = Ok s -> TransKeys nw s.
Proof.
  destruct (new_fast_nil nw) as [t0 [E _]].
  unfold empty_schedule. rewrite (empty_fold nw t0 E). cbn [bind app].
  intros H; inversion H; subst; clear H. unfold TransKeys; cbn [s_trans].
  rewrite map_map; cbn [fst]. apply map_id.
Qed.

Lemma step_K nw s s' : TransKeys nw s -> step nw s s' -> TransKeys nw s'.
Proof.
  intros H0 St; destruct St as
    [s ty path s' v E | s d ty s' v E | s v s' E | s v path s' c E | s seg v s' E | s seg p r s' E
    | s seg p r s' d E | s vs s' E | s s' E | s ts s' E | s s' E].
  - exact (PR_ok _ _ _ (spawn_K nw s ty path H0) E).
  - exact (PR_ok _ _ _ (spawn_dummy_K nw s d ty H0) E).
  - exact (PR_ok _ _ _ (replace_K nw s v H0) E).
  - exact (PR_ok _ _ _ (add_path_K nw s v path H0) E).
  - exact (PR_ok _ _ _ (remove_segment_K nw s seg v H0) E).
  - exact (PR_ok _ _ _ (fit_K nw s seg p r H0) E).
  - exact (PR_ok _ _ _ (override_K nw s seg p r H0) E).
  - exact (PR_ok _ _ _ (improve_K nw s vs H0) E).
  - exact (PR_ok _ _ _ (greedy_K nw s H0) E).
  - exact (PR_ok _ _ _ (recompute_for_K nw s ts H0) E).
  - exact (PR_ok _ _ _ (consistent_K nw s H0) E).
Qed.
End TKeys.

Theorem reachable_trans_keys : forall nw s, reachable nw s -> TransKeys nw s.
Proof.
  intros nw s R. induction R as [s E | s s' R IH St].
  - apply (TKeys.empty_K nw); exact E.
  - apply (TKeys.step_K nw s s'); assumption.
Qed.

(* the two steps of the pipeline outside [step] keep the keys as well *)
Lemma set_next_day_trans_keys nw s trans : map fst trans = type_ids nw -> TransKeys nw (set_next_day_transitions s trans).
Proof. intros H. exact H. Qed.
Lemma consistent_trans_keys nw s s' : TransKeys nw s -> reassign_end_depots_consistent nw s = Ok s' -> TransKeys nw s'.
Proof. intros H E. exact (SchedViolFacts.PR_ok _ _ _ (TKeys.consistent_K nw s H) E). Qed.

(** * 10. networks built by [load] *)
From RS Require Import LoadStmts LoadFacts PipelineSchedFacts.

Lemma dn_node deps : forall s, idx_from s deps -> forall id n, In (id, n) (flat_map Ldentry_of (dn_of s deps)) ->
  exists k d, nth_error deps k = Some d /\
    ((id = SD (2 * Z.of_nat (s + k)) /\ exists lc, n = NStart {| dn_depot := Z.of_nat (s + k); dn_loc := lc |}) \/
     (id = ED (2 * Z.of_nat (s + k) + 1) /\ exists lc, n = NEnd {| dn_depot := Z.of_nat (s + k); dn_loc := lc |})).
Proof.
  induction deps as [|dd deps IH]; intros s IX id n H.
  - destruct H.
  - apply idx_from_cons in IX. destruct IX as [E0 IX].
    unfold dn_of in H. cbn [length seq combine map flat_map Ldentry_of app] in H. fold (dn_of (S s) deps) in H.
    destruct H as [H|[H|H]].
    + inversion H; subst. exists 0%nat, dd. split; [reflexivity|]. left. rewrite Nat.add_0_r. split; [reflexivity|].
      rewrite E0. eauto.
    + inversion H; subst. exists 0%nat, dd. split; [reflexivity|]. right. rewrite Nat.add_0_r. split; [reflexivity|].
      rewrite E0. eauto.
    + destruct (IH (S s) IX id n H) as (k & d & G & Q). exists (S k), d. split; [exact G|].
      replace (s + S k)%nat with (S s + k)%nat by lia. exact Q.
Qed.

Theorem load_depots_named : forall i perm nw, load i perm = Ok nw -> depots_named nw.
Proof.
  intros i perm nw H. rewrite load_eq in H.
  destruct (time_span i) as [[e0 l0]| | |]; cbn [bind] in H; try discriminate H.
  destruct (planning_of e0 l0) as [p0| | |]; cbn [bind] in H; try discriminate H.
  destruct (all_trips i) as [trips| | |]; cbn [bind] in H; try discriminate H.
  destruct (planning_of _ _) as [p1| | |]; cbn [bind] in H; try discriminate H.
  inversion H; subst nw; clear H.
  set (deps := Ldepots i perm trips).
  assert (IX : idx_from 0 deps).
  { unfold deps, Ldepots. apply idx_from_snoc; [apply make_depots_idx|]. reflexivity. }
  intros n HN. unfold has_node in HN. cbn [nw_nodes Lnet] in HN.
  destruct (assoc nid_eqb n (Lnodes i perm trips)) as [x|] eqn:A; [clear HN|discriminate HN].
  assert (ND : nd (Lnet i perm trips p0 p1) n = x) by (unfold nd; cbn [nw_nodes Lnet]; rewrite A; reflexivity).
  assert (DE : is_depot x = true -> exists k d, nth_error deps k = Some d /\
             ((n = SD (2 * Z.of_nat k) /\ exists lc, x = NStart {| dn_depot := Z.of_nat k; dn_loc := lc |}) \/
              (n = ED (2 * Z.of_nat k + 1) /\ exists lc, x = NEnd {| dn_depot := Z.of_nat k; dn_loc := lc |}))).
  { intros D. apply (assoc_in nid_eqb nid_eqb_eq) in A. unfold Lnodes in A.
    apply in_app_iff in A. destruct A as [A|A].
    - unfold Ldentries, Ldnodes in A. fold deps in A. fold (dn_of 0 deps) in A.
      exact (dn_node deps 0 IX n x A).
    - apply in_app_iff in A. destruct A as [A|A].
      + apply Lsvc_entries_in in A. destruct A as (y & -> & _). discriminate D.
      + apply Lm_entries_in in A. destruct A as (y & -> & _). discriminate D. }
  assert (EN : forall k d, nth_error deps k = Some d ->
             depot_entry (Lnet i perm trips p0 p1) (Z.of_nat k) = Some (d, SD (2 * Z.of_nat k), ED (2 * Z.of_nat k + 1))).
  { intros k d Nk. destruct (dn_entry deps 0 IX k d Nk) as [Q _]. cbn [Nat.add] in Q.
    unfold depot_entry. cbn [nw_depots Lnet]. unfold Ldentry, Ldnodes. fold deps. fold (dn_of 0 deps). exact Q. }
  rewrite ND. split; intros SD0.
  - destruct DE as (k & d & Nk & [[-> (lc & X)]|[_ (lc & X)]]).
    + unfold is_depot. rewrite SD0. reflexivity.
    + unfold get_start_depot_node, get_depot_idx. rewrite ND, X. cbn [dn_depot]. rewrite (EN k d Nk). reflexivity.
    + rewrite X in SD0. discriminate SD0.
  - destruct DE as (k & d & Nk & [[_ (lc & X)]|[-> (lc & X)]]).
    + unfold is_depot. rewrite SD0. apply orb_true_r.
    + rewrite X in SD0. discriminate SD0.
    + unfold get_end_depot_node, get_depot_idx. rewrite ND, X. cbn [dn_depot]. rewrite (EN k d Nk). reflexivity.
Qed.

Lemma flat_map_ext_in' {A B} (f g : A -> list B) l : (forall x, In x l -> f x = g x) -> flat_map f l = flat_map g l.
Proof.
  induction l as [|a l IH]; intros H; [reflexivity|]. cbn [flat_map]. rewrite (H a (or_introl eq_refl)).
  f_equal. apply IH. intros x Hx. apply H. right; exact Hx.
Qed.

Lemma flat_map_perm {A B} (f g : A -> list B) l :
  (forall x, Permutation (f x) (g x)) -> Permutation (flat_map f l) (flat_map g l).
Proof. intros H. induction l as [|a l IH]; [constructor|]. cbn [flat_map]. apply Permutation_app; auto. Qed.

Lemma map_flat_map' {A B C} (h : B -> C) (g : A -> list B) l : map h (flat_map g l) = flat_map (fun x => map h (g x)) l.
Proof. induction l as [|a l IH]; [reflexivity|]. cbn [flat_map]. rewrite map_app, IH. reflexivity. Qed.

Theorem load_services_listed : forall i perm nw, load i perm = Ok nw -> services_listed nw.
Proof.
  intros i perm nw H. rewrite load_eq in H.
  destruct (time_span i) as [[e0 l0]| | |]; cbn [bind] in H; try discriminate H.
  destruct (planning_of e0 l0) as [p0| | |]; cbn [bind] in H; try discriminate H.
  destruct (all_trips i) as [trips| | |]; cbn [bind] in H; try discriminate H.
  destruct (planning_of _ _) as [p1| | |]; cbn [bind] in H; try discriminate H.
  inversion H; subst nw; clear H. unfold services_listed.
  eapply Permutation_trans; [|apply Permutation_sym; apply Lall_service].
  change (type_ids (Lnet i perm trips p0 p1)) with (tids i).
  rewrite (flat_map_ext_in' _ (fun ty => Lsrt i perm trips p0 (Lsvc_list i perm trips ty)))
    by (intros ty Hty; apply Lservice_nodes; exact Hty).
  eapply Permutation_trans; [apply flat_map_perm; intros ty; apply sort_by_perm|].
  unfold Lsvc_list. rewrite <- map_flat_map'.
  set (E := Lsvc_entries i perm trips).
  set (key := fun e : node_id * node => match snd e with NService sv => st_type sv | _ => 0 end).
  assert (KE : forall e, In e E -> 0 <= key e < Z.of_nat (ntypes i)).
  { intros [id n] He. destruct (Lsvc_entries_in _ _ _ _ _ He) as (sv & -> & Hs). unfold key. cbn [snd].
    unfold Ltbt in Hs. apply in_flat_map in Hs. destruct Hs as (t & Ht & Hs). apply filter_In in Hs.
    destruct Hs as [_ Hs]. apply Z.eqb_eq in Hs. rewrite Hs. unfold tids in Ht. apply in_map_iff in Ht.
    destruct Ht as (k & <- & Hk). apply in_seq in Hk. lia. }
  rewrite (flat_map_ext_in' _ (fun t => filter (fun e => key e =? t) E)).
  2:{ intros t _. apply filter_ext_in. intros [id n] He.
      destruct (Lsvc_entries_in _ _ _ _ _ He) as (sv & -> & _). reflexivity. }
  unfold tids. rewrite (partition_perm key (ntypes i) E) by (intros e He; apply KE; exact He).
  rewrite filter_all_true by (intros e He; apply Z.ltb_lt; apply KE; exact He).
  unfold E, Lsvc_entries. rewrite (map_fst_combine _ _ (Lsvc_len i perm trips)). apply Permutation_refl.
Qed.

Lemma in_combine_ex {A B} (l1 : list A) : forall (l2 : list B) x, length l1 = length l2 -> In x l1 ->
  exists y, In (x, y) (combine l1 l2).
Proof.
  induction l1 as [|a l1 IH]; intros [|b l2] x L H; cbn [length] in L; try discriminate; [destruct H|].
  destruct H as [->|H]; [exists b; left; reflexivity|].
  destruct (IH l2 x ltac:(lia) H) as [y Hy]. exists y. right. exact Hy.
Qed.

Lemma nodup_app_r {A} (l1 l2 : list A) : NoDup (l1 ++ l2) -> NoDup l2.
Proof. induction l1 as [|a l1 IH]; intros N; [exact N|]. inversion N; subst. auto. Qed.

(* the last two parts of [net_fine] hold of every network built by [load] *)
Theorem load_maint_coverable : forall i perm nw, load i perm = Ok nw ->
  (forall m, In m (nw_maint nw) -> is_maint (nd nw m) = true) /\ NoDup (coverable_nodes nw).
Proof.
  intros i perm nw H. rewrite load_eq in H.
  destruct (time_span i) as [[e0 l0]| | |]; cbn [bind] in H; try discriminate H.
  destruct (planning_of e0 l0) as [p0| | |]; cbn [bind] in H; try discriminate H.
  destruct (all_trips i) as [trips| | |]; cbn [bind] in H; try discriminate H.
  destruct (planning_of _ _) as [p1| | |]; cbn [bind] in H; try discriminate H.
  inversion H; subst nw; clear H. split.
  - intros m Hm. cbn [nw_maint Lnet] in Hm. unfold Lsrt in Hm. apply sort_by_in in Hm.
    destruct (in_combine_ex _ _ m (Lm_len i perm trips) Hm) as [y Hy]. fold (Lm_entries i perm trips) in Hy.
    destruct (Lm_entries_in _ _ _ _ _ Hy) as (sl & -> & _).
    rewrite (Lnd i perm trips p0 m (NMaint (Lmk_slot sl)) p1); [reflexivity|]. unfold Lnodes. rewrite !in_app_iff. auto.
  - unfold coverable_nodes. cbn [nw_maint Lnet].
    apply (Permutation_NoDup (l := Lsvc_ids i perm trips ++ Lmids i perm trips)).
    + apply Permutation_app; [apply Permutation_sym; apply Lall_service|].
      apply Permutation_sym. unfold Lsrt. apply sort_by_perm.
    + pose proof (Lids_split_nodup i perm trips) as N. apply nodup_app_r in N. exact N.
Qed.

Theorem load_net_fine : forall i perm nw, valid_instance_b i = true -> perm_ok i perm -> load i perm = Ok nw -> net_fine nw.
Proof.
  intros i perm nw V P H. destruct (load_wf_partial i perm nw V P H) as (WF & DP & _).
  destruct (load_maint_coverable i perm nw H) as [M C].
  split; [|split; assumption]. unfold net_ok_b. now rewrite WF, DP.
Qed.

(** * 11. C04 for loaded networks *)
Theorem render_C04_loaded : forall i perm nw, load i perm = Ok nw -> net_fine nw ->
  forall s out, KnownEnds nw s -> TransKeys nw s ->
    ToursOK nw s -> ListingOK nw s -> FormsOK nw s -> ToursExact nw s -> TransOK nw s ->
    ViolOK s -> CostsOK nw s -> UnservedOK nw s ->
    render nw s = Ok out -> check_C04 nw out = [].
Proof.
  intros i perm nw LD NF. apply render_C04_under_net; [exact NF| |].
  - eapply load_depots_named; eauto.
  - eapply load_services_listed; eauto.
Qed.

(* valid instance, no more generated depots than locations: [net_fine] comes for free *)
Corollary render_C04_loaded_valid : forall i perm nw,
  valid_instance_b i = true -> perm_ok i perm -> load i perm = Ok nw ->
  forall s out, KnownEnds nw s -> TransKeys nw s ->
    ToursOK nw s -> ListingOK nw s -> FormsOK nw s -> ToursExact nw s -> TransOK nw s ->
    ViolOK s -> CostsOK nw s -> UnservedOK nw s ->
    render nw s = Ok out -> check_C04 nw out = [].
Proof. intros i perm nw V P LD. eapply render_C04_loaded; eauto. eapply load_net_fine; eauto. Qed.

(** * 12. The statement as written is false: three independent counterexamples, one per added hypothesis *)
From RS Require Import SchedListFacts SchedTransFacts SchedFormsFacts SchedUnservedFacts.

(* every invariant the statement assumes (and H3) holds after a history of spawns with valid paths *)
Lemma history_invariants nw s :
  net_fine nw -> dists_finite_b nw = true -> dh_dists_finite_b nw = true -> vreachable nw s -> dreachable nw s ->
  ToursOK nw s /\ ListingOK nw s /\ FormsOK nw s /\ ToursExact nw s /\ TransOK nw s /\
  ViolOK s /\ CostsOK nw s /\ UnservedOK nw s /\ TransKeys nw s.
Proof.
  intros (OK & M & C) DF DH V D. pose proof (vreachable_reachable nw s V) as R.
  split; [apply vreachable_tours; assumption|].
  split; [apply reachable_listing_under_distinct; assumption|].
  split; [apply vreachable_forms_under_maint_listed; assumption|].
  split; [apply vreachable_tours_exact; assumption|].
  split; [apply reachable_trans_under_distinct; assumption|].
  split; [exact (SchedViolFacts.reachable_viol nw s R)|].
  split; [exact (reachable_costs nw s R)|].
  split; [|apply reachable_trans_keys; assumption].
  apply (reachable_unserved nw C); [|exact R].
  intros n Hn. apply M in Hn. destruct (nd nw n); try discriminate; reflexivity.
Qed.

(** ** (A) H3: a transitions map with a key that is no vehicle type.
    Network without nodes and without vehicle types; schedule without vehicles whose transitions map has the single
    key 7 carrying violation 5, cached violation 5.  Every hypothesis of the statement holds ([TransOK] speaks of
    the keys in [type_ids] only, [ViolOK] sums over all keys); the output lists no cycles, so the recomputed violation
    is 0. *)
Definition trA : transition := Build_transition [] 5 0 [] [].   (* no cycles, violation 5 *)
Definition sA : schedule := with_fields [] [] [(7, trA)] [] [] [] 0 [] [] (0, 0) 5 0.

Lemma nwA_fine : net_fine nw_dflt.
Proof. split; [vm_compute; reflexivity|]. split; [intros m []|]. vm_compute. constructor. Qed.

Lemma sA_hyps : ToursOK nw_dflt sA /\ ListingOK nw_dflt sA /\ FormsOK nw_dflt sA /\ ToursExact nw_dflt sA /\
  TransOK nw_dflt sA /\ ViolOK sA /\ CostsOK nw_dflt sA /\ UnservedOK nw_dflt sA.
Proof.
  split; [constructor; intros v t G; discriminate G|].
  split.
  { constructor; cbn; try (constructor; fail); try tauto.
    intros v ty. split; [discriminate|intros []]. }
  split.
  { constructor; cbn; try (constructor; fail); try tauto.
    - intros n f G. discriminate G.
    - intros n f v ty G. discriminate G. }
  split; [split; intros v t G; discriminate G|].
  split; [intros ty []|].
  split; [split; [vm_compute; repeat constructor; intros []|reflexivity]|].
  split; [split; [constructor|reflexivity]|].
  split; [constructor|reflexivity].
Qed.

Lemma sA_render : exists out, render nw_dflt sA = Ok out /\ check_C04 nw_dflt out = [402].
Proof. eexists. split; vm_compute; reflexivity. Qed.

Lemma sA_not_transkeys : ~ TransKeys nw_dflt sA.
Proof. intros H. vm_compute in H. discriminate H. Qed.

Theorem render_C04_refuted_nwA : ~ stmt_render_C04 nw_dflt.
Proof.
  intros H. destruct sA_render as (out & RE & CK).
  destruct sA_hyps as (H1 & H2 & H3 & H4 & H5 & H6 & H7 & H8).
  rewrite (H nwA_fine sA out H1 H2 H3 H4 H5 H6 H7 H8 RE) in CK. discriminate CK.
Qed.

Theorem render_C04_refuted : ~ (forall nw, stmt_render_C04 nw).
Proof. intros H. exact (render_C04_refuted_nwA (H nw_dflt)). Qed.

Lemma sA_other_hyps : services_listed nw_dflt /\ DepotsNamed nw_dflt sA.
Proof. split; [vm_compute; constructor|intros v t G; discriminate G]. Qed.

(** ** (B) H1: a depot table that does not name the depot nodes.
    [nwC] (the loaded network of SchedToursFacts.v: depot 0 at station 0 with nodes SD 0 / ED 1, overflow depot 1 at
    no location with nodes SD 2 / ED 3) with the node columns of the depot table exchanged.  [net_fine] does not look
    at the table.  History: spawn a type-0 vehicle for the path [SV 4]; its tour is [SD 0; SV 4; ED 1].  The output
    names depot 0 for both ends, which the table resolves to SD 2 / ED 3, so the rebuilt itinerary is
    [SD 2; SV 4; ED 3]: costs and violation differ (clauses 402 and 404). *)
Definition nwB : network :=
  {| nw_nodes := nw_nodes nwC;
     nw_depots := map (fun '(d, (dp, _, _)) => (d, (dp, SD (2 - 2 * d), ED (3 - 2 * d)))) (nw_depots nwC);
     nw_overflow := nw_overflow nwC; nw_service := nw_service nwC;
     nw_maint := nw_maint nwC; nw_sdepots := nw_sdepots nwC; nw_edepots := nw_edepots nwC;
     nw_all_by_start := nw_all_by_start nwC; nw_type_by_start := nw_type_by_start nwC;
     nw_type_by_end := nw_type_by_end nwC; nw_params := nw_params nwC; nw_nlocs := nw_nlocs nwC; nw_dh := nw_dh nwC;
     nw_types := nw_types nwC; nw_nservice := nw_nservice nwC; nw_planning := nw_planning nwC |}.
Definition sB0 : schedule := Eval vm_compute in get_ok (empty_schedule nwB) s_dflt.
Definition sB1 : schedule :=
  Eval vm_compute in match spawn_vehicle_for_path nwB sB0 0 [SV 4] with Ok (s, _) => s | _ => s_dflt end.

Lemma nwB_fine : net_fine nwB.
Proof.
  split; [vm_compute; reflexivity|]. split.
  - intros m Hm. vm_compute in Hm. destruct Hm as [<-|[]]. vm_compute. reflexivity.
  - apply nodup_nid_iff. vm_compute. reflexivity.
Qed.

Lemma sB1_history : vreachable nwB sB1 /\ dreachable nwB sB1.
Proof.
  assert (E0 : empty_schedule nwB = Ok sB0) by (vm_compute; reflexivity).
  assert (E1 : spawn_vehicle_for_path nwB sB0 0 [SV 4] = Ok (sB1, Veh 0)) by (vm_compute; reflexivity).
  split.
  - eapply vr_step; [apply vr_empty; exact E0|]. eapply vs_spawn; [|exact E1].
    split; [discriminate|]. split; [intros a b []|vm_compute; reflexivity].
  - eapply dr_step; [apply dr_empty; exact E0|]. eapply ds_spawn. exact E1.
Qed.

Lemma sB1_render : exists out, render nwB sB1 = Ok out /\ check_C04 nwB out = [402; 404] /\
  map (fun '(_, t) => t_nodes t) (s_tours sB1) = [[SD 0; SV 4; ED 1]] /\
  map (itinerary nwB) (o_vehicles out) = [[SD 2; SV 4; ED 3]].
Proof. eexists. split; [vm_compute; reflexivity|]. split; [|split]; vm_compute; reflexivity. Qed.

Lemma sB1_other_hyps : services_listed nwB /\ TransKeys nwB sB1 /\ ~ DepotsNamed nwB sB1.
Proof.
  split; [vm_compute; apply Permutation_refl|]. split.
  - apply reachable_trans_keys. apply vreachable_reachable. apply sB1_history.
  - intros H. destruct (H (Veh 0) _ eq_refl) as [H1 _]. vm_compute in H1. discriminate H1.
Qed.

Theorem render_C04_refuted_nwB : ~ stmt_render_C04 nwB.
Proof.
  intros H. destruct sB1_render as (out & RE & CK & _). destruct sB1_history as [V D].
  destruct (history_invariants nwB sB1 nwB_fine ltac:(vm_compute; reflexivity) ltac:(vm_compute; reflexivity) V D)
    as (H1 & H2 & H3 & H4 & H5 & H6 & H7 & H8 & _).
  rewrite (H nwB_fine sB1 out H1 H2 H3 H4 H5 H6 H7 H8 RE) in CK. discriminate CK.
Qed.

(** ** (C) H2: a start-time index that does not list the service nodes.
    [nwC] with an empty [nw_all_by_start] (which [net_fine] does not look at): [all_service_nodes] is empty, so the
    cached unserved figures of the empty schedule are (0, 0), while the output lists the four trips of
    [service_nodes], each with 10 + 5 unserved passengers: clause 401. *)
Definition nwS : network :=
  {| nw_nodes := nw_nodes nwC; nw_depots := nw_depots nwC; nw_overflow := nw_overflow nwC; nw_service := nw_service nwC;
     nw_maint := nw_maint nwC; nw_sdepots := nw_sdepots nwC; nw_edepots := nw_edepots nwC;
     nw_all_by_start := []; nw_type_by_start := nw_type_by_start nwC;
     nw_type_by_end := nw_type_by_end nwC; nw_params := nw_params nwC; nw_nlocs := nw_nlocs nwC; nw_dh := nw_dh nwC;
     nw_types := nw_types nwC; nw_nservice := nw_nservice nwC; nw_planning := nw_planning nwC |}.
Definition sS0 : schedule := Eval vm_compute in get_ok (empty_schedule nwS) s_dflt.

Lemma nwS_fine : net_fine nwS.
Proof.
  split; [vm_compute; reflexivity|]. split.
  - intros m Hm. vm_compute in Hm. destruct Hm as [<-|[]]. vm_compute. reflexivity.
  - apply nodup_nid_iff. vm_compute. reflexivity.
Qed.

Lemma sS0_history : vreachable nwS sS0 /\ dreachable nwS sS0.
Proof.
  assert (E0 : empty_schedule nwS = Ok sS0) by (vm_compute; reflexivity).
  split; [apply vr_empty|apply dr_empty]; exact E0.
Qed.

Lemma sS0_render : exists out, render nwS sS0 = Ok out /\ check_C04 nwS out = [401] /\
  o_obj out = (0, 0, 0, 4) /\ eval_unserved nwS out = 60.
Proof. eexists. split; [vm_compute; reflexivity|]. split; [|split]; vm_compute; reflexivity. Qed.

Lemma sS0_other_hyps : DepotsNamed nwS sS0 /\ TransKeys nwS sS0 /\ ~ services_listed nwS.
Proof.
  split; [intros v t G; discriminate G|]. split.
  - apply reachable_trans_keys. apply vreachable_reachable. apply sS0_history.
  - intros H. unfold services_listed in H. apply Permutation_length in H. vm_compute in H. discriminate H.
Qed.

Theorem render_C04_refuted_nwS : ~ stmt_render_C04 nwS.
Proof.
  intros H. destruct sS0_render as (out & RE & CK & _). destruct sS0_history as [V D].
  destruct (history_invariants nwS sS0 nwS_fine ltac:(vm_compute; reflexivity) ltac:(vm_compute; reflexivity) V D)
    as (H1 & H2 & H3 & H4 & H5 & H6 & H7 & H8 & _).
  rewrite (H nwS_fine sS0 out H1 H2 H3 H4 H5 H6 H7 H8 RE) in CK. discriminate CK.
Qed.

(** C04 along histories: all the stated invariants are theorems there; what remains is KnownEnds *)
Theorem render_C04_history : forall nw,
  net_fine nw -> depots_named nw -> services_listed nw -> dists_finite_b nw = true -> dh_dists_finite_b nw = true ->
  forall s out, vreachable nw s -> dreachable nw s -> KnownEnds nw s ->
    render nw s = Ok out -> check_C04 nw out = [].
Proof.
  intros nw NF DN SL DF DH s out V D KE RE.
  destruct (history_invariants nw s NF DF DH V D) as (H1 & H2 & H3 & H4 & H5 & H6 & H7 & H8 & H9).
  eapply render_C04_under_net; eauto.
Qed.

(** * 13. the unknown-node artefact behind [KnownEnds]
    In the model an id that is not in the node table reads as a start depot of depot 0 at no location ([nd] returns
    [dummy_node]); in the code [Network::node] unwraps and panics.  A valid-Path history over the LOADED network [nwC]
    can therefore store a tour that starts at such an id, and the output (which names depot 0) rebuilds it from SD 0:
    spawn a type-0 vehicle for the path [SD 77; SV 4]. *)
Definition sK0 : schedule := Eval vm_compute in get_ok (empty_schedule nwC) s_dflt.
Definition sK1 : schedule :=
  Eval vm_compute in match spawn_vehicle_for_path nwC sK0 0 [SD 77; SV 4] with Ok (s, _) => s | _ => s_dflt end.
Lemma sK1_history : vreachable nwC sK1 /\ dreachable nwC sK1.
Proof.
  assert (E0 : empty_schedule nwC = Ok sK0) by (vm_compute; reflexivity).
  assert (E1 : spawn_vehicle_for_path nwC sK0 0 [SD 77; SV 4] = Ok (sK1, Veh 0)) by (vm_compute; reflexivity).
  split.
  - eapply vr_step; [apply vr_empty; exact E0|]. eapply vs_spawn; [|exact E1].
    split; [discriminate|]. split; [|vm_compute; reflexivity].
    intros a b [Q|[]]. inversion Q; subst. vm_compute. reflexivity.
  - eapply dr_step; [apply dr_empty; exact E0|]. eapply ds_spawn. exact E1.
Qed.
Lemma sK1_render : exists out, render nwC sK1 = Ok out /\ check_C04 nwC out <> [] /\
  map (fun '(_, t) => t_nodes t) (s_tours sK1) = [[SD 77; SV 4; ED 1]] /\
  map (itinerary nwC) (o_vehicles out) = [[SD 0; SV 4; ED 1]] /\ has_node nwC (SD 77) = false.
Proof.
  eexists. split; [vm_compute; reflexivity|]. split; [vm_compute; discriminate|].
  split; [|split]; vm_compute; reflexivity.
Qed.

Print Assumptions render_C04_under_depots_services_transkeys.
Print Assumptions render_C04_under_net.
Print Assumptions reachable_trans_keys.
Print Assumptions load_depots_named.
Print Assumptions load_services_listed.
Print Assumptions load_net_fine.
Print Assumptions render_C04_loaded.
Print Assumptions render_C04_loaded_valid.
Print Assumptions render_C04_history.
Print Assumptions render_C04_refuted_nwA.
Print Assumptions render_C04_refuted_nwB.
Print Assumptions render_C04_refuted_nwS.
Print Assumptions render_C04_refuted.
Print Assumptions sK1_render.
