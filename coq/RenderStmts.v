(* RenderStmts.v — end-to-end statements: the JSON rendered (Render.v = schedule_to_json, compared with the
   implementation's output on every pipeline run) from a schedule that satisfies the schedule-level invariants passes
   the output-level checkers of Output.v (whose meaning is stated in OutStmts.v / C04Stmts.v). Together with
   PipelineSched.v (every pipeline result satisfies those invariants) this gives C01-C05 for every run of the modelled
   pipeline. Proofs in RenderFacts*.v. *)
From RS Require Import Base Network NetSpec Tour TourStmts TourExactStmts TourExactFacts SchedObs Output Transition TransSpec
  Schedule SchedInv SchedStruct PipelineSched Render.

Section RS.
Variable nw : network.

(* the network facts a loaded network has (NetSpec.v, LoadStmts.v): executable well-formedness, listed maintenance ids
   are maintenance nodes, coverable nodes pairwise distinct *)
Definition net_fine : Prop :=
  net_ok_b nw = true /\ (forall m, In m (nw_maint nw) -> is_maint (nd nw m) = true) /\ NoDup (coverable_nodes nw).

(* every tour's cached figures equal recomputation (C09 tour level) *)
Definition ToursExact (s : schedule) : Prop :=
  (forall v t, vget v (s_tours s) = Some t -> tour_exact nw t) /\
  (forall d t, vget d (s_dummies s) = Some t -> tour_exact nw t).
Definition stmt_vreachable_tours_exact : Prop :=
  net_ok_b nw = true -> dists_finite_b nw = true -> dh_dists_finite_b nw = true ->
  forall s, vreachable nw s -> ToursExact s.

(* rendering never fails on a schedule with valid tours and exact listings *)
Definition stmt_render_total : Prop :=
  net_fine -> forall s, ToursOK nw s -> ListingOK nw s -> TransOK nw s -> exists out, render nw s = Ok out.

Definition stmt_render_C01 : Prop :=
  net_fine -> forall s out, ToursOK nw s -> ListingOK nw s -> render nw s = Ok out -> check_C01 nw out = [].

(* formation and track limits (clauses 201, 202); the depot clause 203 is not an invariant of arbitrary histories *)
Definition stmt_render_C02_formations : Prop :=
  net_fine -> forall s out, FormLimitsOK nw s -> FormsOK nw s -> render nw s = Ok out ->
    ~ In 201 (check_C02 nw out) /\ ~ In 202 (check_C02 nw out).

Definition stmt_render_C03 : Prop :=
  net_fine -> forall s out, ToursOK nw s -> ListingOK nw s -> FormsOK nw s -> UsageOK nw s ->
    render nw s = Ok out -> check_C03 nw out = [].

Definition stmt_render_C04 : Prop :=
  net_fine -> forall s out,
    ToursOK nw s -> ListingOK nw s -> FormsOK nw s -> ToursExact s -> TransOK nw s ->
    ViolOK s -> CostsOK nw s -> UnservedOK nw s ->
    render nw s = Ok out -> check_C04 nw out = [].

Definition stmt_render_C05 : Prop :=
  net_fine -> forall s out, ToursOK nw s -> ListingOK nw s -> TransOK nw s -> TransAligned nw s ->
    render nw s = Ok out -> check_C05 nw out = [].
End RS.
